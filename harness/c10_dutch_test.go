//go:build verif

package harness

import (
	"fmt"
	"math"
	"sort"
	"strings"
	"testing"
	"time"

	chain "github.com/comdex-official/comdex/app"
	"github.com/comdex-official/comdex/app/wasm/bindings"
	assettypes "github.com/comdex-official/comdex/x/asset/types"
	auctiontypes "github.com/comdex-official/comdex/x/auction/types"
	liquidationtypes "github.com/comdex-official/comdex/x/liquidation/types"
	auctionv1 "github.com/comdex-official/comdex/x/auction"
	"github.com/comdex-official/comdex/x/auctionsV2"
	auctionsV2types "github.com/comdex-official/comdex/x/auctionsV2/types"
	collectortypes "github.com/comdex-official/comdex/x/collector/types"
	esmtypes "github.com/comdex-official/comdex/x/esm/types"
	lendtypes "github.com/comdex-official/comdex/x/lend/types"
	liqV2types "github.com/comdex-official/comdex/x/liquidationsV2/types"
	markettypes "github.com/comdex-official/comdex/x/market/types"
	vaulttypes "github.com/comdex-official/comdex/x/vault/types"
	tmproto "github.com/cometbft/cometbft/proto/tendermint/types"
	sdk "github.com/cosmos/cosmos-sdk/types"
)

// ---------------------------------------------------------------------------------------------
// C10 — Dutch auctions.  Everything below is prefixed c10 to avoid clashes with other harness files.
// ---------------------------------------------------------------------------------------------

func c10raw(d sdk.Dec) string { return d.BigInt().String() }

func c10dec(s string) sdk.Dec { return sdk.MustNewDecFromStr(s) }

func c10addr(name string) sdk.AccAddress {
	b := []byte("c10_" + name + "____________________")
	return sdk.AccAddress(b[:20])
}

// c10deliver re-enacts baseapp's runMsgs discipline: ValidateBasic, then the routed handler on a cached
// context that is written back only on success; a panic is an outcome.
func c10deliver(app *chain.App, ctx sdk.Context, msg sdk.Msg) (ok bool, class string) {
	if err := msg.ValidateBasic(); err != nil {
		return false, "validate"
	}
	h := app.MsgServiceRouter().Handler(msg)
	if h == nil {
		return false, "noroute"
	}
	cctx, write := ctx.CacheContext()
	var err error
	panicked, pmsg := try(func() { _, err = h(cctx, msg) })
	if panicked {
		if len(pmsg) > 300 {
			pmsg = pmsg[:300]
		}
		c10lastPanic = pmsg
		return false, "panic"
	}
	if err != nil {
		return false, "err"
	}
	write()
	return true, "ok"
}

var c10lastPanic string

type c10asset struct {
	id    uint64
	denom string
	dec   int64
}

type c10pair struct {
	coll, debt c10asset
	extID      uint64
	cmst       bool // debt valued at $1 (AssetOutOraclePrice=false)
}

type c10fix struct {
	app   *chain.App
	base  sdk.Context
	appID uint64
	pairs []c10pair
	t0    time.Time
	// lend fixture only
	lend      bool
	lendOwner sdk.AccAddress
	poolMod   string
}

func c10setTwa(app *chain.App, ctx sdk.Context, id, price uint64, active bool) {
	app.MarketKeeper.SetTwa(ctx, markettypes.TimeWeightedAverage{AssetID: id, ScriptID: 12, Twa: price, CurrentIndex: 0, IsPriceActive: active, PriceValue: []uint64{price}})
}

func c10fund(t *testing.T, app *chain.App, ctx sdk.Context, a sdk.AccAddress, denom string, amt sdk.Int) {
	c := sdk.NewCoins(sdk.NewCoin(denom, amt))
	if err := app.BankKeeper.MintCoins(ctx, auctionsV2types.ModuleName, c); err != nil {
		t.Fatal(err)
	}
	if err := app.BankKeeper.SendCoinsFromModuleToAccount(ctx, auctionsV2types.ModuleName, a, c); err != nil {
		t.Fatal(err)
	}
}

func c10newFix(t *testing.T) *c10fix {
	app := chain.Setup(t, false)
	t0 := time.Date(2023, 6, 1, 12, 0, 0, 0, time.UTC)
	ctx := app.BaseApp.NewContext(false, tmproto.Header{Height: 10, Time: t0})
	f := &c10fix{app: app, base: ctx, t0: t0}
	mk := func(name, denom string, dec int64, twa uint64) c10asset {
		err := app.AssetKeeper.AddAssetRecords(ctx, assettypes.Asset{Name: name, Denom: denom, Decimals: sdk.NewInt(dec), IsOnChain: true, IsOraclePriceRequired: true, IsCdpMintable: true})
		if err != nil {
			t.Fatal(err)
		}
		var id uint64
		for _, a := range app.AssetKeeper.GetAssets(ctx) {
			if a.Denom == denom {
				id = a.Id
			}
		}
		c10setTwa(app, ctx, id, twa, true)
		return c10asset{id, denom, dec}
	}
	colA := mk("COLA", "ucola", 1000000, 2000000)
	colB := mk("COLB", "ucolb", 100000000, 30000000000)
	colC := mk("COLC", "acolc", 1000000000000000000, 1800000000)
	debtS := mk("DEBTS", "udebts", 1000000, 1000000)
	debtO := mk("DEBTO", "udebto", 1000000, 1030000)
	debtW := mk("DEBTW", "udebtw", 1000000000000, 990000)
	for _, n := range [][2]string{{"cswap", "cswap"}, {"harbor", "hbr"}, {"commodo", "cmdo"}} {
		if err := app.AssetKeeper.AddAppRecords(ctx, assettypes.AppData{Name: n[0], ShortName: n[1], MinGovDeposit: sdk.NewInt(0), GovTimeInSeconds: 0, GenesisToken: []assettypes.MintGenesisToken{}}); err != nil {
			t.Fatal(err)
		}
	}
	f.appID = 2
	type pd struct {
		c, d      c10asset
		cmst      bool
		closing   string
		minUsd    uint64
		stability string
	}
	for i, p := range []pd{
		{colA, debtS, true, "0", 1000000, "0"},
		{colB, debtS, true, "0.005", 1000000, "0"},
		{colC, debtO, false, "0", 1000000, "0"},
		{colA, debtO, false, "0.01", 1000000, "0"},
		{colB, debtW, false, "0", 1000000, "0"},
	} {
		if err := app.AssetKeeper.AddPairsRecords(ctx, assettypes.Pair{AssetIn: p.c.id, AssetOut: p.d.id}); err != nil {
			t.Fatal(err)
		}
		ep := bindings.MsgAddExtendedPairsVault{
			AppID: f.appID, PairID: uint64(i + 1), StabilityFee: c10dec(p.stability), ClosingFee: c10dec(p.closing),
			LiquidationPenalty: c10dec("0.12"), DrawDownFee: c10dec("0"), IsVaultActive: true,
			DebtCeiling: sdk.NewIntFromUint64(math.MaxInt64), DebtFloor: sdk.NewInt(1), IsStableMintVault: false,
			MinCr: c10dec("1.5"), PairName: "C" + string(rune('A'+i)), AssetOutOraclePrice: !p.cmst, AssetOutPrice: 1000000, MinUsdValueLeft: p.minUsd,
		}
		if err := app.AssetKeeper.WasmAddExtendedPairsVaultRecords(ctx, &ep); err != nil {
			t.Fatal(err)
		}
		f.pairs = append(f.pairs, c10pair{coll: p.c, debt: p.d, extID: uint64(i + 1), cmst: p.cmst})
	}
	return f
}

// the named accounts whose balances are printed after every op (order is the protocol)
var c10names = []string{"b1", "b2", "b3", "b4", "auction", "collector", "owner", "keeper", "initiator", "reserve", "vault", "pool", "lendres", "poolin", "esm"}

type c10seq struct {
	ownerAddr sdk.AccAddress // owner of the SEIZED position (read from the locked-vault record at seizure): printed as "owner"
	otherAddr sdk.AccAddress // owner of the other position seized in the same world, if any: printed as "initiator"
	poolMod   string // lend: module account of the debt pool
	poolInMod string // lend, cross-pool borrow: module account of the pool the collateral was lent to
	transit   string // lend, cross-pool borrow: denom of the bridge asset
	f     *c10fix
	ctx   sdk.Context
	tr    *Trace
	p     c10pair
	aucID uint64
	lvID  uint64
	kind  string
	now   time.Time
	h     int64
	esmOn bool // emergency shutdown of the auction's app is on
	env   string // the env field of the begin line (static data of the seized position)
}

func (s *c10seq) acct(name string) sdk.AccAddress {
	switch name {
	case "auction":
		return s.f.app.AccountKeeper.GetModuleAddress(auctionsV2types.ModuleName)
	case "collector":
		return s.f.app.AccountKeeper.GetModuleAddress(collectortypes.ModuleName)
	case "reserve":
		return s.f.app.AccountKeeper.GetModuleAddress(liqV2types.ModuleName)
	case "vault":
		return s.f.app.AccountKeeper.GetModuleAddress(vaulttypes.ModuleName)
	case "pool":
		if s.f.lend {
			if s.poolMod != "" {
				return s.f.app.AccountKeeper.GetModuleAddress(s.poolMod)
			}
			return s.f.app.AccountKeeper.GetModuleAddress(s.f.poolMod)
		}
	case "esm":
		return s.f.app.AccountKeeper.GetModuleAddress(esmtypes.ModuleName)
	case "lendres":
		if s.f.lend {
			return s.f.app.AccountKeeper.GetModuleAddress(lendtypes.ModuleName)
		}
	case "poolin":
		if s.f.lend && s.poolInMod != "" {
			return s.f.app.AccountKeeper.GetModuleAddress(s.poolInMod)
		}
	case "owner":
		if s.ownerAddr != nil {
			return s.ownerAddr
		}
		if s.f.lend {
			return s.f.lendOwner
		}
	case "initiator":
		if s.otherAddr != nil {
			return s.otherAddr
		}
	}
	return c10addr(name)
}

func (s *c10seq) balances() string {
	var sb []string
	for _, n := range c10names {
		a := s.acct(n)
		c := s.f.app.BankKeeper.GetBalance(s.ctx, a, s.p.coll.denom).Amount
		d := s.f.app.BankKeeper.GetBalance(s.ctx, a, s.p.debt.denom).Amount
		sb = append(sb, n+":"+c.String()+":"+d.String())
	}
	return strings.Join(sb, ",")
}

// projection of everything C10 speaks about
func (s *c10seq) state() string {
	k := s.f.app.NewaucKeeper
	rec := "closed"
	if a, err := k.GetAuction(s.ctx, s.aucID); err == nil {
		rec = fmt.Sprintf("coll=%s;debt=%s;bonus=%s;price=%s;init=%s;orc=%s;ord=%s;start=%d;end=%d",
			a.CollateralToken.Amount, a.DebtToken.Amount, a.BonusAmount, c10raw(a.CollateralTokenAuctionPrice), c10raw(a.CollateralTokenInitialPrice),
			c10raw(a.CollateralTokenOraclePrice), c10raw(a.DebtTokenOraclePrice), a.StartTime.Unix(), a.EndTime.Unix())
	}
	net := "0"
	// the penalty arrives at the collector in the debt denom and is recorded under the debt asset (since d8b6c2e, D34)
	if nf, found := s.f.app.CollectorKeeper.GetNetFeeCollectedData(s.ctx, s.f.appID, s.p.debt.id); found {
		net = nf.NetFeesCollected.String()
	}
	ext := "0"
	if fd, found := k.GetAuctionLimitBidFeeDataExternal(s.ctx, s.p.debt.id); found {
		ext = fd.Amount.String()
	}
	res := "none"
	if r, found := s.f.app.NewliqKeeper.GetAppReserveFunds(s.ctx, s.f.appID, s.p.debt.id); found {
		res = r.TokenQuantity.Amount.String()
	}
	minted := "-"
	if m, found := s.f.app.VaultKeeper.GetAppExtendedPairVaultMappingData(s.ctx, s.f.appID, s.p.extID); found {
		minted = m.TokenMintedAmount.String() + "/" + m.CollateralLockedAmount.String()
	}
	supply := s.f.app.BankKeeper.GetSupply(s.ctx, s.p.debt.denom).Amount.String()
	_, lvFound := s.f.app.NewliqKeeper.GetLockedVault(s.ctx, s.f.appID, s.lvID)
	tr := "0:0"
	if s.transit != "" {
		tr = s.f.app.BankKeeper.GetBalance(s.ctx, s.acct("pool"), s.transit).Amount.String() + ":" + s.f.app.BankKeeper.GetBalance(s.ctx, s.acct("poolin"), s.transit).Amount.String()
	}
	return rec + "\t" + s.balances() + "\t" + fmt.Sprintf("net=%s;ext=%s;res=%s;supply=%s;tr=%s;lv=%v;minted=%s", net, ext, res, supply, tr, lvFound, minted)
}

// all limit bids of this (debt, collateral) pair in the store's iteration order, grouped by premium
func (s *c10seq) limitBids() string {
	var out []string
	for prem := int64(0); prem <= int64(auctionsV2types.MaxPremiumDiscount); prem++ {
		bids, found := s.f.app.NewaucKeeper.GetUserLimitBidDataByPremium(s.ctx, s.p.debt.id, s.p.coll.id, sdk.NewInt(prem))
		if !found {
			continue
		}
		for _, b := range bids {
			name := "?"
			for _, n := range c10names {
				if s.acct(n).String() == b.BidderAddress {
					name = n
				}
			}
			out = append(out, fmt.Sprintf("%d:%s:%s", prem, name, b.DebtToken.Amount))
		}
	}
	if len(out) == 0 {
		return "-"
	}
	return strings.Join(out, ",")
}

// c10newLendFix builds the lending fixture of x/auctionsV2/keeper/msg_server_test.go (AddAppAssets): two pools, eight assets,
// app 3 ("commodo"), lends, module funding and two borrows of uasset2 against ucasset1 (collateral uasset1).
func c10newLendFix(t *testing.T) *c10fix {
	app := chain.Setup(t, false)
	t0 := time.Date(2023, 6, 1, 12, 0, 0, 0, time.UTC)
	ctx := app.BaseApp.NewContext(false, tmproto.Header{Height: 10, Time: t0})
	f := &c10fix{app: app, base: ctx, t0: t0, lend: true, appID: 3, poolMod: "cmdx"}
	mk := func(name, denom string, twa uint64) uint64 {
		if err := app.AssetKeeper.AddAssetRecords(ctx, assettypes.Asset{Name: name, Denom: denom, Decimals: sdk.NewInt(1000000), IsOnChain: true, IsOraclePriceRequired: true, IsCdpMintable: true}); err != nil {
			t.Fatal(err)
		}
		var id uint64
		for _, a := range app.AssetKeeper.GetAssets(ctx) {
			if a.Denom == denom {
				id = a.Id
			}
		}
		app.MarketKeeper.SetTwa(ctx, markettypes.TimeWeightedAverage{AssetID: id, ScriptID: 10, Twa: twa, CurrentIndex: 1, IsPriceActive: true})
		return id
	}
	a1 := mk("ASSETONE", "uasset1", 2000000)
	a2 := mk("ASSETTWO", "uasset2", 2000000)
	a3 := mk("ASSETTHREE", "uasset3", 1000000)
	a4 := mk("ASSETFOUR", "uasset4", 2000000)
	c1 := mk("CASSETONE", "ucasset1", 1000000)
	c2 := mk("CASSETTWO", "ucasset2", 2000000)
	c3 := mk("CASSETTHRE", "ucasset3", 2000000)
	c4 := mk("CASSETFOUR", "ucasset4", 2000000)
	d1 := &lendtypes.AssetDataPoolMapping{AssetID: a1, AssetTransitType: 3, SupplyCap: sdk.NewDec(5000000000000000000)}
	d2 := &lendtypes.AssetDataPoolMapping{AssetID: a2, AssetTransitType: 1, SupplyCap: sdk.NewDec(1000000000000000000)}
	d3 := &lendtypes.AssetDataPoolMapping{AssetID: a3, AssetTransitType: 2, SupplyCap: sdk.NewDec(5000000000000000000)}
	d4 := &lendtypes.AssetDataPoolMapping{AssetID: a4, AssetTransitType: 1, SupplyCap: sdk.NewDec(3000000000000000000)}
	rates := func(id uint64, uo, ba, s1, s2 string, stable bool, sb, ss1, ss2, ltv, lt, lp, lb, rf string, cid uint64) lendtypes.AssetRatesParams {
		return lendtypes.AssetRatesParams{AssetID: id, UOptimal: c10dec(uo), Base: c10dec(ba), Slope1: c10dec(s1), Slope2: c10dec(s2), EnableStableBorrow: stable,
			StableBase: c10dec(sb), StableSlope1: c10dec(ss1), StableSlope2: c10dec(ss2), Ltv: c10dec(ltv), LiquidationThreshold: c10dec(lt), LiquidationPenalty: c10dec(lp),
			LiquidationBonus: c10dec(lb), ReserveFactor: c10dec(rf), CAssetID: cid}
	}
	must := func(err error) {
		if err != nil {
			t.Fatal(err)
		}
	}
	must(app.LendKeeper.AddAssetRatesParams(ctx, rates(a3, "0.8", "0.002", "0.06", "0.6", true, "0.04", "0.04", "0.06", "0.8", "0.85", "0.025", "0.025", "0.1", c3)))
	must(app.LendKeeper.AddAssetRatesParams(ctx, rates(a1, "0.75", "0.002", "0.07", "1.25", false, "0.0", "0.0", "0.0", "0.7", "0.75", "0.05", "0.05", "0.2", c1)))
	pp := func(r lendtypes.AssetRatesParams, mod, cpool string, data []*lendtypes.AssetDataPoolMapping) lendtypes.AssetRatesPoolPairs {
		return lendtypes.AssetRatesPoolPairs{AssetID: r.AssetID, UOptimal: r.UOptimal, Base: r.Base, Slope1: r.Slope1, Slope2: r.Slope2, EnableStableBorrow: r.EnableStableBorrow,
			StableBase: r.StableBase, StableSlope1: r.StableSlope1, StableSlope2: r.StableSlope2, Ltv: r.Ltv, LiquidationThreshold: r.LiquidationThreshold,
			LiquidationPenalty: r.LiquidationPenalty, LiquidationBonus: r.LiquidationBonus, ReserveFactor: r.ReserveFactor, CAssetID: r.CAssetID, ModuleName: mod, CPoolName: cpool,
			AssetData: data, MinUsdValueLeft: 1000000}
	}
	must(app.LendKeeper.AddAssetRatesPoolPairs(ctx, pp(rates(a2, "0.5", "0.002", "0.08", "2.0", false, "0.0", "0.0", "0.0", "0.5", "0.55", "0.05", "0.05", "0.2", c2), "cmdx", "CMDX-ATOM-CMST", []*lendtypes.AssetDataPoolMapping{d1, d2, d3})))
	must(app.LendKeeper.AddAssetRatesPoolPairs(ctx, pp(rates(a4, "0.65", "0.002", "0.08", "1.5", false, "0.0", "0.0", "0.0", "0.6", "0.65", "0.05", "0.05", "0.2", c4), "osmo", "OSMO-ATOM-CMST", []*lendtypes.AssetDataPoolMapping{d4, d1, d3})))
	for _, n := range [][2]string{{"cswap", "cswap"}, {"harbor", "hbr"}, {"commodo", "cmdo"}} {
		must(app.AssetKeeper.AddAppRecords(ctx, assettypes.AppData{Name: n[0], ShortName: n[1], MinGovDeposit: sdk.NewInt(0), GovTimeInSeconds: 0, GenesisToken: []assettypes.MintGenesisToken{}}))
	}
	u1 := c10addr("lender1")
	u2 := c10addr("lender2")
	f.lendOwner = u1
	bigc := sdk.NewInt(1000000000000000)
	for _, d := range []string{"uasset1", "uasset2", "uasset3", "uasset4"} {
		c10fund(t, app, ctx, u1, d, bigc)
	}
	c10fund(t, app, ctx, u2, "uasset1", bigc)
	c10fund(t, app, ctx, u2, "uasset2", bigc)
	c10fund(t, app, ctx, u2, "uasset3", sdk.NewInt(13000000))
	deliver := func(m sdk.Msg) {
		if ok, cl := c10deliver(app, ctx, m); !ok {
			t.Fatalf("lend fixture message %T failed: %s %s", m, cl, c10lastPanic)
		}
	}
	deliver(lendtypes.NewMsgLend(u1.String(), a1, sdk.NewCoin("uasset1", sdk.NewInt(3000000000)), 1, 3))
	deliver(lendtypes.NewMsgLend(u1.String(), a2, sdk.NewCoin("uasset2", sdk.NewInt(10000000000)), 1, 3))
	deliver(lendtypes.NewMsgLend(u2.String(), a1, sdk.NewCoin("uasset1", sdk.NewInt(10000000000)), 1, 3))
	deliver(lendtypes.NewMsgFundModuleAccounts(1, a1, u1.String(), sdk.NewCoin("uasset1", sdk.NewInt(10000000000))))
	deliver(lendtypes.NewMsgFundModuleAccounts(1, a2, u1.String(), sdk.NewCoin("uasset2", sdk.NewInt(10000000000))))
	deliver(lendtypes.NewMsgFundModuleAccounts(1, a3, u1.String(), sdk.NewCoin("uasset3", sdk.NewInt(120000000))))
	deliver(lendtypes.NewMsgFundModuleAccounts(2, a1, u1.String(), sdk.NewCoin("uasset1", sdk.NewInt(10000000000))))
	deliver(lendtypes.NewMsgFundModuleAccounts(2, a4, u1.String(), sdk.NewCoin("uasset4", sdk.NewInt(10000000000))))
	deliver(lendtypes.NewMsgBorrow(u1.String(), 1, 1, false, sdk.NewCoin("ucasset1", sdk.NewInt(100000000)), sdk.NewCoin("uasset2", sdk.NewInt(70000000))))
	deliver(lendtypes.NewMsgBorrow(u2.String(), 3, 1, false, sdk.NewCoin("ucasset1", sdk.NewInt(1000000000)), sdk.NewCoin("uasset2", sdk.NewInt(700000000))))
	// a vault product of app 2 in the same world (collateral uasset1, debt uasset3 at a fixed 1 USD): lets vault and borrow
	// liquidations interleave, so that the shared locked-vault id counter and the two auction id counters get out of step
	must(app.AssetKeeper.AddPairsRecords(ctx, assettypes.Pair{AssetIn: a1, AssetOut: a3}))
	must(app.AssetKeeper.WasmAddExtendedPairsVaultRecords(ctx, &bindings.MsgAddExtendedPairsVault{AppID: 2, PairID: 1, StabilityFee: c10dec("0"), ClosingFee: c10dec("0"),
		LiquidationPenalty: c10dec("0.12"), DrawDownFee: c10dec("0"), IsVaultActive: true, DebtCeiling: sdk.NewIntFromUint64(math.MaxInt64), DebtFloor: sdk.NewInt(1),
		IsStableMintVault: false, MinCr: c10dec("1.5"), PairName: "LA", AssetOutOraclePrice: false, AssetOutPrice: 1000000, MinUsdValueLeft: 1000000}))
	// borrow 3: cross-pool (pair 13: collateral uasset2 lent to pool 1, debt uasset4 from pool 2, bridged over a transit asset)
	deliver(lendtypes.NewMsgBorrow(u1.String(), 2, 13, false, sdk.NewCoin("ucasset2", sdk.NewInt(100000000)), sdk.NewCoin("uasset4", sdk.NewInt(30000000))))
	f.pairs = []c10pair{{coll: c10asset{a1, "uasset1", 1000000}, debt: c10asset{a2, "uasset2", 1000000}, extID: 0, cmst: false},
		{coll: c10asset{a2, "uasset2", 1000000}, debt: c10asset{a4, "uasset4", 1000000}, extID: 0, cmst: false}}
	return f
}

type c10cfg struct {
	pair       int
	kind       string // vault | vaultkeeper | external
	amountIn   sdk.Int
	amountOut  sdk.Int
	dropTo     uint64 // collateral twa after the drop
	T          uint64
	premium    string
	discount   string
	incentive  string
	minUsd     uint64
	bonusRate  string // external: AuctionBonus
	penaltyExt string
	reserve    int64 // initial app reserve for the debt asset (0 = none)
	second     bool  // a second position of the same pair is seized too (its collateral shares the module account)
	trackSecond bool // follow the auction of the second position (owner: the other account)
	shiftAuc   uint64 // auction-id counter ahead by this much (as English auctions of the module leave it)
	shiftLv    uint64 // locked-vault-id counter ahead by this much (as other liquidations leave it)
	lendBonus  string // lend kinds: LiquidationBonus of the collateral asset ("" = the fixture's 0.05, "0" = no auction bonus)
	age        int64  // lend kinds: seconds between the borrow and its liquidation (interest is booked first: the close then sends
	// the reserve's share to the lend module and mints cTokens for the rest, liquidate.go:781-798)
}

// start builds one seized position the way the chain does and prints the begin line.
func c10start(t *testing.T, f *c10fix, tr *Trace, cfg c10cfg) *c10seq {
	ctx, _ := f.base.CacheContext()
	s := &c10seq{f: f, ctx: ctx, tr: tr, p: f.pairs[cfg.pair], kind: cfg.kind, now: f.t0, h: 10}
	app := f.app
	dp := liqV2types.DutchAuctionParam{Premium: c10dec(cfg.premium), Discount: c10dec(cfg.discount), DecrementFactor: sdk.NewInt(1)}
	ep := liqV2types.EnglishAuctionParam{DecrementFactor: sdk.NewInt(1)}
	app.NewliqKeeper.SetLiquidationWhiteListing(ctx, liqV2types.LiquidationWhiteListing{AppId: f.appID, Initiator: true, IsDutchActivated: true, DutchAuctionParam: &dp,
		IsEnglishActivated: true, EnglishAuctionParam: &ep, KeeeperIncentive: c10dec(cfg.incentive)})
	app.NewaucKeeper.SetAuctionParams(ctx, auctionsV2types.AuctionParams{AuctionDurationSeconds: cfg.T, Step: c10dec("0.1"), WithdrawalFee: c10dec("0"), ClosingFee: c10dec("0"),
		MinUsdValueLeft: cfg.minUsd, BidFactor: c10dec("0.1"), LiquidationPenalty: c10dec(cfg.penaltyExt), AuctionBonus: c10dec(cfg.bonusRate)})
	big := sdk.NewIntFromUint64(math.MaxInt64 / 4)
	for _, n := range []string{"b1", "b2", "b4"} {
		c10fund(t, app, ctx, c10addr(n), s.p.debt.denom, big)
	}
	// b3 is a poor bidder: some of its bids fail for lack of funds
	c10fund(t, app, ctx, c10addr("b3"), s.p.debt.denom, cfg.amountOut.QuoRaw(2).AddRaw(5))
	if !f.lend {
		c10fund(t, app, ctx, c10addr("owner"), s.p.coll.denom, cfg.amountIn)
		c10fund(t, app, ctx, c10addr("initiator"), s.p.coll.denom, cfg.amountIn)
	}
	c10fund(t, app, ctx, c10addr("keeper"), s.p.debt.denom, sdk.NewInt(1))
	if cfg.reserve > 0 {
		ok, cl := c10deliver(app, ctx, liqV2types.NewMsgAppReserveFundsRequest(c10addr("b4").String(), f.appID, s.p.debt.id, sdk.NewCoin(s.p.debt.denom, sdk.NewInt(cfg.reserve))))
		if !ok {
			t.Fatalf("reserve funding failed: %s", cl)
		}
	}
	fail := func(why string) *c10seq {
		tr.Count("setup:" + why)
		return nil
	}
	if cfg.shiftAuc > 0 {
		app.NewaucKeeper.SetAuctionID(ctx, app.NewaucKeeper.GetAuctionID(ctx)+cfg.shiftAuc)
		tr.Count("world:auction-id-ahead")
	}
	if cfg.shiftLv > 0 {
		app.NewliqKeeper.SetLockedVaultID(ctx, app.NewliqKeeper.GetLockedVaultID(ctx)+cfg.shiftLv)
		tr.Count("world:locked-vault-id-ahead")
	}
	aucBefore := app.NewaucKeeper.GetAuctionID(ctx)
	switch cfg.kind {
	case "vault", "vaultkeeper":
		ok, _ := c10deliver(app, ctx, &vaulttypes.MsgCreateRequest{From: c10addr("owner").String(), AppId: f.appID, ExtendedPairVaultId: s.p.extID, AmountIn: cfg.amountIn, AmountOut: cfg.amountOut})
		if !ok {
			return fail("vault-create")
		}
		vid := app.VaultKeeper.GetIDForVault(ctx)
		if cfg.second {
			ok, _ = c10deliver(app, ctx, &vaulttypes.MsgCreateRequest{From: c10addr("initiator").String(), AppId: f.appID, ExtendedPairVaultId: s.p.extID, AmountIn: cfg.amountIn, AmountOut: cfg.amountOut})
			if !ok {
				return fail("vault-create2")
			}
		}
		c10setTwa(app, ctx, s.p.coll.id, cfg.dropTo, true)
		if cfg.kind == "vaultkeeper" {
			ok, _ = c10deliver(app, ctx, liqV2types.NewMsgLiquidateInternalKeeperRequest(c10addr("keeper"), 0, vid))
			if !ok {
				return fail("keeper-liquidate")
			}
			if cfg.second {
				c10deliver(app, ctx, liqV2types.NewMsgLiquidateInternalKeeperRequest(c10addr("keeper"), 0, vid+1))
			}
		} else if err := app.NewliqKeeper.Liquidate(ctx); err != nil {
			return fail("liquidate")
		}
	case "lend", "lendkeeper", "lendcross":
		if cfg.age > 0 {
			s.now = f.t0.Add(time.Duration(cfg.age) * time.Second)
			s.h += cfg.age / 6
			ctx = ctx.WithBlockTime(s.now).WithBlockHeight(s.h)
			s.ctx = ctx
			for _, l := range []string{"lender1", "lender2"} {
				if ok, _ := c10deliver(app, ctx, lendtypes.NewMsgCalculateInterestAndRewards(c10addr(l).String())); ok {
					tr.Count("world:lend-interest-booked-before-liquidation")
				}
			}
		}
		if cfg.lendBonus != "" {
			if r, found := app.LendKeeper.GetAssetRatesParams(ctx, s.p.coll.id); found {
				r.LiquidationBonus = c10dec(cfg.lendBonus)
				app.LendKeeper.SetAssetRatesParams(ctx, r)
			}
		}
		c10setTwa(app, ctx, s.p.coll.id, cfg.dropTo, true)
		if cfg.kind == "lendcross" {
			// borrow 3 of the fixture: collateral lent to pool 1, debt borrowed from pool 2 over a bridge asset
			ok, _ := c10deliver(app, ctx, liqV2types.NewMsgLiquidateInternalKeeperRequest(c10addr("keeper"), 1, 3))
			if !ok {
				return fail("keeper-liquidate-cross-borrow")
			}
		} else if cfg.kind == "lendkeeper" {
			ok, _ := c10deliver(app, ctx, liqV2types.NewMsgLiquidateInternalKeeperRequest(c10addr("keeper"), 1, 1))
			if !ok {
				return fail("keeper-liquidate-borrow")
			}
		} else if err := app.NewliqKeeper.Liquidate(ctx); err != nil {
			return fail("liquidate")
		}
	case "external":
		c10setTwa(app, ctx, s.p.coll.id, cfg.dropTo, true)
		ok, _ := c10deliver(app, ctx, liqV2types.NewMsgLiquidateExternalKeeperRequest(c10addr("initiator"), f.appID, c10addr("owner").String(),
			sdk.NewCoin(s.p.coll.denom, cfg.amountIn), sdk.NewCoin(s.p.debt.denom, cfg.amountOut), s.p.coll.id, s.p.debt.id, s.p.cmst))
		if !ok {
			return fail("external-liquidate")
		}
	}
	s.aucID = aucBefore + 1
	if cfg.second && cfg.trackSecond {
		s.aucID = aucBefore + 2
		tr.Count("world:track-second-position")
	}
	a, err := app.NewaucKeeper.GetAuction(ctx, s.aucID)
	if err != nil {
		return fail("no-auction")
	}
	s.lvID = a.LockedVaultId
	lv, found := app.NewliqKeeper.GetLockedVault(ctx, f.appID, s.lvID)
	if !found {
		return fail("no-locked-vault")
	}
	// the owner the unsold collateral is owed to is the one recorded at seizure
	if oa, err := sdk.AccAddressFromBech32(lv.Owner); err == nil {
		s.ownerAddr = oa
		if cfg.second {
			if oa.Equals(c10addr("owner")) {
				s.otherAddr = c10addr("initiator")
			} else {
				s.otherAddr = c10addr("owner")
			}
		}
	}
	lendExtra := ""
	if lv.InitiatorType == "lend" {
		// what the lend module will do with the target at close (liquidate.go:721-813): external values for the model
		bp, _ := app.LendKeeper.GetBorrow(ctx, lv.OriginalVaultId)
		lp, _ := app.LendKeeper.GetLendPair(ctx, bp.PairID)
		inStats, _ := app.LendKeeper.GetAssetRatesParams(ctx, lp.AssetIn)
		pen := inStats.LiquidationPenalty
		if lp.IsEModeEnabled {
			pen = inStats.ELiquidationPenalty
		}
		lendPen := sdk.NewDecFromInt(bp.AmountOut.Amount).Mul(pen).TruncateInt()
		lendInt := sdk.ZeroInt()
		if trk, found := app.LendKeeper.GetBorrowInterestTracker(ctx, lv.OriginalVaultId); found {
			lendInt = trk.ReservePoolInterest.TruncateInt()
		}
		outPool, _ := app.LendKeeper.GetPool(ctx, lp.AssetOutPoolID)
		s.poolMod = outPool.ModuleName
		if bp.BridgedAssetAmount.Amount.IsPositive() {
			lnd, _ := app.LendKeeper.GetLend(ctx, bp.LendingID)
			inPool, _ := app.LendKeeper.GetPool(ctx, lnd.PoolID)
			s.poolInMod = inPool.ModuleName
			s.transit = bp.BridgedAssetAmount.Denom
		}
		lendExtra = fmt.Sprintf(";lendPen=%s;lendInt=%s;bridged=%s", lendPen, lendInt, bp.BridgedAssetAmount.Amount)
	}
	isK := "0"
	if lv.IsInternalKeeper {
		isK = "1"
	}
	cm := "0"
	if lv.IsDebtCmst {
		cm = "1"
	}
	s.env = fmt.Sprintf("kind=%s;decC=%d;decD=%d;target=%s;fee=%s;bonus0=%s;coll0=%s;keeper=%s;incentive=%s;minUsd=%d;T=%d;premium=%s;discount=%s;cmst=%s;twaC=%d",
		lv.InitiatorType, s.p.coll.dec, s.p.debt.dec, lv.TargetDebt.Amount, lv.FeeToBeCollected, lv.BonusToBeGiven, lv.CollateralToken.Amount, isK, c10raw(c10dec(cfg.incentive)),
		cfg.minUsd, cfg.T, c10raw(c10dec(cfg.premium)), c10raw(c10dec(cfg.discount)), cm, cfg.dropTo) + lendExtra
	tr.Line("dutch.begin", s.env, s.state())
	tr.Count("begin:" + cfg.kind)
	if lv.InitiatorType == "lend" {
		if lv.BonusToBeGiven.IsZero() {
			tr.Count("begin:lend:without-bonus")
		} else {
			tr.Count("begin:lend:with-bonus")
		}
	}
	if lv.InitiatorType == "external" {
		if lv.BonusToBeGiven.IsZero() {
			tr.Count("begin:external:without-bonus")
		} else {
			tr.Count("begin:external:with-bonus")
		}
	}
	return s
}

func (s *c10seq) debtTwa() (uint64, bool) {
	twa, _ := s.f.app.MarketKeeper.GetTwa(s.ctx, s.p.debt.id)
	return twa.Twa, twa.IsPriceActive
}

func (s *c10seq) collTwa() (uint64, bool) {
	twa, _ := s.f.app.MarketKeeper.GetTwa(s.ctx, s.p.coll.id)
	return twa.Twa, twa.IsPriceActive
}

func (s *c10seq) bid(who string, amt sdk.Int) bool {
	dt, _ := s.debtTwa()
	resBefore, _ := s.f.app.NewliqKeeper.GetAppReserveFunds(s.ctx, s.f.appID, s.p.debt.id)
	ok, cl := c10deliver(s.f.app, s.ctx, auctionsV2types.NewMsgPlaceMarketBid(c10addr(who).String(), s.aucID, sdk.Coin{Denom: s.p.debt.denom, Amount: amt}))
	if ok {
		if resAfter, found := s.f.app.NewliqKeeper.GetAppReserveFunds(s.ctx, s.f.appID, s.p.debt.id); found && !resAfter.TokenQuantity.Amount.Equal(resBefore.TokenQuantity.Amount) {
			s.tr.Count("close:collateral-exhausted")
		}
	}
	s.tr.Count("bid:" + cl)
	if ok {
		if _, open := s.auction(); !open {
			s.tr.Count("close")
			s.tr.Count("close:branch:" + s.kind) // vault* → bid.go:161-190, external → :122-158, lend* → :191-202
		} else {
			s.tr.Count("partial-fill")
		}
	}
	s.tr.Line("dutch.bid", who, amt.String(), u(dt), cl, s.state())
	return ok
}

func (s *c10seq) limit(who string, premium int64, amt sdk.Int) {
	ok, cl := c10deliver(s.f.app, s.ctx, auctionsV2types.NewMsgDepositLimitBid(c10addr(who).String(), s.p.coll.id, s.p.debt.id, sdk.NewInt(premium), sdk.NewCoin(s.p.debt.denom, amt)))
	_ = ok
	s.tr.Count("limit:" + cl)
	s.tr.Line("dutch.limit", who, i64(premium), amt.String(), cl, s.state())
}

func (s *c10seq) reserve(amt sdk.Int) {
	_, cl := c10deliver(s.f.app, s.ctx, liqV2types.NewMsgAppReserveFundsRequest(c10addr("b4").String(), s.f.appID, s.p.debt.id, sdk.NewCoin(s.p.debt.denom, amt)))
	s.tr.Count("reserve:" + cl)
	s.tr.Line("dutch.reserve", "b4", amt.String(), cl, s.state())
}

// tick advances the block time and runs the real BeginBlocker of auctionsV2 (AuctionIterator + LimitOrderBid).
func (s *c10seq) tick(dt time.Duration) {
	s.now = s.now.Add(dt)
	s.h++
	s.ctx = s.ctx.WithBlockTime(s.now).WithBlockHeight(s.h)
	tc, ac := s.collTwa()
	td, ad := s.debtTwa()
	lb := s.limitBids()
	panicked, _ := try(func() { auctionsV2.BeginBlocker(s.ctx, s.f.app.NewaucKeeper) })
	cl := "ok"
	if panicked {
		cl = "panic"
	}
	b := func(x bool) string {
		if x {
			return "1"
		}
		return "0"
	}
	s.tr.Count("tick:" + cl)
	lbAfter := s.limitBids()
	if lbAfter != lb {
		s.tr.Count("tick:limit-fill")
		if _, open := s.auction(); !open {
			s.tr.Count("tick:limit-fill-closes")
		}
	}
	kind := "dutch.tick"
	if s.esmOn {
		// the app is under emergency shutdown: the iterator takes its ESM branch (auctions.go:153-182)
		kind = "dutch.tickesm"
		s.tr.Count("tickesm:" + s.kind)
		if a, open := s.auction(); open {
			if s.now.After(a.EndTime) {
				s.tr.Count("tickesm:past-end:" + s.kind)
			} else {
				s.tr.Count("tickesm:inside-window:" + s.kind)
			}
		}
	}
	s.tr.Line(kind, i64(s.now.Unix()), u(tc), b(ac), u(td), b(ad), lb, lbAfter, cl, s.state())
}

// esm switches the emergency-shutdown status of the auction's app the way x/esm stores it (environment event, no trace line:
// the next block's line kind says which branch of the iterator ran)
func (s *c10seq) esm(on bool) {
	s.f.app.EsmKeeper.SetESMStatus(s.ctx, esmtypes.ESMStatus{AppId: s.f.appID, Status: on})
	s.esmOn = on
	if on {
		s.tr.Count("esm:on:" + s.kind)
	} else {
		s.tr.Count("esm:off")
	}
}

func (s *c10seq) setColl(price uint64, active bool) {
	c10setTwa(s.f.app, s.ctx, s.p.coll.id, price, active)
}
func (s *c10seq) setDebt(price uint64, active bool) {
	c10setTwa(s.f.app, s.ctx, s.p.debt.id, price, active)
}

func (s *c10seq) auction() (auctionsV2types.Auction, bool) {
	a, err := s.f.app.NewaucKeeper.GetAuction(s.ctx, s.aucID)
	return a, err == nil
}

// ---------------------------------------------------------------------------------------------
// price functions: the real exported helpers / real block hooks on synthetic records
// ---------------------------------------------------------------------------------------------

func c10big(s string) sdk.Int {
	v, ok := sdk.NewIntFromString(s)
	if !ok {
		panic("bad int " + s)
	}
	return v
}

func c10decRaw(raw sdk.Int) sdk.Dec { return sdk.NewDecFromBigIntWithPrec(raw.BigInt(), 18) }

func c10pureStart(f *c10fix, tr *Trace, twa sdk.Int, premium sdk.Dec) {
	var r sdk.Dec
	p, _ := try(func() { r = f.app.NewaucKeeper.GetCollalteralTokenInitialPrice(twa, premium) })
	if p {
		tr.Count("start:panic")
		tr.Line("dutch.start", twa.String(), c10raw(premium), "panic", "-")
		return
	}
	tr.Count("start:ok")
	tr.Line("dutch.start", twa.String(), c10raw(premium), "ok", c10raw(r))
}

func c10pureEnd(f *c10fix, tr *Trace, top, cusp sdk.Dec) {
	var r sdk.Dec
	p, _ := try(func() { r = f.app.NewaucKeeper.GetCollateralTokenEndPrice(top, cusp) })
	if p {
		tr.Count("end:panic")
		tr.Line("dutch.end", c10raw(top), c10raw(cusp), "panic", "-")
		return
	}
	tr.Count("end:ok")
	tr.Line("dutch.end", c10raw(top), c10raw(cusp), "ok", c10raw(r))
}

func c10pureLin(f *c10fix, tr *Trace, top sdk.Dec, tau, dur sdk.Int) {
	var r sdk.Dec
	p, _ := try(func() { r = f.app.NewaucKeeper.GetPriceFromLinearDecreaseFunction(top, tau, dur) })
	if p {
		tr.Count("lin:panic")
		tr.Line("dutch.lin", c10raw(top), tau.String(), dur.String(), "panic", "-")
		return
	}
	tr.Count("lin:ok")
	tr.Line("dutch.lin", c10raw(top), tau.String(), dur.String(), "ok", c10raw(r))
}

// c10upd2 runs the real V2 UpdateDutchAuction on a stored auction whose start price is `top`.
func c10upd2(f *c10fix, tr *Trace, top, discount sdk.Dec, T uint64, dur int64) (sdk.Dec, bool) {
	ctx, _ := f.base.CacheContext()
	app := f.app
	p := f.pairs[0]
	dp := liqV2types.DutchAuctionParam{Premium: c10dec("1.2"), Discount: discount, DecrementFactor: sdk.NewInt(1)}
	app.NewliqKeeper.SetLiquidationWhiteListing(ctx, liqV2types.LiquidationWhiteListing{AppId: f.appID, Initiator: true, IsDutchActivated: true, DutchAuctionParam: &dp, KeeeperIncentive: c10dec("0")})
	app.NewaucKeeper.SetAuctionParams(ctx, auctionsV2types.AuctionParams{AuctionDurationSeconds: T, Step: c10dec("0.1"), WithdrawalFee: c10dec("0"), ClosingFee: c10dec("0"),
		MinUsdValueLeft: 0, BidFactor: c10dec("0.1"), LiquidationPenalty: c10dec("0"), AuctionBonus: c10dec("0")})
	sentinel := c10decRaw(sdk.NewInt(-7))
	a := auctionsV2types.Auction{AuctionId: 777, CollateralToken: sdk.NewCoin(p.coll.denom, sdk.NewInt(5)), DebtToken: sdk.NewCoin(p.debt.denom, sdk.NewInt(5)),
		CollateralTokenAuctionPrice: sentinel, CollateralTokenOraclePrice: sdk.ZeroDec(), DebtTokenOraclePrice: sdk.ZeroDec(), LockedVaultId: 777,
		StartTime: f.t0, EndTime: f.t0.Add(time.Duration(T) * time.Second), AppId: f.appID, AuctionType: true, CollateralAssetId: p.coll.id, DebtAssetId: p.debt.id,
		BonusAmount: sdk.ZeroInt(), CollateralTokenInitialPrice: top}
	ctx = ctx.WithBlockTime(f.t0.Add(time.Duration(dur) * time.Second))
	var err error
	panicked, _ := try(func() { err = app.NewaucKeeper.UpdateDutchAuction(ctx, a) })
	got, gerr := app.NewaucKeeper.GetAuction(ctx, 777)
	if panicked || err != nil || gerr != nil {
		tr.Count("upd2:fail")
		tr.Line("dutch.upd2", c10raw(top), c10raw(discount), u(T), i64(dur), "fail", "-")
		return sdk.Dec{}, false
	}
	tr.Count("upd2:ok")
	tr.Line("dutch.upd2", c10raw(top), c10raw(discount), u(T), i64(dur), "ok", c10raw(got.CollateralTokenAuctionPrice))
	return got.CollateralTokenAuctionPrice, true
}

// c10upd1 runs the real first-generation RestartDutchAuctions (price update part, dutch.go:495-503) on a stored auction.
func c10upd1(f *c10fix, tr *Trace, top, endP sdk.Dec, T uint64, dur int64) {
	ctx, _ := f.base.CacheContext()
	app := f.app
	p := f.pairs[0]
	app.AuctionKeeper.SetAuctionParams(ctx, auctiontypes.AuctionParams{AppId: f.appID, AuctionDurationSeconds: T, Buffer: c10dec("1.2"), Cusp: c10dec("0.7"),
		Step: sdk.NewInt(1), PriceFunctionType: 1, SurplusId: 1, DebtId: 2, DutchId: 3, BidDurationSeconds: 3600})
	app.LiquidationKeeper.SetLockedVault(ctx, liquidationtypes.LockedVault{LockedVaultId: 777, AppId: f.appID, OriginalVaultId: 1, ExtendedPairId: p.extID, Owner: c10addr("owner").String(),
		AmountIn: sdk.NewInt(5), AmountOut: sdk.NewInt(5), UpdatedAmountOut: sdk.NewInt(5), Initiator: "liquidation", IsAuctionInProgress: true,
		CrAtLiquidation: sdk.OneDec(), CurrentCollaterlisationRatio: sdk.OneDec(), CollateralToBeAuctioned: sdk.OneDec(), LiquidationTimestamp: f.t0, InterestAccumulated: sdk.ZeroInt()})
	sentinel := c10decRaw(sdk.NewInt(-7))
	far := f.t0.Add(time.Duration(1<<33) * time.Second)
	a := auctiontypes.DutchAuction{AuctionId: 777, OutflowTokenInitAmount: sdk.NewCoin(p.coll.denom, sdk.NewInt(5)), OutflowTokenCurrentAmount: sdk.NewCoin(p.coll.denom, sdk.NewInt(5)),
		InflowTokenTargetAmount: sdk.NewCoin(p.debt.denom, sdk.NewInt(5)), InflowTokenCurrentAmount: sdk.NewCoin(p.debt.denom, sdk.NewInt(0)),
		OutflowTokenInitialPrice: top, OutflowTokenCurrentPrice: sentinel, OutflowTokenEndPrice: endP, InflowTokenCurrentPrice: sdk.OneDec(),
		EndTime: far, AuctionStatus: auctiontypes.AuctionStartNoBids, StartTime: f.t0, AuctionMappingId: 3, AppId: f.appID, AssetInId: p.debt.id, AssetOutId: p.coll.id,
		LockedVaultId: 777, VaultOwner: c10addr("owner"), LiquidationPenalty: c10dec("0.12")}
	if err := app.AuctionKeeper.SetDutchAuction(ctx, a); err != nil {
		panic(err)
	}
	ctx = ctx.WithBlockTime(f.t0.Add(time.Duration(dur) * time.Second))
	panicked, _ := try(func() { _ = app.AuctionKeeper.RestartDutchAuctions(ctx, f.appID) })
	got, gerr := app.AuctionKeeper.GetDutchAuction(ctx, f.appID, 3, 777)
	if panicked || gerr != nil || got.OutflowTokenCurrentPrice.Equal(sentinel) {
		tr.Count("upd1:fail")
		tr.Line("dutch.upd1", c10raw(top), c10raw(endP), u(T), i64(dur), "fail", "-")
		return
	}
	tr.Count("upd1:ok")
	tr.Line("dutch.upd1", c10raw(top), c10raw(endP), u(T), i64(dur), "ok", c10raw(got.OutflowTokenCurrentPrice))
}

func c10pricePart(t *testing.T, f *c10fix, tr *Trace, rng *Rng) {
	// D8 witness first: top 1.2, cusp 0.7, T 10 s: the posted price at the end of the window is 0.836363… < 0.84
	c10upd2(f, tr, c10dec("1.2"), c10dec("0.7"), 10, 10)
	c10upd1(f, tr, c10dec("1.2"), c10dec("0.84"), 10, 10)
	maxU := "18446744073709551615"
	twas := []string{"0", "1", "2", "999999", "1000000", "1234567", "9223372036854775807", "9223372036854775808", maxU}
	prems := []string{"0", "1", "500000000000000000", "1000000000000000000", "1200000000000000000", "1999999999999999999", "1050000000000000000",
		"1000000000000000000000000000000000000", "57896044618658097711785492504343953926634992332820282019728792003956564819967"}
	for _, tw := range twas {
		for _, pr := range prems {
			c10pureStart(f, tr, c10big(tw), c10decRaw(c10big(pr)))
		}
	}
	tops := []string{"0", "1", "3", "1200000000000000000", "1200000000000000000000000", "2400000000000000000000000", "36000000000000000000000000000",
		"22136092888451461939200000000000000000", "1000000000000000000000000000000000000000000000000000000000000000000000000000"}
	cusps := []string{"0", "1", "500000000000000000", "700000000000000000", "999999999999999999", "1000000000000000000", "333333333333333333", "1300000000000000000"}
	for _, tp := range tops {
		for _, cu := range cusps {
			c10pureEnd(f, tr, c10decRaw(c10big(tp)), c10decRaw(c10big(cu)))
		}
	}
	taus := []string{"0", "1", "2", "3", "33", "12000", "4611686018427387904", "9223372036854775807", "9223372036854775808", "-1", "-5"}
	for _, tp := range tops {
		for _, ta := range taus {
			tau := c10big(ta)
			for _, du := range []sdk.Int{sdk.ZeroInt(), sdk.OneInt(), tau.SubRaw(1), tau, tau.AddRaw(1), tau.QuoRaw(2), tau.QuoRaw(3), c10big("9223372036854775807"), c10big("-9223372036854775808")} {
				c10pureLin(f, tr, c10decRaw(c10big(tp)), tau, du)
			}
		}
	}
	// composed update of both generations: boundary-directed windows (dur around 0, T, tau) and random ones
	Ts := []uint64{0, 1, 2, 3, 7, 10, 60, 600, 3600, 86400, 604800, 1 << 32}
	n := scale(400, 12000)
	for i := 0; i < n; i++ {
		var top sdk.Dec
		switch rng.Intn(4) {
		case 0:
			top = c10decRaw(c10big(tops[rng.Intn(len(tops))]))
		case 1:
			top = c10dec("1.2").MulInt64(int64(1 + rng.Intn(100000000)))
		default:
			top = c10decRaw(sdk.NewIntFromUint64(rng.U64() >> uint(rng.Intn(60))).Mul(sdk.NewIntFromUint64(1 + rng.U64()>>uint(20+rng.Intn(44)))))
		}
		var disc sdk.Dec
		if rng.Chance(60) {
			disc = c10decRaw(c10big(cusps[rng.Intn(len(cusps))]))
		} else {
			disc = c10decRaw(sdk.NewIntFromUint64(rng.U64() % 1000000000000000000))
		}
		T := Ts[rng.Intn(len(Ts))]
		if rng.Chance(30) {
			T = uint64(1 + rng.Intn(5000))
		}
		durs := []int64{0, 1, int64(T) - 1, int64(T), int64(T) / 2, int64(T) / 3}
		if rng.Chance(20) {
			durs = append(durs, int64(T)+1, int64(T)*4)
		}
		var prevP sdk.Dec
		prevD := int64(-1)
		sort.Slice(durs, func(a, b int) bool { return durs[a] < durs[b] })
		for _, d := range durs {
			if d < 0 || d > 8000000000 {
				continue
			}
			p, ok := c10upd2(f, tr, top, disc, T, d)
			if ok && prevD >= 0 && d <= int64(T) {
				tr.Line("dutch.mono", c10raw(top), c10raw(disc), u(T), i64(prevD), c10raw(prevP), i64(d), c10raw(p))
			}
			if ok {
				prevP, prevD = p, d
			}
			if rng.Chance(50) {
				endP := top.Mul(disc)
				c10upd1(f, tr, top, endP, T, d)
			}
		}
	}
}

// ---------------------------------------------------------------------------------------------
// generated sequences on seized positions
// ---------------------------------------------------------------------------------------------

func c10mulDiv(a sdk.Int, b, c uint64) sdk.Int {
	if c == 0 {
		return sdk.ZeroInt()
	}
	return a.Mul(sdk.NewIntFromUint64(b)).Quo(sdk.NewIntFromUint64(c))
}

func c10genCfg(f *c10fix, rng *Rng) c10cfg {
	cfg := c10cfg{}
	cfg.pair = rng.Intn(len(f.pairs))
	cfg.kind = []string{"vault", "vault", "vaultkeeper", "vaultkeeper", "external", "external"}[rng.Intn(6)]
	cfg.T = []uint64{10, 60, 600, 3600, 3600, 86400, 7}[rng.Intn(7)]
	cfg.premium = []string{"1.2", "1.2", "1.05", "1.5", "1", "1.333333333333333333"}[rng.Intn(6)]
	cfg.discount = []string{"0.7", "0.7", "0.5", "0.9", "0.333333333333333333", "0.999", "0.01"}[rng.Intn(7)]
	cfg.incentive = []string{"0", "0.1", "0.05", "0.999"}[rng.Intn(4)]
	if cfg.kind == "external" && rng.Chance(85) {
		cfg.incentive = "0"
	}
	cfg.minUsd = []uint64{0, 1, 100000, 1000000, 5000000}[rng.Intn(5)]
	cfg.bonusRate = []string{"0", "0.05", "0.2"}[rng.Intn(3)]
	cfg.penaltyExt = []string{"0.1", "0", "0.13"}[rng.Intn(3)]
	p := f.pairs[cfg.pair]
	twaC, _ := func() (uint64, bool) {
		tw, _ := f.app.MarketKeeper.GetTwa(f.base, p.coll.id)
		return tw.Twa, true
	}()
	twaD := uint64(1000000)
	if !p.cmst {
		tw, _ := f.app.MarketKeeper.GetTwa(f.base, p.debt.id)
		twaD = tw.Twa
	}
	// debt value in micro-USD, from a couple of dollars to millions
	vd := uint64(2000000 + rng.Intn(50000000))
	switch rng.Intn(4) {
	case 0:
		vd = uint64(1000000 + rng.Intn(3000000))
	case 1:
		vd = uint64(rng.Intn(1000000000)) * 1000
	}
	if vd < 2000000 {
		vd = 2000000
	}
	crPct := uint64(151 + rng.Intn(150))
	amountOut := c10mulDiv(sdk.NewIntFromUint64(vd), uint64(p.debt.dec), twaD)
	vc := sdk.NewIntFromUint64(vd).Mul(sdk.NewIntFromUint64(crPct)).Quo(sdk.NewInt(100))
	amountIn := c10mulDiv(vc, uint64(p.coll.dec), twaC).AddRaw(1)
	cfg.amountIn, cfg.amountOut = amountIn, amountOut
	// price after the drop: CR falls to 60..149 % (vaults); anything for external
	newCr := uint64(60 + rng.Intn(89))
	if rng.Chance(20) {
		newCr = uint64(100 + rng.Intn(49))
	}
	if rng.Chance(10) {
		newCr = uint64(5 + rng.Intn(60))
	}
	cfg.dropTo = twaC * newCr / crPct
	if cfg.dropTo == 0 {
		cfg.dropTo = 1
	}
	if cfg.kind == "external" && rng.Chance(40) {
		cfg.dropTo = twaC
	}
	switch rng.Intn(5) {
	case 0, 1:
		cfg.reserve = 0
	case 2:
		cfg.reserve = int64(1 + rng.Intn(1000))
	default:
		cfg.reserve = amountOut.Int64()*2 + 10
	}
	if cfg.kind == "external" && cfg.reserve == 0 {
		cfg.reserve = int64(1 + rng.Intn(100000))
	}
	// id worlds: counters out of step, two positions of different owners open at once
	if rng.Chance(40) {
		cfg.shiftAuc = []uint64{0, 1, 3}[rng.Intn(3)]
		cfg.shiftLv = []uint64{0, 1, 2}[rng.Intn(3)]
	}
	if cfg.kind != "external" && rng.Chance(35) {
		cfg.second = true
		cfg.trackSecond = rng.Chance(50)
	}
	return cfg
}

func (s *c10seq) randomOps(rng *Rng, cfg c10cfg) {
	bidders := []string{"b1", "b2", "b3", "b4"}
	nops := 3 + rng.Intn(12)
	// emergency shutdown of the app in a quarter of the sequences: switched on before some operation, sometimes off again later
	esmAt, esmOff := -1, -1
	if rng.Chance(25) {
		esmAt = rng.Intn(nops)
		if rng.Chance(30) {
			esmOff = esmAt + 1 + rng.Intn(5)
		}
	}
	for o := 0; o < nops; o++ {
		if o == esmAt {
			s.esm(true)
		}
		if o == esmOff {
			s.esm(false)
		}
		a, open := s.auction()
		if !open {
			// a few ops after the close: nothing may move any more
			if rng.Chance(50) {
				s.bid(bidders[rng.Intn(4)], sdk.NewInt(int64(1+rng.Intn(1000000))))
			} else {
				s.tick(time.Duration(1+rng.Intn(int(cfg.T)+5)) * time.Second)
			}
			if rng.Chance(60) {
				return
			}
			continue
		}
		r := rng.Intn(100)
		switch {
		case r < 58:
			D := a.DebtToken.Amount
			dtw, _ := s.debtTwa()
			if s.p.cmst {
				dtw = 1000000
			}
			var amt sdk.Int
			k := rng.Intn(14)
			switch k {
			case 0:
				amt = sdk.NewInt(1)
				s.tr.Count("bidkind:tiny")
			case 1:
				amt = sdk.NewInt(int64(2 + rng.Intn(50)))
				s.tr.Count("bidkind:tiny")
			case 2:
				amt = D
				s.tr.Count("bidkind:exact")
			case 3:
				amt = D.AddRaw(1)
				s.tr.Count("bidkind:over")
			case 4:
				amt = D.MulRaw(int64(2 + rng.Intn(5)))
				s.tr.Count("bidkind:over")
			case 5:
				amt = D.SubRaw(1)
				s.tr.Count("bidkind:dustedge")
			case 6, 7:
				// dust boundary: leave exactly minUsd (±1 unit) of debt value
				left := c10mulDiv(sdk.NewIntFromUint64(cfg.minUsd), uint64(s.p.debt.dec), dtw)
				amt = D.Sub(left).AddRaw(int64(rng.Intn(5)) - 2)
				s.tr.Count("bidkind:dustedge")
			case 8, 9:
				// collateral boundary: the bid whose collateral equals what is left (±1)
				// coll·price·decD/(decC·debtPrice)
				num := a.CollateralTokenAuctionPrice.MulInt(a.CollateralToken.Amount).MulInt64(s.p.debt.dec)
				den := sdk.NewDec(s.p.coll.dec).MulInt64(int64(dtw))
				if den.IsPositive() && num.IsPositive() {
					amt = num.Quo(den).TruncateInt().AddRaw(int64(rng.Intn(5)) - 2)
				} else {
					amt = D.QuoRaw(2)
				}
				s.tr.Count("bidkind:colledge")
			case 10:
				amt = D.QuoRaw(2)
				s.tr.Count("bidkind:partial")
			default:
				amt = D.MulRaw(int64(1 + rng.Intn(90))).QuoRaw(100)
				s.tr.Count("bidkind:partial")
			}
			if !amt.IsPositive() {
				if rng.Chance(50) {
					amt = sdk.NewInt(1)
				}
			}
			who := bidders[rng.Intn(4)]
			if rng.Chance(4) {
				// the same amount offered in the collateral's denomination: bid.go:24-26 must refuse it
				denom := s.p.coll.denom
				_, cl := c10deliver(s.f.app, s.ctx, auctionsV2types.NewMsgPlaceMarketBid(c10addr(who).String(), s.aucID, sdk.Coin{Denom: denom, Amount: amt}))
				s.tr.Count("bidx:" + cl)
				s.tr.Line("dutch.bidx", who, denom, amt.String(), cl, s.state())
				continue
			}
			s.bid(who, amt)
		case r < 82:
			el := int64(s.now.Sub(a.StartTime) / time.Second)
			T := int64(cfg.T)
			var dt int64
			switch rng.Intn(8) {
			case 0:
				dt = 1
			case 1:
				dt = T - el // exactly the end of the window
				s.tr.Count("tickkind:end")
			case 2:
				dt = T - el - 1
			case 3:
				dt = T - el + 1 // restart
				s.tr.Count("tickkind:restart")
			case 4:
				dt = T/3 + 1
			case 5:
				dt = T + 1 + int64(rng.Intn(100))
				s.tr.Count("tickkind:restart")
			default:
				dt = 1 + int64(rng.Intn(int(T)+1))
			}
			aimed := false
			if lb := s.limitBids(); lb != "-" && rng.Chance(70) {
				// aim the block at the premium bucket of a waiting limit bid: price = orc·(1 − (k+½)/100), dur = tau·(1 − price/init)
				var k int64
				fmt.Sscanf(strings.Split(lb, ",")[rng.Intn(len(strings.Split(lb, ",")))], "%d:", &k)
				disc := c10dec(cfg.discount)
				if a.CollateralTokenInitialPrice.IsPositive() && disc.LT(sdk.OneDec()) {
					want := a.CollateralTokenOraclePrice.Mul(sdk.NewDec(200 - 2*k - 1)).QuoInt64(200)
					tauD := sdk.NewDec(T).Quo(sdk.OneDec().Sub(disc))
					dur := tauD.Mul(sdk.OneDec().Sub(want.Quo(a.CollateralTokenInitialPrice))).TruncateInt64()
					if dur > el && dur <= T {
						dt = dur - el
						aimed = true
						s.tr.Count("tickkind:aimed-at-limit-bid")
					}
				}
			}
			if dt < 1 {
				dt = 1
			}
			if !aimed && rng.Chance(25) {
				tc, _ := s.collTwa()
				nt := tc * uint64(80+rng.Intn(41)) / 100
				if nt == 0 {
					nt = 1
				}
				s.setColl(nt, !rng.Chance(15))
				s.tr.Count("tickkind:twa")
			}
			if !s.p.cmst && rng.Chance(20) {
				td, _ := s.debtTwa()
				nt := td * uint64(90+rng.Intn(21)) / 100
				if nt == 0 {
					nt = 1
				}
				s.setDebt(nt, !rng.Chance(15))
			}
			s.tick(time.Duration(dt) * time.Second)
		case r < 92 && s.kind != "lend" && !cfg.second:
			// (not after a lend sweep: it seizes both borrows of the fixture, the second auction would share the limit book)
			// limit deposit aimed at the premium bucket the auction is in or will reach
			prem := int64(0)
			if a.CollateralTokenOraclePrice.IsPositive() {
				pr := a.CollateralTokenOraclePrice.Sub(a.CollateralTokenAuctionPrice).Quo(a.CollateralTokenOraclePrice).MulInt64(100).TruncateInt64()
				prem = pr + int64(rng.Intn(4))
			}
			if prem < 0 {
				prem = 0
			}
			if rng.Chance(10) {
				prem = 31
			}
			D := a.DebtToken.Amount
			amt := D.MulRaw(int64(10 + rng.Intn(120))).QuoRaw(100)
			if rng.Chance(15) {
				amt = D
			}
			if !amt.IsPositive() {
				amt = sdk.NewInt(1)
			}
			s.limit(bidders[rng.Intn(4)], prem, amt)
		default:
			amt := a.DebtToken.Amount.MulRaw(int64(1 + rng.Intn(150))).QuoRaw(100)
			if !amt.IsPositive() {
				amt = sdk.NewInt(1)
			}
			s.reserve(amt)
		}
	}
}

// ---------------------------------------------------------------------------------------------
// first generation (x/auction + x/liquidation): seized vault, MsgPlaceDutchBid, BeginBlocker
// ---------------------------------------------------------------------------------------------

type c10seq1 struct {
	*c10seq
	mapID uint64
}

func (s *c10seq1) state1() string {
	k := s.f.app.AuctionKeeper
	rec := "closed"
	if a, err := k.GetDutchAuction(s.ctx, s.f.appID, s.mapID, s.aucID); err == nil {
		rec = fmt.Sprintf("out=%s;in=%s;price=%s;init=%s;endp=%s;inp=%s;start=%d;end=%d", a.OutflowTokenCurrentAmount.Amount, a.InflowTokenCurrentAmount.Amount,
			c10raw(a.OutflowTokenCurrentPrice), c10raw(a.OutflowTokenInitialPrice), c10raw(a.OutflowTokenEndPrice), c10raw(a.InflowTokenCurrentPrice), a.StartTime.Unix(), a.EndTime.Unix())
	}
	net := "none"
	if nf, found := s.f.app.CollectorKeeper.GetNetFeeCollectedData(s.ctx, s.f.appID, s.p.debt.id); found {
		net = nf.NetFeesCollected.String()
	}
	supply := s.f.app.BankKeeper.GetSupply(s.ctx, s.p.debt.denom).Amount.String()
	minted := "-"
	if m, found := s.f.app.VaultKeeper.GetAppExtendedPairVaultMappingData(s.ctx, s.f.appID, s.p.extID); found {
		minted = m.TokenMintedAmount.String() + "/" + m.CollateralLockedAmount.String()
	}
	return rec + "\t" + s.balances1() + "\t" + fmt.Sprintf("net=%s;supply=%s;minted=%s", net, supply, minted)
}

// same account list, but "auction" is the first-generation module account
func (s *c10seq1) balances1() string {
	var sb []string
	for _, n := range c10names {
		a := s.acct(n)
		if n == "auction" {
			a = s.f.app.AccountKeeper.GetModuleAddress(auctiontypes.ModuleName)
		}
		c := s.f.app.BankKeeper.GetBalance(s.ctx, a, s.p.coll.denom).Amount
		d := s.f.app.BankKeeper.GetBalance(s.ctx, a, s.p.debt.denom).Amount
		sb = append(sb, n+":"+c.String()+":"+d.String())
	}
	return strings.Join(sb, ",")
}

type c10cfg1 struct {
	pair      int
	amountIn  sdk.Int
	amountOut sdk.Int
	dropTo    uint64
	T         uint64
	buffer    string
	cusp      string
	collector int64 // funds and net-fee record of the collector for the debt asset (0 = no record)
	two         bool   // a second vault (other owner) of the same pair is seized in the same sweep
	trackSecond bool
	shiftAuc    uint64 // auction-id counter ahead (surplus / debt auctions share it)
	shiftLv     uint64 // locked-vault-id counter ahead (borrow liquidations share it)
	lendFirst   bool   // lend fixture only: a real borrow liquidation comes first and takes locked vault id 1
}

func c10start1(t *testing.T, f *c10fix, tr *Trace, cfg c10cfg1) *c10seq1 {
	ctx, _ := f.base.CacheContext()
	s := &c10seq1{c10seq: &c10seq{f: f, ctx: ctx, tr: tr, p: f.pairs[cfg.pair], kind: "v1", now: f.t0, h: 10}, mapID: 3}
	app := f.app
	fail := func(why string) *c10seq1 {
		tr.Count("setup1:" + why)
		return nil
	}
	app.AuctionKeeper.SetAuctionParams(ctx, auctiontypes.AuctionParams{AppId: f.appID, AuctionDurationSeconds: cfg.T, Buffer: c10dec(cfg.buffer), Cusp: c10dec(cfg.cusp),
		Step: sdk.NewInt(1), PriceFunctionType: 1, SurplusId: 1, DebtId: 2, DutchId: 3, BidDurationSeconds: 3600})
	_ = app.LiquidationKeeper.WasmWhitelistAppIDLiquidation(ctx, f.appID)
	big := sdk.NewIntFromUint64(math.MaxInt64 / 4)
	for _, n := range []string{"b1", "b2", "b4"} {
		c10fund(t, app, ctx, c10addr(n), s.p.debt.denom, big)
	}
	c10fund(t, app, ctx, c10addr("b3"), s.p.debt.denom, cfg.amountOut.QuoRaw(2).AddRaw(5))
	c10fund(t, app, ctx, c10addr("owner"), s.p.coll.denom, cfg.amountIn)
	if cfg.collector > 0 {
		c := sdk.NewCoins(sdk.NewCoin(s.p.debt.denom, sdk.NewInt(cfg.collector)))
		if err := app.BankKeeper.MintCoins(ctx, auctionsV2types.ModuleName, c); err != nil {
			t.Fatal(err)
		}
		if err := app.BankKeeper.SendCoinsFromModuleToModule(ctx, auctionsV2types.ModuleName, collectortypes.ModuleName, c); err != nil {
			t.Fatal(err)
		}
		if err := app.CollectorKeeper.SetNetFeeCollectedData(ctx, f.appID, s.p.debt.id, sdk.NewInt(cfg.collector)); err != nil {
			t.Fatal(err)
		}
	}
	ok, _ := c10deliver(app, ctx, &vaulttypes.MsgCreateRequest{From: c10addr("owner").String(), AppId: f.appID, ExtendedPairVaultId: s.p.extID, AmountIn: cfg.amountIn, AmountOut: cfg.amountOut})
	if !ok {
		return fail("vault-create")
	}
	if cfg.two {
		c10fund(t, app, ctx, c10addr("initiator"), s.p.coll.denom, cfg.amountIn)
		if ok, _ := c10deliver(app, ctx, &vaulttypes.MsgCreateRequest{From: c10addr("initiator").String(), AppId: f.appID, ExtendedPairVaultId: s.p.extID, AmountIn: cfg.amountIn, AmountOut: cfg.amountOut}); !ok {
			return fail("vault-create2")
		}
	}
	c10setTwa(app, ctx, s.p.coll.id, cfg.dropTo, true)
	if cfg.shiftAuc > 0 {
		app.AuctionKeeper.SetAuctionID(ctx, app.AuctionKeeper.GetAuctionID(ctx)+cfg.shiftAuc)
		tr.Count("world1:auction-id-ahead")
	}
	if cfg.shiftLv > 0 {
		app.LiquidationKeeper.SetLockedVaultID(ctx, app.LiquidationKeeper.GetLockedVaultID(ctx)+cfg.shiftLv)
		tr.Count("world1:locked-vault-id-ahead")
	}
	if cfg.lendFirst {
		_ = app.LendKeeper.AddAuctionParamsData(ctx, lendtypes.AuctionParams{AppId: 3, AuctionDurationSeconds: cfg.T, Buffer: c10dec(cfg.buffer), Cusp: c10dec(cfg.cusp),
			Step: sdk.NewInt(1), PriceFunctionType: 1, DutchId: 3, BidDurationSeconds: 3600})
		// the real thing: a borrow liquidation takes the next locked-vault id (and a LEND auction id, a different counter)
		if ok, _ := c10deliver(app, ctx, &liquidationtypes.MsgLiquidateBorrowRequest{From: c10addr("keeper").String(), BorrowId: 1}); ok {
			tr.Count("world1:borrow-liquidated-first")
		}
	}
	before := app.AuctionKeeper.GetAuctionID(ctx)
	if err := app.LiquidationKeeper.LiquidateVaults(ctx); err != nil {
		return fail("liquidate")
	}
	s.aucID = before + 1
	if cfg.two && cfg.trackSecond {
		s.aucID = before + 2
		tr.Count("world1:track-second-vault")
	}
	a, err := app.AuctionKeeper.GetDutchAuction(ctx, f.appID, s.mapID, s.aucID)
	if err != nil {
		return fail("no-auction")
	}
	lv, found := app.LiquidationKeeper.GetLockedVault(ctx, f.appID, a.LockedVaultId)
	if !found {
		return fail("no-locked-vault")
	}
	if a.AuctionId != lv.LockedVaultId {
		tr.Count("world1:auction-id-differs-from-locked-vault-id")
	}
	if oa, err := sdk.AccAddressFromBech32(lv.Owner); err == nil {
		s.ownerAddr = oa // from the seizure
		if cfg.two {
			if oa.Equals(c10addr("owner")) {
				s.otherAddr = c10addr("initiator")
			} else {
				s.otherAddr = c10addr("owner")
			}
		}
	}
	ep, _ := app.AssetKeeper.GetPairsVault(ctx, lv.ExtendedPairId)
	od := "0"
	if ep.AssetOutOraclePrice {
		od = "1"
	}
	tr.Line("dutch.v1.begin", fmt.Sprintf("decC=%d;decD=%d;target=%s;principal=%s;coll0=%s;dust=%d;T=%d;buffer=%s;cusp=%s;oracleDebt=%s;fixedDebt=%d;twaC=%d",
		s.p.coll.dec, s.p.debt.dec, a.InflowTokenTargetAmount.Amount, lv.AmountOut, a.OutflowTokenInitAmount.Amount, ep.MinUsdValueLeft, cfg.T,
		c10raw(c10dec(cfg.buffer)), c10raw(c10dec(cfg.cusp)), od, ep.AssetOutPrice, cfg.dropTo), s.state1())
	tr.Count("begin:v1")
	return s
}

func (s *c10seq1) auction1() (auctiontypes.DutchAuction, bool) {
	a, err := s.f.app.AuctionKeeper.GetDutchAuction(s.ctx, s.f.appID, s.mapID, s.aucID)
	return a, err == nil
}

func (s *c10seq1) bid1(who string, amt sdk.Int) {
	ok, cl := c10deliver(s.f.app, s.ctx, &auctiontypes.MsgPlaceDutchBidRequest{Bidder: c10addr(who).String(), AuctionId: s.aucID, Amount: sdk.Coin{Denom: s.p.coll.denom, Amount: amt},
		AppId: s.f.appID, AuctionMappingId: s.mapID})
	s.tr.Count("bid1:" + cl)
	if ok {
		if _, open := s.auction1(); !open {
			s.tr.Count("close1")
		} else {
			s.tr.Count("partial-fill1")
		}
	}
	s.tr.Line("dutch.v1.bid", who, amt.String(), cl, s.state1())
}

func (s *c10seq1) tick1(dt time.Duration) {
	s.now = s.now.Add(dt)
	s.h++
	s.ctx = s.ctx.WithBlockTime(s.now).WithBlockHeight(s.h)
	tc, ac := s.collTwa()
	td, ad := s.debtTwa()
	app := s.f.app
	esmOn := false
	if st, found := app.EsmKeeper.GetESMStatus(s.ctx, s.f.appID); found {
		esmOn = st.Status
	}
	_, snap := app.EsmKeeper.GetSnapshotOfPrices(s.ctx, s.f.appID, s.p.coll.id)
	_, wasOpen := s.auction1()
	panicked, _ := try(func() { auctionv1.BeginBlocker(s.ctx, app.AuctionKeeper, app.AssetKeeper, app.CollectorKeeper, app.EsmKeeper) })
	cl := "ok"
	if panicked {
		cl = "panic"
	}
	b := func(x bool) string {
		if x {
			return "1"
		}
		return "0"
	}
	s.tr.Count("tick1:" + cl)
	if esmOn && wasOpen {
		if _, open := s.auction1(); !open {
			s.tr.Count("tick1:esm-wind-down")
		}
	}
	s.tr.Line("dutch.v1.tick", i64(s.now.Unix()), u(tc), b(ac), u(td), b(ad), b(esmOn), b(snap), cl, s.state1())
}

// esmOn1 switches the app's emergency shutdown on (the way x/esm does when it executes: status record + price snapshot)
func (s *c10seq1) esmOn1(withSnapshot bool) {
	s.f.app.EsmKeeper.SetESMStatus(s.ctx, esmtypes.ESMStatus{AppId: s.f.appID, Executor: c10addr("keeper").String(), Status: true, StartTime: s.now, EndTime: s.now.Add(time.Hour)})
	if withSnapshot {
		tc, _ := s.collTwa()
		s.f.app.EsmKeeper.SetSnapshotOfPrices(s.ctx, s.f.appID, s.p.coll.id, tc)
	}
	s.tr.Count("esm-on")
}

func c10genCfg1(f *c10fix, rng *Rng) c10cfg1 {
	g := c10genCfg(f, rng)
	cfg := c10cfg1{pair: g.pair, amountIn: g.amountIn, amountOut: g.amountOut, dropTo: g.dropTo, T: g.T, buffer: g.premium, cusp: g.discount}
	switch rng.Intn(4) {
	case 0:
		cfg.collector = 0
	case 1:
		cfg.collector = int64(1 + rng.Intn(1000))
	default:
		cfg.collector = g.amountOut.Int64()*2 + 10
	}
	if rng.Chance(45) {
		cfg.shiftAuc = []uint64{0, 1, 2}[rng.Intn(3)]
		cfg.shiftLv = []uint64{0, 1, 3}[rng.Intn(3)]
	}
	if rng.Chance(45) {
		cfg.two = true
		cfg.trackSecond = rng.Chance(50)
	}
	return cfg
}

func (s *c10seq1) randomOps1(rng *Rng, cfg c10cfg1) {
	bidders := []string{"b1", "b2", "b3", "b4"}
	nops := 3 + rng.Intn(12)
	for o := 0; o < nops; o++ {
		a, open := s.auction1()
		if !open {
			if rng.Chance(50) {
				s.bid1(bidders[rng.Intn(4)], sdk.NewInt(int64(1+rng.Intn(1000000))))
			} else {
				s.tick1(time.Duration(1+rng.Intn(int(cfg.T)+5)) * time.Second)
			}
			if rng.Chance(60) {
				return
			}
			continue
		}
		if rng.Intn(100) < 68 {
			C := a.OutflowTokenCurrentAmount.Amount
			tab := a.InflowTokenTargetAmount.Amount.Sub(a.InflowTokenCurrentAmount.Amount)
			// collateral whose price equals x units of debt: x·inPrice·decC/(decD·outPrice)
			collFor := func(x sdk.Int) sdk.Int {
				den := a.OutflowTokenCurrentPrice.MulInt64(s.p.debt.dec)
				if !den.IsPositive() {
					return C
				}
				return a.InflowTokenCurrentPrice.MulInt(x).MulInt64(s.p.coll.dec).Quo(den).TruncateInt()
			}
			ep, _ := s.f.app.AssetKeeper.GetPairsVault(s.ctx, s.p.extID)
			var amt sdk.Int
			switch rng.Intn(14) {
			case 0:
				amt = sdk.NewInt(int64(1 + rng.Intn(3)))
				s.tr.Count("bidkind1:tiny")
			case 1:
				amt = C
				s.tr.Count("bidkind1:all")
			case 2:
				amt = C.AddRaw(1)
				s.tr.Count("bidkind1:over")
			case 3, 4:
				amt = collFor(tab).AddRaw(int64(rng.Intn(5)) - 2) // the slice that reaches the target (±)
				s.tr.Count("bidkind1:target-edge")
			case 5:
				amt = collFor(tab).MulRaw(2)
				s.tr.Count("bidkind1:over-target")
			case 6, 7:
				// debt dust boundary: leave exactly dust (±) of debt value
				// dust is micro-USD; debt units worth dust: dust·decD/inPrice
				du := sdk.NewDec(int64(ep.MinUsdValueLeft)).MulInt64(s.p.debt.dec).Quo(a.InflowTokenCurrentPrice).TruncateInt()
				amt = collFor(tab.Sub(du)).AddRaw(int64(rng.Intn(5)) - 2)
				s.tr.Count("bidkind1:debt-dust-edge")
			case 8, 9:
				// collateral dust boundary: leave exactly dust (±) of collateral value: dust·decC/outPrice
				if a.OutflowTokenCurrentPrice.IsPositive() {
					cu := sdk.NewDec(int64(ep.MinUsdValueLeft)).MulInt64(s.p.coll.dec).Quo(a.OutflowTokenCurrentPrice).TruncateInt()
					amt = C.Sub(cu).AddRaw(int64(rng.Intn(5)) - 2)
				} else {
					amt = C
				}
				s.tr.Count("bidkind1:coll-dust-edge")
			case 10:
				amt = sdk.NewInt(-5)
				s.tr.Count("bidkind1:negative")
			default:
				amt = C.MulRaw(int64(1 + rng.Intn(95))).QuoRaw(100)
				s.tr.Count("bidkind1:partial")
			}
			s.bid1(bidders[rng.Intn(4)], amt)
		} else {
			el := int64(s.now.Sub(a.StartTime) / time.Second)
			T := int64(cfg.T)
			var dt int64
			switch rng.Intn(8) {
			case 0:
				dt = 1
			case 1:
				dt = T - el
				s.tr.Count("tickkind1:end")
			case 2:
				dt = T - el - 1
			case 3:
				dt = T - el + 1
				s.tr.Count("tickkind1:restart")
			case 4:
				dt = T/3 + 1
			case 5:
				dt = T + 1 + int64(rng.Intn(100))
				s.tr.Count("tickkind1:restart")
			default:
				dt = 1 + int64(rng.Intn(int(T)+1))
			}
			if dt < 1 {
				dt = 1
			}
			if rng.Chance(25) {
				tc, _ := s.collTwa()
				nt := tc * uint64(80+rng.Intn(41)) / 100
				if nt == 0 {
					nt = 1
				}
				s.setColl(nt, !rng.Chance(15))
			}
			if !s.p.cmst && rng.Chance(20) {
				td, _ := s.debtTwa()
				nt := td * uint64(90+rng.Intn(21)) / 100
				if nt == 0 {
					nt = 1
				}
				s.setDebt(nt, !rng.Chance(15))
			}
			if rng.Chance(12) && !cfg.two {
				s.esmOn1(!rng.Chance(20))
			}
			s.tick1(time.Duration(dt) * time.Second)
		}
	}
}

// ---------------------------------------------------------------------------------------------
// first generation, liquidated borrows (x/auction/keeper/dutch_lend.go + x/liquidation/keeper/liquidate_borrow.go)
// ---------------------------------------------------------------------------------------------

type c10seqL struct {
	*c10seq
	mapID    uint64
	borrowID uint64 // the liquidated borrow behind the tracked auction
}

func (s *c10seqL) auctionL() (auctiontypes.DutchAuction, bool) {
	a, err := s.f.app.AuctionKeeper.GetDutchLendAuction(s.ctx, s.f.appID, s.mapID, s.aucID)
	return a, err == nil
}

func (s *c10seqL) lendResDebt() sdk.Int {
	r := s.f.app.AccountKeeper.GetModuleAddress(lendtypes.ModuleName)
	return s.f.app.BankKeeper.GetBalance(s.ctx, r, s.p.debt.denom).Amount
}

func (s *c10seqL) stateL() string {
	rec := "closed"
	if a, ok := s.auctionL(); ok {
		rec = fmt.Sprintf("out=%s;in=%s;price=%s;init=%s;endp=%s;inp=%s;start=%d;end=%d", a.OutflowTokenCurrentAmount.Amount, a.InflowTokenCurrentAmount.Amount,
			c10raw(a.OutflowTokenCurrentPrice), c10raw(a.OutflowTokenInitialPrice), c10raw(a.OutflowTokenEndPrice), c10raw(a.InflowTokenCurrentPrice), a.StartTime.Unix(), a.EndTime.Unix())
	}
	var sb []string
	for _, n := range c10names {
		a := s.acct(n)
		if n == "auction" {
			a = s.f.app.AccountKeeper.GetModuleAddress(auctiontypes.ModuleName)
		}
		c := s.f.app.BankKeeper.GetBalance(s.ctx, a, s.p.coll.denom).Amount
		d := s.f.app.BankKeeper.GetBalance(s.ctx, a, s.p.debt.denom).Amount
		if n == "poolin" {
			c, d = sdk.ZeroInt(), sdk.ZeroInt() // same-pool borrows only in this generation's population
		}
		sb = append(sb, n+":"+c.String()+":"+d.String())
	}
	return rec + "\t" + strings.Join(sb, ",") + "\t" + fmt.Sprintf("next=%d", s.f.app.AuctionKeeper.GetLendAuctionID(s.ctx)) + "\t" + s.bookL()
}

// bookL prints the lend-side records the close of the auction works on: locked vault, borrow position, interest tracker and the
// cToken balances (pool: cTokens of the debt asset and of the collateral asset; borrower: cTokens of the collateral asset)
func (s *c10seqL) bookL() string {
	app := s.f.app
	lv := "none"
	if v, found := app.LiquidationKeeper.GetLockedVault(s.ctx, s.f.appID, s.lvID); found {
		lv = fmt.Sprintf("%s:%s:%s", v.AmountIn, v.AmountOut, v.UpdatedAmountOut)
	}
	bo, in := "none", "0"
	if b, found := app.LendKeeper.GetBorrow(s.ctx, s.borrowID); found {
		liq := 0
		if b.IsLiquidated {
			liq = 1
		}
		bo = fmt.Sprintf("%s:%s:%d", b.AmountIn.Amount, b.AmountOut.Amount, liq)
		in = c10raw(b.InterestAccumulated)
	}
	tk := "0"
	if t, found := app.LendKeeper.GetBorrowInterestTracker(s.ctx, s.borrowID); found {
		tk = c10raw(t.ReservePoolInterest)
	}
	cD, cC := "", ""
	if r, found := app.LendKeeper.GetAssetRatesParams(s.ctx, s.p.debt.id); found {
		if a, ok := app.AssetKeeper.GetAsset(s.ctx, r.CAssetID); ok {
			cD = a.Denom
		}
	}
	if r, found := app.LendKeeper.GetAssetRatesParams(s.ctx, s.p.coll.id); found {
		if a, ok := app.AssetKeeper.GetAsset(s.ctx, r.CAssetID); ok {
			cC = a.Denom
		}
	}
	pool := s.acct("pool")
	return fmt.Sprintf("lv=%s;borrow=%s;int=%s;trk=%s;ctok=%s:%s:%s", lv, bo, in, tk,
		app.BankKeeper.GetBalance(s.ctx, pool, cD).Amount, app.BankKeeper.GetBalance(s.ctx, pool, cC).Amount, app.BankKeeper.GetBalance(s.ctx, s.acct("owner"), cC).Amount)
}

type c10cfgL struct {
	dropTo uint64
	T      uint64
	buffer string
	cusp   string
	sweep  bool // after the keeper message for borrow 1 the sweep seizes borrow 2 as well (a second auction shares the module account)
	trackSecond bool  // (sweep) follow the auction of borrow 2, whose lend position belongs to the other lender
	shiftAuc    uint64 // lend-auction-id counter ahead
	shiftLv     uint64 // locked-vault-id counter ahead (vault liquidations share it)
	resFund int64 // debt-denom funds of the lend reserve (lend module account): pays when the collateral is sold out below the target
	age     int64 // seconds between the borrow and its liquidation: the liquidation books the interest accrued meanwhile
}

func app0(f *c10fix) *chain.App { return f.app }

func c10startL(t *testing.T, f *c10fix, tr *Trace, cfg c10cfgL) *c10seqL {
	ctx, _ := f.base.CacheContext()
	s := &c10seqL{c10seq: &c10seq{f: f, ctx: ctx, tr: tr, p: f.pairs[0], kind: "l1", now: f.t0, h: 10}, mapID: 3}
	if cfg.age > 0 {
		s.now = f.t0.Add(time.Duration(cfg.age) * time.Second)
		s.h += cfg.age / 6
		ctx = ctx.WithBlockTime(s.now).WithBlockHeight(s.h)
		s.ctx = ctx
		tr.Count("worldL:aged-borrow")
		if cfg.age%2 == 0 {
			// the borrowers let the lend module book their interest first (MsgCalculateInterestAndRewards): that fills the interest
			// tracker with the reserve's share, which the close of the auction forwards to the lend module
			for _, l := range []string{"lender1", "lender2"} {
				if ok, _ := c10deliver(app0(f), ctx, lendtypes.NewMsgCalculateInterestAndRewards(c10addr(l).String())); ok {
					tr.Count("worldL:interest-booked-before-liquidation")
				}
			}
		}
	}
	app := f.app
	fail := func(why string) *c10seqL {
		tr.Count("setupL:" + why)
		return nil
	}
	if err := app.LendKeeper.AddAuctionParamsData(ctx, lendtypes.AuctionParams{AppId: f.appID, AuctionDurationSeconds: cfg.T, Buffer: c10dec(cfg.buffer), Cusp: c10dec(cfg.cusp),
		Step: sdk.NewInt(1), PriceFunctionType: 1, DutchId: 3, BidDurationSeconds: 3600}); err != nil {
		return fail("auction-params")
	}
	big := sdk.NewIntFromUint64(math.MaxInt64 / 4)
	for _, n := range []string{"b1", "b2", "b4"} {
		c10fund(t, app, ctx, c10addr(n), s.p.debt.denom, big)
	}
	c10fund(t, app, ctx, c10addr("b3"), s.p.debt.denom, sdk.NewInt(20000005))
	if cfg.resFund > 0 {
		c := sdk.NewCoins(sdk.NewCoin(s.p.debt.denom, sdk.NewInt(cfg.resFund)))
		if err := app.BankKeeper.MintCoins(ctx, auctionsV2types.ModuleName, c); err != nil {
			t.Fatal(err)
		}
		if err := app.BankKeeper.SendCoinsFromModuleToModule(ctx, auctionsV2types.ModuleName, lendtypes.ModuleName, c); err != nil {
			t.Fatal(err)
		}
	}
	c10setTwa(app, ctx, s.p.coll.id, cfg.dropTo, true)
	mod := app.AccountKeeper.GetModuleAddress(auctiontypes.ModuleName)
	if cfg.shiftAuc > 0 {
		app.AuctionKeeper.SetLendAuctionID(ctx, app.AuctionKeeper.GetLendAuctionID(ctx)+cfg.shiftAuc)
		tr.Count("worldL:auction-id-ahead")
	}
	if cfg.shiftLv > 0 {
		app.LiquidationKeeper.SetLockedVaultID(ctx, app.LiquidationKeeper.GetLockedVaultID(ctx)+cfg.shiftLv)
		tr.Count("worldL:locked-vault-id-ahead")
	}
	idBefore := app.AuctionKeeper.GetLendAuctionID(ctx)
	borrowID := uint64(1)
	if cfg.sweep && cfg.trackSecond {
		// borrow 1 first (its auction is the other one), then the tracked borrow 2 of the other lender
		if ok, _ := c10deliver(app, ctx, &liquidationtypes.MsgLiquidateBorrowRequest{From: c10addr("keeper").String(), BorrowId: 1}); !ok {
			return fail("liquidate-borrow-msg")
		}
		borrowID = 2
		idBefore++
		tr.Count("worldL:track-second-borrow")
	}
	before := app.BankKeeper.GetBalance(ctx, mod, s.p.coll.denom).Amount
	if ok, _ := c10deliver(app, ctx, &liquidationtypes.MsgLiquidateBorrowRequest{From: c10addr("keeper").String(), BorrowId: borrowID}); !ok {
		return fail("liquidate-borrow-msg")
	}
	deposit := app.BankKeeper.GetBalance(ctx, mod, s.p.coll.denom).Amount.Sub(before)
	s.aucID = idBefore + 1
	a, ok := s.auctionL()
	if !ok {
		return fail("no-auction")
	}
	if cfg.sweep && !cfg.trackSecond {
		if err := app.LiquidationKeeper.LiquidateBorrows(ctx); err != nil {
			return fail("sweep")
		}
	}
	rates, _ := app.LendKeeper.GetAssetRatesParams(ctx, s.p.coll.id)
	lv, _ := app.LiquidationKeeper.GetLockedVault(ctx, f.appID, a.LockedVaultId)
	if a.AuctionId != lv.LockedVaultId {
		tr.Count("worldL:auction-id-differs-from-locked-vault-id")
	}
	if oa, err := sdk.AccAddressFromBech32(lv.Owner); err == nil {
		s.ownerAddr = oa // the borrower recorded at seizure
		if oa.Equals(c10addr("lender1")) {
			s.otherAddr = c10addr("lender2")
		} else {
			s.otherAddr = c10addr("lender1")
		}
	}
	pair, _ := app.LendKeeper.GetLendPair(ctx, lv.ExtendedPairId)
	s.lvID, s.borrowID = a.LockedVaultId, lv.OriginalVaultId
	tr.Line("dutch.l1.begin", fmt.Sprintf("decC=%d;decD=%d;target=%s;coll0=%s;deposit=%s;bonus=%s;dust=%d;T=%d;buffer=%s;cusp=%s;twaC=%d;ltv=%s;pen=%s;thr=%s",
		s.p.coll.dec, s.p.debt.dec, a.InflowTokenTargetAmount.Amount, a.OutflowTokenInitAmount.Amount, deposit, c10raw(rates.LiquidationBonus), pair.MinUsdValueLeft, cfg.T,
		c10raw(c10dec(cfg.buffer)), c10raw(c10dec(cfg.cusp)), cfg.dropTo, c10raw(rates.Ltv), c10raw(rates.LiquidationPenalty), c10raw(rates.LiquidationThreshold)), s.stateL())
	tr.Count("begin:l1")
	return s
}

func (s *c10seqL) bidL(who string, amt sdk.Int) {
	res := s.lendResDebt()
	tc, ac := s.collTwa()
	td, ad := s.debtTwa()
	_, lvWas := s.f.app.LiquidationKeeper.GetLockedVault(s.ctx, s.f.appID, s.lvID)
	ok, cl := c10deliver(s.f.app, s.ctx, &auctiontypes.MsgPlaceDutchLendBidRequest{Bidder: c10addr(who).String(), AuctionId: s.aucID, Amount: sdk.Coin{Denom: s.p.coll.denom, Amount: amt},
		AppId: s.f.appID, AuctionMappingId: s.mapID})
	s.tr.Count("bidL:" + cl)
	if ok {
		if _, open := s.auctionL(); !open {
			s.tr.Count("closeL")
			if s.lendResDebt().LT(res) {
				s.tr.Count("closeL:reserve-covers-sold-out")
			}
			if s.f.app.AuctionKeeper.GetLendAuctionID(s.ctx) > s.aucID+1 || (s.f.app.AuctionKeeper.GetLendAuctionID(s.ctx) > s.aucID && s.kind == "l1") {
				s.tr.Count("closeL:maybe-reliquidated")
			}
		} else {
			s.tr.Count("partial-fillL")
		}
	}
	if ok {
		if _, open := s.auctionL(); !open && lvWas {
			// which branch of UnLiquidateLockedBorrows the close took
			_, lvIs := s.f.app.LiquidationKeeper.GetLockedVault(s.ctx, s.f.appID, s.lvID)
			b, bIs := s.f.app.LendKeeper.GetBorrow(s.ctx, s.borrowID)
			switch {
			case lvIs:
				s.tr.Count("closeL:book:re-liquidated")
			case !bIs:
				s.tr.Count("closeL:book:borrow-deleted")
			case bIs && !b.IsLiquidated:
				s.tr.Count("closeL:book:borrow-restored")
			default:
				s.tr.Count("closeL:book:other")
			}
		}
	}
	b2s := func(x bool) string {
		if x {
			return "1"
		}
		return "0"
	}
	s.tr.Line("dutch.l1.bid", who, amt.String(), res.String(), u(tc), b2s(ac), u(td), b2s(ad), cl, s.stateL())
}

func (s *c10seqL) tickL(dt time.Duration) {
	s.now = s.now.Add(dt)
	s.h++
	s.ctx = s.ctx.WithBlockTime(s.now).WithBlockHeight(s.h)
	tc, ac := s.collTwa()
	td, ad := s.debtTwa()
	app := s.f.app
	panicked, _ := try(func() { auctionv1.BeginBlocker(s.ctx, app.AuctionKeeper, app.AssetKeeper, app.CollectorKeeper, app.EsmKeeper) })
	cl := "ok"
	if panicked {
		cl = "panic"
	}
	b := func(x bool) string {
		if x {
			return "1"
		}
		return "0"
	}
	s.tr.Count("tickL:" + cl)
	s.tr.Line("dutch.l1.tick", i64(s.now.Unix()), u(tc), b(ac), u(td), b(ad), cl, s.stateL())
}

func (s *c10seqL) randomOpsL(rng *Rng, cfg c10cfgL) {
	bidders := []string{"b1", "b2", "b3", "b4"}
	nops := 3 + rng.Intn(12)
	for o := 0; o < nops; o++ {
		a, open := s.auctionL()
		if !open {
			if rng.Chance(50) {
				s.bidL(bidders[rng.Intn(4)], sdk.NewInt(int64(1+rng.Intn(1000000))))
			} else {
				s.tickL(time.Duration(1+rng.Intn(int(cfg.T)+5)) * time.Second)
			}
			if rng.Chance(60) {
				return
			}
			continue
		}
		if rng.Intn(100) < 68 {
			C := a.OutflowTokenCurrentAmount.Amount
			tab := a.InflowTokenTargetAmount.Amount.Sub(a.InflowTokenCurrentAmount.Amount)
			collFor := func(x sdk.Int) sdk.Int {
				den := a.OutflowTokenCurrentPrice.MulInt64(s.p.debt.dec)
				if !den.IsPositive() {
					return C
				}
				return a.InflowTokenCurrentPrice.MulInt(x).MulInt64(s.p.coll.dec).Quo(den).TruncateInt()
			}
			var amt sdk.Int
			switch rng.Intn(14) {
			case 0:
				amt = sdk.NewInt(int64(1 + rng.Intn(3)))
				s.tr.Count("bidkindL:tiny")
			case 1, 2:
				amt = C
				s.tr.Count("bidkindL:all")
			case 3:
				amt = C.AddRaw(1)
				s.tr.Count("bidkindL:over")
			case 4, 5:
				amt = collFor(tab).AddRaw(int64(rng.Intn(5)) - 2)
				s.tr.Count("bidkindL:target-edge")
			case 6:
				amt = collFor(tab).MulRaw(2)
				s.tr.Count("bidkindL:over-target")
			case 7:
				du := sdk.NewDec(1000000).MulInt64(s.p.debt.dec).Quo(a.InflowTokenCurrentPrice).TruncateInt()
				amt = collFor(tab.Sub(du)).AddRaw(int64(rng.Intn(5)) - 2)
				s.tr.Count("bidkindL:debt-dust-edge")
			case 8:
				if a.OutflowTokenCurrentPrice.IsPositive() {
					cu := sdk.NewDec(1000000).MulInt64(s.p.debt.dec).Quo(a.OutflowTokenCurrentPrice).TruncateInt()
					amt = C.Sub(cu).AddRaw(int64(rng.Intn(5)) - 2)
				} else {
					amt = C
				}
				s.tr.Count("bidkindL:coll-dust-edge")
			case 9:
				amt = sdk.NewInt(-5)
				s.tr.Count("bidkindL:negative")
			default:
				amt = C.MulRaw(int64(1 + rng.Intn(95))).QuoRaw(100)
				s.tr.Count("bidkindL:partial")
			}
			s.bidL(bidders[rng.Intn(4)], amt)
		} else {
			el := int64(s.now.Sub(a.StartTime) / time.Second)
			T := int64(cfg.T)
			var dt int64
			switch rng.Intn(8) {
			case 0:
				dt = 1
			case 1:
				dt = T - el
			case 2:
				dt = T - el - 1
			case 3:
				dt = T - el + 1
				s.tr.Count("tickkindL:restart")
			case 4:
				dt = T/3 + 1
			case 5:
				dt = T + 1 + int64(rng.Intn(100))
				s.tr.Count("tickkindL:restart")
			default:
				dt = 1 + int64(rng.Intn(int(T)+1))
			}
			if dt < 1 {
				dt = 1
			}
			if rng.Chance(25) {
				tc, _ := s.collTwa()
				nt := tc * uint64(70+rng.Intn(41)) / 100
				if nt == 0 {
					nt = 1
				}
				s.setColl(nt, !rng.Chance(15))
			}
			if rng.Chance(20) {
				td, _ := s.debtTwa()
				nt := td * uint64(90+rng.Intn(21)) / 100
				if nt == 0 {
					nt = 1
				}
				s.setDebt(nt, !rng.Chance(15))
			}
			s.tickL(time.Duration(dt) * time.Second)
		}
	}
}

func TestC10(t *testing.T) {
	tr := OpenTrace(t, "c10.trace")
	defer tr.Close(t)
	// NewRng(k) is NewRng(1) advanced by k-1 draws: spread the seeds 2^40 draws apart so that runs do not overlap
	rng := NewRng(seed()<<40 + 1)
	f := c10newFix(t)
	// ---- price functions (D8 witness is the first line)
	c10pricePart(t, f, tr, rng)

	base := c10cfg{pair: 0, kind: "vaultkeeper", amountIn: sdk.NewInt(1000000), amountOut: sdk.NewInt(1000000), dropTo: 1400000, T: 3600,
		premium: "1.2", discount: "0.7", incentive: "0.1", minUsd: 100000, bonusRate: "0", penaltyExt: "0.1"}
	// ---- corpus 1: D7 — two limit bidders at one premium are both filled against the auction value read before the loop
	cfg := base
	cfg.second = true
	s := c10start(t, f, tr, cfg)
	s.limit("b1", 9, sdk.NewInt(400000))
	s.limit("b2", 9, sdk.NewInt(400000))
	s.tick(2950 * time.Second)
	s.tick(10 * time.Second)
	s.bid("b4", sdk.NewInt(5000000))
	// ---- corpus 2: reserve shortfall — collateral exhausted, reserve record too small, other users' funds are spent
	cfg = base
	cfg.dropTo = 1000000
	cfg.reserve = 10
	s = c10start(t, f, tr, cfg)
	s.limit("b4", 30, sdk.NewInt(700000))
	s.tick(30 * time.Minute)
	s.bid("b1", sdk.NewInt(5000000))
	// ---- corpus 2b: a limit fill clipped by exhausted collateral debits the whole remaining target from the deposit
	cfg = base
	cfg.dropTo = 1000000
	cfg.reserve = 1000000
	s = c10start(t, f, tr, cfg)
	s.limit("b1", 1, sdk.NewInt(2000000))
	s.tick(2100 * time.Second)
	// ---- note for C01 (D13, no C10 monitor): a V2 close lowers TokenMintedAmount by principal + closing fee (+ interest)
	cfg = base
	cfg.pair = 1 // COLB (10^8 decimals, 30000 USD) / DEBTS, closing fee 0.5 %
	cfg.kind = "vault"
	cfg.amountIn, cfg.amountOut, cfg.dropTo = sdk.NewInt(10000), sdk.NewInt(1000000), 14000000000
	s = c10start(t, f, tr, cfg)
	s.bid("b1", sdk.NewInt(2000000))
	if m, found := f.app.VaultKeeper.GetAppExtendedPairVaultMappingData(s.ctx, f.appID, s.p.extID); found && m.TokenMintedAmount.IsNegative() {
		tr.Count("note:D13-minted-total-negative-after-close")
	}
	// ---- corpus 3: plain scripted closes of each kind
	s = c10start(t, f, tr, base)
	s.bid("b1", sdk.NewInt(100000))
	s.tick(30 * time.Minute)
	s.bid("b2", sdk.NewInt(1))
	s.bid("b2", sdk.NewInt(5000000))
	cfg = base
	cfg.kind = "external"
	cfg.reserve = 1000000
	cfg.bonusRate = "0.05"
	cfg.incentive = "0"
	s = c10start(t, f, tr, cfg)
	s.bid("b1", sdk.NewInt(300000))
	s.tick(10 * time.Minute)
	s.bid("b2", sdk.NewInt(5000000))
	cfg.incentive = "0.1" // external close with a keeper incentive: the transfer to the empty keeper address panics
	s = c10start(t, f, tr, cfg)
	s.bid("b2", sdk.NewInt(5000000))
	// D8 on a live auction: block time exactly at EndTime, window 10 s
	cfg = base
	cfg.T = 10
	s = c10start(t, f, tr, cfg)
	s.tick(9 * time.Second)
	s.tick(1 * time.Second)
	s.tick(1 * time.Second)
	// ---- corpus 4: emergency shutdown, vault-initiated auction past the end of its window — TriggerEsm forwards what was collected
	// but deletes nothing, so every further block forwards the same amount again, out of a stranger's limit deposit
	cfg = base
	s = c10start(t, f, tr, cfg)
	s.bid("b1", sdk.NewInt(100000))
	s.limit("b4", 30, sdk.NewInt(250000))
	s.esm(true)
	s.tick(61 * time.Minute) // TriggerEsm: 100 000 to the collector, auction and collateral stay
	s.tick(1 * time.Minute)  // again: 100 000 of b4's deposit
	s.tick(1 * time.Minute)  // again
	s.tick(1 * time.Minute)  // 50 000 left: the transfer fails, the step is rolled back
	if ok, _ := c10deliver(f.app, s.ctx, auctionsV2types.NewMsgCancelLimitBid(c10addr("b4").String(), s.p.coll.id, s.p.debt.id, sdk.NewInt(30))); ok {
		tr.Count("corpus:esm-trigger:stranger-could-cancel")
	} else {
		tr.Count("corpus:esm-trigger:stranger-cannot-cancel")
	}
	s.bid("b2", sdk.NewInt(200000)) // the auction still takes bids
	tr.Count("corpus:esm-trigger-repeats")

	// ---- lend-initiated positions (fixture of the repository's own auctionsV2 tests)
	fl := c10newLendFix(t)
	lcfg := c10cfg{pair: 0, kind: "lend", amountIn: sdk.NewInt(100000000), amountOut: sdk.NewInt(70000000), dropTo: 1800000, T: 3600,
		premium: "1.2", discount: "0.7", incentive: "0.1", minUsd: 100000, bonusRate: "0", penaltyExt: "0.1"}
	s = c10start(t, fl, tr, lcfg)
	s.bid("b1", sdk.NewInt(53000000))
	s.tick(20 * time.Minute)
	s.bid("b2", sdk.NewInt(100000000))
	lcfg.kind, lcfg.pair, lcfg.amountOut, lcfg.dropTo = "lendcross", 1, sdk.NewInt(30000000), 1400000
	if s = c10start(t, fl, tr, lcfg); s != nil {
		s.bid("b1", sdk.NewInt(10000000))
		s.tick(20 * time.Minute)
		s.bid("b2", sdk.NewInt(100000000))
	}
	// lend close without an auction bonus (LiquidationBonus of the collateral asset 0), closed by one bid
	lcfg.kind, lcfg.pair, lcfg.amountOut, lcfg.dropTo, lcfg.lendBonus = "lendkeeper", 0, sdk.NewInt(70000000), 1800000, "0"
	if s = c10start(t, fl, tr, lcfg); s != nil {
		s.tick(20 * time.Minute)
		s.bid("b2", sdk.NewInt(100000000))
	}
	lcfg.lendBonus = ""
	// ---- emergency shutdown while a lend- / externally initiated auction is alive: inside the window the price keeps falling,
	// past the end of the window the iterator leaves such an auction exactly as it is (no update, no restart) — seeded change s81
	lcfg.kind, lcfg.pair, lcfg.amountOut, lcfg.dropTo = "lendkeeper", 0, sdk.NewInt(70000000), 1800000
	if s = c10start(t, fl, tr, lcfg); s != nil {
		s.esm(true)
		s.tick(30 * time.Minute)
		s.tick(30 * time.Minute) // exactly the end of the window
		s.tick(30 * time.Minute) // past it
		s.tick(60 * time.Minute)
		s.bid("b1", sdk.NewInt(10000000))
		s.esm(false)
		s.tick(1 * time.Minute) // shutdown lifted: the ordinary iterator restarts the auction
		s.bid("b2", sdk.NewInt(100000000))
	}
	cfg = base
	cfg.kind, cfg.reserve, cfg.incentive = "external", 1000000, "0"
	if s = c10start(t, f, tr, cfg); s != nil {
		s.tick(10 * time.Minute)
		s.esm(true)
		s.tick(20 * time.Minute)
		s.tick(31 * time.Minute) // past the end
		s.tick(3 * time.Hour)    // beyond the time-to-zero of the price function
		s.bid("b1", sdk.NewInt(300000))
		s.tick(1 * time.Minute)
		s.bid("b2", sdk.NewInt(5000000))
	}
	nl := scale(80, 3000)
	for i := 0; i < nl; i++ {
		cfg := c10genCfg(f, rng)
		cfg.pair = 0
		cfg.kind = []string{"lend", "lendkeeper", "lendcross"}[rng.Intn(3)]
		cfg.amountIn, cfg.amountOut = sdk.NewInt(100000000), sdk.NewInt(70000000)
		cfg.dropTo = []uint64{1860000, 1800000, 1700000, 1500000, 1200000, 900000, 400000}[rng.Intn(7)]
		if cfg.kind == "lendcross" {
			cfg.pair = 1
			cfg.amountOut = sdk.NewInt(30000000)
			cfg.dropTo = []uint64{1500000, 1400000, 1200000, 1000000, 700000, 300000}[rng.Intn(6)]
		}
		if cfg.reserve > 1000 {
			cfg.reserve = 200000000
		}
		cfg.lendBonus = []string{"", "0", "0", "0.1"}[rng.Intn(4)]
		cfg.age = []int64{0, 0, 86400 * 30, 86400 * 365}[rng.Intn(4)]
		s := c10start(t, fl, tr, cfg)
		if s == nil {
			continue
		}
		s.randomOps(rng, cfg)
	}

	// ---- first generation: scripted close, then generated sequences
	c1 := c10cfg1{pair: 0, amountIn: sdk.NewInt(1000000), amountOut: sdk.NewInt(1000000), dropTo: 1400000, T: 300, buffer: "1.2", cusp: "0.6", collector: 5000000}
	s1 := c10start1(t, f, tr, c1)
	s1.bid1("b1", sdk.NewInt(100000))
	s1.tick1(100 * time.Second)
	s1.bid1("b2", sdk.NewInt(5))
	s1.bid1("b2", sdk.NewInt(899995))
	c1.dropTo = 1000000
	s1 = c10start1(t, f, tr, c1)
	s1.tick1(250 * time.Second)
	s1.bid1("b1", sdk.NewInt(1000000)) // collateral sold out below the target: the collector covers the rest
	// emergency-shutdown wind-down, both branches: less than the principal collected / at least the principal collected
	c1 = c10cfg1{pair: 0, amountIn: sdk.NewInt(100000000), amountOut: sdk.NewInt(100000000), dropTo: 1400000, T: 300, buffer: "1.2", cusp: "0.6", collector: 0}
	if s1 = c10start1(t, f, tr, c1); s1 != nil {
		s1.tick1(100 * time.Second)
		s1.bid1("b1", sdk.NewInt(20000000))
		s1.esmOn1(true)
		s1.tick1(100 * time.Second) // window not over: price update only
		s1.tick1(150 * time.Second) // window over, ESM on: collateral back to the vault module, collected debt burned
	}
	if s1 = c10start1(t, f, tr, c1); s1 != nil {
		s1.tick1(100 * time.Second)
		s1.bid1("b1", sdk.NewInt(72000000))
		s1.esmOn1(true)
		s1.tick1(250 * time.Second) // collected ≥ principal: principal burned, excess to the collector, collateral to the ESM module
	}
	// D8 on a live first-generation auction: block time exactly at EndTime, window 10 s
	c1 = c10cfg1{pair: 0, amountIn: sdk.NewInt(1000000), amountOut: sdk.NewInt(1000000), dropTo: 1400000, T: 10, buffer: "1.2", cusp: "0.7", collector: 0}
	s1 = c10start1(t, f, tr, c1)
	s1.tick1(9 * time.Second)
	s1.tick1(1 * time.Second)
	s1.tick1(1 * time.Second)
	n1 := scale(250, 10000)
	for i := 0; i < n1; i++ {
		cfg := c10genCfg1(f, rng)
		s := c10start1(t, f, tr, cfg)
		if s == nil {
			continue
		}
		s.randomOps1(rng, cfg)
	}

	// ---- first generation, liquidated borrows
	cl := c10cfgL{dropTo: 1800000, T: 3600, buffer: "1.2", cusp: "0.7"}
	sl := c10startL(t, fl, tr, cl)
	if sl != nil {
		sl.bidL("b1", sdk.NewInt(1000000))
		sl.tickL(20 * time.Minute)
		sl.bidL("b2", sdk.NewInt(2000000000))
		if a, ok := sl.auctionL(); ok {
			sl.bidL("b2", a.OutflowTokenCurrentAmount.Amount)
		}
	}
	// the same with a borrow that is a year old: interest was booked at liquidation, the close sends the reserve's share to the lend
	// module and mints cTokens for the rest
	cl.age = 86400 * 365
	if sl = c10startL(t, fl, tr, cl); sl != nil {
		sl.bidL("b1", sdk.NewInt(1000000))
		if a, ok := sl.auctionL(); ok {
			sl.bidL("b2", a.OutflowTokenCurrentAmount.Amount)
		}
	}
	nL := scale(150, 6000)
	for i := 0; i < nL; i++ {
		cfg := c10cfgL{dropTo: []uint64{1860000, 1800000, 1700000, 1500000, 1200000, 900000, 400000}[rng.Intn(7)],
			T: []uint64{10, 60, 600, 3600, 21600}[rng.Intn(5)], buffer: []string{"1.2", "1.05", "1.5", "1"}[rng.Intn(4)],
			cusp: []string{"0.7", "0.5", "0.9", "0.3"}[rng.Intn(4)], sweep: rng.Chance(50), resFund: []int64{0, 1000, 500000000, 500000000}[rng.Intn(4)],
			age: []int64{0, 0, 3600, 3601, 86400 * 30, 86400*30 + 1, 86400 * 365}[rng.Intn(7)]}
		cfg.trackSecond = cfg.sweep && rng.Chance(50)
		if rng.Chance(45) {
			cfg.shiftAuc = []uint64{0, 1, 2}[rng.Intn(3)]
			cfg.shiftLv = []uint64{0, 1, 3}[rng.Intn(3)]
		}
		s := c10startL(t, fl, tr, cfg)
		if s == nil {
			continue
		}
		s.randomOpsL(rng, cfg)
	}

	// ---- first-generation vault auctions in the lend world: a REAL borrow liquidation takes locked vault id 1 first
	flv := &c10fix{app: fl.app, base: fl.base, appID: 2, t0: fl.t0,
		pairs: []c10pair{{coll: fl.pairs[0].coll, debt: c10asset{3, "uasset3", 1000000}, extID: 1, cmst: true}}}
	nV := scale(60, 2000)
	for i := 0; i < nV; i++ {
		cfg := c10genCfg1(flv, rng)
		cfg.pair = 0
		cfg.lendFirst = true
		cfg.shiftAuc, cfg.shiftLv = 0, 0
		if cfg.dropTo > 1500000 {
			cfg.dropTo = 1500000 // the borrow must be liquidatable too
		}
		s := c10start1(t, flv, tr, cfg)
		if s == nil {
			continue
		}
		s.randomOps1(rng, cfg)
	}

	// ---- generated sequences
	n := scale(400, 16000)
	for i := 0; i < n; i++ {
		cfg := c10genCfg(f, rng)
		s := c10start(t, f, tr, cfg)
		if s == nil {
			continue
		}
		s.randomOps(rng, cfg)
	}
}
