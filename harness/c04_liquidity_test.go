//go:build verif

package harness

// C04 (liquidity custody) and C07 (order settlement): drives the REAL x/liquidity message handlers
// (ValidateBasic + app.MsgServiceRouter().Handler on a CacheContext written back only on success) and the real
// BeginBlocker / EndBlocker over many batches, and writes one trace line per message / block hook plus the state
// projection the Lean monitors are evaluated on.  Trace format: see lean/Comdex/Drv/LiqLedger.lean.

import (
	"encoding/binary"
	"fmt"
	"sort"
	"strconv"
	"strings"
	"testing"
	"time"

	sdkmath "cosmossdk.io/math"
	tmproto "github.com/cometbft/cometbft/proto/tendermint/types"
	sdk "github.com/cosmos/cosmos-sdk/types"

	chain "github.com/comdex-official/comdex/app"
	assettypes "github.com/comdex-official/comdex/x/asset/types"
	"github.com/comdex-official/comdex/x/liquidity"
	"github.com/comdex-official/comdex/x/liquidity/amm"
	liqkeeper "github.com/comdex-official/comdex/x/liquidity/keeper"
	v1liquidity "github.com/comdex-official/comdex/x/liquidity/legacy/v1"
	liqtypes "github.com/comdex-official/comdex/x/liquidity/types"
)

const c04T0 = int64(1700000000)

type c04Pair struct {
	app, id     uint64
	base, quote string
	last, batch uint64
	lastPrice   string // pair.LastPrice as raw 10^-18 integer, "-" when nil
}

func c04LastPrice(pr liqtypes.Pair) string {
	if pr.LastPrice == nil {
		return "-"
	}
	return pr.LastPrice.BigInt().String()
}
type c04Pool struct {
	app, id, pair    uint64
	ranged, disabled bool
	ps               sdkmath.Int
	lastDep, lastWdr uint64
}
type c04Dep struct {
	app, pool, id uint64
	owner         int
	dx, dy        sdkmath.Int
	status        int
	ax, ay, mint  sdkmath.Int
}
type c04Wdr struct {
	app, pool, id uint64
	owner         int
	pc            sdkmath.Int
	status        int
	wx, wy        sdkmath.Int
}
type c04Order struct {
	app, pair, id           uint64
	owner, typ              int
	buy                     bool
	price                   sdkmath.LegacyDec
	amount, open            sdkmath.Int
	offer, rem, recv        sdkmath.Int
	status                  int
	batch                   uint64
	expire                  int64
}
type c04MM struct {
	app, pair uint64
	owner     int
	ids       []uint64
}
type c04Farmer struct {
	app, pool uint64
	owner     int
	active    sdkmath.Int
	queued    []string // amt@createdAt
}
type c04Proj struct {
	pairs   []c04Pair
	pools   []c04Pool
	deps    []c04Dep
	wdrs    []c04Wdr
	orders  []c04Order
	mms     []c04MM
	farmers []c04Farmer
	bal     map[string]sdkmath.Int // "acct/denom"
}

type c04Env struct {
	t       *testing.T
	tr      *Trace
	rng     *Rng
	app     *chain.App
	ctx     sdk.Context
	k       liqkeeper.Keeper
	prop    string
	apps    []uint64
	users   []sdk.AccAddress
	uidx    map[string]int
	coins   []string
	cidx    map[string]int
	height  int64
	now     int64
	prev    *c04Proj
	feeRate map[uint64]sdkmath.LegacyDec
	okCnt   int
	msgCnt  int
	migWait int64 // see nextBlock
	migAt   int64 // height at whose start (after the previous EndBlocker, before the BeginBlocker — where x/upgrade runs module migrations) the store migration 1 -> 2 is run; 0 = never
	pcDenom string // the next withdraw / farm / unfarm message carries this pool-coin denom (e.g. the pool coin of ANOTHER app's pool with the same pool id)
	foreign bool // the next deposit / pool-creation message carries a coin denom that is not in the pair
	v1      bool // version-1 world: no market-making orders, no ranged pools (the store can be re-encoded in the v1 layout)
	tiny    bool // tiny-price markets (prices around 10^-4 .. 10^-3): many truncations to zero in the matching engine
}

func c04Addr(n int) sdk.AccAddress {
	a := make(sdk.AccAddress, 20)
	binary.PutVarint(a, int64(n+1000))
	return a
}

func c04b(b bool) string {
	if b {
		return "1"
	}
	return "0"
}

// ---------------------------------------------------------------------------------------------------------
// environment
// ---------------------------------------------------------------------------------------------------------

func c04NewEnv(t *testing.T, tr *Trace, rng *Rng, prop string, variant int) *c04Env {
	e := &c04Env{t: t, tr: tr, rng: rng, prop: prop, uidx: map[string]int{}, cidx: map[string]int{}, feeRate: map[uint64]sdkmath.LegacyDec{}}
	e.app = chain.Setup(t, false)
	e.height = 1
	e.now = c04T0
	e.ctx = e.app.BaseApp.NewContext(false, tmproto.Header{Height: e.height, Time: time.Unix(e.now, 0).UTC()})
	e.k = e.app.LiquidityKeeper
	if apps, found := e.app.AssetKeeper.GetApps(e.ctx); found && len(apps) > 0 {
		t.Fatalf("unexpected pre-existing apps: %d", len(apps))
	}
	for i := 1; i <= 3; i++ {
		name := "app" + alphaName(i)
		err := e.app.AssetKeeper.AddAppRecords(e.ctx, assettypes.AppData{
			Name: strings.ToLower(name), ShortName: strings.ToLower(name), MinGovDeposit: sdkmath.NewInt(0), GovTimeInSeconds: 0,
			GenesisToken: []assettypes.MintGenesisToken{},
		})
		if err != nil {
			t.Fatal(err)
		}
	}
	apps, _ := e.app.AssetKeeper.GetApps(e.ctx)
	for _, a := range apps {
		e.apps = append(e.apps, a.Id)
	}
	if len(e.apps) != 3 || e.apps[0] != 1 || e.apps[2] != 3 {
		t.Fatalf("app ids: %v", e.apps)
	}
	e.coins = []string{"ucmdx", "ucoina", "ucoinb", "ucoinc", "ucoind", "ucoine"}
	for i, d := range e.coins {
		e.cidx[d] = i
		err := e.app.AssetKeeper.AddAssetRecords(e.ctx, assettypes.Asset{
			Name: "C" + alphaName(i), Denom: d, Decimals: sdkmath.NewInt(1000000), IsOnChain: true, IsOraclePriceRequired: false,
		})
		if err != nil {
			t.Fatal(err)
		}
	}
	// per-app parameters: different swap fee rates, one app with a two-block batch, a shorter order lifespan
	type pv struct{ k, v string }
	sets := map[uint64][]pv{}
	switch variant % 3 {
	case 0:
		sets[2] = []pv{{"SwapFeeRate", "0.0175"}}
		sets[3] = []pv{{"SwapFeeRate", "0"}, {"BatchSize", "2"}, {"MaxOrderLifespan", "3600s"}}
	case 1:
		sets[1] = []pv{{"SwapFeeRate", "0.000999"}}
		sets[2] = []pv{{"SwapFeeRate", "0.25"}, {"MaxOrderLifespan", "600s"}}
	case 2:
		sets[1] = []pv{{"BatchSize", "3"}}
		sets[3] = []pv{{"SwapFeeRate", "0.003000000000000001"}}
	}
	for _, a := range e.apps {
		if _, err := e.k.GetGenericParams(e.ctx, a); err != nil {
			t.Fatal(err)
		}
		var ks, vs []string
		for _, x := range sets[a] {
			ks = append(ks, x.k)
			vs = append(vs, x.v)
		}
		if len(ks) > 0 {
			if err := e.k.UpdateGenericParams(e.ctx, a, ks, vs); err != nil {
				t.Fatal(err)
			}
		}
	}
	// users
	nu := 5
	var funds []string
	for i := 0; i < nu; i++ {
		a := c04Addr(i)
		e.users = append(e.users, a)
		e.uidx[a.String()] = i
		for ci, d := range e.coins {
			var amt sdkmath.Int
			switch {
			case ci == 0:
				amt = sdkmath.NewInt(40_000_000_000) // creation fees: 20 pairs/pools
				if i == 4 {
					amt = sdkmath.NewInt(3_000_000_000) // one creation only
				}
			case i == 4:
				amt = sdkmath.NewInt(int64(50_000 + rng.Intn(2_000_000))) // a poor account: insufficient-funds branches
			default:
				amt = sdkmath.NewInt(1_000_000_000_000).MulRaw(int64(1 + rng.Intn(1000)))
			}
			c := sdk.NewCoins(sdk.NewCoin(d, amt))
			if err := e.app.BankKeeper.MintCoins(e.ctx, liqtypes.ModuleName, c); err != nil {
				t.Fatal(err)
			}
			if err := e.app.BankKeeper.SendCoinsFromModuleToAccount(e.ctx, liqtypes.ModuleName, a, c); err != nil {
				t.Fatal(err)
			}
			funds = append(funds, fmt.Sprintf("%d:%d:%s", i, ci, amt))
		}
	}
	var acfg []string
	for _, a := range e.apps {
		p, _ := e.k.GetGenericParams(e.ctx, a)
		e.feeRate[a] = p.SwapFeeRate
		acfg = append(acfg, fmt.Sprintf("%d:%s:%d:%d:%s:%s:%s:%s:%d:%d:%s:%d", a, p.SwapFeeRate.BigInt().String(), p.BatchSize,
			int64(p.MaxOrderLifespan/time.Second), p.PairCreationFee.AmountOf("ucmdx"), p.PoolCreationFee.AmountOf("ucmdx"),
			p.MinInitialDepositAmount, p.MinInitialPoolCoinSupply, p.MaxNumActivePoolsPerPair,
			p.TickPrecision, p.MaxPriceLimitRatio.BigInt().String(), p.MaxNumMarketMakingOrderTicks))
		if len(p.PairCreationFee) != 1 || len(p.PoolCreationFee) != 1 {
			t.Fatal("creation fee denoms")
		}
	}
	tr.Line("lq.begin", prop, strconv.FormatInt(int64(liqtypes.DefaultFarmingQueueDuration/time.Second), 10),
		strings.Join(acfg, ";"), strings.Join(funds, ";"))
	e.block(e.height, e.now)
	e.prev = e.project()
	e.state()
	return e
}

func (e *c04Env) dcode(denom string) string {
	if i, ok := e.cidx[denom]; ok {
		return "c" + strconv.Itoa(i)
	}
	if a, p, err := liqtypes.ParsePoolCoinDenom(denom); err == nil {
		return fmt.Sprintf("p%d.%d", a, p)
	}
	var a, p uint64
	if n, err := fmt.Sscanf(denom, "pool%d-%d", &a, &p); err == nil && n == 2 {
		return fmt.Sprintf("p%d.%d", a, p) // a pool-coin denom of an app / pool that does not exist (ParsePoolCoinDenom refuses app 0)
	}
	e.t.Fatalf("unknown denom %s", denom)
	return ""
}

func (e *c04Env) user(addr string) int {
	if i, ok := e.uidx[addr]; ok {
		return i
	}
	return 999
}

// ---------------------------------------------------------------------------------------------------------
// projection of the real state
// ---------------------------------------------------------------------------------------------------------

func (e *c04Env) project() *c04Proj {
	p := &c04Proj{bal: map[string]sdkmath.Int{}}
	ctx := e.ctx
	accts := map[string]sdk.AccAddress{}
	for i, u := range e.users {
		accts["u"+strconv.Itoa(i)] = u
	}
	accts["ge"] = liqtypes.GlobalEscrowAddress
	accts["mo"] = e.app.AccountKeeper.GetModuleAddress(liqtypes.ModuleName)
	for _, a := range e.apps {
		accts[fmt.Sprintf("du%d", a)] = liqtypes.DeriveDustCollectorAddress(a)
		accts[fmt.Sprintf("fc%d", a)] = liqtypes.DeriveFeeCollectorAddress(a)
		for _, pr := range e.k.GetAllPairs(ctx, a) {
			p.pairs = append(p.pairs, c04Pair{a, pr.Id, pr.BaseCoinDenom, pr.QuoteCoinDenom, pr.LastOrderId, pr.CurrentBatchId, c04LastPrice(pr)})
			accts[fmt.Sprintf("pe%d.%d", a, pr.Id)] = pr.GetEscrowAddress()
			accts[fmt.Sprintf("sf%d.%d", a, pr.Id)] = pr.GetSwapFeeCollectorAddress()
		}
		for _, pl := range e.k.GetAllPools(ctx, a) {
			p.pools = append(p.pools, c04Pool{a, pl.Id, pl.PairId, pl.Type == liqtypes.PoolTypeRanged, pl.Disabled,
				e.k.GetPoolCoinSupply(ctx, pl), pl.LastDepositRequestId, pl.LastWithdrawRequestId})
			accts[fmt.Sprintf("rs%d.%d", a, pl.Id)] = pl.GetReserveAddress()
			fm := map[int]*c04Farmer{}
			for _, q := range e.k.GetAllQueuedFarmers(ctx, a, pl.Id) {
				u := e.user(q.Farmer)
				f := &c04Farmer{app: a, pool: pl.Id, owner: u, active: sdkmath.ZeroInt()}
				for _, qc := range q.QueudCoins {
					f.queued = append(f.queued, qc.FarmedPoolCoin.Amount.String()+"@"+strconv.FormatInt(qc.CreatedAt.Unix(), 10))
				}
				fm[u] = f
			}
			for _, af := range e.k.GetAllActiveFarmers(ctx, a, pl.Id) {
				u := e.user(af.Farmer)
				f, ok := fm[u]
				if !ok {
					f = &c04Farmer{app: a, pool: pl.Id, owner: u}
					f.queued = []string{"orphan"} // an active farmer without a queue record: not representable in the model
					fm[u] = f
				}
				f.active = af.FarmedPoolCoin.Amount
			}
			us := make([]int, 0, len(fm))
			for u := range fm {
				us = append(us, u)
			}
			sort.Ints(us)
			for _, u := range us {
				p.farmers = append(p.farmers, *fm[u])
			}
		}
		pairOf := map[uint64]c04Pair{}
		for _, pr := range p.pairs {
			if pr.app == a {
				pairOf[pr.id] = pr
			}
		}
		poolPair := map[uint64]c04Pair{}
		for _, pl := range p.pools {
			if pl.app == a {
				poolPair[pl.id] = pairOf[pl.pair]
			}
		}
		for _, r := range e.k.GetAllDepositRequests(ctx, a) {
			pr := poolPair[r.PoolId]
			p.deps = append(p.deps, c04Dep{a, r.PoolId, r.Id, e.user(r.Depositor), r.DepositCoins.AmountOf(pr.quote), r.DepositCoins.AmountOf(pr.base),
				int(r.Status), r.AcceptedCoins.AmountOf(pr.quote), r.AcceptedCoins.AmountOf(pr.base), r.MintedPoolCoin.Amount})
		}
		for _, r := range e.k.GetAllWithdrawRequests(ctx, a) {
			pr := poolPair[r.PoolId]
			p.wdrs = append(p.wdrs, c04Wdr{a, r.PoolId, r.Id, e.user(r.Withdrawer), r.PoolCoin.Amount, int(r.Status),
				r.WithdrawnCoins.AmountOf(pr.quote), r.WithdrawnCoins.AmountOf(pr.base)})
		}
		for _, o := range e.k.GetAllOrders(ctx, a) {
			p.orders = append(p.orders, c04Order{a, o.PairId, o.Id, e.user(o.Orderer), int(o.Type), o.Direction == liqtypes.OrderDirectionBuy,
				o.Price, o.Amount, o.OpenAmount, o.OfferCoin.Amount, o.RemainingOfferCoin.Amount, o.ReceivedCoin.Amount, int(o.Status), o.BatchId, o.ExpireAt.Unix()})
		}
		for _, ix := range e.k.GetAllMMOrderIndexes(ctx, a) {
			p.mms = append(p.mms, c04MM{a, ix.PairId, e.user(ix.Orderer), ix.OrderIds})
		}
	}
	sort.Slice(p.deps, func(i, j int) bool {
		x, y := p.deps[i], p.deps[j]
		return x.app < y.app || x.app == y.app && (x.pool < y.pool || x.pool == y.pool && x.id < y.id)
	})
	sort.Slice(p.wdrs, func(i, j int) bool {
		x, y := p.wdrs[i], p.wdrs[j]
		return x.app < y.app || x.app == y.app && (x.pool < y.pool || x.pool == y.pool && x.id < y.id)
	})
	sort.Slice(p.orders, func(i, j int) bool {
		x, y := p.orders[i], p.orders[j]
		return x.app < y.app || x.app == y.app && (x.pair < y.pair || x.pair == y.pair && x.id < y.id)
	})
	sort.Slice(p.mms, func(i, j int) bool {
		x, y := p.mms[i], p.mms[j]
		return x.app < y.app || x.app == y.app && (x.pair < y.pair || x.pair == y.pair && x.owner < y.owner)
	})
	for code, addr := range accts {
		for _, c := range e.app.BankKeeper.GetAllBalances(ctx, addr) {
			if c.Amount.IsPositive() {
				p.bal[code+"/"+e.dcode(c.Denom)] = c.Amount
			}
		}
	}
	return p
}

func (p *c04Proj) get(acct, denom string) sdkmath.Int {
	if v, ok := p.bal[acct+"/"+denom]; ok {
		return v
	}
	return sdkmath.ZeroInt()
}

func (e *c04Env) state() {
	p := e.project()
	var bal, pairs, pools, deps, wdrs, orders, mms, farm []string
	for k, v := range p.bal {
		bal = append(bal, k+":"+v.String())
	}
	sort.Strings(bal)
	for _, x := range p.pairs {
		pairs = append(pairs, fmt.Sprintf("%d:%d:%s:%s:%d:%d:%s", x.app, x.id, e.dcode(x.base), e.dcode(x.quote), x.last, x.batch, x.lastPrice))
	}
	for _, x := range p.pools {
		pools = append(pools, fmt.Sprintf("%d:%d:%d:%s:%s:%s:%d:%d", x.app, x.id, x.pair, c04b(x.ranged), c04b(x.disabled), x.ps, x.lastDep, x.lastWdr))
	}
	for _, x := range p.deps {
		deps = append(deps, fmt.Sprintf("%d:%d:%d:%d:%s:%s:%d:%s:%s:%s", x.app, x.pool, x.id, x.owner, x.dx, x.dy, x.status, x.ax, x.ay, x.mint))
	}
	for _, x := range p.wdrs {
		wdrs = append(wdrs, fmt.Sprintf("%d:%d:%d:%d:%s:%d:%s:%s", x.app, x.pool, x.id, x.owner, x.pc, x.status, x.wx, x.wy))
	}
	for _, x := range p.orders {
		orders = append(orders, fmt.Sprintf("%d:%d:%d:%d:%d:%s:%s:%s:%s:%s:%s:%s:%d:%d:%d", x.app, x.pair, x.id, x.owner, x.typ, c04b(x.buy),
			x.price.BigInt().String(), x.amount, x.open, x.offer, x.rem, x.recv, x.status, x.batch, x.expire))
	}
	for _, x := range p.mms {
		ids := make([]string, len(x.ids))
		for i, id := range x.ids {
			ids[i] = u(id)
		}
		mms = append(mms, fmt.Sprintf("%d:%d:%d:%s", x.app, x.pair, x.owner, strings.Join(ids, ";")))
	}
	for _, x := range p.farmers {
		farm = append(farm, fmt.Sprintf("%d:%d:%d:%s:%s", x.app, x.pool, x.owner, x.active, strings.Join(x.queued, ";")))
	}
	e.tr.Line("lq.state", "bal="+strings.Join(bal, ","), "pairs="+strings.Join(pairs, ","), "pools="+strings.Join(pools, ","),
		"deps="+strings.Join(deps, ","), "wdrs="+strings.Join(wdrs, ","), "orders="+strings.Join(orders, ","),
		"mm="+strings.Join(mms, ","), "farm="+strings.Join(farm, ","))
	// the repository's own invariants as a cross-check of the monitors
	msg, broken := liqkeeper.AllInvariants(e.k)(e.ctx)
	if broken {
		e.tr.Count("repo_invariant:broken")
		e.tr.Line("lq.inv", "broken", strings.ReplaceAll(strings.ReplaceAll(msg, "\n", " "), "\t", " "))
	} else {
		e.tr.Line("lq.inv", "ok", "")
	}
	e.prev = p
}

// ---------------------------------------------------------------------------------------------------------
// delivery
// ---------------------------------------------------------------------------------------------------------

// deliver re-enacts baseapp's runMsgs discipline: ValidateBasic, then the routed handler on a cache context
// that is written back only on success.
func (e *c04Env) deliver(msg sdk.Msg) string {
	e.msgCnt++
	if err := msg.ValidateBasic(); err != nil {
		return "err"
	}
	h := e.app.MsgServiceRouter().Handler(msg)
	if h == nil {
		e.t.Fatalf("no handler for %T", msg)
	}
	cctx, write := e.ctx.CacheContext()
	var err error
	panicked, _ := try(func() { _, err = h(cctx, msg) })
	if panicked {
		return "panic"
	}
	if err != nil {
		return "err"
	}
	write()
	e.okCnt++
	return "ok"
}

func (e *c04Env) emit(kind string, outcome string, fields ...string) {
	e.tr.Count(kind + ":" + outcome)
	e.tr.Line(kind, append(fields, outcome)...)
	e.state()
}

func (e *c04Env) block(h, now int64) {
	e.height, e.now = h, now
	e.ctx = e.ctx.WithBlockHeight(h).WithBlockTime(time.Unix(now, 0).UTC())
	e.tr.Line("lq.block", i64(h), i64(now))
}

func (e *c04Env) beginBlocker() {
	liquidity.BeginBlocker(e.ctx, e.k, e.app.AssetKeeper)
	for _, a := range e.apps {
		e.tr.Line("lq.bb", u(a))
	}
	e.state()
}

// endBlocker runs the real EndBlocker for all apps and derives, per app, what the matching engine and the pool
// maths did from the records before / after (fills, pool flows, dust, accepted / minted / withdrawn amounts).
func (e *c04Env) endBlocker() {
	prev := e.prev
	liquidity.EndBlocker(e.ctx, e.k, e.app.AssetKeeper)
	cur := e.project()
	for _, a := range e.apps {
		prevOrder := map[[2]uint64]c04Order{}
		for _, o := range prev.orders {
			if o.app == a {
				prevOrder[[2]uint64{o.pair, o.id}] = o
			}
		}
		fills := map[uint64][]string{}
		for _, o := range cur.orders {
			if o.app != a {
				continue
			}
			po, ok := prevOrder[[2]uint64{o.pair, o.id}]
			if !ok {
				e.tr.Count("order:appeared_in_endblock")
				continue
			}
			if !po.rem.Equal(o.rem) || !po.recv.Equal(o.recv) || !po.open.Equal(o.open) {
				fills[o.pair] = append(fills[o.pair], fmt.Sprintf("%d:%s:%s:%s:%s", o.id, c04b(o.buy), po.rem.Sub(o.rem), o.recv.Sub(po.recv), po.open.Sub(o.open)))
				e.tr.Count("fill")
				if o.status == int(liqtypes.OrderStatusCompleted) {
					e.tr.Count("fill:completed")
				} else {
					e.tr.Count("fill:partial")
				}
			}
			if po.status != o.status && o.status == int(liqtypes.OrderStatusExpired) {
				e.tr.Count("order:expired")
			}
		}
		// request results
		var dins, wins []string
		acc := map[uint64][2]sdkmath.Int{} // pool -> accepted (quote, base) − withdrawn
		addTo := func(pool uint64, q, b sdkmath.Int) {
			v, ok := acc[pool]
			if !ok {
				v = [2]sdkmath.Int{sdkmath.ZeroInt(), sdkmath.ZeroInt()}
			}
			acc[pool] = [2]sdkmath.Int{v[0].Add(q), v[1].Add(b)}
		}
		prevDep := map[[2]uint64]int{}
		for _, r := range prev.deps {
			if r.app == a {
				prevDep[[2]uint64{r.pool, r.id}] = r.status
			}
		}
		for _, r := range cur.deps {
			if r.app == a && prevDep[[2]uint64{r.pool, r.id}] == int(liqtypes.RequestStatusNotExecuted) && r.status != int(liqtypes.RequestStatusNotExecuted) {
				if r.status == int(liqtypes.RequestStatusSucceeded) {
					dins = append(dins, fmt.Sprintf("%d:%d:%s:%s:%s", r.pool, r.id, r.ax, r.ay, r.mint))
					addTo(r.pool, r.ax, r.ay)
					e.tr.Count("deposit:succeeded")
				} else {
					e.tr.Count("deposit:failed")
				}
			}
		}
		prevWdr := map[[2]uint64]int{}
		for _, r := range prev.wdrs {
			if r.app == a {
				prevWdr[[2]uint64{r.pool, r.id}] = r.status
			}
		}
		for _, r := range cur.wdrs {
			if r.app == a && prevWdr[[2]uint64{r.pool, r.id}] == int(liqtypes.RequestStatusNotExecuted) && r.status != int(liqtypes.RequestStatusNotExecuted) {
				if r.status == int(liqtypes.RequestStatusSucceeded) {
					wins = append(wins, fmt.Sprintf("%d:%d:%s:%s", r.pool, r.id, r.wx, r.wy))
					addTo(r.pool, r.wx.Neg(), r.wy.Neg())
					e.tr.Count("withdraw:succeeded")
				} else {
					e.tr.Count("withdraw:failed")
				}
			}
		}
		// pool flows of the matching = reserve deltas minus request flows
		flows := map[uint64][]string{}
		pairOf := map[uint64]c04Pair{}
		for _, pr := range cur.pairs {
			if pr.app == a {
				pairOf[pr.id] = pr
			}
		}
		for _, pl := range cur.pools {
			if pl.app != a {
				continue
			}
			pr := pairOf[pl.pair]
			rs := fmt.Sprintf("rs%d.%d", a, pl.id)
			dq := cur.get(rs, e.dcode(pr.quote)).Sub(prev.get(rs, e.dcode(pr.quote)))
			db := cur.get(rs, e.dcode(pr.base)).Sub(prev.get(rs, e.dcode(pr.base)))
			if v, ok := acc[pl.id]; ok {
				dq = dq.Sub(v[0])
				db = db.Sub(v[1])
			}
			switch {
			case dq.IsZero() && db.IsZero():
			case dq.IsNegative() && !db.IsNegative():
				flows[pl.pair] = append(flows[pl.pair], fmt.Sprintf("%d:1:%s:%s", pl.id, dq.Neg(), db))
				e.tr.Count("poolflow:buy")
			case db.IsNegative() && !dq.IsNegative():
				flows[pl.pair] = append(flows[pl.pair], fmt.Sprintf("%d:0:%s:%s", pl.id, db.Neg(), dq))
				e.tr.Count("poolflow:sell")
			case dq.IsPositive() && db.IsZero():
				flows[pl.pair] = append(flows[pl.pair], fmt.Sprintf("%d:0:0:%s", pl.id, dq))
			case db.IsPositive() && dq.IsZero():
				flows[pl.pair] = append(flows[pl.pair], fmt.Sprintf("%d:1:0:%s", pl.id, db))
			default:
				// not explainable by one-directional matching plus the recorded request results: report what moved and let
				// the driver (DIFF) and the monitors on the state line judge — never abort the run
				e.tr.Count("poolflow:unexplained")
				pos := func(x sdkmath.Int) sdkmath.Int {
					if x.IsNegative() {
						return sdkmath.ZeroInt()
					}
					return x
				}
				flows[pl.pair] = append(flows[pl.pair], fmt.Sprintf("%d:1:%s:%s", pl.id, pos(dq.Neg()), pos(db)))
				flows[pl.pair] = append(flows[pl.pair], fmt.Sprintf("%d:0:%s:%s", pl.id, pos(db.Neg()), pos(dq)))
			}
		}
		// dust: delta of the app's dust collector per denom, attributed to the pair with that quote denom
		var ms []string
		outcome := "ok"
		for _, pr := range cur.pairs {
			if pr.app != a {
				continue
			}
			du := fmt.Sprintf("du%d", a)
			dust := cur.get(du, e.dcode(pr.quote)).Sub(prev.get(du, e.dcode(pr.quote)))
			lastChanged := false
			for _, pp := range prev.pairs {
				if pp.app == a && pp.id == pr.id && pp.lastPrice != pr.lastPrice {
					lastChanged = true
					e.tr.Count("batch:last_price_changed")
				}
			}
			if len(fills[pr.id]) > 0 || len(flows[pr.id]) > 0 || !dust.IsZero() || lastChanged {
				// the match price (pair.LastPrice after the batch) is an observed result of the matching engine (C05)
				ms = append(ms, fmt.Sprintf("%d/%s/%s/%s/%s", pr.id, strings.Join(fills[pr.id], ","), strings.Join(flows[pr.id], ","), dust, pr.lastPrice))
				e.tr.Count("batch:matched")
			}
			for _, pp := range prev.pairs {
				if pp.app == a && pp.id == pr.id {
					params, _ := e.k.GetGenericParams(e.ctx, a)
					if e.height%int64(params.BatchSize) == 0 && pp.batch == pr.batch {
						outcome = "err" // ExecuteRequests panicked and was rolled back by ApplyFuncIfNoError
					}
				}
			}
		}
		e.tr.Count("lq.eb:" + outcome)
		e.tr.Line("lq.eb", u(a), strings.Join(ms, "|"), strings.Join(dins, ","), strings.Join(wins, ","), outcome)
	}
	e.state()
}

// ---------------------------------------------------------------------------------------------------------
// store migration 1 -> 2
// ---------------------------------------------------------------------------------------------------------

// migrate re-encodes the liquidity store in the consensus-version-1 layout (generic params, pools, orders as legacy/v1
// protobufs: the state a chain has right before the upgrade) and runs the REAL registered migration
// keeper.Migrator.Migrate1to2 (module.go: cfg.RegisterMigration(types.ModuleName, 1, m.Migrate1to2)).  Only possible
// when the state is representable in the v1 layout: no market-making orders / indexes, no ranged pools.
func (e *c04Env) migrate() bool {
	p := e.prev
	for _, o := range p.orders {
		if o.typ == int(liqtypes.OrderTypeMM) {
			e.tr.Count("migrate:skipped_mm_orders")
			return false
		}
	}
	if len(p.mms) > 0 {
		e.tr.Count("migrate:skipped_mm_index")
		return false
	}
	for _, pl := range p.pools {
		if pl.ranged {
			e.tr.Count("migrate:skipped_ranged_pool")
			return false
		}
	}
	store := e.ctx.KVStore(e.app.GetKey(liqtypes.StoreKey))
	cdc := e.app.AppCodec()
	before := map[uint64]liqtypes.GenericParams{}
	nPartial, nLive, nOrders := 0, 0, 0
	for _, a := range e.apps {
		params, err := e.k.GetGenericParams(e.ctx, a)
		if err != nil {
			e.t.Fatal(err)
		}
		before[a] = params
		oldParams := v1liquidity.GenericParams{
			BatchSize: params.BatchSize, TickPrecision: params.TickPrecision, FeeCollectorAddress: params.FeeCollectorAddress,
			DustCollectorAddress: params.DustCollectorAddress, MinInitialPoolCoinSupply: params.MinInitialPoolCoinSupply,
			PairCreationFee: params.PairCreationFee, PoolCreationFee: params.PoolCreationFee,
			MinInitialDepositAmount: params.MinInitialDepositAmount, MaxPriceLimitRatio: params.MaxPriceLimitRatio,
			MaxOrderLifespan: params.MaxOrderLifespan, SwapFeeRate: params.SwapFeeRate, WithdrawFeeRate: params.WithdrawFeeRate,
			DepositExtraGas: params.DepositExtraGas, WithdrawExtraGas: params.WithdrawExtraGas, OrderExtraGas: params.OrderExtraGas,
			SwapFeeDistrDenom: params.SwapFeeDistrDenom, SwapFeeBurnRate: params.SwapFeeBurnRate, AppId: params.AppId,
		}
		store.Set(liqtypes.GetGenericParamsKey(a), cdc.MustMarshal(&oldParams))
		for _, pool := range e.k.GetAllPools(e.ctx, a) {
			oldPool := v1liquidity.Pool{
				Id: pool.Id, PairId: pool.PairId, ReserveAddress: pool.ReserveAddress, PoolCoinDenom: pool.PoolCoinDenom,
				LastDepositRequestId: pool.LastDepositRequestId, LastWithdrawRequestId: pool.LastWithdrawRequestId,
				Disabled: pool.Disabled, AppId: pool.AppId,
			}
			store.Set(liqtypes.GetPoolKey(pool.AppId, pool.Id), cdc.MustMarshal(&oldPool))
		}
		for _, order := range e.k.GetAllOrders(e.ctx, a) {
			oldOrder := v1liquidity.Order{
				Id: order.Id, PairId: order.PairId, MsgHeight: order.MsgHeight, Orderer: order.Orderer,
				Direction: v1liquidity.OrderDirection(order.Direction), OfferCoin: order.OfferCoin,
				RemainingOfferCoin: order.RemainingOfferCoin, ReceivedCoin: order.ReceivedCoin, Price: order.Price,
				Amount: order.Amount, OpenAmount: order.OpenAmount, BatchId: order.BatchId, ExpireAt: order.ExpireAt,
				Status: v1liquidity.OrderStatus(order.Status), AppId: a,
			}
			store.Set(liqtypes.GetOrderKey(a, order.PairId, order.Id), cdc.MustMarshal(&oldOrder))
			nOrders++
			if order.Status.IsMatchable() {
				nLive++
				if order.RemainingOfferCoin.Amount.LT(order.OfferCoin.Amount) {
					nPartial++
				}
			}
		}
	}
	var err error
	outcome := "ok"
	panicked, _ := try(func() { err = liqkeeper.NewMigrator(e.k).Migrate1to2(e.ctx) })
	if panicked {
		outcome = "panic"
	} else if err != nil {
		outcome = "err"
	}
	// the model's Cfg holds the parameters for the whole history: the three fields the migration resets must come out as they were
	for _, a := range e.apps {
		after, err := e.k.GetGenericParams(e.ctx, a)
		if err != nil {
			e.t.Fatal(err)
		}
		b := before[a]
		if after.TickPrecision != b.TickPrecision || after.MaxNumMarketMakingOrderTicks != b.MaxNumMarketMakingOrderTicks ||
			after.MaxNumActivePoolsPerPair != b.MaxNumActivePoolsPerPair {
			e.t.Fatalf("harness assumption: the migration's parameter defaults differ from the parameters of app %d", a)
		}
		if !after.SwapFeeRate.Equal(b.SwapFeeRate) || after.BatchSize != b.BatchSize || after.MaxOrderLifespan != b.MaxOrderLifespan ||
			!after.MaxPriceLimitRatio.Equal(b.MaxPriceLimitRatio) || !after.MinInitialDepositAmount.Equal(b.MinInitialDepositAmount) ||
			!after.MinInitialPoolCoinSupply.Equal(b.MinInitialPoolCoinSupply) || !after.PairCreationFee.IsEqual(b.PairCreationFee) ||
			!after.PoolCreationFee.IsEqual(b.PoolCreationFee) {
			e.tr.Count("migrate:params_changed") // the next messages will show it as DIFF
		}
	}
	e.tr.Count(fmt.Sprintf("migrate:orders=%s", c04Bucket(nOrders)))
	e.tr.Count(fmt.Sprintf("migrate:live=%s", c04Bucket(nLive)))
	e.tr.Count(fmt.Sprintf("migrate:partially_filled_live=%s", c04Bucket(nPartial)))
	e.emit("lq.migrate", outcome)
	return true
}

func c04Bucket(n int) string {
	switch {
	case n == 0:
		return "0"
	case n <= 2:
		return "1-2"
	case n <= 9:
		return "3-9"
	default:
		return "10+"
	}
}

// ---------------------------------------------------------------------------------------------------------
// messages
// ---------------------------------------------------------------------------------------------------------

func (e *c04Env) pair(app, id uint64) (liqtypes.Pair, bool) { return e.k.GetPair(e.ctx, app, id) }

func (e *c04Env) tickPrec(app uint64) int {
	p, err := e.k.GetGenericParams(e.ctx, app)
	if err != nil {
		return int(liqtypes.DefaultTickPrecision)
	}
	return int(p.TickPrecision)
}

func (e *c04Env) priceLimits(app uint64, pr liqtypes.Pair) (lo, hi sdkmath.LegacyDec) {
	p, _ := e.k.GetGenericParams(e.ctx, app)
	if pr.LastPrice != nil {
		return liqtypes.PriceLimits(*pr.LastPrice, p.MaxPriceLimitRatio, int(p.TickPrecision))
	}
	return amm.LowestTick(int(p.TickPrecision)), amm.HighestTick(int(p.TickPrecision))
}

func (e *c04Env) appExists(app uint64) bool {
	_, f := e.app.AssetKeeper.GetApp(e.ctx, app)
	return f
}

func (e *c04Env) createPair(app uint64, ui int, base, quote string) {
	msg := liqtypes.NewMsgCreatePair(app, e.users[ui], base, quote)
	ext := e.app.AssetKeeper.HasAssetForDenom(e.ctx, base) && e.app.AssetKeeper.HasAssetForDenom(e.ctx, quote)
	bc, qc := "c99", "c98"
	if _, ok := e.cidx[base]; ok {
		bc = e.dcode(base)
	}
	if _, ok := e.cidx[quote]; ok {
		qc = e.dcode(quote)
	}
	if base == quote {
		qc = bc
	}
	out := e.deliver(msg)
	e.emit("lq.createPair", out, u(app), strconv.Itoa(ui), bc, qc, c04b(ext))
}

func (e *c04Env) createPool(app uint64, ui int, pairID uint64, x, y sdkmath.Int, ranged bool, minP, maxP, initP sdkmath.LegacyDec) {
	pr, found := e.pair(app, pairID)
	ext := true
	dx, dy, ps := x, y, sdkmath.ZeroInt()
	var msg sdk.Msg
	qd, bd := "ucoina", "ucoinb"
	if found {
		qd, bd = pr.QuoteCoinDenom, pr.BaseCoinDenom
	}
	if e.foreign {
		// a deposit coin whose denom is not in the pair (pool.go:90 / 249): ValidateBasic passes, the keeper refuses
		bd = "ucoine"
		if qd == bd {
			bd = "ucmdx"
		}
		ext = false
		e.foreign = false
		e.tr.Count("createPool:foreign_denom")
	}
	coins := sdk.Coins{}
	if x.IsPositive() {
		coins = coins.Add(sdk.NewCoin(qd, x))
	}
	if y.IsPositive() {
		coins = coins.Add(sdk.NewCoin(bd, y))
	}
	if !ranged {
		msg = liqtypes.NewMsgCreatePool(app, e.users[ui], pairID, coins)
		if len(coins) != 2 {
			ext = false
		}
		if pool, err := amm.CreateBasicPool(x, y); err != nil {
			ext = false
		} else {
			ps = pool.PoolCoinSupply()
		}
	} else {
		msg = liqtypes.NewMsgCreateRangedPool(app, e.users[ui], pairID, coins, minP, maxP, initP)
		tp := e.tickPrec(app)
		if len(coins) == 0 || amm.ValidateRangedPoolParams(minP, maxP, initP) != nil {
			ext = false
		} else if !amm.PriceToDownTick(minP, tp).Equal(minP) || !amm.PriceToDownTick(maxP, tp).Equal(maxP) || !amm.PriceToDownTick(initP, tp).Equal(initP) ||
			minP.LT(amm.LowestTick(tp)) {
			ext = false
		} else if pool, err := amm.CreateRangedPool(x, y, minP, maxP, initP); err != nil {
			ext = false
		} else {
			dx, dy = pool.Balances()
			ps = pool.PoolCoinSupply()
		}
	}
	out := e.deliver(msg)
	e.emit("lq.createPool", out, u(app), strconv.Itoa(ui), u(pairID), c04b(ranged), dx.String(), dy.String(), ps.String(), c04b(ext))
}

func (e *c04Env) poolDenoms(app, poolID uint64) (quote, base string, ok bool) {
	pl, found := e.k.GetPool(e.ctx, app, poolID)
	if !found {
		return "ucoina", "ucoinb", false
	}
	pr, _ := e.pair(app, pl.PairId)
	return pr.QuoteCoinDenom, pr.BaseCoinDenom, true
}

func (e *c04Env) depositCoins(app, poolID uint64, x, y sdkmath.Int) sdk.Coins {
	qd, bd, _ := e.poolDenoms(app, poolID)
	if e.foreign {
		bd = "ucoine" // not in any pair of the menu (pool.go:382 / 847)
		if qd == bd {
			bd = "ucmdx"
		}
	}
	coins := sdk.Coins{}
	if x.IsPositive() {
		coins = coins.Add(sdk.NewCoin(qd, x))
	}
	if y.IsPositive() {
		coins = coins.Add(sdk.NewCoin(bd, y))
	}
	return coins
}

func (e *c04Env) deposit(app uint64, ui int, poolID uint64, x, y sdkmath.Int) {
	msg := liqtypes.NewMsgDeposit(app, e.users[ui], poolID, e.depositCoins(app, poolID, x, y))
	ext := !(e.foreign && y.IsPositive())
	if e.foreign {
		e.tr.Count("deposit:foreign_denom")
	}
	e.foreign = false
	out := e.deliver(msg)
	e.emit("lq.deposit", out, u(app), strconv.Itoa(ui), u(poolID), x.String(), y.String(), c04b(ext))
}

func (e *c04Env) withdraw(app uint64, ui int, poolID uint64, pc sdkmath.Int, wrongDenom bool) {
	denom := liqtypes.PoolCoinDenom(app, poolID)
	if wrongDenom {
		denom = "ucoina"
	}
	denom = e.takePcDenom(denom, "withdraw")
	msg := liqtypes.NewMsgWithdraw(app, e.users[ui], poolID, sdk.NewCoin(denom, pc))
	out := e.deliver(msg)
	// only the message's denom is emitted: "is it THIS pool's pool coin (app and pool id)" is decided by the model (poolCoinOk)
	e.emit("lq.withdraw", out, u(app), strconv.Itoa(ui), u(poolID), pc.String(), e.dcode(denom))
}

// order places a limit (typ 1) or market (typ 2) order.  Only the message is emitted: the tick-fitted price and the price /
// denom validations are computed by the Lean model from the message, the app's parameters and the pair's last price.
func (e *c04Env) order(app uint64, ui int, pairID uint64, typ int, buy bool, msgOffer sdkmath.Int, msgPrice sdkmath.LegacyDec, amt sdkmath.Int, lifespan int64, swapDenoms bool) {
	pr, found := e.pair(app, pairID)
	od, dd := "ucoina", "ucoinb"
	if found {
		if buy {
			od, dd = pr.QuoteCoinDenom, pr.BaseCoinDenom
		} else {
			od, dd = pr.BaseCoinDenom, pr.QuoteCoinDenom
		}
	}
	switch {
	case swapDenoms:
		od, dd = dd, od
		e.tr.Count("order:denoms=swapped")
	case found && e.rng.Chance(1):
		dd = "ucoine" // a demand denom that is not in the pair (coin index 5 is in no pair of the menu)
		if dd == od {
			dd = "ucmdx"
		}
		e.tr.Count("order:denoms=foreign_demand")
	case found && e.rng.Chance(1):
		od = dd // offer denom = demand denom: ValidateBasic
		e.tr.Count("order:denoms=same")
	}
	dir := liqtypes.OrderDirectionSell
	if buy {
		dir = liqtypes.OrderDirectionBuy
	}
	var msg sdk.Msg
	if typ == 1 {
		msg = liqtypes.NewMsgLimitOrder(app, e.users[ui], pairID, dir, sdk.NewCoin(od, msgOffer), dd, msgPrice, amt, time.Duration(lifespan)*time.Second)
		if found && msgPrice.IsPositive() { // statistics only
			lo, hi := e.priceLimits(app, pr)
			tp := e.tickPrec(app)
			switch {
			case msgPrice.GT(hi):
				e.tr.Count("order:price=above_limit")
			case msgPrice.LT(lo):
				e.tr.Count("order:price=below_limit")
			case msgPrice.Equal(hi) || msgPrice.Equal(lo):
				e.tr.Count("order:price=at_limit")
			case amm.PriceToDownTick(msgPrice, tp).Equal(msgPrice):
				e.tr.Count("order:price=on_tick")
			default:
				e.tr.Count("order:price=off_tick")
			}
		}
	} else {
		msg = liqtypes.NewMsgMarketOrder(app, e.users[ui], pairID, dir, sdk.NewCoin(od, msgOffer), dd, amt, time.Duration(lifespan)*time.Second)
		msgPrice = sdkmath.LegacyZeroDec()
		if found {
			if pr.LastPrice == nil {
				e.tr.Count("order:market=no_last_price")
			} else {
				e.tr.Count("order:market=with_last_price")
			}
		}
	}
	out := e.deliver(msg)
	e.emit("lq.order", out, u(app), strconv.Itoa(ui), u(pairID), strconv.Itoa(typ), c04b(buy), e.dcode(od), e.dcode(dd), msgOffer.String(),
		msgPrice.BigInt().String(), amt.String(), i64(lifespan))
}

// mmOrder delivers a MsgMMOrder.  Only the message is emitted: ValidateBasic, the on-tick / in-range validations and
// MMOrderTicks are computed by the Lean model.
func (e *c04Env) mmOrder(app uint64, ui int, pairID uint64, maxSell, minSell sdkmath.LegacyDec, sellAmt sdkmath.Int, maxBuy, minBuy sdkmath.LegacyDec, buyAmt sdkmath.Int, lifespan int64) {
	msg := liqtypes.NewMsgMMOrder(app, e.users[ui], pairID, maxSell, minSell, sellAmt, maxBuy, minBuy, buyAmt, time.Duration(lifespan)*time.Second)
	if pr, found := e.pair(app, pairID); found && msg.ValidateBasic() == nil { // statistics only
		params, _ := e.k.GetGenericParams(e.ctx, app)
		tp := int(params.TickPrecision)
		lo, hi := e.priceLimits(app, pr)
		on := func(p sdkmath.LegacyDec) bool { return amm.PriceToDownTick(p, tp).Equal(p) }
		in := func(p sdkmath.LegacyDec) bool { return !p.LT(lo) && !p.GT(hi) }
		switch {
		case sellAmt.IsPositive() && !(on(minSell) && on(maxSell)), buyAmt.IsPositive() && !(on(minBuy) && on(maxBuy)):
			e.tr.Count("mmOrder:prices=off_tick")
		case sellAmt.IsPositive() && !(in(minSell) && in(maxSell)), buyAmt.IsPositive() && !(in(minBuy) && in(maxBuy)):
			e.tr.Count("mmOrder:prices=out_of_range")
		default:
			n := int(params.MaxNumMarketMakingOrderTicks)
			k := 0
			if buyAmt.IsPositive() {
				k += len(liqtypes.MMOrderTicks(liqtypes.OrderDirectionBuy, minBuy, maxBuy, buyAmt, n, tp))
			}
			if sellAmt.IsPositive() {
				k += len(liqtypes.MMOrderTicks(liqtypes.OrderDirectionSell, minSell, maxSell, sellAmt, n, tp))
			}
			e.tr.Count(fmt.Sprintf("mmOrder:ticks=%d", k))
		}
	}
	out := e.deliver(msg)
	e.emit("lq.mmOrder", out, u(app), strconv.Itoa(ui), u(pairID), maxSell.BigInt().String(), minSell.BigInt().String(), sellAmt.String(),
		maxBuy.BigInt().String(), minBuy.BigInt().String(), buyAmt.String(), i64(lifespan))
}

func (e *c04Env) cancel(app uint64, ui int, pairID, id uint64) {
	out := e.deliver(liqtypes.NewMsgCancelOrder(app, e.users[ui], pairID, id))
	e.emit("lq.cancel", out, u(app), strconv.Itoa(ui), u(pairID), u(id))
}

func (e *c04Env) cancelAll(app uint64, ui int, pairs []uint64) {
	out := e.deliver(liqtypes.NewMsgCancelAllOrders(app, e.users[ui], pairs))
	e.emit("lq.cancelAll", out, u(app), strconv.Itoa(ui), joinU(pairs))
}

func (e *c04Env) cancelMM(app uint64, ui int, pairID uint64) {
	out := e.deliver(liqtypes.NewMsgCancelMMOrder(app, e.users[ui], pairID))
	e.emit("lq.cancelMM", out, u(app), strconv.Itoa(ui), u(pairID))
}

// takePcDenom: the pool-coin denom of the next message — an override set by a generator (cross-app pool coin), else the default
func (e *c04Env) takePcDenom(def, kind string) string {
	if e.pcDenom == "" {
		return def
	}
	d := e.pcDenom
	e.pcDenom = ""
	e.tr.Count(kind + ":cross_app_pool_coin")
	return d
}

// crossApp picks a holder of the pool coin of some (app, pool) and ANOTHER app that has a pool with the same pool id: the
// holder addresses the other app's pool with his (foreign) pool coin.  Returns ok=false if the world has no such pair of pools.
func (e *c04Env) crossApp() (app uint64, poolID uint64, ui int, bal sdkmath.Int, denom string, ok bool) {
	type cand struct {
		own, other, pool uint64
		ui              int
	}
	var cs []cand
	for _, pl := range e.prev.pools {
		for _, ot := range e.prev.pools {
			if ot.id == pl.id && ot.app != pl.app {
				for i := range e.users {
					if e.prev.get("u"+strconv.Itoa(i), fmt.Sprintf("p%d.%d", pl.app, pl.id)).IsPositive() {
						cs = append(cs, cand{pl.app, ot.app, pl.id, i})
					}
				}
			}
		}
	}
	if len(cs) == 0 {
		return 0, 0, 0, sdkmath.ZeroInt(), "", false
	}
	c := cs[e.rng.Intn(len(cs))]
	return c.other, c.pool, c.ui, e.poolCoinBalance(c.ui, c.own, c.pool), liqtypes.PoolCoinDenom(c.own, c.pool), true
}

func (e *c04Env) farm(app uint64, ui int, poolID uint64, amt sdkmath.Int, wrongDenom bool) {
	denom := liqtypes.PoolCoinDenom(app, poolID)
	if wrongDenom {
		denom = "ucoinb"
	}
	denom = e.takePcDenom(denom, "farm")
	out := e.deliver(liqtypes.NewMsgFarm(app, poolID, e.users[ui], sdk.NewCoin(denom, amt)))
	e.emit("lq.farm", out, u(app), strconv.Itoa(ui), u(poolID), amt.String(), e.dcode(denom))
}

func (e *c04Env) unfarm(app uint64, ui int, poolID uint64, amt sdkmath.Int, wrongDenom bool) {
	denom := liqtypes.PoolCoinDenom(app, poolID)
	if wrongDenom {
		denom = "ucoinb"
	}
	denom = e.takePcDenom(denom, "unfarm")
	out := e.deliver(liqtypes.NewMsgUnfarm(app, poolID, e.users[ui], sdk.NewCoin(denom, amt)))
	e.emit("lq.unfarm", out, u(app), strconv.Itoa(ui), u(poolID), amt.String(), e.dcode(denom))
}

func (e *c04Env) depositAndFarm(app uint64, ui int, poolID uint64, x, y sdkmath.Int) {
	ax, ay, pc := sdkmath.ZeroInt(), sdkmath.ZeroInt(), sdkmath.ZeroInt()
	if pl, found := e.k.GetPool(e.ctx, app, poolID); found {
		rx, ry := e.k.GetPoolBalances(e.ctx, pl)
		ps := e.k.GetPoolCoinSupply(e.ctx, pl)
		if ps.IsPositive() && (rx.Amount.IsPositive() || ry.Amount.IsPositive()) {
			ax, ay, pc = amm.Deposit(rx.Amount, ry.Amount, ps, x, y)
		}
	}
	coins := e.depositCoins(app, poolID, x, y)
	ext := !(e.foreign && y.IsPositive())
	e.foreign = false
	out := e.deliver(liqtypes.NewMsgDepositAndFarm(app, e.users[ui], poolID, coins))
	e.emit("lq.depositAndFarm", out, u(app), strconv.Itoa(ui), u(poolID), x.String(), y.String(), ax.String(), ay.String(), pc.String(), c04b(ext))
}

func (e *c04Env) unfarmAndWithdraw(app uint64, ui int, poolID uint64, amt sdkmath.Int) {
	x, y := sdkmath.ZeroInt(), sdkmath.ZeroInt()
	if pl, found := e.k.GetPool(e.ctx, app, poolID); found {
		rx, ry := e.k.GetPoolBalances(e.ctx, pl)
		ps := e.k.GetPoolCoinSupply(e.ctx, pl)
		params, _ := e.k.GetGenericParams(e.ctx, app)
		if ps.IsPositive() {
			x, y = amm.Withdraw(rx.Amount, ry.Amount, ps, amt, params.WithdrawFeeRate)
		}
	}
	denom := e.takePcDenom(liqtypes.PoolCoinDenom(app, poolID), "unfarmAndWithdraw")
	out := e.deliver(liqtypes.NewMsgUnfarmAndWithdraw(app, poolID, e.users[ui], sdk.NewCoin(denom, amt)))
	e.emit("lq.unfarmAndWithdraw", out, u(app), strconv.Itoa(ui), u(poolID), amt.String(), x.String(), y.String(), e.dcode(denom))
}

// ---------------------------------------------------------------------------------------------------------
// generators
// ---------------------------------------------------------------------------------------------------------

var c04Menu = [][2]int{{1, 2}, {2, 3}, {3, 4}, {4, 1}} // (base, quote) coin indexes; quote denoms distinct within an app

func (e *c04Env) nextBlock(dt int64) {
	e.endBlocker()
	h := e.height + 1
	if h%150 == 0 { // the swap-fee conversion hook of BeginBlocker (every 150th block) is out of scope, see notes
		h++
	}
	e.block(h, e.now+dt)
	if e.migAt != 0 && h >= e.migAt {
		// a chain upgrade: x/upgrade's BeginBlocker runs the registered module migrations before the other BeginBlockers.
		// Random histories wait (up to migWait blocks) for a moment at which a partially filled order is alive.
		partial := false
		for _, o := range e.prev.orders {
			if o.status <= int(liqtypes.OrderStatusPartiallyMatched) && o.rem.LT(o.offer) && o.expire > e.now+dt {
				partial = true
			}
		}
		if partial || h >= e.migAt+e.migWait {
			if e.migrate() {
				e.migAt = 0
			}
		}
	}
	e.beginBlocker()
}

func (e *c04Env) pickApp() uint64 {
	if e.rng.Chance(2) {
		return uint64([]int{0, 4, 7}[e.rng.Intn(3)])
	}
	return e.apps[e.rng.Intn(len(e.apps))]
}

func (e *c04Env) pickUser() int {
	if e.rng.Chance(4) {
		return 4
	}
	return e.rng.Intn(4)
}

func (e *c04Env) pickPair(app uint64) uint64 {
	n := 0
	for _, p := range e.prev.pairs {
		if p.app == app {
			n++
		}
	}
	if n == 0 || e.rng.Chance(2) {
		return uint64(e.rng.Intn(6))
	}
	return uint64(1 + e.rng.Intn(n))
}

func (e *c04Env) pickPool(app uint64) uint64 {
	n := 0
	for _, p := range e.prev.pools {
		if p.app == app {
			n++
		}
	}
	if n == 0 || e.rng.Chance(2) {
		return uint64(e.rng.Intn(8))
	}
	return uint64(1 + e.rng.Intn(n))
}

func (e *c04Env) refPrice(app, pairID uint64) sdkmath.LegacyDec {
	pr, found := e.pair(app, pairID)
	if !found {
		return sdkmath.LegacyOneDec()
	}
	if pr.LastPrice != nil {
		return *pr.LastPrice
	}
	for _, pl := range e.k.GetPoolsByPair(e.ctx, app, pairID) {
		if !pl.Disabled {
			rx, ry := e.k.GetPoolBalances(e.ctx, pl)
			if rx.Amount.IsPositive() && ry.Amount.IsPositive() {
				return rx.Amount.ToLegacyDec().Quo(ry.Amount.ToLegacyDec())
			}
		}
	}
	if e.tiny {
		return sdkmath.LegacyNewDecWithPrec(int64(1+e.rng.Intn(30)), 4)
	}
	return sdkmath.LegacyNewDecWithPrec(int64(5+e.rng.Intn(30)), 1)
}

func (e *c04Env) amount() sdkmath.Int {
	switch e.rng.Intn(6) {
	case 0:
		return sdkmath.NewInt(int64(100 + e.rng.Intn(200)))
	case 1:
		return sdkmath.NewInt(int64(1000 + e.rng.Intn(100000)))
	default:
		return sdkmath.NewInt(int64(100000 + e.rng.Intn(50_000_000)))
	}
}

func (e *c04Env) lifespan(app uint64) int64 {
	params, err := e.k.GetGenericParams(e.ctx, app)
	max := int64(86400)
	if err == nil {
		max = int64(params.MaxOrderLifespan / time.Second)
	}
	switch e.rng.Intn(30) {
	case 0:
		return 0
	case 1, 2:
		return max
	case 3:
		return max + 1
	case 4, 5, 6, 7, 8, 9, 10, 11:
		return int64(1 + e.rng.Intn(40))
	default:
		return int64(1 + e.rng.Intn(int(max)))
	}
}

func (e *c04Env) genLimit(tiny bool) {
	app := e.pickApp()
	pairID := e.pickPair(app)
	ui := e.pickUser()
	buy := e.rng.Chance(50)
	ref := e.refPrice(app, pairID)
	// prices around the reference: crossing (likely matched), resting, and out of range
	bps := int64(e.rng.Intn(900)) // up to 9 %
	if e.rng.Chance(3) {
		bps = int64(990 + e.rng.Intn(30)) // around / beyond the 10 % limit
	}
	sign := int64(1)
	if e.rng.Chance(50) {
		sign = -1
	}
	price := ref.Mul(sdkmath.LegacyNewDec(10000 + sign*bps)).QuoInt64(10000)
	if !price.IsPositive() {
		price = sdkmath.LegacyNewDecWithPrec(1, 3)
	}
	if pr, found := e.pair(app, pairID); found && pr.LastPrice != nil && e.rng.Chance(10) {
		// boundary-directed: exactly the price limits, one tick / one raw unit beyond and inside
		lo, hi := e.priceLimits(app, pr)
		tp := e.tickPrec(app)
		ulp := sdkmath.LegacySmallestDec()
		switch e.rng.Intn(8) {
		case 0:
			price = hi
		case 1:
			price = lo
		case 2:
			price = hi.Add(ulp)
		case 3:
			price = lo.Sub(ulp)
		case 4:
			price = amm.UpTick(hi, tp)
		case 5:
			price = amm.DownTick(lo, tp)
		case 6:
			price = hi.Sub(ulp)
		case 7:
			price = lo.Add(ulp)
		}
		e.tr.Count("order:price_boundary")
	}
	amt := e.amount()
	if tiny {
		amt = amt.MulRaw(int64(1 + e.rng.Intn(40)))
	}
	// keep price*amount above the module's minimum (100) in most cases; sometimes right at the boundary
	minAmt := sdkmath.LegacyNewDec(100).Quo(price).Ceil().TruncateInt()
	if amt.LT(minAmt) && !e.rng.Chance(6) {
		amt = minAmt.AddRaw(int64(e.rng.Intn(3)) - 1).Add(sdkmath.NewInt(int64(e.rng.Intn(2))).Mul(minAmt))
		if !amt.IsPositive() {
			amt = minAmt
		}
	}
	if e.rng.Chance(4) && minAmt.GT(sdkmath.NewInt(101)) {
		amt = minAmt.SubRaw(1) // price·amount just below the module's minimum: ErrTooSmallOrder (swap.go:102)
		e.tr.Count("order:too_small_directed")
	}
	tp := e.tickPrec(app)
	tick := amm.PriceToUpTick(price, tp)
	if buy {
		tick = amm.PriceToDownTick(price, tp)
	}
	offer := amt
	if buy {
		offer = amm.OfferCoinAmount(amm.Buy, tick, amt)
	}
	fee := sdkmath.ZeroInt()
	if r, ok := e.feeRate[app]; ok {
		fee = offer.ToLegacyDec().MulTruncate(r).TruncateInt()
	}
	need := offer.Add(fee)
	msgOffer := need
	switch e.rng.Intn(30) {
	case 0:
		msgOffer = need.SubRaw(1) // one below what is needed
	case 1, 2:
		msgOffer = need.AddRaw(1)
	case 3, 4, 5:
		msgOffer = need.AddRaw(int64(e.rng.Intn(100000)))
	case 6:
		msgOffer = offer // forgets the fee
	}
	if !msgOffer.IsPositive() {
		msgOffer = sdkmath.OneInt()
	}
	e.order(app, ui, pairID, 1, buy, msgOffer, price, amt, e.lifespan(app), e.rng.Chance(1))
}

func (e *c04Env) genMarket() {
	app := e.pickApp()
	pairID := e.pickPair(app)
	ui := e.pickUser()
	buy := e.rng.Chance(50)
	amt := e.amount()
	ref := e.refPrice(app, pairID)
	offer := amt
	if buy {
		offer = ref.MulInt(amt).MulInt64(112).QuoInt64(100).Ceil().TruncateInt()
	}
	msgOffer := offer.MulRaw(102).QuoRaw(100).AddRaw(2)
	if pr, found := e.pair(app, pairID); found && pr.LastPrice != nil && e.rng.Chance(6) {
		// price·amount below the module's minimum (swap.go:219): amounts 100 … 100/price
		lim := sdkmath.LegacyNewDec(100).Quo(*pr.LastPrice).TruncateInt()
		if lim.GT(sdkmath.NewInt(110)) {
			amt = sdkmath.NewInt(100).Add(sdkmath.NewInt(int64(e.rng.Intn(int(lim.Int64()-100)))))
			offer = amt.MulRaw(2).AddRaw(200)
			msgOffer = offer
			e.tr.Count("order:market_too_small_directed")
		}
	} else if found && pr.LastPrice != nil && e.rng.Chance(60) {
		// exact need
		params, _ := e.k.GetGenericParams(e.ctx, app)
		tp := int(params.TickPrecision)
		var p sdkmath.LegacyDec
		if buy {
			p = amm.PriceToDownTick(pr.LastPrice.Mul(sdkmath.LegacyOneDec().Add(params.MaxPriceLimitRatio)), tp)
			offer = amm.OfferCoinAmount(amm.Buy, p, amt)
		} else {
			offer = amt
		}
		fee := offer.ToLegacyDec().MulTruncate(params.SwapFeeRate).TruncateInt()
		msgOffer = offer.Add(fee)
		if e.rng.Chance(15) {
			msgOffer = msgOffer.SubRaw(1) // one below what is needed (swap.go:201 / 214)
			e.tr.Count("order:market_offer_one_short")
		}
	}
	if !msgOffer.IsPositive() {
		msgOffer = sdkmath.OneInt()
	}
	e.order(app, ui, pairID, 2, buy, msgOffer, sdkmath.LegacyZeroDec(), amt, e.lifespan(app), e.rng.Chance(4))
}

func (e *c04Env) genMM() {
	app := e.pickApp()
	pairID := e.pickPair(app)
	ui := e.pickUser()
	ref := e.refPrice(app, pairID)
	tp := e.tickPrec(app)
	down := func(p sdkmath.LegacyDec) sdkmath.LegacyDec { return amm.PriceToDownTick(p, tp) }
	pct := func(bps int64) sdkmath.LegacyDec { return ref.Mul(sdkmath.LegacyNewDec(10000 + bps)).QuoInt64(10000) }
	minSell, maxSell := down(pct(int64(10+e.rng.Intn(300)))), down(pct(int64(320+e.rng.Intn(500))))
	maxBuy, minBuy := down(pct(-int64(10+e.rng.Intn(300)))), down(pct(-int64(320+e.rng.Intn(500))))
	sellAmt, buyAmt := e.amount().MulRaw(10), e.amount().MulRaw(10)
	switch e.rng.Intn(10) {
	case 0:
		sellAmt = sdkmath.ZeroInt()
	case 1:
		buyAmt = sdkmath.ZeroInt()
	case 2:
		minSell = maxSell // single tick
	case 3:
		// one of the four prices out of range
		switch e.rng.Intn(4) {
		case 0:
			maxSell = down(pct(1500))
		case 1:
			minSell, maxSell = down(pct(1300)), down(pct(1500))
		case 2:
			minBuy = down(pct(-1500))
		case 3:
			minBuy, maxBuy = down(pct(-1500)), down(pct(-1300))
		}
		e.tr.Count("mmOrder:gen_out_of_range")
	case 4:
		// one of the four prices off the tick grid
		eps := sdkmath.LegacyNewDecWithPrec(1, 12)
		switch e.rng.Intn(4) {
		case 0:
			minBuy = minBuy.Add(eps)
		case 1:
			maxBuy = maxBuy.Add(eps)
		case 2:
			minSell = minSell.Add(eps)
		case 3:
			maxSell = maxSell.Add(eps)
		}
		e.tr.Count("mmOrder:gen_off_tick")
	case 5:
		maxSell = amm.UpTick(amm.UpTick(minSell, tp), tp) // two ticks apart: the tick walk produces consecutive duplicates
		minBuy = amm.DownTick(maxBuy, tp)                  // adjacent ticks
	case 6:
		if pr, found := e.pair(app, pairID); found && pr.LastPrice != nil {
			lo, hi := e.priceLimits(app, pr)
			switch e.rng.Intn(4) {
			case 0:
				maxSell = hi // exactly the upper limit
			case 1:
				maxSell = amm.UpTick(hi, tp) // one tick beyond
			case 2:
				minBuy = lo
			case 3:
				minBuy = amm.DownTick(lo, tp)
			}
			e.tr.Count("mmOrder:price_boundary")
		}
	}
	e.mmOrder(app, ui, pairID, maxSell, minSell, sellAmt, maxBuy, minBuy, buyAmt, e.lifespan(app))
	if e.rng.Chance(8) {
		// a second MsgMMOrder of the same owner in the same batch: the replace must fail with ErrSameBatch (swap.go:373) and
		// leave the first one's orders and index exactly as they are
		e.tr.Count("mmOrder:replace_same_batch")
		e.mmOrder(app, ui, pairID, maxSell, minSell, sellAmt, maxBuy, minBuy, buyAmt, e.lifespan(app))
	}
}

func (e *c04Env) genCancel() {
	// mostly target an existing order; mix owner / non-owner, same batch / later batch
	if len(e.prev.orders) > 0 && e.rng.Chance(85) {
		o := e.prev.orders[e.rng.Intn(len(e.prev.orders))]
		ui := o.owner
		if e.rng.Chance(10) || ui > 4 {
			ui = e.pickUser()
		}
		app, pairID := o.app, o.pair
		if e.rng.Chance(5) {
			app, pairID = o.pair, o.app // the mirrored (app, pair) combination
		}
		e.cancel(app, ui, pairID, o.id)
		return
	}
	app := e.pickApp()
	if e.rng.Chance(25) {
		app = uint64([]int{0, 4, 7}[e.rng.Intn(3)]) // no such app (swap.go:445)
	}
	e.cancel(app, e.pickUser(), e.pickPair(app), uint64(e.rng.Intn(30)))
}

// pairIDs returns the ids of the existing pairs of an app.
func (e *c04Env) pairIDs(app uint64) []uint64 {
	var ids []uint64
	for _, p := range e.prev.pairs {
		if p.app == app {
			ids = append(ids, p.id)
		}
	}
	return ids
}

// restingLimit places a limit order far enough from the reference price that it rests (sell above / buy below by 5-9 %).
func (e *c04Env) restingLimit(app uint64, ui int, pairID uint64) {
	ref := e.refPrice(app, pairID)
	buy := e.rng.Chance(50)
	bps := int64(500 + e.rng.Intn(400))
	if buy {
		bps = -bps
	}
	price := ref.Mul(sdkmath.LegacyNewDec(10000 + bps)).QuoInt64(10000)
	amt := e.amount()
	minAmt := sdkmath.LegacyNewDec(100).Quo(price).Ceil().TruncateInt()
	if amt.LT(minAmt) {
		amt = minAmt.MulRaw(2)
	}
	tp := e.tickPrec(app)
	tick := amm.PriceToUpTick(price, tp)
	offer := amt
	if buy {
		tick = amm.PriceToDownTick(price, tp)
		offer = amm.OfferCoinAmount(amm.Buy, tick, amt)
	}
	fee := sdkmath.ZeroInt()
	if r, ok := e.feeRate[app]; ok {
		fee = offer.ToLegacyDec().MulTruncate(r).TruncateInt()
	}
	e.order(app, ui, pairID, 1, buy, offer.Add(fee), price, amt, 3600, false)
}

// genCancelAll: mostly an owner who holds orders, in apps with several pairs; often preceded by a FRESH order of the same
// owner in a random pair of the app (so the owner's orders have mixed ages across pairs, in every order of pair ids);
// pair-id lists: empty / one / a subset in random order / all / with an unknown, zero or repeated id.
func (e *c04Env) genCancelAll() {
	app := e.pickApp()
	ui := e.pickUser()
	if len(e.prev.orders) > 0 && e.rng.Chance(80) {
		o := e.prev.orders[e.rng.Intn(len(e.prev.orders))]
		if o.owner <= 4 {
			app, ui = o.app, o.owner
		}
	}
	ids := e.pairIDs(app)
	if len(ids) > 0 && e.rng.Chance(50) {
		e.restingLimit(app, ui, ids[e.rng.Intn(len(ids))])
		e.tr.Count("cancelAll:after_fresh_order")
	}
	perm := append([]uint64{}, ids...)
	for i := len(perm) - 1; i > 0; i-- {
		j := e.rng.Intn(i + 1)
		perm[i], perm[j] = perm[j], perm[i]
	}
	var pairs []uint64
	switch e.rng.Intn(10) {
	case 0, 1, 2:
	case 3:
		if len(perm) > 0 {
			pairs = perm[:1]
		}
	case 4, 5:
		if len(perm) > 1 {
			pairs = perm[:1+e.rng.Intn(len(perm)-1)]
		}
	case 6, 7:
		pairs = perm
	case 8:
		pairs = append(perm, uint64(7+e.rng.Intn(3))) // unknown pair id
	case 9:
		pairs = []uint64{e.pickPair(app), e.pickPair(app)} // possibly duplicate / zero
	}
	e.tr.Count(fmt.Sprintf("cancelAll:pairs=%d/of=%d", len(pairs), len(ids)))
	if e.rng.Chance(4) {
		app = uint64([]int{0, 4, 7}[e.rng.Intn(3)]) // no such app (swap.go:496)
		e.tr.Count("cancelAll:unknown_app")
	}
	e.cancelAll(app, ui, pairs)
}

func (e *c04Env) genCancelMM() {
	if len(e.prev.mms) > 0 && e.rng.Chance(80) {
		m := e.prev.mms[e.rng.Intn(len(e.prev.mms))]
		ui := m.owner
		if ui > 4 || e.rng.Chance(5) {
			ui = e.pickUser()
		}
		e.cancelMM(m.app, ui, m.pair)
		return
	}
	app := e.pickApp()
	e.cancelMM(app, e.pickUser(), e.pickPair(app))
}

func (e *c04Env) genCreatePair() {
	app := e.pickApp()
	m := c04Menu[e.rng.Intn(len(c04Menu))]
	base, quote := e.coins[m[0]], e.coins[m[1]]
	switch e.rng.Intn(25) {
	case 0:
		quote = base
	case 1:
		quote = "unotlisted"
	}
	e.createPair(app, e.pickUser(), base, quote)
}

func (e *c04Env) genCreatePool() {
	app := e.pickApp()
	pairID := e.pickPair(app)
	ui := e.pickUser()
	y := sdkmath.NewInt(int64(1_000_000 + e.rng.Intn(2_000_000_000)))
	ratio := int64(20 + e.rng.Intn(400)) // price 0.2 … 4.2
	x := y.MulRaw(ratio).QuoRaw(100)
	if e.tiny {
		// price 0.0001 … 0.0031: base reserve large, quote reserve small
		y = sdkmath.NewInt(int64(10_000_000_000 + e.rng.Intn(2_000_000_000))).MulRaw(int64(1 + e.rng.Intn(50)))
		ratio = int64(1 + e.rng.Intn(30))
		x = y.MulRaw(ratio).QuoRaw(10000)
		e.createPool(app, ui, pairID, x, y, false, sdkmath.LegacyDec{}, sdkmath.LegacyDec{}, sdkmath.LegacyDec{})
		return
	}
	if e.rng.Chance(5) {
		x = sdkmath.NewInt(int64(e.rng.Intn(1_000_001))) // around MinInitialDepositAmount
	}
	if !e.v1 && e.rng.Chance(45) {
		tp := e.tickPrec(app)
		p := sdkmath.LegacyNewDec(ratio).QuoInt64(100)
		initP := amm.PriceToDownTick(p, tp)
		minP := amm.PriceToDownTick(p.MulInt64(int64(50+e.rng.Intn(45))).QuoInt64(100), tp)
		maxP := amm.PriceToDownTick(p.MulInt64(int64(105+e.rng.Intn(100))).QuoInt64(100), tp)
		switch e.rng.Intn(14) {
		case 0:
			initP = minP
		case 1:
			initP = maxP
		case 2:
			maxP = minP
		case 3:
			x = sdkmath.ZeroInt()
		case 4:
			minP = minP.Add(sdkmath.LegacyNewDecWithPrec(1, 12)) // off the tick grid (pool.go:228)
		case 5:
			maxP = maxP.Add(sdkmath.LegacyNewDecWithPrec(1, 12))
		case 6:
			initP = initP.Add(sdkmath.LegacyNewDecWithPrec(1, 12))
		case 7:
			minP = sdkmath.LegacyNewDecWithPrec(1, 15) // a tick below LowestTick (10^-14) (pool.go:239)
		}
		e.foreign = e.rng.Chance(3)
		e.createPool(app, ui, pairID, x, y, true, minP, maxP, initP)
		return
	}
	e.foreign = e.rng.Chance(3)
	e.createPool(app, ui, pairID, x, y, false, sdkmath.LegacyDec{}, sdkmath.LegacyDec{}, sdkmath.LegacyDec{})
}

func (e *c04Env) poolCoinBalance(ui int, app, poolID uint64) sdkmath.Int {
	return e.app.BankKeeper.GetBalance(e.ctx, e.users[ui], liqtypes.PoolCoinDenom(app, poolID)).Amount
}

// holder returns a user holding pool coins of some pool (so that withdraw / farm mostly succeed)
func (e *c04Env) holder() (app, poolID uint64, ui int, bal sdkmath.Int, ok bool) {
	var cands [][3]uint64
	for _, pl := range e.prev.pools {
		for i := range e.users {
			if e.prev.get("u"+strconv.Itoa(i), fmt.Sprintf("p%d.%d", pl.app, pl.id)).IsPositive() {
				cands = append(cands, [3]uint64{pl.app, pl.id, uint64(i)})
			}
		}
	}
	if len(cands) == 0 {
		return 0, 0, 0, sdkmath.ZeroInt(), false
	}
	c := cands[e.rng.Intn(len(cands))]
	return c[0], c[1], int(c[2]), e.poolCoinBalance(int(c[2]), c[0], c[1]), true
}

func (e *c04Env) partOf(b sdkmath.Int) sdkmath.Int {
	switch e.rng.Intn(8) {
	case 0:
		return b
	case 1:
		return b.AddRaw(1)
	case 2:
		return sdkmath.OneInt()
	default:
		return b.MulRaw(int64(1 + e.rng.Intn(99))).QuoRaw(100).AddRaw(1)
	}
}

func (e *c04Env) genDeposit(andFarm bool) {
	app := e.pickApp()
	poolID := e.pickPool(app)
	ui := e.pickUser()
	x, y := e.amount().MulRaw(3), e.amount().MulRaw(3)
	if pl, found := e.k.GetPool(e.ctx, app, poolID); found && e.rng.Chance(70) {
		rx, ry := e.k.GetPoolBalances(e.ctx, pl)
		if ry.Amount.IsPositive() {
			x = rx.Amount.Mul(y).Quo(ry.Amount).AddRaw(int64(e.rng.Intn(3)) - 1)
		}
	}
	switch e.rng.Intn(14) {
	case 0:
		x = sdkmath.ZeroInt()
	case 1:
		y = sdkmath.ZeroInt()
	case 2:
		x, y = sdkmath.OneInt(), sdkmath.OneInt() // mints zero pool coins => request fails
	}
	if x.IsNegative() {
		x = sdkmath.ZeroInt()
	}
	e.foreign = e.rng.Chance(2)
	if andFarm {
		e.depositAndFarm(app, ui, poolID, x, y)
	} else {
		e.deposit(app, ui, poolID, x, y)
	}
}

// genDepositInto places a plain (pending) deposit request of a random user into a random existing pool of the app.
func (e *c04Env) genDepositInto(app uint64) {
	var pools []uint64
	for _, p := range e.prev.pools {
		if p.app == app && !p.disabled {
			pools = append(pools, p.id)
		}
	}
	if len(pools) == 0 {
		return
	}
	poolID := pools[e.rng.Intn(len(pools))]
	x, y := e.amount().MulRaw(3), e.amount().MulRaw(3)
	if pl, found := e.k.GetPool(e.ctx, app, poolID); found {
		rx, ry := e.k.GetPoolBalances(e.ctx, pl)
		if ry.Amount.IsPositive() {
			x = rx.Amount.Mul(y).Quo(ry.Amount)
		}
	}
	if !x.IsPositive() {
		x = sdkmath.OneInt()
	}
	e.tr.Count("deposit:other_app_same_block")
	e.deposit(app, e.rng.Intn(4), poolID, x, y)
}

func (e *c04Env) genWithdraw() {
	if e.rng.Chance(8) {
		// malformed stream: the pool coin of ANOTHER app's pool with the same pool id (pool.go ValidateMsgWithdraw)
		if app, poolID, ui, bal, denom, ok := e.crossApp(); ok {
			e.pcDenom = denom
			e.withdraw(app, ui, poolID, e.partOf(bal), false)
			return
		}
	}
	if app, poolID, ui, bal, ok := e.holder(); ok && e.rng.Chance(85) {
		e.withdraw(app, ui, poolID, e.partOf(bal), e.rng.Chance(2))
		return
	}
	app := e.pickApp()
	e.withdraw(app, e.pickUser(), e.pickPool(app), e.amount(), false)
}

func (e *c04Env) genFarm() {
	if e.rng.Chance(6) {
		if app, poolID, ui, bal, denom, ok := e.crossApp(); ok {
			e.pcDenom = denom
			e.farm(app, ui, poolID, e.partOf(bal), false)
			return
		}
	}
	if app, poolID, ui, bal, ok := e.holder(); ok && e.rng.Chance(85) {
		e.farm(app, ui, poolID, e.partOf(bal), e.rng.Chance(2))
		return
	}
	app := e.pickApp()
	e.farm(app, e.pickUser(), e.pickPool(app), e.amount(), false)
}

func (e *c04Env) genUnfarm(andWithdraw bool) {
	if e.rng.Chance(4) {
		if app, poolID, ui, bal, denom, ok := e.crossApp(); ok {
			e.pcDenom = denom
			if andWithdraw {
				e.unfarmAndWithdraw(app, ui, poolID, e.partOf(bal))
			} else {
				e.unfarm(app, ui, poolID, e.partOf(bal), false)
			}
			return
		}
	}
	if len(e.prev.farmers) > 0 && e.rng.Chance(85) {
		f := e.prev.farmers[e.rng.Intn(len(e.prev.farmers))]
		tot := f.active
		for _, q := range f.queued {
			a, _ := sdkmath.NewIntFromString(strings.Split(q, "@")[0])
			tot = tot.Add(a)
		}
		ui := f.owner
		if ui > 4 {
			ui = 0
		}
		amt := e.partOf(tot)
		if andWithdraw {
			e.unfarmAndWithdraw(f.app, ui, f.pool, amt)
		} else {
			e.unfarm(f.app, ui, f.pool, amt, e.rng.Chance(2))
		}
		return
	}
	app := e.pickApp()
	if andWithdraw {
		e.unfarmAndWithdraw(app, e.pickUser(), e.pickPool(app), e.amount())
	} else {
		e.unfarm(app, e.pickUser(), e.pickPool(app), e.amount(), false)
	}
}

// setupMarkets creates pairs (app ids and pair ids drawn independently) and pools through real messages.
func (e *c04Env) setupMarkets() {
	for _, app := range e.apps {
		n := 1 + e.rng.Intn(4)
		perm := []int{0, 1, 2, 3}
		for i := 3; i > 0; i-- {
			j := e.rng.Intn(i + 1)
			perm[i], perm[j] = perm[j], perm[i]
		}
		for i := 0; i < n; i++ {
			m := c04Menu[perm[i]]
			e.createPair(app, e.rng.Intn(4), e.coins[m[0]], e.coins[m[1]])
		}
	}
	for i := 0; i < 4+e.rng.Intn(6); i++ {
		e.genCreatePool()
	}
}

func (e *c04Env) dt() int64 {
	switch e.rng.Intn(20) {
	case 0:
		return int64(3600 + e.rng.Intn(40000))
	case 1:
		return int64(86400 + e.rng.Intn(1000)) // farming queue matures, every order expires
	case 2, 3:
		return int64(300 + e.rng.Intn(3000))
	default:
		return int64(1 + e.rng.Intn(30))
	}
}

func (e *c04Env) runRandom(blocks int, mode int) {
	e.tiny = mode == 4
	// modes 4 and 5 are version-1 worlds (limit / market orders and basic pools only): the store migration 1 -> 2 is run once,
	// somewhere in the middle third of the history, with whatever partially filled orders and pending requests exist then
	e.v1 = mode == 4 || mode == 5
	if e.v1 {
		e.migAt = e.height + int64(blocks/4+e.rng.Intn(blocks/4+1))
		e.migWait = int64(blocks / 3)
	}
	e.setupMarkets()
	for b := 0; b < blocks; b++ {
		ntx := e.rng.Intn(7)
		for i := 0; i < ntx; i++ {
			r := e.rng.Intn(100)
			w := [][]int{
				// limit market mm cancel cancelAll cancelMM pair pool deposit withdraw farm unfarm dAF uAW
				{32, 8, 6, 10, 5, 3, 2, 4, 8, 7, 5, 4, 3, 3},
				{47, 10, 2, 16, 8, 1, 1, 3, 4, 3, 2, 1, 1, 1},
				{10, 2, 1, 2, 1, 1, 2, 8, 18, 15, 14, 12, 7, 7},
				{20, 4, 28, 8, 4, 16, 2, 4, 4, 3, 2, 2, 2, 1},
				{67, 0, 0, 10, 6, 0, 1, 2, 4, 3, 2, 2, 2, 1},
				{45, 12, 0, 14, 7, 0, 1, 3, 5, 4, 3, 2, 2, 2},
			}[mode]
			k := 0
			for acc := 0; k < len(w); k++ {
				acc += w[k]
				if r < acc {
					break
				}
			}
			switch k {
			case 0:
				e.genLimit(mode == 4)
			case 1:
				e.genMarket()
			case 2:
				e.genMM()
			case 3:
				e.genCancel()
			case 4:
				e.genCancelAll()
			case 5:
				e.genCancelMM()
			case 6:
				e.genCreatePair()
			case 7:
				e.genCreatePool()
			case 8:
				e.genDeposit(false)
			case 9:
				e.genWithdraw()
			case 10:
				e.genFarm()
			case 11:
				e.genUnfarm(false)
			case 12:
				e.genDeposit(true)
				// a request executed inside its message stays in the store until the next BeginBlocker: put other users'
				// pending requests of OTHER apps (same global escrow, overlapping denoms) into the same block
				if e.rng.Chance(60) {
					for k := 0; k < 1+e.rng.Intn(2); k++ {
						e.genDepositInto(e.apps[e.rng.Intn(len(e.apps))])
					}
				}
			default:
				e.genUnfarm(true)
			}
		}
		e.nextBlock(e.dt())
	}
}

// ---------------------------------------------------------------------------------------------------------
// corpus: witnesses of known defects, replayed first
// ---------------------------------------------------------------------------------------------------------

// witnessD4: swap.go:559 looks indexed market-making orders up with (pairId, appId, id).  App 2 / pair 1:
// 20 MM orders, next batch, MsgCancelMMOrder succeeds, cancels nothing and deletes the index.
func (e *c04Env) witnessD4() {
	e.createPair(2, 0, e.coins[1], e.coins[2]) // app 2, pair 1
	e.createPair(1, 0, e.coins[1], e.coins[2]) // app 1, pair 1
	e.createPair(1, 0, e.coins[2], e.coins[3]) // app 1, pair 2  (the mirrored key of app 2 / pair 1)
	d := func(s string) sdkmath.LegacyDec { return sdkmath.LegacyMustNewDecFromStr(s) }
	e.mmOrder(2, 1, 1, d("1.1"), d("1.01"), sdkmath.NewInt(10_000_000), d("0.99"), d("0.9"), sdkmath.NewInt(10_000_000), 3600)
	// a stranger's limit order living under the mirrored key (app 1, pair 2, id 1)
	e.order(1, 2, 2, 1, true, sdkmath.NewInt(2_000_000), d("1.0"), sdkmath.NewInt(1_000_000), 3600, false)
	e.nextBlock(5)
	e.cancelMM(2, 1, 1)
	e.nextBlock(5)
	// app 1 / pair 1 (appId == pairId): the lookup happens to work
	e.mmOrder(1, 1, 1, d("1.1"), d("1.01"), sdkmath.NewInt(10_000_000), d("0.99"), d("0.9"), sdkmath.NewInt(10_000_000), 3600)
	e.nextBlock(5)
	e.cancelMM(1, 1, 1)
	e.nextBlock(5)
	// replace path: a second MsgMMOrder must cancel the first one's orders
	e.mmOrder(2, 3, 1, d("1.1"), d("1.01"), sdkmath.NewInt(5_000_000), d("0.99"), d("0.9"), sdkmath.NewInt(5_000_000), 3600)
	e.nextBlock(5)
	e.mmOrder(2, 3, 1, d("1.2"), d("1.05"), sdkmath.NewInt(7_000_000), d("0.95"), d("0.85"), sdkmath.NewInt(7_000_000), 3600)
	e.nextBlock(5)
	e.nextBlock(4000)
}

// witnessLifecycle: a directed history through the branches the random generator reaches only sometimes: full
// withdrawal (supply reaches zero, pool must be disabled), requests against a disabled pool, deposit that mints
// nothing, farming queue maturing after a day, unfarm across queue and active position, partial fill then cancel,
// same-batch cancel, expiry.
func (e *c04Env) witnessLifecycle() {
	d := func(s string) sdkmath.LegacyDec { return sdkmath.LegacyMustNewDecFromStr(s) }
	n := func(x int64) sdkmath.Int { return sdkmath.NewInt(x) }
	e.createPair(3, 0, e.coins[1], e.coins[2]) // app 3 (batch size 2 in variant 0), pair 1
	e.createPair(3, 0, e.coins[2], e.coins[3]) // pair 2
	e.createPool(3, 0, 2, n(50_000_000), n(50_000_000), false, sdkmath.LegacyDec{}, sdkmath.LegacyDec{}, sdkmath.LegacyDec{})      // pool 1 in pair 2
	e.createPool(3, 1, 2, n(30_000_000), n(30_000_000), true, d("0.5"), d("2"), d("1"))                                               // ranged pool 2
	e.createPool(3, 1, 1, n(9_000_000), n(9_000_000), false, sdkmath.LegacyDec{}, sdkmath.LegacyDec{}, sdkmath.LegacyDec{})          // pool 3 in pair 1
	e.nextBlock(5)
	// requests
	e.deposit(3, 2, 1, n(1_000_000), n(1_000_000))
	e.deposit(3, 2, 1, n(1), n(1)) // mints nothing => fails at execution, refunded
	e.depositAndFarm(3, 3, 1, n(2_000_000), n(2_000_000))
	e.withdraw(3, 0, 1, e.poolCoinBalance(0, 3, 1).QuoRaw(4), false)
	e.nextBlock(5)
	e.nextBlock(5)
	// farming: three queue entries of different ages; only the oldest matures; unfarm across entries and into the active position
	q := e.poolCoinBalance(2, 3, 1).QuoRaw(5)
	e.farm(3, 2, 1, q, false)
	e.nextBlock(36000) // +10 h
	e.farm(3, 2, 1, q.MulRaw(2), false)
	e.nextBlock(36000) // +20 h
	e.farm(3, 2, 1, q, false)
	e.unfarm(3, 2, 1, n(10), false)
	e.nextBlock(14400 + 5) // 24 h + 5 s after the first entry: it alone is mature
	e.nextBlock(5)
	e.nextBlock(5) // app 3 executes every second block: one of these two EndBlockers activates the oldest entry
	e.unfarm(3, 2, 1, q.AddRaw(1000), false)             // the newest entry and a bit of the middle one
	e.unfarm(3, 2, 1, q.MulRaw(2).AddRaw(500), false)    // the rest of the queue and part of the active position
	e.farm(3, 2, 1, n(1000), false)
	e.unfarm(3, 2, 1, n(1500), false) // across the queue into the active position
	e.nextBlock(86400 + 5)
	e.nextBlock(5)
	e.unfarmAndWithdraw(3, 3, 1, n(100_000))
	e.nextBlock(5)
	// the creator of pool 3 withdraws the entire supply: supply 0 => disabled
	e.withdraw(3, 1, 3, e.poolCoinBalance(1, 3, 3), false)
	e.nextBlock(5)
	e.nextBlock(5)
	e.deposit(3, 2, 3, n(1_000_000), n(1_000_000)) // disabled pool: rejected
	e.nextBlock(5)
	// orders: partial fill against a resting order, cancel in the same batch (rejected) and later (accepted), expiry
	e.order(3, 2, 1, 1, false, n(3_000_000), d("1.0"), n(2_000_000), 600, false)
	e.cancel(3, 2, 1, 1) // same batch
	e.order(3, 3, 1, 1, true, n(1_000_000), d("1.0"), n(500_000), 30, false)
	e.nextBlock(5)
	e.nextBlock(5)
	e.cancel(3, 3, 1, 1) // not the owner
	e.cancel(3, 2, 1, 1) // owner, later batch: partially filled order refunded
	e.order(3, 3, 1, 1, true, n(200), d("1.0"), n(150), 20, false)
	e.order(3, 2, 2, 2, true, n(5_000_000), sdkmath.LegacyZeroDec(), n(1_000_000), 20, false) // market order, no last price yet => rejected
	e.nextBlock(50)
	e.nextBlock(50) // expired
	e.nextBlock(5)
	// --- (coverage round 5) a pool whose ENTIRE supply is farmed by its creator; another user's deposit request is pending when the
	// creator's MsgUnfarmAndWithdraw takes the whole supply out (executed inside the message: supply 0 => disabled); the pending
	// request is then executed against a disabled pool and refunded (pool.go:495-499)
	e.createPair(2, 0, e.coins[3], e.coins[4])
	e.createPool(2, 1, 1, n(20_000_000), n(20_000_000), false, sdkmath.LegacyDec{}, sdkmath.LegacyDec{}, sdkmath.LegacyDec{})
	all := e.poolCoinBalance(1, 2, 1)
	e.farm(2, 1, 1, all, false)
	e.nextBlock(86400 + 5) // the queue entry matures: the creator's position is active
	e.nextBlock(5)
	e.deposit(2, 2, 1, n(1_000_000), n(1_000_000)) // pending
	e.unfarmAndWithdraw(2, 1, 1, all)                // whole supply: active farmer record deleted (rewards.go:460), pool disabled
	e.farm(2, 1, 1, n(1), false)                     // nothing left to farm
	e.nextBlock(5)                                   // the pending deposit meets a disabled pool
	e.nextBlock(5)
	// exact unfarm of a position spread over queue and active part, down to zero
	e.createPool(2, 1, 1, n(20_000_000), n(20_000_000), false, sdkmath.LegacyDec{}, sdkmath.LegacyDec{}, sdkmath.LegacyDec{}) // pool 2 (pool 1 is disabled)
	half := e.poolCoinBalance(1, 2, 2).QuoRaw(2)
	e.farm(2, 1, 2, half, false)
	e.nextBlock(86400 + 5)
	e.nextBlock(5)
	e.farm(2, 1, 2, half.QuoRaw(2), false)
	e.unfarm(2, 1, 2, half.Add(half.QuoRaw(2)), false) // queue entry and the whole active position: both records end at zero
	e.unfarm(2, 1, 2, n(1), false)                      // nothing farmed any more
	// messages addressed to things that do not exist, wrong pool-coin denoms
	e.farm(2, 1, 9, n(10), false)
	e.farm(7, 1, 1, n(10), false)
	e.farm(2, 1, 2, n(10), true)
	e.unfarm(2, 1, 9, n(10), false)
	e.unfarm(7, 1, 1, n(10), false)
	e.unfarm(2, 1, 2, n(10), true)
	e.withdraw(2, 1, 9, n(10), false)
	e.withdraw(7, 1, 1, n(10), false)
	e.withdraw(2, 1, 2, n(10), true)
	e.deposit(2, 1, 9, n(10), n(10))
	e.deposit(7, 1, 1, n(10), n(10))
	e.depositAndFarm(2, 1, 9, n(10), n(10))
	e.depositAndFarm(2, 1, 1, n(1_000_000), n(1_000_000)) // disabled pool
	e.withdraw(2, 1, 1, n(10), false)                       // disabled pool (pool.go:445)
	e.unfarmAndWithdraw(2, 1, 9, n(10))
	e.foreign = true
	e.deposit(2, 1, 2, n(1_000_000), n(1_000_000)) // a coin that is not in the pair (pool.go:382)
	e.foreign = true
	e.depositAndFarm(2, 1, 2, n(1_000_000), n(1_000_000)) // (pool.go:847)
	e.foreign = true
	e.createPool(2, 1, 1, n(20_000_000), n(20_000_000), true, d("0.5"), d("2"), d("1")) // (pool.go:249)
	e.createPool(2, 1, 1, n(20_000_000), n(20_000_000), true, d("0.5000001"), d("2"), d("1")) // min price off tick (pool.go:228)
	e.createPool(2, 1, 1, n(20_000_000), n(20_000_000), true, d("0.000000000000001"), d("2"), d("1")) // below the lowest tick (pool.go:239)
	// MaxNumActivePoolsPerPair = 20: pool 2 is active; 19 ranged pools more are accepted, the next one is refused (pool.go:117 / 261)
	for i := 0; i < 20; i++ {
		e.createPool(2, i%4, 1, n(2_000_000), n(2_000_000), true, d("0.5"), d("2"), d("1"))
	}
	e.foreign = true
	e.createPool(2, 0, 1, n(20_000_000), n(20_000_000), false, sdkmath.LegacyDec{}, sdkmath.LegacyDec{}, sdkmath.LegacyDec{}) // (pool.go:90)
	e.nextBlock(5)
}

// witnessCancelAll: one app with three pairs, one owner with orders of mixed ages in all of them; cancel-all with empty,
// partial (in both orders of ids), full and unknown pair-id lists.  In particular: an older order in a HIGHER-id pair behind a
// current-batch order in a LOWER-id pair (the owner index is keyed (orderer, pairId, orderId)).
func (e *c04Env) witnessCancelAll() {
	d := func(s string) sdkmath.LegacyDec { return sdkmath.LegacyMustNewDecFromStr(s) }
	n := func(x int64) sdkmath.Int { return sdkmath.NewInt(x) }
	e.createPair(1, 0, e.coins[1], e.coins[2]) // app 1: pairs 1, 2, 3
	e.createPair(1, 0, e.coins[2], e.coins[3])
	e.createPair(1, 0, e.coins[3], e.coins[4])
	sell := func(ui int, pair uint64) { e.order(1, ui, pair, 1, false, n(1_003_000), d("1.0"), n(1_000_000), 3600, false) }
	rounds := [][]uint64{nil, {1, 2, 3}, {3, 1}, {2}, {2, 3}, {1, 9}}
	for _, pairs := range rounds {
		sell(1, 2) // older orders in pairs 2 and 3 (and one of another user)
		sell(1, 3)
		sell(2, 3)
		e.nextBlock(5)
		sell(1, 1) // fresh orders of the same owner in pairs 1 and 3
		sell(1, 3)
		e.cancelAll(1, 1, pairs)
		e.nextBlock(5)
		e.cancelAll(1, 1, nil) // now everything of user 1 is old
		e.cancelAll(1, 2, []uint64{3, 2})
		e.nextBlock(5)
	}
}

// witnessExecutedInMessage: requests that are executed inside their message (MsgDepositAndFarm, MsgUnfarmAndWithdraw) are
// still in the store (status succeeded) when the EndBlocker's ExecuteRequests walks the requests at the end of the block.  In
// the same block other users have PENDING deposit requests in other apps — same global escrow, same denoms — one app that
// executes in this block (app 2) and one that does not (app 3, two-block batches).  An already executed request must not
// move a coin again.
func (e *c04Env) witnessExecutedInMessage() {
	n := func(x int64) sdkmath.Int { return sdkmath.NewInt(x) }
	for _, app := range []uint64{1, 2, 3} {
		e.createPair(app, 0, e.coins[1], e.coins[2])
		e.createPool(app, 0, 1, n(50_000_000), n(50_000_000), false, sdkmath.LegacyDec{}, sdkmath.LegacyDec{}, sdkmath.LegacyDec{})
	}
	e.nextBlock(5)
	for round := 0; round < 3; round++ {
		e.deposit(2, 2, 1, n(100_000_000), n(100_000_000))
		e.deposit(2, 3, 1, n(100_000_000), n(100_000_000))
		e.deposit(3, 2, 1, n(40_000_000), n(40_000_000))
		e.depositAndFarm(1, 1, 1, n(10_000_000), n(10_000_000))
		e.depositAndFarm(3, 1, 1, n(5_000_000), n(5_000_000))
		e.withdraw(2, 0, 1, e.poolCoinBalance(0, 2, 1).QuoRaw(10), false)
		e.unfarmAndWithdraw(1, 1, 1, n(1_000_000))
		e.nextBlock(5)
		e.nextBlock(5)
	}
}

// witnessMigration: orders that are alive while the module store is migrated from consensus version 1 to 2
// (keeper.Migrator.Migrate1to2, registered in module.go).  Partially filled sell and buy orders (fee rates 0.3 % and 1.75 %),
// an untouched resting order, a partially filled market order, a pending deposit request, a pending withdrawal and a farming
// queue entry live through the migration; afterwards: the owners cancel, one order expires, one is filled further and
// completes.  Every later refund is judged by the usual monitors (settled_exact, pair_escrow, cancellable, …); the migration
// step itself by migration_identity.  (Seed s87: RemainingOfferCoin of a migrated order taken from OfferCoin.)
func (e *c04Env) witnessMigration() {
	d := func(s string) sdkmath.LegacyDec { return sdkmath.LegacyMustNewDecFromStr(s) }
	n := func(x int64) sdkmath.Int { return sdkmath.NewInt(x) }
	e.v1 = true
	for _, app := range []uint64{1, 2, 3} {
		e.createPair(app, 0, e.coins[1], e.coins[2])
	}
	e.createPool(3, 0, 1, n(50_000_000), n(50_000_000), false, sdkmath.LegacyDec{}, sdkmath.LegacyDec{}, sdkmath.LegacyDec{})
	e.nextBlock(5)
	e.nextBlock(5)
	// app 1 (fee 0.3 %): seller 1 000 000 @ 1.0 for an hour, buyer crosses 400 000 of it, a bystander rests at 1.1
	e.order(1, 1, 1, 1, false, n(1_003_000), d("1.0"), n(1_000_000), 3600, false)
	e.order(1, 2, 1, 1, true, n(401_200), d("1.0"), n(400_000), 0, false)
	e.order(1, 3, 1, 1, false, n(501_500), d("1.1"), n(500_000), 3600, false)
	// app 2 (fee 1.75 %): a BUY order is the partially filled one (expires 40 s later), plus a resting buy far below
	e.order(2, 2, 1, 1, true, n(2_035_000), d("1.0"), n(2_000_000), 40, false)
	e.order(2, 1, 1, 1, false, n(712_250), d("1.0"), n(700_000), 0, false)
	e.order(2, 3, 1, 1, true, n(1_000_000), d("0.95"), n(900_000), 3600, false)
	// app 3 (fee 0, two-block batches, a pool): pending requests and a farming queue entry
	e.deposit(3, 1, 1, n(3_000_000), n(3_000_000))
	e.withdraw(3, 0, 1, e.poolCoinBalance(0, 3, 1).QuoRaw(10), false)
	e.farm(3, 0, 1, e.poolCoinBalance(0, 3, 1).QuoRaw(20), false)
	e.order(3, 2, 1, 1, false, n(6_000_000), d("1.02"), n(5_000_000), 3600, false)
	e.nextBlock(5) // batches of apps 1 and 2: the partial fills
	// a market order (last price exists now in apps 1 and 2) that is only partially filled: sells 900 000 into the resting buy of 900 000 @ 0.95 … and the 1.0 buyer
	e.order(2, 0, 1, 2, false, n(3_100_000), sdkmath.LegacyZeroDec(), n(3_000_000), 3600, false)
	e.migAt = e.height + 1
	e.nextBlock(5) // EndBlocker, then — at the start of the next block — the store migration, then the BeginBlocker
	if e.migAt != 0 {
		e.t.Fatalf("witnessMigration: the migration did not run")
	}
	e.cancel(1, 1, 1, 1)                                                            // the partially filled seller: unspent offer + fee reserve − fee on the executed part
	e.cancel(1, 3, 1, 3)                                                            // the bystander: refunded in full — the escrow must still hold it
	e.order(1, 2, 1, 1, true, n(300_900), d("1.0"), n(300_000), 0, false)           // nothing left to match in app 1
	e.order(2, 1, 1, 1, false, n(1_322_750), d("1.0"), n(1_300_000), 0, false)      // fills the migrated buy order of app 2 completely
	e.nextBlock(5)
	e.cancelAll(2, 0, nil) // the rest of the migrated market order
	e.cancelAll(2, 3, []uint64{1})
	e.nextBlock(50) // anything left of the 40 s buy order expires
	e.nextBlock(5)
	e.cancel(3, 2, 1, 1)
	e.nextBlock(5)
	e.nextBlock(5)
}

// witnessRejections: every validation branch of MsgLimitOrder / MsgMarketOrder / MsgMMOrder / MsgCancel* that the model now
// computes itself (price limits, tick grid, denoms, minimum order size, same-batch replace), once each, next to an accepted
// twin — a change to any of them in the code is a DIFF on a line of this witness.
func (e *c04Env) witnessRejections() {
	d := func(s string) sdkmath.LegacyDec { return sdkmath.LegacyMustNewDecFromStr(s) }
	n := func(x int64) sdkmath.Int { return sdkmath.NewInt(x) }
	e.createPair(1, 0, e.coins[1], e.coins[2]) // app 1 pair 1: base c1, quote c2
	e.createPair(2, 0, e.coins[2], e.coins[3]) // app 2 pair 1 (fee 1.75 %)
	// no last price yet: the whole tick range is allowed; market orders are refused
	e.order(1, 1, 1, 2, true, n(1_000_000), sdkmath.LegacyZeroDec(), n(100_000), 60, false) // ErrNoLastPrice
	e.order(1, 1, 1, 1, false, n(2_006_000), d("0.5"), n(2_000_000), 3600, false)
	e.order(1, 2, 1, 1, true, n(501_500), d("0.5"), n(1_000_000), 0, false)
	e.order(2, 1, 1, 1, false, n(2_035_000), d("0.5"), n(2_000_000), 3600, false)
	e.order(2, 2, 1, 1, true, n(508_750), d("0.5"), n(1_000_000), 0, false)
	e.nextBlock(5) // last price 0.5 in both pairs: limits [0.45, 0.55]
	// limit orders around the limits
	e.order(1, 3, 1, 1, true, n(600_000), d("0.55"), n(1_000_000), 60, false)                  // exactly the upper limit: accepted
	e.order(1, 3, 1, 1, true, n(600_000), d("0.55001"), n(1_000_000), 60, false)              // above: ErrPriceOutOfRange
	e.order(1, 3, 1, 1, false, n(1_003_000), d("0.45"), n(1_000_000), 60, false)              // exactly the lower limit
	e.order(1, 3, 1, 1, false, n(1_003_000), d("0.44999"), n(1_000_000), 60, false)            // below
	e.order(1, 3, 1, 1, true, n(600_000), d("0.5123456"), n(1_000_000), 60, false)            // off tick: fitted DOWN for a buy
	e.order(1, 3, 1, 1, false, n(1_003_000), d("0.5123456"), n(1_000_000), 60, false)         // … UP for a sell
	e.order(1, 3, 1, 1, true, n(600_000), d("0.5"), n(199), 60, false)                        // 0.5·199 < 100: ErrTooSmallOrder
	e.order(1, 3, 1, 1, true, n(600_000), d("0.5"), n(200), 60, false)                        // 0.5·200 = 100: accepted
	e.order(1, 3, 1, 1, true, n(600_000), d("0.5"), n(1_000_000), 60, true)                   // denoms swapped: ErrWrongPair
	// market orders
	e.order(1, 3, 1, 2, true, n(600_000), sdkmath.LegacyZeroDec(), n(1_000_000), 60, false)   // price = tick↓(0.5·1.1)
	e.order(1, 3, 1, 2, false, n(1_003_000), sdkmath.LegacyZeroDec(), n(1_000_000), 60, false) // price = tick↑(0.5·0.9)
	e.order(1, 3, 1, 2, false, n(1_003_000), sdkmath.LegacyZeroDec(), n(1_000_000), 60, true) // sell with swapped denoms (swap.go:206)
	e.order(1, 3, 1, 2, true, n(600_000), sdkmath.LegacyZeroDec(), n(1_000_000), 60, true)    // buy with swapped denoms (swap.go:193)
	e.order(1, 3, 1, 2, false, n(1_002_999), sdkmath.LegacyZeroDec(), n(1_000_000), 60, false) // one short of amount + fee (swap.go:214)
	e.order(1, 3, 1, 2, true, n(551_649), sdkmath.LegacyZeroDec(), n(1_000_000), 60, false)   // one short of ⌈0.55·amount⌉ + fee
	e.order(1, 3, 1, 2, true, n(551_650), sdkmath.LegacyZeroDec(), n(1_000_000), 60, false)   // exactly enough
	e.order(1, 3, 1, 2, false, n(10_000), sdkmath.LegacyZeroDec(), n(222), 60, false)          // 0.45·222 < 100 (swap.go:219)
	e.order(1, 3, 1, 2, false, n(10_000), sdkmath.LegacyZeroDec(), n(223), 60, false)          // 0.45·223 ≥ 100
	e.order(2, 3, 1, 2, false, n(1_017_500), sdkmath.LegacyZeroDec(), n(1_000_000), 60, false) // fee 1.75 %: exactly enough
	e.order(2, 3, 1, 2, false, n(1_017_499), sdkmath.LegacyZeroDec(), n(1_000_000), 60, false) // one short
	// market-making orders: each of the four prices off the tick grid / out of range, once
	ok := func(maxS, minS, maxB, minB string) {
		e.mmOrder(1, 2, 1, d(maxS), d(minS), n(1_000_000), d(maxB), d(minB), n(1_000_000), 60)
	}
	ok("0.54", "0.51", "0.49", "0.46")     // accepted: 10 + 10 ticks
	ok("0.54", "0.51", "0.49", "0.46")     // same batch: ErrSameBatch (swap.go:373), nothing changes
	ok("0.54", "0.510001", "0.49", "0.46") // min sell off tick (swap.go:286) — the validations come before the replace
	ok("0.540001", "0.51", "0.49", "0.46") // max sell off tick
	ok("0.54", "0.51", "0.49", "0.460001") // min buy off tick
	ok("0.54", "0.51", "0.490001", "0.46") // max buy off tick (swap.go:297)
	ok("0.54", "0.44", "0.49", "0.46")     // min sell below the range (swap.go:316)
	ok("0.56", "0.51", "0.49", "0.46")     // max sell above
	ok("0.54", "0.51", "0.49", "0.44")     // min buy below
	ok("0.54", "0.51", "0.56", "0.46")     // max buy above (swap.go:327)
	e.mmOrder(1, 2, 1, d("0.52"), d("0.51"), n(150), d("0.49"), d("0.48"), n(99), 60) // buy amount below the minimum (ValidateBasic)
	e.mmOrder(1, 4, 1, d("0.52"), d("0.51"), n(0), d("0.49"), d("0.48"), n(100_000_000), 60) // the poor account: quote coins insufficient (swap.go:359)
	e.mmOrder(1, 4, 1, d("0.52"), d("0.51"), n(100_000_000), d("0.49"), d("0.48"), n(0), 60) // … base coins insufficient
	e.nextBlock(5)
	if pr, found := e.pair(1, 1); found && pr.LastPrice != nil {
		lo, hi := e.priceLimits(1, pr)
		tp := e.tickPrec(1)
		e.mmOrder(1, 2, 1, hi, lo, n(1_000_000), hi, lo, n(1_000_000), 60) // exactly the limits on both sides: accepted, replaces the first one
		e.nextBlock(5)
		e.mmOrder(1, 2, 1, amm.UpTick(hi, tp), lo, n(1_000_000), hi, lo, n(1_000_000), 60) // one tick beyond
		mid := amm.PriceToDownTick(*pr.LastPrice, tp)
		e.mmOrder(1, 2, 1, amm.UpTick(amm.UpTick(mid, tp), tp), amm.UpTick(mid, tp), n(1_000_000), amm.DownTick(mid, tp), amm.DownTick(amm.DownTick(mid, tp), tp), n(1_000_000), 60) // adjacent ticks: the walk yields duplicates
		e.nextBlock(5)
		e.mmOrder(1, 2, 1, hi, hi, n(1_000_000), lo, lo, n(0), 60) // sell side only, one tick
	}
	// cancels that are refused before any order is looked at
	e.cancelMM(1, 2, 9)  // pair not found (swap.go:585)
	e.cancelMM(7, 2, 1)  // app not found
	e.cancel(7, 3, 1, 1) // app not found (swap.go:445)
	e.cancel(1, 3, 1, 99)
	e.cancelAll(7, 3, nil) // app not found (swap.go:496)
	e.nextBlock(5)
	e.cancelMM(1, 2, 1)
	e.cancelAll(1, 3, nil)
	e.nextBlock(70)
	e.nextBlock(5)
}

// witnessCrossAppPoolCoin (seed s119): apps 1, 2, 3 each have pool 1.  A user who holds ONLY the pool coin of (app 2, pool 1)
// addresses (app 1, pool 1) — and (app 3, pool 1) — with it: withdraw, farm, unfarm, unfarm-and-withdraw.  `PoolCoinDenom(app, pool)`
// encodes the app id too; every one of these must be refused.  If a withdrawal were accepted, app 2's pool coin would be burnt by a
// withdrawal executed against app 1's pool (poolcoin_supply), out of app 1's reserves.
func (e *c04Env) witnessCrossAppPoolCoin() {
	n := func(x int64) sdkmath.Int { return sdkmath.NewInt(x) }
	for _, app := range []uint64{1, 2, 3} {
		e.createPair(app, 0, e.coins[1], e.coins[2])
		e.createPool(app, 0, 1, n(50_000_000), n(50_000_000), false, sdkmath.LegacyDec{}, sdkmath.LegacyDec{}, sdkmath.LegacyDec{})
	}
	e.nextBlock(5)
	e.deposit(2, 2, 1, n(10_000_000), n(10_000_000)) // user 2 becomes a holder of p2.1 only
	e.nextBlock(5)
	e.nextBlock(5)
	bal := e.poolCoinBalance(2, 2, 1)
	foreign := liqtypes.PoolCoinDenom(2, 1)
	for _, app := range []uint64{1, 3} {
		e.pcDenom = foreign
		e.withdraw(app, 2, 1, bal.QuoRaw(4), false)
		e.pcDenom = foreign
		e.farm(app, 2, 1, bal.QuoRaw(4), false)
		e.pcDenom = foreign
		e.unfarm(app, 2, 1, bal.QuoRaw(8), false)
		e.pcDenom = foreign
		e.unfarmAndWithdraw(app, 2, 1, bal.QuoRaw(8))
		e.nextBlock(5)
		e.nextBlock(5)
	}
	e.pcDenom = liqtypes.PoolCoinDenom(2, 9) // same app, another pool id
	e.withdraw(2, 2, 1, bal.QuoRaw(4), false)
	e.withdraw(2, 2, 1, bal.QuoRaw(4), false) // the genuine one
	e.farm(2, 2, 1, bal.QuoRaw(4), false)
	e.nextBlock(5)
	e.nextBlock(5)
}

func c04Run(t *testing.T, prop string) {
	tr := OpenTrace(t, strings.ToLower(prop)+".trace")
	defer tr.Close(t)
	rng := NewRng(seed()*7919 + uint64(len(prop)) + uint64(prop[2]))
	// corpus
	e := c04NewEnv(t, tr, rng, prop, 0)
	e.witnessD4()
	tr.Set("witness_D4_msgs", e.msgCnt)
	e = c04NewEnv(t, tr, rng, prop, 0)
	e.witnessLifecycle()
	e = c04NewEnv(t, tr, rng, prop, 0)
	e.witnessCancelAll()
	e = c04NewEnv(t, tr, rng, prop, 0)
	e.witnessExecutedInMessage()
	e = c04NewEnv(t, tr, rng, prop, 0)
	e.witnessMigration()
	e = c04NewEnv(t, tr, rng, prop, 0)
	e.witnessRejections()
	e = c04NewEnv(t, tr, rng, prop, 0)
	e.witnessCrossAppPoolCoin()
	nseq := scale(10, 120)
	blocks := scale(45, 110)
	if os := envInt("VERIF_SEARCH", 0); os == 1 {
		nseq = 200
	}
	tot, ok := 0, 0
	for s := 0; s < nseq; s++ {
		mode := s % 6
		if prop == "C07" && mode == 2 {
			mode = 3 // C07: more market-making, fewer farming sequences
		}
		e := c04NewEnv(t, tr, rng, prop, s)
		e.runRandom(blocks, mode)
		tot += e.msgCnt
		ok += e.okCnt
	}
	tr.Set("messages", tot)
	tr.Set("messages_ok", ok)
	if tot > 0 {
		tr.Set("success_pct", 100*ok/tot)
	}
}

func TestC04(t *testing.T) { c04Run(t, "C04") }
func TestC07(t *testing.T) { c04Run(t, "C07") }
