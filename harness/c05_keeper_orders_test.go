//go:build verif

package harness

import (
	"strconv"
	"strings"
	"time"

	sdkmath "cosmossdk.io/math"
	sdk "github.com/cosmos/cosmos-sdk/types"

	"github.com/comdex-official/comdex/x/liquidity/amm"
	liqtypes "github.com/comdex-official/comdex/x/liquidity/types"
)

// C05, keeper level: market orders (MsgMarketOrder: limit price = last price ± MaxPriceLimitRatio fitted to the grid) and
// market-making orders (MsgMMOrder: a ladder of tick orders from MMOrderTicks; previous MM orders of the orderer are canceled),
// delivered through the message router like the limit orders of c05_keeper_test.go. Lines:
//   amm.k.params <maxPriceLimitRatio raw> <maxNumMarketMakingOrderTicks>
//   amm.k.market <dir> <amount> <expireAt> <ok|err> <id> <price> <offer> <batchId>
//   amm.k.mm <owner> <buyMin> <buyMax> <buyAmt> <sellMin> <sellMax> <sellAmt> <expireAt> <ok|err> <orders>
//            orders: `id:dir:price:amount:offer:batch` of the stored tick orders, `;`-joined, in id order

func (q *c05kSeq) params() {
	e := q.e
	params, err := e.app.LiquidityKeeper.GetGenericParams(q.ctx, e.appID)
	if err != nil {
		e.t.Fatal(err)
	}
	q.tr.Line("amm.k.params", c05Raw(params.MaxPriceLimitRatio), u(params.MaxNumMarketMakingOrderTicks))
}

// deliver a message the way the chain does: ValidateBasic, handler on a cached context written back on success
func (q *c05kSeq) deliver(msg sdk.Msg, validate func() error) bool {
	if err := validate(); err != nil {
		return false
	}
	cctx, write := q.ctx.CacheContext()
	handler := q.e.app.MsgServiceRouter().Handler(msg)
	var err error
	panicked, _ := try(func() { _, err = handler(cctx, msg) })
	if panicked || err != nil {
		return false
	}
	write()
	return true
}

func (q *c05kSeq) placeMarket(user int, buy bool, amt sdkmath.Int, lifespan time.Duration) {
	e := q.e
	dir, offerDenom, demandDenom, d := liqtypes.OrderDirectionBuy, "uquote", "ubase", "1"
	if !buy {
		dir, offerDenom, demandDenom, d = liqtypes.OrderDirectionSell, "ubase", "uquote", "2"
	}
	// offer coin: plenty (what is not needed stays with the orderer)
	pair, _ := e.app.LiquidityKeeper.GetPair(q.ctx, e.appID, e.pairID)
	need := amt
	if buy {
		lp := sdkmath.LegacyOneDec()
		if pair.LastPrice != nil {
			lp = *pair.LastPrice
		}
		need = lp.MulInt(amt).MulInt64(12).QuoInt64(10).Ceil().TruncateInt()
	}
	offer := sdk.NewCoin(offerDenom, need.MulRaw(102).QuoRaw(100).AddRaw(10))
	if amt.ModRaw(41).IsZero() { // now and then far too little offer coin: ErrInsufficientOfferCoin
		offer = sdk.NewCoin(offerDenom, sdkmath.NewInt(1))
		q.tr.Count("k.market:short-offer")
	}
	msg := liqtypes.NewMsgMarketOrder(e.appID, e.users[user], e.pairID, dir, offer, demandDenom, amt, lifespan)
	expire := q.now + int64(lifespan/time.Second)
	before := pair
	if !q.deliver(msg, msg.ValidateBasic) {
		if pair.LastPrice == nil {
			q.tr.Count("k.market:rejected-no-last-price")
		} else {
			q.tr.Count("k.market:rejected")
		}
		q.tr.Line("amm.k.market", d, amt.String(), strconv.FormatInt(expire, 10), "err", "-", "-", "-", "-")
		return
	}
	after, _ := e.app.LiquidityKeeper.GetPair(q.ctx, e.appID, e.pairID)
	if after.LastOrderId != before.LastOrderId+1 {
		e.t.Fatalf("market order id: %d -> %d", before.LastOrderId, after.LastOrderId)
	}
	o, found := e.app.LiquidityKeeper.GetOrder(q.ctx, e.appID, e.pairID, after.LastOrderId)
	if !found {
		e.t.Fatal("placed market order not stored")
	}
	q.tr.Count("k.market:ok")
	q.tr.Line("amm.k.market", d, amt.String(), strconv.FormatInt(o.ExpireAt.Unix(), 10), "ok",
		u(o.Id), c05Raw(o.Price), o.OfferCoin.Amount.String(), u(o.BatchId))
}

type c05kSide struct {
	min, max sdkmath.LegacyDec
	amt      sdkmath.Int
}

func (q *c05kSeq) placeMM(user int, buy, sell *c05kSide, lifespan time.Duration) {
	e := q.e
	zero := sdkmath.LegacyZeroDec()
	b, s := c05kSide{zero, zero, sdkmath.ZeroInt()}, c05kSide{zero, zero, sdkmath.ZeroInt()}
	if buy != nil {
		b = *buy
	}
	if sell != nil {
		s = *sell
	}
	msg := liqtypes.NewMsgMMOrder(e.appID, e.users[user], e.pairID, s.max, s.min, s.amt, b.max, b.min, b.amt, lifespan)
	expire := q.now + int64(lifespan/time.Second)
	head := []string{strconv.Itoa(user), c05Raw(b.min), c05Raw(b.max), b.amt.String(), c05Raw(s.min), c05Raw(s.max), s.amt.String()}
	before, _ := e.app.LiquidityKeeper.GetPair(q.ctx, e.appID, e.pairID)
	if !q.deliver(msg, msg.ValidateBasic) {
		q.tr.Count("k.mm:rejected")
		q.tr.Line("amm.k.mm", append(head, strconv.FormatInt(expire, 10), "err", "")...)
		return
	}
	after, _ := e.app.LiquidityKeeper.GetPair(q.ctx, e.appID, e.pairID)
	var ss []string
	for id := before.LastOrderId + 1; id <= after.LastOrderId; id++ {
		o, found := e.app.LiquidityKeeper.GetOrder(q.ctx, e.appID, e.pairID, id)
		if !found {
			e.t.Fatal("placed MM order not stored")
		}
		if o.Type != liqtypes.OrderTypeMM {
			e.t.Fatal("MM order with another type")
		}
		d := "1"
		if o.Direction == liqtypes.OrderDirectionSell {
			d = "2"
		}
		expire = o.ExpireAt.Unix()
		ss = append(ss, u(o.Id)+":"+d+":"+c05Raw(o.Price)+":"+o.Amount.String()+":"+o.OfferCoin.Amount.String()+":"+u(o.BatchId))
	}
	q.tr.Count("k.mm:ok")
	switch n := len(ss); {
	case n <= 2:
		q.tr.Count("k.mm:ticks:1-2")
	case n < 10:
		q.tr.Count("k.mm:ticks:3-9")
	default:
		q.tr.Count("k.mm:ticks:10+")
	}
	q.tr.Line("amm.k.mm", append(head, strconv.FormatInt(expire, 10), "ok", strings.Join(ss, ";"))...)
}

// a ladder around the tick index `center` of the given width (in ticks); `buy` below the centre, `sell` above
func c05kLadder(prec, center, width int, buy bool, amt sdkmath.Int) *c05kSide {
	lo, hi := center-width, center-1
	if !buy {
		lo, hi = center+1, center+width
	}
	return &c05kSide{min: amm.TickFromIndex(lo, prec), max: amm.TickFromIndex(hi, prec), amt: amt}
}
