//go:build verif

package harness

// C19 — external reward programmes.  Worlds with 1–4 programmes of each kind (locker / vault / lend), several of them due
// in the same block, eligible and ineligible users, all driven through the REAL rewards.BeginBlocker
// (DistributeExtRewardLocker → …Vault → …Lend).  Before every begin blocker the harness prints, for every programme, the
// inputs its distribution function will read (lookup tables, positions, creation times, oracle records, farmed pool coins,
// kill switches) taken with the keepers' own getters; the Lean driver runs the model (Model/ExtReward.lean) on them,
// compares the resulting records, balances and per-account payouts, and evaluates the monitors on the REAL records.

import (
	"strconv"
	"strings"
	"time"

	sdkmath "cosmossdk.io/math"
	"github.com/comdex-official/comdex/app/wasm/bindings"
	assettypes "github.com/comdex-official/comdex/x/asset/types"
	esmtypes "github.com/comdex-official/comdex/x/esm/types"
	lendtypes "github.com/comdex-official/comdex/x/lend/types"
	lockertypes "github.com/comdex-official/comdex/x/locker/types"
	rewardstypes "github.com/comdex-official/comdex/x/rewards/types"
	vaulttypes "github.com/comdex-official/comdex/x/vault/types"
	"testing"

	sdk "github.com/cosmos/cosmos-sdk/types"
)

// c19X: what the external-programme worlds add to a c19World
type c19X struct {
	vaultApp uint64
	lendApp  uint64
	extPair  uint64
	assetID  map[string]uint64
	lendPool uint64
	vaults   bool
	lend     bool
}

func c19b(b bool) string {
	if b {
		return "1"
	}
	return "0"
}

func (w *c19World) addAsset(name, denom string, decimals sdkmath.Int, twa uint64, mintable bool) uint64 {
	w.must(w.app.AssetKeeper.AddAssetRecords(w.ctx, assettypes.Asset{Name: name, Denom: denom, Decimals: decimals, IsOnChain: true, IsOraclePriceRequired: true, IsCdpMintable: mintable}))
	a, found := w.app.AssetKeeper.GetAssetForDenom(w.ctx, denom)
	if !found {
		w.t.Fatal("asset not found: " + denom)
	}
	if twa > 0 {
		w.setPrice(a.Id, twa, true)
	}
	w.x.assetID[denom] = a.Id
	return a.Id
}

func (w *c19World) addApp(name, short string) uint64 {
	w.must(w.app.AssetKeeper.AddAppRecords(w.ctx, assettypes.AppData{Name: name, ShortName: short, MinGovDeposit: sdk.NewInt(0)}))
	apps, _ := w.app.AssetKeeper.GetApps(w.ctx)
	for _, a := range apps {
		if a.Name == name {
			return a.Id
		}
	}
	w.t.Fatal("app not found")
	return 0
}

// xSetup: reward assets (urew $1; urewb with the given price / decimals; weth 18 decimals), the debt asset of the vault app,
// a vault app with ONE extended pair (the activation message demands that), a lend app with one pool.
func (w *c19World) xSetup(rewbTwa uint64, rewbDec sdkmath.Int, wethTwa uint64) {
	w.x = &c19X{assetID: map[string]uint64{"uasset1": 1, "uasset2": 2, "uasset3": 3, "uasset4": 4}}
	e18, _ := sdk.NewIntFromString("1000000000000000000")
	w.addAsset("CMST", "ucmst", sdk.NewInt(1000000), 1000000, true)
	w.addAsset("REW", "urew", sdk.NewInt(1000000), 1000000, false)
	w.addAsset("REWB", "urewb", rewbDec, rewbTwa, false)
	w.addAsset("WETH", "weth", e18, wethTwa, false)
	w.x.vaultApp = w.addApp("vaultapp", "vltapp")
	w.x.lendApp = w.addApp("commodo", "cmmdo")
}

// vault fixture: pair uasset2 → ucmst in the vault app, users open vaults with the given debts
func (w *c19World) xSetupVaults(debts []int64) {
	x := w.x
	w.must(w.app.AssetKeeper.AddPairsRecords(w.ctx, assettypes.Pair{AssetIn: 2, AssetOut: x.assetID["ucmst"]}))
	var pairID uint64
	for _, p := range w.app.AssetKeeper.GetPairs(w.ctx) {
		if p.AssetIn == 2 && p.AssetOut == x.assetID["ucmst"] {
			pairID = p.Id
		}
	}
	w.must(w.app.AssetKeeper.WasmAddExtendedPairsVaultRecords(w.ctx, &bindings.MsgAddExtendedPairsVault{AppID: x.vaultApp, PairID: pairID,
		StabilityFee: sdk.ZeroDec(), ClosingFee: sdk.ZeroDec(), LiquidationPenalty: sdk.MustNewDecFromStr("0.15"), DrawDownFee: sdk.ZeroDec(),
		IsVaultActive: true, DebtCeiling: sdk.NewInt(1000000000000000000), DebtFloor: sdk.NewInt(1000), MinCr: sdk.MustNewDecFromStr("1.5"),
		PairName: "ATWOC", AssetOutOraclePrice: true, AssetOutPrice: 1000000, MinUsdValueLeft: 1000}))
	eps, _ := w.app.AssetKeeper.GetPairsVaults(w.ctx)
	for _, e := range eps {
		if e.PairName == "ATWOC" && e.AppId == x.vaultApp {
			x.extPair = e.Id
		}
	}
	if x.extPair == 0 {
		w.t.Fatal("extended pair not found")
	}
	_ = w.app.Rewardskeeper.WhitelistAppIDVault(w.ctx, x.vaultApp)
	x.vaults = true
	for i, d := range debts {
		w.openVault(200+i, d)
	}
}

// openVault: collateral worth 3 × the debt at the current price of uasset2 (MinCr 1.5)
func (w *c19World) openVault(acct int, debt int64) bool {
	o := w.acct(acct)
	twa, _ := w.app.MarketKeeper.GetTwa(w.ctx, 2)
	dec := w.assetDecimals(2)
	p := twa.Twa
	if p == 0 {
		p = 1
	}
	// collateral amount c with c·twa/dec ≥ 3·debt
	c := sdk.NewInt(debt).MulRaw(3).Mul(dec).QuoRaw(int64(p)).AddRaw(1000)
	w.fund(o, sdk.NewCoins(sdk.NewCoin("uasset2", c)))
	err := w.deliver(&vaulttypes.MsgCreateRequest{From: o.String(), AppId: w.x.vaultApp, ExtendedPairVaultId: w.x.extPair, AmountIn: c, AmountOut: sdk.NewInt(debt)})
	if err != nil {
		w.tr.Count("vault:create-err")
		return false
	}
	w.tr.Count("vault:create-ok")
	return true
}

func (w *c19World) assetDecimals(id uint64) sdkmath.Int {
	a, found := w.app.AssetKeeper.GetAsset(w.ctx, id)
	if !found {
		w.t.Fatal("asset")
	}
	return a.Decimals
}

// lend fixture (x/rewards/keeper/msg_server_test.go AddAppAssetLend): one pool {uasset1 transit 3, uasset2 main, uasset3
// transit 2}, the six intra-pool pairs, liquidity for every asset
func (w *c19World) xSetupLend() {
	x := w.x
	k := w.app.LendKeeper
	c1 := w.addAsset("CAONE", "ucasset1", sdk.NewInt(1000000), 0, false)
	c2 := w.addAsset("CATWO", "ucasset2", sdk.NewInt(1000000), 0, false)
	c3 := w.addAsset("CATHREE", "ucasset3", sdk.NewInt(1000000), 0, false)
	capBig := sdk.NewDec(5000000000000000000)
	w.must(k.AddPoolRecords(w.ctx, lendtypes.Pool{ModuleName: "cmdx", CPoolName: "CMDX-ATOM-CMST", AssetData: []*lendtypes.AssetDataPoolMapping{
		{AssetID: 1, AssetTransitType: 3, SupplyCap: capBig}, {AssetID: 2, AssetTransitType: 1, SupplyCap: capBig}, {AssetID: 3, AssetTransitType: 2, SupplyCap: capBig}}}))
	x.lendPool = 1
	d := sdk.MustNewDecFromStr
	rate := func(asset uint64, ltv, lt string, c uint64) {
		w.must(k.AddAssetRatesParams(w.ctx, lendtypes.AssetRatesParams{AssetID: asset, UOptimal: d("0.8"), Base: d("0.002"), Slope1: d("0.06"), Slope2: d("0.6"),
			EnableStableBorrow: false, StableBase: d("0.0"), StableSlope1: d("0.0"), StableSlope2: d("0.0"), Ltv: d(ltv), LiquidationThreshold: d(lt),
			LiquidationPenalty: d("0.05"), LiquidationBonus: d("0.05"), ReserveFactor: d("0.1"), CAssetID: c,
			ELtv: sdk.ZeroDec(), ELiquidationThreshold: sdk.ZeroDec(), ELiquidationPenalty: sdk.ZeroDec()}))
	}
	rate(1, "0.7", "0.75", c1)
	rate(2, "0.5", "0.55", c2)
	rate(3, "0.8", "0.85", c3)
	pair := func(in, out uint64) {
		w.must(k.AddLendPairsRecords(w.ctx, lendtypes.Extended_Pair{AssetIn: in, AssetOut: out, IsInterPool: false, AssetOutPoolID: 1, MinUsdValueLeft: 1000}))
	}
	pair(2, 3) // 1
	pair(2, 1) // 2
	pair(1, 2) // 3
	pair(1, 3) // 4
	pair(3, 2) // 5
	pair(3, 1) // 6
	w.must(k.AddAssetToPair(w.ctx, lendtypes.AssetToPairMapping{AssetID: 1, PoolID: 1, PairID: []uint64{3, 4}}))
	w.must(k.AddAssetToPair(w.ctx, lendtypes.AssetToPairMapping{AssetID: 2, PoolID: 1, PairID: []uint64{1, 2}}))
	w.must(k.AddAssetToPair(w.ctx, lendtypes.AssetToPairMapping{AssetID: 3, PoolID: 1, PairID: []uint64{5, 6}}))
	_ = k.AddAuctionParamsData(w.ctx, lendtypes.AuctionParams{AppId: x.lendApp, AuctionDurationSeconds: 21600, Buffer: d("1.2"), Cusp: d("0.7"), Step: sdk.NewInt(360),
		PriceFunctionType: 1, DutchId: 3, BidDurationSeconds: 3600})
	funder := w.acct(90)
	for i, dn := range []string{"uasset1", "uasset2", "uasset3"} {
		c := sdk.NewCoin(dn, sdk.NewInt(1000000000000000))
		w.fund(funder, sdk.NewCoins(c))
		w.must(k.FundModAcc(w.ctx, 1, uint64(i+1), funder.String(), c))
	}
	x.lend = true
}

// borrow `out` of asset `assetOut` (2 or 3) against uasset1 collateral worth 4 × the loan; optionally farm in the master pool
func (w *c19World) borrow(acct int, assetOut uint64, out int64) bool {
	o := w.acct(acct)
	twaIn, _ := w.app.MarketKeeper.GetTwa(w.ctx, 1)
	twaOut, _ := w.app.MarketKeeper.GetTwa(w.ctx, assetOut)
	pin, pout := twaIn.Twa, twaOut.Twa
	if pin == 0 {
		pin = 1
	}
	in := sdk.NewInt(out).MulRaw(4).MulRaw(int64(pout)).QuoRaw(int64(pin)).AddRaw(1000000)
	w.fund(o, sdk.NewCoins(sdk.NewCoin("uasset1", in)))
	pairID := uint64(3)
	denom := "uasset2"
	if assetOut == 3 {
		pairID, denom = 4, "uasset3"
	}
	err := w.deliver(&lendtypes.MsgBorrowAlternate{Lender: o.String(), AssetId: 1, PoolId: 1, AmountIn: sdk.NewCoin("uasset1", in), PairId: pairID,
		IsStableBorrow: false, AmountOut: sdk.NewCoin(denom, sdk.NewInt(out)), AppId: w.x.lendApp})
	if err != nil {
		w.tr.Count("borrow:err")
		return false
	}
	w.tr.Count("borrow:ok")
	return true
}

// ---------------------------------------------------------------------------------------------
// programme creation
// ---------------------------------------------------------------------------------------------

type c19ProgSpec struct {
	kind    string // L locker, V vault, B lend (borrowers)
	creator int
	denom   string
	amount  sdkmath.Int
	days    int64
	minLock int64
	fundIt  bool
	asset   uint64 // L: locker asset; B: borrowed asset
	app     uint64 // 0 = the right one
	extPair uint64 // V: 0 = the right one
	master  int64  // B: 0 = pool 1
}

func (w *c19World) createProg(s c19ProgSpec) bool {
	from := w.acct(s.creator)
	if s.fundIt && s.amount.IsPositive() {
		w.fund(from, sdk.NewCoins(sdk.NewCoin(s.denom, s.amount)))
	}
	funds := w.app.BankKeeper.GetBalance(w.ctx, from, s.denom).Amount
	var msg sdk.Msg
	aux := true
	first := int64(86400)
	var lastID func() uint64
	switch s.kind {
	case "L":
		app := s.app
		if app == 0 {
			app = 1
		}
		msg = &rewardstypes.ActivateExternalRewardsLockers{AppMappingId: app, AssetId: s.asset, TotalRewards: sdk.Coin{Denom: s.denom, Amount: s.amount}, DurationDays: s.days, Depositor: from.String(), MinLockupTimeSeconds: s.minLock}
		_, found := w.app.LockerKeeper.GetLockerProductAssetMapping(w.ctx, app, s.asset)
		aux = found && s.minLock > 0 && s.asset > 0
		lastID = func() uint64 { return w.app.Rewardskeeper.GetExternalRewardsLockersID(w.ctx) }
	case "V":
		app, ep := s.app, s.extPair
		if app == 0 {
			app = w.x.vaultApp
		}
		if ep == 0 {
			ep = w.x.extPair
		}
		msg = &rewardstypes.ActivateExternalRewardsVault{AppMappingId: app, ExtendedPairId: ep, TotalRewards: sdk.Coin{Denom: s.denom, Amount: s.amount}, DurationDays: s.days, Depositor: from.String(), MinLockupTimeSeconds: s.minLock}
		pv, found := w.app.AssetKeeper.GetPairsVault(w.ctx, ep)
		aux = found && !pv.IsStableMintVault && s.minLock > 0
		if aux {
			md, found := w.app.VaultKeeper.GetAppMappingData(w.ctx, app)
			aux = found
			for _, v := range md {
				if v.ExtendedPairId != ep {
					aux = false
				}
			}
		}
		lastID = func() uint64 { return w.app.Rewardskeeper.GetExternalRewardsVaultID(w.ctx) }
	case "B":
		app, mp := s.app, s.master
		if app == 0 {
			app = w.x.lendApp
		}
		if mp == 0 {
			mp = 1
		}
		first = 84600
		msg = &rewardstypes.ActivateExternalRewardsLend{AppMappingId: app, CPoolId: 1, AssetId: []uint64{s.asset}, CSwapAppId: 1, CSwapMinLockAmount: 0,
			TotalRewards: sdk.Coin{Denom: s.denom, Amount: s.amount}, MasterPoolId: mp, DurationDays: s.days, MinLockupTimeSeconds: s.minLock, Depositor: from.String()}
		_, f1 := w.app.LiquidityKeeper.GetPool(w.ctx, 1, uint64(mp))
		_, f2 := w.app.AssetKeeper.GetAsset(w.ctx, s.asset)
		_, f3 := w.app.LendKeeper.GetPool(w.ctx, 1)
		_, f4 := w.app.AssetKeeper.GetAssetForDenom(w.ctx, s.denom)
		aux = f1 && f2 && f3 && f4
		lastID = func() uint64 { return w.app.Rewardskeeper.GetExternalRewardsLendID(w.ctx) }
	default:
		w.t.Fatal("kind")
	}
	err := w.deliver(msg)
	outcome, eid := "err", uint64(0)
	if err == nil {
		outcome = "ok"
		eid = lastID()
		w.tr.Count("xprog:create-ok-" + s.kind)
	} else {
		w.tr.Count("xprog:create-err-" + s.kind)
	}
	w.tr.Line("gauge.xnew", s.kind, u(eid), s.denom, s.amount.String(), i64(s.days), i64(s.minLock), i64(w.ctx.BlockTime().Unix()), i64(first),
		funds.String(), strconv.FormatBool(aux), outcome)
	return err == nil
}

// ---------------------------------------------------------------------------------------------
// per-block observation
// ---------------------------------------------------------------------------------------------

func (w *c19World) recvIx(addr string) string {
	ix, known := w.acctIx[addr]
	if !known {
		return "9999"
	}
	return strconv.Itoa(ix)
}

func (w *c19World) halted(app uint64, esm bool) bool {
	kl, _ := w.app.EsmKeeper.GetKillSwitchData(w.ctx, app)
	if kl.BreakerEnable {
		return true
	}
	if esm {
		st, found := w.app.EsmKeeper.GetESMStatus(w.ctx, app)
		if found && st.Status {
			return true
		}
	}
	return false
}

// price record as OraclePriceForRewards reads it: found:active:twa:decimals
func (w *c19World) priceRec(assetID uint64, assetFound bool) string {
	if !assetFound {
		return "0:0:0:1"
	}
	a, found := w.app.AssetKeeper.GetAsset(w.ctx, assetID)
	if !found {
		return "0:0:0:1"
	}
	t, found := w.app.MarketKeeper.GetTwa(w.ctx, a.Id)
	if !found {
		return "0:0:0:" + a.Decimals.String()
	}
	return "1:" + c19b(t.IsPriceActive) + ":" + u(t.Twa) + ":" + a.Decimals.String()
}

// xSnapshot prints, for every programme in the order the begin blocker will visit them, what its distribution function reads
func (w *c19World) xSnapshot() {
	tr := w.tr
	for _, e := range w.app.Rewardskeeper.GetExternalRewardsLockers(w.ctx) {
		lk, _ := w.app.LockerKeeper.GetLockerLookupTable(w.ctx, e.AppMappingId, e.AssetId)
		var us []string
		for _, id := range lk.LockerIds {
			l, found := w.app.LockerKeeper.GetLocker(w.ctx, id)
			if !found {
				continue
			}
			us = append(us, l.NetBalance.String()+":"+i64(l.CreatedAt.Unix())+":"+w.recvIx(l.Depositor))
			if w.ctx.BlockTime().Unix()-l.CreatedAt.Unix() < e.MinLockupTimeSeconds {
				tr.Count("xshare:locker-younger-than-lockup")
			}
		}
		total := "0"
		if !lk.DepositedAmount.IsNil() {
			total = lk.DepositedAmount.String()
		}
		tr.Line("gauge.xshare", "L", u(e.Id), c19b(w.halted(e.AppMappingId, true)), total, c19csvS(us))
	}
	for _, e := range w.app.Rewardskeeper.GetExternalRewardVaults(w.ctx) {
		md, _ := w.app.VaultKeeper.GetAppExtendedPairVaultMappingData(w.ctx, e.AppMappingId, e.ExtendedPairId)
		var us []string
		for _, id := range md.VaultIds {
			v, found := w.app.VaultKeeper.GetVault(w.ctx, id)
			if !found {
				continue
			}
			us = append(us, v.AmountOut.String()+":"+i64(v.CreatedAt.Unix())+":"+w.recvIx(v.Owner))
			if w.ctx.BlockTime().Unix()-v.CreatedAt.Unix() < e.MinLockupTimeSeconds {
				tr.Count("xshare:vault-younger-than-lockup")
			}
		}
		total := "0"
		if !md.TokenMintedAmount.IsNil() {
			total = md.TokenMintedAmount.String()
		}
		tr.Line("gauge.xshare", "V", u(e.Id), c19b(w.halted(e.AppMappingId, true)), total, c19csvS(us))
	}
	for _, e := range w.app.Rewardskeeper.GetExternalRewardLends(w.ctx) {
		rd := e.RewardsAssetPoolData
		assetID := rd.AssetId[0]
		stats, sfound := w.app.LendKeeper.GetAssetStatsByPoolIDAndAssetID(w.ctx, rd.CPoolId, assetID)
		quote, base := "0:0:0:1", "0:0:0:1"
		kit, kerr := w.app.LiquidityKeeper.GetPoolTokenDesrializerKit(w.ctx, rd.CSwapAppId, uint64(e.MasterPoolId))
		if kerr == nil {
			qa, qf := w.app.AssetKeeper.GetAssetForDenom(w.ctx, kit.Pair.QuoteCoinDenom)
			ba, bf := w.app.AssetKeeper.GetAssetForDenom(w.ctx, kit.Pair.BaseCoinDenom)
			quote, base = w.priceRec(qa.Id, qf), w.priceRec(ba.Id, bf)
		}
		var bs []string
		if sfound {
			for _, id := range stats.BorrowIds {
				b, found := w.app.LendKeeper.GetBorrow(w.ctx, id)
				if !found {
					continue
				}
				lp, _ := w.app.LendKeeper.GetLend(w.ctx, b.LendingID)
				farmed, xs, ys := "0", "0", "0"
				if addr, err := sdk.AccAddressFromBech32(lp.Owner); err == nil && kerr == nil {
					if af, found := w.app.LiquidityKeeper.GetActiveFarmer(w.ctx, rd.CSwapAppId, uint64(e.MasterPoolId), addr); found {
						if x, y, err := w.app.LiquidityKeeper.CalculateXYFromPoolCoin(w.ctx, kit, af.FarmedPoolCoin); err == nil {
							farmed, xs, ys = "1", x.String(), y.String()
						}
					}
				}
				bs = append(bs, strings.Join([]string{c19b(b.IsLiquidated), b.AmountOut.Amount.String(), farmed, xs, ys, w.recvIx(lp.Owner)}, ":"))
				switch {
				case b.IsLiquidated:
					tr.Count("xlend:borrower-liquidated")
				case farmed == "0":
					tr.Count("xlend:borrower-not-farming")
				default:
					tr.Count("xlend:borrower-eligible")
				}
			}
		}
		ra, rfound := w.app.AssetKeeper.GetAssetForDenom(w.ctx, e.TotalRewards.Denom)
		borrowers := "-"
		if len(bs) > 0 {
			borrowers = strings.Join(bs, ";")
		}
		tr.Line("gauge.xlend", u(e.Id), c19b(w.halted(e.AppMappingId, false)), c19b(sfound), w.priceRec(assetID, true), quote, base, borrowers, c19b(rfound), w.priceRec(ra.Id, rfound))
	}
}

// xRecords prints the programme records and their epoch-time records after the block
func (w *c19World) xRecords(before map[string]uint64) {
	var xs []string
	rec := func(kind string, id uint64, total, avail sdk.Coin, days, minLock int64, active bool, epochID uint64) {
		ep, _ := w.app.Rewardskeeper.GetEpochTime(w.ctx, epochID)
		xs = append(xs, strings.Join([]string{kind, u(id), total.Denom, total.Amount.String(), avail.Amount.String(), i64(days), i64(minLock), strconv.FormatBool(active), i64(ep.StartingTime), u(ep.Count)}, ":"))
		key := kind + u(id)
		if b, known := before[key]; known && ep.Count > b {
			w.tr.Count("xprog:paid-" + kind)
			if ep.Count == uint64(days) {
				w.tr.Count("xprog:last-day-" + kind)
			}
			if avail.Amount.IsNegative() {
				w.tr.Count("xprog:avail-negative-" + kind)
			}
		}
		if !active {
			w.tr.Count("xprog:inactive-" + kind)
		}
	}
	for _, e := range w.app.Rewardskeeper.GetExternalRewardsLockers(w.ctx) {
		rec("L", e.Id, e.TotalRewards, e.AvailableRewards, e.DurationDays, e.MinLockupTimeSeconds, e.IsActive, e.EpochId)
	}
	for _, e := range w.app.Rewardskeeper.GetExternalRewardVaults(w.ctx) {
		rec("V", e.Id, e.TotalRewards, e.AvailableRewards, e.DurationDays, e.MinLockupTimeSeconds, e.IsActive, e.EpochId)
	}
	for _, e := range w.app.Rewardskeeper.GetExternalRewardLends(w.ctx) {
		rec("B", e.Id, e.TotalRewards, e.AvailableRewards, e.DurationDays, e.MinLockupTimeSeconds, e.IsActive, e.EpochId)
	}
	if len(xs) == 0 {
		xs = []string{"-"}
	}
	w.tr.Line("gauge.xprogs", strings.Join(xs, ";"))
}

// epoch counts before the block, and how many programmes of each kind are due in this block (generator statistics)
func (w *c19World) xCounts() map[string]uint64 {
	m := map[string]uint64{}
	now := w.ctx.BlockTime().Unix()
	due := map[string]int{}
	one := func(kind string, id, epochID uint64, active bool, days int64) {
		ep, _ := w.app.Rewardskeeper.GetEpochTime(w.ctx, epochID)
		m[kind+u(id)] = ep.Count
		if active && ep.StartingTime < now && ep.Count < uint64(days) {
			due[kind]++
		}
	}
	for _, e := range w.app.Rewardskeeper.GetExternalRewardsLockers(w.ctx) {
		one("L", e.Id, e.EpochId, e.IsActive, e.DurationDays)
	}
	for _, e := range w.app.Rewardskeeper.GetExternalRewardVaults(w.ctx) {
		one("V", e.Id, e.EpochId, e.IsActive, e.DurationDays)
	}
	for _, e := range w.app.Rewardskeeper.GetExternalRewardLends(w.ctx) {
		one("B", e.Id, e.EpochId, e.IsActive, e.DurationDays)
	}
	for k, n := range due {
		if n >= 2 {
			w.tr.Count("xblock:due>=2-" + k)
		} else {
			w.tr.Count("xblock:due=1-" + k)
		}
	}
	return m
}

// ---------------------------------------------------------------------------------------------
// witnesses (replayed first in every run) and generated worlds
// ---------------------------------------------------------------------------------------------

// a borrower who also farms in the master pool: `farm` units of each side deposited and farmed
func (w *c19World) addBorrower(acct int, assetOut uint64, out int64, farm int64) {
	if farm > 0 {
		pc := w.deposit(w.acct(acct), w.pools[0], farm)
		if pc.Amount.IsPositive() {
			w.farm(w.acct(acct), w.pools[0], pc.Amount)
		}
	}
	w.borrow(acct, assetOut, out)
}

// X1 (finding): a lend programme pays the oracle VALUE of its daily allocation as a token AMOUNT.  Reward token urewb priced
// 12 USD (6 decimals): programme 1 (1 200 000 000 urewb, 2 days) pays 12 × its allocation on day 1 — six times its whole funding —
// out of the coins of programme 2 (600 000 000 000 urewb, 1000 days, not yet due) in the same module account.
func c19WitnessLendValueAsAmount(t *testing.T, tr *Trace) {
	w := c19NewWorld(t, tr, 1000000000000, 1000000, [4]uint64{2000000, 1000000, 1000000, 1000000})
	w.xSetup(12000000, sdk.NewInt(1000000), 2000000000)
	w.xSetupLend()
	w.addBorrower(301, 2, 1000000000, 5000000000)
	w.addBorrower(302, 2, 1000000000, 5000000000)
	w.settle(25 * time.Hour)
	w.createProg(c19ProgSpec{kind: "B", creator: 80, denom: "urewb", amount: sdk.NewInt(1200000000), days: 2, minLock: 1, fundIt: true, asset: 2})
	w.block(12 * time.Hour)
	w.createProg(c19ProgSpec{kind: "B", creator: 81, denom: "urewb", amount: sdk.NewInt(600000000000), days: 1000, minLock: 1, fundIt: true, asset: 2})
	w.block(12*time.Hour + 10*time.Minute)
	w.block(25 * time.Hour)
	w.block(25 * time.Hour)
	tr.Count("witness:lend_value_as_amount")
}

// X2 (finding, the lend flavour of D20): `totalAmount` adds up the TRUNCATED weights while the payouts use the untruncated
// ones.  Three borrowers whose eligible value is 1.9 each (borrow 19 units of an asset priced 0.1): total 3, weights 5.7 ⇒ the
// programme pays 1.9 × its daily allocation.
func c19WitnessLendTruncatedTotal(t *testing.T, tr *Trace) {
	w := c19NewWorld(t, tr, 1000000000000, 1000000, [4]uint64{2000000, 100000, 1000000, 1000000})
	w.xSetup(1000000, sdk.NewInt(1000000), 2000000000)
	w.xSetupLend()
	for i := 0; i < 3; i++ {
		w.addBorrower(301+i, 2, 19, 5000000000)
	}
	w.settle(25 * time.Hour)
	w.createProg(c19ProgSpec{kind: "B", creator: 80, denom: "urew", amount: sdk.NewInt(3000000), days: 3, minLock: 1, fundIt: true, asset: 2})
	w.createProg(c19ProgSpec{kind: "L", creator: 81, denom: "urew", amount: sdk.NewInt(9000000), days: 30, minLock: 1, fundIt: true, asset: 1})
	w.block(time.Hour)
	w.block(24 * time.Hour)
	w.block(25 * time.Hour)
	w.block(25 * time.Hour)
	w.block(25 * time.Hour)
	tr.Count("witness:lend_truncated_total")
}

// X3 (directed, no defect): three identical lend programmes activated in one block, two borrowers — every programme pays its
// own daily allocation on both days (the situation of the seeded change s96: `totalAmount` reset per programme while
// `addrArr` / `amountArr` keep accumulating makes programme n pay n × its allocation).
func c19LendSameBlockCase(t *testing.T, tr *Trace) {
	w := c19NewWorld(t, tr, 1000000000000, 1000000, [4]uint64{12000000, 1000000, 1000000, 1000000})
	w.xSetup(1000000, sdk.NewInt(1000000), 2000000000)
	w.xSetupLend()
	w.addBorrower(301, 2, 1000000000, 5000000000)
	w.addBorrower(302, 2, 1000000000, 5000000000)
	w.settle(25 * time.Hour)
	for i := 0; i < 3; i++ {
		w.createProg(c19ProgSpec{kind: "B", creator: 80, denom: "urew", amount: sdk.NewInt(600000000), days: 2, minLock: 1, fundIt: true, asset: 2})
	}
	w.block(time.Hour)
	w.block(24*time.Hour + 10*time.Minute)
	w.block(24*time.Hour + 10*time.Minute)
	w.block(24*time.Hour + 10*time.Minute)
	tr.Count("corpus:lend-same-block")
}

func c19XWorld(t *testing.T, tr *Trace, rng *Rng) {
	prices := [4]uint64{[]uint64{2000000, 12000000, 1000000}[rng.Intn(3)], []uint64{1000000, 1000000, 333333, 1234567}[rng.Intn(4)], []uint64{1000000, 999999}[rng.Intn(2)], 1000000}
	w := c19NewWorld(t, tr, 1000000000000, 1000000, prices)
	// reward token urewb: mostly the clean 1 USD / 6 decimals, sometimes another price or 18 decimals (finding X1)
	rewbTwa, rewbDec := uint64(1000000), sdk.NewInt(1000000)
	switch rng.Intn(6) {
	case 0:
		rewbTwa = []uint64{12000000, 500000, 1000001}[rng.Intn(3)]
		tr.Count("xworld:rewb-price-not-1")
	case 1:
		rewbDec, _ = sdk.NewIntFromString("1000000000000000000")
		rewbTwa = 3000000
		tr.Count("xworld:rewb-18-decimals")
	}
	w.xSetup(rewbTwa, rewbDec, 2000000000)
	nL, nV, nB := rng.Range(0, 5), rng.Range(0, 4), rng.Range(0, 5)
	if nL+nV+nB == 0 {
		nB = 2
	}
	if nL > 0 || rng.Chance(30) {
		n := rng.Range(1, 5)
		nets := make([]int64, n)
		for i := range nets {
			nets[i] = int64(rng.Range(1, 1000)) * int64([]int{1, 1000, 1000000}[rng.Intn(3)])
		}
		w.setupLockers(nets)
	}
	if nV > 0 || rng.Chance(30) {
		n := rng.Range(1, 4)
		debts := make([]int64, n)
		for i := range debts {
			debts[i] = int64(rng.Range(1, 1000)) * int64([]int{1000, 1000000}[rng.Intn(2)])
		}
		w.xSetupVaults(debts)
	}
	nBorrowers := 0
	if nB > 0 || rng.Chance(30) {
		w.xSetupLend()
		nBorrowers = rng.Range(1, 5)
		for i := 0; i < nBorrowers; i++ {
			out := int64(rng.Range(1, 999999)) * int64([]int{1, 1000, 100000}[rng.Intn(3)])
			if rng.Chance(10) {
				out = int64(rng.Range(1, 50)) // dust: a weight below one value unit
			}
			farm := int64(0)
			if rng.Chance(80) {
				farm = int64(1000000) << uint(rng.Intn(14))
			}
			w.addBorrower(301+i, []uint64{2, 2, 3}[rng.Intn(3)], out, farm)
		}
	}
	w.settle(25 * time.Hour)
	denoms := []string{"urew", "urew", "urew", "urewb", "weth"}
	newProg := func(kind string) {
		s := c19ProgSpec{kind: kind, creator: 80 + rng.Intn(3), denom: denoms[rng.Intn(len(denoms))], days: int64(rng.Range(1, 4)), minLock: []int64{1, 1, 3600, 30 * 3600, 100 * 3600}[rng.Intn(5)], fundIt: true}
		s.amount = sdk.NewIntFromUint64(rng.U64() >> uint(rng.Range(24, 54))).AddRaw(1)
		if s.denom == "weth" && rng.Chance(50) {
			// 18-decimal amounts: the rounding of the per-user share is amplified (D20); ≥ 2^63 makes `Int64()` panic
			s.amount = sdk.NewIntFromUint64(rng.U64() >> uint(rng.Range(0, 8))).AddRaw(1)
			if !s.amount.IsInt64() {
				tr.Count("xprog:amount>=2^63")
			}
		}
		switch kind {
		case "L":
			s.asset = 1
		case "B":
			s.asset = []uint64{2, 2, 3}[rng.Intn(3)]
			if s.denom == "weth" || rng.Chance(70) {
				s.denom = []string{"urew", "urew", "urewb"}[rng.Intn(3)]
			}
			if rng.Chance(4) {
				s.asset = 4 // an asset the lend pool does not list: no AssetStats ⇒ the function returns, later programmes are not visited
				tr.Count("xprog:lend-asset-without-stats")
			}
			if rng.Chance(5) {
				s.denom = "ucasset1" // an asset without any price record: the programme is skipped every block
				tr.Count("xprog:lend-reward-without-price")
			}
		}
		// malformed stream
		switch rng.Intn(30) {
		case 0:
			s.amount = sdk.ZeroInt()
		case 1:
			s.days = 0
		case 2:
			s.fundIt = false
		case 3:
			s.minLock = 0 // refused for locker / vault, accepted for lend
		case 4:
			switch kind {
			case "L":
				s.asset = 3 // not whitelisted
			case "V":
				s.extPair = 77
			case "B":
				s.master = 77
			}
		case 5:
			if kind == "B" {
				s.denom = "unknowncoin"
			}
		}
		w.createProg(s)
	}
	kinds := []string{}
	for i := 0; i < nL; i++ {
		kinds = append(kinds, "L")
	}
	if w.x.vaults {
		for i := 0; i < nV; i++ {
			kinds = append(kinds, "V")
		}
	}
	if w.x.lend {
		for i := 0; i < nB; i++ {
			kinds = append(kinds, "B")
		}
	}
	// most programmes are activated together (⇒ due in the same block); a few later
	late := []string{}
	for _, k := range kinds {
		if rng.Chance(75) {
			newProg(k)
		} else {
			late = append(late, k)
		}
	}
	// a gauge in the same module account (custody is shared)
	if rng.Chance(50) {
		s := c19GaugeSpec{creator: 50, denom: []string{"urew", "urewb", "weth"}[rng.Intn(3)], pool: 1, typeID: 1, dur: 24 * time.Hour, total: uint64(rng.Range(1, 5)),
			deposit: sdk.NewIntFromUint64(rng.U64()>>uint(rng.Range(30, 60)) + 10), start: w.ctx.BlockTime()}
		w.fund(w.acct(s.creator), sdk.NewCoins(sdk.NewCoin(s.denom, s.deposit)))
		w.createGauge(s)
	}
	gaps := []time.Duration{time.Hour, 12 * time.Hour, 23*time.Hour + 30*time.Minute, 23*time.Hour + 30*time.Minute + time.Second, 24 * time.Hour, 24*time.Hour + time.Second,
		25 * time.Hour, 25 * time.Hour, 49 * time.Hour, 100 * time.Hour}
	nBlocks := rng.Range(6, scale(14, 30))
	for b := 0; b < nBlocks; b++ {
		g := gaps[rng.Intn(len(gaps))]
		if g >= 49*time.Hour {
			tr.Count("xgap:pause")
		} else {
			tr.Count("xgap:normal")
		}
		w.block(g)
		switch rng.Intn(13) {
		case 0:
			if len(late) > 0 {
				newProg(late[0])
				late = late[1:]
			}
		case 1:
			if len(kinds) > 0 {
				newProg(kinds[rng.Intn(len(kinds))])
			}
		case 2: // a new locker (too young for a long MinLockupTimeSeconds, except on the last day)
			if w.lockers {
				o := w.acct(120 + b)
				n := int64(rng.Range(1, 1000)) * 1000
				w.fund(o, sdk.NewCoins(sdk.NewCoin("uasset1", sdk.NewInt(n))))
				if w.deliver(&lockertypes.MsgCreateLockerRequest{Depositor: o.String(), Amount: sdk.NewInt(n), AssetId: 1, AppId: 1}) == nil {
					tr.Count("xop:new-locker")
				}
			}
		case 3: // deposit into / withdraw from a locker
			if w.lockers {
				lk, _ := w.app.LockerKeeper.GetLockerLookupTable(w.ctx, 1, 1)
				if len(lk.LockerIds) > 0 {
					id := lk.LockerIds[rng.Intn(len(lk.LockerIds))]
					l, _ := w.app.LockerKeeper.GetLocker(w.ctx, id)
					o, _ := sdk.AccAddressFromBech32(l.Depositor)
					if rng.Chance(50) {
						n := int64(rng.Range(1, 1000)) * 1000
						w.fund(o, sdk.NewCoins(sdk.NewCoin("uasset1", sdk.NewInt(n))))
						if w.deliver(&lockertypes.MsgDepositAssetRequest{Depositor: l.Depositor, LockerId: id, Amount: sdk.NewInt(n), AssetId: 1, AppId: 1}) == nil {
							tr.Count("xop:locker-deposit")
						}
					} else if l.NetBalance.IsPositive() {
						amt := l.NetBalance.QuoRaw(int64(rng.Range(1, 3)))
						if amt.IsPositive() && w.deliver(&lockertypes.MsgWithdrawAssetRequest{Depositor: l.Depositor, LockerId: id, Amount: amt, AssetId: 1, AppId: 1}) == nil {
							tr.Count("xop:locker-withdraw")
						}
					}
				}
			}
		case 4: // a new vault
			if w.x.vaults {
				if w.openVault(220+b, int64(rng.Range(1, 1000))*1000) {
					tr.Count("xop:new-vault")
				}
			}
		case 5: // a new borrower
			if w.x.lend {
				w.addBorrower(320+b, []uint64{2, 3}[rng.Intn(2)], int64(rng.Range(1, 999999))*10, int64(1000000)<<uint(rng.Intn(10)))
				tr.Count("xop:new-borrower")
			}
		case 6: // a borrower leaves the master pool (no longer eligible)
			if nBorrowers > 0 {
				a := w.acct(301 + rng.Intn(nBorrowers))
				if af, found := w.app.LiquidityKeeper.GetActiveFarmer(w.ctx, w.appID, 1, a); found {
					w.unfarm(a, w.pools[0], af.FarmedPoolCoin.Amount.QuoRaw(int64(rng.Range(1, 2))))
				}
			}
		case 7:
			w.setPrice(uint64(rng.Range(1, 3)), []uint64{999, 1000000, 7654321, 100000}[rng.Intn(4)], true)
			tr.Count("xop:price-change")
		case 8:
			if rng.Chance(50) {
				w.setPrice(uint64(rng.Range(1, 3)), 0, false) // "price not active and twa 0": the value is not found
				tr.Count("xop:price-off")
			} else {
				w.setPrice(uint64(rng.Range(1, 3)), 1000000, false) // inactive but non-zero: still used
				tr.Count("xop:price-inactive-nonzero")
			}
		case 9: // kill switch / emergency shutdown status of one of the apps for one block
			app := []uint64{1, w.x.vaultApp, w.x.lendApp}[rng.Intn(3)]
			if rng.Chance(50) {
				w.must(w.app.EsmKeeper.SetKillSwitchData(w.ctx, esmtypes.KillSwitchParams{AppId: app, BreakerEnable: true}))
				tr.Count("xop:kill-switch")
				w.block(gaps[rng.Intn(len(gaps))])
				w.must(w.app.EsmKeeper.SetKillSwitchData(w.ctx, esmtypes.KillSwitchParams{AppId: app, BreakerEnable: false}))
			} else {
				w.app.EsmKeeper.SetESMStatus(w.ctx, esmtypes.ESMStatus{AppId: app, Status: true})
				tr.Count("xop:esm-status")
				w.block(gaps[rng.Intn(len(gaps))])
				w.app.EsmKeeper.SetESMStatus(w.ctx, esmtypes.ESMStatus{AppId: app, Status: false})
			}
		case 10:
			w.donate(w.acct(70), []string{"urew", "urewb", "weth"}[rng.Intn(3)], int64(rng.Range(1, 1000)))
		case 11: // the reward token's price
			if id, ok := w.x.assetID["urewb"]; ok && rng.Chance(30) {
				w.setPrice(id, []uint64{1000000, 2000000, 0}[rng.Intn(3)], rng.Chance(80))
				tr.Count("xop:reward-price-change")
			}
		}
	}
}

func c19XWorlds(t *testing.T, tr *Trace, rng *Rng) {
	n := scale(24, 600)
	for i := 0; i < n; i++ {
		c19XWorld(t, tr, rng)
	}
}
