//go:build verif

package harness

// C14, two apps under liquidation, controls on for exactly ONE of them (added after missed seed s115: the guard tying the vault
// to the app whose breaker / ESM status was just checked — `vault.AppId != appIds[i]` in the gen-1 sweep, `vault.AppId != appID` in
// MsgLiquidateVault — was replaced by a comparison that never mentions the checked app, so a controlled app's vault was
// liquidated during the OTHER app's iteration / by a message naming the other app).
//
// World branch: the harbor app (A's unsafe vault) and a second app "soloapp" (D's unsafe vault), both whitelisted for gen-1 and
// gen-2 liquidation, collateral price dropped. Control ∈ {breaker, ESM} on {harbor, solo, none}. Units: the gen-1 sweep through
// its keeper entry point `LiquidateVaults` (all apps), the real liquidationsV2.BeginBlocker, and the liquidate messages of both
// generations naming every (app, vault) combination including the crossed ones. Judged per VAULT's app.
//
// Trace: grd.xapp kind unit scn ctl vaultApp namedApp controlled crossed | outcome touched
//        kind ∈ {sweep, msg}; ctl ∈ {brk, esm, none}; controlled = the control is on for the VAULT's app; touched = the vault record changed / is gone

import (
	"fmt"
	"testing"
	"time"

	abci "github.com/cometbft/cometbft/abci/types"
	sdk "github.com/cosmos/cosmos-sdk/types"

	auctiontypes "github.com/comdex-official/comdex/x/auction/types"
	esmtypes "github.com/comdex-official/comdex/x/esm/types"
	liquidationtypes "github.com/comdex-official/comdex/x/liquidation/types"
	"github.com/comdex-official/comdex/x/liquidationsV2"
	liquidationsV2types "github.com/comdex-official/comdex/x/liquidationsV2/types"
)

func (w *c12World) vaultSig(ctx sdk.Context, id uint64) string {
	v, ok := w.app.VaultKeeper.GetVault(ctx, id)
	if !ok {
		return "gone"
	}
	return fmt.Sprintf("%s/%s/%d", v.AmountIn, v.AmountOut, v.AppId)
}

func c14CrossApp(t *testing.T, tr *Trace, w *c12World) {
	for _, ctl := range []string{"brk", "esm"} {
		for _, on := range []string{"harbor", "solo", "none"} {
			if ctl == "esm" && on == "none" {
				continue
			}
			ctx, _ := w.ctx.CacheContext()
			ctx = ctx.WithBlockHeight(ctx.BlockHeight() + 5).WithBlockTime(ctx.BlockTime().Add(30 * time.Second))
			solo := w.soloApp()
			c14SoloPrep(w, ctx)
			var soloVault uint64
			for _, v := range w.app.VaultKeeper.GetVaults(ctx) {
				if v.AppId == solo {
					soloVault = v.Id
				}
			}
			if soloVault == 0 {
				t.Fatalf("cross-app world: vault of the second app missing")
			}
			for _, app := range []uint64{w.appVault, solo} {
				w.must(w.app.LiquidationKeeper.WasmWhitelistAppIDLiquidation(ctx, app), "whitelist gen-1 liquidation")
				w.app.AuctionKeeper.SetAuctionParams(ctx, auctiontypes.AuctionParams{AppId: app, AuctionDurationSeconds: 300, Buffer: c12Dec("1.2"), Cusp: c12Dec("0.6"),
					Step: sdk.NewInt(1), PriceFunctionType: 1, SurplusId: 1, DebtId: 2, DutchId: 3, BidDurationSeconds: 300})
				w.app.NewliqKeeper.SetLiquidationWhiteListing(ctx, liquidationsV2types.LiquidationWhiteListing{AppId: app, Initiator: true, IsDutchActivated: true,
					DutchAuctionParam:  &liquidationsV2types.DutchAuctionParam{Premium: c12Dec("0.1"), Discount: c12Dec("0.1"), DecrementFactor: sdk.NewInt(1)},
					IsEnglishActivated: true, EnglishAuctionParam: &liquidationsV2types.EnglishAuctionParam{DecrementFactor: sdk.NewInt(1)}, KeeeperIncentive: c12Dec("0.1")})
			}
			twa, _ := w.app.MarketKeeper.GetTwa(ctx, w.a1)
			twa.Twa = 200000
			twa.PriceValue = []uint64{200000}
			w.app.MarketKeeper.SetTwa(ctx, twa)
			appOf := map[string]uint64{"harbor": w.appVault, "solo": solo}
			if on != "none" {
				if ctl == "brk" {
					w.must(w.app.EsmKeeper.SetKillSwitchData(ctx, esmtypes.KillSwitchParams{AppId: appOf[on], BreakerEnable: true}), "breaker")
				} else {
					now := ctx.BlockTime()
					w.app.EsmKeeper.SetESMStatus(ctx, esmtypes.ESMStatus{AppId: appOf[on], Executor: w.B.String(), Status: true, StartTime: now.Add(-time.Hour), EndTime: now.Add(time.Hour)})
				}
			}
			scn := fmt.Sprintf("xapp/%s-on-%s", ctl, on)
			ctlName := ctl
			if on == "none" {
				ctlName = "none"
			}
			vaults := []struct {
				app string
				id  uint64
			}{{"harbor", w.vaultA}, {"solo", soloVault}}
			// --- sweeps over ALL apps
			sweeps := []struct {
				name string
				run  func(ctx sdk.Context)
			}{
				{"liquidation.LiquidateVaults", func(ctx sdk.Context) { _ = w.app.LiquidationKeeper.LiquidateVaults(ctx) }},
				{"liquidationsV2.BeginBlocker", func(ctx sdk.Context) { liquidationsV2.BeginBlocker(ctx, abci.RequestBeginBlock{}, w.app.NewliqKeeper) }},
			}
			for _, s := range sweeps {
				sctx, _ := ctx.CacheContext()
				before := map[uint64]string{}
				for _, v := range vaults {
					before[v.id] = w.vaultSig(sctx, v.id)
				}
				panicked, _ := try(func() { s.run(sctx) })
				for _, v := range vaults {
					touched := w.vaultSig(sctx, v.id) != before[v.id]
					out := "ok"
					if panicked {
						out = "panic"
					}
					tr.Line("grd.begin", s.name, scn)
					tr.Line("grd.xapp", "sweep", s.name, scn, ctlName, v.app, "-", c12b01(on == v.app), "0", out, c12b01(touched))
					tr.Count(fmt.Sprintf("xapp:sweep:%s:ctl=%v:touched=%v", s.name, on == v.app, touched))
				}
			}
			// --- messages naming every (app, vault) combination
			for _, named := range []string{"harbor", "solo"} {
				for _, v := range vaults {
					msgs := []struct {
						name string
						m    sdk.Msg
					}{{"liquidation.MsgLiquidateVault", &liquidationtypes.MsgLiquidateVaultRequest{From: w.B.String(), AppId: appOf[named], VaultId: v.id}}}
					if named == v.app { // the gen-2 message carries no app id: only the straight combination exists
						msgs = append(msgs, struct {
							name string
							m    sdk.Msg
						}{"liquidationsV2.MsgLiquidateInternalKeeper", &liquidationsV2types.MsgLiquidateInternalKeeperRequest{From: w.B.String(), LiqType: 0, Id: v.id}})
					}
					for _, mm := range msgs {
						mctx, _ := ctx.CacheContext()
						sig := w.vaultSig(mctx, v.id)
						r := w.deliver(mctx, w.dump(mctx), w.victimProj(mctx), mm.m)
						tx, _ := mctx.CacheContext()
						_ = tx
						touched := !r.parentEmpty
						_ = sig
						tr.Line("grd.begin", mm.name, scn)
						tr.Line("grd.xapp", "msg", mm.name, scn, ctlName, v.app, named, c12b01(on == v.app), c12b01(named != v.app), r.outcome, c12b01(touched))
						tr.Count(fmt.Sprintf("xapp:msg:%s:ctl=%v:crossed=%v:%s", mm.name, on == v.app, named != v.app, r.outcome))
					}
				}
			}
		}
	}
}
