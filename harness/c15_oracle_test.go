//go:build verif

package harness

// Per-item all-or-nothing oracle for the liquidation sweeps, independent of how the code is wrapped: after a real
// liquidation BeginBlocker every vault (borrow) of the pre-state is either untouched or fully liquidated —
//   vault:  stored vault deleted  ⇔  a new locked vault with that original id exists  (and then its auction exists)
//   borrow: IsLiquidated set      ⇔  a new locked vault for that borrow exists         (and then its auction exists)
// anything in between is a half-applied step.

import (
	"strconv"
	"strings"

	sdk "github.com/cosmos/cosmos-sdk/types"

	liqv1types "github.com/comdex-official/comdex/x/liquidation/types"
	liqv2types "github.com/comdex-official/comdex/x/liquidationsV2/types"
)

type c15Half struct {
	vault, borrow   int
	detail          []string
	itemsV, itemsB  int
	topUnits        int
	vaultW, borrowW bool
}

func c15SliceLen(n, off, batch int) int {
	s, e := liqv2types.GetSliceStartEndForLiquidations(n, off, batch)
	if s == e {
		s, e = liqv2types.GetSliceStartEndForLiquidations(n, 0, batch)
	}
	if e < s {
		return 0
	}
	return e - s
}

func (w *c15World) halfApplied(pre sdk.Context, r c15Result, gen int) c15Half {
	post := r.ctx
	var h c15Half
	for _, u := range r.units {
		if u.parent == 0 {
			h.topUnits++
		}
	}
	preVaults := w.app.VaultKeeper.GetVaults(pre)
	postVault := map[uint64]bool{}
	for _, v := range w.app.VaultKeeper.GetVaults(post) {
		postVault[v.Id] = true
	}
	borrowIDs, _ := w.app.LendKeeper.GetBorrows(pre)
	type lk struct {
		id     uint64
		isLend bool
	}
	newLocked := map[lk]uint64{} // (original id, kind) -> locked vault id
	auctionFor := map[uint64]bool{}
	if gen == 1 {
		preMax := w.app.LiquidationKeeper.GetLockedVaultID(pre)
		for _, l := range w.app.LiquidationKeeper.GetLockedVaults(post) {
			if l.LockedVaultId > preMax {
				newLocked[lk{l.OriginalVaultId, l.GetBorrowMetaData() != nil}] = l.LockedVaultId
			}
		}
		apps, _ := w.app.AssetKeeper.GetApps(post)
		for _, a := range apps {
			for _, au := range w.app.AuctionKeeper.GetDutchAuctions(post, a.Id) {
				auctionFor[au.LockedVaultId] = true
			}
			for _, au := range w.app.AuctionKeeper.GetDutchLendAuctions(post, a.Id) {
				auctionFor[au.LockedVaultId] = true
			}
		}
		_, counter, batch, offs := w.sweepParams(pre, 1)
		for _, o := range offs {
			h.itemsV += c15SliceLen(int(counter), int(o), int(batch))
		}
		hb, _ := w.app.LiquidationKeeper.GetLiquidationOffsetHolder(pre, 3, liqv1types.VaultLiquidationsOffsetPrefix)
		h.itemsB = c15SliceLen(len(borrowIDs), int(hb.CurrentOffset), int(batch))
	} else {
		preMax := w.app.NewliqKeeper.GetLockedVaultID(pre)
		for _, l := range w.app.NewliqKeeper.GetLockedVaults(post) {
			if l.LockedVaultId > preMax && (l.InitiatorType == "vault" || l.InitiatorType == "lend") {
				newLocked[lk{l.OriginalVaultId, l.InitiatorType == "lend"}] = l.LockedVaultId
			}
		}
		for _, au := range w.app.NewaucKeeper.GetAuctions(post) {
			auctionFor[au.LockedVaultId] = true
		}
		_, counter, batch, offs := w.sweepParams(pre, 2)
		h.itemsV = c15SliceLen(int(counter), int(offs[0]), int(batch))
		hb, _ := w.app.NewliqKeeper.GetLiquidationOffsetHolder(pre, liqv2types.VaultLiquidationsOffsetPrefix, 1)
		h.itemsB = c15SliceLen(len(borrowIDs), int(hb.CurrentOffset), int(batch))
	}
	h.vaultW = h.topUnits >= h.itemsV
	h.borrowW = h.topUnits >= h.itemsV+h.itemsB
	for _, v := range preVaults {
		lid, locked := newLocked[lk{v.Id, false}]
		deleted := !postVault[v.Id]
		if deleted != locked || (locked && !auctionFor[lid]) {
			h.vault++
			h.detail = append(h.detail, "vault"+strconv.FormatUint(v.Id, 10)+":deleted="+c15B(deleted)+",locked="+c15B(locked)+",auction="+c15B(auctionFor[lid]))
		}
	}
	for _, id := range borrowIDs {
		b0, _ := w.app.LendKeeper.GetBorrow(pre, id)
		if b0.IsLiquidated {
			continue
		}
		b1, found := w.app.LendKeeper.GetBorrow(post, id)
		lid, locked := newLocked[lk{id, true}]
		flagged := found && b1.IsLiquidated
		if flagged != locked || (locked && !auctionFor[lid]) {
			h.borrow++
			h.detail = append(h.detail, "borrow"+strconv.FormatUint(id, 10)+":flagged="+c15B(flagged)+",locked="+c15B(locked)+",auction="+c15B(auctionFor[lid]))
		}
	}
	return h
}

func (w *c15World) postLine(scen string, pre sdk.Context, blk c15Blocker, reach string, r c15Result, gen int) {
	if !r.returned {
		return
	}
	h := w.halfApplied(pre, r, gen)
	w.tr.Line("hooks.post.single", scen, blk.name, reach, "ok", c15B(h.vaultW), strconv.Itoa(h.vault), c15B(h.borrowW), strconv.Itoa(h.borrow),
		strconv.Itoa(h.itemsV), strconv.Itoa(h.itemsB), strconv.Itoa(h.topUnits), strings.Join(h.detail, ";"))
	if h.vault+h.borrow > 0 {
		w.tr.Count("post:half-applied")
	} else {
		w.tr.Count("post:all-or-nothing")
	}
}
