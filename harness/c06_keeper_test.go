//go:build verif

package harness

// C06, keeper level (TestC06Keeper): the REAL x/liquidity keeper executes deposit and withdraw requests — through the
// message router (MsgDeposit / MsgWithdraw queued for the end-block batch, MsgDepositAndFarm / MsgUnfarmAndWithdraw
// executed inside the message) and the real Begin/EndBlocker — on several apps / pairs / basic and ranged pools, with
// the app's WithdrawFeeRate set through the real governance proposal handler (UpdateGenericParams).  Every line
// prints what REALLY happened (request records, reserve balances, pool coin supply, balance deltas of the LP wallets,
// of GlobalEscrow and of the module account); the Lean driver (lean/Comdex/Drv/PoolKeeper.lean) replays the model
// `Model/PoolKeeper.lean`, compares, and evaluates the fairness laws of C06 on the real values.

import (
	"encoding/binary"
	"fmt"
	"sort"
	"strconv"
	"strings"
	"testing"
	"time"

	sdkmath "cosmossdk.io/math"
	tmproto "github.com/cometbft/cometbft/proto/tendermint/types"
	sdk "github.com/cosmos/cosmos-sdk/types"
	banktypes "github.com/cosmos/cosmos-sdk/x/bank/types"

	chain "github.com/comdex-official/comdex/app"
	assettypes "github.com/comdex-official/comdex/x/asset/types"
	"github.com/comdex-official/comdex/x/liquidity"
	"github.com/comdex-official/comdex/x/liquidity/amm"
	liqkeeper "github.com/comdex-official/comdex/x/liquidity/keeper"
	liqtypes "github.com/comdex-official/comdex/x/liquidity/types"
)

const c06kT0 = int64(1700000000)

type c06kPool struct {
	app, id, pair uint64
	q, b          string // quote / base denom
	ranged        bool
}

type c06kEnv struct {
	t       *testing.T
	tr      *Trace
	rng     *Rng
	app     *chain.App
	ctx     sdk.Context
	k       liqkeeper.Keeper
	apps    []uint64
	lps     []sdk.AccAddress
	lidx    map[string]int
	traders []sdk.AccAddress
	sink    sdk.AccAddress
	coins   []string
	cidx    map[string]int
	appCoin map[uint64][]string
	height  int64
	now     int64
	pools   []*c06kPool
	msgs    int
	oks     int
}

func c06kAddr(n int) sdk.AccAddress {
	a := make(sdk.AccAddress, 20)
	binary.PutVarint(a, int64(n+7000))
	return a
}

func c06kb(b bool) string {
	if b {
		return "1"
	}
	return "0"
}

var c06kE40 = sdkmath.NewIntFromBigInt(amm.MaxCoinAmount.BigInt())

func c06kNewEnv(t *testing.T, tr *Trace, rng *Rng, label string) *c06kEnv {
	e := &c06kEnv{t: t, tr: tr, rng: rng, lidx: map[string]int{}, cidx: map[string]int{}, appCoin: map[uint64][]string{}}
	e.app = chain.Setup(t, false)
	e.height = 1
	e.now = c06kT0
	e.ctx = e.app.BaseApp.NewContext(false, tmproto.Header{Height: e.height, Time: time.Unix(e.now, 0).UTC()})
	e.k = e.app.LiquidityKeeper
	for i := 1; i <= 2; i++ {
		name := "app" + alphaName(i)
		if err := e.app.AssetKeeper.AddAppRecords(e.ctx, assettypes.AppData{
			Name: strings.ToLower(name), ShortName: strings.ToLower(name), MinGovDeposit: sdkmath.NewInt(0), GovTimeInSeconds: 0,
			GenesisToken: []assettypes.MintGenesisToken{},
		}); err != nil {
			t.Fatal(err)
		}
	}
	apps, _ := e.app.AssetKeeper.GetApps(e.ctx)
	for _, a := range apps {
		e.apps = append(e.apps, a.Id)
	}
	if len(e.apps) != 2 {
		t.Fatalf("apps: %v", e.apps)
	}
	// the two apps trade disjoint coins, so that every balance delta of an end block belongs to exactly one app
	e.coins = []string{"ucmdx", "ucoina", "ucoinb", "ucoinc", "ucoind", "ucoine", "ucoinf"}
	for i, d := range e.coins {
		e.cidx[d] = i
		if err := e.app.AssetKeeper.AddAssetRecords(e.ctx, assettypes.Asset{
			Name: "K" + alphaName(i), Denom: d, Decimals: sdkmath.NewInt(1000000), IsOnChain: true, IsOraclePriceRequired: false,
		}); err != nil {
			t.Fatal(err)
		}
	}
	e.appCoin[e.apps[0]] = e.coins[1:4]
	e.appCoin[e.apps[1]] = e.coins[4:7]
	for _, a := range e.apps {
		if _, err := e.k.GetGenericParams(e.ctx, a); err != nil {
			t.Fatal(err)
		}
	}
	fund := func(addr sdk.AccAddress, denom string, amt sdkmath.Int) {
		c := sdk.NewCoins(sdk.NewCoin(denom, amt))
		if err := e.app.BankKeeper.MintCoins(e.ctx, liqtypes.ModuleName, c); err != nil {
			t.Fatal(err)
		}
		if err := e.app.BankKeeper.SendCoinsFromModuleToAccount(e.ctx, liqtypes.ModuleName, addr, c); err != nil {
			t.Fatal(err)
		}
	}
	for i := 0; i < 6; i++ {
		a := c06kAddr(i)
		e.lps = append(e.lps, a)
		e.lidx[a.String()] = i
		for ci, d := range e.coins {
			switch {
			case ci == 0:
				fund(a, d, sdkmath.NewInt(100_000_000_000))
			case i == 5: // a whale: offers at the module bound 10^40
				fund(a, d, c06kE40.MulRaw(10))
			case i == 4: // a poor account: insufficient-funds branches
				fund(a, d, sdkmath.NewInt(int64(100_000+rng.Intn(5_000_000))))
			default:
				fund(a, d, sdkmath.NewInt(1_000_000_000_000).MulRaw(int64(1+rng.Intn(1000))))
			}
		}
	}
	for i := 0; i < 2; i++ {
		a := c06kAddr(100 + i)
		e.traders = append(e.traders, a)
		for _, d := range e.coins {
			fund(a, d, sdkmath.NewInt(1_000_000_000_000_000_000))
		}
	}
	e.sink = c06kAddr(200)
	tr.Line("pkeep.begin", label)
	return e
}

func (e *c06kEnv) dcode(denom string) string {
	if i, ok := e.cidx[denom]; ok {
		return "c" + strconv.Itoa(i)
	}
	if a, p, err := liqtypes.ParsePoolCoinDenom(denom); err == nil {
		return fmt.Sprintf("p%d.%d", a, p)
	}
	return "x" + denom
}

func (e *c06kEnv) deliver(msg sdk.Msg) string {
	e.msgs++
	if err := msg.ValidateBasic(); err != nil {
		return "err"
	}
	h := e.app.MsgServiceRouter().Handler(msg)
	if h == nil {
		e.t.Fatalf("no handler for %T", msg)
	}
	cctx, write := e.ctx.CacheContext()
	var err error
	panicked, _ := try(func() { _, err = h(cctx, msg) })
	if panicked {
		return "panic"
	}
	if err != nil {
		if envInt("C06K_DEBUG", 0) == 1 {
			fmt.Printf("DEBUG %T: %v\n", msg, err)
		}
		return "err"
	}
	write()
	e.oks++
	return "ok"
}

// ---------------------------------------------------------------------------------------------------------
// projections of the real state
// ---------------------------------------------------------------------------------------------------------

type c06kSnap struct {
	rx, ry, ps sdkmath.Int
	disabled   bool
}

func (e *c06kEnv) snapPool(p *c06kPool) c06kSnap {
	pl, found := e.k.GetPool(e.ctx, p.app, p.id)
	if !found {
		e.t.Fatalf("pool %d/%d vanished", p.app, p.id)
	}
	rx, ry := e.k.GetPoolBalances(e.ctx, pl)
	return c06kSnap{rx.Amount, ry.Amount, e.k.GetPoolCoinSupply(e.ctx, pl), pl.Disabled}
}

func (e *c06kEnv) appPools(app uint64) []*c06kPool {
	var ps []*c06kPool
	for _, p := range e.pools {
		if p.app == app {
			ps = append(ps, p)
		}
	}
	return ps
}

func (e *c06kEnv) snapString(p *c06kPool, s c06kSnap) string {
	return fmt.Sprintf("%d:%s:%s:%s:%s", p.id, s.rx, s.ry, s.ps, c06kb(s.disabled))
}

func (e *c06kEnv) postString(app uint64) string {
	var ss []string
	for _, p := range e.appPools(app) {
		ss = append(ss, e.snapString(p, e.snapPool(p)))
	}
	return strings.Join(ss, ",")
}

// denoms of an app: its coins and the pool coins of its pools
func (e *c06kEnv) appDenoms(app uint64) []string {
	ds := append([]string{}, e.appCoin[app]...)
	for _, p := range e.appPools(app) {
		ds = append(ds, liqtypes.PoolCoinDenom(p.app, p.id))
	}
	return ds
}

type c06kBal map[string]sdkmath.Int // "w:<lp>:<denom>" / "e:<denom>" / "m:<denom>"

func (e *c06kEnv) balances(app uint64) c06kBal {
	b := c06kBal{}
	mod := e.app.AccountKeeper.GetModuleAddress(liqtypes.ModuleName)
	for _, d := range e.appDenoms(app) {
		for i, a := range e.lps {
			b["w:"+strconv.Itoa(i)+":"+e.dcode(d)] = e.app.BankKeeper.GetBalance(e.ctx, a, d).Amount
		}
		b["e:"+e.dcode(d)] = e.app.BankKeeper.GetBalance(e.ctx, liqtypes.GlobalEscrowAddress, d).Amount
		b["m:"+e.dcode(d)] = e.app.BankKeeper.GetBalance(e.ctx, mod, d).Amount
	}
	return b
}

// deltas returns the fields wal= esc= mod= (sorted, zero deltas omitted)
func c06kDeltas(before, after c06kBal) []string {
	var wal, esc, mod []string
	keys := make([]string, 0, len(after))
	for k := range after {
		keys = append(keys, k)
	}
	sort.Strings(keys)
	for _, k := range keys {
		prev, ok := before[k]
		if !ok {
			prev = sdkmath.ZeroInt()
		}
		d := after[k].Sub(prev)
		if d.IsZero() {
			continue
		}
		switch k[0] {
		case 'w':
			wal = append(wal, k[2:]+":"+d.String())
		case 'e':
			esc = append(esc, k[2:]+":"+d.String())
		case 'm':
			mod = append(mod, k[2:]+":"+d.String())
		}
	}
	return []string{"wal=" + strings.Join(wal, ","), "esc=" + strings.Join(esc, ","), "mod=" + strings.Join(mod, ",")}
}

func (e *c06kEnv) lpOf(addr string) int {
	if i, ok := e.lidx[addr]; ok {
		return i
	}
	return 99
}

// ---------------------------------------------------------------------------------------------------------
// configuration and fixtures through the real paths
// ---------------------------------------------------------------------------------------------------------

// setFee submits WithdrawFeeRate := value to the real governance proposal handler of x/liquidity.
func (e *c06kEnv) setFee(app uint64, value string, batchSize string) {
	keys, vals := []string{"WithdrawFeeRate"}, []string{value}
	if batchSize != "" {
		keys, vals = append(keys, "BatchSize"), append(vals, batchSize)
	}
	prop := liqtypes.NewUpdateGenericParamsProposal("fee", "withdraw fee rate", app, keys, vals)
	cctx, write := e.ctx.CacheContext()
	outcome := "ok"
	var err error
	panicked, _ := try(func() { err = liquidity.NewLiquidityProposalHandler(e.k)(cctx, prop) })
	if panicked {
		outcome = "panic"
	} else if err != nil {
		outcome = "err"
	} else {
		write()
	}
	raw := "0"
	if d, err := sdkmath.LegacyNewDecFromStr(value); err == nil {
		raw = d.BigInt().String()
	} else {
		raw = "-1"
	}
	params, _ := e.k.GetGenericParams(e.ctx, app)
	e.tr.Count("setfee:" + outcome)
	e.tr.Line("pkeep.setfee", u(app), raw, outcome, params.WithdrawFeeRate.BigInt().String(), u(params.BatchSize))
}

func (e *c06kEnv) createPair(app uint64, base, quote string) uint64 {
	out := e.deliver(liqtypes.NewMsgCreatePair(app, e.lps[0], base, quote))
	if out != "ok" {
		e.t.Fatalf("create pair %s/%s: %s", base, quote, out)
	}
	return e.k.GetLastPairID(e.ctx, app)
}

func (e *c06kEnv) poolLine(p *c06kPool) {
	pl, _ := e.k.GetPool(e.ctx, p.app, p.id)
	s := e.snapPool(p)
	minP, maxP := "0", "0"
	if p.ranged {
		minP, maxP = pl.MinPrice.BigInt().String(), pl.MaxPrice.BigInt().String()
	}
	e.tr.Line("pkeep.pool", u(p.app), u(p.id), e.dcode(p.q), e.dcode(p.b), c06kb(p.ranged), minP, maxP,
		s.rx.String(), s.ry.String(), s.ps.String(), c06kb(s.disabled))
}

// createPool creates a basic (minP nil) or ranged pool through the routed message; returns nil if refused.
func (e *c06kEnv) createPool(app, pairID uint64, creator int, x, y sdkmath.Int, ranged bool, minP, maxP, initP sdkmath.LegacyDec) *c06kPool {
	pr, found := e.k.GetPair(e.ctx, app, pairID)
	if !found {
		e.t.Fatalf("pair %d", pairID)
	}
	coins := sdk.Coins{}
	if x.IsPositive() {
		coins = coins.Add(sdk.NewCoin(pr.QuoteCoinDenom, x))
	}
	if y.IsPositive() {
		coins = coins.Add(sdk.NewCoin(pr.BaseCoinDenom, y))
	}
	var msg sdk.Msg
	if ranged {
		msg = liqtypes.NewMsgCreateRangedPool(app, e.lps[creator], pairID, coins, minP, maxP, initP)
	} else {
		msg = liqtypes.NewMsgCreatePool(app, e.lps[creator], pairID, coins)
	}
	out := e.deliver(msg)
	e.tr.Count("createPool:" + out)
	if out != "ok" {
		return nil
	}
	p := &c06kPool{app: app, id: e.k.GetLastPoolID(e.ctx, app), pair: pairID, q: pr.QuoteCoinDenom, b: pr.BaseCoinDenom, ranged: ranged}
	e.pools = append(e.pools, p)
	if ranged {
		e.tr.Count("pool:ranged")
	} else {
		e.tr.Count("pool:basic")
	}
	e.poolLine(p)
	return p
}

// donate: anybody may send coins to a pool's reserve address (bank MsgSend through the router).
func (e *c06kEnv) donate(p *c06kPool, lp int, dx, dy sdkmath.Int) {
	pl, _ := e.k.GetPool(e.ctx, p.app, p.id)
	coins := sdk.Coins{}
	if dx.IsPositive() {
		coins = coins.Add(sdk.NewCoin(p.q, dx))
	}
	if dy.IsPositive() {
		coins = coins.Add(sdk.NewCoin(p.b, dy))
	}
	if coins.Empty() {
		return
	}
	out := e.deliver(banktypes.NewMsgSend(e.lps[lp], pl.GetReserveAddress(), coins))
	e.tr.Count("donate:" + out)
	s := e.snapPool(p)
	e.tr.Line("pkeep.ext", u(p.app), u(p.id), "donate", s.rx.String(), s.ry.String())
}

// drain is a FIXTURE action (no user can do it): coins are moved out of the reserve address directly through the bank
// keeper, to reach the depleted-pool branches of the request execution.
func (e *c06kEnv) drain(p *c06kPool, allX, allY bool) {
	pl, _ := e.k.GetPool(e.ctx, p.app, p.id)
	s := e.snapPool(p)
	coins := sdk.Coins{}
	if allX && s.rx.IsPositive() {
		coins = coins.Add(sdk.NewCoin(p.q, s.rx))
	}
	if allY && s.ry.IsPositive() {
		coins = coins.Add(sdk.NewCoin(p.b, s.ry))
	}
	if coins.Empty() {
		return
	}
	if err := e.app.BankKeeper.SendCoins(e.ctx, pl.GetReserveAddress(), e.sink, coins); err != nil {
		e.t.Fatal(err)
	}
	e.tr.Count("drain")
	s = e.snapPool(p)
	e.tr.Line("pkeep.ext", u(p.app), u(p.id), "drain", s.rx.String(), s.ry.String())
}

// ---------------------------------------------------------------------------------------------------------
// user messages
// ---------------------------------------------------------------------------------------------------------

func (e *c06kEnv) coinsXY(p *c06kPool, x, y sdkmath.Int) sdk.Coins {
	coins := sdk.Coins{}
	if x.IsPositive() {
		coins = coins.Add(sdk.NewCoin(p.q, x))
	}
	if y.IsPositive() {
		coins = coins.Add(sdk.NewCoin(p.b, y))
	}
	return coins
}

func (e *c06kEnv) bal(lp int, denom string) sdkmath.Int {
	return e.app.BankKeeper.GetBalance(e.ctx, e.lps[lp], denom).Amount
}

func (e *c06kEnv) msgDeposit(p *c06kPool, lp int, x, y sdkmath.Int) {
	bx, by := e.bal(lp, p.q), e.bal(lp, p.b)
	out := e.deliver(liqtypes.NewMsgDeposit(p.app, e.lps[lp], p.id, e.coinsXY(p, x, y)))
	rid := uint64(0)
	if out == "ok" {
		pl, _ := e.k.GetPool(e.ctx, p.app, p.id)
		rid = pl.LastDepositRequestId
	}
	e.tr.Count("dep:" + out)
	e.tr.Line("pkeep.dep", u(p.app), u(p.id), strconv.Itoa(lp), x.String(), y.String(), bx.String(), by.String(), out, u(rid))
}

func (e *c06kEnv) msgWithdraw(p *c06kPool, lp int, pc sdkmath.Int) {
	denom := liqtypes.PoolCoinDenom(p.app, p.id)
	bpc := e.bal(lp, denom)
	out := e.deliver(liqtypes.NewMsgWithdraw(p.app, e.lps[lp], p.id, sdk.Coin{Denom: denom, Amount: pc}))
	rid := uint64(0)
	if out == "ok" {
		pl, _ := e.k.GetPool(e.ctx, p.app, p.id)
		rid = pl.LastWithdrawRequestId
	}
	e.tr.Count("wdr:" + out)
	e.tr.Line("pkeep.wdr", u(p.app), u(p.id), strconv.Itoa(lp), pc.String(), bpc.String(), out, u(rid))
}

func (e *c06kEnv) depositAndFarm(p *c06kPool, lp int, x, y sdkmath.Int) {
	bx, by := e.bal(lp, p.q), e.bal(lp, p.b)
	before := e.balances(p.app)
	out := e.deliver(liqtypes.NewMsgDepositAndFarm(p.app, e.lps[lp], p.id, e.coinsXY(p, x, y)))
	after := e.balances(p.app)
	status, ax, ay, mint := 0, sdkmath.ZeroInt(), sdkmath.ZeroInt(), sdkmath.ZeroInt()
	if out == "ok" {
		pl, _ := e.k.GetPool(e.ctx, p.app, p.id)
		req, found := e.k.GetDepositRequest(e.ctx, p.app, p.id, pl.LastDepositRequestId)
		if !found {
			e.t.Fatal("deposit request of MsgDepositAndFarm not found")
		}
		status, ax, ay, mint = int(req.Status), req.AcceptedCoins.AmountOf(p.q), req.AcceptedCoins.AmountOf(p.b), req.MintedPoolCoin.Amount
	}
	s := e.snapPool(p)
	e.tr.Count("daf:" + out)
	f := []string{u(p.app), u(p.id), strconv.Itoa(lp), x.String(), y.String(), bx.String(), by.String(), out, strconv.Itoa(status),
		ax.String(), ay.String(), mint.String(), s.rx.String(), s.ry.String(), s.ps.String(), c06kb(s.disabled)}
	e.tr.Line("pkeep.daf", append(f, c06kDeltas(before, after)...)...)
}

func (e *c06kEnv) farmed(p *c06kPool, lp int) sdkmath.Int {
	tot := sdkmath.ZeroInt()
	if q, found := e.k.GetQueuedFarmer(e.ctx, p.app, p.id, e.lps[lp]); found {
		for _, c := range q.QueudCoins {
			tot = tot.Add(c.FarmedPoolCoin.Amount)
		}
	}
	if a, found := e.k.GetActiveFarmer(e.ctx, p.app, p.id, e.lps[lp]); found {
		tot = tot.Add(a.FarmedPoolCoin.Amount)
	}
	return tot
}

func (e *c06kEnv) unfarmAndWithdraw(p *c06kPool, lp int, pc sdkmath.Int) {
	farmed := e.farmed(p, lp)
	before := e.balances(p.app)
	out := e.deliver(liqtypes.NewMsgUnfarmAndWithdraw(p.app, p.id, e.lps[lp], sdk.Coin{Denom: liqtypes.PoolCoinDenom(p.app, p.id), Amount: pc}))
	after := e.balances(p.app)
	status, wx, wy := 0, sdkmath.ZeroInt(), sdkmath.ZeroInt()
	if out == "ok" {
		pl, _ := e.k.GetPool(e.ctx, p.app, p.id)
		req, found := e.k.GetWithdrawRequest(e.ctx, p.app, p.id, pl.LastWithdrawRequestId)
		if !found {
			e.t.Fatal("withdraw request of MsgUnfarmAndWithdraw not found")
		}
		status, wx, wy = int(req.Status), req.WithdrawnCoins.AmountOf(p.q), req.WithdrawnCoins.AmountOf(p.b)
		e.tr.Count("uaw:status" + strconv.Itoa(status))
	}
	s := e.snapPool(p)
	e.tr.Count("uaw:" + out)
	f := []string{u(p.app), u(p.id), strconv.Itoa(lp), pc.String(), farmed.String(), out, strconv.Itoa(status),
		wx.String(), wy.String(), s.rx.String(), s.ry.String(), s.ps.String(), c06kb(s.disabled)}
	e.tr.Line("pkeep.uaw", append(f, c06kDeltas(before, after)...)...)
}

// malformed sends one message that the keeper must refuse (validation branches of pool.go); the model's answer is "err".
func (e *c06kEnv) malformed(p *c06kPool, lp int) {
	other := e.apps[0]
	if p.app == other {
		other = e.apps[1]
	}
	foreign := e.appCoin[other][0] // a coin that is not of this pair
	pcd := liqtypes.PoolCoinDenom(p.app, p.id)
	one := sdkmath.NewInt(1000)
	kind := e.rng.Intn(23)
	var msg sdk.Msg
	params, _ := e.k.GetGenericParams(e.ctx, p.app)
	tp := int(params.TickPrecision)
	tick := func(s string) sdkmath.LegacyDec { return amm.PriceToDownTick(sdkmath.LegacyMustNewDecFromStr(s), tp) }
	big1 := sdkmath.NewInt(50_000_000)
	if kind == 16 { // a second basic pool on a pair that has an active one
		found := false
		for _, q := range e.appPools(p.app) {
			if q.pair == p.pair && !q.ranged && !e.snapPool(q).disabled {
				found = true
			}
		}
		if !found {
			kind = 13
		}
	}
	switch kind {
	case 12:
		msg = liqtypes.NewMsgCreatePool(99, e.lps[lp], p.pair, e.coinsXY(p, big1, big1))
	case 13:
		msg = liqtypes.NewMsgCreatePool(p.app, e.lps[lp], 9999, e.coinsXY(p, big1, big1))
	case 14:
		msg = liqtypes.NewMsgCreatePool(p.app, e.lps[lp], p.pair, sdk.NewCoins(sdk.NewCoin(foreign, big1), sdk.NewCoin(p.b, big1)))
	case 15:
		msg = liqtypes.NewMsgCreatePool(p.app, e.lps[lp], p.pair, e.coinsXY(p, sdkmath.NewInt(1), big1)) // below MinInitialDepositAmount
	case 16:
		msg = liqtypes.NewMsgCreatePool(p.app, e.lps[lp], p.pair, e.coinsXY(p, big1, big1))
	case 17:
		msg = liqtypes.NewMsgCreateRangedPool(p.app, e.lps[lp], p.pair, e.coinsXY(p, big1, big1),
			sdkmath.LegacyMustNewDecFromStr("1.234567"), tick("3"), tick("2")) // min price off the ticks
	case 18:
		msg = liqtypes.NewMsgCreateRangedPool(p.app, e.lps[lp], p.pair, sdk.NewCoins(sdk.NewCoin(foreign, big1), sdk.NewCoin(p.b, big1)), tick("1"), tick("3"), tick("2"))
	case 19:
		msg = liqtypes.NewMsgCreateRangedPool(p.app, e.lps[lp], p.pair, e.coinsXY(p, sdkmath.NewInt(1), sdkmath.NewInt(1)), tick("1"), tick("3"), tick("2")) // both accepted amounts below the minimum
	case 20:
		msg = liqtypes.NewMsgCreateRangedPool(99, e.lps[lp], p.pair, e.coinsXY(p, big1, big1), tick("1"), tick("3"), tick("2"))
	case 21:
		msg = liqtypes.NewMsgCreateRangedPool(p.app, e.lps[lp], 9999, e.coinsXY(p, big1, big1), tick("1"), tick("3"), tick("2"))
	case 22:
		msg = liqtypes.NewMsgCreateRangedPool(p.app, e.lps[lp], p.pair, e.coinsXY(p, big1, big1),
			sdkmath.LegacyNewDecWithPrec(1, 15), tick("3"), tick("2")) // min price below the lowest tick
	case 0:
		msg = liqtypes.NewMsgDeposit(99, e.lps[lp], p.id, e.coinsXY(p, one, one)) // unknown app
	case 1:
		msg = liqtypes.NewMsgDeposit(p.app, e.lps[lp], 9999, e.coinsXY(p, one, one)) // unknown pool
	case 2:
		msg = liqtypes.NewMsgDeposit(p.app, e.lps[lp], p.id, sdk.NewCoins(sdk.NewCoin(foreign, one), sdk.NewCoin(p.b, one))) // coin not of the pair
	case 3:
		msg = liqtypes.NewMsgWithdraw(99, e.lps[lp], p.id, sdk.NewCoin(pcd, one))
	case 4:
		msg = liqtypes.NewMsgWithdraw(p.app, e.lps[lp], 9999, sdk.NewCoin(pcd, one))
	case 5:
		msg = liqtypes.NewMsgWithdraw(p.app, e.lps[lp], p.id, sdk.NewCoin(p.q, one)) // not the pool coin
	case 6:
		msg = liqtypes.NewMsgDepositAndFarm(99, e.lps[lp], p.id, e.coinsXY(p, one, one))
	case 7:
		msg = liqtypes.NewMsgDepositAndFarm(p.app, e.lps[lp], 9999, e.coinsXY(p, one, one))
	case 8:
		msg = liqtypes.NewMsgDepositAndFarm(p.app, e.lps[lp], p.id, sdk.NewCoins(sdk.NewCoin(foreign, one), sdk.NewCoin(p.b, one)))
	case 9:
		msg = liqtypes.NewMsgUnfarmAndWithdraw(99, p.id, e.lps[lp], sdk.NewCoin(pcd, one))
	case 10:
		msg = liqtypes.NewMsgUnfarmAndWithdraw(p.app, 9999, e.lps[lp], sdk.NewCoin(pcd, one))
	default:
		msg = liqtypes.NewMsgUnfarmAndWithdraw(p.app, p.id, e.lps[lp], sdk.NewCoin(p.q, one))
	}
	out := e.deliver(msg)
	e.tr.Count("bad:" + out)
	e.tr.Line("pkeep.bad", strconv.Itoa(kind), out)
}

// farm: plain MsgFarm (moves pool coin wallet → module account; no pool state involved, not a trace line)
func (e *c06kEnv) farm(p *c06kPool, lp int, pc sdkmath.Int) {
	out := e.deliver(liqtypes.NewMsgFarm(p.app, p.id, e.lps[lp], sdk.NewCoin(liqtypes.PoolCoinDenom(p.app, p.id), pc)))
	e.tr.Count("farm:" + out)
}

// order: a trader's limit order against the pair (moves the pools' reserves at the next batch)
func (e *c06kEnv) order(p *c06kPool, buy bool, pct int) {
	pr, _ := e.k.GetPair(e.ctx, p.app, p.pair)
	params, _ := e.k.GetGenericParams(e.ctx, p.app)
	tp := int(params.TickPrecision)
	s := e.snapPool(p)
	if s.disabled || s.ps.IsZero() {
		return
	}
	pl, _ := e.k.GetPool(e.ctx, p.app, p.id)
	var price sdkmath.LegacyDec
	if panicked, _ := try(func() { price = pl.AMMPool(s.rx, s.ry, s.ps).Price() }); panicked {
		return
	}
	lo, hi := amm.LowestTick(tp), amm.HighestTick(tp)
	if pr.LastPrice != nil {
		lo, hi = liqtypes.PriceLimits(*pr.LastPrice, params.MaxPriceLimitRatio, tp)
	}
	var msg sdk.Msg
	if buy {
		pp := amm.PriceToDownTick(price.MulInt64(105).QuoInt64(100), tp)
		if pp.GT(hi) {
			pp = hi
		}
		if pp.LT(lo) {
			pp = lo
		}
		amt := s.ry.MulRaw(int64(pct)).QuoRaw(100).AddRaw(100)
		offer := pp.MulInt(amt).Ceil().TruncateInt()
		offer = offer.Add(offer.ToLegacyDec().Mul(params.SwapFeeRate).Ceil().TruncateInt()).AddRaw(2) // + swap fee
		msg = liqtypes.NewMsgLimitOrder(p.app, e.traders[0], p.pair, liqtypes.OrderDirectionBuy, sdk.NewCoin(p.q, offer), p.b, pp, amt, 0)
	} else {
		pp := amm.PriceToUpTick(price.MulInt64(95).QuoInt64(100), tp)
		if pp.GT(hi) {
			pp = hi
		}
		if pp.LT(lo) {
			pp = lo
		}
		amt := s.ry.MulRaw(int64(pct)).QuoRaw(100).AddRaw(100)
		offer := amt.Add(amt.ToLegacyDec().Mul(params.SwapFeeRate).Ceil().TruncateInt()).AddRaw(2)
		msg = liqtypes.NewMsgLimitOrder(p.app, e.traders[1], p.pair, liqtypes.OrderDirectionSell, sdk.NewCoin(p.b, offer), p.q, pp, amt, 0)
	}
	out := e.deliver(msg)
	e.tr.Count("order:" + out)
}

// ---------------------------------------------------------------------------------------------------------
// blocks
// ---------------------------------------------------------------------------------------------------------

type c06kPend struct {
	dep  []liqtypes.DepositRequest
	wdr  []liqtypes.WithdrawRequest
	pre  map[uint64]c06kSnap
	bal  c06kBal
	ords map[uint64]bool // pair → there are order records
	fee  sdkmath.LegacyDec
}

// endBlock runs the REAL EndBlocker (all apps) and writes one pkeep.eb line per app.
func (e *c06kEnv) endBlock() {
	pend := map[uint64]*c06kPend{}
	for _, a := range e.apps {
		pd := &c06kPend{pre: map[uint64]c06kSnap{}}
		for _, r := range e.k.GetAllDepositRequests(e.ctx, a) {
			if r.Status == liqtypes.RequestStatusNotExecuted {
				pd.dep = append(pd.dep, r)
			}
		}
		for _, r := range e.k.GetAllWithdrawRequests(e.ctx, a) {
			if r.Status == liqtypes.RequestStatusNotExecuted {
				pd.wdr = append(pd.wdr, r)
			}
		}
		for _, p := range e.appPools(a) {
			pd.pre[p.id] = e.snapPool(p)
		}
		pd.bal = e.balances(a)
		pd.ords = map[uint64]bool{}
		for _, o := range e.k.GetAllOrders(e.ctx, a) {
			pd.ords[o.PairId] = true
		}
		params, _ := e.k.GetGenericParams(e.ctx, a)
		pd.fee = params.WithdrawFeeRate
		pend[a] = pd
	}
	liquidity.EndBlocker(e.ctx, e.k, e.app.AssetKeeper)
	for _, a := range e.apps {
		pd := pend[a]
		poolOf := map[uint64]*c06kPool{}
		for _, p := range e.appPools(a) {
			poolOf[p.id] = p
		}
		// the records afterwards; Σ accepted − Σ withdrawn per pool
		net := map[uint64][2]sdkmath.Int{}
		add := func(pool uint64, q, b sdkmath.Int) {
			v, ok := net[pool]
			if !ok {
				v = [2]sdkmath.Int{sdkmath.ZeroInt(), sdkmath.ZeroInt()}
			}
			net[pool] = [2]sdkmath.Int{v[0].Add(q), v[1].Add(b)}
		}
		var deps, wdrs []string
		executed, pending := 0, 0
		for _, r0 := range pd.dep {
			p := poolOf[r0.PoolId]
			r, found := e.k.GetDepositRequest(e.ctx, a, r0.PoolId, r0.Id)
			if !found || p == nil {
				e.t.Fatalf("deposit request %d/%d/%d vanished", a, r0.PoolId, r0.Id)
			}
			ax, ay := r.AcceptedCoins.AmountOf(p.q), r.AcceptedCoins.AmountOf(p.b)
			deps = append(deps, fmt.Sprintf("%d:%d:%d:%s:%s:%d:%s:%s:%s", r.PoolId, r.Id, e.lpOf(r.Depositor),
				r.DepositCoins.AmountOf(p.q), r.DepositCoins.AmountOf(p.b), int(r.Status), ax, ay, r.MintedPoolCoin.Amount))
			add(r.PoolId, ax, ay)
			switch r.Status {
			case liqtypes.RequestStatusSucceeded:
				e.tr.Count("eb:dep:succeeded")
				if ax.LT(r.DepositCoins.AmountOf(p.q)) {
					e.tr.Count("eb:dep:refund_x") // base side binding
				}
				if ay.LT(r.DepositCoins.AmountOf(p.b)) {
					e.tr.Count("eb:dep:refund_y") // quote side binding
				}
				if p.ranged {
					e.tr.Count("eb:dep:succeeded:ranged")
				}
				executed++
			case liqtypes.RequestStatusFailed:
				e.tr.Count("eb:dep:failed")
				executed++
			default:
				pending++
			}
		}
		for _, r0 := range pd.wdr {
			p := poolOf[r0.PoolId]
			r, found := e.k.GetWithdrawRequest(e.ctx, a, r0.PoolId, r0.Id)
			if !found || p == nil {
				e.t.Fatalf("withdraw request %d/%d/%d vanished", a, r0.PoolId, r0.Id)
			}
			wx, wy := r.WithdrawnCoins.AmountOf(p.q), r.WithdrawnCoins.AmountOf(p.b)
			wdrs = append(wdrs, fmt.Sprintf("%d:%d:%d:%s:%d:%s:%s", r.PoolId, r.Id, e.lpOf(r.Withdrawer), r.PoolCoin.Amount, int(r.Status), wx, wy))
			add(r.PoolId, wx.Neg(), wy.Neg())
			switch r.Status {
			case liqtypes.RequestStatusSucceeded:
				e.tr.Count("eb:wdr:succeeded")
				if pd.fee.IsPositive() {
					e.tr.Count("eb:wdr:succeeded:fee>0")
				}
				if p.ranged {
					e.tr.Count("eb:wdr:succeeded:ranged")
				}
				executed++
			case liqtypes.RequestStatusFailed:
				e.tr.Count("eb:wdr:failed")
				executed++
			default:
				pending++
			}
		}
		var mid, post []string
		for _, p := range e.appPools(a) {
			s := e.snapPool(p)
			post = append(post, e.snapString(p, s))
			pre := pd.pre[p.id]
			mx, my := s.rx, s.ry
			if v, ok := net[p.id]; ok {
				mx, my = mx.Sub(v[0]), my.Sub(v[1])
			}
			// may the matching have moved this pool's reserves? (orders on the pair, or sibling pools trading with each other)
			active := 0
			for _, q := range e.appPools(a) {
				if q.pair == p.pair && !pd.pre[q.id].disabled {
					active++
				}
			}
			matched := pd.ords[p.pair] || active > 1
			mid = append(mid, fmt.Sprintf("%d:%s:%s:%s:%s:%s", p.id, mx, my, pre.ps, c06kb(pre.disabled), c06kb(matched)))
			if matched {
				e.tr.Count("eb:pool:matching_possible")
			} else {
				e.tr.Count("eb:pool:no_matching")
			}
			if !pre.disabled && s.disabled {
				e.tr.Count("eb:pool_disabled")
			}
			if !mx.Equal(pre.rx) || !my.Equal(pre.ry) {
				e.tr.Count("eb:swap_moved_reserves")
			}
		}
		switch {
		case executed > 0 && pending > 0:
			e.tr.Count("eb:mixed_statuses")
		case executed > 0:
			e.tr.Count("eb:executed")
		case pending > 0:
			e.tr.Count("eb:not_executed") // not a batch height, or the app's batch was rolled back
		default:
			e.tr.Count("eb:empty")
		}
		f := []string{u(a), i64(e.height), pd.fee.BigInt().String(), c06kb(len(pd.ords) > 0),
			"mid=" + strings.Join(mid, ","), "deps=" + strings.Join(deps, ","), "wdrs=" + strings.Join(wdrs, ","), "post=" + strings.Join(post, ",")}
		e.tr.Line("pkeep.eb", append(f, c06kDeltas(pd.bal, e.balances(a))...)...)
	}
}

func (e *c06kEnv) nextBlock(dt int64) {
	e.endBlock()
	h := e.height + 1
	if h%150 == 0 { // the swap-fee conversion of BeginBlocker (every 150th block) is not part of this property
		h++
	}
	e.height, e.now = h, e.now+dt
	e.ctx = e.ctx.WithBlockHeight(h).WithBlockTime(time.Unix(e.now, 0).UTC())
	liquidity.BeginBlocker(e.ctx, e.k, e.app.AssetKeeper)
	for _, a := range e.apps {
		e.tr.Line("pkeep.state", u(a), "post="+e.postString(a))
	}
}

// ---------------------------------------------------------------------------------------------------------
// generators
// ---------------------------------------------------------------------------------------------------------

func (e *c06kEnv) setupMarkets(fees []string) {
	for ai, a := range e.apps {
		cs := e.appCoin[a]
		fee := fees[e.rng.Intn(len(fees))]
		batch := ""
		if ai == 1 && e.rng.Chance(30) {
			batch = "2"
		}
		e.setFee(a, fee, batch)
		np := 1
		if e.rng.Chance(70) {
			np = 2
		}
		menu := [][2]string{{cs[0], cs[1]}, {cs[1], cs[2]}, {cs[0], cs[2]}}
		for i := 0; i < np; i++ {
			pairID := e.createPair(a, menu[i][0], menu[i][1])
			params, _ := e.k.GetGenericParams(e.ctx, a)
			tp := int(params.TickPrecision)
			y := sdkmath.NewInt(int64(1_000_000 + e.rng.Intn(2_000_000_000)))
			ratio := int64(20 + e.rng.Intn(400)) // price 0.2 … 4.2
			if e.rng.Chance(15) {
				y = sdkmath.NewInt(int64(1_000_000 + e.rng.Intn(2_000_000))) // coarse pool: roundings matter
			}
			x := y.MulRaw(ratio).QuoRaw(100)
			// the app's second pair has ONE pool (basic or ranged): nothing but user orders can move its reserves
			single := i == 1
			nr := e.rng.Intn(3)
			if !single || e.rng.Chance(50) {
				e.createPool(a, pairID, e.rng.Intn(4), x, y, false, sdkmath.LegacyDec{}, sdkmath.LegacyDec{}, sdkmath.LegacyDec{})
				if single {
					nr = 0
				}
			} else {
				nr = 1
			}
			for j := 0; j < nr; j++ {
				p := sdkmath.LegacyNewDec(ratio).QuoInt64(100)
				initP := amm.PriceToDownTick(p, tp)
				minP := amm.PriceToDownTick(p.MulInt64(int64(50+e.rng.Intn(45))).QuoInt64(100), tp)
				maxP := amm.PriceToDownTick(p.MulInt64(int64(105+e.rng.Intn(100))).QuoInt64(100), tp)
				switch e.rng.Intn(5) {
				case 0:
					initP = minP // only the base coin: the pool sits on the lower edge of its range
					e.tr.Count("pool:ranged:at_min")
				case 1:
					initP = maxP // only the quote coin: upper edge
					e.tr.Count("pool:ranged:at_max")
				}
				ry := sdkmath.NewInt(int64(1_000_000 + e.rng.Intn(500_000_000)))
				e.createPool(a, pairID, e.rng.Intn(4), ry.MulRaw(ratio).QuoRaw(100), ry, true, minP, maxP, initP)
			}
		}
	}
}

func (e *c06kEnv) pickPool() *c06kPool {
	if len(e.pools) == 0 {
		return nil
	}
	return e.pools[e.rng.Intn(len(e.pools))]
}

func (e *c06kEnv) amount() sdkmath.Int {
	switch e.rng.Intn(6) {
	case 0:
		return sdkmath.NewInt(int64(1 + e.rng.Intn(50)))
	case 1:
		return sdkmath.NewInt(int64(1 + e.rng.Intn(100_000)))
	default:
		return sdkmath.NewInt(int64(1 + e.rng.Intn(1_000_000_000)))
	}
}

// depositAmounts: boundary-directed offers against the pool's current reserves
func (e *c06kEnv) depositAmounts(p *c06kPool) (x, y sdkmath.Int) {
	s := e.snapPool(p)
	x, y = e.amount(), e.amount()
	one := sdkmath.OneInt()
	switch k := e.rng.Intn(16); {
	case k < 6 && s.ry.IsPositive() && s.rx.IsPositive(): // proportional ± 1: either side may bind
		x = s.rx.Mul(y).Quo(s.ry).AddRaw(int64(e.rng.Intn(3)) - 1)
	case k < 8 && s.ry.IsPositive() && s.rx.IsPositive(): // the offer that mints exactly k pool coins, and its neighbours
		n := sdkmath.NewInt(int64(1 + e.rng.Intn(1000)))
		if s.ps.IsPositive() {
			x = s.rx.Mul(n).Add(s.ps).Sub(one).Quo(s.ps).AddRaw(int64(e.rng.Intn(3)) - 1)
			y = s.ry.Mul(n).Add(s.ps).Sub(one).Quo(s.ps).AddRaw(int64(e.rng.Intn(3)) - 1)
		}
	case k == 8: // quote side three times too large: the base side binds
		if s.ry.IsPositive() {
			x = s.rx.Mul(y).Quo(s.ry).MulRaw(3).AddRaw(1)
		}
	case k == 9: // base side too large
		if s.rx.IsPositive() {
			y = s.ry.Mul(x).Quo(s.rx).MulRaw(3).AddRaw(1)
		}
	case k == 10:
		x = sdkmath.ZeroInt() // one coin only
	case k == 11:
		y = sdkmath.ZeroInt()
	case k == 12:
		x, y = one, one // mints nothing: the request fails
	}
	if x.IsNegative() {
		x = sdkmath.ZeroInt()
	}
	if y.IsNegative() {
		y = sdkmath.ZeroInt()
	}
	if x.IsZero() && y.IsZero() {
		y = one
	}
	return
}

func (e *c06kEnv) withdrawAmount(p *c06kPool, have sdkmath.Int) sdkmath.Int {
	s := e.snapPool(p)
	switch e.rng.Intn(10) {
	case 0:
		return have // everything the account holds
	case 1:
		if have.GT(sdkmath.OneInt()) {
			return have.SubRaw(1) // all but dust
		}
		return have
	case 2:
		return sdkmath.OneInt() // dust: pays zero of both coins ⇒ fails
	case 3:
		return have.AddRaw(1) // more than held: the message is refused
	case 4:
		if s.ps.IsPositive() && s.rx.IsPositive() { // the smallest amount that pays one unit of the quote coin
			return s.ps.Add(s.rx).SubRaw(1).Quo(s.rx).AddRaw(int64(e.rng.Intn(2)))
		}
	}
	if !have.IsPositive() {
		return sdkmath.OneInt()
	}
	return have.MulRaw(int64(1 + e.rng.Intn(99))).QuoRaw(100).AddRaw(1)
}

func (e *c06kEnv) holderOf(p *c06kPool) (int, sdkmath.Int, bool) {
	denom := liqtypes.PoolCoinDenom(p.app, p.id)
	off := e.rng.Intn(len(e.lps))
	for i := range e.lps {
		lp := (i + off) % len(e.lps)
		if b := e.bal(lp, denom); b.IsPositive() {
			return lp, b, true
		}
	}
	return 0, sdkmath.ZeroInt(), false
}

func (e *c06kEnv) farmerOf(p *c06kPool) (int, sdkmath.Int, bool) {
	off := e.rng.Intn(len(e.lps))
	for i := range e.lps {
		lp := (i + off) % len(e.lps)
		if f := e.farmed(p, lp); f.IsPositive() {
			return lp, f, true
		}
	}
	return 0, sdkmath.ZeroInt(), false
}

func (e *c06kEnv) dt() int64 {
	switch e.rng.Intn(12) {
	case 0:
		return int64(86400 + e.rng.Intn(1000)) // the farming queue matures
	default:
		return int64(1 + e.rng.Intn(30))
	}
}

func (e *c06kEnv) randomOp(withOrders bool) {
	p := e.pickPool()
	if p == nil {
		return
	}
	lp := e.rng.Intn(5)
	switch k := e.rng.Intn(100); {
	case k < 38:
		x, y := e.depositAmounts(p)
		e.msgDeposit(p, lp, x, y)
	case k < 60:
		if h, b, ok := e.holderOf(p); ok {
			e.msgWithdraw(p, h, e.withdrawAmount(p, b))
		} else {
			e.msgWithdraw(p, lp, e.amount())
		}
	case k < 72:
		x, y := e.depositAmounts(p)
		e.depositAndFarm(p, lp, x, y)
	case k < 84:
		if f, b, ok := e.farmerOf(p); ok {
			e.unfarmAndWithdraw(p, f, e.withdrawAmount(p, b))
		} else if h, b, ok := e.holderOf(p); ok {
			e.farm(p, h, b.QuoRaw(2).AddRaw(1))
		} else {
			e.unfarmAndWithdraw(p, lp, e.amount())
		}
	case k < 88:
		if h, b, ok := e.holderOf(p); ok {
			e.farm(p, h, b.QuoRaw(3).AddRaw(1))
		}
	case k < 91:
		switch e.rng.Intn(3) {
		case 0:
			e.donate(p, lp, e.amount(), sdkmath.ZeroInt())
		case 1:
			e.donate(p, lp, sdkmath.ZeroInt(), e.amount())
		default:
			e.donate(p, lp, e.amount(), e.amount())
		}
	case k < 93:
		e.malformed(p, lp)
	case k < 95:
		// a governance change of the fee rate in the middle of a history (also refused values)
		vals := []string{"0", "0.003", "0.000000000000000001", "0.1", "0.5", "0.999999999999999999", "1.0", "-0.01", "1.5"}
		e.setFee(p.app, vals[e.rng.Intn(len(vals))], "")
	default:
		if withOrders {
			e.order(p, e.rng.Chance(50), 1+e.rng.Intn(30))
		} else {
			x, y := e.depositAmounts(p)
			e.msgDeposit(p, 5, x, y) // the whale
		}
	}
}

// closeOut: every holder redeems everything (farmers inside the message, wallets through the batch): the last
// request redeems the whole remaining supply; the pool must pay out all reserves and become disabled.
func (e *c06kEnv) closeOut(p *c06kPool) {
	e.tr.Count("closeOut")
	for lp := range e.lps {
		if f := e.farmed(p, lp); f.IsPositive() {
			e.unfarmAndWithdraw(p, lp, f)
		}
	}
	denom := liqtypes.PoolCoinDenom(p.app, p.id)
	for lp := range e.lps {
		if b := e.bal(lp, denom); b.IsPositive() {
			e.msgWithdraw(p, lp, b)
		}
	}
}

func (e *c06kEnv) runRandom(blocks int, withOrders bool) {
	for b := 0; b < blocks; b++ {
		n := e.rng.Intn(6)
		for i := 0; i < n; i++ {
			e.randomOp(withOrders)
		}
		if e.rng.Chance(4) {
			if p := e.pickPool(); p != nil {
				e.closeOut(p)
			}
		}
		e.nextBlock(e.dt())
	}
}

// ---------------------------------------------------------------------------------------------------------
// directed histories (first in every run)
// ---------------------------------------------------------------------------------------------------------

// witnessFee: the fee-reduced pro-rata clause on both execution paths, fee 10 %: create a basic pool, a second LP
// deposits (batch), then withdraws a third of its pool coins with a batched MsgWithdraw and another third with
// MsgUnfarmAndWithdraw; finally all remaining holders redeem everything (last share).
func (e *c06kEnv) witnessFee() {
	a := e.apps[0]
	cs := e.appCoin[a]
	e.setFee(a, "0.1", "")
	e.setFee(e.apps[1], "0", "")
	pairID := e.createPair(a, cs[0], cs[1])
	p := e.createPool(a, pairID, 0, sdkmath.NewInt(3_000_000_000), sdkmath.NewInt(1_500_000_000), false, sdkmath.LegacyDec{}, sdkmath.LegacyDec{}, sdkmath.LegacyDec{})
	if p == nil {
		e.t.Fatal("witness pool")
	}
	e.msgDeposit(p, 1, sdkmath.NewInt(1_000_000_000), sdkmath.NewInt(600_000_000)) // base side too large: refund
	e.nextBlock(5)
	denom := liqtypes.PoolCoinDenom(p.app, p.id)
	b := e.bal(1, denom)
	e.msgWithdraw(p, 1, b.QuoRaw(3))
	e.nextBlock(5)
	e.farm(p, 1, b.QuoRaw(3))
	e.unfarmAndWithdraw(p, 1, b.QuoRaw(3))
	e.nextBlock(5)
	e.depositAndFarm(p, 2, sdkmath.NewInt(700_000_000), sdkmath.NewInt(350_000_001))
	e.unfarmAndWithdraw(p, 2, e.farmed(p, 2))
	e.nextBlock(5)
	// everybody out: the last request redeems the whole remaining supply
	e.msgWithdraw(p, 1, e.bal(1, denom))
	e.msgWithdraw(p, 0, e.bal(0, denom))
	e.nextBlock(5)
	e.msgDeposit(p, 1, sdkmath.NewInt(1000), sdkmath.NewInt(1000)) // disabled pool: refused
	e.nextBlock(5)
}

// witnessEdges: ranged pools on the edges of their range, the depleted-pool branches (fixture drain), a request
// pending while the pool gets disabled, a whale offer at the module bound.
func (e *c06kEnv) witnessEdges() {
	a := e.apps[1]
	cs := e.appCoin[a]
	e.setFee(a, "0.003", "")
	e.setFee(e.apps[0], "0.5", "")
	pairID := e.createPair(a, cs[0], cs[1])
	params, _ := e.k.GetGenericParams(e.ctx, a)
	tp := int(params.TickPrecision)
	d := func(s string) sdkmath.LegacyDec { return amm.PriceToDownTick(sdkmath.LegacyMustNewDecFromStr(s), tp) }
	basic := e.createPool(a, pairID, 0, sdkmath.NewInt(2_000_000_000), sdkmath.NewInt(1_000_000_000), false, sdkmath.LegacyDec{}, sdkmath.LegacyDec{}, sdkmath.LegacyDec{})
	lower := e.createPool(a, pairID, 1, sdkmath.NewInt(500_000_000), sdkmath.NewInt(400_000_000), true, d("1.5"), d("3"), d("1.5"))
	upper := e.createPool(a, pairID, 2, sdkmath.NewInt(500_000_000), sdkmath.NewInt(400_000_000), true, d("1.5"), d("3"), d("3"))
	mid := e.createPool(a, pairID, 3, sdkmath.NewInt(500_000_000), sdkmath.NewInt(400_000_000), true, d("1.5"), d("3"), d("2"))
	if basic == nil || lower == nil || upper == nil || mid == nil {
		e.t.Fatal("witness pools")
	}
	for _, p := range []*c06kPool{lower, upper, mid} {
		e.msgDeposit(p, 1, sdkmath.NewInt(77_000_000), sdkmath.NewInt(55_000_000))
		e.depositAndFarm(p, 2, sdkmath.NewInt(10_000_001), sdkmath.NewInt(9_999_999))
	}
	e.msgDeposit(lower, 3, sdkmath.NewInt(5_000_000), sdkmath.ZeroInt()) // only the coin the pool does not hold: mints nothing
	e.msgDeposit(upper, 3, sdkmath.ZeroInt(), sdkmath.NewInt(5_000_000))
	e.nextBlock(5)
	for _, p := range []*c06kPool{lower, upper, mid} {
		denom := liqtypes.PoolCoinDenom(p.app, p.id)
		e.msgWithdraw(p, 1, e.bal(1, denom).QuoRaw(2))
		e.unfarmAndWithdraw(p, 2, e.farmed(p, 2).QuoRaw(2))
	}
	e.nextBlock(5)
	// a trader pushes the pair's price: the ranged pools move along their curves, then requests execute on the new reserves
	e.order(mid, true, 60)
	e.msgDeposit(mid, 1, sdkmath.NewInt(30_000_000), sdkmath.NewInt(30_000_000))
	e.msgWithdraw(mid, 1, e.bal(1, liqtypes.PoolCoinDenom(mid.app, mid.id)).QuoRaw(3))
	e.nextBlock(5)
	// depleted branches: a pending deposit and a pending withdrawal find the basic pool without one of its coins
	e.msgDeposit(basic, 1, sdkmath.NewInt(4_000_000), sdkmath.NewInt(2_000_000))
	e.msgWithdraw(basic, 0, e.bal(0, liqtypes.PoolCoinDenom(basic.app, basic.id)).QuoRaw(4))
	e.drain(basic, true, false)
	e.nextBlock(5)
	// … and a ranged pool without both
	e.msgWithdraw(lower, 1, e.bal(1, liqtypes.PoolCoinDenom(lower.app, lower.id)))
	e.drain(lower, true, true)
	e.depositAndFarm(lower, 3, sdkmath.NewInt(1_000_000), sdkmath.NewInt(1_000_000)) // inside the message: depleted ⇒ the message fails
	e.unfarmAndWithdraw(lower, 2, e.farmed(lower, 2))                                // depleted ⇒ failed request, message succeeds
	e.nextBlock(5)
	// whale: offers at the 10^40 bound of ValidateMsgDeposit and one above
	s := e.snapPool(mid)
	e.msgDeposit(mid, 5, c06kE40.Sub(s.rx), c06kE40.Sub(s.ry))
	e.msgDeposit(mid, 5, c06kE40.Sub(s.rx).AddRaw(1), sdkmath.NewInt(1))
	e.msgDeposit(mid, 5, sdkmath.NewInt(1), c06kE40.Sub(s.ry).AddRaw(1))
	su := e.snapPool(upper)
	e.depositAndFarm(upper, 5, c06kE40.Sub(su.rx).AddRaw(1), sdkmath.NewInt(1))
	e.depositAndFarm(upper, 5, sdkmath.NewInt(1), c06kE40.Sub(su.ry).AddRaw(1))
	e.depositAndFarm(upper, 5, c06kE40.QuoRaw(7), c06kE40.QuoRaw(7))
	for i := 0; i < 60; i++ {
		e.malformed(mid, i%4)
	}
	e.nextBlock(5)
	e.nextBlock(5)
}

func TestC06Keeper(t *testing.T) {
	tr := OpenTrace(t, "c06keeper.trace")
	defer tr.Close(t)
	rng := NewRng(NewRng(seed()*104729 + 6).U64())
	tot, ok := 0, 0
	e := c06kNewEnv(t, tr, rng, "witness-fee")
	e.witnessFee()
	tot, ok = tot+e.msgs, ok+e.oks
	e = c06kNewEnv(t, tr, rng, "witness-edges")
	e.witnessEdges()
	tot, ok = tot+e.msgs, ok+e.oks
	nseq := scale(24, 150)
	blocks := scale(40, 80)
	if envInt("VERIF_SEARCH", 0) == 1 {
		nseq = 150
	}
	feeSets := [][]string{{"0"}, {"0.003", "0.000000000000000001"}, {"0.1", "0.5"}, {"0.999999999999999999", "0.25"}, {"1.0", "0.02"}}
	for s := 0; s < nseq; s++ {
		e := c06kNewEnv(t, tr, rng, "random-"+strconv.Itoa(s))
		e.setupMarkets(feeSets[s%len(feeSets)])
		e.runRandom(blocks, s%3 == 2)
		tot, ok = tot+e.msgs, ok+e.oks
	}
	tr.Set("messages", tot)
	tr.Set("messages_ok", ok)
	if tot > 0 {
		tr.Set("success_pct", 100*ok/tot)
	}
}
