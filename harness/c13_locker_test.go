//go:build verif

package harness

import (
	"math"
	"sort"
	"strconv"
	"strings"
	"testing"
	"time"

	chain "github.com/comdex-official/comdex/app"
	"github.com/comdex-official/comdex/app/wasm/bindings"
	assettypes "github.com/comdex-official/comdex/x/asset/types"
	auction "github.com/comdex-official/comdex/x/auction"
	auctiontypes "github.com/comdex-official/comdex/x/auction/types"
	auctionsV2 "github.com/comdex-official/comdex/x/auctionsV2"
	auctionsV2types "github.com/comdex-official/comdex/x/auctionsV2/types"
	collectortypes "github.com/comdex-official/comdex/x/collector/types"
	esmtypes "github.com/comdex-official/comdex/x/esm/types"
	liquidationsV2 "github.com/comdex-official/comdex/x/liquidationsV2"
	liq1types "github.com/comdex-official/comdex/x/liquidation/types"
	liqtypes "github.com/comdex-official/comdex/x/liquidationsV2/types"
	lockertypes "github.com/comdex-official/comdex/x/locker/types"
	markettypes "github.com/comdex-official/comdex/x/market/types"
	tokenminttypes "github.com/comdex-official/comdex/x/tokenmint/types"
	vaulttypes "github.com/comdex-official/comdex/x/vault/types"
	abci "github.com/cometbft/cometbft/abci/types"
	tmproto "github.com/cometbft/cometbft/proto/tendermint/types"
	sdk "github.com/cosmos/cosmos-sdk/types"
	authtypes "github.com/cosmos/cosmos-sdk/x/auth/types"
)

// Property C13 — locker and collector books. The harness drives the REAL app: locker messages and vault messages through
// ValidateBasic + MsgServiceRouter on a cache context written back only on success; keeper-level collector entry points
// (penalty / auction return / GetAmountFromCollector / DecreaseNetFeeCollectedData / surplus fund / saving-rate change) the way
// their callers in x/auction, x/auctionsV2, x/liquidationsV2, app/wasm use them (inside an atomic unit); the second-generation
// surplus and debt auctions end to end (liquidationsV2.Liquidate, MsgPlaceMarketBid, auctionsV2.BeginBlocker).
// After every call the full projection the property speaks about is dumped (all lockers, lookup tables, net-fee records,
// lockerV1 / collectorV1 balances, user balances of the tracked assets).

const (
	c13AssetColl   = 1 // CMDX: vault collateral
	c13AssetCmst   = 2 // CMST: vault debt asset, locker asset, collector asset
	c13AssetHarbor = 3 // HARBOR: secondary (governance) asset of the collector
	c13AssetAtom   = 4 // second locker / collector asset
)

var c13Denom = map[uint64]string{1: "ucmdx", 2: "ucmst", 3: "uharbor", 4: "uatom"}
var c13Tracked = []uint64{c13AssetCmst, c13AssetAtom}

type c13Env struct {
	t         *testing.T
	app       *chain.App
	tr        *Trace
	rng       *Rng
	users     []sdk.AccAddress // locker users (projected)
	borrowers []sdk.AccAddress // vault users (not projected)
	userIdx   map[string]int
	products  []c13Product
}

// c13Product: one extended pair vault (vault product). Closing fee ∈ {0, small, large} × stability fee ∈ {0, > 0} × draw-down fee
// ∈ {0, > 0}; `stable` = stable-mint (PSM) product on the pair ATOM → CMST.
type c13Product struct {
	app, ext                     uint64
	closing, stability, drawdown string
	stable                       bool
}

func c13Addr(tag string, i int) sdk.AccAddress {
	b := make([]byte, 20)
	copy(b, []byte(tag))
	b[19] = byte(i + 1)
	return sdk.AccAddress(b)
}

func (e *c13Env) mint(ctx sdk.Context, to sdk.AccAddress, module string, asset uint64, amt sdk.Int) {
	if !amt.IsPositive() {
		return
	}
	c := sdk.NewCoins(sdk.NewCoin(c13Denom[asset], amt))
	if err := e.app.BankKeeper.MintCoins(ctx, tokenminttypes.ModuleName, c); err != nil {
		e.t.Fatal(err)
	}
	var err error
	if to != nil {
		err = e.app.BankKeeper.SendCoinsFromModuleToAccount(ctx, tokenminttypes.ModuleName, to, c)
	} else {
		err = e.app.BankKeeper.SendCoinsFromModuleToModule(ctx, tokenminttypes.ModuleName, module, c)
	}
	if err != nil {
		e.t.Fatal(err)
	}
}

// c13Setup builds the base state shared by all sequences.
func c13Setup(t *testing.T, tr *Trace, rng *Rng) (*c13Env, sdk.Context) {
	app := chain.Setup(t, false)
	e := &c13Env{t: t, app: app, tr: tr, rng: rng, userIdx: map[string]int{}}
	ctx := app.BaseApp.NewContext(false, tmproto.Header{Height: 10, Time: time.Unix(1700000000, 0).UTC()})
	for i := 0; i < 5; i++ {
		a := c13Addr("lockeruser", i)
		e.users = append(e.users, a)
		e.userIdx[a.String()] = i
	}
	for i := 0; i < 3; i++ {
		e.borrowers = append(e.borrowers, c13Addr("borrower", i))
	}
	for id := uint64(1); id <= 4; id++ {
		name := map[uint64]string{1: "CMDX", 2: "CMST", 3: "HARBOR", 4: "ATOM"}[id]
		if err := app.AssetKeeper.AddAssetRecords(ctx, assettypes.Asset{Name: name, Denom: c13Denom[id], Decimals: sdk.NewInt(1000000),
			IsOnChain: true, IsOraclePriceRequired: true, IsCdpMintable: true}); err != nil {
			t.Fatal(err)
		}
		app.MarketKeeper.SetTwa(ctx, markettypes.TimeWeightedAverage{AssetID: id, ScriptID: 12, Twa: 2000000, CurrentIndex: 0,
			IsPriceActive: true, PriceValue: []uint64{2000000}})
	}
	gov := c13Addr("gov", 0)
	for _, n := range []string{"harbor", "cswap"} {
		if err := app.AssetKeeper.AddAppRecords(ctx, assettypes.AppData{Name: n, ShortName: n, MinGovDeposit: sdk.NewInt(1), GovTimeInSeconds: 900,
			GenesisToken: []assettypes.MintGenesisToken{{AssetId: c13AssetHarbor, GenesisSupply: sdk.NewInt(1000000000000), IsGovToken: true, Recipient: gov.String()}}}); err != nil {
			t.Fatal(err)
		}
	}
	for _, appID := range []uint64{1, 2} {
		m := &tokenminttypes.MsgMintNewTokensRequest{From: gov.String(), AppId: appID, AssetId: c13AssetHarbor}
		if _, err := app.MsgServiceRouter().Handler(m)(ctx, m); err != nil {
			t.Fatal(err)
		}
	}
	if err := app.AssetKeeper.AddPairsRecords(ctx, assettypes.Pair{AssetIn: c13AssetColl, AssetOut: c13AssetCmst}); err != nil {
		t.Fatal(err)
	}
	if err := app.AssetKeeper.AddPairsRecords(ctx, assettypes.Pair{AssetIn: c13AssetAtom, AssetOut: c13AssetCmst}); err != nil {
		t.Fatal(err)
	}
	type fees struct {
		tag, closing, stability, drawdown string
		stable                            bool
	}
	for _, f := range []fees{
		{"A", "0.02", "0.25", "0.01", false}, // the product of the earlier rounds (extended pair ids 1, 2)
		{"B", "0", "0.25", "0", false},
		{"C", "0.3", "0", "0.01", false},
		{"D", "0.005", "0", "0", false},
		{"S", "0", "0", "0.01", true},
		{"T", "0", "0", "0", true},
	} {
		for _, appID := range []uint64{1, 2} {
			name := "CMDX-" + f.tag + string(rune('A'+appID))
			pairID := uint64(1)
			if f.stable {
				pairID = 2
			}
			if err := app.AssetKeeper.WasmAddExtendedPairsVaultRecords(ctx, &bindings.MsgAddExtendedPairsVault{
				AppID: appID, PairID: pairID, StabilityFee: sdk.MustNewDecFromStr(f.stability), ClosingFee: sdk.MustNewDecFromStr(f.closing),
				LiquidationPenalty: sdk.MustNewDecFromStr("0.15"), DrawDownFee: sdk.MustNewDecFromStr(f.drawdown), IsVaultActive: true,
				DebtCeiling: sdk.NewInt(1000000000000000000), DebtFloor: sdk.NewInt(1000), IsStableMintVault: f.stable,
				MinCr: sdk.MustNewDecFromStr("1.5"), PairName: name, AssetOutOraclePrice: false, AssetOutPrice: 1000000,
				MinUsdValueLeft: 1}); err != nil {
				t.Fatal(err)
			}
			pvs, _ := app.AssetKeeper.GetPairsVaults(ctx)
			for _, pv := range pvs {
				if pv.PairName == name && pv.AppId == appID {
					e.products = append(e.products, c13Product{app: appID, ext: pv.Id, closing: f.closing, stability: f.stability, drawdown: f.drawdown, stable: f.stable})
				}
			}
		}
	}
	for _, appID := range []uint64{1, 2} {
		if err := app.Rewardskeeper.WhitelistAppIDVault(ctx, appID); err != nil {
			t.Fatal(err)
		}
		// both liquidation generations are configured for the app (used by the penalty histories)
		app.LiquidationKeeper.SetAppIDForLiquidation(ctx, appID)
	}
	if len(e.products) != 12 {
		t.Fatalf("products: %d", len(e.products))
	}
	for _, b := range e.borrowers {
		e.mint(ctx, b, "", c13AssetColl, sdk.NewInt(1).MulRaw(1e18))
		e.mint(ctx, b, "", c13AssetCmst, sdk.NewInt(1e15))
		e.mint(ctx, b, "", c13AssetAtom, sdk.NewInt(1e15))
	}
	return e, ctx
}

func (e *c13Env) balOf(ctx sdk.Context, a sdk.AccAddress, asset uint64) sdk.Int {
	d, ok := c13Denom[asset]
	if !ok {
		return sdk.ZeroInt()
	}
	return e.app.BankKeeper.GetBalance(ctx, a, d).Amount
}

func (e *c13Env) ownerIdx(addr string) int {
	if i, ok := e.userIdx[addr]; ok {
		return i
	}
	return 999
}

// state dumps the projection the property ranges over, every list sorted by key.
func (e *c13Env) state(ctx sdk.Context) string {
	app := e.app
	lockers := app.LockerKeeper.GetLockers(ctx)
	sort.Slice(lockers, func(i, j int) bool { return lockers[i].LockerId < lockers[j].LockerId })
	var ls []string
	for _, l := range lockers {
		ls = append(ls, u(l.LockerId)+":"+u(uint64(e.ownerIdx(l.Depositor)))+":"+u(l.AppId)+":"+u(l.AssetDepositId)+":"+l.NetBalance.String()+":"+l.ReturnsAccumulated.String()+":"+i64(l.BlockHeight)+":"+i64(l.BlockTime.Unix()))
	}
	lks := app.LockerKeeper.GetAllLockerLookupTable(ctx)
	sort.Slice(lks, func(i, j int) bool {
		if lks[i].AppId != lks[j].AppId {
			return lks[i].AppId < lks[j].AppId
		}
		return lks[i].AssetId < lks[j].AssetId
	})
	var ks []string
	for _, k := range lks {
		ks = append(ks, u(k.AppId)+":"+u(k.AssetId)+":"+k.DepositedAmount.String()+":"+joinU(k.LockerIds))
	}
	// GetAllNetFeeCollectedData never unmarshals (defect D11): read every key instead
	var fs []string
	for appID := uint64(0); appID <= 3; appID++ {
		for asset := uint64(0); asset <= 5; asset++ {
			if nf, found := app.CollectorKeeper.GetNetFeeCollectedData(ctx, appID, asset); found {
				fs = append(fs, u(appID)+":"+u(asset)+":"+nf.NetFeesCollected.String())
			}
		}
	}
	var bs []string
	for i, a := range e.users {
		for _, asset := range c13Tracked {
			if b := app.BankKeeper.GetBalance(ctx, a, c13Denom[asset]).Amount; !b.IsZero() {
				bs = append(bs, "u"+u(uint64(i))+":"+u(asset)+":"+b.String())
			}
		}
	}
	for _, m := range [][2]string{{"locker", "lockerV1"}, {"collector", "collectorV1"}} {
		addr := authtypes.NewModuleAddress(m[1])
		for _, asset := range []uint64{1, 2, 3, 4} {
			if b := app.BankKeeper.GetBalance(ctx, addr, c13Denom[asset]).Amount; !b.IsZero() {
				bs = append(bs, m[0]+":"+u(asset)+":"+b.String())
			}
		}
	}
	// reward trackers (key: locker id, app), collector lookup table, internal-reward whitelist
	trs := app.Rewardskeeper.GetAllLockerRewardTracker(ctx)
	sort.Slice(trs, func(i, j int) bool {
		if trs[i].LockerId != trs[j].LockerId {
			return trs[i].LockerId < trs[j].LockerId
		}
		return trs[i].AppMappingId < trs[j].AppMappingId
	})
	var ts []string
	for _, t := range trs {
		if !t.RewardsAccumulated.IsZero() {
			ts = append(ts, u(t.LockerId)+":"+u(t.AppMappingId)+":"+t.RewardsAccumulated.BigInt().String())
		}
	}
	var cs, ws []string
	for appID := uint64(0); appID <= 3; appID++ {
		for asset := uint64(0); asset <= 5; asset++ {
			if c, found := app.CollectorKeeper.GetCollectorLookupTable(ctx, appID, asset); found {
				cs = append(cs, c13CL(c.AppId, c.CollectorAssetId, c.LockerSavingRate, c.BlockHeight, c.BlockTime.Unix(), c.SurplusThreshold, c.DebtThreshold, c.LotSize, c.DebtLotSize))
			}
			if _, found := app.Rewardskeeper.GetReward(ctx, appID, asset); found {
				ws = append(ws, u(appID)+":"+u(asset))
			}
		}
	}
	// auction mapping, emergency switches, English-auction activation
	var as []string
	for _, k := range e.amapKeys(ctx) {
		m, _ := app.CollectorKeeper.GetAuctionMappingForApp(ctx, k[0], k[1])
		as = append(as, u(k[0])+":"+u(k[1])+":"+c13B(m.IsSurplusAuction)+":"+c13B(m.IsDebtAuction)+":"+c13B(m.IsAuctionActive))
	}
	var es, xs, gs []uint64
	for appID := uint64(0); appID <= 3; appID++ {
		if st, found := app.EsmKeeper.GetESMStatus(ctx, appID); found && st.Status {
			es = append(es, appID)
		}
		if kl, _ := app.EsmKeeper.GetKillSwitchData(ctx, appID); kl.BreakerEnable {
			xs = append(xs, appID)
		}
		if lw, found := app.NewliqKeeper.GetLiquidationWhiteListing(ctx, appID); found && lw.IsEnglishActivated {
			gs = append(gs, appID)
		}
	}
	return "L=" + strings.Join(ls, ";") + "|K=" + strings.Join(ks, ";") + "|F=" + strings.Join(fs, ";") + "|B=" + strings.Join(bs, ";") +
		"|T=" + strings.Join(ts, ";") + "|C=" + strings.Join(cs, ";") + "|W=" + strings.Join(ws, ";") +
		"|A=" + strings.Join(as, ";") + "|E=" + joinU(es) + "|X=" + joinU(xs) + "|G=" + joinU(gs) +
		"|S=" + strings.Join(e.aucs(ctx), ";") + "|N=" + u(app.AuctionKeeper.GetAuctionID(ctx))
}

// aucs: the running first-generation surplus and debt auctions, sorted by id
func (e *c13Env) aucs(ctx sdk.Context) []string {
	type row struct {
		id uint64
		s  string
	}
	var rows []row
	bidder := func(a sdk.AccAddress) string {
		if a == nil || a.Empty() {
			return "-"
		}
		return u(uint64(e.ownerIdx(a.String())))
	}
	for appID := uint64(1); appID <= 2; appID++ {
		for _, a := range e.app.AuctionKeeper.GetSurplusAuctions(ctx, appID) {
			rows = append(rows, row{a.AuctionId, u(a.AuctionId) + ":" + u(a.AppId) + ":" + u(a.AssetId) + ":s:" + a.SellToken.Amount.String() + ":" +
				a.Bid.Amount.String() + ":" + bidder(a.Bidder) + ":" + i64(a.EndTime.Unix()) + ":" + i64(a.BidEndTime.Unix())})
		}
		for _, a := range e.app.AuctionKeeper.GetDebtAuctions(ctx, appID) {
			rows = append(rows, row{a.AuctionId, u(a.AuctionId) + ":" + u(a.AppId) + ":" + u(a.AssetId) + ":d:" + a.ExpectedUserToken.Amount.String() + ":" +
				a.ExpectedMintedToken.Amount.String() + ":" + bidder(a.Bidder) + ":" + i64(a.EndTime.Unix()) + ":" + i64(a.BidEndTime.Unix())})
		}
	}
	sort.Slice(rows, func(i, j int) bool { return rows[i].id < rows[j].id })
	var out []string
	for _, r := range rows {
		out = append(out, r.s)
	}
	return out
}

func c13B(b bool) string {
	if b {
		return "true"
	}
	return "false"
}

// amapKeys: the auction-mapping entries in store (iteration) order — the order in which the begin-blockers visit them.
func (e *c13Env) amapKeys(ctx sdk.Context) [][2]uint64 {
	ms, _ := e.app.CollectorKeeper.GetAllAuctionMappingForApp(ctx)
	var ks [][2]uint64
	for _, m := range ms {
		ks = append(ks, [2]uint64{m.AppId, m.AssetId})
	}
	return ks
}

func (e *c13Env) amapKeysField(ctx sdk.Context) string {
	var ss []string
	for _, k := range e.amapKeys(ctx) {
		ss = append(ss, u(k[0])+":"+u(k[1]))
	}
	return strings.Join(ss, ";")
}

// configuration changes (governance / emergency), each one trace line
func (e *c13Env) cfgSwitch(ctx sdk.Context, kind string, appID uint64, on bool) {
	switch kind {
	case "esm":
		e.app.EsmKeeper.SetESMStatus(ctx, esmtypes.ESMStatus{AppId: appID, Status: on})
	case "kill":
		if err := e.app.EsmKeeper.SetKillSwitchData(ctx, esmtypes.KillSwitchParams{AppId: appID, BreakerEnable: on}); err != nil {
			e.t.Fatal(err)
		}
	case "english":
		e.app.NewliqKeeper.SetLiquidationWhiteListing(ctx, liqtypes.LiquidationWhiteListing{AppId: appID, Initiator: true, IsDutchActivated: true,
			DutchAuctionParam:  &liqtypes.DutchAuctionParam{Premium: sdk.MustNewDecFromStr("1.2"), Discount: sdk.MustNewDecFromStr("0.7"), DecrementFactor: sdk.NewInt(1)},
			IsEnglishActivated: on, EnglishAuctionParam: &liqtypes.EnglishAuctionParam{DecrementFactor: sdk.NewInt(1)}, KeeeperIncentive: sdk.MustNewDecFromStr("0.1")})
	}
	e.tr.Count("config:" + kind)
	e.tr.Line("lk.config", kind, u(appID), c13B(on), "ok", e.state(ctx))
}

func (e *c13Env) cfgAmap(ctx sdk.Context, appID, asset uint64, surplus, debt, active bool) {
	out := e.atomic(ctx, func(cc sdk.Context) error {
		return e.app.CollectorKeeper.SetAuctionMappingForApp(cc, collectortypes.AppAssetIdToAuctionLookupTable{AppId: appID, AssetId: asset,
			IsSurplusAuction: surplus, IsDebtAuction: debt, IsAuctionActive: active, AssetOutPrice: 1000000})
	})
	e.tr.Count("config:amap:" + out)
	if out == "ok" {
		e.tr.Line("lk.config", "amap", u(appID), u(asset), c13B(surplus), c13B(debt), c13B(active), out, e.state(ctx))
	}
}

type c13ActSnap struct {
	active map[[2]uint64]bool
	fee    map[[2]uint64]sdk.Int
}

func (e *c13Env) actSnapshot(ctx sdk.Context) c13ActSnap {
	sn := c13ActSnap{active: map[[2]uint64]bool{}, fee: map[[2]uint64]sdk.Int{}}
	for _, k := range e.amapKeys(ctx) {
		m, _ := e.app.CollectorKeeper.GetAuctionMappingForApp(ctx, k[0], k[1])
		sn.active[k] = m.IsAuctionActive
		sn.fee[k] = e.netFee(ctx, k[0], k[1])
	}
	return sn
}

// actCount records which branches of the start decision the real begin-blocker took (statistics only).
func (e *c13Env) actCount(ctx sdk.Context, before c13ActSnap, gen string) {
	for _, k := range e.amapKeys(ctx) {
		m, _ := e.app.CollectorKeeper.GetAuctionMappingForApp(ctx, k[0], k[1])
		moved := !e.netFee(ctx, k[0], k[1]).Equal(before.fee[k])
		switch {
		case m.IsAuctionActive && !before.active[k] && m.IsSurplusAuction:
			e.tr.Count("act:" + gen + ":surplus-started")
		case m.IsAuctionActive && !before.active[k] && m.IsDebtAuction:
			e.tr.Count("act:" + gen + ":debt-started")
		case moved:
			e.tr.Count("act:" + gen + ":lot-taken-without-auction")
		default:
			e.tr.Count("act:" + gen + ":no-start")
		}
	}
}

func (e *c13Env) vaultOf(ctx sdk.Context, b sdk.AccAddress, ext uint64) (uint64, bool) {
	for _, v := range e.app.VaultKeeper.GetVaults(ctx) {
		if v.Owner == b.String() && v.ExtendedPairVaultID == ext {
			return v.Id, true
		}
	}
	return 0, false
}

func c13Cell(x sdk.Int) string {
	if x.IsZero() {
		return "0"
	}
	return ">0"
}

// vaultMsg delivers one real vault message and writes the fee line: what the collector's category counters say was booked
// (external input of the model) against the net-fee record and the collector's balance (compared / monitored). The statistics
// `cell:<inflow>:<component>=0|>0` enumerate which (inflow kind × zero / non-zero component) cells the run reached.
func (e *c13Env) vaultMsg(ctx sdk.Context, b sdk.AccAddress, pr c13Product, kind string, vid uint64) bool {
	rng, tr := e.rng, e.tr
	o0, s0, c0 := e.collectorParts(ctx, pr.app, c13AssetCmst)
	var msg sdk.Msg
	switch kind {
	case "vcreate":
		out := sdk.NewInt(int64(1000 + rng.Intn(50000000)))
		msg = &vaulttypes.MsgCreateRequest{From: b.String(), AppId: pr.app, ExtendedPairVaultId: pr.ext, AmountIn: out.MulRaw(int64(2 + rng.Intn(4))), AmountOut: out}
	case "vdraw":
		msg = &vaulttypes.MsgDrawRequest{From: b.String(), AppId: pr.app, ExtendedPairVaultId: pr.ext, UserVaultId: vid, Amount: sdk.NewInt(int64(1 + rng.Intn(2000000)))}
	case "vrepay":
		msg = &vaulttypes.MsgRepayRequest{From: b.String(), AppId: pr.app, ExtendedPairVaultId: pr.ext, UserVaultId: vid, Amount: sdk.NewInt(int64(1 + rng.Intn(3000000)))}
	case "vrepay-all-interest":
		// first let the interest accrue to now (MsgVaultInterestCalc does what every vault message does first), then repay it plus a bit
		_ = e.deliver(ctx, &vaulttypes.MsgVaultInterestCalcRequest{From: b.String(), AppId: pr.app, UserVaultId: vid})
		v, _ := e.app.VaultKeeper.GetVault(ctx, vid)
		msg = &vaulttypes.MsgRepayRequest{From: b.String(), AppId: pr.app, ExtendedPairVaultId: pr.ext, UserVaultId: vid, Amount: v.InterestAccumulated.AddRaw(int64(1 + rng.Intn(50)))}
	case "vclose":
		msg = &vaulttypes.MsgCloseRequest{From: b.String(), AppId: pr.app, ExtendedPairVaultId: pr.ext, UserVaultId: vid}
	}
	out := e.deliver(ctx, msg)
	tr.Count(kind + ":" + out)
	if out != "ok" {
		return false
	}
	o1, s1, c1 := e.collectorParts(ctx, pr.app, c13AssetCmst)
	if kind == "vclose" {
		i, c := s1.Sub(s0), c1.Sub(c0)
		tr.Count("cell:close:interest=" + c13Cell(i) + ":closingfee=" + c13Cell(c))
		tr.Line("lk.feeclose", u(pr.app), u(c13AssetCmst), i.String(), c.String(), out, e.state(ctx))
		return true
	}
	x := o1.Sub(o0).Add(s1.Sub(s0))
	switch kind {
	case "vcreate", "vdraw":
		tr.Count("cell:" + kind[1:] + ":drawdownfee=" + c13Cell(o1.Sub(o0)))
	default:
		tr.Count("cell:repay:interest=" + c13Cell(s1.Sub(s0)))
	}
	tr.Line("lk.feevault", u(pr.app), u(c13AssetCmst), x.String(), out, e.state(ctx))
	return true
}

// stableMintOp: create / deposit / withdraw on a stable-mint product (draw-down fee zero or not); the fee is an opening-fee inflow.
func (e *c13Env) stableMintOp(ctx sdk.Context, b sdk.AccAddress, pr c13Product) {
	rng, tr := e.rng, e.tr
	var sid uint64
	for _, v := range e.app.VaultKeeper.GetStableMintVaults(ctx) {
		if v.AppId == pr.app && v.ExtendedPairVaultID == pr.ext {
			sid = v.Id
		}
	}
	o0, _, _ := e.collectorParts(ctx, pr.app, c13AssetCmst)
	amt := sdk.NewInt(int64(1000 + rng.Intn(30000000)))
	var msg sdk.Msg
	kind := ""
	switch {
	case sid == 0:
		msg, kind = &vaulttypes.MsgCreateStableMintRequest{From: b.String(), AppId: pr.app, ExtendedPairVaultId: pr.ext, Amount: amt}, "stablecreate"
	case rng.Chance(60):
		msg, kind = &vaulttypes.MsgDepositStableMintRequest{From: b.String(), AppId: pr.app, ExtendedPairVaultId: pr.ext, Amount: amt, StableVaultId: sid}, "stabledeposit"
	default:
		msg, kind = &vaulttypes.MsgWithdrawStableMintRequest{From: b.String(), AppId: pr.app, ExtendedPairVaultId: pr.ext, Amount: amt.QuoRaw(3).AddRaw(1), StableVaultId: sid}, "stablewithdraw"
	}
	out := e.deliver(ctx, msg)
	tr.Count(kind + ":" + out)
	if out != "ok" {
		return
	}
	o1, _, _ := e.collectorParts(ctx, pr.app, c13AssetCmst)
	x := o1.Sub(o0)
	tr.Count("cell:" + kind + ":drawdownfee=" + c13Cell(x))
	tr.Line("lk.feevault", u(pr.app), u(c13AssetCmst), x.String(), out, e.state(ctx))
}

// penaltySequence: a liquidation penalty booked by the REAL auction code of either generation. A borrower opens a vault at the
// minimum collateral ratio, the collateral price falls, the vault is seized (gen 1: x/liquidation MsgLiquidateVault + x/auction Dutch
// auction; gen 2: liquidationsV2 + auctionsV2 Dutch auction), a bidder buys everything. Seizure and bidding are outside the model
// (`lk.sync`); on the bid that closes the auction the penalty x := what arrived at the collector is the external input of
// `lk.penalty` — the model then demands that the net-fee record of (app, debt asset) moved by exactly x.
// dutchWinddownSequence: first-generation dutch auction of a liquidated vault, bid only PARTLY (debt <= collected < target), the app's
// emergency shutdown executed with a price snapshot, the auction past its end: the real RestartDutchAuctions winds it down and pays
// the collected part of the penalty (collected - principal) into the collector. Traced as a fee inflow `lk.penalty` with x := what
// ARRIVED at the collector; `netfees_delta` / `collector_custody` judge the real record against the real custody (seed s104).
func (e *c13Env) dutchWinddownSequence(base sdk.Context, prIdx int) {
	gen1 := true
	ctx, _ := base.CacheContext()
	app, tr, rng := e.app, e.tr, e.rng
	pr := e.products[prIdx]
	gen := "gen2"
	if gen1 {
		gen = "gen1"
	}
	app.AuctionKeeper.SetAuctionParams(ctx, auctiontypes.AuctionParams{AppId: pr.app, AuctionDurationSeconds: 3600, Buffer: sdk.MustNewDecFromStr("1.2"),
		Cusp: sdk.MustNewDecFromStr("0.7"), Step: sdk.NewInt(1), PriceFunctionType: 1, SurplusId: 1, DebtId: 2, DutchId: 3, BidDurationSeconds: 3600})
	app.NewliqKeeper.SetLiquidationWhiteListing(ctx, liqtypes.LiquidationWhiteListing{AppId: pr.app, Initiator: true, IsDutchActivated: true,
		DutchAuctionParam:  &liqtypes.DutchAuctionParam{Premium: sdk.MustNewDecFromStr("1.2"), Discount: sdk.MustNewDecFromStr("0.7"), DecrementFactor: sdk.NewInt(1)},
		IsEnglishActivated: false, EnglishAuctionParam: &liqtypes.EnglishAuctionParam{DecrementFactor: sdk.NewInt(1)}, KeeeperIncentive: sdk.MustNewDecFromStr("0.1")})
	app.NewaucKeeper.SetAuctionParams(ctx, auctionsV2types.AuctionParams{AuctionDurationSeconds: 3600, Step: sdk.MustNewDecFromStr("0.1"),
		WithdrawalFee: sdk.ZeroDec(), ClosingFee: sdk.ZeroDec(), MinUsdValueLeft: 100000, BidFactor: sdk.MustNewDecFromStr("0.1"),
		LiquidationPenalty: sdk.MustNewDecFromStr("0.1"), AuctionBonus: sdk.ZeroDec()})
	tr.Line("lk.begin", "assets=1,2,3,4", "apps=1,2", e.collkField(ctx))
	tr.Count("seq:dutch-winddown")
	owner, bidder := e.borrowers[0], e.borrowers[1]
	out := sdk.NewInt(int64(2000000 + rng.Intn(30000000)))
	o0, _, _ := e.collectorParts(ctx, pr.app, c13AssetCmst)
	// price 2.0, min CR 1.5: collateral = 0.76 × debt is just above the limit
	res := e.deliver(ctx, &vaulttypes.MsgCreateRequest{From: owner.String(), AppId: pr.app, ExtendedPairVaultId: pr.ext, AmountIn: out.MulRaw(76).QuoRaw(100), AmountOut: out})
	if res != "ok" {
		tr.Count("penalty:" + gen + ":create-failed")
		return
	}
	o1, _, _ := e.collectorParts(ctx, pr.app, c13AssetCmst)
	tr.Line("lk.feevault", u(pr.app), u(c13AssetCmst), o1.Sub(o0).String(), "ok", e.state(ctx))
	vid, _ := e.vaultOf(ctx, owner, pr.ext)
	ctx = ctx.WithBlockTime(ctx.BlockTime().Add(time.Duration(1+rng.Intn(86400*30)) * time.Second)).WithBlockHeight(ctx.BlockHeight() + 10)
	app.MarketKeeper.SetTwa(ctx, markettypes.TimeWeightedAverage{AssetID: c13AssetColl, ScriptID: 12, Twa: 1500000, CurrentIndex: 0,
		IsPriceActive: true, PriceValue: []uint64{1500000}})
	if gen1 {
		res = e.deliver(ctx, &liq1types.MsgLiquidateVaultRequest{From: bidder.String(), AppId: pr.app, VaultId: vid})
	} else {
		res = e.deliver(ctx, &liqtypes.MsgLiquidateInternalKeeperRequest{From: bidder.String(), LiqType: 0, Id: vid})
	}
	tr.Count("penalty:" + gen + ":seize:" + res)
	tr.Line("lk.sync", e.state(ctx))
	colBal := func(c sdk.Context) sdk.Int {
		return app.BankKeeper.GetBalance(c, authtypes.NewModuleAddress("collectorV1"), c13Denom[c13AssetCmst]).Amount
	}
	as := app.AuctionKeeper.GetDutchAuctions(ctx, pr.app)
	if res != "ok" || len(as) == 0 {
		tr.Count("winddown:no-auction")
		return
	}
	a := as[0]
	lv, _ := app.LiquidationKeeper.GetLockedVault(ctx, a.AppId, a.LockedVaultId)
	// partial bid: the fraction of the collateral that brings in at least the debt but less than the target
	placed := false
	for _, pct := range []int64{78, 80, 75, 82, 72, 85, 70, 88, 65, 90} {
		amt := a.OutflowTokenCurrentAmount.Amount.MulRaw(pct).QuoRaw(100)
		cc, write := ctx.CacheContext()
		msg := &auctiontypes.MsgPlaceDutchBidRequest{AuctionId: a.AuctionId, Bidder: bidder.String(),
			Amount: sdk.NewCoin(a.OutflowTokenCurrentAmount.Denom, amt), AppId: a.AppId, AuctionMappingId: a.AuctionMappingId}
		if msg.ValidateBasic() != nil {
			continue
		}
		var err error
		p, _ := try(func() { _, err = app.MsgServiceRouter().Handler(msg)(cc, msg) })
		if p || err != nil {
			continue
		}
		a2, err := app.AuctionKeeper.GetDutchAuction(cc, a.AppId, a.AuctionMappingId, a.AuctionId)
		if err != nil || a2.InflowTokenCurrentAmount.Amount.LT(lv.AmountOut) || !a2.InflowTokenCurrentAmount.IsLT(a2.InflowTokenTargetAmount) {
			continue
		}
		write()
		a, placed = a2, true
		break
	}
	if !placed {
		tr.Count("winddown:no-partial-bid")
		tr.Line("lk.sync", e.state(ctx))
		return
	}
	tr.Count("winddown:partial-bid")
	tr.Line("lk.sync", e.state(ctx))
	e.cfgSwitch(ctx, "esm", pr.app, true)
	app.EsmKeeper.SetESMStatus(ctx, esmtypes.ESMStatus{AppId: pr.app, Executor: owner.String(), Status: true, StartTime: ctx.BlockTime(), EndTime: ctx.BlockTime(), SnapshotStatus: true})
	app.EsmKeeper.SetSnapshotOfPrices(ctx, pr.app, c13AssetColl, 1500000)
	app.EsmKeeper.SetSnapshotOfPrices(ctx, pr.app, c13AssetCmst, 1000000)
	ctx = ctx.WithBlockTime(a.EndTime.Add(time.Duration(1+rng.Intn(3600)) * time.Second)).WithBlockHeight(ctx.BlockHeight() + 700)
	before := colBal(ctx)
	out2 := e.atomic(ctx, func(cc sdk.Context) error { return app.AuctionKeeper.RestartDutchAuctions(cc, pr.app) })
	_, gone := app.AuctionKeeper.GetDutchAuction(ctx, a.AppId, a.AuctionMappingId, a.AuctionId)
	x := colBal(ctx).Sub(before)
	tr.Count("winddown:" + out2)
	if out2 != "ok" || gone == nil {
		tr.Count("winddown:not-wound-down")
		tr.Line("lk.sync", e.state(ctx))
		return
	}
	tr.Count("cell:winddown:x=" + c13Cell(x))
	tr.Line("lk.penalty", u(pr.app), u(c13AssetCmst), x.String(), "ok", e.state(ctx))
}

func (e *c13Env) penaltySequence(base sdk.Context, gen1 bool, prIdx int) {
	ctx, _ := base.CacheContext()
	app, tr, rng := e.app, e.tr, e.rng
	pr := e.products[prIdx]
	gen := "gen2"
	if gen1 {
		gen = "gen1"
	}
	app.AuctionKeeper.SetAuctionParams(ctx, auctiontypes.AuctionParams{AppId: pr.app, AuctionDurationSeconds: 3600, Buffer: sdk.MustNewDecFromStr("1.2"),
		Cusp: sdk.MustNewDecFromStr("0.7"), Step: sdk.NewInt(1), PriceFunctionType: 1, SurplusId: 1, DebtId: 2, DutchId: 3, BidDurationSeconds: 3600})
	app.NewliqKeeper.SetLiquidationWhiteListing(ctx, liqtypes.LiquidationWhiteListing{AppId: pr.app, Initiator: true, IsDutchActivated: true,
		DutchAuctionParam:  &liqtypes.DutchAuctionParam{Premium: sdk.MustNewDecFromStr("1.2"), Discount: sdk.MustNewDecFromStr("0.7"), DecrementFactor: sdk.NewInt(1)},
		IsEnglishActivated: false, EnglishAuctionParam: &liqtypes.EnglishAuctionParam{DecrementFactor: sdk.NewInt(1)}, KeeeperIncentive: sdk.MustNewDecFromStr("0.1")})
	app.NewaucKeeper.SetAuctionParams(ctx, auctionsV2types.AuctionParams{AuctionDurationSeconds: 3600, Step: sdk.MustNewDecFromStr("0.1"),
		WithdrawalFee: sdk.ZeroDec(), ClosingFee: sdk.ZeroDec(), MinUsdValueLeft: 100000, BidFactor: sdk.MustNewDecFromStr("0.1"),
		LiquidationPenalty: sdk.MustNewDecFromStr("0.1"), AuctionBonus: sdk.ZeroDec()})
	tr.Line("lk.begin", "assets=1,2,3,4", "apps=1,2", e.collkField(ctx))
	tr.Count("seq:penalty:" + gen)
	owner, bidder := e.borrowers[0], e.borrowers[1]
	out := sdk.NewInt(int64(2000000 + rng.Intn(30000000)))
	o0, _, _ := e.collectorParts(ctx, pr.app, c13AssetCmst)
	// price 2.0, min CR 1.5: collateral = 0.76 × debt is just above the limit
	res := e.deliver(ctx, &vaulttypes.MsgCreateRequest{From: owner.String(), AppId: pr.app, ExtendedPairVaultId: pr.ext, AmountIn: out.MulRaw(76).QuoRaw(100), AmountOut: out})
	if res != "ok" {
		tr.Count("penalty:" + gen + ":create-failed")
		return
	}
	o1, _, _ := e.collectorParts(ctx, pr.app, c13AssetCmst)
	tr.Line("lk.feevault", u(pr.app), u(c13AssetCmst), o1.Sub(o0).String(), "ok", e.state(ctx))
	vid, _ := e.vaultOf(ctx, owner, pr.ext)
	ctx = ctx.WithBlockTime(ctx.BlockTime().Add(time.Duration(1+rng.Intn(86400*30)) * time.Second)).WithBlockHeight(ctx.BlockHeight() + 10)
	app.MarketKeeper.SetTwa(ctx, markettypes.TimeWeightedAverage{AssetID: c13AssetColl, ScriptID: 12, Twa: 1500000, CurrentIndex: 0,
		IsPriceActive: true, PriceValue: []uint64{1500000}})
	if gen1 {
		res = e.deliver(ctx, &liq1types.MsgLiquidateVaultRequest{From: bidder.String(), AppId: pr.app, VaultId: vid})
	} else {
		res = e.deliver(ctx, &liqtypes.MsgLiquidateInternalKeeperRequest{From: bidder.String(), LiqType: 0, Id: vid})
	}
	tr.Count("penalty:" + gen + ":seize:" + res)
	tr.Line("lk.sync", e.state(ctx))
	colBal := func() sdk.Int {
		return app.BankKeeper.GetBalance(ctx, authtypes.NewModuleAddress("collectorV1"), c13Denom[c13AssetCmst]).Amount
	}
	for round := 0; round < 6; round++ {
		before := colBal()
		closed := false
		if gen1 {
			as := app.AuctionKeeper.GetDutchAuctions(ctx, pr.app)
			if len(as) == 0 {
				break
			}
			a := as[0]
			res = e.deliver(ctx, &auctiontypes.MsgPlaceDutchBidRequest{AuctionId: a.AuctionId, Bidder: bidder.String(),
				Amount: sdk.NewCoin(a.OutflowTokenCurrentAmount.Denom, a.OutflowTokenCurrentAmount.Amount), AppId: a.AppId, AuctionMappingId: a.AuctionMappingId})
			_, err := app.AuctionKeeper.GetDutchAuction(ctx, a.AppId, a.AuctionMappingId, a.AuctionId)
			closed = res == "ok" && err != nil
		} else {
			as := app.NewaucKeeper.GetAuctions(ctx)
			if len(as) == 0 {
				break
			}
			a := as[0]
			res = e.deliver(ctx, &auctionsV2types.MsgPlaceMarketBidRequest{AuctionId: a.AuctionId, Bidder: bidder.String(), Amount: a.DebtToken})
			_, err := app.NewaucKeeper.GetAuction(ctx, a.AuctionId)
			closed = res == "ok" && err != nil
		}
		tr.Count("penalty:" + gen + ":bid:" + res)
		if closed {
			x := colBal().Sub(before)
			tr.Count("cell:penalty:" + gen + ":x=" + c13Cell(x))
			if gen1 {
				tr.Line("lk.penalty", u(pr.app), u(c13AssetCmst), x.String(), "ok", e.state(ctx))
			} else {
				// the second generation names both assets of the auction; which record it credits is the model's business
				tr.Line("lk.v2penalty", u(pr.app), u(c13AssetColl), u(c13AssetCmst), x.String(), "ok", e.state(ctx))
			}
			return
		}
		tr.Line("lk.sync", e.state(ctx))
		if res != "ok" {
			// the Dutch price may still be too high for the collateral left: let it decay
			ctx = ctx.WithBlockTime(ctx.BlockTime().Add(600 * time.Second)).WithBlockHeight(ctx.BlockHeight() + 100)
			if gen1 {
				_ = app.AuctionKeeper.RestartDutch(ctx, pr.app)
			} else {
				auctionsV2.BeginBlocker(ctx, app.NewaucKeeper)
			}
			tr.Line("lk.sync", e.state(ctx))
		}
	}
	tr.Count("penalty:" + gen + ":not-closed")
}

// begin1 runs the REAL first-generation begin-blocker (called directly: x/auction/module.go has the call commented out) and records
// which close path every auction that disappeared took (statistics only).
func (e *c13Env) begin1(ctx sdk.Context) {
	keysField := e.amapKeysField(ctx)
	snap := e.actSnapshot(ctx)
	before := e.aucs(ctx)
	auction.BeginBlocker(ctx, e.app.AuctionKeeper, &e.app.AssetKeeper, &e.app.CollectorKeeper, &e.app.EsmKeeper)
	e.tr.Count("act:gen1")
	after := map[string]string{}
	for _, r := range e.aucs(ctx) {
		after[strings.SplitN(r, ":", 2)[0]] = r
	}
	for _, r := range before {
		f := strings.Split(r, ":")
		appID, _ := strconv.ParseUint(f[1], 10, 64)
		esm := false
		if st, found := e.app.EsmKeeper.GetESMStatus(ctx, appID); found && st.Status {
			esm = true
		}
		kind := map[string]string{"s": "surplus", "d": "debt"}[f[3]]
		now, ok := after[f[0]]
		switch {
		case !ok && esm && f[6] != "-":
			e.tr.Count("close1:" + kind + ":shutdown-with-bid")
		case !ok && esm:
			e.tr.Count("close1:" + kind + ":shutdown-no-bid")
		case !ok:
			e.tr.Count("close1:" + kind + ":winner")
		case now != r:
			e.tr.Count("close1:" + kind + ":restart")
		}
	}
	for _, k := range e.amapKeys(ctx) {
		m, _ := e.app.CollectorKeeper.GetAuctionMappingForApp(ctx, k[0], k[1])
		if m.IsAuctionActive && !snap.active[k] {
			if m.IsSurplusAuction {
				e.tr.Count("act:gen1:surplus-started")
			} else {
				e.tr.Count("act:gen1:debt-started")
			}
		}
	}
	e.tr.Line("lk.begin1", i64(ctx.BlockTime().Unix()), keysField, "ok", e.state(ctx))
}

// gen1Corpus: every close path of the first-generation surplus and debt auctions, directed (first in the run after the
// second-generation witnesses): start at the threshold boundary, optional bid through the message router, optional emergency
// shutdown, then the begin-blocker after (or, under shutdown, before) the end of the window.
func (e *c13Env) gen1Corpus(base sdk.Context, surplus, withBid, shutdown bool) {
	ctx, _ := base.CacheContext()
	app, tr := e.app, e.tr
	ck := app.CollectorKeeper
	if err := ck.WasmSetCollectorLookupTable(ctx, &bindings.MsgSetCollectorLookupTable{AppID: 1, CollectorAssetID: c13AssetCmst,
		SecondaryAssetID: c13AssetHarbor, SurplusThreshold: sdk.NewInt(10000000), DebtThreshold: sdk.NewInt(5000000), LockerSavingRate: sdk.MustNewDecFromStr("0.1"),
		LotSize: sdk.NewInt(200000), BidFactor: sdk.MustNewDecFromStr("0.01"), DebtLotSize: sdk.NewInt(3000000)}); err != nil {
		e.t.Fatal(err)
	}
	app.AuctionKeeper.SetAuctionParams(ctx, auctiontypes.AuctionParams{AppId: 1, AuctionDurationSeconds: c13AucDur, Buffer: sdk.MustNewDecFromStr("1.2"),
		Cusp: sdk.MustNewDecFromStr("0.6"), Step: sdk.NewInt(1), PriceFunctionType: 1, SurplusId: 1, DebtId: 2, DutchId: 3, BidDurationSeconds: c13BidDur})
	tr.Line("lk.begin", "assets=1,2,3,4", "apps=1,2", e.collkField(ctx), "adur="+u(c13AucDur), "bdur="+u(c13BidDur), "bf=10000000000000000")
	tr.Count("seq:gen1corpus")
	e.mint(ctx, e.users[1], "", c13AssetHarbor, sdk.NewInt(1000000000))
	e.cfgAmap(ctx, 1, c13AssetCmst, surplus, !surplus, false)
	funded := sdk.NewInt(10200000) // exactly surplus threshold + lot
	if !surplus {
		funded = sdk.NewInt(4800000) // exactly debt threshold − lot
	}
	out := e.atomic(ctx, func(cc sdk.Context) error {
		e.mint(cc, nil, "auctionV1", c13AssetCmst, funded)
		if err := app.BankKeeper.SendCoinsFromModuleToModule(cc, "auctionV1", "collectorV1", sdk.NewCoins(sdk.NewCoin(c13Denom[c13AssetCmst], funded))); err != nil {
			return err
		}
		return ck.SetNetFeeCollectedData(cc, 1, c13AssetCmst, funded)
	})
	tr.Line("lk.penalty", "1", u(c13AssetCmst), funded.String(), out, e.state(ctx))
	step := func(secs int64) {
		ctx = ctx.WithBlockTime(ctx.BlockTime().Add(time.Duration(secs) * time.Second)).WithBlockHeight(ctx.BlockHeight() + 1)
	}
	step(6)
	e.begin1(ctx) // the auction starts
	step(6)
	if withBid {
		now := i64(ctx.BlockTime().Unix())
		if surplus {
			out := e.deliver(ctx, &auctiontypes.MsgPlaceSurplusBidRequest{AuctionId: 1, Bidder: e.users[1].String(),
				Amount: sdk.NewCoin(c13Denom[c13AssetHarbor], sdk.NewInt(150000)), AppId: 1, AuctionMappingId: 1})
			tr.Line("lk.sbid", "1", "1", "1", "150000", now, out, e.state(ctx))
		} else {
			x := sdk.NewInt(1000000)
			e.mint(ctx, e.users[1], "", c13AssetCmst, x)
			tr.Line("lk.fund", "1", u(c13AssetCmst), x.String(), "ok", e.state(ctx))
			out := e.deliver(ctx, &auctiontypes.MsgPlaceDebtBidRequest{AuctionId: 1, Bidder: e.users[1].String(),
				Bid: sdk.NewCoin(c13Denom[c13AssetHarbor], sdk.NewInt(2500000)), ExpectedUserToken: sdk.NewCoin(c13Denom[c13AssetCmst], sdk.NewInt(200000)), AppId: 1, AuctionMappingId: 2})
			tr.Line("lk.dbid", "1", "1", "1", "2500000", "200000", now, out, e.state(ctx))
		}
	}
	if shutdown {
		e.cfgSwitch(ctx, "esm", 1, true)
		step(6)
	} else {
		step(c13AucDur + 10)
	}
	e.begin1(ctx) // shutdown: wound down at once; otherwise: the window is over — winner, or restart when there was no bid
}

// activationSequence: thresholds against net fees. Net fees are steered to the two boundaries (surplus threshold + lot, debt
// threshold − lot) and their neighbours, then the REAL begin-blockers decide: x/auction.BeginBlocker (first generation; note that
// x/auction/module.go:168 has its call commented out — the function is exercised here as it stands) and
// liquidationsV2.BeginBlocker (second generation, live).
func (e *c13Env) activationSequence(base sdk.Context, nops int) {
	ctx, _ := base.CacheContext()
	app, tr, rng := e.app, e.tr, e.rng
	ck := app.CollectorKeeper
	keys := [][2]uint64{{1, 2}, {1, 4}, {2, 2}, {2, 4}}
	for _, k := range keys {
		sthr := int64(1000 * (1 + rng.Intn(20000)))
		lot := int64(1 + rng.Intn(3000000))
		dthr := int64(rng.Intn(int(sthr)))
		if err := ck.WasmSetCollectorLookupTable(ctx, &bindings.MsgSetCollectorLookupTable{AppID: k[0], CollectorAssetID: k[1],
			SecondaryAssetID: c13AssetHarbor, SurplusThreshold: sdk.NewInt(sthr), DebtThreshold: sdk.NewInt(dthr), LockerSavingRate: c13Rate(rng),
			LotSize: sdk.NewInt(lot), BidFactor: sdk.MustNewDecFromStr("0.01"), DebtLotSize: sdk.NewInt(int64(1 + rng.Intn(5000000)))}); err != nil {
			e.t.Fatal(err)
		}
	}
	for _, a := range []uint64{1, 2} {
		app.AuctionKeeper.SetAuctionParams(ctx, auctiontypes.AuctionParams{AppId: a, AuctionDurationSeconds: c13AucDur, Buffer: sdk.MustNewDecFromStr("1.2"),
			Cusp: sdk.MustNewDecFromStr("0.6"), Step: sdk.NewInt(1), PriceFunctionType: 1, SurplusId: 1, DebtId: 2, DutchId: 3, BidDurationSeconds: c13BidDur})
	}
	app.NewaucKeeper.SetAuctionParams(ctx, auctionsV2types.AuctionParams{AuctionDurationSeconds: 4000000000, Step: sdk.MustNewDecFromStr("0.1"),
		WithdrawalFee: sdk.ZeroDec(), ClosingFee: sdk.ZeroDec(), MinUsdValueLeft: 100000, BidFactor: sdk.MustNewDecFromStr("0.1"),
		LiquidationPenalty: sdk.MustNewDecFromStr("0.1"), AuctionBonus: sdk.ZeroDec()})
	tr.Line("lk.begin", "assets=1,2,3,4", "apps=1,2", e.collkField(ctx), "adur="+u(c13AucDur), "bdur="+u(c13BidDur), "bf=10000000000000000")
	tr.Count("seq:activation")
	for _, usr := range e.users { // secondary asset for surplus bids (outside the projection)
		e.mint(ctx, usr, "", c13AssetHarbor, sdk.NewInt(1000000000))
	}
	for _, a := range []uint64{1, 2} {
		e.cfgSwitch(ctx, "english", a, rng.Chance(80))
	}
	for _, k := range keys {
		if rng.Chance(85) {
			sp := rng.Chance(50)
			e.cfgAmap(ctx, k[0], k[1], sp, !sp && rng.Chance(85), false)
		}
	}
	// steer the recorded net fees of a key to `target` with real collector entry points
	steer := func(k [2]uint64, target sdk.Int) {
		if target.IsNegative() {
			target = sdk.ZeroInt()
		}
		cur := e.netFee(ctx, k[0], k[1])
		d := target.Sub(cur)
		if d.IsPositive() {
			out := e.atomic(ctx, func(cc sdk.Context) error {
				e.mint(cc, nil, "auctionV1", k[1], d)
				if err := app.BankKeeper.SendCoinsFromModuleToModule(cc, "auctionV1", "collectorV1", sdk.NewCoins(sdk.NewCoin(c13Denom[k[1]], d))); err != nil {
					return err
				}
				return ck.SetNetFeeCollectedData(cc, k[0], k[1], d)
			})
			tr.Line("lk.penalty", u(k[0]), u(k[1]), d.String(), out, e.state(ctx))
		} else if d.IsNegative() {
			x := d.Neg()
			out := e.atomic(ctx, func(cc sdk.Context) error {
				return ck.WasmMsgGetSurplusFund(cc, k[0], k[1], e.users[0], sdk.NewCoin(c13Denom[k[1]], x))
			})
			tr.Line("lk.surplusfund", u(k[0]), u(k[1]), "0", x.String(), out, e.state(ctx))
		}
	}
	for op := 0; op < nops; op++ {
		gap := []int64{6, 6, 60, 400, 1500}[rng.Intn(5)]
		ctx = ctx.WithBlockTime(ctx.BlockTime().Add(time.Duration(gap) * time.Second)).WithBlockHeight(ctx.BlockHeight() + 1)
		p := rng.Intn(100)
		k := keys[rng.Intn(len(keys))]
		switch {
		case p < 18: // a bid on a running first-generation auction, through the message router
			rows := e.aucs(ctx)
			if len(rows) == 0 {
				continue
			}
			f := strings.Split(rows[rng.Intn(len(rows))], ":")
			aucID, _ := strconv.ParseUint(f[0], 10, 64)
			appID, _ := strconv.ParseUint(f[1], 10, 64)
			asset, _ := strconv.ParseUint(f[2], 10, 64)
			lot, _ := sdk.NewIntFromString(f[4])
			other, _ := sdk.NewIntFromString(f[5])
			ui := rng.Intn(len(e.users))
			now := i64(ctx.BlockTime().Unix())
			change := sdk.MustNewDecFromStr("0.01").MulInt(other).Ceil().TruncateInt()
			if f[3] == "s" {
				var amt sdk.Int
				if f[6] == "-" {
					amt = sdk.NewInt(int64(rng.Intn(3))) // 0 is rejected, > 0 accepted
					if rng.Chance(70) {
						amt = sdk.NewInt(int64(1 + rng.Intn(100000)))
					}
				} else {
					amt = other.Add(change).AddRaw(int64(rng.Intn(3) - 1)) // min-1, min, min+1
					if rng.Chance(40) {
						amt = other.Add(change).AddRaw(int64(rng.Intn(50000)))
					}
				}
				out := e.deliver(ctx, &auctiontypes.MsgPlaceSurplusBidRequest{AuctionId: aucID, Bidder: e.users[ui].String(),
					Amount: sdk.NewCoin(c13Denom[c13AssetHarbor], amt), AppId: appID, AuctionMappingId: 1})
				tr.Count("sbid:" + out)
				tr.Line("lk.sbid", u(appID), u(aucID), u(uint64(ui)), amt.String(), now, out, e.state(ctx))
			} else {
				exp := lot
				if rng.Chance(8) {
					exp = lot.AddRaw(1)
				}
				var bid sdk.Int
				if f[6] == "-" {
					bid = other.AddRaw(int64(rng.Intn(3) - 1))
				} else {
					bid = other.Sub(change).AddRaw(int64(rng.Intn(3) - 1))
				}
				if rng.Chance(40) && bid.IsPositive() {
					bid = sdk.NewIntFromUint64(rng.U64() >> 8).Mod(bid)
				}
				if bid.IsNegative() {
					bid = sdk.ZeroInt()
				}
				if e.balOf(ctx, e.users[ui], asset).LT(lot) && rng.Chance(85) {
					x := lot.MulRaw(2)
					e.mint(ctx, e.users[ui], "", asset, x)
					tr.Line("lk.fund", u(uint64(ui)), u(asset), x.String(), "ok", e.state(ctx))
				}
				out := e.deliver(ctx, &auctiontypes.MsgPlaceDebtBidRequest{AuctionId: aucID, Bidder: e.users[ui].String(),
					Bid: sdk.NewCoin(c13Denom[c13AssetHarbor], bid), ExpectedUserToken: sdk.NewCoin(c13Denom[asset], exp), AppId: appID, AuctionMappingId: 2})
				tr.Count("dbid:" + out)
				tr.Line("lk.dbid", u(appID), u(aucID), u(uint64(ui)), bid.String(), exp.String(), now, out, e.state(ctx))
			}
		case p < 40: // steer to a boundary
			cl, _ := ck.GetCollectorLookupTable(ctx, k[0], k[1])
			var t sdk.Int
			switch rng.Intn(4) {
			case 0:
				t = cl.SurplusThreshold.Add(cl.LotSize)
			case 1:
				t = cl.DebtThreshold.Sub(cl.LotSize)
			case 2:
				t = cl.SurplusThreshold
			default:
				t = sdk.NewInt(int64(rng.Intn(30000000)))
			}
			t = t.AddRaw(int64(rng.Intn(3) - 1))
			steer(k, t)
			tr.Count("act:steer")
		case p < 46:
			m, found := ck.GetAuctionMappingForApp(ctx, k[0], k[1])
			if found && rng.Chance(70) { // governance resets a finished auction / changes the kind
				sp := m.IsSurplusAuction
				if rng.Chance(25) {
					sp = !sp
				}
				e.cfgAmap(ctx, k[0], k[1], sp, !sp, false)
			} else {
				sp := rng.Chance(50)
				e.cfgAmap(ctx, k[0], k[1], sp, !sp, rng.Chance(20))
			}
		case p < 52:
			e.cfgSwitch(ctx, []string{"esm", "kill", "english"}[rng.Intn(3)], k[0], rng.Chance(50))
		case p < 66: // second-generation begin-blocker
			keysField := e.amapKeysField(ctx)
			snap := e.actSnapshot(ctx)
			liquidationsV2.BeginBlocker(ctx, abci.RequestBeginBlock{}, app.NewliqKeeper)
			e.actCount(ctx, snap, "gen2")
			tr.Count("act:gen2")
			tr.Line("lk.activate", "2", keysField, "ok", e.state(ctx))
		default: // the whole first-generation begin-blocker: starts, restarts, every close path
			e.begin1(ctx)
		}
	}
	ms, _ := ck.GetAllAuctionMappingForApp(ctx)
	for _, m := range ms {
		if m.IsAuctionActive {
			if m.IsSurplusAuction {
				tr.Count("act:surplus-active-at-end")
			} else {
				tr.Count("act:debt-active-at-end")
			}
		}
	}
}

func c13CL(appID, asset uint64, lsr sdk.Dec, bh, bt int64, sthr, dthr, lot, dlot sdk.Int) string {
	return u(appID) + ":" + u(asset) + ":" + lsr.BigInt().String() + ":" + i64(bh) + ":" + i64(bt) + ":" + sthr.String() + ":" + dthr.String() + ":" + lot.String() + ":" + dlot.String()
}

// collkField prints the collector lookup table of the sequence for the lk.begin line.
func (e *c13Env) collkField(ctx sdk.Context) string {
	st := e.state(ctx)
	i := strings.Index(st, "|C=")
	j := strings.Index(st, "|W=")
	return "collk=" + st[i+3:j]
}

func c13T(ctx sdk.Context) (string, string) { return i64(ctx.BlockTime().Unix()), i64(ctx.BlockHeight()) }

const c13Year = 31557600
const c13AucDur = 3000
const c13BidDur = 600

// powField mirrors the two lines of CalculationOfRewards that produce the arguments of its one math.Pow call and performs that
// call: `xbits:ybits:pbits`. The Lean model recomputes both arguments from ITS state (rate, time stamps) and the driver reports a
// DIFF when they differ; the result is the only input of the model's reward computation.
func c13Pow(lsr sdk.Dec, secs int64) string {
	if secs < 0 {
		return "-"
	}
	x := sdk.OneDec().Add(lsr).MustFloat64()
	y := sdk.NewDec(secs).QuoInt64(c13Year).MustFloat64()
	p := math.Pow(x, y)
	return u(math.Float64bits(x)) + ":" + u(math.Float64bits(y)) + ":" + u(math.Float64bits(p))
}

// powField: the pow call CalculateLockerRewards is going to make for this locker (rate of the collector entry; time since the
// locker's stamp, or the collector entry's stamp when the locker's block height is 0).
func (e *c13Env) powField(ctx sdk.Context, appID, assetID, lockerID uint64, lsrOverride *sdk.Dec) string {
	l, found := e.app.LockerKeeper.GetLocker(ctx, lockerID)
	if !found {
		return "-"
	}
	cl, found := e.app.CollectorKeeper.GetCollectorLookupTable(ctx, appID, assetID)
	if !found {
		return "-"
	}
	rate := cl.LockerSavingRate
	if lsrOverride != nil {
		rate = *lsrOverride
	}
	since := l.BlockTime.Unix()
	if l.BlockHeight == 0 {
		since = cl.BlockTime.Unix()
	}
	return c13Pow(rate, ctx.BlockTime().Unix()-since)
}

// deliver re-enacts baseapp.runMsgs for one message.
func (e *c13Env) deliver(ctx sdk.Context, msg sdk.Msg) string {
	if err := msg.ValidateBasic(); err != nil {
		e.tr.Count("reject:validatebasic")
		return "err"
	}
	h := e.app.MsgServiceRouter().Handler(msg)
	cc, write := ctx.CacheContext()
	var err error
	p, _ := try(func() { _, err = h(cc, msg) })
	if p {
		return "panic"
	}
	if err != nil {
		e.tr.Count("errclass:" + c13ErrClass(err))
		return "err"
	}
	write()
	return "ok"
}

// c13ErrClass keeps the registered error (codespace/code) for the distribution statistics only; it is never compared.
func c13ErrClass(err error) string {
	s := err.Error()
	if i := strings.LastIndex(s, ": "); i >= 0 {
		s = s[i+2:]
	}
	if len(s) > 48 {
		s = s[:48]
	}
	return s
}

// atomic runs a keeper-level action the way its callers do: inside a unit that is rolled back on error or panic.
func (e *c13Env) atomic(ctx sdk.Context, f func(cc sdk.Context) error) string {
	cc, write := ctx.CacheContext()
	var err error
	p, _ := try(func() { err = f(cc) })
	if p {
		return "panic"
	}
	if err != nil {
		return "err"
	}
	write()
	return "ok"
}

// predictRw computes, with the real keepers and BEFORE the call, what CalculateLockerRewards is going to hand to the ledger code.
func (e *c13Env) predictRw(ctx sdk.Context, appID, assetID, lockerID uint64, lsr *sdk.Dec, forIter bool) string {
	app := e.app
	l, found := app.LockerKeeper.GetLocker(ctx, lockerID)
	if !found {
		return "none"
	}
	cl, cfound := app.CollectorKeeper.GetCollectorLookupTable(ctx, appID, assetID)
	rate := cl.LockerSavingRate
	if !forIter {
		if _, found := app.Rewardskeeper.GetReward(ctx, appID, assetID); !found {
			return "none"
		}
		if !cfound {
			return "fail"
		}
		if rate.IsZero() {
			return "none"
		}
	} else {
		rate = *lsr
	}
	t := l.BlockTime.Unix()
	if l.BlockHeight == 0 {
		t = cl.BlockTime.Unix()
	}
	var rewards sdk.Dec
	var err error
	p, _ := try(func() { rewards, err = app.Rewardskeeper.CalculationOfRewards(ctx, l.NetBalance, rate, t) })
	if p || err != nil {
		return "fail"
	}
	acc := rewards
	if trk, found := app.Rewardskeeper.GetLockerRewardTracker(ctx, l.LockerId, appID); found {
		acc = trk.RewardsAccumulated.Add(rewards)
	}
	if acc.GTE(sdk.OneDec()) {
		return "pay:" + acc.TruncateInt().String()
	}
	return "none"
}

func (e *c13Env) totalRewards(ctx sdk.Context, appID, assetID uint64) sdk.Int {
	r, found := e.app.LockerKeeper.GetLockerTotalRewardsByAssetAppWise(ctx, appID, assetID)
	if !found || r.TotalRewards.IsNil() {
		return sdk.ZeroInt()
	}
	return r.TotalRewards
}

func (e *c13Env) collectorParts(ctx sdk.Context, appID, assetID uint64) (opening, stability, closing sdk.Int) {
	d, found := e.app.CollectorKeeper.GetCollectorDataForAppIDAssetID(ctx, appID, assetID)
	if !found {
		return sdk.ZeroInt(), sdk.ZeroInt(), sdk.ZeroInt()
	}
	return d.CollectedOpeningFee, d.CollectedStabilityFee, d.CollectedClosingFee
}

func (e *c13Env) netFee(ctx sdk.Context, appID, assetID uint64) sdk.Int {
	nf, found := e.app.CollectorKeeper.GetNetFeeCollectedData(ctx, appID, assetID)
	if !found {
		return sdk.ZeroInt()
	}
	return nf.NetFeesCollected
}

func c13Rate(rng *Rng) sdk.Dec {
	return sdk.MustNewDecFromStr([]string{"0", "0.03", "0.1", "0.5", "1.5"}[rng.Intn(5)])
}

func (e *c13Env) setCollectorLookup(ctx sdk.Context, appID, assetID uint64, lsr sdk.Dec, lot, debtLot int64) {
	if err := e.app.CollectorKeeper.WasmSetCollectorLookupTable(ctx, &bindings.MsgSetCollectorLookupTable{AppID: appID, CollectorAssetID: assetID,
		SecondaryAssetID: c13AssetHarbor, SurplusThreshold: sdk.NewInt(10000000), DebtThreshold: sdk.NewInt(5000000), LockerSavingRate: lsr,
		LotSize: sdk.NewInt(lot), BidFactor: sdk.MustNewDecFromStr("0.01"), DebtLotSize: sdk.NewInt(debtLot)}); err != nil {
		e.t.Fatal(err)
	}
}

func c13CollkField(keys [][2]uint64) string {
	var ss []string
	for _, k := range keys {
		ss = append(ss, u(k[0])+":"+u(k[1]))
	}
	return "collk=" + strings.Join(ss, ";")
}

// ---------------------------------------------------------------------------------------------------------------------------
// second-generation surplus / debt auction, end to end on the real code (witness of the collector-custody defect)

func (e *c13Env) v2Sequence(base sdk.Context, mode string, lot, debtLot, funded int64, bidAmt int64) {
	ctx, _ := base.CacheContext()
	app, tr := e.app, e.tr
	e.setCollectorLookup(ctx, 1, c13AssetCmst, sdk.MustNewDecFromStr("0.1"), lot, debtLot)
	app.NewaucKeeper.SetAuctionParams(ctx, auctionsV2types.AuctionParams{AuctionDurationSeconds: 3600, Step: sdk.MustNewDecFromStr("0.1"),
		WithdrawalFee: sdk.ZeroDec(), ClosingFee: sdk.ZeroDec(), MinUsdValueLeft: 100000, BidFactor: sdk.MustNewDecFromStr("0.1"),
		LiquidationPenalty: sdk.MustNewDecFromStr("0.1"), AuctionBonus: sdk.ZeroDec()})
	tr.Line("lk.begin", "assets=1,2,3,4", "apps=1,2", e.collkField(ctx))
	tr.Count("seq:v2" + mode)
	e.cfgSwitch(ctx, "english", 1, true)
	e.cfgAmap(ctx, 1, c13AssetCmst, mode == "surplus", mode == "debt", false)
	bidder := e.users[0]
	e.mint(ctx, bidder, "", c13AssetHarbor, sdk.NewInt(1e12))
	// the collector really receives what its books record: a liquidation penalty paid in by the auction module
	x := sdk.NewInt(funded)
	out := e.atomic(ctx, func(cc sdk.Context) error {
		e.mint(cc, nil, auctionsV2types.ModuleName, c13AssetCmst, x)
		if err := app.BankKeeper.SendCoinsFromModuleToModule(cc, auctionsV2types.ModuleName, "collectorV1", sdk.NewCoins(sdk.NewCoin(c13Denom[c13AssetCmst], x))); err != nil {
			return err
		}
		return app.CollectorKeeper.SetNetFeeCollectedData(cc, 1, c13AssetCmst, x)
	})
	tr.Line("lk.penalty", "1", u(c13AssetCmst), x.String(), out, e.state(ctx))
	// user 0 needs CMST to pay a debt-auction bid
	fund := sdk.NewInt(1000000000)
	e.mint(ctx, bidder, "", c13AssetCmst, fund)
	tr.Line("lk.fund", "0", u(c13AssetCmst), fund.String(), "ok", e.state(ctx))

	// activator: liquidationsV2.Liquidate → CheckStatsForSurplusAndDebt
	keysField := e.amapKeysField(ctx)
	liquidationsV2.BeginBlocker(ctx, abci.RequestBeginBlock{}, app.NewliqKeeper)
	tr.Line("lk.activate", "2", keysField, "ok", e.state(ctx))
	if len(app.NewliqKeeper.GetLockedVaults(ctx)) == 1 {
		tr.Count("v2:" + mode + "-started")
	}
	aucs := app.NewaucKeeper.GetAuctions(ctx)
	if len(aucs) != 1 {
		tr.Count("v2:no-auction")
		return
	}
	auc := aucs[0]
	bid := sdk.NewCoin(c13Denom[c13AssetHarbor], sdk.NewInt(bidAmt))
	out = e.deliver(ctx, &auctionsV2types.MsgPlaceMarketBidRequest{AuctionId: auc.AuctionId, Bidder: bidder.String(), Amount: bid})
	tr.Count("v2:bid:" + out)
	tr.Line("lk.sync", e.state(ctx)) // the bid escrow is not part of the model
	// the auction window ends: BeginBlocker closes the English auction
	ctx = ctx.WithBlockTime(ctx.BlockTime().Add(2 * time.Hour)).WithBlockHeight(ctx.BlockHeight() + 100)
	auc, _ = app.NewaucKeeper.GetAuction(ctx, auc.AuctionId)
	auctionsV2.BeginBlocker(ctx, app.NewaucKeeper)
	if _, err := app.NewaucKeeper.GetAuction(ctx, auc.AuctionId); err == nil {
		tr.Count("v2:not-closed")
		tr.Line("lk.sync", e.state(ctx))
		return
	}
	if mode == "surplus" {
		tr.Line("lk.v2sclose", "1", u(c13AssetCmst), "0", auc.CollateralToken.Amount.String(), "ok", e.state(ctx))
		tr.Count("v2:surplus-closed")
	} else {
		tr.Line("lk.v2dclose", "1", u(c13AssetCmst), auc.CollateralToken.Amount.String(), auc.DebtToken.Amount.String(), "ok", e.state(ctx))
		tr.Count("v2:debt-closed")
	}
}

// ---------------------------------------------------------------------------------------------------------------------------

func (e *c13Env) boundary(around sdk.Int) sdk.Int {
	switch e.rng.Intn(16) {
	case 0:
		return around
	case 1:
		return around.AddRaw(1)
	case 2:
		return around.SubRaw(1)
	case 3:
		return sdk.OneInt()
	case 4:
		return sdk.ZeroInt()
	default:
		if around.IsPositive() {
			return sdk.NewIntFromUint64(e.rng.U64() >> 4).Mod(around).AddRaw(1)
		}
		return sdk.NewInt(int64(e.rng.Intn(1000)))
	}
}

func (e *c13Env) mainSequence(base sdk.Context, nops int) {
	ctx, _ := base.CacheContext()
	app, tr, rng := e.app, e.tr, e.rng
	ck := app.CollectorKeeper
	// configuration of this sequence
	var collk [][2]uint64
	for _, k := range [][2]uint64{{1, 2}, {1, 4}, {2, 2}, {2, 4}} {
		if rng.Chance(85) {
			e.setCollectorLookup(ctx, k[0], k[1], c13Rate(rng), 200000, 2000000)
			collk = append(collk, k)
		}
	}
	tr.Line("lk.begin", "assets=1,2,3,4", "apps=1,2", e.collkField(ctx))
	tr.Count("seq:main")
	apps := []uint64{1, 2}
	lassets := []uint64{c13AssetCmst, c13AssetAtom}
	pickKey := func() (uint64, uint64) {
		if rng.Chance(4) {
			return uint64(rng.Intn(4)), uint64(rng.Intn(6)) // unknown app / asset
		}
		return apps[rng.Intn(2)], lassets[rng.Intn(2)]
	}
	whitelist := func(appID, asset uint64) {
		out := e.atomic(ctx, func(cc sdk.Context) error {
			_, err := app.LockerKeeper.AddWhiteListedAsset(cc, &lockertypes.MsgAddWhiteListedAssetRequest{From: e.users[0].String(), AppId: appID, AssetId: asset})
			return err
		})
		tr.Count("whitelist:" + out)
		tr.Line("lk.whitelist", u(appID), u(asset), out, e.state(ctx))
		if rng.Chance(85) {
			out := e.atomic(ctx, func(cc sdk.Context) error { return app.Rewardskeeper.WhitelistAssetForInternalRewards(cc, appID, asset) })
			tr.Count("wlreward:" + out)
			tr.Line("lk.wlreward", u(appID), u(asset), out, e.state(ctx))
		}
	}
	for _, a := range apps {
		for _, as := range lassets {
			if rng.Chance(80) {
				whitelist(a, as)
			}
		}
	}
	fund := func(ui int, asset uint64, x sdk.Int) {
		e.mint(ctx, e.users[ui], "", asset, x)
		tr.Line("lk.fund", u(uint64(ui)), u(asset), x.String(), "ok", e.state(ctx))
	}
	for ui := range e.users {
		for _, as := range lassets {
			if rng.Chance(80) {
				fund(ui, as, sdk.NewIntFromUint64(1+rng.U64()>>uint(34+rng.Intn(26))))
			}
		}
	}
	// most collectors start with fees already collected (a liquidation penalty paid in by the auction module)
	for _, k := range collk {
		if rng.Chance(85) {
			x := sdk.NewIntFromUint64(1 + rng.U64()>>uint(24+rng.Intn(12)))
			out := e.atomic(ctx, func(cc sdk.Context) error {
				e.mint(cc, nil, "auctionV1", k[1], x)
				if err := app.BankKeeper.SendCoinsFromModuleToModule(cc, "auctionV1", "collectorV1", sdk.NewCoins(sdk.NewCoin(c13Denom[k[1]], x))); err != nil {
					return err
				}
				return ck.SetNetFeeCollectedData(cc, k[0], k[1], x)
			})
			tr.Line("lk.penalty", u(k[0]), u(k[1]), x.String(), out, e.state(ctx))
		}
	}
	pickLocker := func() (lockertypes.Locker, bool) {
		ls := app.LockerKeeper.GetLockers(ctx)
		if len(ls) == 0 {
			return lockertypes.Locker{}, false
		}
		return ls[rng.Intn(len(ls))], true
	}
	for op := 0; op < nops; op++ {
		// time passes: seconds … months, so that savings and stability interest accrue
		gap := []int64{0, 1, 6, 3600, 86400, 30 * 86400, 200 * 86400}[rng.Intn(7)]
		ctx = ctx.WithBlockTime(ctx.BlockTime().Add(time.Duration(gap) * time.Second)).WithBlockHeight(ctx.BlockHeight() + 1 + gap/6)
		p := rng.Intn(100)
		switch {
		case p < 6:
			ui := rng.Intn(len(e.users))
			fund(ui, lassets[rng.Intn(2)], sdk.NewIntFromUint64(1+rng.U64()>>uint(34+rng.Intn(26))))
			tr.Count("op:fund")
		case p < 8:
			a, as := pickKey()
			whitelist(a, as)
		case p < 9: // emergency shutdown / kill switch of an app (first guards of create, deposit, whitelist)
			e.cfgSwitch(ctx, []string{"esm", "kill"}[rng.Intn(2)], apps[rng.Intn(2)], rng.Chance(45))
		case p < 21: // create
			ui := rng.Intn(len(e.users))
			a, as := pickKey()
			if rng.Chance(80) { // mostly valid: a user without a locker for a whitelisted pair that has a collector entry
				for try := 0; try < 12; try++ {
					ui = rng.Intn(len(e.users))
					a, as = apps[rng.Intn(2)], lassets[rng.Intn(2)]
					m, _ := app.LockerKeeper.GetUserLockerAssetMapping(ctx, e.users[ui].String(), a, as)
					_, wl := app.LockerKeeper.GetLockerLookupTable(ctx, a, as)
					_, cl := ck.GetCollectorLookupTable(ctx, a, as)
					if m.LockerId == 0 && wl && cl && e.balOf(ctx, e.users[ui], as).IsPositive() {
						break
					}
				}
			}
			bal := e.balOf(ctx, e.users[ui], as)
			amt := e.boundary(bal)
			msg := lockertypes.NewMsgCreateLockerRequest(e.users[ui].String(), amt, as, a)
			out := e.deliver(ctx, msg)
			tr.Count("create:" + out)
			t1, t2 := c13T(ctx)
			tr.Line("lk.create", t1, t2, u(uint64(ui)), u(a), u(as), amt.String(), out, e.state(ctx))
		case p < 36: // deposit
			l, ok := pickLocker()
			if !ok {
				continue
			}
			ui := e.ownerIdx(l.Depositor)
			a, as, id := l.AppId, l.AssetDepositId, l.LockerId
			switch rng.Intn(14) {
			case 0:
				ui = rng.Intn(len(e.users)) // (probably) wrong owner
			case 1:
				as = lassets[rng.Intn(2)]
			case 2:
				a = apps[rng.Intn(2)]
			case 3:
				id = id + uint64(rng.Intn(3))
			}
			if e.balOf(ctx, e.users[ui], as).IsZero() && rng.Chance(85) {
				fund(ui, as, sdk.NewIntFromUint64(1+rng.U64()>>uint(34+rng.Intn(26))))
			}
			bal := e.balOf(ctx, e.users[ui], as)
			amt := e.boundary(bal)
			rw := e.predictRw(ctx, a, as, id, nil, false)
			pw := e.powField(ctx, a, as, id, nil)
			t0 := e.totalRewards(ctx, a, as)
			out := e.deliver(ctx, lockertypes.NewMsgDepositAssetRequest(e.users[ui].String(), id, amt, as, a))
			obs := "-"
			if out == "ok" {
				obs = e.totalRewards(ctx, a, as).Sub(t0).String()
			}
			tr.Count("deposit:" + out)
			tr.Count("rw:" + strings.SplitN(rw, ":", 2)[0])
			t1, t2 := c13T(ctx)
			tr.Line("lk.deposit", t1, t2, u(uint64(ui)), u(a), u(as), u(id), amt.String(), pw, obs, out, e.state(ctx))
		case p < 51: // withdraw
			l, ok := pickLocker()
			if !ok {
				continue
			}
			ui := e.ownerIdx(l.Depositor)
			a, as, id := l.AppId, l.AssetDepositId, l.LockerId
			switch rng.Intn(14) {
			case 0:
				ui = rng.Intn(len(e.users))
			case 1:
				as = lassets[rng.Intn(2)]
			case 2:
				a = apps[rng.Intn(2)]
			case 3:
				id = id + uint64(rng.Intn(3))
			}
			amt := e.boundary(l.NetBalance)
			rw := e.predictRw(ctx, a, as, id, nil, false)
			pw := e.powField(ctx, a, as, id, nil)
			t0 := e.totalRewards(ctx, a, as)
			out := e.deliver(ctx, lockertypes.NewMsgWithdrawAssetRequest(e.users[ui].String(), id, amt, as, a))
			obs := "-"
			if out == "ok" {
				obs = e.totalRewards(ctx, a, as).Sub(t0).String()
			}
			tr.Count("withdraw:" + out)
			tr.Count("rw:" + strings.SplitN(rw, ":", 2)[0])
			t1, t2 := c13T(ctx)
			tr.Line("lk.withdraw", t1, t2, u(uint64(ui)), u(a), u(as), u(id), amt.String(), pw, obs, out, e.state(ctx))
		case p < 57: // close
			l, ok := pickLocker()
			if !ok {
				continue
			}
			ui := e.ownerIdx(l.Depositor)
			a, as, id := l.AppId, l.AssetDepositId, l.LockerId
			switch rng.Intn(12) {
			case 0:
				ui = rng.Intn(len(e.users))
			case 1:
				as = lassets[rng.Intn(2)]
			case 2:
				id = 0
			}
			rw := e.predictRw(ctx, a, as, id, nil, false)
			pw := e.powField(ctx, a, as, id, nil)
			t0 := e.totalRewards(ctx, a, as)
			out := e.deliver(ctx, lockertypes.NewMsgCloseLockerRequest(e.users[ui].String(), a, as, id))
			obs := "-"
			if out == "ok" {
				obs = e.totalRewards(ctx, a, as).Sub(t0).String()
			}
			tr.Count("close:" + out)
			tr.Count("rw:" + strings.SplitN(rw, ":", 2)[0])
			t1, t2 := c13T(ctx)
			tr.Line("lk.close", t1, t2, u(uint64(ui)), u(a), u(as), u(id), pw, obs, out, e.state(ctx))
		case p < 64: // reward calculation message (anyone may send it)
			l, ok := pickLocker()
			if !ok {
				continue
			}
			a, id := l.AppId, l.LockerId
			if rng.Chance(8) {
				a = apps[rng.Intn(2)]
			}
			rw := "none"
			if a == l.AppId {
				rw = e.predictRw(ctx, a, l.AssetDepositId, id, nil, false)
			}
			pw := e.powField(ctx, a, l.AssetDepositId, id, nil)
			t0 := e.totalRewards(ctx, a, l.AssetDepositId)
			out := e.deliver(ctx, lockertypes.NewMsgLockerRewardCalcRequest(e.users[rng.Intn(len(e.users))].String(), a, id))
			obs := "-"
			if out == "ok" {
				obs = e.totalRewards(ctx, a, l.AssetDepositId).Sub(t0).String()
			}
			tr.Count("rewardcalc:" + out)
			tr.Count("rw:" + strings.SplitN(rw, ":", 2)[0])
			t1, t2 := c13T(ctx)
			tr.Line("lk.rewardcalc", t1, t2, u(a), u(id), pw, obs, out, e.state(ctx))
		case p < 68: // saving-rate change (governance contract): LockerIterateRewards
			if len(collk) == 0 {
				continue
			}
			k := collk[rng.Intn(len(collk))]
			cl, _ := ck.GetCollectorLookupTable(ctx, k[0], k[1])
			newRate := c13Rate(rng)
			_, rfound := app.Rewardskeeper.GetReward(ctx, k[0], k[1])
			iter := rfound && (newRate.IsZero() || (cl.LockerSavingRate.IsPositive() && newRate.IsPositive()))
			var rws []string
			{
				lk, _ := app.LockerKeeper.GetLockerLookupTable(ctx, k[0], k[1])
				old := cl.LockerSavingRate
				for _, id := range lk.LockerIds {
					rws = append(rws, e.powField(ctx, k[0], k[1], id, &old))
				}
			}
			newCl := cl
			if rng.Chance(30) { // thresholds and lot sizes may change with the same message
				newCl.SurplusThreshold = sdk.NewInt(int64(1000000 + rng.Intn(20000000)))
				newCl.DebtThreshold = sdk.NewInt(int64(rng.Intn(6000000)))
				newCl.LotSize = sdk.NewInt(int64(1000 + rng.Intn(500000)))
				newCl.DebtLotSize = sdk.NewInt(int64(1000 + rng.Intn(5000000)))
			}
			out := e.atomic(ctx, func(cc sdk.Context) error {
				return ck.WasmUpdateCollectorLookupTable(cc, &bindings.MsgUpdateCollectorLookupTable{AppID: k[0], AssetID: k[1],
					DebtThreshold: newCl.DebtThreshold, SurplusThreshold: newCl.SurplusThreshold, LotSize: newCl.LotSize, DebtLotSize: newCl.DebtLotSize,
					BidFactor: cl.BidFactor, LSR: newRate})
			})
			tr.Count("lsr:" + out)
			if iter {
				tr.Count("lsr:iterated")
			}
			t1, t2 := c13T(ctx)
			tr.Line("lk.lsr", t1, t2, u(k[0]), u(k[1]), newRate.BigInt().String(), newCl.SurplusThreshold.String(), newCl.DebtThreshold.String(),
				newCl.LotSize.String(), newCl.DebtLotSize.String(), strings.Join(rws, ","), out, e.state(ctx))
		case p < 80: // fee inflows from real vault messages (asset 2), one message or a same-block burst
			b := e.borrowers[rng.Intn(len(e.borrowers))]
			pr := e.products[rng.Intn(len(e.products))]
			if pr.stable {
				e.stableMintOp(ctx, b, pr)
				continue
			}
			vid, has := e.vaultOf(ctx, b, pr.ext)
			if !has && rng.Chance(65) { // prefer working on a vault the borrower already has
				var mine []vaulttypes.Vault
				for _, v := range app.VaultKeeper.GetVaults(ctx) {
					if v.Owner == b.String() {
						mine = append(mine, v)
					}
				}
				if len(mine) > 0 {
					v := mine[rng.Intn(len(mine))]
					for _, q := range e.products {
						if q.ext == v.ExtendedPairVaultID {
							pr, vid, has = q, v.Id, true
						}
					}
				}
			}
			switch {
			case !has && rng.Chance(35): // opened and closed in the same block: no interest can be pending
				if e.vaultMsg(ctx, b, pr, "vcreate", 0) {
					if v, ok := e.vaultOf(ctx, b, pr.ext); ok {
						e.vaultMsg(ctx, b, pr, "vclose", v)
					}
				}
			case !has:
				e.vaultMsg(ctx, b, pr, "vcreate", 0)
			case rng.Chance(25): // repay more than the pending interest, then close in the same block
				if e.vaultMsg(ctx, b, pr, "vrepay-all-interest", vid) {
					e.vaultMsg(ctx, b, pr, "vclose", vid)
				}
			case rng.Chance(30):
				e.vaultMsg(ctx, b, pr, "vdraw", vid)
			case rng.Chance(55):
				e.vaultMsg(ctx, b, pr, "vrepay", vid)
			default: // close with whatever interest is pending
				e.vaultMsg(ctx, b, pr, "vclose", vid)
			}
		case p < 86: // liquidation penalty as dutch.go:410-427 / bid.go:175-187 book it
			a, as := pickKey()
			var x sdk.Int
			switch rng.Intn(6) {
			case 0:
				x = sdk.ZeroInt()
			case 1:
				x = sdk.NewInt(-int64(1 + rng.Intn(100)))
			default:
				x = sdk.NewIntFromUint64(1 + rng.U64()>>uint(28+rng.Intn(30)))
			}
			mod := []string{"auctionV1", auctionsV2types.ModuleName}[rng.Intn(2)]
			denom, known := c13Denom[as]
			if !known && x.IsPositive() {
				continue // an asset id without a denom cannot occur in the callers
			}
			out := e.atomic(ctx, func(cc sdk.Context) error {
				if x.IsPositive() && known {
					e.mint(cc, nil, mod, as, x)
					if err := app.BankKeeper.SendCoinsFromModuleToModule(cc, mod, "collectorV1", sdk.NewCoins(sdk.NewCoin(denom, x))); err != nil {
						return err
					}
				}
				return ck.SetNetFeeCollectedData(cc, a, as, x)
			})
			tr.Count("penalty:" + out)
			if out == "ok" {
				tr.Count("cell:penalty:keeper-level:x=" + c13Cell(x))
			}
			tr.Line("lk.penalty", u(a), u(as), x.String(), out, e.state(ctx))
		case p < 89: // surplus lot returned / debt-auction proceeds (surplus.go:204-208, debt.go:245-251)
			a, as := apps[rng.Intn(2)], lassets[rng.Intn(2)]
			x := sdk.NewIntFromUint64(rng.U64() >> uint(30+rng.Intn(30)))
			out := e.atomic(ctx, func(cc sdk.Context) error {
				e.mint(cc, nil, "auctionV1", as, x)
				if err := app.BankKeeper.SendCoinsFromModuleToModule(cc, "auctionV1", "collectorV1", sdk.NewCoins(sdk.NewCoin(c13Denom[as], x))); err != nil {
					return err
				}
				return ck.SetNetFeeCollectedData(cc, a, as, x)
			})
			tr.Count("aucreturn:" + out)
			tr.Line("lk.aucreturn", u(a), u(as), x.String(), out, e.state(ctx))
		case p < 95: // GetAmountFromCollector: surplus lot / debt cover
			a, as := pickKey()
			x := e.boundary(e.netFee(ctx, a, as))
			if rng.Chance(5) {
				x = sdk.NewInt(-1)
			}
			out := e.atomic(ctx, func(cc sdk.Context) error {
				_, err := ck.GetAmountFromCollector(cc, a, as, x)
				return err
			})
			tr.Count("getamount:" + out)
			tr.Line("lk.getamount", u(a), u(as), x.String(), out, e.state(ctx))
		case p < 98: // DecreaseNetFeeCollectedData on its own
			a, as := pickKey()
			x := e.boundary(e.netFee(ctx, a, as))
			if x.IsNegative() {
				x = sdk.ZeroInt()
			}
			out := e.atomic(ctx, func(cc sdk.Context) error { return ck.DecreaseNetFeeCollectedData(cc, a, as, x) })
			tr.Count("decrease:" + out)
			tr.Line("lk.decrease", u(a), u(as), x.String(), out, e.state(ctx))
		default: // surplus fund to the governance contract
			a, as := apps[rng.Intn(2)], lassets[rng.Intn(2)]
			ui := rng.Intn(len(e.users))
			x := e.boundary(e.netFee(ctx, a, as))
			if x.IsNegative() {
				x = sdk.ZeroInt()
			}
			out := e.atomic(ctx, func(cc sdk.Context) error {
				return ck.WasmMsgGetSurplusFund(cc, a, as, e.users[ui], sdk.NewCoin(c13Denom[as], x))
			})
			tr.Count("surplusfund:" + out)
			tr.Line("lk.surplusfund", u(a), u(as), u(uint64(ui)), x.String(), out, e.state(ctx))
		}
	}
}

func TestC13(t *testing.T) {
	tr := OpenTrace(t, "c13.trace")
	defer tr.Close(t)
	rng := NewRng(seed())
	e, base := c13Setup(t, tr, rng)
	// corpus first: the two witnesses of the second-generation close defect, on the real chain code
	e.v2Sequence(base, "surplus", 200000, 2000000, 20000000, 200000)
	e.v2Sequence(base, "debt", 200000, 2000000, 4700000, 1500000)
	for _, surplus := range []bool{true, false} {
		for _, withBid := range []bool{true, false} {
			for _, shutdown := range []bool{true, false} {
				e.gen1Corpus(base, surplus, withBid, shutdown)
			}
		}
	}
	for _, g1 := range []bool{true, false} {
		for _, pi := range []int{0, 2} { // product A (fees) and B (no closing fee) of app 1
			e.penaltySequence(base, g1, pi)
		}
	}
	// savings across zero-rate windows through the real wasm binding: the history of s94, the touched locker (D45), lockers
	// created in the window
	for v := 0; v < 3; v++ {
		e.zeroWindowSequence(base, v)
	}
	// first-generation dutch auction wound down under emergency shutdown after a partial bid (seed s104)
	e.dutchWinddownSequence(base, 0)
	e.dutchWinddownSequence(base, 2)
	seqs := scale(60, 1200)
	maxOps := scale(70, 160)
	for s := 0; s < seqs; s++ {
		if s%16 == 9 {
			e.zeroWindowSequence(base, 3)
			continue
		}
		if s%8 == 5 {
			lot := int64(1000 * (1 + rng.Intn(500)))
			if rng.Chance(50) {
				e.v2Sequence(base, "surplus", lot, 2000000, 10000000+lot+int64(rng.Intn(1000000)), int64(1+rng.Intn(1000000)))
			} else {
				dl := int64(1000 * (1 + rng.Intn(5000)))
				e.v2Sequence(base, "debt", lot, dl, 5000000-lot-int64(rng.Intn(1000000)), dl-int64(rng.Intn(int(dl))))
			}
			continue
		}
		if s%8 == 2 || s%8 == 6 {
			e.activationSequence(base, rng.Range(10, maxOps))
			continue
		}
		if s%16 == 4 {
			e.penaltySequence(base, rng.Chance(50), rng.Intn(8))
			continue
		}
		if s%16 == 12 {
			e.dutchWinddownSequence(base, rng.Intn(8))
			continue
		}
		e.mainSequence(base, rng.Range(10, maxOps))
	}
}
