//go:build verif

package harness

import (
	"fmt"
	"os"
	"math/big"
	"sort"
	"strings"
	"testing"
	"time"

	chain "github.com/comdex-official/comdex/app"
	"github.com/comdex-official/comdex/app/wasm/bindings"
	assettypes "github.com/comdex-official/comdex/x/asset/types"
	auctiontypes "github.com/comdex-official/comdex/x/auction/types"
	auctionsV2 "github.com/comdex-official/comdex/x/auctionsV2"
	auctionsV2types "github.com/comdex-official/comdex/x/auctionsV2/types"
	collectortypes "github.com/comdex-official/comdex/x/collector/types"
	esm "github.com/comdex-official/comdex/x/esm"
	esmtypes "github.com/comdex-official/comdex/x/esm/types"
	liq1types "github.com/comdex-official/comdex/x/liquidation/types"
	liq2types "github.com/comdex-official/comdex/x/liquidationsV2/types"
	markettypes "github.com/comdex-official/comdex/x/market/types"
	vaulttypes "github.com/comdex-official/comdex/x/vault/types"
	abci "github.com/cometbft/cometbft/abci/types"
	tmproto "github.com/cometbft/cometbft/proto/tendermint/types"
	sdk "github.com/cosmos/cosmos-sdk/types"
	authtypes "github.com/cosmos/cosmos-sdk/x/auth/types"
)

// ---- world -----------------------------------------------------------------------------------------------------

type c01Product struct {
	id, app          uint64
	assetIn, assetOut uint64
	isStable         bool
}

type c01World struct {
	t        *testing.T
	app      *chain.App
	ctx      sdk.Context
	tr       *Trace
	rng      *Rng
	users    []sdk.AccAddress
	acctNum  map[string]int
	denomOf  map[uint64]string // asset id -> denom
	decOf    map[uint64]sdk.Int
	assetIDs []uint64
	products []c01Product
	apps     []uint64
	now      time.Time
	height   int64
}

func c01Addr(n int) sdk.AccAddress {
	a := make(sdk.AccAddress, 20)
	a[0] = byte(n)
	a[19] = 0x7f
	return a
}

func (w *c01World) addAsset(name, denom string, decimals int64, mintable bool) uint64 {
	dec := new(big.Int).Exp(big.NewInt(10), big.NewInt(decimals), nil)
	err := w.app.AssetKeeper.AddAssetRecords(w.ctx, assettypes.Asset{
		Name: name, Denom: denom, Decimals: sdk.NewIntFromBigInt(dec), IsOnChain: true, IsOraclePriceRequired: true, IsCdpMintable: mintable,
	})
	if err != nil {
		w.t.Fatal(err)
	}
	for _, a := range w.app.AssetKeeper.GetAssets(w.ctx) {
		if a.Denom == denom {
			w.denomOf[a.Id] = denom
			w.decOf[a.Id] = a.Decimals
			w.assetIDs = append(w.assetIDs, a.Id)
			return a.Id
		}
	}
	w.t.Fatal("asset not found")
	return 0
}

func (w *c01World) setPrice(asset uint64, price uint64, active bool) {
	w.app.MarketKeeper.SetTwa(w.ctx, markettypes.TimeWeightedAverage{
		AssetID: asset, ScriptID: 12, Twa: price, CurrentIndex: 0, IsPriceActive: active, PriceValue: []uint64{price},
	})
}

func (w *c01World) addApp(name string) uint64 {
	err := w.app.AssetKeeper.AddAppRecords(w.ctx, assettypes.AppData{Name: name, ShortName: name, MinGovDeposit: sdk.NewInt(0), GovTimeInSeconds: 0})
	if err != nil {
		w.t.Fatal(err)
	}
	apps, _ := w.app.AssetKeeper.GetApps(w.ctx)
	for _, a := range apps {
		if a.Name == name {
			return a.Id
		}
	}
	w.t.Fatal("app not found")
	return 0
}

func (w *c01World) addPair(in, out uint64) uint64 {
	if err := w.app.AssetKeeper.AddPairsRecords(w.ctx, assettypes.Pair{AssetIn: in, AssetOut: out}); err != nil {
		w.t.Fatal(err)
	}
	for _, p := range w.app.AssetKeeper.GetPairs(w.ctx) {
		if p.AssetIn == in && p.AssetOut == out {
			return p.Id
		}
	}
	w.t.Fatal("pair not found")
	return 0
}

func (w *c01World) addProduct(name string, app, pair uint64, b bindings.MsgAddExtendedPairsVault) uint64 {
	b.AppID, b.PairID, b.PairName = app, pair, name
	if err := w.app.AssetKeeper.WasmAddExtendedPairsVaultRecords(w.ctx, &b); err != nil {
		w.t.Fatal(err)
	}
	eps, _ := w.app.AssetKeeper.GetPairsVaults(w.ctx)
	for _, e := range eps {
		if e.PairName == name && e.AppId == app {
			p, _ := w.app.AssetKeeper.GetPair(w.ctx, e.PairId)
			w.products = append(w.products, c01Product{id: e.Id, app: app, assetIn: p.AssetIn, assetOut: p.AssetOut, isStable: e.IsStableMintVault})
			return e.Id
		}
	}
	w.t.Fatal("product not found")
	return 0
}

func c01Dec(s string) sdk.Dec { return sdk.MustNewDecFromStr(s) }

func (w *c01World) emitProducts() {
	eps, _ := w.app.AssetKeeper.GetPairsVaults(w.ctx)
	for _, e := range eps {
		w.emitProduct("vault.product", e)
	}
}

// emitProduct prints the configuration the handlers will read for one product (`vault.product` at the start of a history,
// `vault.reconfig` after the configuration was changed through the real update paths).
func (w *c01World) emitProduct(kind string, e assettypes.ExtendedPairVault) {
	p, _ := w.app.AssetKeeper.GetPair(w.ctx, e.PairId)
	ain, _ := w.app.AssetKeeper.GetAsset(w.ctx, p.AssetIn)
	aout, _ := w.app.AssetKeeper.GetAsset(w.ctx, p.AssetOut)
	w.tr.Line(kind, u(e.Id), u(e.AppId), u(p.AssetIn), u(p.AssetOut), ain.Decimals.String(), aout.Decimals.String(),
		e.MinCr.BigInt().String(), e.DebtFloor.String(), e.DebtCeiling.String(), e.DrawDownFee.BigInt().String(), e.ClosingFee.BigInt().String(),
		fmt.Sprint(e.IsStableMintVault), fmt.Sprint(e.IsVaultActive), fmt.Sprint(e.AssetOutOraclePrice), u(e.AssetOutPrice))
}

func (w *c01World) acct(addr string) int {
	if n, ok := w.acctNum[addr]; ok {
		return n
	}
	return 99
}

// c01NewWorld builds an app with 2 apps, collateral assets of several decimal scales, one or two debt assets and a mix of
// products (zero / non-zero draw-down, closing and stability fees; stable-mint products with unequal decimals).
func c01NewWorld(t *testing.T, tr *Trace, rng *Rng) *c01World {
	w := &c01World{t: t, tr: tr, rng: rng, acctNum: map[string]int{}, denomOf: map[uint64]string{}, decOf: map[uint64]sdk.Int{}}
	w.app = chain.Setup(t, false)
	w.now = time.Unix(1_700_000_000, 0).UTC()
	w.height = 10
	w.ctx = w.app.BaseApp.NewContext(false, tmproto.Header{Height: w.height, Time: w.now})
	decChoices := []int64{0, 6, 8, 12, 18}
	pickDec := func() int64 { return decChoices[rng.Intn(len(decChoices))] }
	aA := w.addAsset("ATOM", "uatom", 6, false)
	aB := w.addAsset("WETH", "weth", pickDec(), false)
	debtDec := []int64{6, 6, 12, 8}[rng.Intn(4)]
	aD := w.addAsset("CMST", "ucmst", debtDec, true)
	aS := w.addAsset("USDC", "uusdc", []int64{6, 6, 12, 18, 8}[rng.Intn(5)], false)
	// a second debt asset (so that supply / principal / the redemption register are kept per denom, and an app's emergency
	// redemption has several debt assets)
	aE := w.addAsset("EURX", "ueurx", []int64{6, 8, 18}[rng.Intn(3)], true)
	w.setPrice(aA, uint64(1+rng.Intn(30))*500000, true)
	w.setPrice(aB, uint64(1+rng.Intn(3000))*1000000, true)
	w.setPrice(aD, 1000000, true)
	w.setPrice(aS, 1000000, true)
	w.setPrice(aE, uint64(900000+rng.Intn(300000)), true)
	app1 := w.addApp("appone")
	app2 := w.addApp("apptwo")
	w.apps = []uint64{app1, app2}
	pAD := w.addPair(aA, aD)
	pBD := w.addPair(aB, aD)
	pSD := w.addPair(aS, aD)
	pAE := w.addPair(aA, aE)
	base := bindings.MsgAddExtendedPairsVault{
		StabilityFee: c01Dec("0.02"), ClosingFee: c01Dec("0"), LiquidationPenalty: c01Dec("0.15"), DrawDownFee: c01Dec("0.01"),
		IsVaultActive: true, DebtCeiling: sdk.NewInt(1_000_000_000_000), DebtFloor: sdk.NewInt(1_000_000), MinCr: c01Dec("1.5"),
		AssetOutOraclePrice: true, AssetOutPrice: 1000000, MinUsdValueLeft: 1000000,
	}
	p1 := base
	p1.StabilityFee = c01Dec([]string{"0.02", "0.5", "0.0", "3.0"}[rng.Intn(3)])
	p1.ClosingFee = c01Dec([]string{"0", "0.005", "0.02"}[rng.Intn(3)])
	p1.DebtCeiling = sdk.NewInt(int64(5+rng.Intn(60)) * 10_000_000)
	w.addProduct("ATOMA", app1, pAD, p1)
	p2 := base
	p2.DrawDownFee = c01Dec("0")
	p2.ClosingFee = c01Dec("0.01")
	p2.StabilityFee = c01Dec("0.25")
	p2.AssetOutOraclePrice = rng.Chance(50)
	p2.MinCr = c01Dec([]string{"1.5", "2.3", "1.000000000000000001", "1.1"}[rng.Intn(4)])
	w.addProduct("WETHA", app1, pBD, p2)
	p3 := base
	p3.IsStableMintVault = true
	p3.StabilityFee = c01Dec("0")
	p3.DrawDownFee = c01Dec([]string{"0", "0", "0.001", "0.05"}[rng.Intn(4)])
	p3.DebtFloor = sdk.NewInt(1000)
	w.addProduct("USDCS", app1, pSD, p3)
	p4 := base
	p4.DebtFloor = sdk.NewInt(int64(1 + rng.Intn(3_000_000)))
	p4.DrawDownFee = c01Dec([]string{"0.01", "0.000000000000000001", "0.999", "0.3"}[rng.Intn(4)])
	w.addProduct("ATOMB", app2, pAD, p4)
	p5 := base
	p5.ClosingFee = c01Dec([]string{"0", "0.003"}[rng.Intn(2)])
	p5.DrawDownFee = c01Dec([]string{"0", "0.002"}[rng.Intn(2)])
	p5.LiquidationPenalty = c01Dec([]string{"0.15", "0", "0.4"}[rng.Intn(3)])
	p5.DebtFloor = sdk.NewInt(int64(1 + rng.Intn(2_000_000)))
	w.addProduct("ATOME", app1, pAE, p5)
	for _, a := range w.apps {
		_ = w.app.Rewardskeeper.WhitelistAppIDVault(w.ctx, a)
		// second-generation liquidation with Dutch auctions enabled for the app
		d := liq2types.DutchAuctionParam{Premium: c01Dec("1.2"), Discount: c01Dec("0.7"), DecrementFactor: sdk.NewInt(1)}
		e := liq2types.EnglishAuctionParam{DecrementFactor: sdk.NewInt(1)}
		w.app.NewliqKeeper.SetLiquidationWhiteListing(w.ctx, liq2types.LiquidationWhiteListing{AppId: a, Initiator: true, IsDutchActivated: true,
			DutchAuctionParam: &d, IsEnglishActivated: false, EnglishAuctionParam: &e, KeeeperIncentive: c01Dec("0.1")})
	}
	// first-generation liquidation (x/liquidation) and Dutch auctions (x/auction) for every app as well: which generation
	// seizes a given vault is drawn per operation
	for _, a := range w.apps {
		w.app.LiquidationKeeper.SetAppIDForLiquidation(w.ctx, a)
		w.app.AuctionKeeper.SetAuctionParams(w.ctx, auctiontypes.AuctionParams{AppId: a, AuctionDurationSeconds: 3600, Buffer: c01Dec("1.2"),
			Cusp: c01Dec("0.7"), Step: sdk.NewInt(1), PriceFunctionType: 1, SurplusId: 1, DebtId: 2, DutchId: 3, BidDurationSeconds: 3600})
	}
	w.app.NewaucKeeper.SetAuctionParams(w.ctx, auctionsV2types.AuctionParams{AuctionDurationSeconds: 3600, Step: c01Dec("0.1"),
		WithdrawalFee: sdk.ZeroDec(), ClosingFee: sdk.ZeroDec(), MinUsdValueLeft: 100000, BidFactor: c01Dec("0.1"),
		LiquidationPenalty: c01Dec("0.1"), AuctionBonus: sdk.ZeroDec()})
	// module accounts exist on a live chain (created at first use); create them before anybody can send coins there
	for _, m := range []string{vaulttypes.ModuleName, collectortypes.ModuleName, auctionsV2types.ModuleName, auctiontypes.ModuleName, esmtypes.ModuleName} {
		w.app.AccountKeeper.GetModuleAccount(w.ctx, m)
	}
	// module accounts and users
	w.acctNum[authtypes.NewModuleAddress(vaulttypes.ModuleName).String()] = 0
	w.acctNum[authtypes.NewModuleAddress(collectortypes.ModuleName).String()] = 1
	w.acctNum[authtypes.NewModuleAddress(auctionsV2types.ModuleName).String()] = 2
	w.acctNum[authtypes.NewModuleAddress(esmtypes.ModuleName).String()] = 3
	// emergency-shutdown parameters per app: redemption rates for a random subset of the assets (a stable-mint vault is
	// redeemed only when both of its assets have a rate; ordinary vaults fall back to the price snapshot)
	for _, a := range w.apps {
		var rates []esmtypes.DebtAssetsRates
		for _, id := range w.assetIDs {
			if rng.Chance(75) {
				rates = append(rates, esmtypes.DebtAssetsRates{AssetID: id, Rates: uint64(1+rng.Intn(3)) * 500000})
			}
		}
		w.app.EsmKeeper.SetESMTriggerParams(w.ctx, esmtypes.ESMTriggerParams{AppId: a, TargetValue: sdk.NewCoin("uharbor", sdk.NewInt(1)), CoolOffPeriod: 3600, AssetsRates: rates})
	}
	nUsers := 2 + rng.Intn(4)
	for i := 0; i < nUsers; i++ {
		a := c01Addr(10 + i)
		w.users = append(w.users, a)
		w.acctNum[a.String()] = 10 + i
	}
	tr.Line("vault.begin")
	w.emitProducts()
	// a sponsor funds the apps' liquidation reserve so that under-water auctions can close
	sponsor := c01Addr(200)
	for _, a := range w.apps {
		for _, debt := range []uint64{aD, aE} {
			amt := sdk.NewInt(1_000_000_000_000_000)
			w.fund(sponsor, debt, amt)
			if !w.deliver(liq2types.NewMsgAppReserveFundsRequest(sponsor.String(), a, debt, sdk.NewCoin(w.denomOf[debt], amt))) {
				t.Fatal("cannot fund the app reserve")
			}
		}
	}
	return w
}

// ---- delivery --------------------------------------------------------------------------------------------------

// deliver re-enacts baseapp's runMsgs: ValidateBasic, then the routed handler on a cache context that is written back
// only on success; a panic is a failed message.
func (w *c01World) deliver(msg sdk.Msg) bool {
	if err := msg.ValidateBasic(); err != nil {
		return false
	}
	h := w.app.MsgServiceRouter().Handler(msg)
	if h == nil {
		w.t.Fatalf("no handler for %T", msg)
	}
	cctx, write := w.ctx.CacheContext()
	ok := false
	panicked, pmsg := try(func() {
		_, err := h(cctx, msg)
		ok = err == nil
		if err != nil && os.Getenv("VERIF_DEBUG") != "" {
			fmt.Printf("DEBUG seq=%d %T: %v\n", w.tr.seq, msg, err)
		}
	})
	if panicked && os.Getenv("VERIF_DEBUG") != "" {
		fmt.Printf("DEBUG seq=%d %T: PANIC %s\n", w.tr.seq, msg, pmsg)
	}
	if panicked || !ok {
		return false
	}
	write()
	return true
}

// effPrice is the price CalculateCollateralizationRatio will use for `asset` of a product of `app`: the ESM snapshot once
// shutdown has been executed with a snapshot (no snapshot: the ratio cannot be computed), else the active oracle price.
func (w *c01World) effPrice(app, asset uint64) string {
	st, found := w.app.EsmKeeper.GetESMStatus(w.ctx, app)
	if found && st.Status {
		if st.SnapshotStatus {
			if p, ok := w.app.EsmKeeper.GetSnapshotOfPrices(w.ctx, app, asset); ok {
				return u(p)
			}
		}
		return "-"
	}
	twa, found := w.app.MarketKeeper.GetTwa(w.ctx, asset)
	if found && twa.IsPriceActive {
		return u(twa.Twa)
	}
	return "-"
}

func (w *c01World) productByID(id uint64) *c01Product {
	for i := range w.products {
		if w.products[i].id == id {
			return &w.products[i]
		}
	}
	return nil
}

// env renders what the handler will read from other modules for (app, product, vault).
func (w *c01World) env(app, prod, vaultID uint64, needIota bool) string {
	esm, past, brk := "0", "0", "0"
	st, found := w.app.EsmKeeper.GetESMStatus(w.ctx, app)
	if found && st.Status {
		esm = "1"
		if w.ctx.BlockTime().After(st.EndTime) {
			past = "1"
		}
	}
	ks, _ := w.app.EsmKeeper.GetKillSwitchData(w.ctx, app)
	if ks.BreakerEnable {
		brk = "1"
	}
	pin, pout := "-", "-"
	if p := w.productByID(prod); p != nil {
		pin, pout = w.effPrice(p.app, p.assetIn), w.effPrice(p.app, p.assetOut)
	}
	iota := "0"
	if needIota {
		iota = w.iota(app, prod, vaultID)
	}
	return "esm=" + esm + ";past=" + past + ";brk=" + brk + ";pin=" + pin + ";pout=" + pout + ";iota=" + iota
}

// iota runs the real CalculateVaultInterest on a discarded branch and reports what it adds to the vault's interest.
func (w *c01World) iota(app, prod, vaultID uint64) string {
	v, found := w.app.VaultKeeper.GetVault(w.ctx, vaultID)
	if !found {
		return "0"
	}
	cctx, _ := w.ctx.CacheContext()
	res := "-"
	try(func() {
		total := v.AmountOut.Add(v.InterestAccumulated)
		if err := w.app.Rewardskeeper.CalculateVaultInterest(cctx, app, prod, vaultID, total, v.BlockHeight, v.BlockTime.Unix()); err != nil {
			return
		}
		v2, _ := w.app.VaultKeeper.GetVault(cctx, vaultID)
		res = v2.InterestAccumulated.Sub(v.InterestAccumulated).String()
	})
	return res
}

func c01Outcome(ok bool) string {
	if ok {
		return "ok"
	}
	return "err"
}

func (w *c01World) state() { w.stateKind("vault.state") }

func (w *c01World) stateKind(kind string) {
	k := w.app.VaultKeeper
	var vs, ss, ms, bs, sup []string
	for _, v := range k.GetVaults(w.ctx) {
		vs = append(vs, fmt.Sprintf("%d:%d:%d:%s:%s:%s:%s", v.Id, w.acct(v.Owner), v.ExtendedPairVaultID, v.AmountIn, v.AmountOut, v.InterestAccumulated, v.ClosingFeeAccumulated))
	}
	for _, s := range k.GetStableMintVaults(w.ctx) {
		ss = append(ss, fmt.Sprintf("%d:%d:%s:%s", s.Id, s.ExtendedPairVaultID, s.AmountIn, s.AmountOut))
	}
	maps := k.GetAllAppExtendedPairVaultMapping(w.ctx)
	sort.Slice(maps, func(i, j int) bool { return maps[i].ExtendedPairId < maps[j].ExtendedPairId })
	for _, m := range maps {
		ids := make([]string, len(m.VaultIds))
		for i, id := range m.VaultIds {
			ids[i] = u(id)
		}
		ms = append(ms, fmt.Sprintf("%d:%s:%s:%s", m.ExtendedPairId, m.CollateralLockedAmount, m.TokenMintedAmount, strings.Join(ids, "|")))
	}
	accts := []sdk.AccAddress{authtypes.NewModuleAddress(vaulttypes.ModuleName), authtypes.NewModuleAddress(collectortypes.ModuleName), authtypes.NewModuleAddress(auctionsV2types.ModuleName), authtypes.NewModuleAddress(esmtypes.ModuleName)}
	accts = append(accts, w.users...)
	for _, a := range accts {
		for _, id := range w.assetIDs {
			amt := w.app.BankKeeper.GetBalance(w.ctx, a, w.denomOf[id]).Amount
			if a.Equals(authtypes.NewModuleAddress(auctionsV2types.ModuleName)) {
				// "auction custody" = both generations' auction module accounts
				amt = amt.Add(w.app.BankKeeper.GetBalance(w.ctx, authtypes.NewModuleAddress(auctiontypes.ModuleName), w.denomOf[id]).Amount)
			}
			bs = append(bs, fmt.Sprintf("%d:%d:%s", w.acct(a.String()), id, amt))
		}
	}
	for _, id := range w.assetIDs {
		sup = append(sup, fmt.Sprintf("%d:%s", id, w.app.BankKeeper.GetSupply(w.ctx, w.denomOf[id]).Amount))
	}
	var lk []string
	for _, l := range w.app.NewliqKeeper.GetLockedVaults(w.ctx) {
		if l.InitiatorType != "vault" {
			continue
		}
		// principal at seizure = DebtToken - interest - closing fee is not stored; the harness records it at seizure time
		if rec, ok := c01Seized[l.OriginalVaultId]; ok && rec.world == w {
			lk = append(lk, fmt.Sprintf("%d:%d:%s:%s:%s", l.OriginalVaultId, l.ExtendedPairId, rec.in, rec.out, rec.debt))
		}
	}
	for _, l := range w.app.LiquidationKeeper.GetLockedVaults(w.ctx) {
		if rec, ok := c01Seized[l.OriginalVaultId]; ok && rec.world == w && rec.gen1 {
			lk = append(lk, fmt.Sprintf("%d:%d:%s:%s:%s", l.OriginalVaultId, l.ExtendedPairId, rec.in, rec.out, rec.debt))
		}
	}
	sort.Slice(lk, func(i, j int) bool {
		var a, b int
		fmt.Sscanf(lk[i], "%d:", &a)
		fmt.Sscanf(lk[j], "%d:", &b)
		return a < b
	})
	var rd []string
	for _, a := range w.apps {
		for _, x := range w.app.EsmKeeper.GetAllAssetToAmount(w.ctx, a) {
			if !x.IsCollateral {
				rd = append(rd, fmt.Sprintf("%d:%d:%s", a, x.AssetID, x.Amount))
			}
		}
	}
	w.tr.Line(kind, "v="+strings.Join(vs, ","), "s="+strings.Join(ss, ","), "lk="+strings.Join(lk, ","), "m="+strings.Join(ms, ","),
		"len="+u(k.GetLengthOfVault(w.ctx)), "nv="+u(k.GetIDForVault(w.ctx)), "ns="+u(k.GetIDForStableVault(w.ctx)),
		"bal="+strings.Join(bs, ","), "sup="+strings.Join(sup, ","), "rd="+strings.Join(rd, ","))
}

type c01SeizedRec struct {
	world         *c01World
	in, out, debt sdk.Int
	gen1          bool
}

var c01Seized = map[uint64]c01SeizedRec{}

// ---- generators ------------------------------------------------------------------------------------------------

func (w *c01World) amount(kind int) sdk.Int {
	r := w.rng
	switch kind {
	case 0:
		return sdk.NewInt(int64(1 + r.Intn(20)))
	case 1:
		return sdk.NewInt(int64(1+r.Intn(1000)) * 1000)
	case 2:
		return sdk.NewInt(int64(1+r.Intn(500)) * 1_000_000)
	default:
		return sdk.NewInt(int64(r.U64() >> uint(20+r.Intn(40))))
	}
}

// crBoundaryIn solves amountIn for ratio == minCr (then the caller perturbs it by -1, 0, +1).
func (w *c01World) crBoundaryIn(p *c01Product, out sdk.Int) sdk.Int {
	ep, _ := w.app.AssetKeeper.GetPairsVault(w.ctx, p.id)
	tin, f1 := w.app.MarketKeeper.GetTwa(w.ctx, p.assetIn)
	tout, f2 := w.app.MarketKeeper.GetTwa(w.ctx, p.assetOut)
	if !f1 || !f2 || tin.Twa == 0 {
		return sdk.NewInt(1)
	}
	pout := tout.Twa
	if !ep.AssetOutOraclePrice {
		pout = ep.AssetOutPrice
	}
	// in = minCr * out * pout * decIn / (pin * decOut)
	num := ep.MinCr.MulInt(out).MulInt(sdk.NewIntFromUint64(pout)).MulInt(w.decOf[p.assetIn])
	den := sdk.NewDecFromInt(sdk.NewIntFromUint64(tin.Twa).Mul(w.decOf[p.assetOut]))
	var res sdk.Int
	if panicked, _ := try(func() { res = num.Quo(den).TruncateInt() }); panicked {
		return sdk.NewInt(1)
	}
	return res
}

// crBoundaryOut solves the total debt for ratio == minCr at the given collateral (the caller subtracts what is owed already).
func (w *c01World) crBoundaryOut(p *c01Product, in sdk.Int) sdk.Int {
	ep, _ := w.app.AssetKeeper.GetPairsVault(w.ctx, p.id)
	tin, f1 := w.app.MarketKeeper.GetTwa(w.ctx, p.assetIn)
	tout, f2 := w.app.MarketKeeper.GetTwa(w.ctx, p.assetOut)
	if !f1 || !f2 || tout.Twa == 0 || !ep.MinCr.IsPositive() {
		return sdk.NewInt(1)
	}
	pout := tout.Twa
	if !ep.AssetOutOraclePrice {
		pout = ep.AssetOutPrice
	}
	if pout == 0 {
		return sdk.NewInt(1)
	}
	// out = in * pin * decOut / (minCr * pout * decIn)
	num := sdk.NewDecFromInt(in.Mul(sdk.NewIntFromUint64(tin.Twa)).Mul(w.decOf[p.assetOut]))
	den := ep.MinCr.MulInt(sdk.NewIntFromUint64(pout)).MulInt(w.decOf[p.assetIn])
	var res sdk.Int
	if panicked, _ := try(func() { res = num.Quo(den).TruncateInt() }); panicked {
		return sdk.NewInt(1)
	}
	return res
}

// pendingInterest is what the message about to be delivered will book on the vault before its own checks.
func (w *c01World) pendingInterest(app, prod, vaultID uint64) sdk.Int {
	if i, ok := sdk.NewIntFromString(w.iota(app, prod, vaultID)); ok {
		return i
	}
	return sdk.ZeroInt()
}

func (w *c01World) fund(user sdk.AccAddress, asset uint64, amt sdk.Int) {
	coins := sdk.NewCoins(sdk.NewCoin(w.denomOf[asset], amt))
	if err := w.app.BankKeeper.MintCoins(w.ctx, "mint", coins); err != nil {
		w.t.Fatal(err)
	}
	if err := w.app.BankKeeper.SendCoinsFromModuleToAccount(w.ctx, "mint", user, coins); err != nil {
		w.t.Fatal(err)
	}
	w.tr.Line("vault.msg", "fund", fmt.Sprint(w.acct(user.String())), u(asset), amt.String(), "-", "-", "esm=0;past=0;brk=0;pin=-;pout=-;iota=0", "ok")
}

func (w *c01World) openAuctions() []auctionsV2types.Auction {
	var out []auctionsV2types.Auction
	for _, a := range w.app.NewaucKeeper.GetAuctions(w.ctx) {
		out = append(out, a)
	}
	return out
}

func (w *c01World) assetByDenom(denom string) uint64 {
	for id, d := range w.denomOf {
		if d == denom {
			return id
		}
	}
	return 0
}

func (w *c01World) vaultsOf(user string) []vaulttypes.Vault {
	var out []vaulttypes.Vault
	for _, v := range w.app.VaultKeeper.GetVaults(w.ctx) {
		if user == "" || v.Owner == user {
			out = append(out, v)
		}
	}
	return out
}

func (w *c01World) advance() {
	r := w.rng
	w.height++
	switch r.Intn(6) {
	case 0:
	case 1:
		w.now = w.now.Add(time.Duration(1+r.Intn(10)) * time.Second)
	case 2:
		w.now = w.now.Add(time.Duration(1+r.Intn(48)) * time.Hour)
	default:
		w.now = w.now.Add(time.Duration(1+r.Intn(400)) * 24 * time.Hour)
	}
	w.ctx = w.ctx.WithBlockHeight(w.height).WithBlockTime(w.now)
}

func (w *c01World) oneOp() {
	r := w.rng
	w.advance()
	user := w.users[r.Intn(len(w.users))]
	un := fmt.Sprint(w.acct(user.String()))
	p := w.products[r.Intn(len(w.products))]
	app := p.app
	if r.Chance(4) {
		app = w.apps[r.Intn(len(w.apps))] // sometimes the wrong app
	}
	emit := func(kind string, a1, a2, a3, a4, a5 string, env string, ok bool) {
		w.tr.Count("op:" + kind + ":" + c01Outcome(ok))
		w.tr.Line("vault.msg", kind, a1, a2, a3, a4, a5, env, c01Outcome(ok))
		w.state()
	}
	// pick a target vault: mostly the user's own
	pickVault := func() (vaulttypes.Vault, bool) {
		own := w.vaultsOf(user.String())
		if len(own) > 0 && !r.Chance(6) {
			return own[r.Intn(len(own))], true
		}
		all := w.vaultsOf("")
		if len(all) > 0 {
			return all[r.Intn(len(all))], true
		}
		return vaulttypes.Vault{}, false
	}
	if r.Chance(3) {
		// emergency controls: circuit breaker on/off, emergency shutdown with / without price snapshot and cool-off end
		a := w.apps[r.Intn(len(w.apps))]
		if r.Chance(60) {
			ks, _ := w.app.EsmKeeper.GetKillSwitchData(w.ctx, a)
			_ = w.app.EsmKeeper.SetKillSwitchData(w.ctx, esmtypes.KillSwitchParams{AppId: a, BreakerEnable: !ks.BreakerEnable})
			w.tr.Count("op:breaker")
		} else {
			st, _ := w.app.EsmKeeper.GetESMStatus(w.ctx, a)
			if st.VaultRedemptionStatus || st.StableVaultRedemptionStatus || st.CollectorTransaction {
				// redemption has started: the shutdown is final
			} else if st.Status {
				st.Status = false
			} else {
				if r.Chance(60) {
					// several products of the app get open vaults first, in interleaved order: the redemption sweep then meets
					// different collaterals minting one debt asset and one collateral minting different debt assets
					w.populate(a, 2+r.Intn(4))
				}
				st = esmtypes.ESMStatus{AppId: a, Status: true, StartTime: w.now, EndTime: w.now.Add(time.Duration(r.Intn(72)) * time.Hour), SnapshotStatus: r.Chance(70)}
				for _, id := range w.assetIDs {
					if twa, f := w.app.MarketKeeper.GetTwa(w.ctx, id); f && r.Chance(90) {
						w.app.EsmKeeper.SetSnapshotOfPrices(w.ctx, a, id, twa.Twa)
					}
				}
			}
			w.app.EsmKeeper.SetESMStatus(w.ctx, st)
			w.tr.Count("op:esm")
			if st.Status && r.Chance(70) {
				// right after the shutdown, inside the cool-off period: an owner withdraws against the principal at ratio 1
				w.esmWithdrawOp()
			}
		}
	}
	if r.Chance(5) {
		w.reconfigOp()
		return
	}
	if len(w.openAuctions()) > 0 && r.Chance(12) && w.auctionBlock2Op() {
		return
	}
	if r.Chance(10) && w.esmWithdrawOp() {
		return
	}
	if w.esmDue() && r.Chance(25) {
		w.esmBlockOp()
		return
	}
	if w.esmRegistered() && r.Chance(15) {
		w.esmRedeemOp(user)
		return
	}
	if r.Chance(4) {
		w.sweepOp()
		return
	}
	if len(w.openAuctions()) > 0 && r.Chance(20) {
		w.bidOp(user)
		return
	}
	if len(w.openAuctions1()) > 0 && r.Chance(20) {
		if r.Chance(35) && w.windOp1() {
			return
		}
		w.bidOp1(user)
		return
	}
	if p.isStable && r.Chance(70) {
		w.stableOp(user, p, app)
		return
	}
	if r.Chance(2) {
		// a message of the wrong kind for the product: an ordinary create against a stable-mint product, a stable mint
		// against an ordinary product (`IsStableMintVault` is checked by every handler of either family)
		amt := w.amount(2)
		env := w.env(app, p.id, 0, false)
		if p.isStable {
			ok := w.deliver(&vaulttypes.MsgCreateRequest{From: user.String(), AppId: app, ExtendedPairVaultId: p.id, AmountIn: amt.MulRaw(3), AmountOut: amt})
			emit("create", un, u(app), u(p.id), amt.MulRaw(3).String(), amt.String(), env, ok)
		} else {
			ok := w.deliver(&vaulttypes.MsgCreateStableMintRequest{From: user.String(), AppId: app, ExtendedPairVaultId: p.id, Amount: amt})
			emit("stableCreate", un, u(app), u(p.id), amt.String(), "-", env, ok)
		}
		w.tr.Count("op:wrong-kind-for-product")
		return
	}
	switch c := r.Intn(100); {
	case c < 6: // price move / deactivation
		a := w.assetIDs[r.Intn(len(w.assetIDs))]
		twa, _ := w.app.MarketKeeper.GetTwa(w.ctx, a)
		np := twa.Twa
		switch r.Intn(4) {
		case 0:
			np = np * uint64(50+r.Intn(100)) / 100
		case 1:
			np = np * uint64(100+r.Intn(100)) / 100
		}
		if np == 0 {
			np = 1
		}
		w.setPrice(a, np, !r.Chance(15))
		w.tr.Count("op:price")
	case c < 12: // top up collateral / stable asset
		a := []uint64{p.assetIn, w.assetIDs[r.Intn(len(w.assetIDs))]}[r.Intn(2)]
		if a == w.products[0].assetOut && !r.Chance(10) {
			a = p.assetIn
		}
		w.fund(user, a, w.amount(2).MulRaw(int64(1+r.Intn(50))))
		w.state()
	case c < 14: // unsolicited coins to the vault module account
		a := w.assetIDs[r.Intn(len(w.assetIDs))]
		amt := w.amount(r.Intn(3))
		err := w.app.BankKeeper.SendCoins(w.ctx, user, authtypes.NewModuleAddress(vaulttypes.ModuleName), sdk.NewCoins(sdk.NewCoin(w.denomOf[a], amt)))
		emit("donate", un, u(a), amt.String(), "-", "-", "esm=0;past=0;brk=0;pin=-;pout=-;iota=0", err == nil)
	case c < 34 && !p.isStable: // create
		out := w.amount(r.Intn(4))
		ep, _ := w.app.AssetKeeper.GetPairsVault(w.ctx, p.id)
		switch r.Intn(5) {
		case 0:
			out = ep.DebtFloor.AddRaw(int64(r.Intn(3) - 1))
		case 1:
			st, _ := w.app.VaultKeeper.CheckAppExtendedPairVaultMapping(w.ctx, p.app, p.id)
			out = ep.DebtCeiling.Sub(st).AddRaw(int64(r.Intn(3) - 1))
		default:
			out = out.Add(ep.DebtFloor)
		}
		in := w.crBoundaryIn(&p, out)
		switch r.Intn(6) {
		case 0:
			in = in.AddRaw(int64(r.Intn(5) - 2))
		case 1:
			in = in.MulRaw(int64(2 + r.Intn(3)))
		case 2:
			in = w.amount(r.Intn(4))
		default:
			in = in.MulRaw(int64(110+r.Intn(300))).QuoRaw(100)
		}
		if r.Chance(85) {
			bal := w.app.BankKeeper.GetBalance(w.ctx, user, w.denomOf[p.assetIn]).Amount
			if in.IsPositive() && bal.LT(in) && in.LT(sdk.NewInt(1).MulRaw(1<<62)) {
				w.fund(user, p.assetIn, in.Sub(bal).AddRaw(int64(r.Intn(1000))))
			}
		}
		env := w.env(app, p.id, 0, false)
		ok := w.deliver(&vaulttypes.MsgCreateRequest{From: user.String(), AppId: app, ExtendedPairVaultId: p.id, AmountIn: in, AmountOut: out})
		emit("create", un, u(app), u(p.id), in.String(), out.String(), env, ok)
		if ok && r.Chance(12) {
			// closed in the block it was opened in: no interest has accrued, the closing fee is the only thing the collector gets
			if vs := w.vaultsOf(user.String()); len(vs) > 0 {
				v := vs[len(vs)-1]
				need := v.AmountOut.Add(v.InterestAccumulated).Add(v.ClosingFeeAccumulated)
				if bal := w.app.BankKeeper.GetBalance(w.ctx, user, w.denomOf[p.assetOut]).Amount; bal.LT(need) {
					w.fund(user, p.assetOut, need.Sub(bal))
				}
				env2 := w.env(v.AppId, v.ExtendedPairVaultID, v.Id, true)
				okk := w.deliver(&vaulttypes.MsgCloseRequest{From: user.String(), AppId: v.AppId, ExtendedPairVaultId: v.ExtendedPairVaultID, UserVaultId: v.Id})
				w.tr.Count(fmt.Sprintf("op:close-in-opening-block:closingfee>0=%v", v.ClosingFeeAccumulated.IsPositive()))
				emit("close", un, u(v.AppId), u(v.ExtendedPairVaultID), u(v.Id), "-", env2, okk)
			}
		}
	case c < 34: // stable create
		amt := w.amount(1 + r.Intn(3))
		if r.Chance(80) {
			bal := w.app.BankKeeper.GetBalance(w.ctx, user, w.denomOf[p.assetIn]).Amount
			if bal.LT(amt) {
				w.fund(user, p.assetIn, amt.Sub(bal))
			}
		}
		env := w.env(app, p.id, 0, false)
		ok := w.deliver(&vaulttypes.MsgCreateStableMintRequest{From: user.String(), AppId: app, ExtendedPairVaultId: p.id, Amount: amt})
		emit("stableCreate", un, u(app), u(p.id), amt.String(), "-", env, ok)
	case c < 46 && p.isStable: // stable deposit / withdraw
		svs := w.app.VaultKeeper.GetStableMintVaults(w.ctx)
		sid := uint64(1)
		if len(svs) > 0 {
			sid = svs[r.Intn(len(svs))].Id
		}
		amt := w.amount(r.Intn(4))
		env := w.env(app, p.id, 0, false)
		if r.Chance(55) {
			if r.Chance(80) {
				bal := w.app.BankKeeper.GetBalance(w.ctx, user, w.denomOf[p.assetIn]).Amount
				if bal.LT(amt) {
					w.fund(user, p.assetIn, amt.Sub(bal))
				}
			}
			ok := w.deliver(&vaulttypes.MsgDepositStableMintRequest{From: user.String(), AppId: app, ExtendedPairVaultId: p.id, Amount: amt, StableVaultId: sid})
			emit("stableDeposit", un, u(app), u(p.id), u(sid), amt.String(), env, ok)
		} else {
			bal := w.app.BankKeeper.GetBalance(w.ctx, user, w.denomOf[p.assetOut]).Amount
			if r.Chance(70) && bal.IsPositive() {
				amt = bal.QuoRaw(int64(1 + r.Intn(4)))
			}
			ok := w.deliver(&vaulttypes.MsgWithdrawStableMintRequest{From: user.String(), AppId: app, ExtendedPairVaultId: p.id, Amount: amt, StableVaultId: sid})
			emit("stableWithdraw", un, u(app), u(p.id), u(sid), amt.String(), env, ok)
		}
	case c < 56 && r.Chance(45):
		// anyone asks the second-generation liquidation module to liquidate a vault (after a collateral price crash, often)
		v, ok := pickVault()
		if !ok {
			return
		}
		vp := w.productByID(v.ExtendedPairVaultID)
		restore := uint64(0)
		if r.Chance(60) {
			twa, _ := w.app.MarketKeeper.GetTwa(w.ctx, vp.assetIn)
			np := twa.Twa * uint64(20+r.Intn(70)) / 100
			if r.Chance(80) {
				restore = twa.Twa
			}
			if r.Chance(70) {
				// just below the liquidation point: the auction can then be filled by several partial bids
				owed := v.AmountOut.Add(v.InterestAccumulated).Add(v.ClosingFeeAccumulated)
				need := w.crBoundaryIn(vp, owed)
				if v.AmountIn.IsPositive() && need.IsPositive() && need.IsInt64() && v.AmountIn.IsInt64() {
					f := float64(750+r.Intn(245)) / 1000
					np = uint64(float64(twa.Twa) * float64(need.Int64()) / float64(v.AmountIn.Int64()) * f)
					w.tr.Count("op:liquidate:price-just-below")
					restore = twa.Twa // a dip: the price comes back afterwards, other vaults are not dragged under water
				}
			}
			if np == 0 {
				np = 1
			}
			w.setPrice(vp.assetIn, np, true)
		}
		w.liquidate(user, v, r.Chance(45), restore)
	default:
		v, ok := pickVault()
		if !ok {
			return
		}
		vp := w.productByID(v.ExtendedPairVaultID)
		prod := v.ExtendedPairVaultID
		vapp := v.AppId
		wrongProd := false
		if r.Chance(3) {
			prod = p.id
		}
		if r.Chance(15) {
			// the owner names ANOTHER product of the same app (with a small amount, so that no ratio check stands in the way):
			// the handler takes denoms, ratio and totals from the named product and must refuse a vault of a different one
			for _, q := range w.products {
				if q.app == v.AppId && q.id != v.ExtendedPairVaultID && !q.isStable {
					prod = q.id
					wrongProd = true
				}
			}
		}
		if r.Chance(3) {
			vapp = app
		}
		ep, _ := w.app.AssetKeeper.GetPairsVault(w.ctx, v.ExtendedPairVaultID)
		from := user
		if r.Chance(88) {
			from, _ = sdk.AccAddressFromBech32(v.Owner)
		}
		fn := fmt.Sprint(w.acct(from.String()))
		env := w.env(vapp, prod, v.Id, true)
		debtBal := w.app.BankKeeper.GetBalance(w.ctx, from, w.denomOf[vp.assetOut]).Amount
		switch k := r.Intn(100); {
		case k < 14:
			amt := w.amount(r.Intn(4))
			if r.Chance(80) {
				bal := w.app.BankKeeper.GetBalance(w.ctx, from, w.denomOf[vp.assetIn]).Amount
				if bal.LT(amt) {
					w.fund(from, vp.assetIn, amt.Sub(bal))
				}
			}
			okk := w.deliver(&vaulttypes.MsgDepositRequest{From: from.String(), AppId: vapp, ExtendedPairVaultId: prod, UserVaultId: v.Id, Amount: amt})
			emit("deposit", fn, u(vapp), u(prod), u(v.Id), amt.String(), env, okk)
		case k < 30:
			// withdraw: aim at the CR boundary
			total := v.AmountOut.Add(v.InterestAccumulated).Add(v.ClosingFeeAccumulated)
			if r.Chance(60) {
				total = total.Add(w.pendingInterest(vapp, prod, v.Id))
			}
			need := w.crBoundaryIn(vp, total)
			amt := v.AmountIn.Sub(need).AddRaw(int64(r.Intn(5) - 2))
			if r.Chance(40) || !amt.IsPositive() {
				amt = w.amount(r.Intn(4))
			}
			if wrongProd {
				amt = sdk.NewInt(int64(1 + r.Intn(1000)))
				w.tr.Count("withdraw:wrong-product-same-app")
			}
			okk := w.deliver(&vaulttypes.MsgWithdrawRequest{From: from.String(), AppId: vapp, ExtendedPairVaultId: prod, UserVaultId: v.Id, Amount: amt})
			emit("withdraw", fn, u(vapp), u(prod), u(v.Id), amt.String(), env, okk)
		case k < 46:
			amt := w.amount(r.Intn(4))
			if r.Chance(25) {
				st, _ := w.app.VaultKeeper.CheckAppExtendedPairVaultMapping(w.ctx, v.AppId, v.ExtendedPairVaultID)
				amt = ep.DebtCeiling.Sub(st).AddRaw(int64(r.Intn(3) - 1))
			} else if r.Chance(50) {
				// aim at the collateralization boundary: once with the interest this very message books, once without it
				owed := v.AmountOut.Add(v.InterestAccumulated).Add(v.ClosingFeeAccumulated)
				pend := w.pendingInterest(vapp, prod, v.Id)
				room := w.crBoundaryOut(vp, v.AmountIn).Sub(owed)
				switch r.Intn(3) {
				case 0:
					room = room.Sub(pend)
					w.tr.Count("draw:boundary:post-accrual")
				case 1:
					w.tr.Count("draw:boundary:pre-accrual")
				default:
					if pend.IsPositive() && pend.IsInt64() {
						room = room.Sub(sdk.NewInt(int64(r.Intn(int(minI64(pend.Int64(), 1<<30)) + 1))))
					}
					w.tr.Count("draw:boundary:inside-accrual-band")
				}
				if pend.IsPositive() {
					w.tr.Count("draw:boundary:pending-interest>0")
				}
				if b := room.AddRaw(int64(r.Intn(5) - 2)); b.IsPositive() {
					amt = b
				}
			}
			okk := w.deliver(&vaulttypes.MsgDrawRequest{From: from.String(), AppId: vapp, ExtendedPairVaultId: prod, UserVaultId: v.Id, Amount: amt})
			emit("draw", fn, u(vapp), u(prod), u(v.Id), amt.String(), env, okk)
		case k < 66:
			amt := w.amount(r.Intn(4))
			switch r.Intn(5) {
			case 0:
				amt = v.InterestAccumulated.AddRaw(int64(r.Intn(3) - 1))
			case 1:
				amt = v.AmountOut.Add(v.InterestAccumulated).Sub(ep.DebtFloor).AddRaw(int64(r.Intn(3) - 1))
			case 2:
				amt = v.AmountOut.Add(v.InterestAccumulated).AddRaw(int64(r.Intn(3) - 1))
			}
			if r.Chance(75) && amt.IsPositive() && debtBal.LT(amt) && amt.LT(sdk.NewInt(1<<62)) {
				w.fund(from, vp.assetOut, amt.Sub(debtBal))
			}
			okk := w.deliver(&vaulttypes.MsgRepayRequest{From: from.String(), AppId: vapp, ExtendedPairVaultId: prod, UserVaultId: v.Id, Amount: amt})
			emit("repay", fn, u(vapp), u(prod), u(v.Id), amt.String(), env, okk)
		case k < 78:
			if r.Chance(75) {
				need := v.AmountOut.Add(v.InterestAccumulated).Add(v.ClosingFeeAccumulated).AddRaw(1_000_000)
				if debtBal.LT(need) {
					w.fund(from, vp.assetOut, need.Sub(debtBal))
				}
			}
			okk := w.deliver(&vaulttypes.MsgCloseRequest{From: from.String(), AppId: vapp, ExtendedPairVaultId: prod, UserVaultId: v.Id})
			emit("close", fn, u(vapp), u(prod), u(v.Id), "-", env, okk)
		case k < 88:
			amt := w.amount(r.Intn(4))
			if v.AmountOut.IsPositive() && v.AmountIn.IsPositive() {
				switch r.Intn(4) {
				case 0: // the smallest deposit whose proportional draw is 1 unit (and its neighbours: the draw is then 0 and refused)
					amt = v.AmountIn.Quo(v.AmountOut).AddRaw(int64(r.Intn(3)))
					w.tr.Count("depositAndDraw:amount:smallest-nonzero-draw")
				case 1, 2: // a share of the collateral already there
					amt = v.AmountIn.MulRaw(int64(1 + r.Intn(50))).QuoRaw(100)
					w.tr.Count("depositAndDraw:amount:share")
				}
				if !amt.IsPositive() {
					amt = sdk.NewInt(1)
				}
			}
			if r.Chance(80) {
				bal := w.app.BankKeeper.GetBalance(w.ctx, from, w.denomOf[vp.assetIn]).Amount
				if bal.LT(amt) {
					w.fund(from, vp.assetIn, amt.Sub(bal))
				}
			}
			okk := w.deliver(&vaulttypes.MsgDepositAndDrawRequest{From: from.String(), AppId: vapp, ExtendedPairVaultId: prod, UserVaultId: v.Id, Amount: amt})
			emit("depositAndDraw", fn, u(vapp), u(prod), u(v.Id), amt.String(), env, okk)
		default:
			// the handler accrues for (msg.AppId, the vault's own product)
			vid := v.Id
			if r.Chance(8) {
				vid = w.app.VaultKeeper.GetIDForVault(w.ctx) + uint64(1+r.Intn(3)) // no such vault
			}
			env = w.env(vapp, v.ExtendedPairVaultID, vid, true)
			okk := w.deliver(&vaulttypes.MsgVaultInterestCalcRequest{From: user.String(), AppId: vapp, UserVaultId: vid})
			emit("interestCalc", u(vapp), u(vid), "-", "-", "-", env, okk)
		}
	}
}

// bidOp: a bidder bids on the Dutch auction of a seized vault — a full bid (closes and settles), a partial fill (the auction
// stays open with less collateral and less debt; a later bid settles it) or a bid around the asked amount.
func (w *c01World) bidOp(user sdk.AccAddress) {
	r := w.rng
	// a bidder buys out the auction of a seized vault with one large market bid: the auction closes and settles
	auc := w.openAuctions()
	a := auc[r.Intn(len(auc))]
	var lockedOrig uint64
	for _, l := range w.app.NewliqKeeper.GetLockedVaults(w.ctx) {
		if l.LockedVaultId == a.LockedVaultId && l.AppId == a.AppId {
			lockedOrig = l.OriginalVaultId
		}
	}
	bid := a.DebtToken.Amount.MulRaw(3)
	kind := r.Intn(4)
	switch kind {
	case 0: // partial fill: leaves the auction open with less collateral and less debt
		bid = a.DebtToken.Amount.QuoRaw(int64(2 + r.Intn(9)))
	case 1: // exactly what is still asked for, give or take one
		bid = a.DebtToken.Amount.AddRaw(int64(r.Intn(3) - 1))
	}
	if !bid.IsPositive() {
		bid = sdk.NewInt(1)
	}
	debtAsset := w.assetByDenom(a.DebtToken.Denom)
	bal := w.app.BankKeeper.GetBalance(w.ctx, user, a.DebtToken.Denom).Amount
	if bal.LT(bid) {
		w.fund(user, debtAsset, bid.Sub(bal))
		w.state()
	}
	if os.Getenv("VERIF_DEBUG") != "" {
		dp := sdk.NewDec(1000000)
		if tw, f := w.app.MarketKeeper.GetTwa(w.ctx, a.DebtAssetId); f && a.DebtToken.Denom != "ucmst" {
			dp = sdk.NewDec(int64(tw.Twa))
		}
		_, q, _ := w.app.VaultKeeper.GetAmountOfOtherToken(w.ctx, a.DebtAssetId, dp, bid, a.CollateralAssetId, a.CollateralTokenAuctionPrice)
		fmt.Fprintf(os.Stderr, "collForBid=%s ", q)
		fmt.Fprintf(os.Stderr, "BID kind=%d bid=%s debt=%s coll=%s aprice=%s bonus=%s\n", kind, bid, a.DebtToken, a.CollateralToken, a.CollateralTokenAuctionPrice, a.BonusAmount)
	}
	okk := w.deliver(&auctionsV2types.MsgPlaceMarketBidRequest{AuctionId: a.AuctionId, Bidder: user.String(), Amount: sdk.NewCoin(a.DebtToken.Denom, bid)})
	_, err := w.app.NewaucKeeper.GetAuction(w.ctx, a.AuctionId)
	closed := okk && err != nil
	w.tr.Count(fmt.Sprintf("op:marketbid:kind=%d:accepted=%v:closed=%v", kind, okk, closed))
	if closed && lockedOrig != 0 {
		w.tr.Line("vault.msg", "settle", u(lockedOrig), "-", "-", "-", "-", "esm=0;past=0;brk=0;pin=-;pout=-;iota=0", "ok")
		w.stateKind("vault.state.settle")
	} else {
		// a partial fill moves only auction-module and bidder balances; re-synchronise through a settlement-style line
		w.tr.Line("vault.msg", "donate", "99", "0", "0", "-", "-", "esm=0;past=0;brk=0;pin=-;pout=-;iota=0", "err")
		w.stateKind("vault.state.bid")
	}
}

// openAuctions1: first-generation Dutch auctions (x/auction) of seized vaults
func (w *c01World) openAuctions1() []auctiontypes.DutchAuction {
	var out []auctiontypes.DutchAuction
	for _, a := range w.apps {
		out = append(out, w.app.AuctionKeeper.GetDutchAuctions(w.ctx, a)...)
	}
	return out
}

// bidOp1: a bid on a first-generation Dutch auction names the amount of COLLATERAL to buy; the debt asked for it follows
// from the auction price. Everything / a fraction / one unit around what is left. When the auction closes
// (`CloseDutchAuction`) the principal is burnt and the product totals are reduced (`UpdateProtocolData`).
func (w *c01World) bidOp1(user sdk.AccAddress) {
	r := w.rng
	auc := w.openAuctions1()
	a := auc[r.Intn(len(auc))]
	var lockedOrig uint64
	for _, l := range w.app.LiquidationKeeper.GetLockedVaults(w.ctx) {
		if l.LockedVaultId == a.LockedVaultId && l.AppId == a.AppId {
			lockedOrig = l.OriginalVaultId
		}
	}
	if r.Chance(30) {
		// let the auction price decay (the auction module's begin-blocker step for this app); under emergency shutdown
		// that step winds auctions down through a path outside this model, so it is not taken then
		if st, f := w.app.EsmKeeper.GetESMStatus(w.ctx, a.AppId); !(f && st.Status) && !w.ctx.BlockTime().After(a.EndTime) {
			_ = w.app.AuctionKeeper.RestartDutch(w.ctx, a.AppId)
			for _, x := range w.openAuctions1() {
				if x.AuctionId == a.AuctionId && x.AppId == a.AppId {
					a = x
				}
			}
		}
	}
	slice := a.OutflowTokenCurrentAmount.Amount
	kind := r.Intn(4)
	switch kind {
	case 0:
		slice = slice.QuoRaw(int64(2 + r.Intn(9)))
	case 1:
		slice = slice.AddRaw(int64(r.Intn(3) - 1))
	}
	if !slice.IsPositive() {
		slice = sdk.NewInt(1)
	}
	debtAsset := w.assetByDenom(a.InflowTokenTargetAmount.Denom)
	need := a.InflowTokenTargetAmount.Amount.MulRaw(2)
	if bal := w.app.BankKeeper.GetBalance(w.ctx, user, a.InflowTokenTargetAmount.Denom).Amount; bal.LT(need) {
		w.fund(user, debtAsset, need.Sub(bal))
		w.state()
	}
	okk := w.deliver(&auctiontypes.MsgPlaceDutchBidRequest{AuctionId: a.AuctionId, Bidder: user.String(),
		Amount: sdk.NewCoin(a.OutflowTokenCurrentAmount.Denom, slice), AppId: a.AppId, AuctionMappingId: a.AuctionMappingId})
	_, err := w.app.AuctionKeeper.GetDutchAuction(w.ctx, a.AppId, a.AuctionMappingId, a.AuctionId)
	closed := okk && err != nil
	w.tr.Count(fmt.Sprintf("op:dutchbid1:kind=%d:accepted=%v:closed=%v", kind, okk, closed))
	if closed && lockedOrig != 0 {
		w.tr.Line("vault.msg", "settle1", u(lockedOrig), "-", "-", "-", "-", "esm=0;past=0;brk=0;pin=-;pout=-;iota=0", "ok")
		w.stateKind("vault.state.settle1")
	} else {
		w.tr.Line("vault.msg", "donate", "99", "0", "0", "-", "-", "esm=0;past=0;brk=0;pin=-;pout=-;iota=0", "err")
		w.stateKind("vault.state.bid")
	}
}

// liquidate asks one of the two liquidation generations to liquidate vault v (x/liquidation MsgLiquidateVault or
// x/liquidationsV2 MsgLiquidateInternalKeeper); a seizure is one model step. `restore` != 0: the collateral price is put
// back to that value afterwards (the liquidation happened in a price dip).
func (w *c01World) liquidate(user sdk.AccAddress, v vaulttypes.Vault, gen1 bool, restore uint64) {
	vp := w.productByID(v.ExtendedPairVaultID)
	env := w.env(v.AppId, v.ExtendedPairVaultID, v.Id, true)
	var okk bool
	if gen1 {
		okk = w.deliver(&liq1types.MsgLiquidateVaultRequest{From: user.String(), AppId: v.AppId, VaultId: v.Id})
	} else {
		okk = w.deliver(&liq2types.MsgLiquidateInternalKeeperRequest{From: user.String(), LiqType: 0, Id: v.Id})
	}
	_, still := w.app.VaultKeeper.GetVault(w.ctx, v.Id)
	if restore != 0 {
		w.setPrice(vp.assetIn, restore, true)
	}
	w.tr.Count(fmt.Sprintf("op:liquidate:gen1=%v:accepted=%v:seized=%v", gen1, okk, !still))
	if okk && !still && os.Getenv("VERIF_DEBUG") != "" {
		owed := v.AmountOut.Add(v.InterestAccumulated).Add(v.ClosingFeeAccumulated)
		tw, _ := w.app.MarketKeeper.GetTwa(w.ctx, vp.assetIn)
		fmt.Fprintf(os.Stderr, "SEIZED vault=%d in=%s owed=%s needAtRestoredPrice=%s price=%d restore=%d\n", v.Id, v.AmountIn, owed, w.crBoundaryIn(vp, owed), tw.Twa, restore)
	}
	if okk && !still {
		debt := sdk.ZeroInt()
		for _, l := range w.app.NewliqKeeper.GetLockedVaults(w.ctx) {
			if l.OriginalVaultId == v.Id && l.InitiatorType == "vault" {
				debt = l.DebtToken.Amount // principal + interest + closing fee at seizure
			}
		}
		if gen1 {
			for _, l := range w.app.LiquidationKeeper.GetLockedVaults(w.ctx) {
				if l.OriginalVaultId == v.Id {
					debt = l.AmountOut.Add(l.InterestAccumulated) // principal + (interest + closing fee) at seizure
				}
			}
		}
		c01Seized[v.Id] = c01SeizedRec{world: w, in: v.AmountIn, out: v.AmountOut, debt: debt, gen1: gen1}
		w.tr.Count("op:seize:ok")
		w.tr.Line("vault.msg", "seize", u(v.Id), "-", "-", "-", "-", env, "ok")
		w.state()
		if !gen1 && w.rng.Chance(30) {
			// the next block's begin-blocker finds the fresh auction running: price update only, the vault books must not move
			w.height++
			w.now = w.now.Add(time.Duration(1+w.rng.Intn(600)) * time.Second)
			w.ctx = w.ctx.WithBlockHeight(w.height).WithBlockTime(w.now)
			w.auctionBlock2OpAt(false)
			w.tr.Count("op:auctionblock2:running-auction")
		}
	} else {
		w.state()
	}
}

// windOp1: under emergency shutdown the first-generation auction module winds down auctions that have run out
// (x/auction/keeper/dutch.go:517-640). Where the bids recovered at least the principal, the principal is burnt, the rest goes
// to the collector, the unsold collateral moves to the emergency redemption pool and the seized vault leaves the books — for
// the vault ledger the same step as a normal close (`settle1`). Where less was recovered, what was collected is burnt and
// the unsold collateral returns to vault custody into a vault of the owner that is topped up or re-created (`esmReturn1`).
func (w *c01World) windOp1() bool {
	for _, app := range w.apps {
		st, f := w.app.EsmKeeper.GetESMStatus(w.ctx, app)
		if !f || !st.Status {
			continue
		}
		type rec struct {
			orig      uint64
			owner     int
			cur, infl sdk.Int
			pool      bool
		}
		var due []rec
		for _, a := range w.app.AuctionKeeper.GetDutchAuctions(w.ctx, app) {
			if !w.ctx.BlockTime().After(a.EndTime) {
				continue
			}
			lv, found := w.app.LiquidationKeeper.GetLockedVault(w.ctx, a.AppId, a.LockedVaultId)
			if !found {
				continue
			}
			due = append(due, rec{lv.OriginalVaultId, w.acct(lv.Owner), a.OutflowTokenCurrentAmount.Amount, a.InflowTokenCurrentAmount.Amount,
				a.InflowTokenCurrentAmount.Amount.GTE(lv.AmountOut)})
		}
		if len(due) == 0 {
			continue
		}
		_ = w.app.AuctionKeeper.RestartDutch(w.ctx, app)
		n, nr := 0, 0
		for _, d := range due {
			still := false
			for _, l := range w.app.LiquidationKeeper.GetLockedVaults(w.ctx) {
				if l.OriginalVaultId == d.orig && l.AppId == app {
					still = true
				}
			}
			if still {
				continue
			}
			if d.pool {
				w.tr.Line("vault.msg", "settle1", u(d.orig), "-", "-", "-", "-", "esm=1;past=0;brk=0;pin=-;pout=-;iota=0", "ok")
				n++
			} else {
				w.tr.Line("vault.msg", "esmReturn1", u(d.orig), fmt.Sprint(d.owner), d.cur.String(), d.infl.String(), "-", "esm=1;past=0;brk=0;pin=-;pout=-;iota=0", "ok")
				nr++
			}
		}
		w.tr.Count(fmt.Sprintf("op:wind1:pool=%d:return=%d", minInt(n, 3), minInt(nr, 3)))
		if nr > 0 {
			w.stateKind("vault.state.esmreturn")
		} else {
			w.stateKind("vault.state.settle1")
		}
		return true
	}
	return false
}

// sweepOp runs the REAL second-generation vault sweep (x/liquidationsV2 `LiquidateVaults`, the begin-block path: every vault of
// the batch in its own cache context) — often inside a collateral price dip, sometimes with the debt feed switched off (the
// auction start then fails AFTER the hand-over has moved the collateral, and the wrapper must discard it). Every vault the
// sweep seized is one `seize` step of the model; a vault it could not seize must be untouched.
func (w *c01World) sweepOp() {
	r := w.rng
	type pre struct {
		v   vaulttypes.Vault
		env string
	}
	restore := map[uint64]uint64{}
	if vs := w.vaultsOf(""); len(vs) > 0 && r.Chance(70) {
		v := vs[r.Intn(len(vs))]
		vp := w.productByID(v.ExtendedPairVaultID)
		twa, _ := w.app.MarketKeeper.GetTwa(w.ctx, vp.assetIn)
		owed := v.AmountOut.Add(v.InterestAccumulated).Add(v.ClosingFeeAccumulated)
		need := w.crBoundaryIn(vp, owed)
		if v.AmountIn.IsPositive() && need.IsPositive() && need.IsInt64() && v.AmountIn.IsInt64() && twa.Twa > 0 {
			f := float64(700+r.Intn(295)) / 1000
			np := uint64(float64(twa.Twa) * float64(need.Int64()) / float64(v.AmountIn.Int64()) * f)
			if np == 0 {
				np = 1
			}
			restore[vp.assetIn] = twa.Twa
			w.setPrice(vp.assetIn, np, true)
		}
		ep, _ := w.app.AssetKeeper.GetPairsVault(w.ctx, vp.id)
		if (!ep.AssetOutOraclePrice && r.Chance(60)) || r.Chance(15) {
			w.tr.Count(fmt.Sprintf("op:sweep:debt-feed-down:fixed-price-debt=%v", !ep.AssetOutOraclePrice))
			// the debt asset's feed goes down for this block
			if tw, f := w.app.MarketKeeper.GetTwa(w.ctx, vp.assetOut); f {
				w.app.MarketKeeper.SetTwa(w.ctx, markettypes.TimeWeightedAverage{AssetID: vp.assetOut, ScriptID: 12, Twa: tw.Twa, CurrentIndex: 0, IsPriceActive: false, PriceValue: tw.PriceValue})
				defer func(id uint64, tw markettypes.TimeWeightedAverage) { w.app.MarketKeeper.SetTwa(w.ctx, tw) }(vp.assetOut, tw)
			}
		}
	}
	var before []pre
	for _, v := range w.vaultsOf("") {
		before = append(before, pre{v, w.env(v.AppId, v.ExtendedPairVaultID, v.Id, true)})
	}
	if panicked, msg := try(func() { _ = w.app.NewliqKeeper.LiquidateVaults(w.ctx, 0) }); panicked {
		w.tr.Count("op:sweep:panic")
		w.t.Logf("sweep panicked: %s", msg)
	}
	for a, p := range restore {
		w.setPrice(a, p, true)
	}
	n := 0
	for _, b := range before {
		if _, still := w.app.VaultKeeper.GetVault(w.ctx, b.v.Id); still {
			continue
		}
		debt := sdk.ZeroInt()
		for _, l := range w.app.NewliqKeeper.GetLockedVaults(w.ctx) {
			if l.OriginalVaultId == b.v.Id && l.InitiatorType == "vault" {
				debt = l.DebtToken.Amount
			}
		}
		c01Seized[b.v.Id] = c01SeizedRec{world: w, in: b.v.AmountIn, out: b.v.AmountOut, debt: debt}
		w.tr.Line("vault.msg", "seize", u(b.v.Id), "-", "-", "-", "-", b.env, "ok")
		n++
	}
	w.tr.Count(fmt.Sprintf("op:sweep:seized=%d", minInt(n, 3)))
	w.state()
}

// ---- emergency shutdown (x/esm) ----------------------------------------------------------------------------------

// esmDue: some app is shut down, its cool-off period is over and a redemption step is still outstanding
func (w *c01World) esmDue() bool {
	for _, a := range w.apps {
		st, f := w.app.EsmKeeper.GetESMStatus(w.ctx, a)
		if f && st.Status && st.SnapshotStatus && w.ctx.BlockTime().After(st.EndTime) && !(st.VaultRedemptionStatus && st.StableVaultRedemptionStatus && st.CollectorTransaction) {
			return true
		}
	}
	return false
}

func (w *c01World) esmRegistered() bool {
	for _, a := range w.apps {
		for _, x := range w.app.EsmKeeper.GetAllAssetToAmount(w.ctx, a) {
			if !x.IsCollateral && x.Amount.IsPositive() {
				return true
			}
		}
	}
	return false
}

// esmBlockOp runs the REAL esm begin-blocker and reports what it did as one model step per redeemed vault / stable-mint
// vault / collector burn, followed by one state line.
func (w *c01World) esmBlockOp() {
	type vrec struct {
		app, prod uint64
		env       string
	}
	before := map[uint64]vrec{}
	for _, v := range w.app.VaultKeeper.GetVaults(w.ctx) {
		before[v.Id] = vrec{v.AppId, v.ExtendedPairVaultID, w.env(v.AppId, v.ExtendedPairVaultID, v.Id, false)}
	}
	inList := func(prod, id uint64) bool {
		for _, m := range w.app.VaultKeeper.GetAllAppExtendedPairVaultMapping(w.ctx) {
			if m.ExtendedPairId == prod {
				for _, x := range m.VaultIds {
					if x == id {
						return true
					}
				}
			}
		}
		return false
	}
	type srec struct {
		app, prod uint64
		listed    bool
		env       string
		amountIn  sdk.Int
	}
	sbefore := map[uint64]srec{}
	for _, sv := range w.app.VaultKeeper.GetStableMintVaults(w.ctx) {
		sbefore[sv.Id] = srec{sv.AppId, sv.ExtendedPairVaultID, inList(sv.ExtendedPairVaultID, sv.Id), w.env(sv.AppId, sv.ExtendedPairVaultID, 0, false), sv.AmountIn}
	}
	// D29 leaves the record of a redeemed stable-mint vault behind; when vault custody holds enough of its collateral again
	// (a donation, another stable mint) the begin-blocker redeems the SAME record once more. The product's collateral total
	// before the hook tells such a repetition apart from a failed (rolled back) attempt.
	collOf := func() map[uint64]sdk.Int {
		m := map[uint64]sdk.Int{}
		for _, x := range w.app.VaultKeeper.GetAllAppExtendedPairVaultMapping(w.ctx) {
			m[x.ExtendedPairId] = x.CollateralLockedAmount
		}
		return m
	}
	collBefore := collOf()
	type fk struct{ app, asset uint64 }
	fees := map[fk]sdk.Int{}
	for _, a := range w.apps {
		nf, _ := w.app.CollectorKeeper.GetAppNetFeeCollectedData(w.ctx, a)
		for _, x := range nf {
			fees[fk{a, x.AssetId}] = x.NetFeesCollected
		}
	}
	cm := authtypes.NewModuleAddress(collectortypes.ModuleName)
	cbal := map[uint64]sdk.Int{}
	for _, id := range w.assetIDs {
		cbal[id] = w.app.BankKeeper.GetBalance(w.ctx, cm, w.denomOf[id]).Amount
	}
	if panicked, msg := try(func() { esm.BeginBlocker(w.ctx, abci.RequestBeginBlock{}, w.app.EsmKeeper, w.app.AssetKeeper) }); panicked {
		w.tr.Count("op:esmblock:panic")
		w.t.Logf("esm begin-blocker panicked: %s", msg)
	}
	n, ns, nc := 0, 0, 0
	var ids []uint64
	for id := range before {
		ids = append(ids, id)
	}
	sort.Slice(ids, func(i, j int) bool { return ids[i] < ids[j] })
	for _, id := range ids {
		if _, still := w.app.VaultKeeper.GetVault(w.ctx, id); !still {
			w.tr.Line("vault.msg", "esmVault", u(id), "-", "-", "-", "-", before[id].env, "ok")
			n++
		}
	}
	var sids []uint64
	for id := range sbefore {
		sids = append(sids, id)
	}
	sort.Slice(sids, func(i, j int) bool { return sids[i] < sids[j] })
	collAfter := collOf()
	repeated := func(prod uint64) bool { // every already-unlisted stable-mint vault of the product was redeemed once more
		sum := sdk.ZeroInt()
		for _, id := range sids {
			if b := sbefore[id]; b.prod == prod && !b.listed {
				sum = sum.Add(b.amountIn)
			}
		}
		cb, ok1 := collBefore[prod]
		ca, ok2 := collAfter[prod]
		return ok1 && ok2 && sum.IsPositive() && cb.Sub(ca).Equal(sum)
	}
	for _, id := range sids {
		b := sbefore[id]
		if (b.listed && !inList(b.prod, id)) || (!b.listed && repeated(b.prod)) {
			w.tr.Line("vault.msg", "esmStable", u(id), "-", "-", "-", "-", b.env, "ok")
			if !b.listed {
				w.tr.Count("op:esmStable:repeated(D29)")
			}
			ns++
		}
	}
	var fks []fk
	for k := range fees {
		fks = append(fks, k)
	}
	sort.Slice(fks, func(i, j int) bool {
		if fks[i].app != fks[j].app {
			return fks[i].app < fks[j].app
		}
		return fks[i].asset < fks[j].asset
	})
	for _, k := range fks {
		after := sdk.ZeroInt()
		if x, f := w.app.CollectorKeeper.GetNetFeeCollectedData(w.ctx, k.app, k.asset); f {
			after = x.NetFeesCollected
		}
		burnt := cbal[k.asset].Sub(w.app.BankKeeper.GetBalance(w.ctx, cm, w.denomOf[k.asset]).Amount)
		if d := fees[k].Sub(after); d.IsPositive() && burnt.IsPositive() {
			w.tr.Line("vault.msg", "esmCollector", u(k.app), u(k.asset), d.String(), "-", "-", "esm=1;past=1;brk=0;pin=-;pout=-;iota=0", "ok")
			nc++
		}
	}
	w.tr.Count(fmt.Sprintf("op:esmblock:vaults=%d:stables=%d:collector=%d", minInt(n, 3), minInt(ns, 2), minInt(nc, 2)))
	if ns > 0 {
		w.stateKind("vault.state.esmstable")
	} else {
		w.stateKind("vault.state.esm")
	}
}

// esmRedeemOp: a holder of the debt asset redeems against the register (MsgCollateralRedemption). Only an ACCEPTED
// redemption is a model step (the code may also refuse for reasons outside the ledger: prices, share computation, pool
// funds); a refused one must leave the state as it was (compared by the state line).
func (w *c01World) esmRedeemOp(user sdk.AccAddress) {
	r := w.rng
	type reg struct {
		app, asset uint64
		amt        sdk.Int
	}
	var regs []reg
	for _, a := range w.apps {
		for _, x := range w.app.EsmKeeper.GetAllAssetToAmount(w.ctx, a) {
			if !x.IsCollateral && x.Amount.IsPositive() {
				regs = append(regs, reg{a, x.AssetID, x.Amount})
			}
		}
	}
	g := regs[r.Intn(len(regs))]
	amt := g.amt
	switch r.Intn(5) {
	case 0:
		amt = g.amt.AddRaw(1)
	case 1:
		amt = g.amt.QuoRaw(int64(2 + r.Intn(5)))
	case 2:
		amt = w.amount(r.Intn(4))
	case 3:
		amt = sdk.NewInt(1)
	}
	if !amt.IsPositive() {
		amt = sdk.NewInt(1)
	}
	if r.Chance(80) {
		if bal := w.app.BankKeeper.GetBalance(w.ctx, user, w.denomOf[g.asset]).Amount; bal.LT(amt) {
			w.fund(user, g.asset, amt.Sub(bal))
			w.state()
		}
	}
	ok := w.deliver(&esmtypes.MsgCollateralRedemptionRequest{AppId: g.app, Amount: sdk.NewCoin(w.denomOf[g.asset], amt), From: user.String()})
	w.tr.Count(fmt.Sprintf("op:esmredeem:%s", c01Outcome(ok)))
	if ok {
		w.tr.Line("vault.msg", "esmBurn", fmt.Sprint(w.acct(user.String())), u(g.app), u(g.asset), amt.String(), "-", "esm=1;past=1;brk=0;pin=-;pout=-;iota=0", "ok")
		w.stateKind("vault.state.esmburn")
	} else {
		w.state()
	}
}

func minInt(a, b int) int {
	if a < b {
		return a
	}
	return b
}

var _ = esmtypes.ModuleName

func minI64(a, b int64) int64 {
	if a < b {
		return a
	}
	return b
}

// c01Corpus: the recorded findings' witnesses, replayed first in every run on a fixed world.
//  (1) D29: stable mint, emergency shutdown, cool-off over, the real esm begin-blocker redeems the stable-mint vault and
//      leaves its record behind;
//  (2) D13: a vault with a closing fee is seized by liquidationsV2 and its Dutch auction is bought out.
func c01Corpus(t *testing.T, tr *Trace) {
	w := c01NewWorld(t, tr, NewRng(424242))
	w.state()
	user := w.users[0]
	un := fmt.Sprint(w.acct(user.String()))
	var ps, pf *c01Product
	for i := range w.products {
		p := &w.products[i]
		if p.isStable && ps == nil {
			ps = p
		}
		if !p.isStable && p.assetIn != w.products[0].assetIn && pf == nil {
			pf = p // the WETH product: closing fee 0.01
		}
	}
	// (1)
	amt := w.decOf[ps.assetIn].MulRaw(5)
	w.fund(user, ps.assetIn, amt)
	env := w.env(ps.app, ps.id, 0, false)
	ok := w.deliver(&vaulttypes.MsgCreateStableMintRequest{From: user.String(), AppId: ps.app, ExtendedPairVaultId: ps.id, Amount: amt})
	w.tr.Line("vault.msg", "stableCreate", un, u(ps.app), u(ps.id), amt.String(), "-", env, c01Outcome(ok))
	w.state()
	var rates []esmtypes.DebtAssetsRates
	for _, id := range w.assetIDs {
		rates = append(rates, esmtypes.DebtAssetsRates{AssetID: id, Rates: 1000000})
	}
	// (2) first (the shutdown of (1) freezes the app), on the product with a closing fee
	if pf != nil {
		out := sdk.NewInt(50_000_000)
		in := w.crBoundaryIn(pf, out).MulRaw(2).AddRaw(10)
		w.fund(user, pf.assetIn, in)
		env = w.env(pf.app, pf.id, 0, false)
		ok = w.deliver(&vaulttypes.MsgCreateRequest{From: user.String(), AppId: pf.app, ExtendedPairVaultId: pf.id, AmountIn: in, AmountOut: out})
		w.tr.Line("vault.msg", "create", un, u(pf.app), u(pf.id), in.String(), out.String(), env, c01Outcome(ok))
		w.state()
		if vs := w.vaultsOf(user.String()); ok && len(vs) > 0 {
			twa, _ := w.app.MarketKeeper.GetTwa(w.ctx, pf.assetIn)
			w.setPrice(pf.assetIn, twa.Twa*45/100, true)
			w.liquidate(w.users[1], vs[0], false, twa.Twa)
			for i := 0; i < 30 && len(w.openAuctions()) > 0; i++ {
				w.bidOp(w.users[1])
			}
		}
	}
	// (3) a vault seized by the FIRST generation, a bid that collects less than the principal; after the shutdown below the
	//     auction runs out and is wound down: the owner gets a vault back (dutch.go:538-570, the site of the repaired D3)
	p0 := &w.products[0]
	if p0.app == ps.app && len(w.users) > 1 {
		u2 := w.users[1]
		out := sdk.NewInt(30_000_000)
		in := w.crBoundaryIn(p0, out).MulRaw(2).AddRaw(10)
		w.fund(u2, p0.assetIn, in)
		env = w.env(p0.app, p0.id, 0, false)
		ok = w.deliver(&vaulttypes.MsgCreateRequest{From: u2.String(), AppId: p0.app, ExtendedPairVaultId: p0.id, AmountIn: in, AmountOut: out})
		w.tr.Line("vault.msg", "create", fmt.Sprint(w.acct(u2.String())), u(p0.app), u(p0.id), in.String(), out.String(), env, c01Outcome(ok))
		w.state()
		if vs := w.vaultsOf(u2.String()); ok && len(vs) > 0 {
			twa, _ := w.app.MarketKeeper.GetTwa(w.ctx, p0.assetIn)
			w.setPrice(p0.assetIn, twa.Twa*45/100, true)
			w.liquidate(user, vs[0], true, twa.Twa)
			if auc := w.openAuctions1(); len(auc) > 0 {
				a := auc[0]
				w.fund(user, p0.assetOut, a.InflowTokenTargetAmount.Amount)
				w.state()
				okk := w.deliver(&auctiontypes.MsgPlaceDutchBidRequest{AuctionId: a.AuctionId, Bidder: user.String(),
					Amount: sdk.NewCoin(a.OutflowTokenCurrentAmount.Denom, a.OutflowTokenCurrentAmount.Amount.QuoRaw(4)), AppId: a.AppId, AuctionMappingId: a.AuctionMappingId})
				w.tr.Count(fmt.Sprintf("corpus:gen1-partial-bid:%v", okk))
				w.tr.Line("vault.msg", "donate", "99", "0", "0", "-", "-", "esm=0;past=0;brk=0;pin=-;pout=-;iota=0", "err")
				w.stateKind("vault.state.bid")
			}
		}
	}
	// (4) the same with a bid that recovers the principal but not the whole target: the wind-down sends the unsold collateral
	//     to the redemption pool and the seized vault leaves the books (dutch.go:571-640, the site of the repaired D30)
	if p0.app == ps.app && len(w.users) > 2 {
		u3 := w.users[2]
		out := sdk.NewInt(20_000_000)
		in := w.crBoundaryIn(p0, out).MulRaw(2)
		w.fund(u3, p0.assetIn, in)
		env = w.env(p0.app, p0.id, 0, false)
		ok = w.deliver(&vaulttypes.MsgCreateRequest{From: u3.String(), AppId: p0.app, ExtendedPairVaultId: p0.id, AmountIn: in, AmountOut: out})
		w.tr.Line("vault.msg", "create", fmt.Sprint(w.acct(u3.String())), u(p0.app), u(p0.id), in.String(), out.String(), env, c01Outcome(ok))
		w.state()
		if vs := w.vaultsOf(u3.String()); ok && len(vs) > 0 {
			twa, _ := w.app.MarketKeeper.GetTwa(w.ctx, p0.assetIn)
			w.setPrice(p0.assetIn, twa.Twa*45/100, true)
			w.liquidate(user, vs[0], true, twa.Twa)
			for _, a := range w.openAuctions1() {
				lv, _ := w.app.LiquidationKeeper.GetLockedVault(w.ctx, a.AppId, a.LockedVaultId)
				if lv.OriginalVaultId != vs[0].Id {
					continue
				}
				w.fund(user, p0.assetOut, a.InflowTokenTargetAmount.Amount)
				w.state()
				okk := w.deliver(&auctiontypes.MsgPlaceDutchBidRequest{AuctionId: a.AuctionId, Bidder: user.String(),
					Amount: sdk.NewCoin(a.OutflowTokenCurrentAmount.Denom, a.OutflowTokenCurrentAmount.Amount.MulRaw(65).QuoRaw(100)), AppId: a.AppId, AuctionMappingId: a.AuctionMappingId})
				w.tr.Count(fmt.Sprintf("corpus:gen1-principal-recovered-bid:%v", okk))
				w.tr.Line("vault.msg", "donate", "99", "0", "0", "-", "-", "esm=0;past=0;brk=0;pin=-;pout=-;iota=0", "err")
				w.stateKind("vault.state.bid")
			}
		}
	}
	for _, id := range w.assetIDs {
		w.app.EsmKeeper.SetSnapshotOfPrices(w.ctx, ps.app, id, 1000000)
	}
	w.app.EsmKeeper.SetESMTriggerParams(w.ctx, esmtypes.ESMTriggerParams{AppId: ps.app, TargetValue: sdk.NewCoin("uharbor", sdk.NewInt(1)), CoolOffPeriod: 3600, AssetsRates: rates})
	w.app.EsmKeeper.SetESMStatus(w.ctx, esmtypes.ESMStatus{AppId: ps.app, Status: true, StartTime: w.now, EndTime: w.now.Add(time.Hour), SnapshotStatus: true})
	w.now = w.now.Add(2 * time.Hour)
	w.height++
	w.ctx = w.ctx.WithBlockHeight(w.height).WithBlockTime(w.now)
	if w.windOp1() {
		w.tr.Count("corpus:gen1-wind-down")
	}
	w.esmBlockOp()
	w.esmRedeemOp(user)
}

// TestC01 drives the real vault message server (through the message router) with generated multi-user histories and
// dumps the ledger projection after every message; the Lean driver replays the messages on Model/Vault.lean, compares
// and evaluates the C01/C02 invariants on the real state.
func TestC01(t *testing.T) {
	tr := OpenTrace(t, "c01.trace")
	defer tr.Close(t)
	rng := NewRng(seed())
	seqs := scale(60, 400)
	ops := scale(120, 300)
	c01Corpus(t, tr)
	c01CorpusTrigger2(t, tr)
	c01CorpusEsmSweep(t, tr)
	for s := 0; s < seqs; s++ {
		w := c01NewWorld(t, tr, rng)
		w.state()
		n := rng.Range(ops/2, ops)
		for i := 0; i < n; i++ {
			w.oneOp()
		}
	}
}

// ---- stable-mint messages, directed --------------------------------------------------------------------------------

// stableOp: one stable-mint message with amounts that hit every branch under the product's fee / decimals combination:
// create when the product has no stable-mint vault yet, else deposits (converted amount at the debt floor and at the
// remaining ceiling, ± 1) and withdrawals (everything, a fraction, the vault's whole collateral converted ± 1, the debt floor ± 1,
// an amount whose fee share leaves nothing to burn).
func (w *c01World) stableOp(user sdk.AccAddress, p c01Product, app uint64) {
	r := w.rng
	un := fmt.Sprint(w.acct(user.String()))
	emit := func(kind string, a1, a2, a3, a4, a5 string, env string, ok bool) {
		w.tr.Count("op:" + kind + ":" + c01Outcome(ok))
		w.tr.Line("vault.msg", kind, a1, a2, a3, a4, a5, env, c01Outcome(ok))
		w.state()
	}
	ep, _ := w.app.AssetKeeper.GetPairsVault(w.ctx, p.id)
	var sv *vaulttypes.StableMintVault
	for _, x := range w.app.VaultKeeper.GetStableMintVaults(w.ctx) {
		if x.ExtendedPairVaultID == p.id {
			y := x
			sv = &y
		}
	}
	decIn, decOut := w.decOf[p.assetIn], w.decOf[p.assetOut]
	// collateral amount whose conversion is `out` of the debt asset (rounded down), and back
	toIn := func(out sdk.Int) sdk.Int { return out.Mul(decIn).Quo(decOut) }
	minted, _ := w.app.VaultKeeper.CheckAppExtendedPairVaultMapping(w.ctx, p.app, p.id)
	ensure := func(asset uint64, amt sdk.Int) {
		if !amt.IsPositive() || amt.GTE(sdk.NewInt(1).MulRaw(1<<62)) {
			return
		}
		if bal := w.app.BankKeeper.GetBalance(w.ctx, user, w.denomOf[asset]).Amount; bal.LT(amt) {
			w.fund(user, asset, amt.Sub(bal))
		}
	}
	env := w.env(app, p.id, 0, false)
	mintAmount := func() sdk.Int {
		amt := w.amount(1 + r.Intn(2)).Mul(decIn).QuoRaw(1_000_000)
		switch r.Intn(6) {
		case 0:
			amt = toIn(ep.DebtFloor).AddRaw(int64(r.Intn(3) - 1))
			w.tr.Count("stable:amount:floor-boundary")
		case 1:
			amt = toIn(ep.DebtCeiling.Sub(minted)).AddRaw(int64(r.Intn(3) - 1))
			w.tr.Count("stable:amount:ceiling-boundary")
		}
		if !amt.IsPositive() {
			amt = sdk.NewInt(1)
		}
		return amt
	}
	if sv == nil || r.Chance(4) {
		amt := mintAmount()
		if r.Chance(90) {
			ensure(p.assetIn, amt)
		}
		ok := w.deliver(&vaulttypes.MsgCreateStableMintRequest{From: user.String(), AppId: app, ExtendedPairVaultId: p.id, Amount: amt})
		emit("stableCreate", un, u(app), u(p.id), amt.String(), "-", env, ok)
		return
	}
	sid := sv.Id
	if r.Chance(3) {
		sid += uint64(1 + r.Intn(2))
	}
	if r.Chance(45) {
		amt := mintAmount()
		if r.Chance(90) {
			ensure(p.assetIn, amt)
		}
		ok := w.deliver(&vaulttypes.MsgDepositStableMintRequest{From: user.String(), AppId: app, ExtendedPairVaultId: p.id, Amount: amt, StableVaultId: sid})
		w.tr.Count(fmt.Sprintf("stable:deposit:fee>0=%v:dec=%v:%s", ep.DrawDownFee.IsPositive(), c01DecRel(decIn, decOut), c01Outcome(ok)))
		emit("stableDeposit", un, u(app), u(p.id), u(sid), amt.String(), env, ok)
		return
	}
	// withdraw: `amt` of the debt asset is burnt (less the fee share), the converted collateral comes back
	all := sv.AmountIn.Mul(decOut).Quo(decIn) // debt amount whose conversion is the vault's whole collateral
	amt := all
	switch r.Intn(7) {
	case 0:
		amt = all.AddRaw(int64(r.Intn(3) - 1))
		w.tr.Count("stable:withdraw:whole-collateral-boundary")
	case 1:
		amt = ep.DebtFloor.AddRaw(int64(r.Intn(3) - 1))
		w.tr.Count("stable:withdraw:floor-boundary")
	case 2:
		amt = sv.AmountOut.AddRaw(int64(r.Intn(3) - 1))
	case 3:
		amt = w.amount(r.Intn(4))
	default:
		amt = all.QuoRaw(int64(2 + r.Intn(6)))
	}
	if !amt.IsPositive() {
		amt = sdk.NewInt(1)
	}
	if r.Chance(90) {
		ensure(p.assetOut, amt)
	}
	ok := w.deliver(&vaulttypes.MsgWithdrawStableMintRequest{From: user.String(), AppId: app, ExtendedPairVaultId: p.id, Amount: amt, StableVaultId: sid})
	w.tr.Count(fmt.Sprintf("stable:withdraw:fee>0=%v:dec=%v:%s", ep.DrawDownFee.IsPositive(), c01DecRel(decIn, decOut), c01Outcome(ok)))
	emit("stableWithdraw", un, u(app), u(p.id), u(sid), amt.String(), env, ok)
}

func c01DecRel(a, b sdk.Int) string {
	switch {
	case a.LT(b):
		return "in<out"
	case a.GT(b):
		return "in>out"
	}
	return "in=out"
}

// ---- configuration changes in the middle of a history ----------------------------------------------------------------

// reconfigOp changes a product's configuration through the REAL update paths — the wasm binding `WasmUpdatePairsVault`
// (stability / closing / draw-down fee, liquidation penalty, debt ceiling and floor, min CR, IsVaultActive) and the x/asset
// governance proposal `UpdateAssetRecords` (decimals, IsOraclePriceRequired) — and, rarely, the stable-mint flag through the
// keeper's setter (the way a genesis import or an upgrade handler writes it; no message or binding changes it). The new
// configuration is printed (`vault.reconfig`) and is what every later handler reads. A change of the stability fee books
// the interest accrued so far on every vault of the product (`VaultIterateRewards`): reported as one interest step per vault.
func (w *c01World) reconfigOp() {
	r := w.rng
	p := w.products[r.Intn(len(w.products))]
	if vs := w.vaultsOf(""); len(vs) > 0 && r.Chance(60) {
		// mostly a product that has open vaults: a lowered ceiling / raised floor then actually bites
		if q := w.productByID(vs[r.Intn(len(vs))].ExtendedPairVaultID); q != nil {
			p = *q
		}
	}
	ep, _ := w.app.AssetKeeper.GetPairsVault(w.ctx, p.id)
	before := map[uint64]sdk.Int{}
	for _, v := range w.app.VaultKeeper.GetVaults(w.ctx) {
		before[v.Id] = v.InterestAccumulated
	}
	minted, _ := w.app.VaultKeeper.CheckAppExtendedPairVaultMapping(w.ctx, p.app, p.id)
	what := ""
	changed := []uint64{p.id}
	if r.Chance(8) {
		// x/asset proposal on one of the product's assets
		aid := []uint64{p.assetIn, p.assetOut}[r.Intn(2)]
		a, _ := w.app.AssetKeeper.GetAsset(w.ctx, aid)
		na := a
		if r.Chance(50) {
			na.Decimals = sdk.NewIntFromBigInt(new(big.Int).Exp(big.NewInt(10), big.NewInt([]int64{0, 6, 8, 12, 18}[r.Intn(5)]), nil))
			what = "asset-decimals"
		} else {
			na.IsOraclePriceRequired = !a.IsOraclePriceRequired
			what = "asset-oracle-flag"
		}
		if err := w.app.AssetKeeper.UpdateAssetRecords(w.ctx, na); err != nil {
			w.tr.Count("op:reconfig:" + what + ":err")
			return
		}
		a2, _ := w.app.AssetKeeper.GetAsset(w.ctx, aid)
		w.decOf[aid] = a2.Decimals
		changed = nil
		for _, q := range w.products {
			if q.assetIn == aid || q.assetOut == aid {
				changed = append(changed, q.id)
			}
		}
	} else if r.Chance(4) {
		ep.IsStableMintVault = !ep.IsStableMintVault
		w.app.AssetKeeper.SetPairsVault(w.ctx, ep)
		for i := range w.products {
			if w.products[i].id == p.id {
				w.products[i].isStable = ep.IsStableMintVault
			}
		}
		what = "stable-flag"
	} else {
		upd := bindings.MsgUpdatePairsVault{AppID: ep.AppId, ExtPairID: ep.Id, StabilityFee: ep.StabilityFee, ClosingFee: ep.ClosingFee,
			LiquidationPenalty: ep.LiquidationPenalty, DrawDownFee: ep.DrawDownFee, IsVaultActive: ep.IsVaultActive, MinCr: ep.MinCr,
			DebtCeiling: ep.DebtCeiling, DebtFloor: ep.DebtFloor, MinUsdValueLeft: ep.MinUsdValueLeft}
		switch r.Intn(10) {
		case 0: // the ceiling is LOWERED below (or to, ± 1) what is outstanding
			if r.Chance(50) {
				upd.DebtCeiling = minted.AddRaw(int64(r.Intn(3) - 1))
			} else {
				upd.DebtCeiling = minted.MulRaw(int64(r.Intn(100))).QuoRaw(100)
			}
			if upd.DebtCeiling.IsNegative() {
				upd.DebtCeiling = sdk.ZeroInt()
			}
			what = "ceiling-lowered"
		case 1:
			upd.DebtCeiling = ep.DebtCeiling.MulRaw(int64(2 + r.Intn(4))).AddRaw(int64(r.Intn(1000)))
			what = "ceiling-raised"
		case 2: // the floor is RAISED above some open vault's principal (or to it, ± 1)
			upd.DebtFloor = ep.DebtFloor.MulRaw(2).AddRaw(1)
			for _, v := range w.app.VaultKeeper.GetVaults(w.ctx) {
				if v.ExtendedPairVaultID == p.id && r.Chance(60) {
					upd.DebtFloor = v.AmountOut.AddRaw(int64(r.Intn(3)))
				}
			}
			what = "floor-raised"
		case 3:
			upd.DebtFloor = ep.DebtFloor.QuoRaw(int64(2 + r.Intn(5)))
			what = "floor-lowered"
		case 4:
			upd.MinCr = c01Dec([]string{"1.5", "2.3", "1.000000000000000001", "1.1", "1.75", "3"}[r.Intn(6)])
			what = "mincr"
		case 5:
			upd.DrawDownFee = c01Dec([]string{"0", "0.001", "0.01", "0.05", "0.000000000000000001", "0.999", "0.3"}[r.Intn(7)])
			what = "drawdown-fee"
		case 6:
			upd.ClosingFee = c01Dec([]string{"0", "0.005", "0.02", "0.1"}[r.Intn(4)])
			what = "closing-fee"
		case 7:
			upd.StabilityFee = c01Dec([]string{"0", "0.02", "0.25", "0.5", "0.07"}[r.Intn(5)])
			what = "stability-fee"
		case 8:
			upd.IsVaultActive = !ep.IsVaultActive
			what = fmt.Sprintf("active=%v", upd.IsVaultActive)
		default:
			upd.LiquidationPenalty = c01Dec([]string{"0", "0.15", "0.05", "0.4"}[r.Intn(4)])
			what = "liquidation-penalty"
		}
		if err := w.app.AssetKeeper.WasmUpdatePairsVault(w.ctx, &upd); err != nil {
			w.tr.Count("op:reconfig:" + what + ":err")
			return
		}
	}
	w.tr.Count("op:reconfig:" + what)
	for _, id := range changed {
		e, _ := w.app.AssetKeeper.GetPairsVault(w.ctx, id)
		w.emitProduct("vault.reconfig", e)
	}
	for _, v := range w.app.VaultKeeper.GetVaults(w.ctx) {
		if d := v.InterestAccumulated.Sub(before[v.Id]); !d.IsZero() {
			w.tr.Count("op:reconfig:interest-booked")
			w.tr.Line("vault.msg", "interestCalc", u(v.AppId), u(v.Id), "-", "-", "-", "esm=0;past=0;brk=0;pin=-;pout=-;iota="+d.String(), "ok")
		}
	}
	w.state()
	// directed follow-up: the owner of a vault that now lies below the floor tries to repay part of the principal (it would
	// deepen the deficit: refused), the owner of a vault of a product now above its ceiling tries to draw (it would raise the
	// excess: refused) — both funded and otherwise valid, so that only the limit decides
	ep, _ = w.app.AssetKeeper.GetPairsVault(w.ctx, p.id)
	if what == "active=false" {
		// the owner of a vault of the deactivated product tries a deposit, a withdrawal and a draw (all refused now), then an
		// interest-only repayment (still allowed)
		for _, v := range w.app.VaultKeeper.GetVaults(w.ctx) {
			if v.ExtendedPairVaultID != p.id {
				continue
			}
			owner, _ := sdk.AccAddressFromBech32(v.Owner)
			on := fmt.Sprint(w.acct(v.Owner))
			amt := sdk.NewInt(int64(1 + r.Intn(1000)))
			if bal := w.app.BankKeeper.GetBalance(w.ctx, owner, w.denomOf[p.assetIn]).Amount; bal.LT(amt) {
				w.fund(owner, p.assetIn, amt.Sub(bal))
			}
			for i, kind := range []string{"deposit", "withdraw", "draw"} {
				env := w.env(v.AppId, p.id, v.Id, true)
				var msg sdk.Msg
				switch i {
				case 0:
					msg = &vaulttypes.MsgDepositRequest{From: v.Owner, AppId: v.AppId, ExtendedPairVaultId: p.id, UserVaultId: v.Id, Amount: amt}
				case 1:
					msg = &vaulttypes.MsgWithdrawRequest{From: v.Owner, AppId: v.AppId, ExtendedPairVaultId: p.id, UserVaultId: v.Id, Amount: sdk.NewInt(1)}
				default:
					msg = &vaulttypes.MsgDrawRequest{From: v.Owner, AppId: v.AppId, ExtendedPairVaultId: p.id, UserVaultId: v.Id, Amount: sdk.NewInt(1)}
				}
				ok := w.deliver(msg)
				a5 := amt.String()
				if i > 0 {
					a5 = "1"
				}
				w.tr.Count("op:reconfig:" + kind + "-on-inactive:" + c01Outcome(ok))
				w.tr.Line("vault.msg", kind, on, u(v.AppId), u(p.id), u(v.Id), a5, env, c01Outcome(ok))
				w.state()
			}
			return
		}
		return
	}
	if what != "floor-raised" && what != "ceiling-lowered" {
		return
	}
	for _, v := range w.app.VaultKeeper.GetVaults(w.ctx) {
		if v.ExtendedPairVaultID != p.id {
			continue
		}
		owner, _ := sdk.AccAddressFromBech32(v.Owner)
		on := fmt.Sprint(w.acct(v.Owner))
		if what == "floor-raised" && v.AmountOut.LT(ep.DebtFloor) {
			amt := v.InterestAccumulated.Add(w.pendingInterest(v.AppId, p.id, v.Id)).AddRaw(int64(1 + r.Intn(1000)))
			if bal := w.app.BankKeeper.GetBalance(w.ctx, owner, w.denomOf[p.assetOut]).Amount; bal.LT(amt) {
				w.fund(owner, p.assetOut, amt.Sub(bal))
			}
			env := w.env(v.AppId, p.id, v.Id, true)
			ok := w.deliver(&vaulttypes.MsgRepayRequest{From: v.Owner, AppId: v.AppId, ExtendedPairVaultId: p.id, UserVaultId: v.Id, Amount: amt})
			w.tr.Count("op:reconfig:repay-below-raised-floor:" + c01Outcome(ok))
			w.tr.Line("vault.msg", "repay", on, u(v.AppId), u(p.id), u(v.Id), amt.String(), env, c01Outcome(ok))
			w.state()
			return
		}
		if what == "ceiling-lowered" && minted.GTE(ep.DebtCeiling) {
			amt := sdk.NewInt(int64(1 + r.Intn(1000)))
			env := w.env(v.AppId, p.id, v.Id, true)
			ok := w.deliver(&vaulttypes.MsgDrawRequest{From: v.Owner, AppId: v.AppId, ExtendedPairVaultId: p.id, UserVaultId: v.Id, Amount: amt})
			w.tr.Count("op:reconfig:draw-above-lowered-ceiling:" + c01Outcome(ok))
			w.tr.Line("vault.msg", "draw", on, u(v.AppId), u(p.id), u(v.Id), amt.String(), env, c01Outcome(ok))
			w.state()
			return
		}
	}
}

// ---- second-generation auctions that run out ---------------------------------------------------------------------------

// auctionBlock2Op runs the REAL auctionsV2 begin-blocker, usually after moving the clock past the end of an open auction of a
// seized vault. Outside emergency shutdown the auction RESTARTS (new start price and end time; nothing in the vault books may
// move, and a later bid settles it as usual). Under emergency shutdown `TriggerEsm` hands what is left back to the vault side:
// one `esmReturn2` step per auction it worked on (recognised by the owner's vault having grown by the auction's remaining debt).
func (w *c01World) auctionBlock2Op() bool { return w.auctionBlock2OpAt(true) }

// jump = false: the begin-blocker runs at the current block time (an auction that has not ended only has its price updated)
func (w *c01World) auctionBlock2OpAt(jump bool) bool {
	r := w.rng
	aucs := w.openAuctions()
	if len(aucs) == 0 {
		return false
	}
	a := aucs[r.Intn(len(aucs))]
	if jump && !w.now.After(a.EndTime) && r.Chance(75) {
		w.now = a.EndTime.Add(time.Duration(1+r.Intn(600)) * time.Second)
		w.height++
		w.ctx = w.ctx.WithBlockHeight(w.height).WithBlockTime(w.now)
	}
	type pre struct {
		orig, app, prod   uint64
		owner             string
		cur, curDebt, fee sdk.Int
		had               bool
		out               sdk.Int
		ended, esm        bool
	}
	var pres []pre
	for _, x := range w.openAuctions() {
		lv, found := w.app.NewliqKeeper.GetLockedVault(w.ctx, x.AppId, x.LockedVaultId)
		if !found || lv.InitiatorType != "vault" {
			continue
		}
		st, f := w.app.EsmKeeper.GetESMStatus(w.ctx, x.AppId)
		q := pre{orig: lv.OriginalVaultId, app: x.AppId, prod: lv.ExtendedPairId, owner: lv.Owner, cur: x.CollateralToken.Amount,
			curDebt: x.DebtToken.Amount, fee: lv.FeeToBeCollected, ended: w.ctx.BlockTime().After(x.EndTime), esm: f && st.Status, out: sdk.ZeroInt()}
		if m, ok := w.app.VaultKeeper.GetUserAppExtendedPairMappingData(w.ctx, lv.Owner, x.AppId, lv.ExtendedPairId); ok {
			if v, ok2 := w.app.VaultKeeper.GetVault(w.ctx, m.VaultId); ok2 {
				q.had, q.out = true, v.AmountOut
			}
		}
		pres = append(pres, q)
	}
	if panicked, msg := try(func() { auctionsV2.BeginBlocker(w.ctx, w.app.NewaucKeeper) }); panicked {
		w.tr.Count("op:auctionblock2:panic")
		w.t.Logf("auctionsV2 begin-blocker panicked: %s", msg)
	}
	n, restarts := 0, 0
	for _, q := range pres {
		if q.ended && !q.esm {
			restarts++
		}
		if !(q.ended && q.esm) {
			continue
		}
		m, ok := w.app.VaultKeeper.GetUserAppExtendedPairMappingData(w.ctx, q.owner, q.app, q.prod)
		if !ok {
			continue
		}
		v, ok2 := w.app.VaultKeeper.GetVault(w.ctx, m.VaultId)
		if !ok2 || !v.AmountOut.Equal(q.out.Add(q.curDebt)) {
			continue
		}
		w.tr.Line("vault.msg", "esmReturn2", u(q.orig), fmt.Sprint(w.acct(q.owner)), q.cur.String(), q.curDebt.String(), q.fee.String(), "esm=1;past=0;brk=0;pin=-;pout=-;iota=0", "ok")
		n++
	}
	w.tr.Count(fmt.Sprintf("op:auctionblock2:restarted=%d:esm-returned=%d", minInt(restarts, 3), minInt(n, 3)))
	if n > 0 {
		w.stateKind("vault.state.esmreturn2")
	} else {
		w.state()
	}
	return true
}

// c01CorpusTrigger2: the witness of the recorded finding on auctionsV2 `TriggerEsm` — a vault is seized by the second
// generation, nobody bids, the app is shut down, the auction runs out: in EVERY following block the begin-blocker gives the
// owner the auction's collateral and target debt again as vault entries while the coins stay in the auction module account.
func c01CorpusTrigger2(t *testing.T, tr *Trace) {
	c01CorpusTrigger2Case(t, tr, false)
	c01CorpusTrigger2Case(t, tr, true)
}

// withBid: a bidder first buys a third of the auction (more than the penalty is collected, so `TriggerEsm` burns the rest and
// takes it off the minted total; the second block then fails for lack of coins in auction custody and is rolled back)
func c01CorpusTrigger2Case(t *testing.T, tr *Trace, withBid bool) {
	w := c01NewWorld(t, tr, NewRng(515151))
	w.state()
	user := w.users[0]
	p0 := &w.products[0]
	out := sdk.NewInt(30_000_000)
	in := w.crBoundaryIn(p0, out).MulRaw(2).AddRaw(10)
	w.fund(user, p0.assetIn, in)
	env := w.env(p0.app, p0.id, 0, false)
	ok := w.deliver(&vaulttypes.MsgCreateRequest{From: user.String(), AppId: p0.app, ExtendedPairVaultId: p0.id, AmountIn: in, AmountOut: out})
	w.tr.Line("vault.msg", "create", fmt.Sprint(w.acct(user.String())), u(p0.app), u(p0.id), in.String(), out.String(), env, c01Outcome(ok))
	w.state()
	vs := w.vaultsOf(user.String())
	if !ok || len(vs) == 0 {
		t.Fatal("corpus: cannot open the vault")
	}
	// another user's well-collateralised vault of the same product: its collateral is what is left in custody later
	other := w.users[1]
	w.fund(other, p0.assetIn, in.MulRaw(3))
	env = w.env(p0.app, p0.id, 0, false)
	ok = w.deliver(&vaulttypes.MsgCreateRequest{From: other.String(), AppId: p0.app, ExtendedPairVaultId: p0.id, AmountIn: in.MulRaw(3), AmountOut: out})
	w.tr.Line("vault.msg", "create", fmt.Sprint(w.acct(other.String())), u(p0.app), u(p0.id), in.MulRaw(3).String(), out.String(), env, c01Outcome(ok))
	w.state()
	twa, _ := w.app.MarketKeeper.GetTwa(w.ctx, p0.assetIn)
	w.setPrice(p0.assetIn, twa.Twa*45/100, true)
	w.liquidate(w.users[1], vs[0], false, twa.Twa)
	if auc := w.openAuctions(); withBid && len(auc) > 0 {
		a := auc[0]
		bid := a.DebtToken.Amount.QuoRaw(3)
		w.fund(w.users[1], w.assetByDenom(a.DebtToken.Denom), bid)
		w.state()
		okk := w.deliver(&auctionsV2types.MsgPlaceMarketBidRequest{AuctionId: a.AuctionId, Bidder: w.users[1].String(), Amount: sdk.NewCoin(a.DebtToken.Denom, bid)})
		w.tr.Count(fmt.Sprintf("corpus:v2-partial-bid:%v", okk))
		w.tr.Line("vault.msg", "donate", "99", "0", "0", "-", "-", "esm=0;past=0;brk=0;pin=-;pout=-;iota=0", "err")
		w.stateKind("vault.state.bid")
	}
	w.app.EsmKeeper.SetESMStatus(w.ctx, esmtypes.ESMStatus{AppId: p0.app, Status: true, StartTime: w.now, EndTime: w.now.Add(100 * time.Hour), SnapshotStatus: true})
	for _, id := range w.assetIDs {
		tw, _ := w.app.MarketKeeper.GetTwa(w.ctx, id)
		w.app.EsmKeeper.SetSnapshotOfPrices(w.ctx, p0.app, id, tw.Twa)
	}
	w.now = w.now.Add(2 * time.Hour)
	defer func() {
		// the consequence: inside the cool-off period the owner withdraws half of the collateral `TriggerEsm` recorded for him —
		// coins that belong to the other user's vault (ratio >= 1 against the recorded debt at the snapshot prices is all that is asked)
		for _, v := range w.vaultsOf(user.String()) {
			amt := v.AmountIn.QuoRaw(2)
			env := w.env(v.AppId, v.ExtendedPairVaultID, v.Id, true)
			okk := w.deliver(&vaulttypes.MsgWithdrawRequest{From: user.String(), AppId: v.AppId, ExtendedPairVaultId: v.ExtendedPairVaultID, UserVaultId: v.Id, Amount: amt})
			w.tr.Count(fmt.Sprintf("corpus:v2-trigger-esm:owner-withdraws-others-collateral:bid=%v:%s", withBid, c01Outcome(okk)))
			w.tr.Line("vault.msg", "withdraw", fmt.Sprint(w.acct(user.String())), u(v.AppId), u(v.ExtendedPairVaultID), u(v.Id), amt.String(), env, c01Outcome(okk))
			w.state()
		}
	}()
	for i := 0; i < 2; i++ {
		w.height++
		w.now = w.now.Add(6 * time.Second)
		w.ctx = w.ctx.WithBlockHeight(w.height).WithBlockTime(w.now)
		if w.auctionBlock2Op() {
			w.tr.Count(fmt.Sprintf("corpus:v2-trigger-esm:bid=%v", withBid))
		}
	}
}

// esmWithdrawOp: while an app is shut down and its cool-off period is NOT over, owners may still withdraw collateral; the ratio
// is then checked against the PRINCIPAL alone, at the snapshot prices, and must be at least 1 (msg_server.go:336-411,
// vault.go:325-351,389). The owner of a vault of such an app withdraws down to that boundary (± 1, or a fraction).
func (w *c01World) esmWithdrawOp() bool {
	r := w.rng
	for _, v := range w.vaultsOf("") {
		st, f := w.app.EsmKeeper.GetESMStatus(w.ctx, v.AppId)
		if !f || !st.Status || !st.SnapshotStatus || w.ctx.BlockTime().After(st.EndTime) {
			continue
		}
		vp := w.productByID(v.ExtendedPairVaultID)
		ep, _ := w.app.AssetKeeper.GetPairsVault(w.ctx, vp.id)
		pin, ok1 := w.app.EsmKeeper.GetSnapshotOfPrices(w.ctx, v.AppId, vp.assetIn)
		pout, ok2 := w.app.EsmKeeper.GetSnapshotOfPrices(w.ctx, v.AppId, vp.assetOut)
		if !ep.AssetOutOraclePrice {
			pout, ok2 = ep.AssetOutPrice, true
		}
		if !ok1 || !ok2 || pin == 0 || pout == 0 {
			w.tr.Count("op:withdraw-under-shutdown:skipped-no-snapshot-price")
			continue
		}
		// collateral needed for ratio 1 against the principal: in = out * pout * decIn / (pin * decOut)
		need := v.AmountOut.Mul(sdk.NewIntFromUint64(pout)).Mul(w.decOf[vp.assetIn]).Quo(sdk.NewIntFromUint64(pin).Mul(w.decOf[vp.assetOut]))
		amt := v.AmountIn.Sub(need).AddRaw(int64(r.Intn(5) - 2))
		if r.Chance(30) || !amt.IsPositive() {
			amt = v.AmountIn.QuoRaw(int64(2 + r.Intn(8)))
		}
		if !amt.IsPositive() {
			amt = sdk.NewInt(1)
		}
		env := w.env(v.AppId, vp.id, v.Id, true)
		ok := w.deliver(&vaulttypes.MsgWithdrawRequest{From: v.Owner, AppId: v.AppId, ExtendedPairVaultId: vp.id, UserVaultId: v.Id, Amount: amt})
		w.tr.Count("op:withdraw-under-shutdown:" + c01Outcome(ok))
		w.tr.Count("op:withdraw:" + c01Outcome(ok))
		w.tr.Line("vault.msg", "withdraw", fmt.Sprint(w.acct(v.Owner)), u(v.AppId), u(vp.id), u(v.Id), amt.String(), env, c01Outcome(ok))
		w.state()
		return true
	}
	w.tr.Count("op:withdraw-under-shutdown:no-candidate")
	return false
}

// ---- emergency redemption over several collaterals / debt assets ------------------------------------------------------

// openVault: `user` opens a vault of product p with principal `out` and `mult`/10 times the boundary collateral (funded).
func (w *c01World) openVault(user sdk.AccAddress, p *c01Product, out sdk.Int, mult int64) bool {
	in := w.crBoundaryIn(p, out).MulRaw(mult).QuoRaw(10).AddRaw(10)
	if !in.IsPositive() || in.GTE(sdk.NewInt(1).MulRaw(1<<62)) {
		return false
	}
	if bal := w.app.BankKeeper.GetBalance(w.ctx, user, w.denomOf[p.assetIn]).Amount; bal.LT(in) {
		w.fund(user, p.assetIn, in.Sub(bal))
	}
	env := w.env(p.app, p.id, 0, false)
	ok := w.deliver(&vaulttypes.MsgCreateRequest{From: user.String(), AppId: p.app, ExtendedPairVaultId: p.id, AmountIn: in, AmountOut: out})
	w.tr.Count("op:create:" + c01Outcome(ok))
	w.tr.Line("vault.msg", "create", fmt.Sprint(w.acct(user.String())), u(p.app), u(p.id), in.String(), out.String(), env, c01Outcome(ok))
	w.state()
	return ok
}

// populate opens up to n vaults on the ordinary products of `app`, cycling through the products so that consecutive vault ids
// belong to different products (different collateral, same debt asset; same collateral, different debt asset).
func (w *c01World) populate(app uint64, n int) {
	r := w.rng
	var ps []*c01Product
	for i := range w.products {
		if w.products[i].app == app && !w.products[i].isStable {
			ps = append(ps, &w.products[i])
		}
	}
	if len(ps) == 0 {
		return
	}
	if r.Chance(50) {
		// only products minting one debt asset (from different collaterals)
		debt := ps[r.Intn(len(ps))].assetOut
		var qs []*c01Product
		for _, q := range ps {
			if q.assetOut == debt {
				qs = append(qs, q)
			}
		}
		ps = qs
	}
	start := r.Intn(len(ps))
	opened := 0
	for i := 0; i < n; i++ {
		p := ps[(start+i)%len(ps)]
		ep, _ := w.app.AssetKeeper.GetPairsVault(w.ctx, p.id)
		user := w.users[r.Intn(len(w.users))]
		if _, has := w.app.VaultKeeper.GetUserAppExtendedPairMappingData(w.ctx, user.String(), p.app, p.id); has {
			continue
		}
		if w.openVault(user, p, ep.DebtFloor.Add(w.amount(2)), int64(15+r.Intn(30))) {
			opened++
		}
	}
	w.tr.Count(fmt.Sprintf("op:populate:opened=%d", minInt(opened, 4)))
}

// c01CorpusEsmSweep: the emergency-redemption sweep over an app whose vaults mix collaterals and debt assets — ids in the
// order ATOM→CMST, WETH→CMST, ATOM→EURX, ATOM→CMST (another user), WETH→CMST (another user) — then the real esm begin-blocker
// after the cool-off period and holders' redemptions of both debt assets: the debt registered for redemption must be, per
// debt asset, the sum of the principals of ALL swept vaults (`esmVault_registers_principal`).
func c01CorpusEsmSweep(t *testing.T, tr *Trace) {
	c01CorpusEsmSweepCase(t, tr, true)
	c01CorpusEsmSweepCase(t, tr, false)
}

// oneDebt: only the products minting the first product's debt asset get vaults (different collaterals, ONE debt asset);
// otherwise all ordinary products of the app (also one collateral with two debt assets)
func c01CorpusEsmSweepCase(t *testing.T, tr *Trace, oneDebt bool) {
	w := c01NewWorld(t, tr, NewRng(616161))
	w.state()
	app := w.apps[0]
	var ps []*c01Product
	for i := range w.products {
		if w.products[i].app == app && !w.products[i].isStable && (!oneDebt || w.products[i].assetOut == w.products[0].assetOut) {
			ps = append(ps, &w.products[i])
		}
	}
	n := 0
	for round := 0; round < 2; round++ {
		if round >= len(w.users) {
			break
		}
		for _, p := range ps {
			if round == 1 && p.assetOut != ps[0].assetOut {
				continue
			}
			ep, _ := w.app.AssetKeeper.GetPairsVault(w.ctx, p.id)
			if w.openVault(w.users[round], p, ep.DebtFloor.AddRaw(int64(20_000_000+7_000_000*n)), 25) {
				n++
			}
		}
	}
	w.tr.Count(fmt.Sprintf("corpus:esm-sweep:one-debt=%v:vaults=%d", oneDebt, n))
	var rates []esmtypes.DebtAssetsRates
	for _, id := range w.assetIDs {
		rates = append(rates, esmtypes.DebtAssetsRates{AssetID: id, Rates: 1000000})
		tw, _ := w.app.MarketKeeper.GetTwa(w.ctx, id)
		w.app.EsmKeeper.SetSnapshotOfPrices(w.ctx, app, id, tw.Twa)
	}
	w.app.EsmKeeper.SetESMTriggerParams(w.ctx, esmtypes.ESMTriggerParams{AppId: app, TargetValue: sdk.NewCoin("uharbor", sdk.NewInt(1)), CoolOffPeriod: 3600, AssetsRates: rates})
	w.app.EsmKeeper.SetESMStatus(w.ctx, esmtypes.ESMStatus{AppId: app, Status: true, StartTime: w.now, EndTime: w.now.Add(time.Hour), SnapshotStatus: true})
	w.now = w.now.Add(2 * time.Hour)
	for i := 0; i < 3; i++ {
		w.height++
		w.now = w.now.Add(6 * time.Second)
		w.ctx = w.ctx.WithBlockHeight(w.height).WithBlockTime(w.now)
		w.esmBlockOp()
	}
	for i := 0; i < 4 && w.esmRegistered(); i++ {
		w.esmRedeemOp(w.users[i%len(w.users)])
	}
}
