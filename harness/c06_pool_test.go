//go:build verif

package harness

import (
	"math/big"
	"testing"

	sdkmath "cosmossdk.io/math"

	"github.com/comdex-official/comdex/x/liquidity/amm"
)

// C06 — pool share fairness. Drives the REAL amm.Deposit, amm.Withdraw, amm.CreateRangedPool,
// amm.NewRangedPool (DeriveTranslation) and RangedPool.Price and writes one trace line per call
// (protocol: lean/Comdex/Drv/Pool.lean).

var (
	c06P     = new(big.Int).Exp(big.NewInt(10), big.NewInt(18), nil)
	c06Max   = new(big.Int).Exp(big.NewInt(10), big.NewInt(40), nil) // amm.MaxCoinAmount
	c06Lim   = new(big.Int).Lsh(big.NewInt(1), 256)                  // keep inside sdk.Int (BitLen <= 256)
	c06Two   = new(big.Int).Lsh(big.NewInt(1), 315)
	c06One   = big.NewInt(1)
	c06Zero  = big.NewInt(0)
	c06MinPx = big.NewInt(1000) // raw 10^-15
)

func c06b(x int64) *big.Int { return big.NewInt(x) }
func c06pow10(e int) *big.Int {
	return new(big.Int).Exp(big.NewInt(10), big.NewInt(int64(e)), nil)
}
func c06mul(a, b *big.Int) *big.Int { return new(big.Int).Mul(a, b) }
func c06add(a, b *big.Int) *big.Int { return new(big.Int).Add(a, b) }
func c06sub(a, b *big.Int) *big.Int { return new(big.Int).Sub(a, b) }
func c06div(a, b *big.Int) *big.Int {
	if b.Sign() == 0 {
		return big.NewInt(0)
	}
	return new(big.Int).Quo(a, b)
}
func c06ceildiv(a, b *big.Int) *big.Int {
	if b.Sign() == 0 {
		return big.NewInt(0)
	}
	q, r := new(big.Int).QuoRem(a, b, new(big.Int))
	if r.Sign() > 0 {
		q.Add(q, c06One)
	}
	return q
}

// c06clamp keeps |v| below 2^256 so that sdkmath.NewIntFromBigInt accepts it.
func c06clamp(v *big.Int) *big.Int {
	if new(big.Int).Abs(v).Cmp(c06Lim) >= 0 {
		return c06sub(c06Lim, c06One)
	}
	return v
}

// c06below returns a uniform value in [0, n).
func c06below(r *Rng, n *big.Int) *big.Int {
	if n.Sign() <= 0 {
		return big.NewInt(0)
	}
	words := n.BitLen()/64 + 2
	v := new(big.Int)
	for i := 0; i < words; i++ {
		v.Lsh(v, 64)
		v.Or(v, new(big.Int).SetUint64(r.U64()))
	}
	return v.Mod(v, n)
}

// c06digits returns a value with exactly d decimal digits (d = 0 gives 0); sometimes a round number ±1.
func c06digits(r *Rng, d int) *big.Int {
	if d <= 0 {
		return big.NewInt(0)
	}
	lo := c06pow10(d - 1)
	switch r.Intn(10) {
	case 0:
		return lo
	case 1:
		if d > 1 {
			return c06sub(c06pow10(d), c06One) // 99…9
		}
		return lo
	case 2:
		return c06add(lo, c06One)
	case 3: // few significant digits
		m := int64(r.Range(1, 9999))
		v := c06mul(c06b(m), c06pow10(d))
		for len(v.String()) > d {
			v.Quo(v, big.NewInt(10))
		}
		return v
	}
	return c06add(lo, c06below(r, c06mul(lo, c06b(9))))
}

func c06amount(r *Rng, maxDigits int) *big.Int { return c06digits(r, r.Range(1, maxDigits)) }

func c06I(b *big.Int) sdkmath.Int          { return sdkmath.NewIntFromBigInt(b) }
func c06D(raw *big.Int) sdkmath.LegacyDec { return sdkmath.LegacyNewDecFromBigIntWithPrec(raw, 18) }

func c06Deposit(tr *Trace, rx, ry, ps, x, y *big.Int) {
	rx, ry, ps, x, y = c06clamp(rx), c06clamp(ry), c06clamp(ps), c06clamp(x), c06clamp(y)
	var ax, ay, pc sdkmath.Int
	panicked, _ := try(func() { ax, ay, pc = amm.Deposit(c06I(rx), c06I(ry), c06I(ps), c06I(x), c06I(y)) })
	if panicked {
		tr.Count("deposit:panic")
		tr.Line("pool.deposit", rx.String(), ry.String(), ps.String(), x.String(), y.String(), "panic", "-", "-", "-")
		return
	}
	switch {
	case pc.IsZero():
		tr.Count("deposit:pc=0")
	case pc.IsPositive():
		tr.Count("deposit:pc>0")
		// who wins the dust: accepted coins worth less than the minted shares (half-even round-down of mintProportion)?
		if rx.Sign() > 0 && c06mul(ax.BigInt(), ps).Cmp(c06mul(pc.BigInt(), rx)) < 0 {
			tr.Count("deposit:dust-to-depositor(x)")
		}
		if ax.BigInt().Cmp(x) == 0 && ay.BigInt().Cmp(y) == 0 {
			tr.Count("deposit:all-accepted")
		}
	}
	tr.Line("pool.deposit", rx.String(), ry.String(), ps.String(), x.String(), y.String(), "ok", ax.String(), ay.String(), pc.String())
}

func c06Withdraw(tr *Trace, rx, ry, ps, pc, fee *big.Int) {
	rx, ry, ps, pc = c06clamp(rx), c06clamp(ry), c06clamp(ps), c06clamp(pc)
	var x, y sdkmath.Int
	panicked, _ := try(func() { x, y = amm.Withdraw(c06I(rx), c06I(ry), c06I(ps), c06I(pc), c06D(fee)) })
	if panicked {
		tr.Count("withdraw:panic")
		tr.Line("pool.withdraw", rx.String(), ry.String(), ps.String(), pc.String(), fee.String(), "panic", "-", "-")
		return
	}
	switch {
	case pc.Cmp(ps) == 0:
		tr.Count("withdraw:last-share")
	case x.IsZero() && y.IsZero():
		tr.Count("withdraw:zero")
	default:
		tr.Count("withdraw:some")
	}
	tr.Line("pool.withdraw", rx.String(), ry.String(), ps.String(), pc.String(), fee.String(), "ok", x.String(), y.String())
}

// c06regime classifies a ranged pool configuration for the statistics.
func c06regime(minP, maxP, rx, ry *big.Int) string {
	lo, hi := c06pow10(12), c06pow10(24) // prices 10^-6 … 10^6
	amt := c06pow10(6)
	if minP.Cmp(lo) >= 0 && maxP.Cmp(hi) <= 0 && (rx.Sign() == 0 || rx.Cmp(amt) >= 0) && (ry.Sign() == 0 || ry.Cmp(amt) >= 0) {
		return "moderate"
	}
	return "extreme"
}

func c06priceStat(tr *Trace, kind string, minP, maxP, rx, ry *big.Int, price sdkmath.LegacyDec) {
	reg := c06regime(minP, maxP, rx, ry)
	p := price.BigInt()
	rel := func(a, b *big.Int) string { // order of magnitude of |a-b|/b
		d := new(big.Int).Abs(c06sub(a, b))
		q := c06div(c06mul(d, c06pow10(18)), b)
		switch {
		case q.Cmp(c06pow10(15)) >= 0:
			return ">=1e-3"
		case q.Cmp(c06pow10(9)) >= 0:
			return "1e-9..1e-3"
		case q.Cmp(c06pow10(3)) >= 0:
			return "1e-15..1e-9"
		}
		return "<1e-15"
	}
	switch {
	case p.Cmp(minP) < 0:
		tr.Count(kind + ":" + reg + ":price<min rel" + rel(p, minP))
	case p.Cmp(maxP) > 0:
		tr.Count(kind + ":" + reg + ":price>max rel" + rel(p, maxP))
	default:
		tr.Count(kind + ":" + reg + ":price in range")
	}
}

func c06Create(tr *Trace, x, y, minP, maxP, initP *big.Int) {
	var pool *amm.RangedPool
	var err error
	panicked, _ := try(func() { pool, err = amm.CreateRangedPool(c06I(x), c06I(y), c06D(minP), c06D(maxP), c06D(initP)) })
	args := []string{x.String(), y.String(), minP.String(), maxP.String(), initP.String()}
	switch {
	case panicked:
		tr.Count("create:panic")
		tr.Line("pool.create", append(args, "panic", "-", "-", "-", "-", "-", "-", "-")...)
		return
	case err != nil:
		tr.Count("create:err")
		tr.Line("pool.create", append(args, "err", "-", "-", "-", "-", "-", "-", "-")...)
		return
	}
	rx, ry := pool.Balances()
	tx, ty := pool.Translation()
	var price sdkmath.LegacyDec
	pp, _ := try(func() { price = pool.Price() })
	po, pv := "ok", "-"
	if pp {
		po = "panic"
		tr.Count("create:ok,price panics")
	} else {
		pv = price.BigInt().String()
		switch {
		case rx.IsZero():
			tr.Count("create:ok single-y")
		case ry.IsZero():
			tr.Count("create:ok single-x")
		case rx.BigInt().Cmp(x) == 0:
			tr.Count("create:ok all-x")
		default:
			tr.Count("create:ok all-y")
		}
		c06priceStat(tr, "create", minP, maxP, rx.BigInt(), ry.BigInt(), price)
	}
	tr.Line("pool.create", append(args, "ok", rx.String(), ry.String(), pool.PoolCoinSupply().String(),
		tx.BigInt().String(), ty.BigInt().String(), po, pv)...)
}

func c06Derive(tr *Trace, rx, ry, minP, maxP *big.Int) {
	var pool *amm.RangedPool
	args := []string{rx.String(), ry.String(), minP.String(), maxP.String()}
	panicked, _ := try(func() { pool = amm.NewRangedPool(c06I(rx), c06I(ry), sdkmath.OneInt(), c06D(minP), c06D(maxP)) })
	if panicked {
		tr.Count("derive:panic")
		tr.Line("pool.derive", append(args, "panic", "-", "-", "-", "-")...)
		return
	}
	tx, ty := pool.Translation()
	var price sdkmath.LegacyDec
	pp, _ := try(func() { price = pool.Price() })
	po, pv := "ok", "-"
	if pp {
		po = "panic"
		tr.Count("derive:ok,price panics")
	} else {
		pv = price.BigInt().String()
		c06priceStat(tr, "derive", minP, maxP, rx, ry, price)
	}
	tr.Line("pool.derive", append(args, "ok", tx.BigInt().String(), ty.BigInt().String(), po, pv)...)
}

// c06poolFields prints `<ok|panic> transX transY <ok|panic|-> price` of a pool object (nil = its construction panicked).
func c06poolFields(pool *amm.RangedPool) []string {
	if pool == nil {
		return []string{"panic", "-", "-", "-", "-"}
	}
	tx, ty := pool.Translation()
	var price sdkmath.LegacyDec
	pp, _ := try(func() { price = pool.Price() })
	if pp {
		return []string{"ok", tx.BigInt().String(), ty.BigInt().String(), "panic", "-"}
	}
	return []string{"ok", tx.BigInt().String(), ty.BigInt().String(), "ok", price.BigInt().String()}
}

// c06SetBal: the pool NewRangedPool(rx0, ry0) after SetBalances(rx, ry, derive), next to the fresh pool NewRangedPool(rx, ry).
func c06SetBal(tr *Trace, rx0, ry0, minP, maxP, rx, ry *big.Int, derive bool) {
	var pool *amm.RangedPool
	if panicked, _ := try(func() { pool = amm.NewRangedPool(c06I(rx0), c06I(ry0), sdkmath.OneInt(), c06D(minP), c06D(maxP)) }); panicked {
		return
	}
	tx0, ty0 := pool.Translation()
	dv := "0"
	if derive {
		dv = "1"
	}
	args := []string{rx0.String(), ry0.String(), minP.String(), maxP.String(), rx.String(), ry.String(), dv, tx0.BigInt().String(), ty0.BigInt().String()}
	if panicked, _ := try(func() { pool.SetBalances(c06I(rx), c06I(ry), derive) }); panicked {
		pool = nil
		tr.Count("setbal:panic")
	} else {
		tr.Count("setbal:ok:derive=" + dv)
	}
	var fresh *amm.RangedPool
	if panicked, _ := try(func() { fresh = amm.NewRangedPool(c06I(rx), c06I(ry), sdkmath.OneInt(), c06D(minP), c06D(maxP)) }); panicked {
		fresh = nil
	}
	tr.Line("pool.setbal", append(append(args, c06poolFields(pool)...), c06poolFields(fresh)...)...)
}

// c06tick returns a raw price with 5 significant digits (a tick at the default tick precision 4) and
// decimal exponent e of the raw value (raw in [10^e, 10^(e+1))), e in [3, 38].
func c06tick(r *Rng, e int) *big.Int {
	m := int64(r.Range(10000, 99999))
	if r.Chance(25) {
		m = int64(r.Range(10, 99)) * 1000
	}
	if e >= 4 {
		return c06mul(c06b(m), c06pow10(e-4))
	}
	return c06div(c06b(m), c06pow10(4-e))
}

// c06triple generates a mostly admissible (min, max, initial) raw price triple.
func c06triple(r *Rng, tr *Trace) (minP, maxP, initP *big.Int) {
	var e int
	switch r.Intn(4) {
	case 0:
		e = r.Range(12, 24) // 10^-6 … 10^6
	case 1:
		e = r.Range(15, 21) // around 1
	default:
		e = r.Range(3, 38)
	}
	minP = c06tick(r, e)
	if minP.Cmp(c06MinPx) < 0 {
		minP = new(big.Int).Set(c06MinPx)
	}
	maxRaw := c06mul(c06pow10(20), c06P)
	switch r.Intn(5) {
	case 0: // the narrowest admissible range: gap ratio exactly 0.001 (or the next tick)
		maxP = c06ceildiv(c06mul(minP, c06b(1001)), c06b(1000))
	case 1:
		maxP = c06div(c06mul(minP, c06b(int64(r.Range(1001, 1100)))), c06b(1000))
	case 2:
		maxP = c06div(c06mul(minP, c06b(int64(r.Range(1100, 10000)))), c06b(1000))
	case 3:
		maxP = c06mul(minP, c06pow10(r.Range(1, 6)))
	default:
		maxP = maxRaw
	}
	if r.Chance(70) { // put max on a tick (5 significant digits), rounding up
		d := len(maxP.String()) - 5
		if d > 0 {
			p := c06pow10(d)
			maxP = c06mul(c06ceildiv(maxP, p), p)
		}
	}
	if maxP.Cmp(maxRaw) > 0 {
		maxP = maxRaw
	}
	switch r.Intn(8) {
	case 0:
		initP = new(big.Int).Set(minP)
	case 1:
		initP = new(big.Int).Set(maxP)
	case 2: // next to an end
		if r.Chance(50) {
			initP = c06add(minP, c06pow10(r.Range(0, len(minP.String())-1)))
		} else {
			initP = c06sub(maxP, c06pow10(r.Range(0, len(maxP.String())-1)))
		}
	default:
		span := c06sub(maxP, minP)
		initP = c06add(minP, c06below(r, c06add(span, c06One)))
		if r.Chance(70) {
			d := len(initP.String()) - 5
			if d > 0 {
				p := c06pow10(d)
				initP = c06mul(c06div(initP, p), p)
			}
			if initP.Cmp(minP) < 0 {
				initP = new(big.Int).Set(minP)
			}
		}
	}
	// malformed stream
	if r.Chance(6) {
		tr.Count("triple:malformed")
		switch r.Intn(7) {
		case 6:
			maxP = c06b(int64(-r.Intn(2))) // max price zero / negative
		case 0:
			minP, maxP = maxP, minP
		case 1:
			initP = c06sub(minP, c06One)
		case 2:
			initP = c06add(maxP, c06One)
		case 3:
			maxP = c06add(maxRaw, c06One)
		case 4:
			minP = c06b(999)
		default:
			maxP = c06sub(c06ceildiv(c06mul(minP, c06b(1001)), c06b(1000)), c06One) // gap one ulp too small
		}
	}
	return
}

func TestC06(t *testing.T) {
	tr := OpenTrace(t, "c06.trace")
	defer tr.Close(t)
	// NewRng(k) starts the splitmix64 counter at k·γ+c, so the streams of seeds k and k+d are the same stream shifted by
	// d draws (and re-synchronise after a few variable-length cases). Seeding with a mixed value makes seeds independent.
	rng := NewRng(NewRng(seed()).U64())
	bi := func(s string) *big.Int {
		v, ok := new(big.Int).SetString(s, 10)
		if !ok {
			t.Fatal("bad literal " + s)
		}
		return v
	}

	// ---- corpus: witnesses first ---------------------------------------------------------------
	// (1) ranged pool created with an admissible, on-tick triple whose price is outside [min,max]
	//     (Props/C06.lean `ranged_price_in_range_counterexample`)
	c06Create(tr, bi("0"), bi("65721122"), bi("3200000000000000000"), bi("3203200000000000000"), bi("3200000000000000000"))
	//     `ranged_price_above_max_counterexample`
	c06Create(tr, bi("25435609390"), bi("11"), bi("89000000000000"), bi("8900000000000000000"), bi("8900000000000000000"))
	//     `ranged_price_far_below_min_counterexample` (85 % below minPrice)
	c06Create(tr, bi("66000000000000000000"), bi("89000000000000000000000000000000"), bi("46030000000000000000000000000000000000"),
		bi("100000000000000000000000000000000000000"), bi("47485000000000000000000000000000000000"))
	//     `rederive_moves_endpoint_counterexample`: along its own curve the pool stays inside the range, re-derived at the
	//     same reserves it is below minPrice
	c06SetBal(tr, bi("1000000"), bi("300000"), bi("3200000000000000000"), bi("3203200000000000000"), bi("0"), bi("612420"), false)
	c06SetBal(tr, bi("1000000"), bi("300000"), bi("3200000000000000000"), bi("3203200000000000000"), bi("0"), bi("612420"), true)
	// (2) the half-even round-down of mintProportion: one third of the pool for 10^18-1 instead of 10^18 coins
	//     (Props/C06.lean `deposit_dust_goes_to_depositor`)
	c06Deposit(tr, bi("3000000000000000000"), bi("3000000000000000000"), bi("3"), bi("1000000000000000002"), bi("1000000000000000002"))
	// (3) overflow arm inside the 10^40 bounds: ps·ratio exceeds 315 bits
	c06Deposit(tr, bi("1"), bi("1"), c06Max, c06Max, c06Max)
	// (4) last share with a fee
	c06Withdraw(tr, bi("1000"), bi("2000"), bi("10"), bi("10"), bi("3000000000000000"))

	// ---- deposit: exhaustive small --------------------------------------------------------------
	n := int64(scale(8, 12))
	for rx := int64(0); rx <= n; rx++ {
		for ry := int64(0); ry <= n; ry++ {
			for ps := int64(0); ps <= n; ps++ {
				for x := int64(0); x <= n; x++ {
					for y := int64(0); y <= n; y++ {
						c06Deposit(tr, c06b(rx), c06b(ry), c06b(ps), c06b(x), c06b(y))
					}
				}
			}
		}
	}
	// ---- withdraw: exhaustive small -------------------------------------------------------------
	fees := []*big.Int{c06b(0), c06b(1), c06b(3000000000000000), c06b(500000000000000000), c06b(333333333333333333),
		c06sub(c06P, c06One), c06P}
	for rx := int64(0); rx <= n; rx++ {
		for ry := int64(0); ry <= n; ry++ {
			for ps := int64(0); ps <= n; ps++ {
				for pc := int64(0); pc <= n; pc++ {
					for _, f := range fees {
						c06Withdraw(tr, c06b(rx), c06b(ry), c06b(ps), c06b(pc), f)
					}
				}
			}
		}
	}

	// ---- deposit: wide random, boundary-directed -----------------------------------------------
	nd := scale(60000, 600000)
	for i := 0; i < nd; i++ {
		var rx, ry, ps, x, y *big.Int
		mode := rng.Intn(8)
		tr.Count("deposit-mode:" + u(uint64(mode)))
		switch mode {
		case 0: // independent magnitudes up to 10^40 (and a little above: 41 digits)
			rx, ry, ps, x, y = c06amount(rng, 41), c06amount(rng, 41), c06amount(rng, 41), c06amount(rng, 41), c06amount(rng, 41)
		case 1: // offer proportional to the reserves around an exact share amount
			rx, ry, ps = c06amount(rng, 40), c06amount(rng, 40), c06amount(rng, 40)
			pc := c06add(c06below(rng, c06add(ps, ps)), c06One)
			x = c06add(c06ceildiv(c06mul(pc, rx), ps), c06b(int64(rng.Range(-1, 1))))
			y = c06add(c06ceildiv(c06mul(pc, ry), ps), c06b(int64(rng.Range(-1, 1))))
			if rng.Chance(30) {
				y = c06add(y, c06amount(rng, 20))
			}
		case 2: // supplies with periodic decimal expansion against reserves that are multiples of 10^18
			ps = c06b(int64([]int{3, 6, 7, 9, 11, 12, 13, 14, 17, 19, 21, 23, 27, 29, 31, 37, 41}[rng.Intn(17)]))
			if rng.Chance(40) {
				ps = c06mul(ps, c06pow10(rng.Range(0, 30)))
			}
			rx = c06mul(c06amount(rng, 12), c06pow10(rng.Range(0, 22)))
			ry = c06mul(c06amount(rng, 12), c06pow10(rng.Range(0, 22)))
			k := c06add(c06below(rng, ps), c06One)
			x = c06add(c06ceildiv(c06mul(k, rx), ps), c06b(int64(rng.Range(0, 2))))
			y = c06add(c06ceildiv(c06mul(k, ry), ps), c06b(int64(rng.Range(0, 2))))
		case 3: // overflow boundary of ps·ratio (2^315) with small reserves
			rx, ry = c06b(int64(rng.Range(1, 1000))), c06b(int64(rng.Range(0, 1000)))
			ps = c06amount(rng, 41)
			x = c06add(c06ceildiv(c06mul(c06Two, rx), c06mul(ps, c06P)), c06b(int64(rng.Range(-2, 2))))
			y = c06mul(ry, c06add(x, c06One))
		case 4: // far beyond the module bounds (other overflow sites)
			rx, ry, ps, x, y = c06amount(rng, 76), c06amount(rng, 76), c06amount(rng, 76), c06amount(rng, 76), c06amount(rng, 76)
		case 5: // single-sided reserves (ranged pools)
			rx, ry, ps, x, y = c06amount(rng, 40), c06amount(rng, 40), c06amount(rng, 41), c06amount(rng, 40), c06amount(rng, 40)
			if rng.Chance(50) {
				rx = big.NewInt(0)
			} else {
				ry = big.NewInt(0)
			}
			if rng.Chance(30) {
				x = big.NewInt(0)
			}
			if rng.Chance(30) {
				y = big.NewInt(0)
			}
		case 6: // exact multiples
			rx, ry, ps = c06amount(rng, 30), c06amount(rng, 30), c06amount(rng, 30)
			j := c06amount(rng, 10)
			x, y = c06mul(rx, j), c06mul(ry, j)
			if rng.Chance(50) {
				x = c06add(x, c06b(int64(rng.Range(-1, 1))))
			}
		default: // small supply, huge reserves: coarse shares
			rx, ry = c06amount(rng, 40), c06amount(rng, 40)
			ps = c06amount(rng, 6)
			x, y = c06amount(rng, 40), c06amount(rng, 40)
		}
		if x.Sign() < 0 {
			x = big.NewInt(0)
		}
		if y.Sign() < 0 {
			y = big.NewInt(0)
		}
		if rng.Chance(1) { // malformed: a negative argument
			tr.Count("deposit:negative-arg")
			switch rng.Intn(5) {
			case 0:
				rx = new(big.Int).Neg(rx)
			case 1:
				ry = new(big.Int).Neg(ry)
			case 2:
				ps = new(big.Int).Neg(ps)
			case 3:
				x = new(big.Int).Neg(x)
			default:
				y = new(big.Int).Neg(y)
			}
		}
		c06Deposit(tr, rx, ry, ps, x, y)
	}

	// ---- withdraw: wide random, boundary-directed ----------------------------------------------
	nw := scale(40000, 400000)
	for i := 0; i < nw; i++ {
		var rx, ry, ps, pc, fee *big.Int
		switch rng.Intn(6) {
		case 0:
			fee = fees[rng.Intn(len(fees))]
		case 1:
			fee = c06b(3000000000000000)
		default:
			fee = c06below(rng, c06add(c06P, c06One))
		}
		mode := rng.Intn(6)
		tr.Count("withdraw-mode:" + u(uint64(mode)))
		switch mode {
		case 0:
			rx, ry, ps = c06amount(rng, 41), c06amount(rng, 41), c06amount(rng, 41)
			pc = c06below(rng, c06add(ps, c06One))
		case 1: // around the whole supply and around nothing
			rx, ry, ps = c06amount(rng, 40), c06amount(rng, 40), c06amount(rng, 41)
			switch rng.Intn(4) {
			case 0:
				pc = new(big.Int).Set(ps)
			case 1:
				pc = c06sub(ps, c06One)
			case 2:
				pc = big.NewInt(1)
			default:
				pc = c06sub(ps, c06amount(rng, 3))
				if pc.Sign() < 0 {
					pc = big.NewInt(0)
				}
			}
		case 2: // proportion with periodic expansion, reserves multiples of 10^18
			ps = c06b(int64(rng.Range(2, 1000)))
			if rng.Chance(40) {
				ps = c06mul(ps, c06pow10(rng.Range(0, 30)))
			}
			pc = c06below(rng, c06add(ps, c06One))
			rx = c06mul(c06amount(rng, 12), c06pow10(rng.Range(0, 22)))
			ry = c06mul(c06amount(rng, 12), c06pow10(rng.Range(0, 22)))
		case 3: // malformed: more than the supply, fee outside [0,1], empty supply
			tr.Count("withdraw:malformed")
			rx, ry, ps = c06amount(rng, 30), c06amount(rng, 30), c06amount(rng, 30)
			pc = c06below(rng, c06add(ps, c06One))
			switch rng.Intn(4) {
			case 0:
				pc = c06add(ps, c06amount(rng, 10))
			case 1:
				fee = c06add(c06P, c06amount(rng, 18))
			case 2:
				fee = new(big.Int).Neg(c06amount(rng, 18))
			default:
				ps = big.NewInt(0)
			}
		case 4: // far beyond the module bounds
			rx, ry, ps = c06amount(rng, 76), c06amount(rng, 76), c06amount(rng, 76)
			pc = c06below(rng, c06add(ps, c06One))
			if rng.Chance(30) { // the overflow arm of Withdraw: a reserve just below 2^256 and nearly the whole supply
				rx = c06sub(c06sub(new(big.Int).Lsh(c06One, 256), c06One), c06amount(rng, 70))
				ps = c06add(c06amount(rng, 40), c06pow10(20))
				pc = c06sub(ps, c06One)
				tr.Count("withdraw:overflow-directed")
			}
		default: // single-sided / small
			rx, ry, ps = c06amount(rng, 40), c06amount(rng, 6), c06amount(rng, 10)
			if rng.Chance(50) {
				rx, ry = ry, rx
			}
			if rng.Chance(30) {
				rx = big.NewInt(0)
			}
			pc = c06below(rng, c06add(ps, c06One))
		}
		c06Withdraw(tr, rx, ry, ps, pc, fee)
	}

	// ---- ranged pools: creation ------------------------------------------------------------------
	nc := scale(30000, 300000)
	for i := 0; i < nc; i++ {
		minP, maxP, initP := c06triple(rng, tr)
		var x, y *big.Int
		switch rng.Intn(4) {
		case 0:
			x, y = c06amount(rng, 41), c06amount(rng, 41)
		case 1: // realistic deposits
			x, y = c06digits(rng, rng.Range(7, 24)), c06digits(rng, rng.Range(7, 24))
		case 2: // offer roughly at the initial price
			y = c06digits(rng, rng.Range(1, 30))
			x = c06div(c06mul(y, initP), c06P)
			if x.Cmp(c06mul(c06Max, c06b(10))) > 0 {
				x = c06amount(rng, 40)
			}
		default:
			x, y = c06amount(rng, 12), c06amount(rng, 12)
		}
		if rng.Chance(5) {
			x = big.NewInt(0)
		}
		if rng.Chance(5) {
			y = big.NewInt(0)
		}
		c06Create(tr, x, y, minP, maxP, initP)
	}

	// ---- ranged pools: translation and price for arbitrary reserves ------------------------------
	nr := scale(30000, 300000)
	for i := 0; i < nr; i++ {
		minP, maxP, _ := c06triple(rng, tr)
		// only admissible ranges here (the constructor does not validate)
		maxRaw := c06mul(c06pow10(20), c06P)
		if minP.Cmp(c06MinPx) < 0 || maxP.Cmp(maxRaw) > 0 || maxP.Cmp(minP) <= 0 ||
			c06sub(maxP, minP).Cmp(c06ceildiv(minP, c06b(1000))) < 0 {
			continue
		}
		var rx, ry *big.Int
		switch rng.Intn(5) {
		case 0:
			rx, ry = c06amount(rng, 41), c06amount(rng, 41)
		case 1:
			rx, ry = c06digits(rng, rng.Range(7, 24)), c06digits(rng, rng.Range(7, 24))
		case 2: // reserves roughly at a price inside the range
			ry = c06digits(rng, rng.Range(1, 30))
			p := c06add(minP, c06below(rng, c06sub(maxP, minP)))
			rx = c06div(c06mul(ry, p), c06P)
			if rx.Cmp(c06Max) > 0 {
				rx = c06amount(rng, 40)
			}
		case 3: // single-sided or nearly so
			rx, ry = c06amount(rng, 40), c06amount(rng, 40)
			switch rng.Intn(4) {
			case 0:
				rx = big.NewInt(0)
			case 1:
				ry = big.NewInt(0)
			case 2:
				rx = big.NewInt(1)
			default:
				ry = big.NewInt(1)
			}
		default:
			rx, ry = c06amount(rng, 10), c06amount(rng, 10)
		}
		c06Derive(tr, rx, ry, minP, maxP)
		// the same pool moved by a swap: SetBalances with the translation kept / re-derived
		if rng.Chance(35) {
			var pool *amm.RangedPool
			if panicked, _ := try(func() { pool = amm.NewRangedPool(c06I(rx), c06I(ry), sdkmath.OneInt(), c06D(minP), c06D(maxP)) }); panicked {
				continue
			}
			tx, ty := pool.Translation()
			var nx, ny *big.Int
			mode := rng.Intn(5)
			tr.Count("setbal-mode:" + u(uint64(mode)))
			// points of the pool's own curve (rx+tx)(ry+ty) = k, in raw 10^-18 units
			k := c06mul(c06add(c06mul(rx, c06P), tx.BigInt()), c06add(c06mul(ry, c06P), ty.BigInt()))
			onCurveY := func(x *big.Int) *big.Int { // smallest ry with (x+tx)(ry+ty) >= k
				d := c06add(c06mul(x, c06P), tx.BigInt())
				if d.Sign() <= 0 {
					return big.NewInt(0)
				}
				v := c06sub(c06ceildiv(k, d), ty.BigInt())
				if v.Sign() < 0 {
					return big.NewInt(0)
				}
				return c06ceildiv(v, c06P)
			}
			switch mode {
			case 0: // the all-base end of the curve
				nx = big.NewInt(0)
				ny = onCurveY(nx)
			case 1: // the all-quote end
				ny = big.NewInt(0)
				d := ty.BigInt()
				if d.Sign() <= 0 {
					continue
				}
				v := c06sub(c06ceildiv(k, d), tx.BigInt())
				if v.Sign() < 0 {
					v = big.NewInt(0)
				}
				nx = c06ceildiv(v, c06P)
			case 2, 3: // somewhere on the curve
				nx = c06below(rng, c06add(c06mul(rx, c06b(2)), c06One))
				ny = onCurveY(nx)
			default: // anywhere
				nx, ny = c06amount(rng, 30), c06amount(rng, 30)
			}
			if nx.Cmp(c06mul(c06Max, c06pow10(20))) > 0 || ny.Cmp(c06mul(c06Max, c06pow10(20))) > 0 {
				continue
			}
			c06SetBal(tr, rx, ry, minP, maxP, nx, ny, false)
			c06SetBal(tr, rx, ry, minP, maxP, nx, ny, true)
		}
	}
}
