//go:build verif

package harness

// C15 — "completes without panicking, whatever the oracle prices are": long oracle-feed histories through the REAL,
// UNWRAPPED begin-blockers of x/bandoracle and x/market (x/market/abci.go has no ApplyFuncIfNoError: a panic in
// UpdatePriceList is a chain halt). The driving (acknowledgment and response through the band module's real IBC
// handlers, one request per sampling block) is the one of harness/c17_feed_test.go; here it is directed at the ring
// cursor: for every window size N = 1…5 the feed is interrupted with the ring at every phase, by each kind of
// interruption, and then resumed, ≥ 40 sampling blocks per sequence. Every block is one `hooks.env.single … plain` line per
// blocker for the no_panic monitor.

import (
	"fmt"
	"testing"

	"github.com/bandprotocol/bandchain-packet/obi"
	"github.com/bandprotocol/bandchain-packet/packet"
	abci "github.com/cometbft/cometbft/abci/types"
	tmproto "github.com/cometbft/cometbft/proto/tendermint/types"
	sdk "github.com/cosmos/cosmos-sdk/types"
	channeltypes "github.com/cosmos/ibc-go/v7/modules/core/04-channel/types"
	porttypes "github.com/cosmos/ibc-go/v7/modules/core/05-port/types"

	chain "github.com/comdex-official/comdex/app"
	assettypes "github.com/comdex-official/comdex/x/asset/types"
	"github.com/comdex-official/comdex/x/bandoracle"
	bandtypes "github.com/comdex-official/comdex/x/bandoracle/types"
	"github.com/comdex-official/comdex/x/market"
)

const c15Channel = "channel-7"

// round kinds
const (
	c15Good      = iota // acknowledgment + response, all rates positive
	c15Zero             // … the first asset's rate is 0
	c15NoAck            // no acknowledgment since the last sampling block: the validation round fails
	c15AckNoResp        // acknowledged, the response never arrives
	c15Short            // response with fewer rates than oracle-priced assets
)

type c15Feed struct {
	t      *testing.T
	tr     *Trace
	app    *chain.App
	ctx    sdk.Context
	ibc    porttypes.IBCModule
	scen   string
	N      uint64
	ids    []uint64
	height int64
	reqID  int64
	rate   uint64
	halted bool
	blocks int
}

func c15NewFeed(t *testing.T, tr *Trace, scen string, N uint64, acc int64, nAssets int) *c15Feed {
	app := chain.Setup(t, false)
	f := &c15Feed{t: t, tr: tr, app: app, scen: scen, N: N, height: 7, rate: 1000000}
	f.ctx = app.BaseApp.NewContext(false, tmproto.Header{Height: f.height})
	for i := 0; i < nAssets; i++ {
		if err := app.AssetKeeper.AddAssetRecords(f.ctx, assettypes.Asset{Name: alphaName(i), Denom: "ua" + u(uint64(i)), Decimals: sdk.NewInt(1000000),
			IsOnChain: true, IsOraclePriceRequired: true}); err != nil {
			t.Fatal(err)
		}
	}
	for _, a := range app.AssetKeeper.GetAssets(f.ctx) {
		f.ids = append(f.ids, a.Id)
	}
	msg := bandtypes.MsgFetchPriceData{Creator: "x", OracleScriptID: 12, SourceChannel: c15Channel, AskCount: 1, MinCount: 1,
		FeeLimit: sdk.NewCoins(sdk.NewCoin("uband", sdk.NewInt(1))), PrepareGas: 1, ExecuteGas: 1, ClientID: bandtypes.FetchPriceClientIDKey,
		TwaBatchSize: N, AcceptedHeightDiff: acc}
	if err := app.BandoracleKeeper.AddFetchPriceRecords(f.ctx, msg); err != nil {
		t.Fatal(err)
	}
	f.ibc = bandoracle.NewIBCModule(app.BandoracleKeeper)
	return f
}

// round: the next sampling block, preceded by what the oracle did since the previous one.
func (f *c15Feed) round(kind int) {
	if f.halted {
		return
	}
	f.height = (f.height/20 + 1) * 20
	f.ctx = f.ctx.WithBlockHeight(f.height)
	if kind != c15NoAck {
		f.reqID++
		ackData := bandtypes.ModuleCdc.MustMarshalJSON(packet.NewOracleRequestPacketAcknowledgement(uint64(f.reqID)))
		ack := channeltypes.NewResultAcknowledgement(ackData)
		calldata := obi.MustEncode(bandtypes.FetchPriceCallData{Symbols: []string{"A"}, Multiplier: 1000000})
		rp := packet.NewOracleRequestPacketData(bandtypes.FetchPriceClientIDKey, 12, calldata, 1, 1, sdk.NewCoins(), 1, 1)
		pk := channeltypes.Packet{SourceChannel: c15Channel, DestinationChannel: c15Channel, Data: bandtypes.ModuleCdc.MustMarshalJSON(&rp)}
		if err := f.ibc.OnAcknowledgementPacket(f.ctx, pk, bandtypes.ModuleCdc.MustMarshalJSON(&ack), nil); err != nil {
			f.t.Fatal(err)
		}
		if kind != c15AckNoResp {
			n := len(f.ids)
			if kind == c15Short && n > 0 {
				n--
			}
			rates := make([]uint64, n)
			for j := range rates {
				f.rate += 1000
				rates[j] = f.rate
			}
			if kind == c15Zero && n > 0 {
				rates[0] = 0
			}
			res := obi.MustEncode(bandtypes.FetchPriceResult{Rates: rates})
			resp := packet.OracleResponsePacketData{ClientID: bandtypes.FetchPriceClientIDKey, RequestID: uint64(f.reqID), AnsCount: 1, RequestTime: 1,
				ResolveTime: 1, ResolveStatus: 1, Result: res}
			rpk := channeltypes.Packet{SourceChannel: c15Channel, DestinationChannel: c15Channel, Data: bandtypes.ModuleCdc.MustMarshalJSON(&resp)}
			f.ibc.OnRecvPacket(f.ctx, rpk, nil)
		}
	}
	// the cursor the market hook is about to use
	if twa, found := f.app.MarketKeeper.GetTwa(f.ctx, f.ids[0]); found {
		full := uint64(len(twa.PriceValue)) >= f.N
		if kind != c15Good && twa.IsPriceActive {
			f.tr.Count(fmt.Sprintf("feed:interrupted:N=%d:cursor=%d:full=%v", f.N, twa.CurrentIndex, full))
		}
		if kind == c15Good && !twa.IsPriceActive && full {
			f.tr.Count(fmt.Sprintf("feed:resumed-with-full-window:N=%d:cursor=%d", f.N, twa.CurrentIndex))
		}
	}
	f.blocks++
	f.tr.Count("feed:blocks")
	for _, b := range []struct {
		name string
		run  func(sdk.Context)
	}{
		{"bandoracle.BeginBlocker", func(c sdk.Context) { bandoracle.BeginBlocker(c, abci.RequestBeginBlock{}, f.app.BandoracleKeeper) }},
		{"market.BeginBlocker", func(c sdk.Context) {
			market.BeginBlocker(c, abci.RequestBeginBlock{}, f.app.MarketKeeper, f.app.BandoracleKeeper, f.app.AssetKeeper)
		}},
	} {
		cc, write := f.ctx.CacheContext()
		panicked, msg := try(func() { b.run(cc) })
		f.tr.Line("hooks.env.single", fmt.Sprintf("%s.h%d", f.scen, f.height), b.name, "1", c15Ret(!panicked), "plain")
		if panicked {
			f.tr.Count("feed:panic:" + b.name)
			f.tr.Set("feed_panic", f.scen+" "+b.name+": "+msg)
			f.halted = true // the block cannot be produced: the chain stops here
			return
		}
		write()
	}
}

// c15FeedCampaign: directed sequences (every N, every ring phase, every interruption) and random ones.
func c15FeedCampaign(t *testing.T, tr *Trace) {
	rng := NewRng(seed() + 15)
	kinds := []struct {
		name   string
		rounds []int
	}{
		{"zero-then-good", []int{c15Zero}},
		{"failed-validation-round", []int{c15NoAck}},
		{"ack-without-response", []int{c15AckNoResp}},
		{"short-outage", []int{c15NoAck, c15NoAck}},
		{"zero-twice", []int{c15Zero, c15Zero}},
		{"short-response", []int{c15Short}},
	}
	minBlocks := 40
	for N := uint64(1); N <= 5; N++ {
		for phase := uint64(0); phase < N; phase++ {
			for ki, kd := range kinds {
				if !thorough() && ki >= 2 && (int(N)+int(phase)+ki)%3 != 0 {
					continue // quick: the two main interruptions at every (N, phase), the others sampled
				}
				acc := int64(100)
				if ki == 4 {
					acc = 20 // two zero rounds are longer than the accepted gap: the window is discarded
				}
				f := c15NewFeed(t, tr, fmt.Sprintf("feed.N%d.phase%d.%s", N, phase, kd.name), N, acc, 2)
				// warm up: the band handshake plus a full window, then `phase` more good rounds
				for i := uint64(0); i < N+2+phase; i++ {
					f.round(c15Good)
				}
				for f.blocks < minBlocks && !f.halted {
					for _, k := range kd.rounds {
						f.round(k)
					}
					// resume: enough good rounds to go around the ring, plus a varying number so that the next
					// interruption meets the cursor at another position
					for i := uint64(0); i < N+1+uint64(f.blocks)%N; i++ {
						f.round(c15Good)
					}
				}
				tr.Count("feed:sequences")
			}
		}
	}
	// random histories
	for s := 0; s < scale(6, 60); s++ {
		N := uint64(1 + rng.Intn(5))
		acc := int64([]int{20, 40, 100, 1}[rng.Intn(4)])
		f := c15NewFeed(t, tr, fmt.Sprintf("feed.random%d.N%d.acc%d", s, N, acc), N, acc, 1+rng.Intn(3))
		for f.blocks < scale(40, 80) && !f.halted {
			p := rng.Intn(100)
			switch {
			case p < 70:
				f.round(c15Good)
			case p < 80:
				f.round(c15Zero)
			case p < 88:
				f.round(c15NoAck)
			case p < 94:
				f.round(c15AckNoResp)
			default:
				f.round(c15Short)
			}
		}
		tr.Count("feed:sequences")
	}
}
