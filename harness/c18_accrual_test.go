//go:build verif

package harness

import (
	"math"
	"math/big"
	"sync"
	"testing"
	"time"

	chain "github.com/comdex-official/comdex/app"
	"github.com/comdex-official/comdex/app/wasm/bindings"
	assettypes "github.com/comdex-official/comdex/x/asset/types"
	collectortypes "github.com/comdex-official/comdex/x/collector/types"
	lendtypes "github.com/comdex-official/comdex/x/lend/types"
	lockertypes "github.com/comdex-official/comdex/x/locker/types"
	rewardstypes "github.com/comdex-official/comdex/x/rewards/types"
	vaulttypes "github.com/comdex-official/comdex/x/vault/types"
	tmproto "github.com/cometbft/cometbft/proto/tendermint/types"
	sdk "github.com/cosmos/cosmos-sdk/types"
)

// ---------------------------------------------------------------------------------------------
// helpers (prefixed c18)
// ---------------------------------------------------------------------------------------------

const c18Year = int64(31557600)
const c18Now = int64(1_900_000_000)

var c18P18 = new(big.Int).Exp(big.NewInt(10), big.NewInt(18), nil)

func c18Dec(raw *big.Int) sdk.Dec { return sdk.NewDecFromBigIntWithPrec(new(big.Int).Set(raw), 18) }
func c18DecI(raw int64) sdk.Dec    { return sdk.NewDecFromBigIntWithPrec(big.NewInt(raw), 18) }
func c18Raw(d sdk.Dec) string      { return d.BigInt().String() }
func c18Bits(f float64) string     { return u(math.Float64bits(f)) }

// c18PowArgs mirrors the two lines of CalculationOfRewards that produce the arguments of math.Pow; the Lean
// model recomputes both from (lsr, secs) and the driver reports a DIFF if they are not what is printed here.
func c18PowArgs(lsr sdk.Dec, secs int64) (x, y float64) {
	x = sdk.OneDec().Add(lsr).MustFloat64()
	y = sdk.NewDec(secs).QuoInt64(c18Year).MustFloat64()
	return
}

// c18Mix scrambles (seed, stream) into a start value for NewRng. NewRng(k) and NewRng(k+1) are the SAME splitmix
// stream shifted by one draw (state = k*gamma + c, step = gamma), so nearby seeds would re-synchronise after a few
// variable-length iterations and generate the same cases; scrambled seeds start at unrelated points of the cycle.
func c18Mix(a, b uint64) uint64 {
	z := a*0x9E3779B97F4A7C15 ^ (b+1)*0xC2B2AE3D27D4EB4F
	z = (z ^ (z >> 30)) * 0xBF58476D1CE4E5B9
	z = (z ^ (z >> 27)) * 0x94D049BB133111EB
	return z ^ (z >> 31)
}

type c18App struct {
	app *chain.App
	ctx sdk.Context
}

func c18Outcome(panicked bool, err error) string {
	if panicked {
		return "panic"
	}
	if err != nil {
		return "err"
	}
	return "ok"
}

// c18Calc runs the REAL CalculationOfRewards and writes one acc.calc line.
func (a *c18App) c18Calc(tr *Trace, amount sdk.Int, lsr sdk.Dec, secs int64) {
	x, y := c18PowArgs(lsr, secs)
	p := math.Pow(x, y)
	var res sdk.Dec
	var err error
	ctx := a.ctx.WithBlockTime(time.Unix(c18Now, 0))
	panicked, _ := try(func() { res, err = a.app.Rewardskeeper.CalculationOfRewards(ctx, amount, lsr, c18Now-secs) })
	o := c18Outcome(panicked, err)
	r := "-"
	if o == "ok" {
		r = c18Raw(res)
	}
	tr.Line("acc.calc", amount.String(), c18Raw(lsr), i64(secs), c18Bits(x), c18Bits(y), c18Bits(p), o, r)
	tr.Count("calc:" + o)
}

// ---------------------------------------------------------------------------------------------
// generators
// ---------------------------------------------------------------------------------------------

func c18Amount(rng *Rng) sdk.Int {
	switch rng.Intn(8) {
	case 0:
		return sdk.NewInt(int64(rng.Intn(1000)))
	case 1:
		b := []int64{0, 1, 2, 1<<53 - 1, 1 << 53, 1<<53 + 1, math.MaxInt64, math.MaxInt64 - 1, 1000000000000000000, 1000000}
		return sdk.NewInt(b[rng.Intn(len(b))])
	case 2:
		return sdk.NewInt(int64(rng.U64() >> 1))
	case 3:
		return sdk.NewInt(int64(rng.U64() >> uint(1+rng.Intn(63))))
	default:
		// 10^k * small
		k := rng.Intn(18)
		v := int64(1 + rng.Intn(9999))
		for i := 0; i < k && v < math.MaxInt64/10; i++ {
			v *= 10
		}
		return sdk.NewInt(v)
	}
}

// rate raw (10^-18) in [0, 10]
func c18Rate(rng *Rng) *big.Int {
	switch rng.Intn(8) {
	case 0:
		b := []int64{0, 1, 2, 1000000000000000000, 10000000000000000, 100000000000000000, 250000000000000000}
		if rng.Chance(20) {
			return new(big.Int).Mul(big.NewInt(10), c18P18)
		}
		return big.NewInt(b[rng.Intn(len(b))])
	case 1: // tiny
		return big.NewInt(int64(rng.U64() >> uint(20+rng.Intn(44))))
	case 2: // anywhere in [0,10]
		hi := new(big.Int).Mul(big.NewInt(int64(rng.Intn(10))), c18P18)
		return hi.Add(hi, big.NewInt(int64(rng.U64()%1000000000000000000)))
	case 3: // two-decimal percentages up to 10
		return new(big.Int).Mul(big.NewInt(int64(rng.Intn(1001))), big.NewInt(10000000000000000))
	default: // realistic 0 .. 30 %
		return big.NewInt(int64(rng.U64() % 300000000000000000))
	}
}

func c18Secs(rng *Rng) int64 {
	switch rng.Intn(8) {
	case 0:
		b := []int64{0, 1, 2, 5, 6, 60, 3600, 86400, c18Year/2 - 1, c18Year / 2, c18Year/2 + 1, c18Year - 1, c18Year, c18Year + 1, 50 * c18Year}
		return b[rng.Intn(len(b))]
	case 1:
		return int64(rng.Intn(120))
	case 2:
		return int64(rng.Intn(30 * 86400))
	case 3: // around k/2 years: the power function switches algorithm at fractional part 1/2
		s := int64(rng.Intn(100))*(c18Year/2) + int64(rng.Intn(7)) - 3
		if s < 0 {
			s = 0
		}
		return s
	default:
		return int64(rng.U64() % uint64(50*c18Year))
	}
}

// ---------------------------------------------------------------------------------------------
// scan of the FloatOps hypotheses against the real math.Pow (a TEST, reported as statistics)
// ---------------------------------------------------------------------------------------------

type c18Fail struct {
	name   string
	lsr    *big.Int
	lsr2   *big.Int
	s1, s2 int64
}

func c18ScanHyp(seedv uint64, n int) (counts map[string]int, fails map[string]int, witnesses []c18Fail, maxDip uint64) {
	workers := 8
	counts = map[string]int{}
	fails = map[string]int{}
	var mu sync.Mutex
	var wg sync.WaitGroup
	for w := 0; w < workers; w++ {
		wg.Add(1)
		go func(w int) {
			defer wg.Done()
			rng := NewRng(c18Mix(seedv, uint64(1000+w)))
			lc := map[string]int{}
			lf := map[string]int{}
			var lw []c18Fail
			var ldip uint64
			add := func(f c18Fail) {
				lf[f.name]++
				if lf[f.name] <= 3 {
					lw = append(lw, f)
				}
			}
			for i := 0; i < n/workers; i++ {
				lsr := c18Rate(rng)
				if rng.Chance(30) { // tiny rates: a one-second step is below one ulp of the result
					lsr = big.NewInt(int64(rng.U64() % 20000000000))
				}
				s := c18Secs(rng)
				x, y := c18PowArgs(c18Dec(lsr), s)
				p := math.Pow(x, y)
				lc["ge_one"]++
				if !(p >= 1) {
					add(c18Fail{"ge_one", lsr, nil, s, 0})
				}
				lc["zero"]++
				if math.Pow(x, 0) != 1 {
					add(c18Fail{"zero", lsr, nil, 0, 0})
				}
				// monotone in whole seconds
				d := int64(1 + rng.Intn(3))
				if rng.Chance(25) {
					d = int64(1 + rng.Intn(100000))
				}
				_, y2 := c18PowArgs(c18Dec(lsr), s+d)
				lc["mono_time"]++
				if q := math.Pow(x, y2); q < p {
					add(c18Fail{"mono_time", lsr, nil, s, s + d})
					if dd := math.Float64bits(p) - math.Float64bits(q); dd > ldip {
						ldip = dd
					}
				}
				// monotone in the 18-digit rate
				dl := []int64{1, 100, 222, 400, 445, 1000, 100000}[rng.Intn(7)]
				if rng.Chance(25) {
					dl = int64(1 + rng.U64()%1000000000000)
				}
				lsr2 := new(big.Int).Add(lsr, big.NewInt(dl))
				x2, _ := c18PowArgs(c18Dec(lsr2), s)
				lc["mono_rate"]++
				if q := math.Pow(x2, y); q < p {
					add(c18Fail{"mono_rate", lsr, lsr2, s, 0})
					if dd := math.Float64bits(p) - math.Float64bits(q); dd > ldip {
						ldip = dd
					}
				}
				// quasi-multiplicativity with slack 2^-40 (checked against the stricter 2^-41)
				sb := c18Secs(rng)
				if s+sb <= 100*c18Year {
					_, yb := c18PowArgs(c18Dec(lsr), sb)
					_, yc := c18PowArgs(c18Dec(lsr), s+sb)
					pb, pc := math.Pow(x, yb), math.Pow(x, yc)
					lc["submult"]++
					if p*pb/pc-1 > 1.0/(1<<41)/(1<<0) {
						add(c18Fail{"submult", lsr, nil, s, sb})
					}
				}
			}
			mu.Lock()
			for k, v := range lc {
				counts[k] += v
			}
			for k, v := range lf {
				fails[k] += v
			}
			witnesses = append(witnesses, lw...)
			if ldip > maxDip {
				maxDip = ldip
			}
			mu.Unlock()
		}(w)
	}
	wg.Wait()
	return
}

// ---------------------------------------------------------------------------------------------
// the test
// ---------------------------------------------------------------------------------------------

func TestC18(t *testing.T) {
	tr := OpenTrace(t, "c18.trace")
	defer tr.Close(t)
	rng := NewRng(c18Mix(seed(), 0))
	app := chain.Setup(t, false)
	base := app.BaseApp.NewContext(false, tmproto.Header{Height: 10, Time: time.Unix(c18Now, 0)})
	a := &c18App{app: app, ctx: base}

	c18Float(t, tr, rng, a)
	c18Trackers(t, tr, rng, a)
	c18Lend(t, tr, rng, a)
	c18Rates(t, tr, rng, a)
	c18LendTracker(t, tr, rng, a)
	c18VaultFlow(t, tr, rng, a)
	c18LockerFlow(t, tr, NewRng(c18Mix(seed(), 7)), a)
}

// c18Float: CalculationOfRewards called directly; groups of related inputs.
func c18Float(t *testing.T, tr *Trace, rng *Rng, a *c18App) {
	big1e18 := sdk.NewInt(1000000000000000000)
	// --- corpus: witnesses of the reproduced defect (math.Pow is not monotone; see notes/C18.md), first in the run
	// (1) one more second, less interest: rate 0.000000006824643518, 15.5 years
	tr.Line("acc.begin")
	a.c18Calc(tr, big1e18, c18DecI(6824643518), 489142800)
	a.c18Calc(tr, big1e18, c18DecI(6824643518), 489142801)
	// (2) a higher rate, less interest: half a year and one second, rates 2.721879042385945 and …9454
	tr.Line("acc.begin")
	a.c18Calc(tr, big1e18, c18DecI(2721879042385945000), 15778801)
	a.c18Calc(tr, big1e18, c18DecI(2721879042385945400), 15778801)
	// (3) ordinary parameters: 10 % on 1000 tokens over a block, a day, a year, two half years
	tr.Line("acc.begin")
	for _, s := range []int64{0, 6, 86400, c18Year / 2, c18Year / 2, c18Year} {
		a.c18Calc(tr, sdk.NewInt(1000000000), c18DecI(100000000000000000), s)
	}

	// --- scan of the hypotheses about math.Pow; every failing point is replayed through the real function
	n := scale(3000000, 100000000)
	counts, fails, wit, maxDip := c18ScanHyp(seed(), n)
	tr.Set("pow_largest_decrease_in_ulps", maxDip)
	for _, k := range []string{"ge_one", "zero", "mono_time", "mono_rate", "submult"} {
		tr.Line("acc.hyp", k, i64(int64(counts[k])), i64(int64(fails[k])))
		tr.Set("pow_hypothesis:"+k, map[string]int{"points": counts[k], "failures": fails[k]})
	}
	for _, w := range wit {
		tr.Line("acc.begin")
		tr.Count("hyp_witness:" + w.name)
		switch w.name {
		case "mono_time":
			a.c18Calc(tr, big1e18, c18Dec(w.lsr), w.s1)
			a.c18Calc(tr, big1e18, c18Dec(w.lsr), w.s2)
		case "mono_rate":
			a.c18Calc(tr, big1e18, c18Dec(w.lsr), w.s1)
			a.c18Calc(tr, big1e18, c18Dec(w.lsr2), w.s1)
		case "submult":
			a.c18Calc(tr, big1e18, c18Dec(w.lsr), w.s1)
			a.c18Calc(tr, big1e18, c18Dec(w.lsr), w.s2)
			a.c18Calc(tr, big1e18, c18Dec(w.lsr), w.s1+w.s2)
		default:
			a.c18Calc(tr, big1e18, c18Dec(w.lsr), w.s1)
		}
	}

	// --- generated groups
	groups := scale(8000, 120000)
	for g := 0; g < groups; g++ {
		tr.Line("acc.begin")
		amt, lsr, s := c18Amount(rng), c18Rate(rng), c18Secs(rng)
		a.c18Calc(tr, amt, c18Dec(lsr), s)
		// zero elapsed time
		if rng.Chance(30) {
			a.c18Calc(tr, amt, c18Dec(lsr), 0)
			tr.Count("rel:zero_time")
		}
		// more time
		if rng.Chance(70) {
			d := int64(1 + rng.Intn(6))
			if rng.Chance(40) {
				d = c18Secs(rng)
			}
			a.c18Calc(tr, amt, c18Dec(lsr), s+d)
			tr.Count("rel:time")
		}
		// more principal
		if rng.Chance(60) {
			d := sdk.NewInt(1)
			if rng.Chance(50) {
				d = c18Amount(rng)
			}
			n2 := amt.Add(d)
			if n2.IsInt64() {
				a.c18Calc(tr, n2, c18Dec(lsr), s)
				tr.Count("rel:principal")
			}
		}
		// higher rate
		if rng.Chance(60) {
			d := big.NewInt([]int64{1, 222, 400, 1000000, 10000000000000000}[rng.Intn(5)])
			if rng.Chance(30) {
				d = c18Rate(rng)
			}
			l2 := new(big.Int).Add(lsr, d)
			if l2.Cmp(new(big.Int).Mul(big.NewInt(10), c18P18)) <= 0 {
				a.c18Calc(tr, amt, c18Dec(l2), s)
				tr.Count("rel:rate")
			}
		}
		// two consecutive intervals against the combined interval
		if rng.Chance(70) {
			s2 := c18Secs(rng)
			if rng.Chance(30) {
				s2 = s
			}
			a.c18Calc(tr, amt, c18Dec(lsr), s2)
			a.c18Calc(tr, amt, c18Dec(lsr), s+s2)
			tr.Count("rel:two_step")
		}
	}

	// --- malformed stream: negative elapsed time, amounts outside int64, negative rates, rate -1 and below
	for g := 0; g < scale(200, 2000); g++ {
		tr.Line("acc.begin")
		amt, lsr, s := c18Amount(rng), c18Rate(rng), c18Secs(rng)
		switch rng.Intn(5) {
		case 0:
			a.c18Calc(tr, amt, c18Dec(lsr), -1-int64(rng.Intn(1000000)))
			tr.Count("bad:negative_time")
		case 1:
			huge := sdk.NewIntFromBigInt(new(big.Int).Lsh(big.NewInt(1), uint(63+rng.Intn(3))))
			if rng.Chance(50) {
				huge = huge.Neg().SubRaw(1)
			}
			a.c18Calc(tr, huge, c18Dec(lsr), s)
			tr.Count("bad:amount_range")
		case 2:
			a.c18Calc(tr, amt, c18Dec(new(big.Int).Neg(new(big.Int).Rsh(lsr, 4))), s)
			tr.Count("bad:negative_rate")
		case 3:
			a.c18Calc(tr, amt, c18Dec(new(big.Int).Neg(new(big.Int).Add(c18P18, new(big.Int).Rsh(lsr, uint(rng.Intn(8)))))), s)
			tr.Count("bad:rate_le_minus_one")
		case 4:
			a.c18Calc(tr, amt.Neg(), c18Dec(lsr), s)
			tr.Count("bad:negative_amount")
		}
	}
}

// ---------------------------------------------------------------------------------------------
// trackers: real CalculateVaultInterest / CalculateLockerRewards on real records
// ---------------------------------------------------------------------------------------------

func c18Trackers(t *testing.T, tr *Trace, rng *Rng, a *c18App) {
	app, base := a.app, a.ctx
	must := func(err error) {
		if err != nil {
			t.Fatal(err)
		}
	}
	must(app.AssetKeeper.AddAppRecords(base, assettypes.AppData{Name: "harbor", ShortName: "hbr", MinGovDeposit: sdk.NewInt(0), GovTimeInSeconds: 0}))
	must(app.AssetKeeper.AddAssetRecords(base, assettypes.Asset{Name: "CMST", Denom: "ucmst", Decimals: sdk.NewInt(1000000), IsOnChain: true, IsCdpMintable: true}))
	must(app.AssetKeeper.AddAssetRecords(base, assettypes.Asset{Name: "HARBOR", Denom: "uharbor", Decimals: sdk.NewInt(1000000), IsOnChain: true}))
	must(app.AssetKeeper.AddAssetRecords(base, assettypes.Asset{Name: "CMDX", Denom: "ucmdx", Decimals: sdk.NewInt(1000000), IsOnChain: true}))
	owner := sdk.AccAddress([]byte("c18-owner-address---")).String()
	app.Rewardskeeper.SetAppByAppID(base, 1)

	seqs := scale(500, 6000)
	for sq := 0; sq < seqs; sq++ {
		ctx, _ := base.CacheContext()
		isVault := sq%2 == 0
		rate := c18Rate(rng)
		if rng.Chance(5) {
			rate = big.NewInt(0)
		}
		principal := c18Amount(rng)
		if rng.Chance(50) { // amounts whose per-step accrual is around one unit, so that both tracker arms are taken
			principal = sdk.NewInt(int64(1 + rng.Intn(100000000)))
		}
		t0 := c18Now - int64(rng.Intn(int(3*c18Year)))
		cfgBT := t0 - int64(rng.Intn(1000000))
		tr.Line("acc.begin")
		if isVault {
			app.AssetKeeper.SetPairsVault(ctx, assettypes.ExtendedPairVault{
				Id: 1, AppId: 1, PairId: 1, StabilityFee: c18Dec(rate), ClosingFee: sdk.ZeroDec(), LiquidationPenalty: sdk.ZeroDec(),
				DrawDownFee: sdk.ZeroDec(), IsVaultActive: true, DebtCeiling: sdk.NewInt(0), DebtFloor: sdk.NewInt(0), MinCr: sdk.OneDec(),
				PairName: "C18", BlockHeight: 5, BlockTime: time.Unix(cfgBT, 0), MinUsdValueLeft: 0,
			})
			bh := int64(0)
			if rng.Chance(70) {
				bh = 7
			}
			app.VaultKeeper.SetVault(ctx, vaulttypes.Vault{Id: 1, AppId: 1, ExtendedPairVaultID: 1, Owner: owner, AmountIn: sdk.NewInt(1), AmountOut: principal,
				CreatedAt: time.Unix(t0, 0), InterestAccumulated: sdk.ZeroInt(), ClosingFeeAccumulated: sdk.ZeroInt(), BlockHeight: bh, BlockTime: time.Unix(t0, 0)})
		} else {
			ctx = ctx.WithBlockTime(time.Unix(cfgBT, 0))
			h := int64(5)
			ctx = ctx.WithBlockHeight(h)
			err := app.CollectorKeeper.WasmSetCollectorLookupTable(ctx, &bindings.MsgSetCollectorLookupTable{AppID: 1, CollectorAssetID: 1, SecondaryAssetID: 2,
				SurplusThreshold: sdk.NewInt(10000000), DebtThreshold: sdk.NewInt(5000000), LockerSavingRate: c18Dec(rate), LotSize: sdk.NewInt(2000000),
				BidFactor: sdk.MustNewDecFromStr("0.01"), DebtLotSize: sdk.NewInt(2000000)})
			must(err)
			app.Rewardskeeper.SetReward(ctx, rewardstypes.InternalRewards{AppMappingId: 1, AssetId: 1})
			app.LockerKeeper.SetLockerLookupTable(ctx, lockertypes.LockerLookupTableData{AppId: 1, AssetId: 1, LockerIds: []uint64{1}, DepositedAmount: principal})
			bh := int64(0)
			if rng.Chance(70) {
				bh = 7
			}
			app.LockerKeeper.SetLocker(ctx, lockertypes.Locker{LockerId: 1, Depositor: owner, ReturnsAccumulated: sdk.ZeroInt(), NetBalance: principal,
				CreatedAt: time.Unix(t0, 0), AssetDepositId: 1, IsLocked: false, AppId: 1, BlockHeight: bh, BlockTime: time.Unix(t0, 0)})
			huge := sdk.NewIntFromBigInt(new(big.Int).Lsh(big.NewInt(1), 200))
			must(app.CollectorKeeper.SetNetFeeCollectedData(ctx, 1, 1, huge))
			coins := sdk.NewCoins(sdk.NewCoin("ucmst", huge))
			must(app.BankKeeper.MintCoins(ctx, rewardstypes.ModuleName, coins))
			must(app.BankKeeper.SendCoinsFromModuleToModule(ctx, rewardstypes.ModuleName, collectortypes.ModuleName, coins))
		}
		now := t0
		steps := rng.Range(2, scale(8, 14))
		for st := 0; st < steps; st++ {
			var d int64
			switch rng.Intn(4) {
			case 0:
				d = int64(rng.Intn(10))
			case 1:
				d = int64(rng.Intn(100000))
			default:
				d = int64(rng.Intn(int(c18Year)))
			}
			if rng.Chance(3) {
				d = -int64(1 + rng.Intn(100)) // the clock never runs backwards on chain; exercised as an error path
			}
			now += d
			sctx := ctx.WithBlockTime(time.Unix(now, 0)).WithBlockHeight(100 + int64(st))
			if isVault {
				v, _ := app.VaultKeeper.GetVault(sctx, 1)
				trB := "none"
				if tk, f := app.Rewardskeeper.GetVaultInterestTracker(sctx, 1, 1); f {
					trB = c18Raw(tk.InterestAccumulated)
				}
				debt := v.AmountOut
				bt := v.BlockTime.Unix()
				if v.BlockHeight == 0 {
					bt = cfgBT
				}
				x, y := c18PowArgs(c18Dec(rate), now-bt)
				p := math.Pow(x, y)
				var err error
				panicked, _ := try(func() {
					err = app.Rewardskeeper.CalculateVaultInterest(sctx, 1, 1, 1, debt, v.BlockHeight, v.BlockTime.Unix())
				})
				o := c18Outcome(panicked, err)
				v2, _ := app.VaultKeeper.GetVault(sctx, 1)
				trA := "none"
				if tk, f := app.Rewardskeeper.GetVaultInterestTracker(sctx, 1, 1); f {
					trA = c18Raw(tk.InterestAccumulated)
				}
				paid := v2.InterestAccumulated.Sub(v.InterestAccumulated)
				tr.Line("acc.track", "vault", debt.String(), rate.String(), i64(now), i64(v.BlockHeight), i64(v.BlockTime.Unix()), i64(cfgBT),
					c18Bits(x), c18Bits(y), c18Bits(p), trB, o, trA, paid.String(), i64(sctx.BlockHeight()), i64(v2.BlockHeight), i64(v2.BlockTime.Unix()))
				tr.Count("track:vault:" + o)
				if paid.IsPositive() {
					tr.Count("track:vault:paid")
				}
			} else {
				l, _ := app.LockerKeeper.GetLocker(sctx, 1)
				trB := "none"
				if tk, f := app.Rewardskeeper.GetLockerRewardTracker(sctx, 1, 1); f {
					trB = c18Raw(tk.RewardsAccumulated)
				}
				// the locker principal stays the same: rewards are booked into NetBalance by the real code, the harness
				// passes the original principal so that consecutive steps are on the same principal
				bt := l.BlockTime.Unix()
				if l.BlockHeight == 0 {
					bt = cfgBT
				}
				x, y := c18PowArgs(c18Dec(rate), now-bt)
				p := math.Pow(x, y)
				var err error
				panicked, _ := try(func() {
					err = app.Rewardskeeper.CalculateLockerRewards(sctx, 1, 1, 1, owner, principal, l.BlockHeight, l.BlockTime.Unix())
				})
				o := c18Outcome(panicked, err)
				l2, _ := app.LockerKeeper.GetLocker(sctx, 1)
				trA := "none"
				if tk, f := app.Rewardskeeper.GetLockerRewardTracker(sctx, 1, 1); f {
					trA = c18Raw(tk.RewardsAccumulated)
				}
				paid := l2.ReturnsAccumulated.Sub(l.ReturnsAccumulated)
				tr.Line("acc.track", "locker", principal.String(), rate.String(), i64(now), i64(l.BlockHeight), i64(l.BlockTime.Unix()), i64(cfgBT),
					c18Bits(x), c18Bits(y), c18Bits(p), trB, o, trA, paid.String(), i64(sctx.BlockHeight()), i64(l2.BlockHeight), i64(l2.BlockTime.Unix()))
				tr.Count("track:locker:" + o)
				if paid.IsPositive() {
					tr.Count("track:locker:paid")
				}
			}
		}
	}
}

// ---------------------------------------------------------------------------------------------
// lend: accrual functions (pure given block time and the position record)
// ---------------------------------------------------------------------------------------------

func c18Index(rng *Rng) *big.Int {
	switch rng.Intn(4) {
	case 0:
		return new(big.Int).Set(c18P18)
	case 1:
		return new(big.Int).Add(c18P18, big.NewInt(int64(rng.U64()%1000000000000000000)))
	case 2:
		return new(big.Int).Add(c18P18, big.NewInt(int64(rng.U64()%1000)))
	default:
		v := new(big.Int).Mul(c18P18, big.NewInt(int64(1+rng.Intn(50))))
		return v.Add(v, big.NewInt(int64(rng.U64()%1000000000000000000)))
	}
}

func (a *c18App) c18LendCall(tr *Trace, kind string, amount sdk.Int, rate, rrate, gi, rgi *big.Int, now, prev int64) (igc, rigc *big.Int) {
	ctx := a.ctx.WithBlockTime(time.Unix(now, 0))
	k := a.app.LendKeeper
	switch kind {
	case "lend":
		var r1, r2 sdk.Dec
		var err error
		panicked, _ := try(func() {
			r1, r2, err = k.CalculateLendReward(ctx, amount.String(), c18Dec(rate), lendtypes.LendAsset{LastInteractionTime: time.Unix(prev, 0), GlobalIndex: c18Dec(gi)})
		})
		o := c18Outcome(panicked, err)
		if o == "ok" {
			tr.Line("lr.lend", amount.String(), rate.String(), gi.String(), i64(now), i64(prev), o, c18Raw(r1), c18Raw(r2))
			igc = r2.BigInt()
		} else {
			tr.Line("lr.lend", amount.String(), rate.String(), gi.String(), i64(now), i64(prev), o, "-", "-")
		}
		tr.Count("lend:" + o)
	case "borrow":
		var r1, r2, r3, r4 sdk.Dec
		var err error
		panicked, _ := try(func() {
			r1, r2, r3, r4, err = k.CalculateBorrowInterest(ctx, amount.String(), c18Dec(rate), c18Dec(rrate),
				lendtypes.BorrowAsset{LastInteractionTime: time.Unix(prev, 0), GlobalIndex: c18Dec(gi), ReserveGlobalIndex: c18Dec(rgi)})
		})
		o := c18Outcome(panicked, err)
		if o == "ok" {
			tr.Line("lr.borrow", amount.String(), rate.String(), rrate.String(), gi.String(), rgi.String(), i64(now), i64(prev), o, c18Raw(r1), c18Raw(r2), c18Raw(r3), c18Raw(r4))
			igc, rigc = r2.BigInt(), r4.BigInt()
		} else {
			tr.Line("lr.borrow", amount.String(), rate.String(), rrate.String(), gi.String(), rgi.String(), i64(now), i64(prev), o, "-", "-", "-", "-")
		}
		tr.Count("borrow:" + o)
	case "stable":
		var r1 sdk.Dec
		var err error
		panicked, _ := try(func() {
			r1, err = k.CalculateStableInterest(ctx, amount.String(), lendtypes.BorrowAsset{LastInteractionTime: time.Unix(prev, 0), StableBorrowRate: c18Dec(rate)})
		})
		o := c18Outcome(panicked, err)
		if o == "ok" {
			tr.Line("lr.stable", amount.String(), rate.String(), i64(now), i64(prev), o, c18Raw(r1))
		} else {
			tr.Line("lr.stable", amount.String(), rate.String(), i64(now), i64(prev), o, "-")
		}
		tr.Count("stable:" + o)
	}
	return
}

func c18Lend(t *testing.T, tr *Trace, rng *Rng, a *c18App) {
	kinds := []string{"lend", "borrow", "stable"}
	// corpus: ordinary numbers
	tr.Line("lr.begin")
	for _, s := range []int64{0, 6, 86400, c18Year} {
		a.c18LendCall(tr, "lend", sdk.NewInt(1000000000), big.NewInt(50000000000000000), nil, c18P18, nil, c18Now, c18Now-s)
		a.c18LendCall(tr, "borrow", sdk.NewInt(1000000000), big.NewInt(80000000000000000), big.NewInt(10000000000000000), c18P18, c18P18, c18Now, c18Now-s)
		a.c18LendCall(tr, "stable", sdk.NewInt(1000000000), big.NewInt(90000000000000000), nil, nil, nil, c18Now, c18Now-s)
	}
	groups := scale(8000, 120000)
	for g := 0; g < groups; g++ {
		tr.Line("lr.begin")
		kind := kinds[rng.Intn(3)]
		amt, rate, rrate, s := c18Amount(rng), c18Rate(rng), c18Rate(rng), c18Secs(rng)
		gi, rgi := c18Index(rng), c18Index(rng)
		now := c18Now
		call := func(amt sdk.Int, rate *big.Int, s int64) (*big.Int, *big.Int) {
			return a.c18LendCall(tr, kind, amt, rate, rrate, gi, rgi, now, now-s)
		}
		igc, rigc := call(amt, rate, s)
		if rng.Chance(30) {
			call(amt, rate, 0)
			tr.Count("rel:zero_time")
		}
		if rng.Chance(70) {
			d := int64(1 + rng.Intn(6))
			if rng.Chance(40) {
				d = c18Secs(rng)
			}
			call(amt, rate, s+d)
			tr.Count("rel:time")
		}
		if rng.Chance(60) {
			d := sdk.NewInt(1)
			if rng.Chance(50) {
				d = c18Amount(rng)
			}
			call(amt.Add(d), rate, s)
			tr.Count("rel:principal")
		}
		if rng.Chance(60) {
			d := big.NewInt([]int64{1, 3, 1000000, 10000000000000000}[rng.Intn(4)])
			if rng.Chance(30) {
				d = c18Rate(rng)
			}
			call(amt, new(big.Int).Add(rate, d), s)
			tr.Count("rel:rate")
		}
		if rng.Chance(70) {
			s2 := c18Secs(rng)
			if rng.Chance(30) {
				s2 = s
			}
			if rng.Chance(50) && igc != nil {
				// the real flow: the second interval starts from the index the first accrual produced
				g2, rg2 := igc, rgi
				if rigc != nil {
					rg2 = rigc
				}
				a.c18LendCall(tr, kind, amt, rate, rrate, g2, rg2, now+s2, now)
				tr.Count("rel:two_step_chained")
			} else {
				call(amt, rate, s2)
				tr.Count("rel:two_step")
			}
			call(amt, rate, s+s2)
		}
	}
	// malformed: clock running backwards, last interaction at Unix 0, zero index
	for g := 0; g < scale(200, 2000); g++ {
		tr.Line("lr.begin")
		kind := kinds[rng.Intn(3)]
		amt, rate, rrate := c18Amount(rng), c18Rate(rng), c18Rate(rng)
		switch rng.Intn(3) {
		case 0:
			a.c18LendCall(tr, kind, amt, rate, rrate, c18Index(rng), c18Index(rng), c18Now, c18Now+1+int64(rng.Intn(100000)))
			tr.Count("bad:negative_time")
		case 1:
			a.c18LendCall(tr, kind, amt, rate, rrate, c18Index(rng), c18Index(rng), c18Now, 0)
			tr.Count("bad:prev_unix_zero")
		case 2:
			gi, rgi := c18Index(rng), c18Index(rng)
			if rng.Chance(50) {
				gi = big.NewInt(0)
			} else {
				rgi = big.NewInt(0)
			}
			a.c18LendCall(tr, kind, amt, rate, rrate, gi, rgi, c18Now, c18Now-c18Secs(rng))
			tr.Count("bad:zero_index")
		}
	}
}

// ---------------------------------------------------------------------------------------------
// lend: utilisation and rate functions on a real store
// ---------------------------------------------------------------------------------------------

func c18Rates(t *testing.T, tr *Trace, rng *Rng, a *c18App) {
	app, base := a.app, a.ctx
	must := func(err error) {
		if err != nil {
			t.Fatal(err)
		}
	}
	must(app.AssetKeeper.AddAssetRecords(base, assettypes.Asset{Name: "LENDX", Denom: "ulendx", Decimals: sdk.NewInt(1000000), IsOnChain: true}))
	var assetID uint64
	for _, as := range app.AssetKeeper.GetAssets(base) {
		if as.Denom == "ulendx" {
			assetID = as.Id
		}
	}
	must(app.LendKeeper.AddPoolRecords(base, lendtypes.Pool{ModuleName: lendtypes.ModuleAcc1, CPoolName: "C18POOL",
		AssetData: []*lendtypes.AssetDataPoolMapping{{AssetID: assetID, AssetTransitType: 1, SupplyCap: sdk.NewDec(1)}}}))
	poolID := app.LendKeeper.GetPoolID(base)
	k := app.LendKeeper
	T := int64(1000000000000000000)

	eval := func(p [8]*big.Int, bal, bor, sbor sdk.Int) {
		ctx, _ := base.CacheContext()
		k.SetAssetRatesParams(ctx, lendtypes.AssetRatesParams{AssetID: assetID, UOptimal: c18Dec(p[0]), Base: c18Dec(p[1]), Slope1: c18Dec(p[2]), Slope2: c18Dec(p[3]),
			EnableStableBorrow: true, StableBase: c18Dec(p[4]), StableSlope1: c18Dec(p[5]), StableSlope2: c18Dec(p[6]), Ltv: sdk.OneDec(), LiquidationThreshold: sdk.OneDec(),
			LiquidationPenalty: sdk.OneDec(), LiquidationBonus: sdk.OneDec(), ReserveFactor: c18Dec(p[7]), CAssetID: assetID})
		if bal.IsPositive() {
			must(app.BankKeeper.MintCoins(ctx, lendtypes.ModuleAcc1, sdk.NewCoins(sdk.NewCoin("ulendx", bal))))
		}
		st, _ := k.GetAssetStatsByPoolIDAndAssetID(ctx, poolID, assetID)
		st.TotalBorrowed, st.TotalStableBorrowed = bor, sbor
		k.SetAssetStatsByPoolIDAndAssetID(ctx, st)
		var uu, bv, bs, ln sdk.Dec
		var e1, e2, e3, e4 error
		panicked, _ := try(func() {
			uu, e1 = k.GetUtilisationRatioByPoolIDAndAssetID(ctx, poolID, assetID)
			bv, e2 = k.GetBorrowAPRByAssetID(ctx, poolID, assetID, false)
			bs, e3 = k.GetBorrowAPRByAssetID(ctx, poolID, assetID, true)
			ln, e4 = k.GetLendAPRByAssetIDAndPoolID(ctx, poolID, assetID)
		})
		o := "ok"
		if panicked {
			o = "panic"
		} else if e1 != nil || e2 != nil || e3 != nil || e4 != nil {
			o = "err"
		}
		f := []string{}
		for _, x := range p {
			f = append(f, x.String())
		}
		f = append(f, bal.String(), bor.Add(sbor).String(), o)
		if o == "ok" {
			f = append(f, c18Raw(uu), c18Raw(bv), c18Raw(bs), c18Raw(ln))
			switch {
			case uu.IsZero():
				tr.Count("util:zero")
			case uu.LT(c18Dec(p[0])):
				tr.Count("util:below_kink")
			case uu.Equal(c18Dec(p[0])):
				tr.Count("util:at_kink")
			case uu.Equal(sdk.OneDec()):
				tr.Count("util:one")
			default:
				tr.Count("util:above_kink")
			}
		} else {
			f = append(f, "-", "-", "-", "-")
		}
		tr.Line("lr.rates", f...)
		tr.Count("rates:" + o)
		if o == "ok" && rng.Chance(25) {
			// ReBalanceStableRates on a stable borrow of this asset: stable rates at both 20-point boundaries, their neighbours, random
			k.SetLendPair(ctx, lendtypes.Extended_Pair{Id: 1, AssetIn: assetID, AssetOut: assetID, AssetOutPoolID: poolID})
			ulp := sdk.NewDecWithPrec(1, 18)
			p1 := sdk.MustNewDecFromStr(lendtypes.Perc1)
			for _, S := range []sdk.Dec{bs.Add(p1), bs.Add(p1).Sub(ulp), bs.Sub(p1), bs.Sub(p1).Add(ulp), bs, c18Dec(c18Rate(rng))} {
				if S.IsNegative() {
					continue
				}
				var nb lendtypes.BorrowAsset
				var err error
				panicked, _ := try(func() { nb, err = k.ReBalanceStableRates(ctx, lendtypes.BorrowAsset{ID: 1, PairID: 1, IsStableBorrow: true, StableBorrowRate: S}) })
				ro := c18Outcome(panicked, err)
				res := "-"
				if ro == "ok" {
					res = c18Raw(nb.StableBorrowRate)
					if nb.StableBorrowRate.Equal(S) {
						tr.Count("rebalance:kept")
					} else {
						tr.Count("rebalance:snapped")
					}
				}
				tr.Line("lr.rebalance", c18Raw(S), c18Raw(bs), c18Raw(uu), ro, res)
			}
		}
	}
	// realise utilisation uRaw/10^18 exactly: borrowed = uRaw, balance = 10^18 - uRaw
	atU := func(p [8]*big.Int, uRaw int64) {
		b := uRaw
		sb := int64(0)
		if rng.Chance(40) {
			sb = int64(rng.U64() % uint64(b+1))
			b -= sb
		}
		eval(p, sdk.NewInt(T-uRaw), sdk.NewInt(b), sdk.NewInt(sb))
	}
	genParams := func() [8]*big.Int {
		var p [8]*big.Int
		uo := []int64{800000000000000000, 500000000000000000, 650000000000000000, 900000000000000000, 1, 999999999999999999, 10000000000000000}[rng.Intn(7)]
		if rng.Chance(40) {
			uo = 1 + int64(rng.U64()%999999999999999998)
		}
		p[0] = big.NewInt(uo)
		for i := 1; i <= 6; i++ {
			p[i] = c18Rate(rng)
			if rng.Chance(60) {
				p[i] = big.NewInt(int64(rng.U64() % 1000000000000000000)) // up to 100 %
			}
		}
		p[7] = big.NewInt(int64(rng.U64() % 1000000000000000001))
		if rng.Chance(10) {
			p[7] = []*big.Int{big.NewInt(0), new(big.Int).Set(c18P18)}[rng.Intn(2)]
		}
		return p
	}
	// corpus: the parameters of the repository's own tests (uOpt 0.8, base 0.002, slope1 0.1, slope2 3.0)
	tr.Line("lr.begin")
	cp := [8]*big.Int{big.NewInt(800000000000000000), big.NewInt(2000000000000000), big.NewInt(100000000000000000), big.NewInt(3000000000000000000),
		big.NewInt(2000000000000000), big.NewInt(100000000000000000), big.NewInt(3000000000000000000), big.NewInt(100000000000000000)}
	for _, uu := range []int64{0, 1, 400000000000000000, 799999999999999999, 800000000000000000, 800000000000000001, 900000000000000000, T} {
		atU(cp, uu)
	}
	groups := scale(2000, 30000)
	for g := 0; g < groups; g++ {
		tr.Line("lr.begin")
		p := genParams()
		uo := p[0].Int64()
		n := rng.Range(3, 8)
		for i := 0; i < n; i++ {
			var uu int64
			switch rng.Intn(8) {
			case 0:
				uu = 0
			case 1:
				uu = uo
			case 2:
				uu = uo - 1 - int64(rng.Intn(3))
			case 3:
				uu = uo + 1 + int64(rng.Intn(3))
			case 4:
				uu = T
			default:
				uu = int64(rng.U64() % uint64(T+1))
			}
			if uu < 0 {
				uu = 0
			}
			if uu > T {
				uu = T
			}
			if rng.Chance(85) {
				atU(p, uu)
			} else {
				// arbitrary balances: utilisation is whatever the division gives
				eval(p, c18Amount(rng), c18Amount(rng).QuoRaw(2), c18Amount(rng).QuoRaw(2))
			}
		}
	}
	// malformed: uOpt = 1 at full utilisation (division by zero), balances beyond int64
	for g := 0; g < scale(40, 400); g++ {
		tr.Line("lr.begin")
		p := genParams()
		switch rng.Intn(3) {
		case 0:
			p[0] = new(big.Int).Set(c18P18)
			eval(p, sdk.NewInt(0), sdk.NewInt(5), sdk.NewInt(0))
			tr.Count("bad:uopt_one_full")
		case 1:
			eval(p, sdk.NewIntFromBigInt(new(big.Int).Lsh(big.NewInt(1), 63)), sdk.NewInt(5), sdk.NewInt(0))
			tr.Count("bad:balance_range")
		case 2:
			eval(p, sdk.NewInt(5), sdk.NewInt(math.MaxInt64), sdk.NewInt(1))
			tr.Count("bad:borrowed_range")
		}
	}
}

// ---------------------------------------------------------------------------------------------
// lend-reward tracker: the real IterateLends on a real lend position
// ---------------------------------------------------------------------------------------------

func c18LendTracker(t *testing.T, tr *Trace, rng *Rng, a *c18App) {
	app, base := a.app, a.ctx
	must := func(err error) {
		if err != nil {
			t.Fatal(err)
		}
	}
	k := app.LendKeeper
	must(app.AssetKeeper.AddAssetRecords(base, assettypes.Asset{Name: "CLENDX", Denom: "uclendx", Decimals: sdk.NewInt(1000000), IsOnChain: true}))
	var assetID, cAssetID uint64
	for _, as := range app.AssetKeeper.GetAssets(base) {
		switch as.Denom {
		case "ulendx":
			assetID = as.Id
		case "uclendx":
			cAssetID = as.Id
		}
	}
	poolID := k.GetPoolID(base)
	owner := sdk.AccAddress([]byte("c18-lender-address--"))
	huge := sdk.NewIntFromBigInt(new(big.Int).Lsh(big.NewInt(1), 120))
	seqs := scale(200, 3000)
	for sq := 0; sq < seqs; sq++ {
		ctx, _ := base.CacheContext()
		// rate parameters and a utilisation that give a lend rate in an ordinary range
		k.SetAssetRatesParams(ctx, lendtypes.AssetRatesParams{AssetID: assetID, UOptimal: sdk.MustNewDecFromStr("0.8"), Base: sdk.MustNewDecFromStr("0.002"),
			Slope1: c18DecI(int64(1 + rng.U64()%300000000000000000)), Slope2: sdk.MustNewDecFromStr("3.0"), EnableStableBorrow: true, StableBase: sdk.MustNewDecFromStr("0.1"),
			StableSlope1: sdk.MustNewDecFromStr("0.1"), StableSlope2: sdk.MustNewDecFromStr("3.0"), Ltv: sdk.OneDec(), LiquidationThreshold: sdk.OneDec(),
			LiquidationPenalty: sdk.OneDec(), LiquidationBonus: sdk.OneDec(), ReserveFactor: sdk.MustNewDecFromStr("0.1"), CAssetID: cAssetID})
		uRaw := int64(rng.U64() % 1000000000000000001)
		if uRaw < 1000000000000000000 {
			must(app.BankKeeper.MintCoins(ctx, lendtypes.ModuleAcc1, sdk.NewCoins(sdk.NewCoin("ulendx", sdk.NewInt(1000000000000000000-uRaw)))))
		}
		must(app.BankKeeper.MintCoins(ctx, lendtypes.ModuleAcc1, sdk.NewCoins(sdk.NewCoin("uclendx", huge))))
		st, _ := k.GetAssetStatsByPoolIDAndAssetID(ctx, poolID, assetID)
		st.TotalBorrowed, st.TotalStableBorrowed, st.TotalInterestAccumulated, st.TotalLend = sdk.NewInt(uRaw), sdk.ZeroInt(), huge, sdk.ZeroInt()
		k.SetAssetStatsByPoolIDAndAssetID(ctx, st)
		principal := sdk.NewInt(int64(1 + rng.Intn(1000000000)))
		if rng.Chance(30) {
			principal = c18Amount(rng).AddRaw(1)
		}
		t0 := c18Now - int64(rng.Intn(int(3*c18Year)))
		k.SetLend(ctx, lendtypes.LendAsset{ID: 1, AssetID: assetID, PoolID: poolID, Owner: owner.String(), AmountIn: sdk.NewCoin("ulendx", principal),
			LendingTime: time.Unix(t0, 0), AvailableToBorrow: principal, AppID: 1, GlobalIndex: sdk.OneDec(), LastInteractionTime: time.Unix(t0, 0),
			CPoolName: "C18POOL", TotalRewards: sdk.ZeroInt()})
		// a borrow of the same asset, variable or stable-rate (rate locked in at borrow time), accrued through BOTH routes from the
		// same state: IterateBorrow (MsgCalculateBorrowInterest, repay, draw ...) and CalculateBorrowInterestForLiquidation (both
		// liquidation generations), each on a discarded cache context
		bStable := rng.Chance(60)
		bPrincipal := sdk.NewInt(int64(1 + rng.Intn(2000000000)))
		k.SetLendPair(ctx, lendtypes.Extended_Pair{Id: 1, AssetIn: assetID, AssetOut: assetID, AssetOutPoolID: poolID})
		k.SetBorrow(ctx, lendtypes.BorrowAsset{ID: 1, LendingID: 1, IsStableBorrow: bStable, PairID: 1, AmountIn: sdk.NewCoin("uclendx", bPrincipal),
			AmountOut: sdk.NewCoin("ulendx", bPrincipal), BridgedAssetAmount: sdk.NewCoin("ulendx", sdk.ZeroInt()), BorrowingTime: time.Unix(t0, 0),
			StableBorrowRate: c18DecI(int64(rng.U64() % 400000000000000000)), InterestAccumulated: sdk.ZeroDec(), GlobalIndex: sdk.OneDec(),
			ReserveGlobalIndex: sdk.OneDec(), LastInteractionTime: time.Unix(t0, 0), CPoolName: "C18POOL"})
		tr.Line("lr.begin")
		now := t0
		for stp := 0; stp < rng.Range(2, scale(8, 14)); stp++ {
			switch rng.Intn(4) {
			case 0:
				now += int64(rng.Intn(10))
			case 1:
				now += int64(rng.Intn(100000))
			default:
				now += int64(rng.Intn(int(c18Year)))
			}
			sctx := ctx.WithBlockTime(time.Unix(now, 0))
			if b0, found := k.GetBorrow(sctx, 1); found {
				bapr, e1 := k.GetBorrowAPRByAssetID(sctx, poolID, assetID, b0.IsStableBorrow)
				rr, e2 := k.GetReserveRate(sctx, poolID, assetID)
				if e1 == nil && e2 == nil {
					ca, _ := sctx.CacheContext()
					var errA, errB error
					var bB lendtypes.BorrowAsset
					pA, _ := try(func() { _, _, errA = k.IterateBorrow(ca, 1) })
					bA, _ := k.GetBorrow(ca, 1)
					cb, _ := sctx.CacheContext()
					pB, _ := try(func() { bB, errB = k.CalculateBorrowInterestForLiquidation(cb, 1) })
					oA, oB := c18Outcome(pA, errA), c18Outcome(pB, errB)
					dA, dB := "-", "-"
					if oA == "ok" {
						dA = c18Raw(bA.InterestAccumulated.Sub(b0.InterestAccumulated))
					}
					if oB == "ok" {
						dB = c18Raw(bB.InterestAccumulated.Sub(b0.InterestAccumulated))
					}
					st := "0"
					if b0.IsStableBorrow {
						st = "1"
					}
					tr.Line("lr.routes", st, b0.AmountOut.Amount.String(), c18Raw(bapr), c18Raw(rr), c18Raw(b0.StableBorrowRate), c18Raw(b0.GlobalIndex),
						c18Raw(b0.ReserveGlobalIndex), i64(now), i64(b0.LastInteractionTime.Unix()), oA, dA, oB, dB)
					tr.Count("routes:stable=" + st + ":" + oA + ":" + oB)
				} else {
					tr.Count("routes:rates_unavailable")
				}
			}
			lend, _ := k.GetLend(sctx, 1)
			apr, err := k.GetLendAPRByAssetIDAndPoolID(sctx, poolID, assetID)
			must(err)
			// what the accrual function returns for this step (REAL function; also compared with the model)
			a2 := &c18App{app: app, ctx: sctx}
			a2.c18LendCall(tr, "lend", lend.AmountIn.Amount, apr.BigInt(), nil, lend.GlobalIndex.BigInt(), nil, now, lend.LastInteractionTime.Unix())
			x, igc, err := k.CalculateLendReward(sctx, lend.AmountIn.Amount.String(), apr, lend)
			must(err)
			trB := "0"
			if tk, f := k.GetLendRewardTracker(sctx, 1); f {
				trB = c18Raw(tk.RewardsAccumulated)
			}
			var idx sdk.Dec
			// half of the steps: the keeper function behind MsgCalculateInterestAndRewards, which calls IterateLends and then
			// stores (index, now) itself; otherwise IterateLends directly, followed by what its callers do
			useMsg := rng.Chance(50)
			var panicked bool
			if useMsg {
				cc, write := sctx.CacheContext()
				panicked, _ = try(func() { err = k.MsgCalculateLendRewards(cc, owner.String(), 1) })
				if !panicked && err == nil {
					write()
				}
			} else {
				panicked, _ = try(func() { idx, err = k.IterateLends(sctx, 1) })
			}
			if panicked || err != nil {
				tr.Count("lendtrack:" + c18Outcome(panicked, err))
				break
			}
			tk, _ := k.GetLendRewardTracker(sctx, 1)
			lend2, _ := k.GetLend(sctx, 1)
			paid := lend2.TotalRewards.Sub(lend.TotalRewards)
			tr.Line("lr.track", trB, c18Raw(x), paid.String(), c18Raw(tk.RewardsAccumulated))
			tr.Count("lendtrack:ok")
			if paid.IsPositive() {
				tr.Count("lendtrack:paid")
			}
			if useMsg {
				// the clock of the position: the handler stored (index returned by CalculateLendReward, now)
				again, _, err := k.CalculateLendReward(sctx, lend2.AmountIn.Amount.String(), apr, lend2) // a second calculation in the same block
				must(err)
				tr.Line("lr.stamp", i64(now), i64(lend2.LastInteractionTime.Unix()), c18Raw(lend2.GlobalIndex), c18Raw(igc), c18Raw(again))
				tr.Count("lendtrack:msg")
				// governance changes the rate parameters in the same block; a second calculation must accrue nothing (zero
				// time), whatever the lend rate has become
				p, _ := k.GetAssetRatesParams(sctx, assetID)
				p.Slope1 = c18DecI(int64(1 + rng.U64()%900000000000000000))
				p.Base = c18DecI(int64(rng.U64() % 50000000000000000))
				k.SetAssetRatesParams(sctx, p)
				apr2, err := k.GetLendAPRByAssetIDAndPoolID(sctx, poolID, assetID)
				must(err)
				a2.c18LendCall(tr, "lend", lend2.AmountIn.Amount, apr2.BigInt(), nil, lend2.GlobalIndex.BigInt(), nil, now, lend2.LastInteractionTime.Unix())
				tr.Count("lendtrack:same_block_after_rate_change")
				continue
			}
			// what every caller of IterateLends does next
			lend2.GlobalIndex = idx
			lend2.LastInteractionTime = sctx.BlockTime()
			k.SetLend(sctx, lend2)
		}
	}
}

// ---------------------------------------------------------------------------------------------
// vault stability fee, state level: MsgVaultInterestCalc / CalculateVaultInterest / WasmUpdatePairsVault on real
// records; which interval is accrued (vault stamp vs pair stamp, BlockHeight == 0 flag), tracker, whole units, stamps.
// Before every pair of consecutive calculations the single calculation over the combined interval is run on a
// discarded branch of the same state, so that the Lean monitor `accrual_subadditive` compares REAL numbers.
// ---------------------------------------------------------------------------------------------

func c18Deliver(app *chain.App, ctx sdk.Context, msg sdk.Msg) string {
	if err := msg.ValidateBasic(); err != nil {
		return "err"
	}
	h := app.MsgServiceRouter().Handler(msg)
	if h == nil {
		return "err"
	}
	cctx, write := ctx.CacheContext()
	var err error
	panicked, _ := try(func() { _, err = h(cctx, msg) })
	if panicked {
		return "panic"
	}
	if err != nil {
		return "err"
	}
	write()
	return "ok"
}

func c18VaultProj(app *chain.App, ctx sdk.Context) []string {
	p, _ := app.AssetKeeper.GetPairsVault(ctx, 1)
	v, _ := app.VaultKeeper.GetVault(ctx, 1)
	trk := "none"
	if tk, f := app.Rewardskeeper.GetVaultInterestTracker(ctx, 1, 1); f {
		trk = c18Raw(tk.InterestAccumulated)
	}
	return []string{c18Raw(p.StabilityFee), i64(p.BlockHeight), i64(p.BlockTime.Unix()), v.InterestAccumulated.String(), i64(v.BlockHeight), i64(v.BlockTime.Unix()), trk}
}

func c18VaultFlow(t *testing.T, tr *Trace, rng *Rng, a *c18App) {
	app, base := a.app, a.ctx
	ownerAddr := sdk.AccAddress([]byte("c18-owner-address---"))
	owner := ownerAddr.String()
	one := math.Float64bits(1.0)
	// fixtures for the real MsgDeposit: pair 1 = CMDX -> CMST, the owner holds collateral
	if _, found := app.AssetKeeper.GetPair(base, 1); !found {
		if err := app.AssetKeeper.AddPairsRecords(base, assettypes.Pair{AssetIn: 3, AssetOut: 1}); err != nil {
			t.Fatal(err)
		}
	}
	{
		coins := sdk.NewCoins(sdk.NewCoin("ucmdx", sdk.NewInt(1000000000000)))
		if err := app.BankKeeper.MintCoins(base, rewardstypes.ModuleName, coins); err != nil {
			t.Fatal(err)
		}
		if err := app.BankKeeper.SendCoinsFromModuleToAccount(base, rewardstypes.ModuleName, ownerAddr, coins); err != nil {
			t.Fatal(err)
		}
	}
	seqs := scale(400, 6000)
	for sq := -2; sq < seqs; sq++ {
		ctx, _ := base.CacheContext()
		mode := rng.Intn(10) // 0-2: opened while the fee was zero, fee switched on later; 3-5: flag 0 with a running fee; else: ordinary
		corpus := sq < 0     // -2: WITNESS of defect D46 (vault deposited into while the fee is zero); -1: the same history, idle vault
		if corpus {
			mode = 0
		}
		fee := big.NewInt(int64(10000000000000000 * (1 + rng.Intn(5)))) // 1 .. 5 %
		if rng.Chance(30) {
			fee = c18Rate(rng)
			if fee.Sign() == 0 {
				fee = big.NewInt(20000000000000000)
			}
		}
		principal := sdk.NewInt(int64(100000000 + rng.Intn(400000000))) // accrues less than one unit over a few seconds
		if rng.Chance(35) {
			principal = c18Amount(rng).QuoRaw(4).AddRaw(1)
		}
		t0 := c18Now - int64(rng.Intn(int(2*c18Year)))
		pbt := t0 - int64(rng.Intn(5000000))
		if corpus {
			fee, principal, t0, pbt = big.NewInt(100000000000000000), sdk.NewInt(1000000), 1700000000, 1700000000
		}
		startFee := fee
		pbh, vbh := int64(5), int64(7)
		switch {
		case mode <= 2:
			startFee, pbh, vbh = big.NewInt(0), 0, 0
		case mode <= 5:
			vbh = 0
		}
		ia0 := sdk.ZeroInt()
		if rng.Chance(20) && !corpus {
			ia0 = sdk.NewInt(int64(rng.Intn(1000000)))
		}
		app.AssetKeeper.SetPairsVault(ctx, assettypes.ExtendedPairVault{
			Id: 1, AppId: 1, PairId: 1, StabilityFee: c18Dec(startFee), ClosingFee: sdk.ZeroDec(), LiquidationPenalty: sdk.ZeroDec(),
			DrawDownFee: sdk.ZeroDec(), IsVaultActive: true, DebtCeiling: sdk.NewInt(0), DebtFloor: sdk.NewInt(0), MinCr: sdk.OneDec(),
			PairName: "C18", BlockHeight: pbh, BlockTime: time.Unix(pbt, 0), MinUsdValueLeft: 0,
		})
		app.VaultKeeper.SetVault(ctx, vaulttypes.Vault{Id: 1, AppId: 1, ExtendedPairVaultID: 1, Owner: owner, AmountIn: sdk.NewInt(1), AmountOut: principal,
			CreatedAt: time.Unix(t0, 0), InterestAccumulated: ia0, ClosingFeeAccumulated: sdk.ZeroInt(), BlockHeight: vbh, BlockTime: time.Unix(t0, 0)})
		app.VaultKeeper.SetAppExtendedPairVaultMappingData(ctx, vaulttypes.AppExtendedPairVaultMappingData{AppId: 1, ExtendedPairId: 1, VaultIds: []uint64{1},
			TokenMintedAmount: principal, CollateralLockedAmount: sdk.NewInt(1)})
		trk := "none"
		if rng.Chance(25) && !corpus {
			f0 := c18DecI(int64(rng.U64() % 1000000000000000000))
			app.Rewardskeeper.SetVaultInterestTracker(ctx, rewardstypes.VaultInterestTracker{VaultId: 1, AppMappingId: 1, InterestAccumulated: f0})
			trk = c18Raw(f0)
		}
		tr.Line("va.begin", "true", startFee.String(), "false", i64(pbh), i64(pbt), principal.String(), ia0.String(), i64(vbh), i64(t0), trk)
		switch {
		case mode <= 2:
			tr.Count("va:start:fee_zero_at_open")
		case mode <= 5:
			tr.Count("va:start:flag_zero_fee_running")
		default:
			tr.Count("va:start:ordinary")
		}
		now := t0
		height := int64(100)
		// ghost of the specification (never reads the stamps after this point): fee in force, time of the last fee update, time
		// the vault was last settled
		gFee, gSeg, gSettled := new(big.Int).Set(startFee), pbt, t0
		if vbh == 0 {
			gSettled = pbt
		}
		legit := func(at int64) string {
			if gFee.Sign() == 0 {
				return "-"
			}
			start := gSeg
			if gSettled > start {
				start = gSettled
			}
			return c18PowField(c18Dec(gFee), at-start)
		}
		gap := func() int64 {
			switch rng.Intn(6) {
			case 0:
				return 0
			case 1, 2:
				return int64(1 + rng.Intn(10))
			case 3:
				return int64(rng.Intn(100000))
			default:
				return int64(rng.Intn(int(c18Year)))
			}
		}
		// power value the real code will obtain for a calculation at time `at` from the current real state
		powFor := func(c sdk.Context, at int64, rate sdk.Dec) uint64 {
			p, _ := app.AssetKeeper.GetPairsVault(c, 1)
			v, _ := app.VaultKeeper.GetVault(c, 1)
			since := v.BlockTime.Unix()
			if v.BlockHeight == 0 {
				since = p.BlockTime.Unix()
			}
			x, y := c18PowArgs(rate, at-since)
			return math.Float64bits(math.Pow(x, y))
		}
		curFee := func(c sdk.Context) sdk.Dec {
			p, _ := app.AssetKeeper.GetPairsVault(c, 1)
			return p.StabilityFee
		}
		update := func(newFee *big.Int) {
			now += gap()
			height++
			sctx := ctx.WithBlockTime(time.Unix(now, 0)).WithBlockHeight(height)
			pb := powFor(sctx, now, curFee(sctx))
			if curFee(sctx).IsZero() && newFee.Sign() != 0 {
				pb = one
			}
			var err error
			panicked, _ := try(func() {
				err = app.AssetKeeper.WasmUpdatePairsVault(sctx, &bindings.MsgUpdatePairsVault{AppID: 1, ExtPairID: 1, StabilityFee: c18Dec(newFee),
					ClosingFee: sdk.ZeroDec(), LiquidationPenalty: sdk.ZeroDec(), DrawDownFee: sdk.ZeroDec(), IsVaultActive: true, MinCr: sdk.OneDec(),
					DebtCeiling: sdk.NewInt(0), DebtFloor: sdk.NewInt(0), MinUsdValueLeft: 0})
			})
			o := c18Outcome(panicked, err)
			tr.Line("va.update", append(append([]string{i64(now), i64(height), newFee.String(), u(pb), o}, c18VaultProj(app, sctx)...), legit(now))...)
			tr.Count("va:update:" + o)
			if o == "ok" {
				if gFee.Sign() != 0 {
					gSettled = now
				}
				gSeg, gFee = now, new(big.Int).Set(newFee)
			}
		}
		// a real MsgDeposit of collateral: accrues like MsgVaultInterestCalc, then re-stamps the vault
		deposit := func(amt int64) {
			now += gap()
			height++
			sctx := ctx.WithBlockTime(time.Unix(now, 0)).WithBlockHeight(height)
			pb := powFor(sctx, now, curFee(sctx))
			lg := legit(now)
			o := c18Deliver(app, sctx, vaulttypes.NewMsgDepositRequest(ownerAddr, 1, 1, 1, sdk.NewInt(amt)))
			tr.Line("va.deposit", append(append([]string{i64(now), i64(height), i64(amt), u(pb), o}, c18VaultProj(app, sctx)...), lg)...)
			tr.Count("va:deposit:" + o)
			if o == "ok" {
				if gFee.Sign() == 0 {
					tr.Count("va:deposit:at_zero_fee")
				}
				gSettled = now
			}
		}
		calc := func(c sdk.Context, at, h int64, kind string) string {
			sctx := c.WithBlockTime(time.Unix(at, 0)).WithBlockHeight(h)
			v, _ := app.VaultKeeper.GetVault(sctx, 1)
			pb := powFor(sctx, at, curFee(sctx))
			lg := legit(at)
			debt := v.AmountOut.Add(v.InterestAccumulated)
			var o string
			if kind == "direct" {
				// the way the liquidation callers use it: same arguments, no message
				var err error
				cc, write := sctx.CacheContext()
				panicked, _ := try(func() { err = app.Rewardskeeper.CalculateVaultInterest(cc, 1, 1, 1, debt, v.BlockHeight, v.BlockTime.Unix()) })
				o = c18Outcome(panicked, err)
				if o == "ok" {
					write()
				}
			} else {
				o = c18Deliver(app, sctx, &vaulttypes.MsgVaultInterestCalcRequest{From: owner, AppId: 1, UserVaultId: 1})
			}
			line := "va.calc"
			f := []string{kind, i64(at), i64(h), debt.String(), i64(v.BlockHeight), i64(v.BlockTime.Unix()), u(pb), o}
			if kind == "once" {
				line = "va.once"
				f = []string{i64(at), i64(h), u(pb), o}
			}
			v2, _ := app.VaultKeeper.GetVault(sctx, 1)
			if kind == "once" {
				tr.Line(line, append(f, c18VaultProj(app, sctx)...)...)
			} else {
				tr.Line(line, append(append(f, c18VaultProj(app, sctx)...), lg)...)
				if o == "ok" && gFee.Sign() != 0 && at >= gSettled {
					gSettled = at
				}
			}
			tr.Count("va:" + kind + ":" + o)
			if o == "ok" && kind != "once" {
				if v2.InterestAccumulated.GT(v.InterestAccumulated) {
					tr.Count("va:calc:whole_units_booked")
				} else if !curFee(sctx).IsZero() {
					tr.Count("va:calc:sub_unit")
					if v.BlockHeight == 0 {
						tr.Count("va:calc:sub_unit_with_flag_zero")
					}
				}
			}
			return o
		}
		if corpus {
			// fee zero since t0; (-2) the owner deposits collateral after a day; the fee is switched on after a year; interest is
			// calculated in the block of the switch-on
			day := int64(86400)
			if sq == -2 {
				now += day - 1
				gapSave := gap
				gap = func() int64 { return 1 }
				deposit(5)
				gap = gapSave
			}
			now = t0 + 365*day
			{
				gapSave := gap
				gap = func() int64 { return 0 }
				update(fee)
				gap = gapSave
			}
			calc(ctx, now, height+1, "msg")
			height++
			calc(ctx, now+30*day, height+1, "msg")
			tr.Count("va:corpus")
			continue
		}
		if mode <= 2 { // the fee is switched on through the real binding, possibly after the vault was deposited into
			if rng.Chance(35) {
				deposit(int64(1 + rng.Intn(1000)))
			}
			update(fee)
			if rng.Chance(50) {
				calc(ctx, now, height+1, "msg") // in the block of the switch-on
				height++
			}
		}
		steps := rng.Range(3, scale(9, 14))
		for st := 0; st < steps; st++ {
			p := rng.Intn(100)
			if st == 0 && mode <= 5 && rng.Chance(70) {
				p = 99 // start with repeated triggers while the vault still carries the flag
			}
			switch {
			case p < 5:
				deposit(int64(1 + rng.Intn(1000)))
			case p < 9: // zero-fee window: off, idle or deposited into, on again, calculation at once or later
				if curFee(ctx).IsZero() == false {
					update(big.NewInt(0))
				}
				if rng.Chance(40) {
					deposit(int64(1 + rng.Intn(1000)))
				}
				update(big.NewInt(int64(10000000000000000 * (1 + rng.Intn(9)))))
				if rng.Chance(60) {
					calc(ctx, now, height+1, "msg")
					height++
				}
				tr.Count("va:zero_window")
			case p < 16:
				nf := fee
				switch rng.Intn(3) {
				case 0:
					nf = big.NewInt(0)
				case 1:
					nf = big.NewInt(int64(10000000000000000 * (1 + rng.Intn(9))))
				}
				update(nf)
			case p < 24:
				now += gap()
				height++
				calc(ctx, now, height, "direct")
			case p < 27:
				// the clock never runs backwards on chain; exercised as the error path (message rejected, nothing written)
				height++
				calc(ctx, now-int64(1+rng.Intn(1000)), height, "msg")
			default:
				d1, d2 := gap(), gap()
				if rng.Chance(50) || (st == 0 && mode <= 5) {
					d1, d2 = int64(1+rng.Intn(8)), int64(1+rng.Intn(8)) // repeated triggers a few seconds apart
				}
				t1, t2 := now+d1, now+d1+d2
				// the single calculation over the combined interval, on a branch that is thrown away
				b, _ := ctx.CacheContext()
				calc(b, t2, height+2, "once")
				calc(ctx, t1, height+1, "msg")
				calc(ctx, t2, height+2, "msg")
				now, height = t2, height+2
				tr.Count("va:two_vs_one")
			}
		}
	}
}
