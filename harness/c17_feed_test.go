//go:build verif

package harness

import (
	"fmt"
	"strings"
	"testing"

	"github.com/bandprotocol/bandchain-packet/obi"
	"github.com/bandprotocol/bandchain-packet/packet"
	chain "github.com/comdex-official/comdex/app"
	assettypes "github.com/comdex-official/comdex/x/asset/types"
	"github.com/comdex-official/comdex/x/bandoracle"
	bandtypes "github.com/comdex-official/comdex/x/bandoracle/types"
	"github.com/comdex-official/comdex/x/market"
	abci "github.com/cometbft/cometbft/abci/types"
	tmproto "github.com/cometbft/cometbft/proto/tendermint/types"
	sdk "github.com/cosmos/cosmos-sdk/types"
	channeltypes "github.com/cosmos/ibc-go/v7/modules/core/04-channel/types"
)

const c17Channel = "channel-7"

func c17BandState(app *chain.App, ctx sdk.Context) string {
	k := app.BandoracleKeeper
	dd := k.GetDiscardData(ctx)
	b := func(x bool) string {
		if x {
			return "true"
		}
		return "false"
	}
	return fmt.Sprintf("chk=%s;tmp=%d;last=%d;dh=%d;db=%s;val=%s", b(k.GetCheckFlag(ctx)), k.GetTempFetchPriceID(ctx), k.GetLastFetchPriceID(ctx),
		dd.BlockHeight, b(dd.DiscardBool), b(k.GetOracleValidationResult(ctx)))
}

func c17Books(app *chain.App, ctx sdk.Context, ids []uint64) string {
	var out []string
	for _, id := range ids {
		twa, found := app.MarketKeeper.GetTwa(ctx, id)
		if found {
			out = append(out, u(id)+"@"+twaState(twa, true))
		}
	}
	return strings.Join(out, "|")
}

// TestC17Feed drives the REAL begin-blockers of x/bandoracle and x/market, the real IBC acknowledgment / response
// handlers of the band module and the real CalcAssetPrice over generated feeds: asset lists with and without
// oracle-priced assets, result lists shorter and longer than the list, zero rates, outages of the oracle shorter and
// longer than the accepted gap, blocks that are and are not sampling blocks.
func TestC17Feed(t *testing.T) {
	tr := OpenTrace(t, "c17feed.trace")
	defer tr.Close(t)
	rng := NewRng(seed() + 17)
	seqs := scale(60, 600)
	for s := 0; s < seqs; s++ {
		app := chain.Setup(t, false)
		height := int64(1 + rng.Intn(30))
		ctx := app.BaseApp.NewContext(false, tmproto.Header{Height: height})
		nAssets := 1 + rng.Intn(6)
		var ids []uint64
		var required []bool
		for i := 0; i < nAssets; i++ {
			req := rng.Chance(70)
			if err := app.AssetKeeper.AddAssetRecords(ctx, assettypes.Asset{Name: alphaName(i), Denom: "ua" + u(uint64(i)), Decimals: sdk.NewInt(1),
				IsOnChain: true, IsOraclePriceRequired: req}); err != nil {
				t.Fatal(err)
			}
		}
		for _, a := range app.AssetKeeper.GetAssets(ctx) {
			ids = append(ids, a.Id)
			required = append(required, a.IsOraclePriceRequired)
		}
		N := uint64(1 + rng.Intn(4))
		if rng.Chance(10) {
			N = uint64(5 + rng.Intn(8))
		}
		acc := int64([]int{20, 40, 60, 100, 1}[rng.Intn(5)])
		tr.Line("feed.begin", u(N), i64(acc))
		nReq := 0
		for i, id := range ids {
			tr.Line("feed.asset", u(id), fmt.Sprint(required[i]))
			if required[i] {
				nReq++
			}
		}
		msg := bandtypes.MsgFetchPriceData{Creator: "x", OracleScriptID: 12, SourceChannel: c17Channel, AskCount: 1, MinCount: 1,
			FeeLimit: sdk.NewCoins(sdk.NewCoin("uband", sdk.NewInt(1))), PrepareGas: 1, ExecuteGas: 1, ClientID: bandtypes.FetchPriceClientIDKey,
			TwaBatchSize: N, AcceptedHeightDiff: acc}
		if rng.Chance(85) {
			if err := app.BandoracleKeeper.AddFetchPriceRecords(ctx, msg); err != nil {
				t.Fatal(err)
			}
			tr.Line("feed.configure", i64(height))
		} else {
			app.BandoracleKeeper.SetFetchPriceMsg(ctx, msg) // parameters known, feed never switched on: lastBlock stays 0
			tr.Count("feed:not-configured")
		}
		ibc := bandoracle.NewIBCModule(app.BandoracleKeeper)
		reqID := int64(0)
		outage := 0
		steps := scale(40, 120)
		for i := 0; i < steps; i++ {
			// the next block: mostly the next sampling block, sometimes one in between
			if rng.Chance(80) {
				height = (height/20 + 1) * 20
			} else {
				height += int64(1 + rng.Intn(19))
			}
			ctx = ctx.WithBlockHeight(height)
			// what happened since the previous block: a request acknowledged (new id), its response, or an outage
			if outage > 0 {
				outage--
				tr.Count("feed:outage-block")
			} else if rng.Chance(8) {
				outage = 1 + rng.Intn(8)
			} else if rng.Chance(88) {
				reqID++
				ackData := bandtypes.ModuleCdc.MustMarshalJSON(packet.NewOracleRequestPacketAcknowledgement(uint64(reqID)))
				ack := channeltypes.NewResultAcknowledgement(ackData)
				calldata := obi.MustEncode(bandtypes.FetchPriceCallData{Symbols: []string{"A"}, Multiplier: 1000000})
				rp := packet.NewOracleRequestPacketData(bandtypes.FetchPriceClientIDKey, 12, calldata, 1, 1, sdk.NewCoins(), 1, 1)
				pk := channeltypes.Packet{SourceChannel: c17Channel, DestinationChannel: c17Channel, Data: bandtypes.ModuleCdc.MustMarshalJSON(&rp)}
				if err := ibc.OnAcknowledgementPacket(ctx, pk, bandtypes.ModuleCdc.MustMarshalJSON(&ack), nil); err != nil {
					t.Fatal(err)
				}
				if got := app.BandoracleKeeper.GetLastFetchPriceID(ctx); got != reqID {
					t.Fatalf("acknowledgment did not set the last request id: %d != %d", got, reqID)
				}
				tr.Line("feed.ack", i64(reqID))
				if rng.Chance(92) {
					// the oracle's response: a rate list shorter / equal / longer than the list of oracle-priced assets
					n := nReq
					switch rng.Intn(8) {
					case 0:
						n = rng.Intn(nReq + 1)
					case 1:
						n = nReq + 1 + rng.Intn(3)
					}
					rates := make([]uint64, n)
					for j := range rates {
						switch rng.Intn(10) {
						case 0:
							rates[j] = 0
						case 1:
							rates[j] = ^uint64(0) - uint64(rng.Intn(3))
						default:
							rates[j] = uint64(1 + rng.Intn(5_000_000))
						}
					}
					res := obi.MustEncode(bandtypes.FetchPriceResult{Rates: rates})
					resp := packet.OracleResponsePacketData{ClientID: bandtypes.FetchPriceClientIDKey, RequestID: uint64(reqID), AnsCount: 1, RequestTime: 1, ResolveTime: 1,
						ResolveStatus: 1, Result: res}
					rpk := channeltypes.Packet{SourceChannel: c17Channel, DestinationChannel: c17Channel, Data: bandtypes.ModuleCdc.MustMarshalJSON(&resp)}
					ibc.OnRecvPacket(ctx, rpk, nil)
					if got, err := app.BandoracleKeeper.GetFetchPriceResult(ctx, bandtypes.OracleRequestID(reqID)); err != nil || len(got.Rates) != len(rates) {
						t.Fatalf("response not stored: %v %v", err, got)
					}
					tr.Line("feed.resp", i64(reqID), joinU(rates))
					tr.Count(fmt.Sprintf("feed:resp:len-vs-required=%d", cmpInt(n, nReq)))
				} else {
					tr.Count("feed:ack-without-response")
				}
			}
			if panicked, _ := try(func() { bandoracle.BeginBlocker(ctx, abci.RequestBeginBlock{}, app.BandoracleKeeper) }); panicked {
				t.Fatal("bandoracle begin-blocker panicked")
			}
			tr.Line("feed.band", i64(height), c17BandState(app, ctx))
			cctx, write := ctx.CacheContext()
			panicked, _ := try(func() { market.BeginBlocker(cctx, abci.RequestBeginBlock{}, app.MarketKeeper, app.BandoracleKeeper, app.AssetKeeper) })
			if panicked {
				tr.Line("feed.market", i64(height), "panic", "-", "-")
				tr.Count("feed:market:panic")
			} else {
				write()
				tr.Line("feed.market", i64(height), "ok", c17BandState(app, ctx), c17Books(app, ctx, ids))
			}
			if rng.Chance(50) {
				id := ids[rng.Intn(len(ids))]
				_, err := app.MarketKeeper.CalcAssetPrice(ctx, id, sdk.NewInt(1))
				o := "ok"
				if err != nil {
					o = "err"
				}
				tr.Line("feed.val", u(id), o)
				tr.Count("feed:val:" + o)
			}
		}
	}
}

func cmpInt(a, b int) int {
	if a < b {
		return -1
	}
	if a > b {
		return 1
	}
	return 0
}
