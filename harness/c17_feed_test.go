//go:build verif

package harness

import (
	"fmt"
	"strings"
	"testing"

	"github.com/bandprotocol/bandchain-packet/obi"
	"github.com/bandprotocol/bandchain-packet/packet"
	chain "github.com/comdex-official/comdex/app"
	"github.com/comdex-official/comdex/app/wasm/bindings"
	"github.com/comdex-official/comdex/x/asset"
	assettypes "github.com/comdex-official/comdex/x/asset/types"
	"github.com/comdex-official/comdex/x/bandoracle"
	bandtypes "github.com/comdex-official/comdex/x/bandoracle/types"
	"github.com/comdex-official/comdex/x/market"
	markettypes "github.com/comdex-official/comdex/x/market/types"
	abci "github.com/cometbft/cometbft/abci/types"
	tmproto "github.com/cometbft/cometbft/proto/tendermint/types"
	sdk "github.com/cosmos/cosmos-sdk/types"
	channeltypes "github.com/cosmos/ibc-go/v7/modules/core/04-channel/types"
	porttypes "github.com/cosmos/ibc-go/v7/modules/core/05-port/types"
)

const c17Channel = "channel-7"

func c17BandState(app *chain.App, ctx sdk.Context) string {
	k := app.BandoracleKeeper
	dd := k.GetDiscardData(ctx)
	b := func(x bool) string {
		if x {
			return "true"
		}
		return "false"
	}
	return fmt.Sprintf("chk=%s;tmp=%d;last=%d;dh=%d;db=%s;val=%s", b(k.GetCheckFlag(ctx)), k.GetTempFetchPriceID(ctx), k.GetLastFetchPriceID(ctx),
		dd.BlockHeight, b(dd.DiscardBool), b(k.GetOracleValidationResult(ctx)))
}

// every stored window (listed assets and any other key), as the store iterates them
func c17Books(app *chain.App, ctx sdk.Context) string {
	var out []string
	for _, twa := range app.MarketKeeper.GetAllTwa(ctx) {
		out = append(out, u(twa.AssetID)+"@"+twaState(twa, true))
	}
	return strings.Join(out, "|")
}

type c17Asset struct {
	id       uint64
	name     string
	denom    string
	required bool
	extPair  uint64 // extended pair with this asset as collateral and a fixed-price debt side (0 = none)
}

type c17World struct {
	t      *testing.T
	tr     *Trace
	rng    *Rng
	app    *chain.App
	ctx    sdk.Context
	assets []c17Asset
	nNames int
	debtID uint64
}

func (w *c17World) refreshAssets() {
	old := map[uint64]c17Asset{}
	for _, a := range w.assets {
		old[a.id] = a
	}
	w.assets = w.assets[:0]
	for _, a := range w.app.AssetKeeper.GetAssets(w.ctx) {
		w.assets = append(w.assets, c17Asset{id: a.Id, name: a.Name, denom: a.Denom, required: a.IsOraclePriceRequired, extPair: old[a.Id].extPair})
	}
}

func (w *c17World) assetList() string {
	var out []string
	for _, a := range w.assets {
		out = append(out, fmt.Sprintf("%d:%v", a.id, a.required))
	}
	return strings.Join(out, ",")
}

func (w *c17World) nRequired() int {
	n := 0
	for _, a := range w.assets {
		if a.required {
			n++
		}
	}
	return n
}

// a vault product on (asset → fixed-price debt asset): CalculateCollateralizationRatio then values ONLY the collateral through the oracle
func (w *c17World) addProduct(a *c17Asset) {
	if err := w.app.AssetKeeper.AddPairsRecords(w.ctx, assettypes.Pair{AssetIn: a.id, AssetOut: w.debtID}); err != nil {
		w.t.Fatal(err)
	}
	pairs := w.app.AssetKeeper.GetPairs(w.ctx)
	ep := bindings.MsgAddExtendedPairsVault{AppID: 1, PairID: pairs[len(pairs)-1].Id, StabilityFee: sdk.ZeroDec(), ClosingFee: sdk.ZeroDec(),
		LiquidationPenalty: sdk.ZeroDec(), DrawDownFee: sdk.ZeroDec(), IsVaultActive: true, DebtCeiling: sdk.NewInt(1000000000000), DebtFloor: sdk.NewInt(1),
		MinCr: sdk.MustNewDecFromStr("1.5"), PairName: "P" + a.name, AssetOutOraclePrice: false, AssetOutPrice: 1000000}
	if err := w.app.AssetKeeper.WasmAddExtendedPairsVaultRecords(w.ctx, &ep); err != nil {
		w.t.Fatal(err)
	}
	a.extPair = w.app.AssetKeeper.GetPairsVaultID(w.ctx)
}

// the FetchPriceProposal through its real governance route: ValidateBasic (as gov's submit does), then the module's proposal handler
func (w *c17World) proposal(N uint64, acc int64, script uint64) error {
	p := &bandtypes.FetchPriceProposal{Title: "fetch price", Description: "fetch price", FetchPrice: bandtypes.MsgFetchPriceData{
		Creator: "bandoracle", OracleScriptID: script, SourceChannel: c17Channel, AskCount: 1, MinCount: 1,
		FeeLimit: sdk.NewCoins(sdk.NewCoin("uband", sdk.NewInt(1))), PrepareGas: 1, ExecuteGas: 1, ClientID: bandtypes.FetchPriceClientIDKey,
		TwaBatchSize: N, AcceptedHeightDiff: acc}}
	if err := p.ValidateBasic(); err != nil {
		return err
	}
	cctx, write := w.ctx.CacheContext()
	if err := bandoracle.NewFetchPriceHandler(w.app.BandoracleKeeper)(cctx, p); err != nil {
		return err
	}
	write()
	return nil
}

func outcome(panicked bool, ok bool) string {
	switch {
	case panicked:
		return "panic"
	case ok:
		return "ok"
	}
	return "err"
}

// every kind of consumer of an asset's price, on the real keepers
func (w *c17World) readers(a c17Asset, tag string) {
	ctx, tr := w.ctx, w.tr
	line := func(name string, panicked, ok bool) {
		o := outcome(panicked, ok)
		tr.Line("feed.reader", name, u(a.id), "true", o)
		tr.Count("reader:" + name + ":" + o)
		tr.Count("reader-after:" + tag + ":" + o)
	}
	var err error
	p, _ := try(func() { _, err = w.app.MarketKeeper.CalcAssetPrice(ctx, a.id, sdk.NewInt(1)) })
	line("calc", p, err == nil)
	p, _ = try(func() { _, err = w.app.MarketKeeper.GetLatestPrice(ctx, a.id) })
	line("latest", p, err == nil)
	if a.extPair != 0 {
		p, _ = try(func() { _, err = w.app.VaultKeeper.CalculateCollateralizationRatio(ctx, a.extPair, sdk.NewInt(1), sdk.NewInt(1)) })
		line("vaultRatio", p, err == nil)
	}
	var found bool
	p, _ = try(func() { _, found = w.app.Rewardskeeper.OraclePrice(ctx, a.denom) })
	line("rewardsOracle", p, found)
	p, _ = try(func() { _, err = w.app.LiquidityKeeper.CalcAssetPrice(ctx, a.id, sdk.NewInt(1)) })
	line("liqCalc", p, err == nil)
	p, _ = try(func() { _, found, _ = w.app.LiquidityKeeper.OraclePrice(ctx, a.denom) })
	line("liqOracle", p, found)
	p, _ = try(func() { _, found = w.app.Rewardskeeper.OraclePriceForRewards(ctx, a.id, sdk.NewInt(1)) })
	line("rewardsPrice", p, found)
}

// an id that is no asset: the market readers by id refuse it whatever is stored under it
func (w *c17World) readersUnlisted(id uint64) {
	var err error
	p, _ := try(func() { _, err = w.app.MarketKeeper.CalcAssetPrice(w.ctx, id, sdk.NewInt(1)) })
	w.tr.Line("feed.reader", "calc", u(id), "false", outcome(p, err == nil))
	w.tr.Count("reader:calc-unlisted:" + outcome(p, err == nil))
}

// noise delivers one malformed / foreign packet or proposal through the real handlers; the band state and the stored results must not move
func (w *c17World) noise(ibc porttypes.IBCModule, reqID int64) {
	ctx, app := w.ctx, w.app
	fake := uint64(reqID + 1000)
	calldata := obi.MustEncode(bandtypes.FetchPriceCallData{Symbols: []string{"A"}, Multiplier: 1000000})
	goodReq := packet.NewOracleRequestPacketData(bandtypes.FetchPriceClientIDKey, 12, calldata, 1, 1, sdk.NewCoins(), 1, 1)
	okAck := channeltypes.NewResultAcknowledgement(bandtypes.ModuleCdc.MustMarshalJSON(packet.NewOracleRequestPacketAcknowledgement(fake)))
	mk := func(data []byte) channeltypes.Packet {
		return channeltypes.Packet{SourceChannel: c17Channel, DestinationChannel: c17Channel, Data: data}
	}
	kind := ""
	switch w.rng.Intn(8) {
	case 0:
		kind = "ack:error-acknowledgement"
		e := channeltypes.NewErrorAcknowledgement(fmt.Errorf("oracle script failed"))
		_ = ibc.OnAcknowledgementPacket(ctx, mk(bandtypes.ModuleCdc.MustMarshalJSON(&goodReq)), bandtypes.ModuleCdc.MustMarshalJSON(&e), nil)
	case 1:
		kind = "ack:foreign-client-id"
		rp := packet.NewOracleRequestPacketData("someone_else", 12, calldata, 1, 1, sdk.NewCoins(), 1, 1)
		_ = ibc.OnAcknowledgementPacket(ctx, mk(bandtypes.ModuleCdc.MustMarshalJSON(&rp)), bandtypes.ModuleCdc.MustMarshalJSON(&okAck), nil)
	case 2:
		kind = "ack:undecodable-request"
		_ = ibc.OnAcknowledgementPacket(ctx, mk([]byte("{")), bandtypes.ModuleCdc.MustMarshalJSON(&okAck), nil)
	case 3:
		kind = "ack:undecodable-calldata"
		rp := packet.NewOracleRequestPacketData(bandtypes.FetchPriceClientIDKey, 12, []byte{1}, 1, 1, sdk.NewCoins(), 1, 1)
		_ = ibc.OnAcknowledgementPacket(ctx, mk(bandtypes.ModuleCdc.MustMarshalJSON(&rp)), bandtypes.ModuleCdc.MustMarshalJSON(&okAck), nil)
	case 4:
		kind = "resp:foreign-client-id"
		resp := packet.OracleResponsePacketData{ClientID: "someone_else", RequestID: fake, AnsCount: 1, ResolveStatus: 1,
			Result: obi.MustEncode(bandtypes.FetchPriceResult{Rates: []uint64{1, 2, 3}})}
		ibc.OnRecvPacket(ctx, mk(bandtypes.ModuleCdc.MustMarshalJSON(&resp)), nil)
	case 5:
		kind = "resp:undecodable-result"
		resp := packet.OracleResponsePacketData{ClientID: bandtypes.FetchPriceClientIDKey, RequestID: fake, AnsCount: 1, ResolveStatus: 1, Result: []byte{0, 0, 0, 9, 1}}
		ibc.OnRecvPacket(ctx, mk(bandtypes.ModuleCdc.MustMarshalJSON(&resp)), nil)
	case 6:
		kind = "resp:undecodable-packet"
		ibc.OnRecvPacket(ctx, mk([]byte("{")), nil)
	default:
		kind = "proposal:foreign-content"
		if err := bandoracle.NewFetchPriceHandler(app.BandoracleKeeper)(ctx, &assettypes.AddAssetsProposal{Title: "x", Description: "x"}); err == nil {
			w.t.Fatal("the fetch-price route accepted a foreign proposal")
		}
	}
	_, err := app.BandoracleKeeper.GetFetchPriceResult(ctx, bandtypes.OracleRequestID(fake))
	w.tr.Line("feed.noise", kind, c17BandState(app, ctx), fmt.Sprint(err == nil), c17Books(app, ctx))
	w.tr.Count("noise:" + kind)
}

type c17Plan struct {
	corpus   bool
	nAssets  int
	allReq   bool
	N0       uint64
	acc      int64
	genesis  bool
	reconfAt map[int][3]uint64 // step → (N', acc', script id)
	outageAt map[int]bool      // step → no request is acknowledged before this block
	clean    bool              // no outages, full positive responses
}

// TestC17Feed drives the REAL begin-blockers of x/bandoracle and x/market, the real IBC acknowledgment / response handlers of the band
// module, the real FetchPriceProposal handler (several times per history: the window size grows, shrinks, stays), the real asset
// proposals (an asset added / its oracle flag toggled), the real genesis import of stored windows, and every kind of consumer of a price.
func TestC17Feed(t *testing.T) {
	tr := OpenTrace(t, "c17feed.trace")
	defer tr.Close(t)
	rng := NewRng(seed() + 17)
	seqs := scale(60, 600)
	steps := scale(40, 120)
	// corpus first: the history of seeded change s91 (window 3 → 5 with the ring at phase 2), then shrinking 5 → 2 and re-installing 4 → 4,
	// each at a step where every window is full and active; script id 112 (no asset id) and script id 1 (= an asset id)
	corpus := []c17Plan{
		// (step 4 is an oracle outage of one round: the price is switched off with its last average still stored — the witness of finding D35:
		// three reward-weighting readers hand that average out)
		{corpus: true, nAssets: 1, allReq: true, N0: 3, acc: 60, clean: true, reconfAt: map[int][3]uint64{9: {5, 60, 112}}, outageAt: map[int]bool{4: true}},
		{corpus: true, nAssets: 2, allReq: true, N0: 5, acc: 60, clean: true, reconfAt: map[int][3]uint64{9: {2, 60, 112}}},
		{corpus: true, nAssets: 3, allReq: true, N0: 4, acc: 40, clean: true, reconfAt: map[int][3]uint64{8: {4, 40, 1}, 16: {1, 40, 2}, 22: {6, 100, 112}}},
	}
	for s := 0; s < seqs; s++ {
		var plan c17Plan
		if s < len(corpus) {
			plan = corpus[s]
		} else {
			plan = c17Plan{nAssets: 1 + rng.Intn(6), N0: uint64(1 + rng.Intn(4)), acc: int64([]int{20, 40, 60, 100, 1}[rng.Intn(5)]),
				genesis: rng.Chance(20), reconfAt: map[int][3]uint64{}}
			if rng.Chance(10) {
				plan.N0 = uint64(5 + rng.Intn(8))
			}
		}
		c17FeedSequence(t, tr, rng, plan, steps)
	}
}

func c17FeedSequence(t *testing.T, tr *Trace, rng *Rng, plan c17Plan, steps int) {
	app := chain.Setup(t, false)
	height := int64(1 + rng.Intn(30))
	if plan.corpus {
		height = 10
	}
	w := &c17World{t: t, tr: tr, rng: rng, app: app, ctx: app.BaseApp.NewContext(false, tmproto.Header{Height: height})}
	if err := app.AssetKeeper.AddAppRecords(w.ctx, assettypes.AppData{Name: "feed", ShortName: "feed", MinGovDeposit: sdk.NewInt(0)}); err != nil {
		t.Fatal(err)
	}
	for i := 0; i < plan.nAssets; i++ {
		req := plan.allReq || rng.Chance(70)
		if err := app.AssetKeeper.AddAssetRecords(w.ctx, assettypes.Asset{Name: alphaName(w.nNames), Denom: "ua" + u(uint64(w.nNames)), Decimals: sdk.NewInt(1),
			IsOnChain: true, IsOraclePriceRequired: req}); err != nil {
			t.Fatal(err)
		}
		w.nNames++
	}
	// the fixed-price debt side of the vault products (listed, never oracle-priced)
	if err := app.AssetKeeper.AddAssetRecords(w.ctx, assettypes.Asset{Name: "DEBT", Denom: "udebt", Decimals: sdk.NewInt(1), IsOnChain: true, IsCdpMintable: true}); err != nil {
		t.Fatal(err)
	}
	w.refreshAssets()
	w.debtID = w.assets[len(w.assets)-1].id
	for i := range w.assets {
		if w.assets[i].id != w.debtID {
			w.addProduct(&w.assets[i])
		}
	}
	N, acc := plan.N0, plan.acc
	msg := bandtypes.MsgFetchPriceData{Creator: "x", OracleScriptID: 12, SourceChannel: c17Channel, AskCount: 1, MinCount: 1,
		FeeLimit: sdk.NewCoins(sdk.NewCoin("uband", sdk.NewInt(1))), PrepareGas: 1, ExecuteGas: 1, ClientID: bandtypes.FetchPriceClientIDKey,
		TwaBatchSize: N, AcceptedHeightDiff: acc}
	configured := false
	unlisted := uint64(0)
	switch {
	case plan.genesis:
		// a chain started from a genesis file: stored windows of any shape (also under a key that is no asset), the band side keeps only its check
		// flag; the feed stays unconfigured until a proposal passes
		tr.Line("feed.begin", "0", "0")
		tr.Count("feed:genesis")
	case plan.corpus || rng.Chance(85):
		tr.Line("feed.begin", "0", "0")
	default:
		app.BandoracleKeeper.SetFetchPriceMsg(w.ctx, msg) // parameters known, feed never switched on: lastBlock stays 0
		tr.Line("feed.begin", u(N), i64(acc))
		tr.Count("feed:not-configured")
	}
	for _, a := range w.assets {
		tr.Line("feed.asset", u(a.id), fmt.Sprint(a.required))
	}
	if plan.genesis {
		var recs []markettypes.TimeWeightedAverage
		for _, a := range w.assets {
			if rng.Chance(70) {
				recs = append(recs, c17GenesisWindow(rng, a.id))
			}
		}
		if rng.Chance(50) {
			unlisted = uint64(len(w.assets) + 3 + rng.Intn(5))
			recs = append(recs, c17GenesisWindow(rng, unlisted))
		}
		flag := rng.Chance(50)
		market.InitGenesis(w.ctx, app.MarketKeeper, &markettypes.GenesisState{TimeWeightedAverage: recs})
		bandoracle.InitGenesis(w.ctx, app.BandoracleKeeper, bandtypes.GenesisState{PortId: app.BandoracleKeeper.GetPort(w.ctx), Flag: flag,
			Params: app.BandoracleKeeper.GetParams(w.ctx)})
		tr.Line("feed.genesis", fmt.Sprint(flag), c17Books(app, w.ctx))
	} else if plan.corpus || rng.Chance(85) {
		if err := w.proposal(N, acc, 12); err != nil {
			t.Fatal(err)
		}
		configured = true
		tr.Line("feed.configure", i64(height), u(N), i64(acc), "12", c17BandState(app, w.ctx), c17Books(app, w.ctx))
	}
	// governance events of this history
	reconfLeft, assetLeft := 0, 0
	if !plan.corpus {
		reconfLeft = []int{0, 1, 1, 2, 2, 3}[rng.Intn(6)]
		if plan.genesis {
			reconfLeft++
		}
		assetLeft = []int{0, 0, 1, 2}[rng.Intn(4)]
	}
	ibc := bandoracle.NewIBCModule(app.BandoracleKeeper)
	reqID := int64(0)
	outage := 0
	lastEvent := "start"
	for i := 0; i < steps; i++ {
		// the next block: mostly the next sampling block, sometimes one in between
		if plan.corpus || rng.Chance(80) {
			height = (height/20 + 1) * 20
		} else {
			height += int64(1 + rng.Intn(19))
		}
		w.ctx = w.ctx.WithBlockHeight(height)
		ctx := w.ctx
		nReq := w.nRequired()
		// what happened since the previous block: a request acknowledged (new id), its response, or an outage
		if outage > 0 {
			outage--
			tr.Count("feed:outage-block")
			if outage == 0 {
				lastEvent = "outage"
			}
		} else if plan.outageAt[i] {
			tr.Count("feed:outage-block")
			lastEvent = "outage"
		} else if !plan.clean && rng.Chance(8) {
			outage = 1 + rng.Intn(8)
		} else if plan.clean || rng.Chance(88) {
			reqID++
			ackData := bandtypes.ModuleCdc.MustMarshalJSON(packet.NewOracleRequestPacketAcknowledgement(uint64(reqID)))
			ack := channeltypes.NewResultAcknowledgement(ackData)
			calldata := obi.MustEncode(bandtypes.FetchPriceCallData{Symbols: []string{"A"}, Multiplier: 1000000})
			rp := packet.NewOracleRequestPacketData(bandtypes.FetchPriceClientIDKey, 12, calldata, 1, 1, sdk.NewCoins(), 1, 1)
			pk := channeltypes.Packet{SourceChannel: c17Channel, DestinationChannel: c17Channel, Data: bandtypes.ModuleCdc.MustMarshalJSON(&rp)}
			if err := ibc.OnAcknowledgementPacket(ctx, pk, bandtypes.ModuleCdc.MustMarshalJSON(&ack), nil); err != nil {
				t.Fatal(err)
			}
			if got := app.BandoracleKeeper.GetLastFetchPriceID(ctx); got != reqID {
				t.Fatalf("acknowledgment did not set the last request id: %d != %d", got, reqID)
			}
			tr.Line("feed.ack", i64(reqID))
			if plan.clean || rng.Chance(92) {
				// the oracle's response: a rate list shorter / equal / longer than the list of oracle-priced assets
				n := nReq
				if !plan.clean {
					switch rng.Intn(8) {
					case 0:
						n = rng.Intn(nReq + 1)
					case 1:
						n = nReq + 1 + rng.Intn(3)
					}
				}
				rates := make([]uint64, n)
				for j := range rates {
					switch k := rng.Intn(10); {
					case k == 0 && !plan.clean:
						rates[j] = 0
						lastEvent = "zero"
					case k == 1 && !plan.clean:
						rates[j] = ^uint64(0) - uint64(rng.Intn(3))
					default:
						rates[j] = uint64(1 + rng.Intn(5_000_000))
					}
				}
				res := obi.MustEncode(bandtypes.FetchPriceResult{Rates: rates})
				resp := packet.OracleResponsePacketData{ClientID: bandtypes.FetchPriceClientIDKey, RequestID: uint64(reqID), AnsCount: 1, RequestTime: 1, ResolveTime: 1,
					ResolveStatus: 1, Result: res}
				rpk := channeltypes.Packet{SourceChannel: c17Channel, DestinationChannel: c17Channel, Data: bandtypes.ModuleCdc.MustMarshalJSON(&resp)}
				ibc.OnRecvPacket(ctx, rpk, nil)
				got, err := app.BandoracleKeeper.GetFetchPriceResult(ctx, bandtypes.OracleRequestID(reqID))
				switch {
				case app.BandoracleKeeper.GetFetchPriceMsg(ctx).SourceChannel != c17Channel:
					// no fetch-price message stored yet (chain started from genesis, no proposal so far): the response packet is refused
					if err == nil {
						t.Fatal("a response was stored although no fetch-price message is configured")
					}
					tr.Count("feed:resp-refused-unconfigured")
				case err != nil || len(got.Rates) != len(rates):
					t.Fatalf("response not stored: %v %v", err, got)
				default:
					tr.Line("feed.resp", i64(reqID), joinU(rates))
					tr.Count(fmt.Sprintf("feed:resp:len-vs-required=%d", cmpInt(n, nReq)))
				}
			} else {
				tr.Count("feed:ack-without-response")
			}
		}
		// malformed stream: packets and proposals that must change nothing (no request counts as acknowledged, no result is stored)
		if !plan.corpus && rng.Chance(6) {
			w.noise(ibc, reqID)
		}
		// the block: begin-blockers in the order of the app (bandoracle, then market)
		dbBefore := app.BandoracleKeeper.GetDiscardData(ctx).DiscardBool
		if panicked, _ := try(func() { bandoracle.BeginBlocker(ctx, abci.RequestBeginBlock{}, app.BandoracleKeeper) }); panicked {
			t.Fatal("bandoracle begin-blocker panicked")
		}
		tr.Line("feed.band", i64(height), c17BandState(app, ctx))
		if !dbBefore && app.BandoracleKeeper.GetDiscardData(ctx).DiscardBool {
			lastEvent = "discard"
			tr.Count("feed:discard-ordered")
		}
		cctx, write := ctx.CacheContext()
		panicked, _ := try(func() { market.BeginBlocker(cctx, abci.RequestBeginBlock{}, app.MarketKeeper, app.BandoracleKeeper, app.AssetKeeper) })
		if panicked {
			tr.Line("feed.market", i64(height), "panic", "-", "-")
			tr.Count("feed:market:panic")
			return // the chain halts here
		}
		write()
		tr.Line("feed.market", i64(height), "ok", c17BandState(app, ctx), c17Books(app, ctx))
		for _, twa := range app.MarketKeeper.GetAllTwa(ctx) {
			if twa.IsPriceActive {
				tr.Count("state:active-window")
			} else {
				tr.Count("state:inactive-window")
			}
		}
		// consumers
		if rng.Chance(50) {
			a := w.assets[rng.Intn(len(w.assets))]
			_, err := app.MarketKeeper.CalcAssetPrice(ctx, a.id, sdk.NewInt(1))
			o := "ok"
			if err != nil {
				o = "err"
			}
			tr.Line("feed.val", u(a.id), o)
			tr.Count("feed:val:" + o)
		}
		if plan.corpus {
			for _, a := range w.assets {
				w.readers(a, lastEvent)
			}
		} else if rng.Chance(35) || lastEvent == "reconfigure" || lastEvent == "discard" {
			w.readers(w.assets[rng.Intn(len(w.assets))], lastEvent)
			if rng.Chance(30) {
				id := uint64(len(w.assets) + 1 + rng.Intn(4))
				if unlisted != 0 && rng.Chance(60) {
					id = unlisted
				}
				w.readersUnlisted(id)
			}
		}
		// governance at the end of the block: a fetch-price proposal passes
		planned, isPlanned := plan.reconfAt[i]
		if isPlanned || (reconfLeft > 0 && (rng.Chance(100*reconfLeft/(steps-i)+3) || (plan.genesis && !configured && i >= 3))) {
			var N2 uint64
			acc2 := acc
			script := uint64(12)
			if isPlanned {
				N2, acc2, script = planned[0], int64(planned[1]), planned[2]
			} else {
				reconfLeft--
				switch rng.Intn(3) {
				case 0: // grow
					N2 = N + uint64(1+rng.Intn(4))
				case 1: // shrink
					N2 = 1
					if N > 1 {
						N2 = uint64(1 + rng.Intn(int(N-1)))
					}
				default:
					N2 = N
				}
				if rng.Chance(30) {
					acc2 = int64([]int{20, 40, 60, 100, 1}[rng.Intn(5)])
				}
				switch rng.Intn(4) {
				case 0:
					script = 112 // no asset id
				case 1:
					script = w.assets[rng.Intn(len(w.assets))].id // an asset id
				case 2:
					if unlisted != 0 {
						script = unlisted
					}
				}
				if rng.Chance(8) {
					// a proposal with window size 0 never reaches the handler
					if err := w.proposal(0, acc2, script); err == nil {
						t.Fatal("a proposal with TwaBatchSize 0 passed ValidateBasic")
					}
					tr.Count("reconf:N=0-refused")
				}
			}
			// what the proposal finds
			full, active, partial := 0, 0, 0
			isAsset := false
			for _, twa := range app.MarketKeeper.GetAllTwa(ctx) {
				switch {
				case twa.IsPriceActive:
					active++
				case uint64(len(twa.PriceValue)) >= N && N > 0:
					full++
				default:
					partial++
				}
				tr.Count(fmt.Sprintf("reconf:ring-phase=%d/%d", twa.CurrentIndex, len(twa.PriceValue)))
				if twa.AssetID == script {
					isAsset = true
				}
			}
			if err := w.proposal(N2, acc2, script); err != nil {
				t.Fatal(err)
			}
			tr.Line("feed.configure", i64(height), u(N2), i64(acc2), u(script), c17BandState(app, ctx), c17Books(app, ctx))
			tr.Count(fmt.Sprintf("reconf:N-%s", []string{"shrinks", "same", "grows"}[cmpInt(int(N2), int(N))+1]))
			if !configured {
				tr.Count("reconf:first-proposal-after-genesis")
			}
			tr.Count(fmt.Sprintf("reconf:windows-found active=%v inactive-full=%v partial=%v", active > 0, full > 0, partial > 0))
			tr.Count(fmt.Sprintf("reconf:script-id-is-a-stored-key=%v", isAsset))
			N, acc, configured = N2, acc2, true
			lastEvent = "reconfigure"
			continue
		}
		// governance at the end of the block: an asset is added, or an asset's oracle flag is changed
		if assetLeft > 0 && rng.Chance(100*assetLeft/(steps-i)+2) {
			assetLeft--
			h := asset.NewUpdateAssetProposalHandler(app.AssetKeeper)
			var req bool
			if rng.Chance(50) {
				req = rng.Chance(70)
				p := &assettypes.AddAssetsProposal{Title: "add", Description: "add", Assets: assettypes.Asset{Name: alphaName(w.nNames), Denom: "ua" + u(uint64(w.nNames)),
					Decimals: sdk.NewInt(1), IsOnChain: true, IsOraclePriceRequired: req}}
				w.nNames++
				if err := p.ValidateBasic(); err != nil {
					t.Fatal(err)
				}
				if err := h(ctx, p); err != nil {
					t.Fatal(err)
				}
				tr.Count(fmt.Sprintf("assetchange:add required=%v", req))
			} else {
				cands := w.assets[:0:0]
				for _, a := range w.assets {
					if a.id != w.debtID {
						cands = append(cands, a)
					}
				}
				a := cands[rng.Intn(len(cands))]
				req = !a.required
				if rng.Chance(25) {
					req = a.required
				}
				p := &assettypes.UpdateAssetProposal{Title: "upd", Description: "upd", Asset: assettypes.Asset{Id: a.id, Name: a.name, Denom: a.denom,
					Decimals: sdk.NewInt(1), IsOnChain: true, IsOraclePriceRequired: req}}
				if err := p.ValidateBasic(); err != nil {
					t.Fatal(err)
				}
				if err := h(ctx, p); err != nil {
					t.Fatal(err)
				}
				tr.Count(fmt.Sprintf("assetchange:update required %v->%v", a.required, req))
			}
			w.refreshAssets()
			for j := range w.assets {
				if w.assets[j].extPair == 0 && w.assets[j].id != w.debtID {
					w.addProduct(&w.assets[j])
				}
			}
			tr.Line("feed.assetchange", fmt.Sprint(req), c17BandState(app, ctx), w.assetList())
			lastEvent = "assetchange"
		}
	}
}

// a stored window as a genesis file may list it: mostly what a healthy chain exports (for some window size the importing chain does not
// know), sometimes a shape no run produces
func c17GenesisWindow(rng *Rng, id uint64) markettypes.TimeWeightedAverage {
	n := 1 + rng.Intn(6)
	vals := make([]uint64, n)
	var sum uint64
	for i := range vals {
		vals[i] = uint64(1 + rng.Intn(1000))
		sum += vals[i]
	}
	tw := markettypes.TimeWeightedAverage{AssetID: id, ScriptID: 12, Twa: sum / uint64(n), CurrentIndex: uint64(rng.Intn(n)), IsPriceActive: rng.Chance(70),
		PriceValue: vals, DiscardedHeightDiff: -1}
	switch rng.Intn(6) {
	case 0:
		tw.CurrentIndex = uint64(n + rng.Intn(3)) // cursor past the slice
	case 1:
		tw.PriceValue = nil // active without samples
	case 2:
		tw.DiscardedHeightDiff = int64(1 + rng.Intn(100))
		tw.IsPriceActive = false
	}
	return tw
}

func cmpInt(a, b int) int {
	if a < b {
		return -1
	}
	if a > b {
		return 1
	}
	return 0
}
