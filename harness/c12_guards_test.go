//go:build verif

package harness

// C12 (only the rightful party can act) and C14 (emergency controls fail closed): dynamic matrices on the REAL app.
//
// A world holding one position of every kind is built once (vault, second vault, stable-mint vault, lockers, lend and
// borrow positions, a limit order, market-making orders, a farm position, a limit bid). Every case then delivers ONE real
// message the way baseapp's runMsgs does: ValidateBasic, the handler from app.MsgServiceRouter() on a branch of the
// transaction state that is written back only on success. After the delivery the FULL state (every KV store of the
// multistore, which includes every bank balance and the supply) is dumped and compared with the dump before.
//
// Trace lines (see lean/Comdex/Drv/Guards.lean):
//   grd.msg   handler scn owner names admin brk esm needs off mode base | outcome parentDiffEmpty branchClean victimSame
//             needs = assets whose price record the handler was OBSERVED to read (store tracer), off = assets whose feed is off
//   grd.wasm  variant chain senderKind sender base | outcome(ok|err:guard|err:inner|panic) diffEmpty
//   grd.sweep sweep brk esm base | started appDiffEmpty

import (
	"bytes"
	"errors"
	"io"
	"encoding/base64"
	"math/rand"
	"crypto/sha256"
	"encoding/hex"
	"encoding/json"
	"fmt"
	"sort"
	"strings"
	"testing"
	"time"

	abci "github.com/cometbft/cometbft/abci/types"
	tmproto "github.com/cometbft/cometbft/proto/tendermint/types"
	"github.com/cosmos/cosmos-sdk/crypto/keys/secp256k1"
	"github.com/cosmos/cosmos-sdk/store/rootmulti"
	simtestutil "github.com/cosmos/cosmos-sdk/testutil/sims"
	storetypes "github.com/cosmos/cosmos-sdk/store/types"
	sdk "github.com/cosmos/cosmos-sdk/types"
	sdkerrors "github.com/cosmos/cosmos-sdk/types/errors"

	wasmkeeper "github.com/CosmWasm/wasmd/x/wasm/keeper"
	wasmtypes "github.com/CosmWasm/wasmd/x/wasm/types"
	wasmvmtypes "github.com/CosmWasm/wasmvm/types"

	chain "github.com/comdex-official/comdex/app"
	cwasm "github.com/comdex-official/comdex/app/wasm"
	"github.com/comdex-official/comdex/app/wasm/bindings"
	assettypes "github.com/comdex-official/comdex/x/asset/types"
	"github.com/comdex-official/comdex/x/auction"
	"github.com/comdex-official/comdex/x/auctionsV2"
	auctiontypes "github.com/comdex-official/comdex/x/auction/types"
	auctionsV2types "github.com/comdex-official/comdex/x/auctionsV2/types"
	collectortypes "github.com/comdex-official/comdex/x/collector/types"
	"github.com/comdex-official/comdex/x/esm"
	esmtypes "github.com/comdex-official/comdex/x/esm/types"
	lendtypes "github.com/comdex-official/comdex/x/lend/types"
	"github.com/comdex-official/comdex/x/liquidation"
	liquidationtypes "github.com/comdex-official/comdex/x/liquidation/types"
	"github.com/comdex-official/comdex/x/liquidationsV2"
	liquidationsV2types "github.com/comdex-official/comdex/x/liquidationsV2/types"
	"github.com/comdex-official/comdex/x/liquidity"
	liquiditytypes "github.com/comdex-official/comdex/x/liquidity/types"
	lockertypes "github.com/comdex-official/comdex/x/locker/types"
	markettypes "github.com/comdex-official/comdex/x/market/types"
	rewardstypes "github.com/comdex-official/comdex/x/rewards/types"
	tokenminttypes "github.com/comdex-official/comdex/x/tokenmint/types"
	vaulttypes "github.com/comdex-official/comdex/x/vault/types"
)

var (
	_ = auctiontypes.ModuleName
	_ = collectortypes.ModuleName
	_ = liquidationtypes.ModuleName
	_ = liquidationsV2types.ModuleName
	_ = rewardstypes.ModuleName
	_ = json.Marshal
	_ = hex.EncodeToString
)

// ---------------------------------------------------------------------------------------------
// world

type c12World struct {
	t    *testing.T
	app  *chain.App
	ctx  sdk.Context
	keys []*storetypes.KVStoreKey
	snap map[string]string
	t0   time.Time

	A, B, C, D sdk.AccAddress
	admin      sdk.AccAddress

	appVault, appLend, appLiq uint64
	appGov                    uint64
	a1, a2, a3                uint64 // uasset1 (collateral), uasset2 (debt / cmst-like), uasset3
	c1, c2, c3                uint64 // c-assets of the lend module
	extPair, stablePair       uint64
	stablePair2, lendA3, lendPairA1A3 uint64
	vaultA, vaultD, stableID  uint64
	lockerA, lockerD          uint64
	lendPool                  uint64
	lendPairA1A2              uint64
	lendA, lendD, borrowA     uint64
	a4, c4                    uint64 // asset of the second lend pool and its c-asset
	lendPool2, lendPairX      uint64 // second pool, cross-pool pair a1 -> a4 (bridged through the transit assets a3 / a1)
	borrowAX                  uint64 // A's cross-pool borrow
	fixedPair, vaultF         uint64 // extended pair a1 -> a2 with AssetOutOraclePrice=false (fixed debt price) and A's vault on it
	twaKeys                   map[string]uint64
	needs                     map[string][]string // case key -> observed price read set
	liqPair, liqPool          uint64
	orderA                    uint64
	poolCoinDenom             string
	mmOrderIDs                []uint64
}

// c12Key: deterministic secp256k1 keys, so that the thorough tier can SIGN the same messages and push them through DeliverTx
func c12Key(name string) *secp256k1.PrivKey { return secp256k1.GenPrivKeyFromSecret([]byte("c12-key-" + name)) }

func c12KeyAddr(name string) sdk.AccAddress { return sdk.AccAddress(c12Key(name).PubKey().Address()) }

func c12Addr(i byte) sdk.AccAddress {
	b := make([]byte, 20)
	for j := range b {
		b[j] = i
	}
	return sdk.AccAddress(b)
}

func (w *c12World) must(err error, what string) {
	if err != nil {
		w.t.Fatalf("world: %s: %v", what, err)
	}
}

func (w *c12World) fund(addr sdk.AccAddress, coins ...sdk.Coin) {
	cs := sdk.NewCoins(coins...)
	w.must(w.app.BankKeeper.MintCoins(w.ctx, lendtypes.ModuleName, cs), "mint")
	w.must(w.app.BankKeeper.SendCoinsFromModuleToAccount(w.ctx, lendtypes.ModuleName, addr, cs), "fund")
}

func (w *c12World) asset(name, denom string, price uint64, mintable bool) uint64 {
	w.must(w.app.AssetKeeper.AddAssetRecords(w.ctx, assettypes.Asset{
		Name: name, Denom: denom, Decimals: sdk.NewInt(1000000), IsOnChain: true, IsOraclePriceRequired: true, IsCdpMintable: mintable,
	}), "asset "+name)
	for _, a := range w.app.AssetKeeper.GetAssets(w.ctx) {
		if a.Denom == denom {
			w.app.MarketKeeper.SetTwa(w.ctx, markettypes.TimeWeightedAverage{
				AssetID: a.Id, ScriptID: 12, Twa: price, CurrentIndex: 0, IsPriceActive: true, PriceValue: []uint64{price},
			})
			return a.Id
		}
	}
	w.t.Fatalf("asset %s not found", name)
	return 0
}

func (w *c12World) newApp(name string) uint64 {
	w.must(w.app.AssetKeeper.AddAppRecords(w.ctx, assettypes.AppData{
		Name: name, ShortName: name[:5], MinGovDeposit: sdk.NewInt(0), GovTimeInSeconds: 0, GenesisToken: []assettypes.MintGenesisToken{},
	}), "app "+name)
	apps, _ := w.app.AssetKeeper.GetApps(w.ctx)
	for _, a := range apps {
		if a.Name == name {
			return a.Id
		}
	}
	w.t.Fatalf("app %s not found", name)
	return 0
}

// deliverLive delivers a message on the live world context (setup only).
func (w *c12World) deliverLive(msg sdk.Msg, what string) {
	if err := msg.ValidateBasic(); err != nil {
		w.t.Fatalf("world: %s: ValidateBasic: %v", what, err)
	}
	h := w.app.MsgServiceRouter().Handler(msg)
	if h == nil {
		w.t.Fatalf("world: %s: no handler", what)
	}
	cctx, write := w.ctx.CacheContext()
	if _, err := h(cctx, msg); err != nil {
		w.t.Fatalf("world: %s: %v", what, err)
	}
	write()
}

func c12Dec(s string) sdk.Dec { return sdk.MustNewDecFromStr(s) }

func c12Build(t *testing.T) *c12World {
	w := &c12World{t: t}
	// the designated wasm contracts are comdex1… addresses: use the chain's real bech32 prefix for the duration of the
	// test (not sealed, restored afterwards: other tests of this binary keep the default prefix)
	cfg := sdk.GetConfig()
	if cfg.GetBech32AccountAddrPrefix() != chain.AccountAddressPrefix {
		oldA, oldP := cfg.GetBech32AccountAddrPrefix(), cfg.GetBech32AccountPubPrefix()
		cfg.SetBech32PrefixForAccount(chain.AccountAddressPrefix, chain.AccountPubKeyPrefix)
		sdk.SetAddrCacheEnabled(false) // no comdex1… string may survive in the address cache
		t.Cleanup(func() {
			sdk.GetConfig().SetBech32PrefixForAccount(oldA, oldP)
			sdk.SetAddrCacheEnabled(true)
		})
	}
	w.app = chain.Setup(t, false)
	w.t0 = time.Unix(1700000000, 0).UTC()
	w.ctx = w.app.BaseApp.NewContext(false, tmproto.Header{Height: 10, Time: w.t0, ChainID: "comdex-dev-1"})
	w.A, w.B, w.C, w.D, w.admin = c12KeyAddr("A"), c12KeyAddr("B"), c12KeyAddr("C"), c12KeyAddr("D"), c12KeyAddr("admin")
	if len(c12Stranger) == 20 {
		w.C = sdk.AccAddress(c12Stranger)
	}
	for name, key := range w.app.CommitMultiStore().(*rootmulti.Store).StoreKeysByName() {
		_ = name
		if k, ok := key.(*storetypes.KVStoreKey); ok {
			w.keys = append(w.keys, k)
		}
	}
	sort.Slice(w.keys, func(i, j int) bool { return w.keys[i].Name() < w.keys[j].Name() })

	// apps and assets
	w.appVault = w.newApp("harbor")
	w.appLend = w.newApp(lendtypes.AppName)
	w.appLiq = w.newApp("cswap")
	w.a1 = w.asset("ASSETONE", "uasset1", 1000000, false)
	w.a2 = w.asset("ASSETTWO", "uasset2", 1000000, true)
	w.a3 = w.asset("ASSETTHREE", "uasset3", 1000000, false)
	w.c1 = w.asset("CASSETONE", "ucasset1", 1000000, false)
	w.c2 = w.asset("CASSETTWO", "ucasset2", 1000000, false)
	w.c3 = w.asset("CASSETTHRE", "ucasset3", 1000000, false)
	w.a4 = w.asset("ASSETFOUR", "uasset4", 1000000, false)
	w.c4 = w.asset("CASSETFOUR", "ucasset4", 1000000, false)
	w.twaKeys = map[string]uint64{"a1": w.a1, "a2": w.a2, "a3": w.a3, "a4": w.a4, "c1": w.c1, "c2": w.c2, "c3": w.c3, "c4": w.c4}
	big := sdk.NewInt(1000000000000000)
	for _, a := range []sdk.AccAddress{w.A, w.B, w.D} { // C stays unfunded
		w.fund(a, sdk.NewCoin("uasset1", big), sdk.NewCoin("uasset2", big), sdk.NewCoin("uasset3", big), sdk.NewCoin("uasset4", big))
	}

	w.fund(w.B, sdk.NewCoin("ucasset3", big))
	// --- vault: pair a1 -> a2, stable-mint pair a3 -> a2
	w.must(w.app.AssetKeeper.AddPairsRecords(w.ctx, assettypes.Pair{AssetIn: w.a1, AssetOut: w.a2}), "pair")
	w.must(w.app.AssetKeeper.AddPairsRecords(w.ctx, assettypes.Pair{AssetIn: w.a3, AssetOut: w.a2}), "pair2")
	var pair12, pair32 uint64
	for _, p := range w.app.AssetKeeper.GetPairs(w.ctx) {
		if p.AssetIn == w.a1 && p.AssetOut == w.a2 {
			pair12 = p.Id
		}
		if p.AssetIn == w.a3 && p.AssetOut == w.a2 {
			pair32 = p.Id
		}
	}
	addExt := func(name string, pairID uint64, stable bool) uint64 {
		w.must(w.app.AssetKeeper.WasmAddExtendedPairsVaultRecords(w.ctx, &bindings.MsgAddExtendedPairsVault{
			AppID: w.appVault, PairID: pairID, StabilityFee: sdk.NewDecWithPrec(2, 2), ClosingFee: sdk.NewDec(0),
			LiquidationPenalty: sdk.NewDecWithPrec(15, 2), DrawDownFee: sdk.NewDecWithPrec(1, 2), IsVaultActive: true,
			DebtCeiling: sdk.NewInt(1000000000000000000), DebtFloor: sdk.NewInt(100000000), IsStableMintVault: stable,
			MinCr: sdk.NewDecWithPrec(23, 1), PairName: name, AssetOutOraclePrice: true, AssetOutPrice: 1000000, MinUsdValueLeft: 1000000,
		}), "ext pair "+name)
		eps, _ := w.app.AssetKeeper.GetPairsVaults(w.ctx)
		for _, e := range eps {
			if e.PairName == name && e.AppId == w.appVault {
				return e.Id
			}
		}
		w.t.Fatalf("ext pair %s not found", name)
		return 0
	}
	w.extPair = addExt("AONE-A", pair12, false)
	w.stablePair = addExt("ATHREE-S", pair32, true)
	w.must(w.app.AssetKeeper.AddPairsRecords(w.ctx, assettypes.Pair{AssetIn: w.a1, AssetOut: w.a3}), "pair3")
	var pair13 uint64
	for _, p := range w.app.AssetKeeper.GetPairs(w.ctx) {
		if p.AssetIn == w.a1 && p.AssetOut == w.a3 {
			pair13 = p.Id
		}
	}
	_ = pair13
	w.deliverLive(&vaulttypes.MsgCreateRequest{From: w.A.String(), AppId: w.appVault, ExtendedPairVaultId: w.extPair, AmountIn: sdk.NewInt(3000000000), AmountOut: sdk.NewInt(400000000)}, "vault A")
	w.deliverLive(&vaulttypes.MsgCreateRequest{From: w.D.String(), AppId: w.appVault, ExtendedPairVaultId: w.extPair, AmountIn: sdk.NewInt(3000000000), AmountOut: sdk.NewInt(400000000)}, "vault D")
	// a fixed-price-debt pair: nothing upstream of the auction activators reads the debt asset's feed
	w.must(w.app.AssetKeeper.WasmAddExtendedPairsVaultRecords(w.ctx, &bindings.MsgAddExtendedPairsVault{
		AppID: w.appVault, PairID: pair12, StabilityFee: sdk.NewDecWithPrec(2, 2), ClosingFee: sdk.NewDec(0),
		LiquidationPenalty: sdk.NewDecWithPrec(15, 2), DrawDownFee: sdk.NewDecWithPrec(1, 2), IsVaultActive: true,
		DebtCeiling: sdk.NewInt(1000000000000000000), DebtFloor: sdk.NewInt(100000000), IsStableMintVault: false,
		MinCr: sdk.NewDecWithPrec(23, 1), PairName: "AONE-F", AssetOutOraclePrice: false, AssetOutPrice: 1000000, MinUsdValueLeft: 1000000,
	}), "fixed-price ext pair")
	if eps, ok := w.app.AssetKeeper.GetPairsVaults(w.ctx); ok {
		for _, e := range eps {
			if e.PairName == "AONE-F" {
				w.fixedPair = e.Id
			}
		}
	}
	w.deliverLive(&vaulttypes.MsgCreateRequest{From: w.A.String(), AppId: w.appVault, ExtendedPairVaultId: w.fixedPair, AmountIn: sdk.NewInt(3000000000), AmountOut: sdk.NewInt(400000000)}, "vault F")
	for _, v := range w.app.VaultKeeper.GetVaults(w.ctx) {
		if v.Owner == w.A.String() && v.ExtendedPairVaultID == w.fixedPair {
			w.vaultF = v.Id
			continue
		}
		if v.Owner == w.A.String() {
			w.vaultA = v.Id
		}
		if v.Owner == w.D.String() {
			w.vaultD = v.Id
		}
	}
	w.must(w.app.AssetKeeper.AddPairsRecords(w.ctx, assettypes.Pair{AssetIn: w.c3, AssetOut: w.a2}), "pair4")
	for _, p := range w.app.AssetKeeper.GetPairs(w.ctx) {
		if p.AssetIn == w.c3 && p.AssetOut == w.a2 {
			w.stablePair2 = addExt("CTHREE-S", p.Id, true)
		}
	}
	w.deliverLive(&vaulttypes.MsgCreateStableMintRequest{From: w.A.String(), AppId: w.appVault, ExtendedPairVaultId: w.stablePair, Amount: sdk.NewInt(500000000)}, "stable vault")
	for _, sv := range w.app.VaultKeeper.GetStableMintVaults(w.ctx) {
		w.stableID = sv.Id
	}

	// --- locker: app harbor, asset a2, collector lookup, whitelisting
	w.must(w.app.CollectorKeeper.WasmSetCollectorLookupTable(w.ctx, &bindings.MsgSetCollectorLookupTable{
		AppID: w.appVault, CollectorAssetID: w.a2, SecondaryAssetID: w.a3, SurplusThreshold: sdk.NewInt(10000000), DebtThreshold: sdk.NewInt(5000000),
		LockerSavingRate: c12Dec("0.1"), LotSize: sdk.NewInt(2000000), BidFactor: c12Dec("0.01"), DebtLotSize: sdk.NewInt(2000000),
	}), "collector lookup")
	_, err := w.app.LockerKeeper.AddWhiteListedAsset(w.ctx, &lockertypes.MsgAddWhiteListedAssetRequest{From: w.admin.String(), AppId: w.appVault, AssetId: w.a2})
	w.must(err, "locker whitelist")
	w.deliverLive(&lockertypes.MsgCreateLockerRequest{Depositor: w.A.String(), Amount: sdk.NewInt(50000000), AssetId: w.a2, AppId: w.appVault}, "locker A")
	w.deliverLive(&lockertypes.MsgCreateLockerRequest{Depositor: w.D.String(), Amount: sdk.NewInt(50000000), AssetId: w.a2, AppId: w.appVault}, "locker D")
	for _, l := range w.app.LockerKeeper.GetLockers(w.ctx) {
		if l.Depositor == w.A.String() {
			w.lockerA = l.LockerId
		}
		if l.Depositor == w.D.String() {
			w.lockerD = l.LockerId
		}
	}

	// --- lend: one pool with a1 (transit 3), a2 (main), a3 (transit 2)
	w.must(w.app.LendKeeper.AddPoolRecords(w.ctx, lendtypes.Pool{ModuleName: "cmdx", CPoolName: "AONE-ATWO-ATHREE", AssetData: []*lendtypes.AssetDataPoolMapping{
		{AssetID: w.a1, AssetTransitType: 3, SupplyCap: sdk.NewDec(5000000000000000000)},
		{AssetID: w.a2, AssetTransitType: 1, SupplyCap: sdk.NewDec(1000000000000000000)},
		{AssetID: w.a3, AssetTransitType: 2, SupplyCap: sdk.NewDec(5000000000000000000)},
	}}), "lend pool")
	for _, p := range w.app.LendKeeper.GetPools(w.ctx) {
		w.lendPool = p.PoolID
	}
	rates := func(id, cid uint64, stable bool) {
		w.must(w.app.LendKeeper.AddAssetRatesParams(w.ctx, lendtypes.AssetRatesParams{
			AssetID: id, UOptimal: c12Dec("0.8"), Base: c12Dec("0.002"), Slope1: c12Dec("0.06"), Slope2: c12Dec("0.6"), EnableStableBorrow: stable,
			StableBase: c12Dec("0.04"), StableSlope1: c12Dec("0.04"), StableSlope2: c12Dec("0.06"), Ltv: c12Dec("0.8"), LiquidationThreshold: c12Dec("0.85"),
			LiquidationPenalty: c12Dec("0.025"), LiquidationBonus: c12Dec("0.025"), ReserveFactor: c12Dec("0.1"), CAssetID: cid,
		}), "rates")
	}
	rates(w.a1, w.c1, false)
	rates(w.a2, w.c2, false)
	rates(w.a3, w.c3, true)
	w.must(w.app.LendKeeper.AddLendPairsRecords(w.ctx, lendtypes.Extended_Pair{AssetIn: w.a1, AssetOut: w.a2, IsInterPool: false, AssetOutPoolID: w.lendPool, MinUsdValueLeft: 1000000}), "lend pair")
	w.must(w.app.LendKeeper.AddLendPairsRecords(w.ctx, lendtypes.Extended_Pair{AssetIn: w.a1, AssetOut: w.a3, IsInterPool: false, AssetOutPoolID: w.lendPool, MinUsdValueLeft: 1000000}), "lend pair 2")
	var lp12, lp13 uint64
	for _, p := range w.app.LendKeeper.GetLendPairs(w.ctx) {
		if p.AssetIn == w.a1 && p.AssetOut == w.a2 {
			lp12 = p.Id
		}
		if p.AssetIn == w.a1 && p.AssetOut == w.a3 {
			lp13 = p.Id
		}
	}
	w.lendPairA1A2 = lp12
	w.lendPairA1A3 = lp13
	w.must(w.app.LendKeeper.AddAssetToPair(w.ctx, lendtypes.AssetToPairMapping{AssetID: w.a1, PoolID: w.lendPool, PairID: []uint64{lp12, lp13}}), "asset to pair")
	for _, id := range []uint64{w.a1, w.a2, w.a3} {
		den := map[uint64]string{w.a1: "uasset1", w.a2: "uasset2", w.a3: "uasset3"}[id]
		w.deliverLive(&lendtypes.MsgFundModuleAccounts{PoolId: w.lendPool, AssetId: id, Lender: w.B.String(), Amount: sdk.NewCoin(den, sdk.NewInt(10000000000))}, "fund lend pool")
	}
	w.deliverLive(&lendtypes.MsgLend{Lender: w.A.String(), AssetId: w.a1, Amount: sdk.NewCoin("uasset1", sdk.NewInt(5000000000)), PoolId: w.lendPool, AppId: w.appLend}, "lend A")
	w.deliverLive(&lendtypes.MsgLend{Lender: w.D.String(), AssetId: w.a1, Amount: sdk.NewCoin("uasset1", sdk.NewInt(5000000000)), PoolId: w.lendPool, AppId: w.appLend}, "lend D")
	for _, l := range w.app.LendKeeper.GetAllLend(w.ctx) {
		if l.Owner == w.A.String() {
			w.lendA = l.ID
		}
		if l.Owner == w.D.String() {
			w.lendD = l.ID
		}
	}
	w.deliverLive(&lendtypes.MsgLend{Lender: w.A.String(), AssetId: w.a3, Amount: sdk.NewCoin("uasset3", sdk.NewInt(700000000)), PoolId: w.lendPool, AppId: w.appLend}, "lend A3")
	for _, l := range w.app.LendKeeper.GetAllLend(w.ctx) {
		if l.Owner == w.A.String() && l.AssetID == w.a3 {
			w.lendA3 = l.ID
		}
		if l.Owner == w.A.String() && l.AssetID == w.a1 {
			w.lendA = l.ID
		}
	}
	w.deliverLive(&lendtypes.MsgBorrow{Borrower: w.A.String(), LendId: w.lendA, PairId: lp12, IsStableBorrow: false,
		AmountIn: sdk.NewCoin("ucasset1", sdk.NewInt(2000000000)), AmountOut: sdk.NewCoin("uasset2", sdk.NewInt(500000000))}, "borrow A")
	for _, b := range w.app.LendKeeper.GetAllBorrow(w.ctx) {
		if b.LendingID == w.lendA {
			w.borrowA = b.ID
		}
	}

	// --- lend, second pool (a4 main, a1 / a3 transit) and a cross-pool pair a1 (pool one) -> a4 (pool two)
	w.must(w.app.LendKeeper.AddPoolRecords(w.ctx, lendtypes.Pool{ModuleName: "osmo", CPoolName: "AFOUR-AONE-ATHREE", AssetData: []*lendtypes.AssetDataPoolMapping{
		{AssetID: w.a4, AssetTransitType: 1, SupplyCap: sdk.NewDec(3000000000000000000)},
		{AssetID: w.a1, AssetTransitType: 3, SupplyCap: sdk.NewDec(5000000000000000000)},
		{AssetID: w.a3, AssetTransitType: 2, SupplyCap: sdk.NewDec(5000000000000000000)},
	}}), "lend pool 2")
	for _, p := range w.app.LendKeeper.GetPools(w.ctx) {
		if p.PoolID != w.lendPool {
			w.lendPool2 = p.PoolID
		}
	}
	rates(w.a4, w.c4, false)
	w.must(w.app.LendKeeper.AddLendPairsRecords(w.ctx, lendtypes.Extended_Pair{AssetIn: w.a1, AssetOut: w.a4, IsInterPool: true, AssetOutPoolID: w.lendPool2, MinUsdValueLeft: 1000000}), "cross-pool pair")
	for _, p := range w.app.LendKeeper.GetLendPairs(w.ctx) {
		if p.AssetIn == w.a1 && p.AssetOut == w.a4 {
			w.lendPairX = p.Id
		}
	}
	w.must(w.app.LendKeeper.AddAssetToPair(w.ctx, lendtypes.AssetToPairMapping{AssetID: w.a1, PoolID: w.lendPool, PairID: []uint64{w.lendPairA1A2, w.lendPairA1A3, w.lendPairX}}), "asset to pair (cross-pool)")
	for _, f := range [][2]interface{}{{w.a4, "uasset4"}, {w.a1, "uasset1"}, {w.a3, "uasset3"}} {
		w.deliverLive(&lendtypes.MsgFundModuleAccounts{PoolId: w.lendPool2, AssetId: f[0].(uint64), Lender: w.B.String(), Amount: sdk.NewCoin(f[1].(string), sdk.NewInt(10000000000))}, "fund lend pool 2")
	}
	w.deliverLive(&lendtypes.MsgBorrow{Borrower: w.A.String(), LendId: w.lendA, PairId: w.lendPairX, IsStableBorrow: false,
		AmountIn: sdk.NewCoin("ucasset1", sdk.NewInt(500000000)), AmountOut: sdk.NewCoin("uasset4", sdk.NewInt(100000000))}, "cross-pool borrow A")
	for _, b := range w.app.LendKeeper.GetAllBorrow(w.ctx) {
		if b.LendingID == w.lendA && b.PairID == w.lendPairX {
			w.borrowAX = b.ID
		}
	}
	if w.borrowAX == 0 {
		t.Fatalf("world: cross-pool borrow of A missing")
	}

	// --- liquidity: pair a1/a2, pool, a resting limit order, MM orders, farm position of A
	params, err := w.app.LiquidityKeeper.GetGenericParams(w.ctx, w.appLiq)
	w.must(err, "liquidity params")
	w.fund(w.B, params.PairCreationFee...)
	w.fund(w.B, params.PoolCreationFee...)
	pair, err := w.app.LiquidityKeeper.CreatePair(w.ctx, liquiditytypes.NewMsgCreatePair(w.appLiq, w.B, "uasset1", "uasset2"), false)
	w.must(err, "liquidity pair")
	w.liqPair = pair.Id
	pool, err := w.app.LiquidityKeeper.CreatePool(w.ctx, liquiditytypes.NewMsgCreatePool(w.appLiq, w.B, pair.Id, sdk.NewCoins(sdk.NewCoin("uasset1", sdk.NewInt(1000000000)), sdk.NewCoin("uasset2", sdk.NewInt(1000000000)))))
	w.must(err, "liquidity pool")
	w.liqPool = pool.Id
	w.poolCoinDenom = pool.PoolCoinDenom
	w.liqNextBlock()
	// A: deposit -> pool coins -> farm
	w.deliverLive(liquiditytypes.NewMsgDeposit(w.appLiq, w.A, pool.Id, sdk.NewCoins(sdk.NewCoin("uasset1", sdk.NewInt(100000000)), sdk.NewCoin("uasset2", sdk.NewInt(100000000)))), "liq deposit A")
	w.liqNextBlock()
	pc := w.app.BankKeeper.GetBalance(w.ctx, w.A, pool.PoolCoinDenom)
	if !pc.Amount.IsPositive() {
		t.Fatalf("world: A got no pool coin")
	}
	half := pc.Amount.QuoRaw(2)
	w.deliverLive(liquiditytypes.NewMsgFarm(w.appLiq, pool.Id, w.A, sdk.NewCoin(pool.PoolCoinDenom, half)), "farm A")
	// A: limit sell far above the pool price (rests), long lifespan
	price := c12Dec("1.05")
	amt := sdk.NewInt(1000000)
	offer := sdk.NewCoin("uasset1", amt)
	offer = offer.Add(sdk.NewCoin("uasset1", sdk.NewDecFromInt(offer.Amount).Mul(params.SwapFeeRate).RoundInt()))
	w.deliverLive(liquiditytypes.NewMsgLimitOrder(w.appLiq, w.A, pair.Id, liquiditytypes.OrderDirectionSell, offer, "uasset2", price, amt, 10*time.Hour), "limit order A")
	// A: market-making orders
	w.deliverLive(liquiditytypes.NewMsgMMOrder(w.appLiq, w.A, pair.Id, c12Dec("1.09"), c12Dec("1.06"), sdk.NewInt(1000000), c12Dec("0.95"), c12Dec("0.92"), sdk.NewInt(1000000), 10*time.Hour), "mm order A")
	w.liqNextBlock()
	for _, o := range w.app.LiquidityKeeper.GetOrdersByOrderer(w.ctx, w.appLiq, w.A) {
		if o.Type == liquiditytypes.OrderTypeLimit {
			w.orderA = o.Id
		}
	}
	if idx, found := w.app.LiquidityKeeper.GetMMOrderIndex(w.ctx, w.A, w.appLiq, pair.Id); found {
		w.mmOrderIDs = idx.OrderIds
	}
	if w.orderA == 0 || len(w.mmOrderIDs) == 0 {
		t.Fatalf("world: orders of A missing (order %d, mm %v)", w.orderA, w.mmOrderIDs)
	}

	// --- auctionsV2: auction params + a limit bid of A and of D (collateral a1, debt a2, premium 5)
	w.app.NewaucKeeper.SetAuctionParams(w.ctx, auctionsV2types.AuctionParams{
		AuctionDurationSeconds: 3600, Step: c12Dec("0.1"), WithdrawalFee: c12Dec("0.0"), ClosingFee: c12Dec("0.0"), MinUsdValueLeft: 100000,
		BidFactor: c12Dec("0.1"), LiquidationPenalty: c12Dec("0.1"), AuctionBonus: c12Dec("0.0"),
	})
	w.deliverLive(&auctionsV2types.MsgDepositLimitBidRequest{CollateralTokenId: w.a1, DebtTokenId: w.a2, PremiumDiscount: sdk.NewInt(5), Bidder: w.A.String(), Amount: sdk.NewCoin("uasset2", sdk.NewInt(7000000))}, "limit bid A")
	w.deliverLive(&auctionsV2types.MsgDepositLimitBidRequest{CollateralTokenId: w.a1, DebtTokenId: w.a2, PremiumDiscount: sdk.NewInt(5), Bidder: w.D.String(), Amount: sdk.NewCoin("uasset2", sdk.NewInt(9000000))}, "limit bid D")

	// --- an app with a governance token (tokenmint): for the custom wasm mint / burn / emission messages
	gov := w.asset("GOVTOKEN", "ugov", 1000000, false)
	w.must(w.app.AssetKeeper.AddAppRecords(w.ctx, assettypes.AppData{
		Name: "govapp", ShortName: "govap", MinGovDeposit: sdk.NewInt(0), GovTimeInSeconds: 0,
		GenesisToken: []assettypes.MintGenesisToken{{AssetId: gov, GenesisSupply: sdk.NewInt(9000000000), IsGovToken: true, Recipient: w.B.String()}},
	}), "gov app")
	apps, _ := w.app.AssetKeeper.GetApps(w.ctx)
	for _, a := range apps {
		if a.Name == "govapp" {
			w.appGov = a.Id
		}
	}
	w.deliverLive(&tokenminttypes.MsgMintNewTokensRequest{From: w.B.String(), AppId: w.appGov, AssetId: gov}, "mint gov tokens")

	// --- esm admin
	w.app.EsmKeeper.SetParams(w.ctx, esmtypes.Params{Admin: []string{w.admin.String()}})

	w.snap = w.dump(w.ctx)
	return w
}

func (w *c12World) liqNextBlock() {
	liquidity.EndBlocker(w.ctx, w.app.LiquidityKeeper, w.app.AssetKeeper)
	w.ctx = w.ctx.WithBlockHeight(w.ctx.BlockHeight() + 1).WithBlockTime(w.ctx.BlockTime().Add(6 * time.Second))
	liquidity.BeginBlocker(w.ctx, w.app.LiquidityKeeper, w.app.AssetKeeper)
}

// dump: every key of every KV store -> short hash of the value
func (w *c12World) dump(ctx sdk.Context) map[string]string {
	out := map[string]string{}
	for _, k := range w.keys {
		st := ctx.KVStore(k)
		it := st.Iterator(nil, nil)
		for ; it.Valid(); it.Next() {
			h := sha256.Sum256(it.Value())
			out[k.Name()+"/"+string(it.Key())] = string(h[:12])
		}
		it.Close()
	}
	return out
}

// diffKeys lists the store/key entries that differ (sorted, store names only summarised)
func diffStores(a, b map[string]string) []string {
	set := map[string]bool{}
	for k, v := range a {
		if b[k] != v {
			set[strings.SplitN(k, "/", 2)[0]] = true
		}
	}
	for k := range b {
		if _, ok := a[k]; !ok {
			set[strings.SplitN(k, "/", 2)[0]] = true
		}
	}
	var out []string
	for s := range set {
		out = append(out, s)
	}
	sort.Strings(out)
	return out
}

// victimProj: A's balances and A's position records
func (w *c12World) victimProj(ctx sdk.Context) string {
	var b bytes.Buffer
	fmt.Fprintf(&b, "bal=%s;", w.app.BankKeeper.GetAllBalances(ctx, w.A).String())
	if v, ok := w.app.VaultKeeper.GetVault(ctx, w.vaultA); ok {
		fmt.Fprintf(&b, "vault=%s/%s/%s;", v.AmountIn, v.AmountOut, v.Owner)
	}
	if l, ok := w.app.LockerKeeper.GetLocker(ctx, w.lockerA); ok {
		fmt.Fprintf(&b, "locker=%s/%s;", l.NetBalance, l.Depositor)
	}
	if l, ok := w.app.LendKeeper.GetLend(ctx, w.lendA); ok {
		fmt.Fprintf(&b, "lend=%s/%s/%s;", l.AmountIn, l.AvailableToBorrow, l.Owner)
	}
	if x, ok := w.app.LendKeeper.GetBorrow(ctx, w.borrowA); ok {
		fmt.Fprintf(&b, "borrow=%s/%s;", x.AmountIn, x.AmountOut)
	}
	for _, o := range w.app.LiquidityKeeper.GetOrdersByOrderer(ctx, w.appLiq, w.A) {
		fmt.Fprintf(&b, "order%d=%s/%s/%d;", o.Id, o.OpenAmount, o.RemainingOfferCoin, o.Status)
	}
	if f, ok := w.app.LiquidityKeeper.GetActiveFarmer(ctx, w.appLiq, w.liqPool, w.A); ok {
		fmt.Fprintf(&b, "afarm=%s;", f.FarmedPoolCoin)
	}
	if f, ok := w.app.LiquidityKeeper.GetQueuedFarmer(ctx, w.appLiq, w.liqPool, w.A); ok {
		for _, q := range f.QueudCoins {
			fmt.Fprintf(&b, "qfarm=%s;", q.FarmedPoolCoin)
		}
	}
	if lb, ok := w.app.NewaucKeeper.GetUserLimitBidData(ctx, w.a2, w.a1, sdk.NewInt(5), w.A.String()); ok {
		fmt.Fprintf(&b, "bid=%s;", lb.DebtToken)
	}
	return b.String()
}

// ---------------------------------------------------------------------------------------------
// delivery

type c12Result struct {
	outcome     string
	parentEmpty bool
	branchClean bool
	victimSame  bool
	changed     []string
	errText     string
}

// deliver re-enacts baseapp.runMsgs for one message on a branch of `from`: ValidateBasic, router handler on a cached
// context, write back only on success. `from` is itself a branch of the world (never the world's live context).
func (w *c12World) deliver(from sdk.Context, before map[string]string, victimBefore string, msg sdk.Msg) c12Result {
	res := c12Result{}
	tx, _ := from.CacheContext() // the transaction state (runTx's cache)
	var err error
	var msgCtx sdk.Context
	panicked, pmsg := try(func() {
		if err = msg.ValidateBasic(); err != nil {
			return
		}
		h := w.app.MsgServiceRouter().Handler(msg)
		if h == nil {
			err = fmt.Errorf("no handler")
			return
		}
		var write func()
		msgCtx, write = tx.CacheContext()
		_, err = h(msgCtx, msg)
		if err == nil {
			write()
		}
	})
	switch {
	case panicked:
		res.outcome = "panic"
		res.errText = pmsg
	case err != nil:
		res.outcome = "err"
		res.errText = err.Error()
	default:
		res.outcome = "ok"
	}
	after := w.dump(tx)
	res.changed = diffStores(before, after)
	res.parentEmpty = len(res.changed) == 0
	res.branchClean = true
	if res.outcome != "ok" && msgCtx.MultiStore() != nil {
		res.branchClean = len(diffStores(before, w.dump(msgCtx))) == 0
	}
	res.victimSame = w.victimProj(tx) == victimBefore
	return res
}

func c12b01(b bool) string {
	if b {
		return "1"
	}
	return "0"
}

var _ = sdkerrors.ErrInvalidAddress
var _ = wasmkeeper.Messenger(nil)
var _ = wasmvmtypes.CosmosMsg{}
var _ = cwasm.CustomMessageDecorator
var _ = abci.RequestBeginBlock{}
var _ = auction.BeginBlocker
var _ = esm.BeginBlocker
var _ = liquidation.BeginBlocker
var _ = liquidationsV2.BeginBlocker


// ---------------------------------------------------------------------------------------------
// message catalogue

type c12Case struct {
	handler string
	owner   string // "A": A's own position is named / used; "B": a fresh actor opens something
	names   bool   // the message carries the id of the actor's position (a non-owner could name it)
	keyed   bool   // the position is looked up through the signer
	app     string // "vault" | "lend" | "liq": the app whose controls apply
	needs   string // (documentation only) the prices the operation is expected to read; the trace carries the OBSERVED read set
	mk      func(w *c12World, s sdk.AccAddress) sdk.Msg
	prep    func(w *c12World, ctx sdk.Context) // extra staging (liquidation messages: unhealthy positions)
	tag     string                            // distinguishes several shapes of one handler
}

// c12K: seeded factor (1..3) applied to the small operation amounts (1000000 units) of the catalogue
var c12K int64 = 1

func coin(d string, a int64) sdk.Coin {
	if a == 1000000 {
		a *= c12K
	}
	return sdk.NewCoin(d, sdk.NewInt(a))
}

func c12Catalogue() []c12Case {
	i := func(x int64) sdk.Int {
		if x == 1000000 {
			x *= c12K
		}
		return sdk.NewInt(x)
	}
	return []c12Case{
		// vault
		{"vault.MsgCreate", "B", false, false, "vault", "a1a2", func(w *c12World, s sdk.AccAddress) sdk.Msg {
			return &vaulttypes.MsgCreateRequest{From: s.String(), AppId: w.appVault, ExtendedPairVaultId: w.extPair, AmountIn: i(3000000000), AmountOut: i(400000000)}
		}, nil, ""},
		{"vault.MsgDeposit", "A", true, false, "vault", "", func(w *c12World, s sdk.AccAddress) sdk.Msg {
			return &vaulttypes.MsgDepositRequest{From: s.String(), AppId: w.appVault, ExtendedPairVaultId: w.extPair, UserVaultId: w.vaultA, Amount: i(1000000)}
		}, nil, ""},
		{"vault.MsgWithdraw", "A", true, false, "vault", "a1a2", func(w *c12World, s sdk.AccAddress) sdk.Msg {
			return &vaulttypes.MsgWithdrawRequest{From: s.String(), AppId: w.appVault, ExtendedPairVaultId: w.extPair, UserVaultId: w.vaultA, Amount: i(1000000)}
		}, nil, ""},
		{"vault.MsgDraw", "A", true, false, "vault", "a1a2", func(w *c12World, s sdk.AccAddress) sdk.Msg {
			return &vaulttypes.MsgDrawRequest{From: s.String(), AppId: w.appVault, ExtendedPairVaultId: w.extPair, UserVaultId: w.vaultA, Amount: i(1000000)}
		}, nil, ""},
		{"vault.MsgRepay", "A", true, false, "vault", "", func(w *c12World, s sdk.AccAddress) sdk.Msg {
			return &vaulttypes.MsgRepayRequest{From: s.String(), AppId: w.appVault, ExtendedPairVaultId: w.extPair, UserVaultId: w.vaultA, Amount: i(1000000)}
		}, nil, ""},
		{"vault.MsgClose", "A", true, false, "vault", "", func(w *c12World, s sdk.AccAddress) sdk.Msg {
			return &vaulttypes.MsgCloseRequest{From: s.String(), AppId: w.appVault, ExtendedPairVaultId: w.extPair, UserVaultId: w.vaultA}
		}, nil, ""},
		{"vault.MsgDepositAndDraw", "A", true, false, "vault", "a1a2", func(w *c12World, s sdk.AccAddress) sdk.Msg {
			return &vaulttypes.MsgDepositAndDrawRequest{From: s.String(), AppId: w.appVault, ExtendedPairVaultId: w.extPair, UserVaultId: w.vaultA, Amount: i(100000000)}
		}, nil, ""},
		{"vault.MsgCreateStableMint", "B", false, false, "vault", "", func(w *c12World, s sdk.AccAddress) sdk.Msg {
			return &vaulttypes.MsgCreateStableMintRequest{From: s.String(), AppId: w.appVault, ExtendedPairVaultId: w.stablePair2, Amount: i(500000000)}
		}, nil, ""},
		{"vault.MsgDepositStableMint", "B", false, false, "vault", "", func(w *c12World, s sdk.AccAddress) sdk.Msg {
			return &vaulttypes.MsgDepositStableMintRequest{From: s.String(), AppId: w.appVault, ExtendedPairVaultId: w.stablePair, Amount: i(200000000), StableVaultId: w.stableID}
		}, nil, ""},
		{"vault.MsgWithdrawStableMint", "B", false, false, "vault", "", func(w *c12World, s sdk.AccAddress) sdk.Msg {
			return &vaulttypes.MsgWithdrawStableMintRequest{From: s.String(), AppId: w.appVault, ExtendedPairVaultId: w.stablePair, Amount: i(150000000), StableVaultId: w.stableID}
		}, nil, ""},
		{"vault.MsgVaultInterestCalc", "B", false, false, "vault", "", func(w *c12World, s sdk.AccAddress) sdk.Msg {
			return &vaulttypes.MsgVaultInterestCalcRequest{From: s.String(), AppId: w.appVault, UserVaultId: w.vaultA}
		}, nil, ""},
		// locker
		{"locker.MsgCreateLocker", "B", false, false, "vault", "", func(w *c12World, s sdk.AccAddress) sdk.Msg {
			return &lockertypes.MsgCreateLockerRequest{Depositor: s.String(), Amount: i(50000000), AssetId: w.a2, AppId: w.appVault}
		}, nil, ""},
		{"locker.MsgDepositAsset", "A", true, false, "vault", "", func(w *c12World, s sdk.AccAddress) sdk.Msg {
			return &lockertypes.MsgDepositAssetRequest{Depositor: s.String(), LockerId: w.lockerA, Amount: i(1000000), AssetId: w.a2, AppId: w.appVault}
		}, nil, ""},
		{"locker.MsgWithdrawAsset", "A", true, false, "vault", "", func(w *c12World, s sdk.AccAddress) sdk.Msg {
			return &lockertypes.MsgWithdrawAssetRequest{Depositor: s.String(), LockerId: w.lockerA, Amount: i(1000000), AssetId: w.a2, AppId: w.appVault}
		}, nil, ""},
		{"locker.MsgCloseLocker", "A", true, false, "vault", "", func(w *c12World, s sdk.AccAddress) sdk.Msg {
			return &lockertypes.MsgCloseLockerRequest{Depositor: s.String(), AppId: w.appVault, AssetId: w.a2, LockerId: w.lockerA}
		}, nil, ""},
		{"locker.MsgLockerRewardCalc", "B", false, false, "vault", "", func(w *c12World, s sdk.AccAddress) sdk.Msg {
			return &lockertypes.MsgLockerRewardCalcRequest{From: s.String(), AppId: w.appVault, LockerId: w.lockerA}
		}, nil, ""},
		// lend
		{"lend.Lend", "B", false, false, "lend", "a1", func(w *c12World, s sdk.AccAddress) sdk.Msg {
			return &lendtypes.MsgLend{Lender: s.String(), AssetId: w.a1, Amount: coin("uasset1", 5000000000), PoolId: w.lendPool, AppId: w.appLend}
		}, nil, ""},
		{"lend.Withdraw", "A", true, false, "lend", "", func(w *c12World, s sdk.AccAddress) sdk.Msg {
			return &lendtypes.MsgWithdraw{Lender: s.String(), LendId: w.lendA, Amount: coin("uasset1", 1000000)}
		}, nil, ""},
		{"lend.Deposit", "A", true, false, "lend", "a1", func(w *c12World, s sdk.AccAddress) sdk.Msg {
			return &lendtypes.MsgDeposit{Lender: s.String(), LendId: w.lendA, Amount: coin("uasset1", 1000000)}
		}, nil, ""},
		{"lend.CloseLend", "A", true, false, "lend", "", func(w *c12World, s sdk.AccAddress) sdk.Msg {
			return &lendtypes.MsgCloseLend{Lender: s.String(), LendId: w.lendA3}
		}, nil, ""},
		{"lend.Borrow", "A", true, false, "lend", "a1a3", func(w *c12World, s sdk.AccAddress) sdk.Msg {
			return &lendtypes.MsgBorrow{Borrower: s.String(), LendId: w.lendA, PairId: w.lendPairA1A3, IsStableBorrow: false, AmountIn: coin("ucasset1", 1000000000), AmountOut: coin("uasset3", 200000000)}
		}, nil, ""},
		{"lend.Repay", "A", true, false, "lend", "", func(w *c12World, s sdk.AccAddress) sdk.Msg {
			return &lendtypes.MsgRepay{Borrower: s.String(), BorrowId: w.borrowA, Amount: coin("uasset2", 1000000)}
		}, nil, ""},
		{"lend.DepositBorrow", "A", true, false, "lend", "", func(w *c12World, s sdk.AccAddress) sdk.Msg {
			return &lendtypes.MsgDepositBorrow{Borrower: s.String(), BorrowId: w.borrowA, Amount: coin("ucasset1", 1000000)}
		}, nil, ""},
		{"lend.Draw", "A", true, false, "lend", "a1a2", func(w *c12World, s sdk.AccAddress) sdk.Msg {
			return &lendtypes.MsgDraw{Borrower: s.String(), BorrowId: w.borrowA, Amount: coin("uasset2", 1000000)}
		}, nil, ""},
		{"lend.CloseBorrow", "A", true, false, "lend", "", func(w *c12World, s sdk.AccAddress) sdk.Msg {
			return &lendtypes.MsgCloseBorrow{Borrower: s.String(), BorrowId: w.borrowA}
		}, nil, ""},
		{"lend.BorrowAlternate", "B", false, false, "lend", "a1a2", func(w *c12World, s sdk.AccAddress) sdk.Msg {
			return &lendtypes.MsgBorrowAlternate{Lender: s.String(), AssetId: w.a1, PoolId: w.lendPool, AmountIn: coin("uasset1", 1000000000), PairId: w.lendPairA1A2, IsStableBorrow: false, AmountOut: coin("uasset2", 200000000), AppId: w.appLend}
		}, nil, ""},
		{"lend.RepayWithdraw", "A", true, false, "lend", "", func(w *c12World, s sdk.AccAddress) sdk.Msg {
			return &lendtypes.MsgRepayWithdraw{Borrower: s.String(), BorrowId: w.borrowA}
		}, nil, ""},
		{"lend.FundModuleAccounts", "B", false, false, "lend", "", func(w *c12World, s sdk.AccAddress) sdk.Msg {
			return &lendtypes.MsgFundModuleAccounts{PoolId: w.lendPool, AssetId: w.a1, Lender: s.String(), Amount: coin("uasset1", 1000000)}
		}, nil, ""},
		{"lend.FundReserveAccounts", "B", false, false, "lend", "", func(w *c12World, s sdk.AccAddress) sdk.Msg {
			return &lendtypes.MsgFundReserveAccounts{AssetId: w.a1, Lender: s.String(), Amount: coin("uasset1", 1000000)}
		}, nil, ""},
		{"lend.CalculateInterestAndRewards", "A", false, true, "lend", "", func(w *c12World, s sdk.AccAddress) sdk.Msg {
			return &lendtypes.MsgCalculateInterestAndRewards{Borrower: s.String()}
		}, nil, ""},
		// liquidity
		{"liquidity.CancelOrder", "A", true, false, "liq", "", func(w *c12World, s sdk.AccAddress) sdk.Msg {
			return liquiditytypes.NewMsgCancelOrder(w.appLiq, s, w.liqPair, w.orderA)
		}, nil, ""},
		{"liquidity.CancelOrder", "A", true, false, "liq", "", func(w *c12World, s sdk.AccAddress) sdk.Msg {
			return liquiditytypes.NewMsgCancelOrder(w.appLiq, s, w.liqPair, w.mmOrderIDs[0])
		}, nil, ""},
		{"liquidity.CancelAllOrders", "A", false, true, "liq", "", func(w *c12World, s sdk.AccAddress) sdk.Msg {
			return liquiditytypes.NewMsgCancelAllOrders(w.appLiq, s, []uint64{w.liqPair})
		}, nil, ""},
		{"liquidity.CancelMMOrder", "A", false, true, "liq", "", func(w *c12World, s sdk.AccAddress) sdk.Msg {
			return liquiditytypes.NewMsgCancelMMOrder(w.appLiq, s, w.liqPair)
		}, nil, ""},
		{"liquidity.MMOrder", "A", false, true, "liq", "", func(w *c12World, s sdk.AccAddress) sdk.Msg {
			return liquiditytypes.NewMsgMMOrder(w.appLiq, s, w.liqPair, c12Dec("1.09"), c12Dec("1.06"), i(2000000), c12Dec("0.95"), c12Dec("0.92"), i(2000000), 10*time.Hour)
		}, nil, ""},
		{"liquidity.Unfarm", "A", false, true, "liq", "", func(w *c12World, s sdk.AccAddress) sdk.Msg {
			return liquiditytypes.NewMsgUnfarm(w.appLiq, w.liqPool, s, sdk.NewCoin(w.poolCoinDenom, i(1000000)))
		}, nil, ""},
		{"liquidity.UnfarmAndWithdraw", "A", false, true, "liq", "", func(w *c12World, s sdk.AccAddress) sdk.Msg {
			return liquiditytypes.NewMsgUnfarmAndWithdraw(w.appLiq, w.liqPool, s, sdk.NewCoin(w.poolCoinDenom, i(1000000)))
		}, nil, ""},
		{"liquidity.Farm", "A", false, true, "liq", "", func(w *c12World, s sdk.AccAddress) sdk.Msg {
			return liquiditytypes.NewMsgFarm(w.appLiq, w.liqPool, s, sdk.NewCoin(w.poolCoinDenom, i(1000000)))
		}, nil, ""},
		// auctionsV2 limit bids (keyed by the bidder)
		{"auctionsV2.MsgDepositLimitBid", "A", false, true, "liq", "", func(w *c12World, s sdk.AccAddress) sdk.Msg {
			return &auctionsV2types.MsgDepositLimitBidRequest{CollateralTokenId: w.a1, DebtTokenId: w.a2, PremiumDiscount: i(5), Bidder: s.String(), Amount: coin("uasset2", 1000000)}
		}, nil, ""},
		{"auctionsV2.MsgWithdrawLimitBid", "A", false, true, "liq", "", func(w *c12World, s sdk.AccAddress) sdk.Msg {
			return &auctionsV2types.MsgWithdrawLimitBidRequest{CollateralTokenId: w.a1, DebtTokenId: w.a2, PremiumDiscount: i(5), Bidder: s.String(), Amount: coin("uasset2", 1000000)}
		}, nil, ""},
		{"auctionsV2.MsgCancelLimitBid", "A", false, true, "liq", "", func(w *c12World, s sdk.AccAddress) sdk.Msg {
			return &auctionsV2types.MsgCancelLimitBidRequest{CollateralTokenId: w.a1, DebtTokenId: w.a2, PremiumDiscount: i(5), Bidder: s.String()}
		}, nil, ""},
		// lend, cross-pool pair (prices of the collateral, the debt asset and both transit assets)
		{"lend.Borrow", "D", false, false, "lend", "a1a3a4", func(w *c12World, s sdk.AccAddress) sdk.Msg {
			return &lendtypes.MsgBorrow{Borrower: s.String(), LendId: w.lendD, PairId: w.lendPairX, IsStableBorrow: false, AmountIn: coin("ucasset1", 500000000), AmountOut: coin("uasset4", 100000000)}
		}, nil, "xpool"},
		{"lend.DepositBorrow", "A", true, false, "lend", "a1a3", func(w *c12World, s sdk.AccAddress) sdk.Msg {
			return &lendtypes.MsgDepositBorrow{Borrower: s.String(), BorrowId: w.borrowAX, Amount: coin("ucasset1", 1000000)}
		}, nil, "xpool"},
		{"lend.Draw", "A", true, false, "lend", "a1a4", func(w *c12World, s sdk.AccAddress) sdk.Msg {
			return &lendtypes.MsgDraw{Borrower: s.String(), BorrowId: w.borrowAX, Amount: coin("uasset4", 1000000)}
		}, nil, "xpool"},
		// liquidation messages (any keeper may send them; the positions are made unhealthy by a collateral price drop)
		{"liquidation.MsgLiquidateVault", "B", false, false, "vault", "a1a2", func(w *c12World, s sdk.AccAddress) sdk.Msg {
			return &liquidationtypes.MsgLiquidateVaultRequest{From: s.String(), AppId: w.appVault, VaultId: w.vaultA}
		}, c12Unhealthy, ""},
		{"liquidation.MsgLiquidateBorrow", "B", false, false, "lend", "a1a2", func(w *c12World, s sdk.AccAddress) sdk.Msg {
			return &liquidationtypes.MsgLiquidateBorrowRequest{From: s.String(), BorrowId: w.borrowA}
		}, c12Unhealthy, ""},
		{"liquidationsV2.MsgLiquidateInternalKeeper", "B", false, false, "vault", "a1a2", func(w *c12World, s sdk.AccAddress) sdk.Msg {
			return &liquidationsV2types.MsgLiquidateInternalKeeperRequest{From: s.String(), LiqType: 0, Id: w.vaultA}
		}, c12Unhealthy, "vault"},
		{"liquidationsV2.MsgLiquidateInternalKeeper", "B", false, false, "lend", "a1a2", func(w *c12World, s sdk.AccAddress) sdk.Msg {
			return &liquidationsV2types.MsgLiquidateInternalKeeperRequest{From: s.String(), LiqType: 1, Id: w.borrowA}
		}, c12Unhealthy, "borrow"},
		// shapes that reach the auction activators WITHOUT a prior ratio read of the debt price
		{"liquidationsV2.MsgLiquidateInternalKeeper", "B", false, false, "vault", "a1a2", func(w *c12World, s sdk.AccAddress) sdk.Msg {
			return &liquidationsV2types.MsgLiquidateInternalKeeperRequest{From: s.String(), LiqType: 0, Id: w.vaultF}
		}, c12Unhealthy, "fixedvault"},
		{"liquidation.MsgLiquidateVault", "B", false, false, "vault", "a1", func(w *c12World, s sdk.AccAddress) sdk.Msg {
			return &liquidationtypes.MsgLiquidateVaultRequest{From: s.String(), AppId: w.appVault, VaultId: w.vaultF}
		}, c12Unhealthy, "fixed"},
		{"liquidationsV2.MsgLiquidateExternalKeeper", "B", false, false, "vault", "a1a2", func(w *c12World, s sdk.AccAddress) sdk.Msg {
			return &liquidationsV2types.MsgLiquidateExternalKeeperRequest{From: s.String(), AppId: w.appVault, Owner: w.A.String(),
				CollateralToken: coin("uasset1", 100000000), DebtToken: coin("uasset2", 50000000), CollateralAssetId: w.a1, DebtAssetId: w.a2, IsDebtCmst: false}
		}, func(w *c12World, ctx sdk.Context) {
			c12Unhealthy(w, ctx)
			m := &liquidationsV2types.MsgAppReserveFundsRequest{AppId: w.appVault, AssetId: w.a2, TokenQuantity: coin("uasset2", 5000000), From: w.B.String()}
			if h := w.app.MsgServiceRouter().Handler(m); h != nil {
				if _, err := h(ctx, m); err != nil {
					w.t.Fatalf("app reserve funds: %v", err)
				}
			}
		}, ""},
	}
}

// c12Unhealthy: liquidation enabled in both generations, auction parameters, and a collateral price drop (the price stays
// ACTIVE) that makes A's vault and A's same-pool borrow liquidatable.
func c12Unhealthy(w *c12World, ctx sdk.Context) {
	w.must(w.app.LiquidationKeeper.WasmWhitelistAppIDLiquidation(ctx, w.appVault), "whitelist liquidation")
	for _, app := range []uint64{w.appVault, w.appLend} {
		w.app.AuctionKeeper.SetAuctionParams(ctx, auctiontypes.AuctionParams{AppId: app, AuctionDurationSeconds: 300, Buffer: c12Dec("1.2"), Cusp: c12Dec("0.6"),
			Step: sdk.NewInt(1), PriceFunctionType: 1, SurplusId: 1, DebtId: 2, DutchId: 3, BidDurationSeconds: 300})
		w.app.NewliqKeeper.SetLiquidationWhiteListing(ctx, liquidationsV2types.LiquidationWhiteListing{AppId: app, Initiator: true, IsDutchActivated: true,
			DutchAuctionParam:  &liquidationsV2types.DutchAuctionParam{Premium: c12Dec("0.1"), Discount: c12Dec("0.1"), DecrementFactor: sdk.NewInt(1)},
			IsEnglishActivated: true, EnglishAuctionParam: &liquidationsV2types.EnglishAuctionParam{DecrementFactor: sdk.NewInt(1)}, KeeeperIncentive: c12Dec("0.1")})
	}
	_ = w.app.LendKeeper.AddAuctionParamsData(ctx, lendtypes.AuctionParams{AppId: w.appLend, AuctionDurationSeconds: 21600, Buffer: c12Dec("1.2"), Cusp: c12Dec("0.7"),
		Step: sdk.NewInt(360), PriceFunctionType: 1, DutchId: 3, BidDurationSeconds: 3600})
	twa, _ := w.app.MarketKeeper.GetTwa(ctx, w.a1)
	twa.Twa = 200000
	twa.PriceValue = []uint64{200000}
	w.app.MarketKeeper.SetTwa(ctx, twa)
}

func (w *c12World) actor(name string) sdk.AccAddress {
	switch name {
	case "A":
		return w.A
	case "B":
		return w.B
	case "C":
		return w.C
	case "D":
		return w.D
	}
	return w.admin
}

type c12Scn struct {
	brk     bool
	esm     string // "none" | "in" | "after"
	price   string // "all" (every feed active) | "none" (every feed off) | comma list of the assets whose feed is off
	missing bool   // off = the TWA record does not exist at all (instead of IsPriceActive=false)
	days    int    // time passed since the world was built
	recs    string // "" : a control that is off has NO record at all; "false": it has a record with the flag false
	                // (KillSwitchParams{BreakerEnable:false}, ESMStatus{Status:false}); "otherapp": the controls are ON for another app
}

var c12AssetNames = []string{"a1", "a2", "a3", "a4", "c1", "c2", "c3", "c4"}

// offSet: the assets whose price feed is off in the scenario
func (scn c12Scn) offSet() []string {
	switch scn.price {
	case "all", "":
		return nil
	case "none":
		return c12AssetNames
	}
	return strings.Split(scn.price, ",")
}

func (scn c12Scn) mode() string {
	if scn.missing {
		return "missing"
	}
	return "inactive"
}

// priceOff switches the feeds of the scenario off on ctx
func (w *c12World) priceOff(ctx sdk.Context, scn c12Scn) {
	for _, name := range scn.offSet() {
		id := w.twaKeys[name]
		if scn.missing {
			ctx.KVStore(w.app.GetKey(markettypes.StoreKey)).Delete(markettypes.TwaKey(id))
			continue
		}
		twa, _ := w.app.MarketKeeper.GetTwa(ctx, id)
		twa.IsPriceActive = false
		w.app.MarketKeeper.SetTwa(ctx, twa)
	}
}

// stage prepares a branch of the world for a scenario: time, breaker, ESM status (+ the real esm BeginBlocker so that the
// price snapshot exists, as on chain one block after ExecuteESM), price activity.
func (w *c12World) stage(scn c12Scn, c c12Case) sdk.Context {
	appID := w.appOf(c)
	ctx, _ := w.ctx.CacheContext()
	now := w.ctx.BlockTime().Add(time.Duration(scn.days) * 24 * time.Hour)
	ctx = ctx.WithBlockTime(now).WithBlockHeight(w.ctx.BlockHeight() + int64(scn.days)*14400 + 1)
	if c.prep != nil {
		c.prep(w, ctx)
	}
	if scn.brk && scn.recs == "viamsg" {
		// the breaker is switched on the way the chain does it: the admin's real MsgKillSwitch
		w.mustDeliver(ctx, &esmtypes.MsgKillRequest{From: w.admin.String(), KillSwitchParams: &esmtypes.KillSwitchParams{AppId: appID, BreakerEnable: true}}, "MsgKillSwitch")
	} else if scn.brk {
		w.must(w.app.EsmKeeper.SetKillSwitchData(ctx, esmtypes.KillSwitchParams{AppId: appID, BreakerEnable: true}), "breaker")
	} else if scn.recs == "false" {
		// the record a disable after an enable leaves behind
		w.must(w.app.EsmKeeper.SetKillSwitchData(ctx, esmtypes.KillSwitchParams{AppId: appID, BreakerEnable: false}), "breaker record, flag false")
	}
	if scn.esm == "none" && scn.recs == "false" {
		w.app.EsmKeeper.SetESMStatus(ctx, esmtypes.ESMStatus{AppId: appID, Executor: w.B.String(), Status: false, StartTime: now.Add(-time.Hour), EndTime: now.Add(-time.Minute)})
	}
	if scn.recs == "otherapp" {
		other := w.appGov
		w.must(w.app.EsmKeeper.SetKillSwitchData(ctx, esmtypes.KillSwitchParams{AppId: other, BreakerEnable: true}), "breaker of another app")
		w.app.EsmKeeper.SetESMStatus(ctx, esmtypes.ESMStatus{AppId: other, Executor: w.B.String(), Status: true, StartTime: now.Add(-3 * time.Hour), EndTime: now.Add(-2 * time.Hour)})
	}
	switch scn.esm {
	case "in", "after":
		w.app.EsmKeeper.SetESMStatus(ctx, esmtypes.ESMStatus{AppId: appID, Executor: w.B.String(), Status: true, StartTime: now.Add(-time.Hour), EndTime: now.Add(time.Hour)})
		esm.BeginBlocker(ctx, abci.RequestBeginBlock{}, w.app.EsmKeeper, w.app.AssetKeeper)
		if scn.esm == "after" {
			ctx = ctx.WithBlockTime(now.Add(2 * time.Hour))
		}
	}
	w.priceOff(ctx, scn)
	return ctx
}

func (c c12Case) key() string { return c.handler + "/" + c.tag }

// needsOf: which assets' price records the real handler READS when the message is delivered with every control clear and
// every feed active — observed with the store tracer of the multistore (tracekv logs every read that reaches the
// transaction state): an asset is needed iff its TWA record (exact key and value) was read.
func (w *c12World) needsOf(c c12Case) []string {
	ctx := w.stage(c12Scn{esm: "none", price: "all"}, c)
	tx, _ := ctx.CacheContext()
	var buf bytes.Buffer
	// cachemulti.Store is a value type: SetTracer returns the traced copy; its branch wraps every store in tracekv
	msgCtx := tx.WithMultiStore(tx.MultiStore().SetTracer(&buf).CacheMultiStore())
	msg := c.mk(w, w.actor(c.owner))
	try(func() {
		if msg.ValidateBasic() != nil {
			return
		}
		if h := w.app.MsgServiceRouter().Handler(msg); h != nil {
			_, _ = h(msgCtx, msg)
		}
	})
	type op struct {
		Operation string `json:"operation"`
		Key       string `json:"key"`
		Value     string `json:"value"`
	}
	read := map[string]bool{}
	for _, ln := range strings.Split(buf.String(), "\n") {
		var o op
		if ln == "" || json.Unmarshal([]byte(ln), &o) != nil || o.Operation != "read" {
			continue
		}
		read[o.Key+"|"+o.Value] = true
	}
	var out []string
	st := ctx.KVStore(w.app.GetKey(markettypes.StoreKey))
	for _, name := range c12AssetNames {
		k := markettypes.TwaKey(w.twaKeys[name])
		v := st.Get(k)
		if v != nil && read[base64.StdEncoding.EncodeToString(k)+"|"+base64.StdEncoding.EncodeToString(v)] {
			out = append(out, name)
		}
	}
	return out
}

func (w *c12World) computeNeeds(cat []c12Case, tr *Trace) {
	w.needs = map[string][]string{}
	all := map[string]string{}
	for _, c := range cat {
		w.needs[c.key()] = w.needsOf(c)
		all[c.key()] = strings.Join(w.needs[c.key()], ",")
	}
	if tr != nil {
		tr.Set("price_read_sets", all)
	}
}

func (w *c12World) appOf(c c12Case) uint64 {
	switch c.app {
	case "vault":
		return w.appVault
	case "lend":
		return w.appLend
	case "solo":
		return w.soloApp()
	}
	return w.appLiq
}

// soloApp: the id the next app will get (c14SoloPrep creates it on the case's branch: an app with ONE extended pair and one
// vault, which is what rewards.ExternalRewardsVault accepts)
func (w *c12World) soloApp() uint64 {
	apps, _ := w.app.AssetKeeper.GetApps(w.ctx)
	return uint64(len(apps)) + 1
}

func (w *c12World) soloExtPair() uint64 {
	eps, _ := w.app.AssetKeeper.GetPairsVaults(w.ctx)
	return uint64(len(eps)) + 1
}

func c14SoloPrep(w *c12World, ctx sdk.Context) {
	w.must(w.app.AssetKeeper.AddAppRecords(ctx, assettypes.AppData{Name: "soloapp", ShortName: "solo", MinGovDeposit: sdk.NewInt(0), GenesisToken: []assettypes.MintGenesisToken{}}), "solo app")
	w.must(w.app.AssetKeeper.WasmAddExtendedPairsVaultRecords(ctx, &bindings.MsgAddExtendedPairsVault{
		AppID: w.soloApp(), PairID: 1, StabilityFee: sdk.NewDecWithPrec(2, 2), ClosingFee: sdk.NewDec(0),
		LiquidationPenalty: sdk.NewDecWithPrec(15, 2), DrawDownFee: sdk.NewDecWithPrec(1, 2), IsVaultActive: true,
		DebtCeiling: sdk.NewInt(1000000000000000000), DebtFloor: sdk.NewInt(100000000), IsStableMintVault: false,
		MinCr: sdk.NewDecWithPrec(23, 1), PairName: "SOLO-A", AssetOutOraclePrice: true, AssetOutPrice: 1000000, MinUsdValueLeft: 1000000,
	}), "solo ext pair")
	w.mustDeliver(ctx, &vaulttypes.MsgCreateRequest{From: w.D.String(), AppId: w.soloApp(), ExtendedPairVaultId: w.soloExtPair(), AmountIn: sdk.NewInt(3000000000), AmountOut: sdk.NewInt(400000000)}, "solo vault")
}

// c14ExtraCatalogue: message shapes that the regenerated table shows breaker- / ESM-guarded but that carry no position of the
// C12 kinds (driven by TestC14 only; the driver's end-of-run check demands every guarded handler of the table to be driven)
func c14ExtraCatalogue() []c12Case {
	rew := coin("uasset3", 1000000)
	return []c12Case{
		{"rewards.ExternalRewardsLockers", "B", false, false, "vault", "", func(w *c12World, s sdk.AccAddress) sdk.Msg {
			return &rewardstypes.ActivateExternalRewardsLockers{AppMappingId: w.appVault, AssetId: w.a2, TotalRewards: rew, DurationDays: 3, Depositor: s.String(), MinLockupTimeSeconds: 10}
		}, nil, ""},
		{"rewards.ExternalRewardsVault", "B", false, false, "solo", "", func(w *c12World, s sdk.AccAddress) sdk.Msg {
			return &rewardstypes.ActivateExternalRewardsVault{AppMappingId: w.soloApp(), ExtendedPairId: w.soloExtPair(), TotalRewards: rew, DurationDays: 3, Depositor: s.String(), MinLockupTimeSeconds: 10}
		}, c14SoloPrep, ""},
		{"rewards.ExternalRewardsLend", "B", false, false, "lend", "", func(w *c12World, s sdk.AccAddress) sdk.Msg {
			return &rewardstypes.ActivateExternalRewardsLend{AppMappingId: w.appLend, CPoolId: w.lendPool, AssetId: []uint64{w.a1, w.a2}, CSwapAppId: w.appLiq, CSwapMinLockAmount: 100,
				TotalRewards: rew, MasterPoolId: int64(w.liqPool), DurationDays: 3, MinLockupTimeSeconds: 10, Depositor: s.String()}
		}, nil, ""},
		{"rewards.ExternalRewardsStableMint", "B", false, false, "vault", "", func(w *c12World, s sdk.AccAddress) sdk.Msg {
			return &rewardstypes.ActivateExternalRewardsStableMint{AppId: w.appVault, CswapAppId: w.appLiq, CommodoAppId: w.appLend, TotalRewards: rew, DurationDays: 3, Depositor: s.String(), AcceptedBlockHeight: 10}
		}, nil, ""},
		{"esm.ExecuteESM", "B", false, false, "vault", "", func(w *c12World, s sdk.AccAddress) sdk.Msg {
			return &esmtypes.MsgExecuteESM{AppId: w.appVault, Depositor: s.String()}
		}, func(w *c12World, ctx sdk.Context) {
			w.app.EsmKeeper.SetESMTriggerParams(ctx, esmtypes.ESMTriggerParams{AppId: w.appVault, TargetValue: sdk.NewCoin("ugov", sdk.NewInt(100)), CoolOffPeriod: 3600})
			w.app.EsmKeeper.SetCurrentDepositStats(ctx, esmtypes.CurrentDepositStats{AppId: w.appVault, Balance: sdk.NewCoin("ugov", sdk.NewInt(100))})
		}, ""},
	}
}

func (w *c12World) emit(tr *Trace, c c12Case, scnName string, signer string, admin bool, scn c12Scn, base bool, r c12Result) {
	owner := signer == c.owner
	tr.Line("grd.begin", c.handler, scnName)
	tr.Line("grd.msg", c.handler, scnName, c12b01(owner), c12b01(c.names), c12b01(admin), c12b01(scn.brk), scn.esm,
		strings.Join(w.needs[c.key()], ","), strings.Join(scn.offSet(), ","), scn.mode(), c12b01(base),
		r.outcome, c12b01(r.parentEmpty), c12b01(r.branchClean), c12b01(r.victimSame))
	tr.Count("msg:" + c.handler + ":" + r.outcome)
	if base {
		tr.Count("base:" + r.outcome)
	}
}

// TestC12: owner-only matrix + wasm sender matrix + kill switch.
func c12Seed(tr *Trace) {
	rng := NewRng(seed())
	c12K = int64(1 + rng.Intn(3))
	c12Stranger = make([]byte, 20)
	for j := range c12Stranger {
		c12Stranger[j] = byte(rng.Intn(256))
	}
	tr.Set("amount_factor", c12K)
	tr.Set("stranger", hex.EncodeToString(c12Stranger))
}

// c12Stranger: the unfunded non-owner signer "C" (seeded)
var c12Stranger []byte

func TestC12(t *testing.T) {
	tr := OpenTrace(t, "c12.trace")
	defer tr.Close(t)
	c12Seed(tr)
	w := c12Build(t)
	cat := c12Catalogue()
	w.computeNeeds(cat, tr)
	states := []int{0, 30}
	if thorough() {
		states = []int{0, 1, 30, 365}
	}
	for _, days := range states {
		scn := c12Scn{esm: "none", price: "all", days: days}
		for _, c := range cat {
			for _, signer := range []string{"A", "B", "C", "D"} {
				if !c.names && !c.keyed && signer != c.owner {
					continue // opens something new for the signer: nobody else's position is involved
				}
				if (c.names || c.keyed) && c.owner != "A" {
					continue
				}
				ctx := w.stage(scn, c)
				before := w.dump(ctx)
				r := w.deliver(ctx, before, w.victimProj(ctx), c.mk(w, w.actor(signer)))
				w.emit(tr, c, fmt.Sprintf("own/d%d/%s", days, signer), signer, false, scn, signer == c.owner, r)
				if signer != c.owner && c.names && r.outcome == "ok" {
					t.Logf("ACCEPTED forbidden message %s by %s: changed %v", c.handler, signer, r.changed)
				}
				if signer == c.owner && r.outcome != "ok" {
					t.Logf("owner's own %s failed: %s", c.handler, r.errText)
				}
			}
		}
	}
	c12Amounts(t, tr, w)
	c12Consistency(t, tr, w)
	c12KillSwitch(t, tr, w)
	c12Wasm(t, tr, w)
	c12Entries(t, tr, w)
	if thorough() {
		c12DeliverTx(t, tr)
	}
	tr.Line("grd.end", "C12")
}

// c12DeliverTx (thorough tier): the same position-naming messages, SIGNED and pushed through the real BaseApp.DeliverTx
// (ante handler, runMsgs with baseapp's own message cache) — transaction atomicity is exercised here, not re-enacted.
// DeliverTx works on the block state itself, so every case gets a world of its own. The only store entries a rejected
// transaction may touch are the signer's own auth account record (sequence / public key are set by the ante handler
// before the messages run) and wasmd's per-block transaction counter; they are taken out of the diff and nothing else.
func c12DeliverTx(t *testing.T, tr *Trace) {
	for ci, c := range c12Catalogue() {
		if !c.names || c.owner != "A" {
			continue
		}
		for _, signer := range []string{"A", "B", "D"} {
			c12TxCase(t, tr, c, signer, fmt.Sprintf("tx/%d/%s", ci, signer), c12Scn{esm: "none", price: "all"}, signer == c.owner)
		}
	}
}

// c12TxCase: a world of its own, a real BeginBlock, the scenario's controls written to the block state, one signed
// transaction through BaseApp.DeliverTx, full-state diff.
func c12TxCase(t *testing.T, tr *Trace, c c12Case, signer, scnName string, scn c12Scn, base bool) {
	txCfg := chain.MakeEncodingConfig().TxConfig
	rnd := rand.New(rand.NewSource(int64(seed())))
	w := c12Build(t)
	w.needs = map[string][]string{c.key(): w.needsOf(c)}
	hdr := tmproto.Header{Height: w.app.LastBlockHeight() + 1, Time: w.ctx.BlockTime().Add(time.Minute)}
	w.app.BeginBlock(abci.RequestBeginBlock{Header: hdr})
	ctx := w.app.BaseApp.NewContext(false, hdr)
	// the market BeginBlocker found no fresh band-oracle data and switched the prices off: feed them again
	for _, id := range w.twaKeys {
		twa, _ := w.app.MarketKeeper.GetTwa(ctx, id)
		twa.IsPriceActive = true
		w.app.MarketKeeper.SetTwa(ctx, twa)
	}
	if c.prep != nil {
		c.prep(w, ctx)
	}
	appID := w.appOf(c)
	if scn.brk {
		w.must(w.app.EsmKeeper.SetKillSwitchData(ctx, esmtypes.KillSwitchParams{AppId: appID, BreakerEnable: true}), "breaker")
	}
	if scn.esm != "none" {
		end := hdr.Time.Add(time.Hour)
		if scn.esm == "after" {
			end = hdr.Time.Add(-time.Second)
		}
		w.app.EsmKeeper.SetESMStatus(ctx, esmtypes.ESMStatus{AppId: appID, Executor: w.B.String(), Status: true, StartTime: hdr.Time.Add(-2 * time.Hour), EndTime: end})
	}
	w.priceOff(ctx, scn)
	who := w.actor(signer)
	acc := w.app.AccountKeeper.GetAccount(ctx, who)
	if acc == nil {
		t.Fatalf("no account for %s", signer)
	}
	msg := c.mk(w, who)
	tx, err := simtestutil.GenSignedMockTx(rnd, txCfg, []sdk.Msg{msg}, sdk.NewCoins(), 1900000, "", []uint64{acc.GetAccountNumber()}, []uint64{acc.GetSequence()}, c12Key(signer))
	if err != nil {
		t.Fatalf("sign: %v", err)
	}
	bz, err := txCfg.TxEncoder()(tx)
	if err != nil {
		t.Fatalf("encode: %v", err)
	}
	before := w.dump(ctx)
	vb := w.victimProj(ctx)
	var res abci.ResponseDeliverTx
	panicked, _ := try(func() { res = w.app.DeliverTx(abci.RequestDeliverTx{Tx: bz}) })
	outcome := "ok"
	if panicked {
		outcome = "panic"
	} else if res.Code != 0 {
		outcome = "err"
	}
	after := w.dump(ctx)
	// remove the signer's auth account record (sequence, pubkey) and wasmd's tx counter from both dumps
	for _, m := range []map[string]string{before, after} {
		for k := range m {
			if strings.HasPrefix(k, "acc/") && bytes.Contains([]byte(k), who.Bytes()) {
				delete(m, k)
			}
			if k == "wasm/"+string(wasmtypes.TXCounterPrefix) {
				delete(m, k)
			}
		}
	}
	changed := diffStores(before, after)
	r := c12Result{outcome: outcome, parentEmpty: len(changed) == 0, branchClean: true, victimSame: signer == c.owner || w.victimProj(ctx) == vb, changed: changed, errText: res.Log}
	w.emit(tr, c, scnName, signer, false, scn, base, r)
	tr.Count("delivertx:" + scnName[:2] + ":" + outcome)
	if base && outcome != "ok" {
		t.Logf("DeliverTx %s: baseline %s failed: %s", scnName, c.handler, res.Log)
	}
	if !base && signer != c.owner && (outcome == "ok" || !r.parentEmpty) {
		t.Logf("DeliverTx %s: %s by %s: %s changed=%v", scnName, c.handler, signer, outcome, changed)
	}
}

// ---------------------------------------------------------------------------------------------
// amount-aware owner matrix

// c12AmtSpec: a position-naming, owner-guarded message that carries an amount. `nums` reads the numbers stored in the
// named position (collateral, debt, accrued interest, available amount …); the non-owner attempts are made with a family of
// amounts derived from them, because handlers branch on amounts ("repay of exactly the debt closes the position").
type c12AmtSpec struct {
	handler, tag, app, denom string
	nums                     func(w *c12World, ctx sdk.Context) map[string]sdk.Int
	mk                       func(w *c12World, s sdk.AccAddress, amt sdk.Int) sdk.Msg
}

func c12VaultNums(w *c12World, ctx sdk.Context) map[string]sdk.Int {
	v, _ := w.app.VaultKeeper.GetVault(ctx, w.vaultA)
	return map[string]sdk.Int{"collateral": v.AmountIn, "principal": v.AmountOut, "debt": v.AmountOut.Add(v.InterestAccumulated),
		"debtfee": v.AmountOut.Add(v.InterestAccumulated).Add(v.ClosingFeeAccumulated)}
}

func c12LockerNums(w *c12World, ctx sdk.Context) map[string]sdk.Int {
	l, _ := w.app.LockerKeeper.GetLocker(ctx, w.lockerA)
	return map[string]sdk.Int{"balance": l.NetBalance, "balret": l.NetBalance.Add(l.ReturnsAccumulated)}
}

func c12LendNums(w *c12World, ctx sdk.Context) map[string]sdk.Int {
	l, _ := w.app.LendKeeper.GetLend(ctx, w.lendA)
	return map[string]sdk.Int{"lent": l.AmountIn.Amount, "available": l.AvailableToBorrow}
}

func c12BorrowNums(id func(w *c12World) uint64) func(w *c12World, ctx sdk.Context) map[string]sdk.Int {
	return func(w *c12World, ctx sdk.Context) map[string]sdk.Int {
		b, _ := w.app.LendKeeper.GetBorrow(ctx, id(w))
		l, _ := w.app.LendKeeper.GetLend(ctx, b.LendingID)
		return map[string]sdk.Int{"collateral": b.AmountIn.Amount, "principal": b.AmountOut.Amount,
			"debt":     b.AmountOut.Amount.Add(b.InterestAccumulated.TruncateInt()), // what RepayAsset's close shortcut compares with
			"debtceil": b.AmountOut.Amount.Add(b.InterestAccumulated.Ceil().TruncateInt()), "available": l.AvailableToBorrow}
	}
}

func c12AmtSpecs() []c12AmtSpec {
	bA := func(w *c12World) uint64 { return w.borrowA }
	bX := func(w *c12World) uint64 { return w.borrowAX }
	return []c12AmtSpec{
		{"vault.MsgDeposit", "", "vault", "uasset1", c12VaultNums, func(w *c12World, s sdk.AccAddress, a sdk.Int) sdk.Msg {
			return &vaulttypes.MsgDepositRequest{From: s.String(), AppId: w.appVault, ExtendedPairVaultId: w.extPair, UserVaultId: w.vaultA, Amount: a}
		}},
		{"vault.MsgWithdraw", "", "vault", "uasset1", c12VaultNums, func(w *c12World, s sdk.AccAddress, a sdk.Int) sdk.Msg {
			return &vaulttypes.MsgWithdrawRequest{From: s.String(), AppId: w.appVault, ExtendedPairVaultId: w.extPair, UserVaultId: w.vaultA, Amount: a}
		}},
		{"vault.MsgDraw", "", "vault", "uasset2", c12VaultNums, func(w *c12World, s sdk.AccAddress, a sdk.Int) sdk.Msg {
			return &vaulttypes.MsgDrawRequest{From: s.String(), AppId: w.appVault, ExtendedPairVaultId: w.extPair, UserVaultId: w.vaultA, Amount: a}
		}},
		{"vault.MsgRepay", "", "vault", "uasset2", c12VaultNums, func(w *c12World, s sdk.AccAddress, a sdk.Int) sdk.Msg {
			return &vaulttypes.MsgRepayRequest{From: s.String(), AppId: w.appVault, ExtendedPairVaultId: w.extPair, UserVaultId: w.vaultA, Amount: a}
		}},
		{"vault.MsgDepositAndDraw", "", "vault", "uasset1", c12VaultNums, func(w *c12World, s sdk.AccAddress, a sdk.Int) sdk.Msg {
			return &vaulttypes.MsgDepositAndDrawRequest{From: s.String(), AppId: w.appVault, ExtendedPairVaultId: w.extPair, UserVaultId: w.vaultA, Amount: a}
		}},
		{"locker.MsgDepositAsset", "", "vault", "uasset2", c12LockerNums, func(w *c12World, s sdk.AccAddress, a sdk.Int) sdk.Msg {
			return &lockertypes.MsgDepositAssetRequest{Depositor: s.String(), LockerId: w.lockerA, Amount: a, AssetId: w.a2, AppId: w.appVault}
		}},
		{"locker.MsgWithdrawAsset", "", "vault", "uasset2", c12LockerNums, func(w *c12World, s sdk.AccAddress, a sdk.Int) sdk.Msg {
			return &lockertypes.MsgWithdrawAssetRequest{Depositor: s.String(), LockerId: w.lockerA, Amount: a, AssetId: w.a2, AppId: w.appVault}
		}},
		{"lend.Withdraw", "", "lend", "uasset1", c12LendNums, func(w *c12World, s sdk.AccAddress, a sdk.Int) sdk.Msg {
			return &lendtypes.MsgWithdraw{Lender: s.String(), LendId: w.lendA, Amount: sdk.NewCoin("uasset1", a)}
		}},
		{"lend.Withdraw", "nolien", "lend", "uasset3", func(w *c12World, ctx sdk.Context) map[string]sdk.Int {
			l, _ := w.app.LendKeeper.GetLend(ctx, w.lendA3) // no borrow on it: withdrawing everything turns into CloseLend
			return map[string]sdk.Int{"lent": l.AmountIn.Amount, "available": l.AvailableToBorrow}
		}, func(w *c12World, s sdk.AccAddress, a sdk.Int) sdk.Msg {
			return &lendtypes.MsgWithdraw{Lender: s.String(), LendId: w.lendA3, Amount: sdk.NewCoin("uasset3", a)}
		}},
		{"lend.Deposit", "", "lend", "uasset1", c12LendNums, func(w *c12World, s sdk.AccAddress, a sdk.Int) sdk.Msg {
			return &lendtypes.MsgDeposit{Lender: s.String(), LendId: w.lendA, Amount: sdk.NewCoin("uasset1", a)}
		}},
		{"lend.Borrow", "", "lend", "ucasset1", c12LendNums, func(w *c12World, s sdk.AccAddress, a sdk.Int) sdk.Msg {
			return &lendtypes.MsgBorrow{Borrower: s.String(), LendId: w.lendA, PairId: w.lendPairA1A3, AmountIn: sdk.NewCoin("ucasset1", a), AmountOut: coin("uasset3", 200000000)}
		}},
		{"lend.Repay", "", "lend", "uasset2", c12BorrowNums(bA), func(w *c12World, s sdk.AccAddress, a sdk.Int) sdk.Msg {
			return &lendtypes.MsgRepay{Borrower: s.String(), BorrowId: w.borrowA, Amount: sdk.NewCoin("uasset2", a)}
		}},
		{"lend.Repay", "xpool", "lend", "uasset4", c12BorrowNums(bX), func(w *c12World, s sdk.AccAddress, a sdk.Int) sdk.Msg {
			return &lendtypes.MsgRepay{Borrower: s.String(), BorrowId: w.borrowAX, Amount: sdk.NewCoin("uasset4", a)}
		}},
		{"lend.Draw", "", "lend", "uasset2", c12BorrowNums(bA), func(w *c12World, s sdk.AccAddress, a sdk.Int) sdk.Msg {
			return &lendtypes.MsgDraw{Borrower: s.String(), BorrowId: w.borrowA, Amount: sdk.NewCoin("uasset2", a)}
		}},
		{"lend.Draw", "xpool", "lend", "uasset4", c12BorrowNums(bX), func(w *c12World, s sdk.AccAddress, a sdk.Int) sdk.Msg {
			return &lendtypes.MsgDraw{Borrower: s.String(), BorrowId: w.borrowAX, Amount: sdk.NewCoin("uasset4", a)}
		}},
		{"lend.DepositBorrow", "", "lend", "ucasset1", c12BorrowNums(bA), func(w *c12World, s sdk.AccAddress, a sdk.Int) sdk.Msg {
			return &lendtypes.MsgDepositBorrow{Borrower: s.String(), BorrowId: w.borrowA, Amount: sdk.NewCoin("ucasset1", a)}
		}},
		{"lend.DepositBorrow", "xpool", "lend", "ucasset1", c12BorrowNums(bX), func(w *c12World, s sdk.AccAddress, a sdk.Int) sdk.Msg {
			return &lendtypes.MsgDepositBorrow{Borrower: s.String(), BorrowId: w.borrowAX, Amount: sdk.NewCoin("ucasset1", a)}
		}},
	}
}

// c12Amounts: for every spec × state {t0, +30 d, +30 d with the accruals applied and stored, then +1 d} × signer
// {A (owner, informational), B and D (funded in the denom), C (unfunded)} × the amount family
// {1} ∪ {n/2, n-1, n, n+1 : n a number stored in the position} ∪ {the signer's whole balance of the denom}.
func c12Amounts(t *testing.T, tr *Trace, w *c12World) {
	cells := 0
	type stateT struct {
		name    string
		days    int
		accrued bool
	}
	states := []stateT{{"d0", 0, false}, {"d30acc", 30, true}}
	if thorough() {
		states = []stateT{{"d0", 0, false}, {"d30", 30, false}, {"d30acc", 30, true}, {"d365acc", 365, true}}
	}
	for _, sp := range c12AmtSpecs() {
		c := c12Case{handler: sp.handler, owner: "A", names: true, app: sp.app, tag: "amt-" + sp.tag}
		for _, st := range states {
			mkStage := func() sdk.Context {
				ctx := w.stage(c12Scn{esm: "none", price: "all", days: st.days}, c)
				if st.accrued {
					// the owner lets the accruals be computed and STORED, a day passes: stored interest is non-zero and stale
					for _, m := range []sdk.Msg{
						&lendtypes.MsgCalculateInterestAndRewards{Borrower: w.A.String()},
						&vaulttypes.MsgVaultInterestCalcRequest{From: w.A.String(), AppId: w.appVault, UserVaultId: w.vaultA},
						&lockertypes.MsgLockerRewardCalcRequest{From: w.A.String(), AppId: w.appVault, LockerId: w.lockerA},
					} {
						if h := w.app.MsgServiceRouter().Handler(m); h != nil {
							cc, write := ctx.CacheContext()
							if _, err := h(cc, m); err == nil {
								write()
							}
						}
					}
					ctx = ctx.WithBlockTime(ctx.BlockTime().Add(24 * time.Hour)).WithBlockHeight(ctx.BlockHeight() + 14400)
				}
				return ctx
			}
			probe := mkStage()
			nums := sp.nums(w, probe)
			for _, signer := range []string{"A", "B", "D", "C"} {
				who := w.actor(signer)
				fam := map[string]sdk.Int{"one": sdk.OneInt(), "balance": w.app.BankKeeper.GetBalance(probe, who, sp.denom).Amount}
				for name, n := range nums {
					fam[name] = n
					fam[name+"-1"] = n.SubRaw(1)
					fam[name+"+1"] = n.AddRaw(1)
					fam[name+"/2"] = n.QuoRaw(2)
				}
				labels := make([]string, 0, len(fam))
				for l := range fam {
					labels = append(labels, l)
				}
				sort.Strings(labels)
				seen := map[string]bool{}
				for _, l := range labels {
					a := fam[l]
					if !a.IsPositive() || seen[a.String()] {
						continue
					}
					seen[a.String()] = true
					if signer == "A" && !strings.HasSuffix(l, "debt") && l != "one" && !strings.HasSuffix(l, "available") && !strings.HasSuffix(l, "balance") && !strings.HasSuffix(l, "collateral") && !strings.HasSuffix(l, "lent") {
						continue // the owner: only the exact values (informational: which of them his own message accepts)
					}
					ctx := mkStage()
					before := w.dump(ctx)
					r := w.deliver(ctx, before, w.victimProj(ctx), sp.mk(w, who, a))
					w.emit(tr, c, fmt.Sprintf("amt/%s/%s/%s/%s=%s", sp.tag, st.name, signer, l, a), signer, false, c12Scn{esm: "none", price: "all", days: st.days}, false, r)
					cells++
					tr.Count("amt:" + signer + ":" + r.outcome)
					if signer != "A" && (r.outcome == "ok" || !r.parentEmpty) {
						t.Logf("ACCEPTED %s by %s with %s=%s (%s): changed %v", sp.handler, signer, l, a, st.name, r.changed)
					}
				}
			}
		}
	}
	tr.Set("amount_cells", cells)
}

// ---------------------------------------------------------------------------------------------
// consistency of the named position with the message's descriptive ids

type c12ConsVariant struct {
	handler, variant, who string
	prep                  func(w *c12World, ctx sdk.Context)
	mk                    func(w *c12World, s sdk.AccAddress, ctx sdk.Context) sdk.Msg
}

// c12ConsVariants: the rightful sender's own message with ONE descriptive id replaced by another VALID id of the same kind
// (another product of the same app, another app, another asset / denom, another pair, another position of the same owner).
// Small amounts, so that no ratio or limit check interferes. None of them may act on the named position.
func c12ConsVariants() []c12ConsVariant {
	i := sdk.NewInt
	var out []c12ConsVariant
	type vmsg func(w *c12World, s string, app, ext, vault uint64) sdk.Msg
	vaultMsgs := map[string]vmsg{
		"vault.MsgDeposit": func(w *c12World, s string, app, ext, v uint64) sdk.Msg {
			return &vaulttypes.MsgDepositRequest{From: s, AppId: app, ExtendedPairVaultId: ext, UserVaultId: v, Amount: i(1000000)}
		},
		"vault.MsgWithdraw": func(w *c12World, s string, app, ext, v uint64) sdk.Msg {
			return &vaulttypes.MsgWithdrawRequest{From: s, AppId: app, ExtendedPairVaultId: ext, UserVaultId: v, Amount: i(1000000)}
		},
		"vault.MsgDraw": func(w *c12World, s string, app, ext, v uint64) sdk.Msg {
			return &vaulttypes.MsgDrawRequest{From: s, AppId: app, ExtendedPairVaultId: ext, UserVaultId: v, Amount: i(1000000)}
		},
		"vault.MsgRepay": func(w *c12World, s string, app, ext, v uint64) sdk.Msg {
			return &vaulttypes.MsgRepayRequest{From: s, AppId: app, ExtendedPairVaultId: ext, UserVaultId: v, Amount: i(1000000)}
		},
		"vault.MsgClose": func(w *c12World, s string, app, ext, v uint64) sdk.Msg {
			return &vaulttypes.MsgCloseRequest{From: s, AppId: app, ExtendedPairVaultId: ext, UserVaultId: v}
		},
		"vault.MsgDepositAndDraw": func(w *c12World, s string, app, ext, v uint64) sdk.Msg {
			return &vaulttypes.MsgDepositAndDrawRequest{From: s, AppId: app, ExtendedPairVaultId: ext, UserVaultId: v, Amount: i(100000000)}
		},
	}
	names := make([]string, 0, len(vaultMsgs))
	for n := range vaultMsgs {
		names = append(names, n)
	}
	sort.Strings(names)
	for _, n := range names {
		f := vaultMsgs[n]
		add := func(variant string, pick func(w *c12World) (uint64, uint64, uint64)) {
			out = append(out, c12ConsVariant{n, variant, "A", nil, func(w *c12World, s sdk.AccAddress, _ sdk.Context) sdk.Msg {
				a, e, v := pick(w)
				return f(w, s.String(), a, e, v)
			}})
		}
		add("product=fixed-price sibling of the same app, vault on the oracle-price product", func(w *c12World) (uint64, uint64, uint64) { return w.appVault, w.fixedPair, w.vaultA })
		add("product=oracle-price sibling, vault on the fixed-price product", func(w *c12World) (uint64, uint64, uint64) { return w.appVault, w.extPair, w.vaultF })
		add("product=stable-mint product of the same app", func(w *c12World) (uint64, uint64, uint64) { return w.appVault, w.stablePair, w.vaultA })
		add("app=lend app", func(w *c12World) (uint64, uint64, uint64) { return w.appLend, w.extPair, w.vaultA })
		add("app=gov app", func(w *c12World) (uint64, uint64, uint64) { return w.appGov, w.extPair, w.vaultA })
	}
	// stable-mint vault (ownerless): product / app mismatch
	for _, v := range []struct {
		variant  string
		app, ext func(w *c12World) uint64
	}{
		{"product=the other stable-mint product", func(w *c12World) uint64 { return w.appVault }, func(w *c12World) uint64 { return w.stablePair2 }},
		{"product=a debt product of the same app", func(w *c12World) uint64 { return w.appVault }, func(w *c12World) uint64 { return w.extPair }},
		{"app=lend app", func(w *c12World) uint64 { return w.appLend }, func(w *c12World) uint64 { return w.stablePair }},
	} {
		v := v
		// stablePair2 has no vault yet: create it first so that the product itself is fully valid
		prep := func(w *c12World, ctx sdk.Context) {
			m := &vaulttypes.MsgCreateStableMintRequest{From: w.B.String(), AppId: w.appVault, ExtendedPairVaultId: w.stablePair2, Amount: i(500000000)}
			if h := w.app.MsgServiceRouter().Handler(m); h != nil {
				_, _ = h(ctx, m)
			}
		}
		out = append(out, c12ConsVariant{"vault.MsgDepositStableMint", v.variant, "B", prep, func(w *c12World, s sdk.AccAddress, _ sdk.Context) sdk.Msg {
			return &vaulttypes.MsgDepositStableMintRequest{From: s.String(), AppId: v.app(w), ExtendedPairVaultId: v.ext(w), Amount: i(200000000), StableVaultId: w.stableID}
		}})
		out = append(out, c12ConsVariant{"vault.MsgWithdrawStableMint", v.variant, "B", prep, func(w *c12World, s sdk.AccAddress, _ sdk.Context) sdk.Msg {
			return &vaulttypes.MsgWithdrawStableMintRequest{From: s.String(), AppId: v.app(w), ExtendedPairVaultId: v.ext(w), Amount: i(150000000), StableVaultId: w.stableID}
		}})
	}
	out = append(out, c12ConsVariant{"vault.MsgVaultInterestCalc", "app=lend app", "A", nil, func(w *c12World, s sdk.AccAddress, _ sdk.Context) sdk.Msg {
		return &vaulttypes.MsgVaultInterestCalcRequest{From: s.String(), AppId: w.appLend, UserVaultId: w.vaultA}
	}})
	// locker: asset / app mismatch
	for _, v := range []struct {
		variant    string
		app, asset func(w *c12World) uint64
	}{
		{"asset=a1", func(w *c12World) uint64 { return w.appVault }, func(w *c12World) uint64 { return w.a1 }},
		{"asset=a3", func(w *c12World) uint64 { return w.appVault }, func(w *c12World) uint64 { return w.a3 }},
		{"app=lend app", func(w *c12World) uint64 { return w.appLend }, func(w *c12World) uint64 { return w.a2 }},
	} {
		v := v
		out = append(out,
			c12ConsVariant{"locker.MsgDepositAsset", v.variant, "A", nil, func(w *c12World, s sdk.AccAddress, _ sdk.Context) sdk.Msg {
				return &lockertypes.MsgDepositAssetRequest{Depositor: s.String(), LockerId: w.lockerA, Amount: i(1000000), AssetId: v.asset(w), AppId: v.app(w)}
			}},
			c12ConsVariant{"locker.MsgWithdrawAsset", v.variant, "A", nil, func(w *c12World, s sdk.AccAddress, _ sdk.Context) sdk.Msg {
				return &lockertypes.MsgWithdrawAssetRequest{Depositor: s.String(), LockerId: w.lockerA, Amount: i(1000000), AssetId: v.asset(w), AppId: v.app(w)}
			}},
			c12ConsVariant{"locker.MsgCloseLocker", v.variant, "A", nil, func(w *c12World, s sdk.AccAddress, _ sdk.Context) sdk.Msg {
				return &lockertypes.MsgCloseLockerRequest{Depositor: s.String(), AppId: v.app(w), AssetId: v.asset(w), LockerId: w.lockerA}
			}})
	}
	out = append(out, c12ConsVariant{"locker.MsgLockerRewardCalc", "app=lend app", "A", nil, func(w *c12World, s sdk.AccAddress, _ sdk.Context) sdk.Msg {
		return &lockertypes.MsgLockerRewardCalcRequest{From: s.String(), AppId: w.appLend, LockerId: w.lockerA}
	}})
	// lend: lend id / borrow id vs denom, pair
	out = append(out,
		c12ConsVariant{"lend.Deposit", "denom=uasset3 into the uasset1 position", "A", nil, func(w *c12World, s sdk.AccAddress, _ sdk.Context) sdk.Msg {
			return &lendtypes.MsgDeposit{Lender: s.String(), LendId: w.lendA, Amount: coin("uasset3", 1000000)}
		}},
		c12ConsVariant{"lend.Deposit", "denom=uasset1 into the uasset3 position", "A", nil, func(w *c12World, s sdk.AccAddress, _ sdk.Context) sdk.Msg {
			return &lendtypes.MsgDeposit{Lender: s.String(), LendId: w.lendA3, Amount: coin("uasset1", 1000000)}
		}},
		c12ConsVariant{"lend.Withdraw", "denom=uasset3 from the uasset1 position", "A", nil, func(w *c12World, s sdk.AccAddress, _ sdk.Context) sdk.Msg {
			return &lendtypes.MsgWithdraw{Lender: s.String(), LendId: w.lendA, Amount: coin("uasset3", 1000000)}
		}},
		c12ConsVariant{"lend.Withdraw", "denom=uasset1 from the uasset3 position", "A", nil, func(w *c12World, s sdk.AccAddress, _ sdk.Context) sdk.Msg {
			return &lendtypes.MsgWithdraw{Lender: s.String(), LendId: w.lendA3, Amount: coin("uasset1", 1000000)}
		}},
		c12ConsVariant{"lend.Borrow", "pair=a1->a2 with the uasset3 lend position, collateral ucasset1", "A", nil, func(w *c12World, s sdk.AccAddress, _ sdk.Context) sdk.Msg {
			return &lendtypes.MsgBorrow{Borrower: s.String(), LendId: w.lendA3, PairId: w.lendPairA1A2, AmountIn: coin("ucasset1", 100000000), AmountOut: coin("uasset2", 20000000)}
		}},
		c12ConsVariant{"lend.Borrow", "pair=a1->a2 with the uasset3 lend position, collateral ucasset3", "A", nil, func(w *c12World, s sdk.AccAddress, _ sdk.Context) sdk.Msg {
			return &lendtypes.MsgBorrow{Borrower: s.String(), LendId: w.lendA3, PairId: w.lendPairA1A2, AmountIn: coin("ucasset3", 100000000), AmountOut: coin("uasset2", 20000000)}
		}},
		c12ConsVariant{"lend.Borrow", "pair=cross-pool a1->a4 with the uasset3 lend position", "A", nil, func(w *c12World, s sdk.AccAddress, _ sdk.Context) sdk.Msg {
			return &lendtypes.MsgBorrow{Borrower: s.String(), LendId: w.lendA3, PairId: w.lendPairX, AmountIn: coin("ucasset1", 100000000), AmountOut: coin("uasset4", 20000000)}
		}},
		c12ConsVariant{"lend.Borrow", "loan denom=uasset4 on the pair a1->a3", "A", nil, func(w *c12World, s sdk.AccAddress, _ sdk.Context) sdk.Msg {
			return &lendtypes.MsgBorrow{Borrower: s.String(), LendId: w.lendA, PairId: w.lendPairA1A3, AmountIn: coin("ucasset1", 100000000), AmountOut: coin("uasset4", 20000000)}
		}},
		c12ConsVariant{"lend.Draw", "denom=uasset4 on the uasset2 borrow", "A", nil, func(w *c12World, s sdk.AccAddress, _ sdk.Context) sdk.Msg {
			return &lendtypes.MsgDraw{Borrower: s.String(), BorrowId: w.borrowA, Amount: coin("uasset4", 1000000)}
		}},
		c12ConsVariant{"lend.Draw", "denom=uasset2 on the cross-pool uasset4 borrow", "A", nil, func(w *c12World, s sdk.AccAddress, _ sdk.Context) sdk.Msg {
			return &lendtypes.MsgDraw{Borrower: s.String(), BorrowId: w.borrowAX, Amount: coin("uasset2", 1000000)}
		}},
		c12ConsVariant{"lend.Repay", "denom=uasset4 on the uasset2 borrow", "A", nil, func(w *c12World, s sdk.AccAddress, _ sdk.Context) sdk.Msg {
			return &lendtypes.MsgRepay{Borrower: s.String(), BorrowId: w.borrowA, Amount: coin("uasset4", 1000000)}
		}},
		c12ConsVariant{"lend.Repay", "denom=uasset4, amount = the exact uasset2 debt (close shortcut)", "A", nil, func(w *c12World, s sdk.AccAddress, ctx sdk.Context) sdk.Msg {
			b, _ := w.app.LendKeeper.GetBorrow(ctx, w.borrowA)
			return &lendtypes.MsgRepay{Borrower: s.String(), BorrowId: w.borrowA, Amount: sdk.NewCoin("uasset4", b.AmountOut.Amount.Add(b.InterestAccumulated.TruncateInt()))}
		}},
		c12ConsVariant{"lend.DepositBorrow", "denom=ucasset3 on the ucasset1-collateral borrow", "A", nil, func(w *c12World, s sdk.AccAddress, _ sdk.Context) sdk.Msg {
			return &lendtypes.MsgDepositBorrow{Borrower: s.String(), BorrowId: w.borrowA, Amount: coin("ucasset3", 1000000)}
		}},
		// liquidity: pool id vs app id, farm coin vs pool
		c12ConsVariant{"liquidity.Farm", "app=vault app", "A", nil, func(w *c12World, s sdk.AccAddress, _ sdk.Context) sdk.Msg {
			return liquiditytypes.NewMsgFarm(w.appVault, w.liqPool, s, sdk.NewCoin(w.poolCoinDenom, i(1000000)))
		}},
		c12ConsVariant{"liquidity.Farm", "coin=uasset1 instead of the pool coin", "A", nil, func(w *c12World, s sdk.AccAddress, _ sdk.Context) sdk.Msg {
			return liquiditytypes.NewMsgFarm(w.appLiq, w.liqPool, s, coin("uasset1", 1000000))
		}},
		c12ConsVariant{"liquidity.Unfarm", "app=vault app", "A", nil, func(w *c12World, s sdk.AccAddress, _ sdk.Context) sdk.Msg {
			return liquiditytypes.NewMsgUnfarm(w.appVault, w.liqPool, s, sdk.NewCoin(w.poolCoinDenom, i(1000000)))
		}},
		c12ConsVariant{"liquidity.Unfarm", "coin=uasset1 instead of the pool coin", "A", nil, func(w *c12World, s sdk.AccAddress, _ sdk.Context) sdk.Msg {
			return liquiditytypes.NewMsgUnfarm(w.appLiq, w.liqPool, s, coin("uasset1", 1000000))
		}},
		c12ConsVariant{"liquidity.CancelOrder", "app=vault app", "A", nil, func(w *c12World, s sdk.AccAddress, _ sdk.Context) sdk.Msg {
			return liquiditytypes.NewMsgCancelOrder(w.appVault, s, w.liqPair, w.orderA)
		}},
		// limit bid: denom vs the stored bid
		c12ConsVariant{"auctionsV2.MsgWithdrawLimitBid", "denom=uasset1 on the uasset2 bid", "A", nil, func(w *c12World, s sdk.AccAddress, _ sdk.Context) sdk.Msg {
			return &auctionsV2types.MsgWithdrawLimitBidRequest{CollateralTokenId: w.a1, DebtTokenId: w.a2, PremiumDiscount: i(5), Bidder: s.String(), Amount: coin("uasset1", 1000000)}
		}},
		// liquidation / gen-1 auction: app id vs the vault's / the auction's app
		c12ConsVariant{"liquidation.MsgLiquidateVault", "app=another liquidation-enabled app", "B", func(w *c12World, ctx sdk.Context) {
			c12Unhealthy(w, ctx)
			_ = w.app.LiquidationKeeper.WasmWhitelistAppIDLiquidation(ctx, w.appLend)
		}, func(w *c12World, s sdk.AccAddress, _ sdk.Context) sdk.Msg {
			return &liquidationtypes.MsgLiquidateVaultRequest{From: s.String(), AppId: w.appLend, VaultId: w.vaultA}
		}},
	)
	gen1 := func(w *c12World, ctx sdk.Context) {
		c12Unhealthy(w, ctx)
		w.mustDeliver(ctx, &liquidationtypes.MsgLiquidateVaultRequest{From: w.B.String(), AppId: w.appVault, VaultId: w.vaultA}, "gen-1 auction")
	}
	for _, v := range []struct {
		variant      string
		app, mapping func(w *c12World, a auctiontypes.DutchAuction) uint64
	}{
		{"app=lend app", func(w *c12World, a auctiontypes.DutchAuction) uint64 { return w.appLend }, func(w *c12World, a auctiontypes.DutchAuction) uint64 { return a.AuctionMappingId }},
		{"mapping id=another auction type", func(w *c12World, a auctiontypes.DutchAuction) uint64 { return a.AppId }, func(w *c12World, a auctiontypes.DutchAuction) uint64 { return a.AuctionMappingId - 1 }},
	} {
		v := v
		out = append(out, c12ConsVariant{"auction.MsgPlaceDutchBid", v.variant, "B", gen1, func(w *c12World, s sdk.AccAddress, ctx sdk.Context) sdk.Msg {
			as := w.app.AuctionKeeper.GetDutchAuctions(ctx, w.appVault)
			if len(as) == 0 {
				w.t.Fatalf("no gen-1 dutch auction")
			}
			return &auctiontypes.MsgPlaceDutchBidRequest{AuctionId: as[0].AuctionId, Bidder: s.String(), Amount: coin("uasset1", 1000000), AppId: v.app(w, as[0]), AuctionMappingId: v.mapping(w, as[0])}
		}})
	}
	return out
}

func c12Consistency(t *testing.T, tr *Trace, w *c12World) {
	cells := 0
	for _, v := range c12ConsVariants() {
		for _, days := range []int{0, 30} {
			c := c12Case{handler: v.handler, owner: v.who, app: "vault", prep: v.prep}
			ctx := w.stage(c12Scn{esm: "none", price: "all", days: days}, c)
			msg := v.mk(w, w.actor(v.who), ctx)
			before := w.dump(ctx)
			r := w.deliver(ctx, before, "", msg)
			scn := fmt.Sprintf("cons/d%d/%s", days, v.who)
			tr.Line("grd.begin", v.handler, scn+"/"+v.variant)
			kind := "cons"
			if strings.Contains(v.variant, "(close shortcut)") {
				// Known quirk of the unchanged code, recorded but not monitored (notes/C12.md): RepayAsset's exact-debt shortcut
				// runs CloseBorrow before the denom of the payment is looked at; the OWNER's borrow is closed and paid in the
				// borrow's own denom although the message names another denom. No id is involved, the signer is the owner.
				kind = "info"
			}
			tr.Line("grd.cons", v.handler, scn, kind+": "+v.variant, r.outcome, c12b01(r.parentEmpty))
			tr.Count("cons:" + v.handler + ":" + r.outcome)
			cells++
			if r.outcome == "ok" {
				t.Logf("consistency: %s (%s) accepted, changed %v", v.handler, v.variant, r.changed)
			}
		}
	}
	tr.Set("consistency_cells", cells)
}

func c12KillSwitch(t *testing.T, tr *Trace, w *c12World) {
	c := c12Case{handler: "esm.MsgKillSwitch", owner: "admin", app: "vault"}
	for _, on := range []bool{true, false} {
		for _, signer := range []string{"admin", "A", "B", "C"} {
			who := w.actor(signer)
			msg := &esmtypes.MsgKillRequest{From: who.String(), KillSwitchParams: &esmtypes.KillSwitchParams{AppId: w.appVault, BreakerEnable: on}}
			ctx := w.stage(c12Scn{esm: "none", price: "all", brk: !on}, c)
			before := w.dump(ctx)
			r := w.deliver(ctx, before, w.victimProj(ctx), msg)
			tr.Line("grd.begin", c.handler, "kill/"+signer+"/"+c12b01(on))
			tr.Line("grd.msg", c.handler, "kill/"+signer+"/"+c12b01(on), "1", "0", c12b01(signer == "admin"), c12b01(!on), "none", "", "", "inactive", c12b01(signer == "admin"),
				r.outcome, c12b01(r.parentEmpty), c12b01(r.branchClean), c12b01(r.victimSame))
			tr.Count("kill:" + signer + ":" + r.outcome)
		}
	}
}

// ---------------------------------------------------------------------------------------------
// custom wasm messages

type c12Sink struct{}

func (c12Sink) DispatchMsg(ctx sdk.Context, contractAddr sdk.AccAddress, contractIBCPortID string, msg wasmvmtypes.CosmosMsg) ([]sdk.Event, [][]byte, error) {
	return nil, nil, fmt.Errorf("c12: fell through to the wrapped messenger")
}

var c12WasmLists = map[string][2]string{
	"comdex-1":     {"comdex17p9rzwnnfxcjp32un9ug7yhhzgtkhvl9jfksztgw5uh69wac2pgs4jg6dx", "comdex1nc5tatafv6eyq7llkr2gv50ff9e22mnf70qgjlv737ktmt4eswrqdfklyz"},
	"comdex-test3": {"comdex1qwlgtx52gsdu7dtp0cekka5zehdl0uj3fhp9acg325fvgs8jdzksjvgq6q", "comdex1ghd753shjuwexxywmgs4xz7x2q732vcnkm6h2pyv9s6ah3hylvrqfy9rd8"},
}

type c12WasmCase struct {
	variant string
	idx     int // index of the designated contract
	mk      func(w *c12World, sender sdk.AccAddress) bindings.ComdexMessages
	prep    func(w *c12World, ctx sdk.Context, sender sdk.AccAddress)
}

func c12WasmCatalogue() []c12WasmCase {
	i := sdk.NewInt
	return []c12WasmCase{
		{"MsgWhiteListAssetLocker", 0, func(w *c12World, s sdk.AccAddress) bindings.ComdexMessages {
			return bindings.ComdexMessages{MsgWhiteListAssetLocker: &bindings.MsgWhiteListAssetLocker{AppID: w.appVault, AssetID: w.a3}}
		}, nil},
		{"MsgWhitelistAppIDLockerRewards", 0, func(w *c12World, s sdk.AccAddress) bindings.ComdexMessages {
			return bindings.ComdexMessages{MsgWhitelistAppIDLockerRewards: &bindings.MsgWhitelistAppIDLockerRewards{AppID: w.appVault, AssetID: w.a2}}
		}, nil},
		{"MsgWhitelistAppIDVaultInterest", 0, func(w *c12World, s sdk.AccAddress) bindings.ComdexMessages {
			return bindings.ComdexMessages{MsgWhitelistAppIDVaultInterest: &bindings.MsgWhitelistAppIDVaultInterest{AppID: w.appVault}}
		}, nil},
		{"MsgAddExtendedPairsVault", 0, func(w *c12World, s sdk.AccAddress) bindings.ComdexMessages {
			return bindings.ComdexMessages{MsgAddExtendedPairsVault: &bindings.MsgAddExtendedPairsVault{
				AppID: w.appVault, PairID: 1, StabilityFee: sdk.NewDecWithPrec(2, 2), ClosingFee: sdk.NewDec(0), LiquidationPenalty: sdk.NewDecWithPrec(15, 2),
				DrawDownFee: sdk.NewDecWithPrec(1, 2), IsVaultActive: true, DebtCeiling: i(1000000000000), DebtFloor: i(1000000), MinCr: sdk.NewDecWithPrec(23, 1),
				PairName: "AONE-NEW", AssetOutOraclePrice: true, AssetOutPrice: 1000000, MinUsdValueLeft: 1000000}}
		}, nil},
		{"MsgSetCollectorLookupTable", 0, func(w *c12World, s sdk.AccAddress) bindings.ComdexMessages {
			return bindings.ComdexMessages{MsgSetCollectorLookupTable: &bindings.MsgSetCollectorLookupTable{
				AppID: w.appVault, CollectorAssetID: w.a1, SecondaryAssetID: w.a3, SurplusThreshold: i(10000000), DebtThreshold: i(5000000),
				LockerSavingRate: c12Dec("0.1"), LotSize: i(2000000), BidFactor: c12Dec("0.01"), DebtLotSize: i(2000000)}}
		}, nil},
		{"MsgSetAuctionMappingForApp", 0, func(w *c12World, s sdk.AccAddress) bindings.ComdexMessages {
			return bindings.ComdexMessages{MsgSetAuctionMappingForApp: &bindings.MsgSetAuctionMappingForApp{
				AppID: w.appVault, AssetIDs: w.a2, IsSurplusAuctions: true, IsDebtAuctions: false, IsDistributor: false, AssetOutOraclePrices: false, AssetOutPrices: 1000000}}
		}, nil},
		{"MsgUpdatePairsVault", 0, func(w *c12World, s sdk.AccAddress) bindings.ComdexMessages {
			return bindings.ComdexMessages{MsgUpdatePairsVault: &bindings.MsgUpdatePairsVault{
				AppID: w.appVault, ExtPairID: w.extPair, StabilityFee: sdk.NewDecWithPrec(3, 2), ClosingFee: sdk.NewDec(0), LiquidationPenalty: sdk.NewDecWithPrec(15, 2),
				DrawDownFee: sdk.NewDecWithPrec(1, 2), IsVaultActive: true, MinCr: sdk.NewDecWithPrec(23, 1), DebtCeiling: i(1000000000000000000), DebtFloor: i(100000000), MinUsdValueLeft: 1000000}}
		}, nil},
		{"MsgUpdateCollectorLookupTable", 0, func(w *c12World, s sdk.AccAddress) bindings.ComdexMessages {
			return bindings.ComdexMessages{MsgUpdateCollectorLookupTable: &bindings.MsgUpdateCollectorLookupTable{
				AppID: w.appVault, AssetID: w.a2, DebtThreshold: i(5000001), SurplusThreshold: i(10000001), LotSize: i(2000000), DebtLotSize: i(2000000), BidFactor: c12Dec("0.01"), LSR: c12Dec("0.1")}}
		}, nil},
		{"MsgRemoveWhitelistAssetLocker", 0, func(w *c12World, s sdk.AccAddress) bindings.ComdexMessages {
			return bindings.ComdexMessages{MsgRemoveWhitelistAssetLocker: &bindings.MsgRemoveWhitelistAssetLocker{AppID: w.appVault, AssetID: w.a2}}
		}, func(w *c12World, ctx sdk.Context, s sdk.AccAddress) {
			_, _ = w.app.Rewardskeeper.Whitelist(ctx, &rewardstypes.WhitelistAsset{From: s.String(), AppMappingId: w.appVault, AssetId: w.a2})
		}},
		{"MsgRemoveWhitelistAppIDVaultInterest", 0, func(w *c12World, s sdk.AccAddress) bindings.ComdexMessages {
			return bindings.ComdexMessages{MsgRemoveWhitelistAppIDVaultInterest: &bindings.MsgRemoveWhitelistAppIDVaultInterest{AppMappingID: w.appVault}}
		}, func(w *c12World, ctx sdk.Context, s sdk.AccAddress) {
			_, _ = w.app.Rewardskeeper.WhitelistAppVault(ctx, &rewardstypes.WhitelistAppIdVault{From: s.String(), AppMappingId: w.appVault})
		}},
		{"MsgWhitelistAppIDLiquidation", 0, func(w *c12World, s sdk.AccAddress) bindings.ComdexMessages {
			return bindings.ComdexMessages{MsgWhitelistAppIDLiquidation: &bindings.MsgWhitelistAppIDLiquidation{AppID: w.appVault}}
		}, nil},
		{"MsgRemoveWhitelistAppIDLiquidation", 0, func(w *c12World, s sdk.AccAddress) bindings.ComdexMessages {
			return bindings.ComdexMessages{MsgRemoveWhitelistAppIDLiquidation: &bindings.MsgRemoveWhitelistAppIDLiquidation{AppID: w.appVault}}
		}, func(w *c12World, ctx sdk.Context, s sdk.AccAddress) {
			_ = w.app.LiquidationKeeper.WasmWhitelistAppIDLiquidation(ctx, w.appVault)
		}},
		{"MsgAddAuctionParams", 0, func(w *c12World, s sdk.AccAddress) bindings.ComdexMessages {
			return bindings.ComdexMessages{MsgAddAuctionParams: &bindings.MsgAddAuctionParams{
				AppID: w.appVault, AuctionDurationSeconds: 300, Buffer: c12Dec("1.2"), Cusp: c12Dec("0.6"), Step: 1, PriceFunctionType: 1, SurplusID: 1, DebtID: 2, DutchID: 3, BidDurationSeconds: 300}}
		}, nil},
		{"MsgBurnGovTokensForApp", 0, func(w *c12World, s sdk.AccAddress) bindings.ComdexMessages {
			return bindings.ComdexMessages{MsgBurnGovTokensForApp: &bindings.MsgBurnGovTokensForApp{AppID: w.appGov, From: s, Amount: coin("ugov", 1000)}}
		}, func(w *c12World, ctx sdk.Context, s sdk.AccAddress) {
			_ = w.app.BankKeeper.SendCoins(ctx, w.B, s, sdk.NewCoins(coin("ugov", 100000)))
		}},
		{"MsgAddESMTriggerParams", 0, func(w *c12World, s sdk.AccAddress) bindings.ComdexMessages {
			return bindings.ComdexMessages{MsgAddESMTriggerParams: &bindings.MsgAddESMTriggerParams{
				AppID: w.appVault, TargetValue: coin("uasset3", 1000000), CoolOffPeriod: 3600, AssetID: []uint64{w.a1, w.a2}, Rates: []uint64{1000000, 1000000}}}
		}, nil},
		{"MsgEmissionRewards", 1, func(w *c12World, s sdk.AccAddress) bindings.ComdexMessages {
			return bindings.ComdexMessages{MsgEmissionRewards: &bindings.MsgEmissionRewards{
				AppID: w.appGov, Amount: i(1000000), EmissionAmount: 1000000, ExtendedPair: []uint64{w.extPair}, VotingRatio: []sdk.Int{i(100)}}}
		}, nil},
		{"MsgFoundationEmission", 1, func(w *c12World, s sdk.AccAddress) bindings.ComdexMessages {
			return bindings.ComdexMessages{MsgFoundationEmission: &bindings.MsgFoundationEmission{AppID: w.appGov, Amount: i(1000), FoundationAddress: []string{w.C.String()}}}
		}, nil},
		{"MsgRebaseMint", 1, func(w *c12World, s sdk.AccAddress) bindings.ComdexMessages {
			return bindings.ComdexMessages{MsgRebaseMint: &bindings.MsgRebaseMint{AppID: w.appGov, Amount: i(1000), ContractAddr: s}}
		}, nil},
		{"MsgGetSurplusFund", 1, func(w *c12World, s sdk.AccAddress) bindings.ComdexMessages {
			return bindings.ComdexMessages{MsgGetSurplusFund: &bindings.MsgGetSurplusFund{AppID: w.appVault, AssetID: w.a2, ContractAddr: s, Amount: coin("uasset2", 1000)}}
		}, nil},
		{"MsgEmissionPoolRewards", 1, func(w *c12World, s sdk.AccAddress) bindings.ComdexMessages {
			return bindings.ComdexMessages{MsgEmissionPoolRewards: &bindings.MsgEmissionPoolRewards{AppID: w.appGov, CswapAppID: w.appLiq, Amount: i(1000000), Pools: []uint64{w.liqPool}, VotingRatio: []sdk.Int{i(100)}}}
		}, nil},
	}
}

func c12Wasm(t *testing.T, tr *Trace, w *c12World) {
	messenger := cwasm.CustomMessageDecorator(w.app.LockerKeeper, w.app.Rewardskeeper, w.app.AssetKeeper, w.app.CollectorKeeper, w.app.LiquidationKeeper,
		w.app.AuctionKeeper, w.app.TokenmintKeeper, w.app.EsmKeeper, w.app.VaultKeeper, w.app.LiquidityKeeper)(c12Sink{})
	chains := []string{"comdex-1", "comdex-test3", "comdex-dev-1", "comdex-test2", ""}
	for _, c := range c12WasmCatalogue() {
		for _, chainID := range chains {
			type snd struct {
				kind string
				addr sdk.AccAddress
			}
			var senders []snd
			if l, ok := c12WasmLists[chainID]; ok {
				d, err := sdk.AccAddressFromBech32(l[c.idx])
				if err != nil {
					t.Fatalf("bech32 %s: %v", l[c.idx], err)
				}
				o, _ := sdk.AccAddressFromBech32(l[1-c.idx])
				senders = append(senders, snd{"designated", d}, snd{"otherContract", o})
				for net, l2 := range c12WasmLists {
					if net != chainID {
						x, _ := sdk.AccAddressFromBech32(l2[c.idx])
						senders = append(senders, snd{"otherNetContract", x})
					}
				}
			} else {
				d, _ := sdk.AccAddressFromBech32(c12WasmLists["comdex-1"][c.idx])
				senders = append(senders, snd{"mainnetContract", d})
			}
			senders = append(senders, snd{"random", w.B}, snd{"random", c12Addr(0x77)})
			for _, s := range senders {
				ctx, _ := w.ctx.CacheContext()
				ctx = ctx.WithChainID(chainID)
				if c.prep != nil {
					c.prep(w, ctx, s.addr)
				}
				before := w.dump(ctx)
				tx, _ := ctx.CacheContext()
				raw, err := json.Marshal(c.mk(w, s.addr))
				if err != nil {
					t.Fatalf("marshal %s: %v", c.variant, err)
				}
				var derr error
				msgCtx, write := tx.CacheContext()
				panicked, pmsg := try(func() {
					_, _, derr = messenger.DispatchMsg(msgCtx, s.addr, "", wasmvmtypes.CosmosMsg{Custom: raw})
				})
				outcome := "ok"
				switch {
				case panicked:
					outcome = "panic"
					derr = fmt.Errorf("%s", pmsg)
				case derr == sdkerrors.ErrInvalidAddress:
					outcome = "err:guard"
				case derr != nil:
					outcome = "err:inner"
				default:
					write()
				}
				empty := len(diffStores(before, w.dump(tx))) == 0
				tr.Line("grd.begin", c.variant, chainID+"/"+s.kind)
				tr.Line("grd.wasm", c.variant, chainID, s.kind, s.addr.String(), c12b01(s.kind == "designated"), outcome, c12b01(empty))
				tr.Count("wasm:" + s.kind + ":" + outcome)
				if s.kind == "designated" && outcome != "ok" {
					t.Logf("wasm %s on %s by designated contract: %s: %v", c.variant, chainID, outcome, derr)
				}
				if s.kind != "designated" && chainID != "comdex-dev-1" && chainID != "comdex-test2" && chainID != "" && outcome != "err:guard" {
					t.Logf("wasm %s on %s by %s: %s %v", c.variant, chainID, s.kind, outcome, derr)
				}
			}
		}
	}
}

// ---------------------------------------------------------------------------------------------
// C14: control matrix and sweeps

func TestC14(t *testing.T) {
	tr := OpenTrace(t, "c14.trace")
	defer tr.Close(t)
	c12Seed(tr)
	w := c12Build(t)
	cat := append(c12Catalogue(), c14ExtraCatalogue()...)
	w.computeNeeds(cat, tr)
	prices := []string{"all", "none"}
	days := []int{0}
	if thorough() {
		days = []int{0, 30}
	}
	for _, d := range days {
		for _, c := range cat {
			for _, brk := range []bool{false, true} {
				for _, esmS := range []string{"none", "in", "after"} {
					for _, pr := range prices {
						scn := c12Scn{brk: brk, esm: esmS, price: pr, days: d}
						ctx := w.stage(scn, c)
						before := w.dump(ctx)
						r := w.deliver(ctx, before, w.victimProj(ctx), c.mk(w, w.actor(c.owner)))
						base := !brk && esmS == "none" && pr == "all"
						if c.handler == "vault.MsgWithdraw" && !brk && esmS == "in" {
							base = true // possible until the cool-off period ends (the ESM price snapshot is used)
						}
						w.emit(tr, c, fmt.Sprintf("ctl/d%d/brk%s/esm-%s/price-%s", d, c12b01(brk), esmS, pr), c.owner, false, scn, base, r)
						if base && r.outcome != "ok" {
							t.Logf("baseline %s failed: %s", c.handler, r.errText)
						}
					}
				}
			}
		}
	}
	// control RECORD states: a control that is off may have no record at all (the default above) or a record whose flag is false;
	// the controls of ANOTHER app must not matter. (Seeded changes gated a breaker test by the ESM record's `found`.)
	for _, c := range cat {
		for _, scn := range []c12Scn{
			{esm: "none", price: "all", recs: "false"},             // both records present, both flags false: must succeed
			{brk: true, esm: "none", price: "all", recs: "false"},  // breaker on, ESM record present with Status=false
			{esm: "in", price: "all", recs: "false"},               // kill-switch record present with BreakerEnable=false, ESM executed
			{esm: "none", price: "all", recs: "otherapp"},          // another app's breaker on and ESM executed: must succeed
			{brk: true, esm: "in", price: "all", recs: "otherapp"}, // breaker on + ESM executed (+ another app's too)
			{brk: true, esm: "none", price: "all", recs: "viamsg"}, // breaker switched on by the admin's real MsgKillSwitch
		} {
			ctx := w.stage(scn, c)
			before := w.dump(ctx)
			r := w.deliver(ctx, before, w.victimProj(ctx), c.mk(w, w.actor(c.owner)))
			base := !scn.brk && scn.esm == "none"
			if c.handler == "esm.ExecuteESM" && scn.recs == "false" {
				base = false // keeper.go:146-149 refuses when an ESM status RECORD exists, whatever its flag (no message creates a false one)
			}
			w.emit(tr, c, fmt.Sprintf("rec/%s/brk%s/esm-%s", scn.recs, c12b01(scn.brk), scn.esm), c.owner, false, scn, base, r)
			tr.Count("rec_cells")
			if base && r.outcome != "ok" {
				t.Logf("record-state baseline %s (%s) failed: %s", c.handler, scn.recs, r.errText)
			}
		}
	}
	// what it takes to trigger the shutdown / switch the breaker: DepositESM / ExecuteESM / MsgKillSwitch preconditions (shared with C12)
	c12Preconditions(t, tr, w)
	c14PriceSubsets(t, tr, w, cat)
	c14TimeWindows(t, tr, w)
	c14Units(t, tr, w)
	c14Sweeps(t, tr, w)
	c14CrossApp(t, tr, w)
	if thorough() {
		// the same control settings through the real DeliverTx (baseapp's own message cache) for every handler the property names
		for ci, c := range cat {
			if c.app == "solo" {
				continue // its staging computes ids relative to the shared world; the DeliverTx cases build a world of their own
			}
			scns := []c12Scn{{brk: true, esm: "none", price: "all"}}
			if c.app == "vault" {
				scns = append(scns, c12Scn{esm: "in", price: "all"}, c12Scn{esm: "after", price: "all"})
			}
			if n := w.needs[c.key()]; len(n) > 0 {
				scns = append(scns, c12Scn{esm: "none", price: "none"}, c12Scn{esm: "none", price: n[len(n)-1]}, c12Scn{esm: "none", price: n[0], missing: true})
			}
			scns = append(scns, c12Scn{esm: "none", price: "all"})
			for si, scn := range scns {
				base := !scn.brk && scn.esm == "none" && scn.price == "all"
				c12TxCase(t, tr, c, c.owner, fmt.Sprintf("txctl/%d/%d/brk%s/esm-%s/price-%s", ci, si, c12b01(scn.brk), scn.esm, scn.price), scn, base)
			}
		}
	}
	tr.Line("grd.end", "C14")
}

// c14PriceSubsets: "for every subset of assets whose price feed is inactive". For every message shape whose handler reads
// prices (observed read set N, printed in the trace): each single asset of N off, all of N off, every asset off (thorough:
// every non-empty subset of N) — once as `IsPriceActive=false`, once with the TWA record missing altogether — and the
// complement (every asset NOT in N off: the message must still succeed, i.e. N is complete).
func c14PriceSubsets(t *testing.T, tr *Trace, w *c12World, cat []c12Case) {
	cells := 0
	for _, c := range cat {
		n := w.needs[c.key()]
		if len(n) == 0 {
			continue
		}
		var subsets [][]string
		if thorough() {
			for m := 1; m < 1<<len(n); m++ {
				var sub []string
				for j, x := range n {
					if m&(1<<j) != 0 {
						sub = append(sub, x)
					}
				}
				subsets = append(subsets, sub)
			}
		} else {
			for _, x := range n {
				subsets = append(subsets, []string{x})
			}
			if len(n) > 1 {
				subsets = append(subsets, n)
			}
		}
		subsets = append(subsets, c12AssetNames)
		var rest []string
		for _, a := range c12AssetNames {
			in := false
			for _, x := range n {
				if x == a {
					in = true
				}
			}
			if !in {
				rest = append(rest, a)
			}
		}
		run := func(sub []string, missing, base bool) {
			scn := c12Scn{esm: "none", price: strings.Join(sub, ","), missing: missing}
			ctx := w.stage(scn, c)
			before := w.dump(ctx)
			r := w.deliver(ctx, before, w.victimProj(ctx), c.mk(w, w.actor(c.owner)))
			w.emit(tr, c, fmt.Sprintf("price/%s/off-%s/%s", c.tag, scn.price, scn.mode()), c.owner, false, scn, base, r)
			cells++
			tr.Count("pricecell:" + c.key())
			tr.Count("pricecell-outcome:" + r.outcome)
			if !base && (r.outcome == "ok" || !r.parentEmpty) {
				t.Logf("price subset: %s with %v %s: %s changed=%v", c.key(), sub, scn.mode(), r.outcome, r.changed)
			}
			if base && r.outcome != "ok" {
				t.Logf("price subset: %s with only the unneeded feeds %v %s failed: %s", c.key(), sub, scn.mode(), r.errText)
			}
		}
		for _, sub := range subsets {
			run(sub, false, false)
			run(sub, true, false)
		}
		run(rest, false, true)
		run(rest, true, true)
	}
	tr.Set("price_cells", cells)
}

// ---------------------------------------------------------------------------------------------
// time-window guards at nanosecond resolution

// c14TimeWindows: the ESM cool-off end T is a full time value (nanoseconds). Vault withdrawal is allowed until T
// (`BlockTime().After(EndTime) && status` refuses it), collateral redemption from T on (`BlockTime().Before(EndTime) && status`
// refuses it). Each window is probed at T−1 ns, T, T+1 ns, T+400 ms, T+999 ms, T+1 s (and T−1 s), for an end time on a whole
// second and for end times that are not.
func c14TimeWindows(t *testing.T, tr *Trace, w *c12World) {
	deltas := []time.Duration{-time.Second, -time.Nanosecond, 0, time.Nanosecond, 400 * time.Millisecond, 999 * time.Millisecond, time.Second, time.Hour}
	fracs := []time.Duration{0, 123456789 * time.Nanosecond, 999999999 * time.Nanosecond, 500 * time.Millisecond}
	cells := 0
	type win struct {
		handler, kind string // kind "until": allowed while now <= T; "from": allowed when now >= T
		who           string
		mk            func(w *c12World, s sdk.AccAddress) sdk.Msg
		closedErr     error
	}
	wins := []win{
		{"vault.MsgWithdraw", "until", "A", func(w *c12World, s sdk.AccAddress) sdk.Msg {
			return &vaulttypes.MsgWithdrawRequest{From: s.String(), AppId: w.appVault, ExtendedPairVaultId: w.extPair, UserVaultId: w.vaultA, Amount: sdk.NewInt(1000000)}
		}, esmtypes.ErrCoolOffPeriodPassed},
		{"esm.MsgCollateralRedemption", "from", "B", func(w *c12World, s sdk.AccAddress) sdk.Msg {
			return &esmtypes.MsgCollateralRedemptionRequest{AppId: w.appVault, Amount: coin("uasset2", 1000000), From: s.String()}
		}, esmtypes.ErrCoolOffPeriodRemains},
	}
	for _, wn := range wins {
		for _, frac := range fracs {
			for _, d := range deltas {
				ctx, _ := w.ctx.CacheContext()
				start := w.ctx.BlockTime().Add(time.Minute)
				end := start.Add(time.Hour).Truncate(time.Second).Add(frac)
				ctx = ctx.WithBlockTime(start).WithBlockHeight(w.ctx.BlockHeight() + 10)
				w.app.EsmKeeper.SetESMStatus(ctx, esmtypes.ESMStatus{AppId: w.appVault, Executor: w.B.String(), Status: true, StartTime: start, EndTime: end})
				esm.BeginBlocker(ctx, abci.RequestBeginBlock{}, w.app.EsmKeeper, w.app.AssetKeeper) // price snapshot, as one block after ExecuteESM
				ctx = ctx.WithBlockTime(end.Add(d)).WithBlockHeight(ctx.BlockHeight() + 600)
				msg := wn.mk(w, w.actor(wn.who))
				before := w.dump(ctx)
				// deliver, keeping the error value to tell the window guard's own error from any other
				tx, _ := ctx.CacheContext()
				var err error
				panicked, _ := try(func() {
					if err = msg.ValidateBasic(); err != nil {
						return
					}
					mctx, write := tx.CacheContext()
					if _, err = w.app.MsgServiceRouter().Handler(msg)(mctx, msg); err == nil {
						write()
					}
				})
				outcome := "ok"
				switch {
				case panicked:
					outcome = "panic"
				case err != nil && errors.Is(err, wn.closedErr):
					outcome = "err:window"
				case err != nil:
					outcome = "err:other"
				}
				empty := len(diffStores(before, w.dump(tx))) == 0
				scn := fmt.Sprintf("end+%dns/delta%+dns", frac.Nanoseconds(), d.Nanoseconds())
				tr.Line("grd.begin", wn.handler, scn)
				tr.Line("grd.time", wn.handler, wn.kind, fmt.Sprint(end.UnixNano()), fmt.Sprint(d.Nanoseconds()), outcome, c12b01(empty))
				tr.Count("time:" + wn.handler + ":" + outcome)
				cells++
			}
		}
	}
	tr.Set("time_cells", cells)
}

// ---------------------------------------------------------------------------------------------
// begin-block units that read prices: liquidation sweep of the fixed-price-debt vault, auction price update / restart

type c14Unit struct {
	name  string
	stage func(w *c12World, ctx sdk.Context) sdk.Context // brings the state to just before the unit (all feeds active)
	run   func(w *c12World, ctx sdk.Context)
	foot  func(w *c12World, ctx sdk.Context) string // the records the unit works on
	needs func(w *c12World) []string               // nil: observe the unit's own reads with the store tracer
}

func (w *c12World) v2Foot(ctx sdk.Context) string {
	var b bytes.Buffer
	_, ok := w.app.VaultKeeper.GetVault(ctx, w.vaultF)
	fmt.Fprintf(&b, "vaultF=%v;", ok)
	mine := map[uint64]bool{}
	for _, lv := range w.app.NewliqKeeper.GetLockedVaults(ctx) {
		if lv.OriginalVaultId == w.vaultF && lv.ExtendedPairId == w.fixedPair {
			fmt.Fprintf(&b, "locked%d=%s/%s;", lv.LockedVaultId, lv.CollateralToken, lv.TargetDebt)
			mine[lv.LockedVaultId] = true
		}
	}
	for _, a := range w.app.NewaucKeeper.GetAuctions(ctx) {
		if !mine[a.LockedVaultId] || a.AppId != w.appVault {
			continue // the sweep also works on other positions; only vault F's auction is this unit's footprint
		}
		fmt.Fprintf(&b, "auc%d=%s/%s/%s/%s/%d/%d;", a.AuctionId, a.CollateralTokenAuctionPrice, a.CollateralTokenOraclePrice, a.DebtTokenOraclePrice, a.CollateralToken, a.StartTime.Unix(), a.EndTime.Unix())
	}
	return b.String()
}

func (w *c12World) v1Foot(ctx sdk.Context) string {
	var b bytes.Buffer
	for _, a := range w.app.AuctionKeeper.GetDutchAuctions(ctx, w.appVault) {
		fmt.Fprintf(&b, "dutch%d=%s/%s/%s/%s/%d/%d;", a.AuctionId, a.OutflowTokenCurrentPrice, a.OutflowTokenInitialPrice, a.InflowTokenCurrentPrice, a.OutflowTokenCurrentAmount, a.StartTime.Unix(), a.EndTime.Unix())
	}
	return b.String()
}

func (w *c12World) mustDeliver(ctx sdk.Context, m sdk.Msg, what string) {
	h := w.app.MsgServiceRouter().Handler(m)
	if h == nil {
		w.t.Fatalf("%s: no handler", what)
	}
	if _, err := h(ctx, m); err != nil {
		w.t.Fatalf("%s: %v", what, err)
	}
}

func c14UnitCatalogue() []c14Unit {
	after := func(ctx sdk.Context, d time.Duration) sdk.Context {
		return ctx.WithBlockTime(ctx.BlockTime().Add(d)).WithBlockHeight(ctx.BlockHeight() + 1 + int64(d/(6*time.Second)))
	}
	startV2 := func(w *c12World, ctx sdk.Context) {
		c12Unhealthy(w, ctx)
		w.mustDeliver(ctx, &liquidationsV2types.MsgLiquidateInternalKeeperRequest{From: w.B.String(), LiqType: 0, Id: w.vaultF}, "start v2 auction")
	}
	startV1 := func(vault func(w *c12World) uint64) func(w *c12World, ctx sdk.Context) {
		return func(w *c12World, ctx sdk.Context) {
			c12Unhealthy(w, ctx)
			w.mustDeliver(ctx, &liquidationtypes.MsgLiquidateVaultRequest{From: w.B.String(), AppId: w.appVault, VaultId: vault(w)}, "start gen-1 auction")
		}
	}
	runV2Auc := func(w *c12World, ctx sdk.Context) { auctionsV2.BeginBlocker(ctx, w.app.NewaucKeeper) }
	runV1Auc := func(w *c12World, ctx sdk.Context) {
		auction.BeginBlocker(ctx, w.app.AuctionKeeper, w.app.AssetKeeper, w.app.CollectorKeeper, w.app.EsmKeeper)
	}
	vF := func(w *c12World) uint64 { return w.vaultF }
	vA := func(w *c12World) uint64 { return w.vaultA }
	return []c14Unit{
		{"liquidationsV2.BeginBlocker/sweep-fixed-price-vault", func(w *c12World, ctx sdk.Context) sdk.Context { c12Unhealthy(w, ctx); return ctx },
			func(w *c12World, ctx sdk.Context) { liquidationsV2.BeginBlocker(ctx, abci.RequestBeginBlock{}, w.app.NewliqKeeper) },
			(*c12World).v2Foot,
			// the sweep visits every position; what vault F's liquidation reads is what the same code reads as a message
			func(w *c12World) []string { return w.needs["liquidationsV2.MsgLiquidateInternalKeeper/fixedvault"] }},
		{"auctionsV2.BeginBlocker/update-dutch", func(w *c12World, ctx sdk.Context) sdk.Context { startV2(w, ctx); return after(ctx, 12*time.Second) }, runV2Auc, (*c12World).v2Foot, nil},
		{"auctionsV2.BeginBlocker/restart-dutch", func(w *c12World, ctx sdk.Context) sdk.Context { startV2(w, ctx); return after(ctx, 2*time.Hour) }, runV2Auc, (*c12World).v2Foot, nil},
		{"auction.BeginBlocker/update-dutch-fixed-price", func(w *c12World, ctx sdk.Context) sdk.Context { startV1(vF)(w, ctx); return after(ctx, 12*time.Second) }, runV1Auc, (*c12World).v1Foot, nil},
		{"auction.BeginBlocker/restart-dutch-fixed-price", func(w *c12World, ctx sdk.Context) sdk.Context { startV1(vF)(w, ctx); return after(ctx, 10*time.Minute) }, runV1Auc, (*c12World).v1Foot, nil},
		{"auction.BeginBlocker/update-dutch-oracle-price", func(w *c12World, ctx sdk.Context) sdk.Context { startV1(vA)(w, ctx); return after(ctx, 12*time.Second) }, runV1Auc, (*c12World).v1Foot, nil},
		{"auction.BeginBlocker/restart-dutch-oracle-price", func(w *c12World, ctx sdk.Context) sdk.Context { startV1(vA)(w, ctx); return after(ctx, 10*time.Minute) }, runV1Auc, (*c12World).v1Foot, nil},
	}
}

// c14Units: every unit × {all feeds on (must change its records), each needed feed off, all needed off, every feed off
// (must leave its records untouched), only the un-needed feeds off (must change)} × {inactive, missing}.
func c14Units(t *testing.T, tr *Trace, w *c12World) {
	cells := 0
	for _, u := range c14UnitCatalogue() {
		fresh := func() sdk.Context {
			ctx, _ := w.ctx.CacheContext()
			ctx = ctx.WithBlockHeight(ctx.BlockHeight() + 3).WithBlockTime(ctx.BlockTime().Add(18 * time.Second))
			return u.stage(w, ctx)
		}
		var needs []string
		if u.needs != nil {
			needs = u.needs(w)
		} else {
			ctx := fresh()
			var buf bytes.Buffer
			tctx := ctx.WithMultiStore(ctx.MultiStore().(interface {
				SetTracer(io.Writer) storetypes.MultiStore
			}).SetTracer(&buf).CacheMultiStore())
			try(func() { u.run(w, tctx) })
			needs = w.readSet(ctx, buf.String())
		}
		var rest []string
		for _, a := range c12AssetNames {
			in := false
			for _, x := range needs {
				in = in || x == a
			}
			if !in {
				rest = append(rest, a)
			}
		}
		subsets := [][]string{nil}
		for _, x := range needs {
			subsets = append(subsets, []string{x})
		}
		if len(needs) > 1 {
			subsets = append(subsets, needs)
		}
		subsets = append(subsets, c12AssetNames, rest)
		for si, sub := range subsets {
			for _, missing := range []bool{false, true} {
				if si == 0 && missing {
					continue
				}
				ctx := fresh()
				scn := c12Scn{price: strings.Join(sub, ","), missing: missing}
				if len(sub) == 0 {
					scn.price = "all"
				}
				w.priceOff(ctx, scn)
				before := u.foot(w, ctx)
				panicked, pmsg := try(func() { u.run(w, ctx) })
				changed := u.foot(w, ctx) != before
				base := si == 0 || si == len(subsets)-1
				tr.Line("grd.begin", u.name, fmt.Sprintf("off-%s/%s", scn.price, scn.mode()))
				tr.Line("grd.unit", u.name, fmt.Sprintf("off-%s/%s", scn.price, scn.mode()), strings.Join(needs, ","), strings.Join(scn.offSet(), ","), scn.mode(), c12b01(base), c12b01(changed), c12b01(panicked))
				tr.Count(fmt.Sprintf("unit:%s:changed=%v", u.name, changed))
				cells++
				if panicked {
					t.Logf("unit %s panicked: %s", u.name, pmsg)
				}
				if base && !changed {
					t.Logf("unit %s (%s) did nothing although every needed feed is on (needs %v)", u.name, scn.price, needs)
				}
				hit := false
				for _, x := range sub {
					for _, n := range needs {
						hit = hit || x == n
					}
				}
				if hit && changed {
					t.Logf("unit %s changed its records with %v %s (needs %v)", u.name, sub, scn.mode(), needs)
				}
			}
		}
	}
	tr.Set("unit_cells", cells)
}

// readSet: the assets whose TWA record (exact key and value as stored in ctx) occurs among the traced reads
func (w *c12World) readSet(ctx sdk.Context, trace string) []string {
	type op struct {
		Operation string `json:"operation"`
		Key       string `json:"key"`
		Value     string `json:"value"`
	}
	read := map[string]bool{}
	for _, ln := range strings.Split(trace, "\n") {
		var o op
		if ln == "" || json.Unmarshal([]byte(ln), &o) != nil || o.Operation != "read" {
			continue
		}
		read[o.Key+"|"+o.Value] = true
	}
	var out []string
	st := ctx.KVStore(w.app.GetKey(markettypes.StoreKey))
	for _, name := range c12AssetNames {
		k := markettypes.TwaKey(w.twaKeys[name])
		v := st.Get(k)
		if v != nil && read[base64.StdEncoding.EncodeToString(k)+"|"+base64.StdEncoding.EncodeToString(v)] {
			out = append(out, name)
		}
	}
	return out
}

// sweepStage: an unhealthy vault and borrow (collateral price drop), liquidation enabled in both generations, auction
// parameters, a collector surplus (asset a2) and a collector debt (asset a1) for the vault app.
func (w *c12World) sweepStage(brkVault, brkLend bool, esmVault string) sdk.Context {
	ctx, _ := w.ctx.CacheContext()
	ctx = ctx.WithBlockHeight(ctx.BlockHeight() + 5).WithBlockTime(ctx.BlockTime().Add(30 * time.Second))
	w.must(w.app.LiquidationKeeper.WasmWhitelistAppIDLiquidation(ctx, w.appVault), "whitelist liquidation")
	for _, app := range []uint64{w.appVault, w.appLend} {
		w.app.AuctionKeeper.SetAuctionParams(ctx, auctiontypes.AuctionParams{AppId: app, AuctionDurationSeconds: 300, Buffer: c12Dec("1.2"), Cusp: c12Dec("0.6"),
			Step: sdk.NewInt(1), PriceFunctionType: 1, SurplusId: 1, DebtId: 2, DutchId: 3, BidDurationSeconds: 300})
		w.app.NewliqKeeper.SetLiquidationWhiteListing(ctx, liquidationsV2types.LiquidationWhiteListing{AppId: app, Initiator: true, IsDutchActivated: true,
			DutchAuctionParam:  &liquidationsV2types.DutchAuctionParam{Premium: c12Dec("0.1"), Discount: c12Dec("0.1"), DecrementFactor: sdk.NewInt(1)},
			IsEnglishActivated: true, EnglishAuctionParam: &liquidationsV2types.EnglishAuctionParam{DecrementFactor: sdk.NewInt(1)}, KeeeperIncentive: c12Dec("0.1")})
	}
	_ = w.app.LendKeeper.AddAuctionParamsData(ctx, lendtypes.AuctionParams{AppId: w.appLend, AuctionDurationSeconds: 21600, Buffer: c12Dec("1.2"), Cusp: c12Dec("0.7"),
		Step: sdk.NewInt(360), PriceFunctionType: 1, DutchId: 3, BidDurationSeconds: 3600})
	// collector: surplus on a2, debt on a1
	w.must(w.app.CollectorKeeper.WasmSetCollectorLookupTable(ctx, &bindings.MsgSetCollectorLookupTable{
		AppID: w.appVault, CollectorAssetID: w.a1, SecondaryAssetID: w.a3, SurplusThreshold: sdk.NewInt(10000000), DebtThreshold: sdk.NewInt(5000000),
		LockerSavingRate: c12Dec("0.1"), LotSize: sdk.NewInt(200000), BidFactor: c12Dec("0.01"), DebtLotSize: sdk.NewInt(2000000)}), "collector a1")
	w.must(w.app.CollectorKeeper.WasmSetAuctionMappingForApp(ctx, &bindings.MsgSetAuctionMappingForApp{AppID: w.appVault, AssetIDs: w.a2, IsSurplusAuctions: true,
		AssetOutOraclePrices: false, AssetOutPrices: 1000000}), "mapping a2")
	w.must(w.app.CollectorKeeper.WasmSetAuctionMappingForApp(ctx, &bindings.MsgSetAuctionMappingForApp{AppID: w.appVault, AssetIDs: w.a1, IsDebtAuctions: true,
		AssetOutOraclePrices: false, AssetOutPrices: 1000000}), "mapping a1")
	cs := sdk.NewCoins(coin("uasset2", 500000000))
	w.must(w.app.BankKeeper.MintCoins(ctx, lendtypes.ModuleName, cs), "mint")
	w.must(w.app.BankKeeper.SendCoinsFromModuleToModule(ctx, lendtypes.ModuleName, collectortypes.ModuleName, cs), "fund collector")
	w.must(w.app.CollectorKeeper.SetNetFeeCollectedData(ctx, w.appVault, w.a2, sdk.NewInt(400000000)), "net fee a2")
	w.must(w.app.CollectorKeeper.SetNetFeeCollectedData(ctx, w.appVault, w.a1, sdk.NewInt(100)), "net fee a1")
	// price drop of the collateral
	twa, _ := w.app.MarketKeeper.GetTwa(ctx, w.a1)
	twa.Twa = 200000
	twa.PriceValue = []uint64{200000}
	w.app.MarketKeeper.SetTwa(ctx, twa)
	now := ctx.BlockTime()
	if brkVault {
		w.must(w.app.EsmKeeper.SetKillSwitchData(ctx, esmtypes.KillSwitchParams{AppId: w.appVault, BreakerEnable: true}), "breaker")
	}
	if brkLend {
		w.must(w.app.EsmKeeper.SetKillSwitchData(ctx, esmtypes.KillSwitchParams{AppId: w.appLend, BreakerEnable: true}), "breaker")
	}
	if esmVault != "none" {
		w.app.EsmKeeper.SetESMStatus(ctx, esmtypes.ESMStatus{AppId: w.appVault, Executor: w.B.String(), Status: true, StartTime: now.Add(-time.Hour), EndTime: now.Add(time.Hour)})
	}
	return ctx
}

// sweepProj: what a sweep may touch for one app
func (w *c12World) sweepProj(ctx sdk.Context, app uint64) (string, map[string]int) {
	var b bytes.Buffer
	cnt := map[string]int{}
	for _, v := range w.app.VaultKeeper.GetVaults(ctx) {
		if v.AppId == app {
			fmt.Fprintf(&b, "v%d=%s/%s/%s;", v.Id, v.AmountIn, v.AmountOut, v.InterestAccumulated)
		}
	}
	for _, lv := range w.app.LiquidationKeeper.GetLockedVaults(ctx) {
		if lv.AppId == app {
			if lv.Kind != nil {
				cnt["v1borrow"]++
			} else {
				cnt["v1vault"]++
			}
		}
	}
	for _, lv := range w.app.NewliqKeeper.GetLockedVaults(ctx) {
		if lv.AppId == app {
			switch lv.InitiatorType {
			case "surplus", "debt":
				cnt["v2surplusdebt"]++
			default:
				cnt["v2pos"]++
			}
		}
	}
	if app == w.appLend {
		for _, x := range w.app.LendKeeper.GetAllBorrow(ctx) {
			fmt.Fprintf(&b, "b%d=%s/%s/%v;", x.ID, x.AmountIn, x.AmountOut, x.IsLiquidated)
		}
	}
	if app == w.appVault {
		for _, as := range []uint64{w.a1, w.a2} {
			if m, ok := w.app.CollectorKeeper.GetAuctionMappingForApp(ctx, app, as); ok {
				fmt.Fprintf(&b, "map%d=%v;", as, m.IsAuctionActive)
				if m.IsAuctionActive {
					cnt[fmt.Sprintf("active%d", as)]++
				}
			}
			if nf, ok := w.app.CollectorKeeper.GetNetFeeCollectedData(ctx, app, as); ok {
				fmt.Fprintf(&b, "nf%d=%s;", as, nf.NetFeesCollected)
			}
		}
	}
	keys := make([]string, 0, len(cnt))
	for k := range cnt {
		keys = append(keys, k)
	}
	sort.Strings(keys)
	for _, k := range keys {
		fmt.Fprintf(&b, "%s=%d;", k, cnt[k])
	}
	return b.String(), cnt
}

func c14Sweeps(t *testing.T, tr *Trace, w *c12World) {
	type sweepLine struct {
		name, app, counter string
	}
	runs := []struct {
		name  string
		run   func(ctx sdk.Context)
		lines []sweepLine
	}{
		{"liquidation.BeginBlocker", func(ctx sdk.Context) { liquidation.BeginBlocker(ctx, abci.RequestBeginBlock{}, w.app.LiquidationKeeper) }, []sweepLine{
			{"liquidation.LiquidateVaults", "vault", "v1vault"}, {"liquidation.LiquidateBorrows", "lend", "v1borrow"}}},
		{"liquidationsV2.BeginBlocker", func(ctx sdk.Context) { liquidationsV2.BeginBlocker(ctx, abci.RequestBeginBlock{}, w.app.NewliqKeeper) }, []sweepLine{
			{"liquidationsV2.LiquidateIndividualVault", "vault", "v2pos"}, {"liquidationsV2.LiquidateIndividualBorrow", "lend", "v2pos"},
			{"liquidationsV2.LiquidateForSurplusAndDebt", "vault", "v2surplusdebt"}}},
		{"auction.BeginBlocker", func(ctx sdk.Context) {
			auction.BeginBlocker(ctx, w.app.AuctionKeeper, w.app.AssetKeeper, w.app.CollectorKeeper, w.app.EsmKeeper)
		}, []sweepLine{{"auction.SurplusActivator", "vault", "active2"}, {"auction.DebtActivator", "vault", "active1"}}},
	}
	for _, run := range runs {
		for _, brkVault := range []bool{false, true} {
			for _, brkLend := range []bool{false, true} {
				for _, esmS := range []string{"none", "in"} {
					ctx := w.sweepStage(brkVault, brkLend, esmS)
					pv0, cv0 := w.sweepProj(ctx, w.appVault)
					pl0, cl0 := w.sweepProj(ctx, w.appLend)
					panicked, pmsg := try(func() { run.run(ctx) })
					if panicked {
						t.Logf("sweep %s panicked: %s", run.name, pmsg)
					}
					pv1, cv1 := w.sweepProj(ctx, w.appVault)
					pl1, cl1 := w.sweepProj(ctx, w.appLend)
					for _, l := range run.lines {
						brk, esmL, p0, p1, c0, c1 := brkVault, esmS, pv0, pv1, cv0, cv1
						if l.app == "lend" {
							brk, esmL, p0, p1, c0, c1 = brkLend, "none", pl0, pl1, cl0, cl1
						}
						started := c1[l.counter] - c0[l.counter]
						base := !brk && esmL == "none"
						if l.name == "liquidationsV2.LiquidateForSurplusAndDebt" && brkLend {
							// x/liquidationsV2/keeper/liquidate.go:250: LiquidateBorrows returns the first borrow's error (here: breaker of
							// the lend app) and Liquidate() then never reaches LiquidateForSurplusAndDebt — for ANY app. Fail-closed, so
							// not a C14 matter (noted in notes/C14.md); it only removes the non-vacuity expectation of this line.
							base = false
						}
						// only this sweep's own footprint decides appDiffEmpty when another sweep of the same blocker works on the same app
						appSame := p0 == p1
						if !brk {
							appSame = true
						}
						tr.Line("grd.begin", l.name, fmt.Sprintf("%s/brk%s/esm-%s", l.app, c12b01(brk), esmL))
						tr.Line("grd.sweep", l.name, l.app, c12b01(brk), esmL, c12b01(base), fmt.Sprint(started), c12b01(appSame))
						tr.Count(fmt.Sprintf("sweep:%s:brk%s:esm-%s:started%d", l.name, c12b01(brk), esmL, started))
						if base && started == 0 {
							t.Logf("sweep %s for app %s (brkVault=%v brkLend=%v esm=%s) started nothing with all controls clear: %s -> %s", l.name, l.app, brkVault, brkLend, esmS, p0, p1)
						}
					}
				}
			}
		}
	}
}
