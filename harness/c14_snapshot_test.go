//go:build verif

package harness

// C14, ESM branch of "a needed oracle price inactive / missing ⇒ value-moving operations fail instead of using a stale
// value": the price SNAPSHOT that the esm BeginBlocker takes after an app's emergency shutdown, and its consumers.
//
// After ExecuteESM the vault module and the redemption code no longer read the oracle: they read the snapshot
// (x/esm/keeper/esm.go SnapshotOfPrices, called from the esm BeginBlocker on every block until ESMStatus.SnapshotStatus is
// set). A snapshot entry written from an INACTIVE feed's stored TWA is a stale price that every later consumer then uses.
//
// Every world is a branch of the C12/C14 world with one more app ("shutdown": three vaults of A — P: a1→a2, Q: a3→a2,
// R: a4→a2 at a fixed debt price). The app is shut down with the real MsgExecuteESM; then the REAL esm.BeginBlocker runs
// block after block while the feeds follow a schedule (active with a fresh TWA / inactive with the stale TWA still stored /
// record missing). Consumers are exercised on branches: vault.MsgWithdraw of each vault inside the cool-off period, and after
// the cool-off the redemption set-up of the BeginBlocker (per vault: was it moved into the redemption pool) and
// esm.MsgCollateralRedemption.
//
// Trace lines (lean/Comdex/Drv/EsmSnapshot.lean):
//   esnap.begin scn
//   esnap.block height feeds status entries     feeds = id:found:active:twa,… of every asset with IsOraclePriceRequired, in the
//                                               order of AssetKeeper.GetAssets, read from the market store just BEFORE the
//                                               blocker; status / entries (id:price,…) = the app's snapshot just AFTER it
//   esnap.use   consumer phase needs base outcome changed
//                                               needs = asset ids whose snapshot entry the consumer values amounts with;
//                                               outcome ∈ {ok, err, panic, noop}; changed = anything in the state differs

import (
	"bytes"
	"encoding/base64"
	"encoding/json"
	"fmt"
	"io"
	"sort"
	"strings"
	"testing"
	"time"

	abci "github.com/cometbft/cometbft/abci/types"
	storetypes "github.com/cosmos/cosmos-sdk/store/types"
	sdk "github.com/cosmos/cosmos-sdk/types"

	"github.com/comdex-official/comdex/app/wasm/bindings"
	assettypes "github.com/comdex-official/comdex/x/asset/types"
	"github.com/comdex-official/comdex/x/esm"
	esmtypes "github.com/comdex-official/comdex/x/esm/types"
	markettypes "github.com/comdex-official/comdex/x/market/types"
	vaulttypes "github.com/comdex-official/comdex/x/vault/types"
)

type c14SnapVault struct {
	name       string
	ext, id    uint64
	coll, debt uint64
	fixedDebt  bool // AssetOutOraclePrice=false: the vault module values the debt at the pair's fixed price
}

type c14SnapWorld struct {
	w      *c12World
	app    uint64
	vaults []*c14SnapVault
	oracle []uint64 // assets with IsOraclePriceRequired, GetAssets order (= the order SnapshotOfPrices walks them in)
	name   map[uint64]string
	coolOff time.Duration
}

// feed state of one asset in one block of a schedule
type c14Feed struct {
	mode byte // 'A' active, 'I' inactive (record kept, IsPriceActive=false), 'M' record missing
	twa  uint64
}

type c14SnapSpec struct {
	name   string
	blocks []map[uint64]c14Feed // per block: the assets whose feed changes at the start of that block (block 0 = the shutdown block)
	useAt  map[int]bool         // after which blocks the withdrawals are tried
	base   bool                 // directed worlds whose feeds all come back: the redemption set-up and the redemption are expected to
	                            // work whenever the MODEL says every price they need is in the snapshot (non-vacuity)
}

func c14SnapBuild(t *testing.T) *c14SnapWorld {
	w := c12Build(t)
	s := &c14SnapWorld{w: w, name: map[uint64]string{}, coolOff: time.Hour}
	s.app = w.newApp("shutdown")
	w.must(w.app.AssetKeeper.AddPairsRecords(w.ctx, assettypes.Pair{AssetIn: w.a4, AssetOut: w.a2}), "pair a4-a2")
	pairOf := func(in, out uint64) uint64 {
		for _, p := range w.app.AssetKeeper.GetPairs(w.ctx) {
			if p.AssetIn == in && p.AssetOut == out {
				return p.Id
			}
		}
		t.Fatalf("snapshot world: pair %d-%d missing", in, out)
		return 0
	}
	addExt := func(name string, pairID uint64, oracleOut bool) uint64 {
		w.must(w.app.AssetKeeper.WasmAddExtendedPairsVaultRecords(w.ctx, &bindings.MsgAddExtendedPairsVault{
			AppID: s.app, PairID: pairID, StabilityFee: sdk.NewDecWithPrec(2, 2), ClosingFee: sdk.NewDec(0),
			LiquidationPenalty: sdk.NewDecWithPrec(15, 2), DrawDownFee: sdk.NewDecWithPrec(1, 2), IsVaultActive: true,
			DebtCeiling: sdk.NewInt(1000000000000000000), DebtFloor: sdk.NewInt(100000000), IsStableMintVault: false,
			MinCr: sdk.NewDecWithPrec(23, 1), PairName: name, AssetOutOraclePrice: oracleOut, AssetOutPrice: 1000000, MinUsdValueLeft: 1000000,
		}), "ext pair "+name)
		eps, _ := w.app.AssetKeeper.GetPairsVaults(w.ctx)
		for _, e := range eps {
			if e.PairName == name && e.AppId == s.app {
				return e.Id
			}
		}
		t.Fatalf("snapshot world: ext pair %s missing", name)
		return 0
	}
	s.vaults = []*c14SnapVault{
		{name: "P", coll: w.a1, debt: w.a2}, {name: "Q", coll: w.a3, debt: w.a2}, {name: "R", coll: w.a4, debt: w.a2, fixedDebt: true},
	}
	for _, v := range s.vaults {
		v.ext = addExt("SNAP-"+v.name, pairOf(v.coll, v.debt), !v.fixedDebt)
		w.deliverLive(&vaulttypes.MsgCreateRequest{From: w.A.String(), AppId: s.app, ExtendedPairVaultId: v.ext, AmountIn: sdk.NewInt(3000000000), AmountOut: sdk.NewInt(400000000)}, "snapshot vault "+v.name)
		for _, x := range w.app.VaultKeeper.GetVaults(w.ctx) {
			if x.AppId == s.app && x.ExtendedPairVaultID == v.ext {
				v.id = x.Id
			}
		}
		if v.id == 0 {
			t.Fatalf("snapshot world: vault %s missing", v.name)
		}
	}
	for n, id := range w.twaKeys {
		s.name[id] = n
	}
	for _, a := range w.app.AssetKeeper.GetAssets(w.ctx) {
		if a.IsOraclePriceRequired {
			s.oracle = append(s.oracle, a.Id)
			if s.name[a.Id] == "" {
				s.name[a.Id] = strings.ToLower(a.Name)
			}
		}
	}
	// shutdown trigger: reached deposit target (fixture, as in the repo's own esm tests), one hour of cool-off
	w.app.EsmKeeper.SetESMTriggerParams(w.ctx, esmtypes.ESMTriggerParams{AppId: s.app, TargetValue: sdk.NewCoin("ugov", sdk.NewInt(100)), CoolOffPeriod: uint64(s.coolOff / time.Second)})
	w.app.EsmKeeper.SetCurrentDepositStats(w.ctx, esmtypes.CurrentDepositStats{AppId: s.app, Balance: sdk.NewCoin("ugov", sdk.NewInt(100))})
	return s
}

func (s *c14SnapWorld) setFeed(ctx sdk.Context, id uint64, f c14Feed) {
	w := s.w
	if f.mode == 'M' {
		ctx.KVStore(w.app.GetKey(markettypes.StoreKey)).Delete(markettypes.TwaKey(id))
		return
	}
	twa, found := w.app.MarketKeeper.GetTwa(ctx, id)
	if !found {
		twa = markettypes.TimeWeightedAverage{AssetID: id, ScriptID: 12, CurrentIndex: 0}
	}
	twa.IsPriceActive = f.mode == 'A'
	if f.twa != 0 {
		twa.Twa = f.twa
		twa.PriceValue = []uint64{f.twa}
	}
	w.app.MarketKeeper.SetTwa(ctx, twa)
}

func (s *c14SnapWorld) feedsText(ctx sdk.Context) string {
	var out []string
	for _, id := range s.oracle {
		twa, found := s.w.app.MarketKeeper.GetTwa(ctx, id)
		out = append(out, fmt.Sprintf("%d:%s:%s:%d", id, c12b01(found), c12b01(found && twa.IsPriceActive), twa.Twa))
	}
	return strings.Join(out, ",")
}

// snapText: the app's snapshot as stored — every key under the snapshot prefix of the app, and the status flag
func (s *c14SnapWorld) snapText(ctx sdk.Context) (string, string) {
	st := ctx.KVStore(s.w.app.GetKey(esmtypes.StoreKey))
	prefix := append(append([]byte{}, esmtypes.SnapshotKeyPrefix...), sdk.Uint64ToBigEndian(s.app)...)
	it := sdk.KVStorePrefixIterator(st, prefix)
	defer it.Close()
	var out []string
	for ; it.Valid(); it.Next() {
		id := sdk.BigEndianToUint64(it.Key()[len(prefix):])
		p, _ := s.w.app.EsmKeeper.GetSnapshotOfPrices(ctx, s.app, id)
		out = append(out, fmt.Sprintf("%d:%d", id, p))
	}
	status, _ := s.w.app.EsmKeeper.GetESMStatus(ctx, s.app)
	return c12b01(status.SnapshotStatus), strings.Join(out, ",")
}

// block: the next block — feed changes, then the real esm BeginBlocker
func (s *c14SnapWorld) block(tr *Trace, ctx sdk.Context, changes map[uint64]c14Feed, dt time.Duration) sdk.Context {
	ctx = ctx.WithBlockHeight(ctx.BlockHeight() + 1).WithBlockTime(ctx.BlockTime().Add(dt))
	ids := make([]uint64, 0, len(changes))
	for id := range changes {
		ids = append(ids, id)
	}
	sort.Slice(ids, func(i, j int) bool { return ids[i] < ids[j] })
	for _, id := range ids {
		s.setFeed(ctx, id, changes[id])
	}
	feeds := s.feedsText(ctx)
	panicked, pmsg := try(func() { esm.BeginBlocker(ctx, abci.RequestBeginBlock{}, s.w.app.EsmKeeper, s.w.app.AssetKeeper) })
	if panicked {
		s.w.t.Errorf("esm.BeginBlocker panicked: %s", pmsg)
	}
	status, entries := s.snapText(ctx)
	if tr != nil {
		tr.Line("esnap.block", fmt.Sprint(ctx.BlockHeight()), feeds, status, entries)
		tr.Count("block:status=" + status)
	}
	return ctx
}

func (s *c14SnapWorld) idsText(ids []uint64) string {
	sort.Slice(ids, func(i, j int) bool { return ids[i] < ids[j] })
	return joinU(ids)
}

// withdrawNeeds: what the vault module values with under ESM (vault.go CalculateCollateralizationRatio, ESM branch)
func (v *c14SnapVault) withdrawNeeds() []uint64 {
	if v.fixedDebt {
		return []uint64{v.coll}
	}
	return []uint64{v.coll, v.debt}
}

// setupNeeds: the redemption set-up values collateral AND debt of every vault at the snapshot (no fixed rates configured)
func (v *c14SnapVault) setupNeeds() []uint64 { return []uint64{v.coll, v.debt} }

func (s *c14SnapWorld) allNeeds() []uint64 {
	set := map[uint64]bool{}
	for _, v := range s.vaults {
		set[v.coll], set[v.debt] = true, true
	}
	var out []uint64
	for id := range set {
		out = append(out, id)
	}
	return out
}

func (s *c14SnapWorld) withdrawMsg(v *c14SnapVault) sdk.Msg {
	return &vaulttypes.MsgWithdrawRequest{From: s.w.A.String(), AppId: s.app, ExtendedPairVaultId: v.ext, UserVaultId: v.id, Amount: sdk.NewInt(1000000)}
}

// withdrawals: each vault's owner withdraws a little collateral, each on its own branch of ctx
func (s *c14SnapWorld) withdrawals(tr *Trace, ctx sdk.Context, phase string, base bool) {
	for _, v := range s.vaults {
		br, _ := ctx.CacheContext()
		before := s.w.dump(br)
		r := s.w.deliver(br, before, "", s.withdrawMsg(v))
		tr.Line("esnap.use", "vault.MsgWithdraw/"+v.name, phase, s.idsText(v.withdrawNeeds()), c12b01(base), r.outcome, c12b01(!r.parentEmpty))
		tr.Count("use:withdraw:" + r.outcome)
		if base && r.outcome != "ok" {
			s.w.t.Logf("snapshot %s: withdrawal from vault %s failed: %s", phase, v.name, r.errText)
		}
	}
}

// afterCoolOff: three blocks after the end of the cool-off period (vault / stable-vault / collector set-up in the first,
// share calculation in the second), then a holder of the debt asset redeems collateral
func (s *c14SnapWorld) afterCoolOff(tr *Trace, ctx sdk.Context, base bool) {
	w := s.w
	status, _ := w.app.EsmKeeper.GetESMStatus(ctx, s.app)
	ctx = ctx.WithBlockTime(status.EndTime.Add(-5 * time.Second))
	for i := 0; i < 3; i++ {
		ctx = s.block(tr, ctx, nil, 6*time.Second)
	}
	for _, v := range s.vaults {
		_, still := w.app.VaultKeeper.GetVault(ctx, v.id)
		out := "noop"
		if !still {
			out = "ok"
		}
		tr.Line("esnap.use", "esm.BeginBlocker/redeem-vault-"+v.name, "after", s.idsText(v.setupNeeds()), c12b01(base), out, c12b01(!still))
		tr.Count("use:setup:" + out)
		if base && still {
			w.t.Logf("snapshot: vault %s was not moved into the redemption pool although every price is there", v.name)
		}
	}
	// the redemption values the debt asset and every collateral asset that IS in the pool (which vaults were moved depends on
	// the world): its needs are the snapshot entries this very delivery asks for (store tracer; present or absent)
	redeem := &esmtypes.MsgCollateralRedemptionRequest{AppId: s.app, Amount: sdk.NewCoin("uasset2", sdk.NewInt(1000000)), From: w.B.String()}
	tb, _ := ctx.CacheContext()
	needs := s.snapReads(tb, func(c sdk.Context) { _, _ = w.app.MsgServiceRouter().Handler(redeem)(c, redeem) })
	br, _ := ctx.CacheContext()
	before := w.dump(br)
	r := w.deliver(br, before, "", redeem)
	tr.Line("esnap.use", "esm.MsgCollateralRedemption", "after", s.idsText(needs), c12b01(base), r.outcome, c12b01(!r.parentEmpty))
	tr.Count("use:redeem:needs=" + s.idsText(needs))
	tr.Count("use:redeem:" + r.outcome)
	if base && r.outcome != "ok" {
		w.t.Logf("snapshot: collateral redemption failed although every price is there: %s", r.errText)
	}
}

// run one world
func (s *c14SnapWorld) run(tr *Trace, spec c14SnapSpec) {
	w := s.w
	ctx, _ := w.ctx.CacheContext()
	ctx = ctx.WithBlockHeight(w.ctx.BlockHeight() + 1).WithBlockTime(w.ctx.BlockTime().Add(6 * time.Second))
	tr.Line("esnap.begin", spec.name)
	// the shutdown block: the real MsgExecuteESM; feeds of block 0 drop out in the same block
	w.mustDeliver(ctx, &esmtypes.MsgExecuteESM{AppId: s.app, Depositor: w.B.String()}, "ExecuteESM")
	for i, ch := range spec.blocks {
		if i == 0 {
			for id, f := range ch {
				s.setFeed(ctx, id, f)
			}
			continue
		}
		ctx = s.block(tr, ctx, ch, 6*time.Second)
		if spec.useAt[i] {
			// nothing but the prices can stand in the way of a small withdrawal inside the cool-off period: base = 1
			s.withdrawals(tr, ctx, fmt.Sprintf("in/b%d", i), true)
		}
	}
	st, _ := w.app.EsmKeeper.GetESMStatus(ctx, s.app)
	tr.Count(fmt.Sprintf("world:%s:snapshot-complete=%v", strings.SplitN(spec.name, "/", 2)[0], st.SnapshotStatus))
	s.afterCoolOff(tr, ctx, spec.base)
}

// snapReads: the assets whose snapshot entry of the app is READ while f runs (store tracer)
func (s *c14SnapWorld) snapReads(ctx sdk.Context, f func(ctx sdk.Context)) []uint64 {
	var buf bytes.Buffer
	tctx := ctx.WithMultiStore(ctx.MultiStore().(interface {
		SetTracer(io.Writer) storetypes.MultiStore
	}).SetTracer(&buf).CacheMultiStore())
	try(func() { f(tctx) })
	type op struct {
		Operation string `json:"operation"`
		Key       string `json:"key"`
	}
	read := map[string]bool{}
	for _, ln := range strings.Split(buf.String(), "\n") {
		var o op
		if ln == "" || json.Unmarshal([]byte(ln), &o) != nil || o.Operation != "read" {
			continue
		}
		read[o.Key] = true
	}
	var out []uint64
	for _, id := range s.oracle {
		if read[base64.StdEncoding.EncodeToString(esmtypes.SnapshotTypeKey(s.app, id))] {
			out = append(out, id)
		}
	}
	return out
}

// observeNeeds: in the all-clear world the declared needs must be exactly what the real code reads from the snapshot
func (s *c14SnapWorld) observeNeeds(t *testing.T, tr *Trace) {
	w := s.w
	ctx, _ := w.ctx.CacheContext()
	ctx = ctx.WithBlockHeight(w.ctx.BlockHeight() + 1).WithBlockTime(w.ctx.BlockTime().Add(6 * time.Second))
	w.mustDeliver(ctx, &esmtypes.MsgExecuteESM{AppId: s.app, Depositor: w.B.String()}, "ExecuteESM")
	ctx = s.block(nil, ctx, nil, 6*time.Second)
	obs := map[string]string{}
	same := func(what string, got, want []uint64) {
		obs[what] = s.idsText(got)
		if s.idsText(got) != s.idsText(want) {
			t.Errorf("snapshot read set of %s: observed %v, declared %v", what, got, want)
		}
	}
	for _, v := range s.vaults {
		v := v
		br, _ := ctx.CacheContext()
		same("vault.MsgWithdraw/"+v.name, s.snapReads(br, func(c sdk.Context) {
			m := s.withdrawMsg(v)
			_, _ = w.app.MsgServiceRouter().Handler(m)(c, m)
		}), v.withdrawNeeds())
	}
	status, _ := w.app.EsmKeeper.GetESMStatus(ctx, s.app)
	ctx = ctx.WithBlockTime(status.EndTime.Add(time.Second)).WithBlockHeight(ctx.BlockHeight() + 600)
	br, _ := ctx.CacheContext()
	same("esm.BeginBlocker/redemption-setup", s.snapReads(br, func(c sdk.Context) {
		esm.BeginBlocker(c, abci.RequestBeginBlock{}, w.app.EsmKeeper, w.app.AssetKeeper)
		c = c.WithBlockHeight(c.BlockHeight() + 1).WithBlockTime(c.BlockTime().Add(6 * time.Second))
		esm.BeginBlocker(c, abci.RequestBeginBlock{}, w.app.EsmKeeper, w.app.AssetKeeper)
	}), s.allNeeds())
	tr.Set("snapshot_read_sets", obs)
}

func TestC14Snapshot(t *testing.T) {
	tr := OpenTrace(t, "c14snap.trace")
	defer tr.Close(t)
	c12Seed(tr)
	s := c14SnapBuild(t)
	w := s.w
	rng := NewRng(seed() ^ 0xC14)
	s.observeNeeds(t, tr)

	price := func() uint64 { return uint64(800000 + rng.Intn(400001)) } // within ±20 % of the world's price: vaults stay healthy
	off := func(ids []uint64, mode byte) map[uint64]c14Feed {
		m := map[uint64]c14Feed{}
		for _, id := range ids {
			m[id] = c14Feed{mode: mode, twa: price()}
		}
		return m
	}
	on := func(ids []uint64) map[uint64]c14Feed {
		m := map[uint64]c14Feed{}
		for _, id := range ids {
			m[id] = c14Feed{mode: 'A', twa: price()}
		}
		return m
	}
	names := func(ids []uint64) string {
		var out []string
		for _, id := range ids {
			out = append(out, s.name[id])
		}
		return strings.Join(out, "+")
	}
	var specs []c14SnapSpec
	// all clear: the snapshot completes in the first block, every consumer works
	specs = append(specs, c14SnapSpec{name: "clear", blocks: []map[uint64]c14Feed{nil, nil, nil}, useAt: map[int]bool{1: true, 2: true}, base: true})
	subsets := [][]uint64{{w.a1}, {w.a2}, {w.a3}, {w.a4}, {w.c1}, {w.a1, w.a2}, s.allNeeds(), s.oracle}
	if thorough() {
		need := []uint64{w.a1, w.a2, w.a3, w.a4}
		subsets = nil
		for m := 1; m < 1<<len(need); m++ {
			var sub []uint64
			for j, x := range need {
				if m&(1<<j) != 0 {
					sub = append(sub, x)
				}
			}
			subsets = append(subsets, sub, append(append([]uint64{}, sub...), w.c1))
		}
		subsets = append(subsets, []uint64{w.c1}, s.oracle)
	}
	for _, sub := range subsets {
		for _, mode := range []byte{'I', 'M'} {
			mn := map[byte]string{'I': "inactive", 'M': "missing"}[mode]
			// the feeds of `sub` are off from the shutdown on and never come back
			specs = append(specs, c14SnapSpec{name: fmt.Sprintf("never/%s/%s", names(sub), mn),
				blocks: []map[uint64]c14Feed{off(sub, mode), nil, nil, nil}, useAt: map[int]bool{1: true, 3: true}})
			// … or come back in block 3 with a fresh price: the snapshot completes then, with that price
			specs = append(specs, c14SnapSpec{name: fmt.Sprintf("back/%s/%s", names(sub), mn),
				blocks: []map[uint64]c14Feed{off(sub, mode), nil, nil, on(sub), nil}, useAt: map[int]bool{2: true, 4: true},
				// a record that was MISSING is skipped by the walk: the snapshot completes without it and is final — the feed's
				// return does not help any more (fail-closed, so only the non-vacuity expectation goes)
				base: mode == 'I'})
		}
	}
	// the feed was fine in the shutdown block, drops out one block later (the snapshot is complete by then) and stays off
	specs = append(specs, c14SnapSpec{name: "later/a1/inactive", blocks: []map[uint64]c14Feed{nil, nil, off([]uint64{w.a1}, 'I'), nil}, useAt: map[int]bool{1: true, 3: true}, base: true})
	// random schedules: every block every asset of a random subset changes to a random state
	for i := 0; i < scale(24, 240); i++ {
		n := 3 + rng.Intn(5)
		sp := c14SnapSpec{name: fmt.Sprintf("random/%d", i), useAt: map[int]bool{}}
		for b := 0; b <= n; b++ {
			ch := map[uint64]c14Feed{}
			for _, id := range s.oracle {
				if !rng.Chance(35) {
					continue
				}
				mode := byte('A')
				switch r := rng.Intn(10); {
				case r < 4:
					mode = 'I'
				case r < 5:
					mode = 'M'
				}
				ch[id] = c14Feed{mode: mode, twa: price()}
			}
			if b == n && rng.Chance(50) {
				ch = on(s.oracle) // half of the schedules end with every feed back
			}
			sp.blocks = append(sp.blocks, ch)
			if b > 0 && (b == n || rng.Chance(40)) {
				sp.useAt[b] = true
			}
		}
		specs = append(specs, sp)
	}
	for _, sp := range specs {
		s.run(tr, sp)
	}
	tr.Set("snapshot_worlds", len(specs))
}
