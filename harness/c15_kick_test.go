//go:build verif

package harness

// The surplus kick-off of the second generation — x/liquidationsV2/keeper/liquidate.go:450-521, UNWRAPPED, on the live context
// of liquidationsV2.BeginBlocker (formerly a `reviewedUnproved` entry of Props/C15.lean).
//
// For every auction-mapping entry (app, asset) that is due (not active, no kill switch, net fees ≥ surplus threshold + lot)
// `CheckStatsForSurplusAndDebt` calls `collector.GetAmountFromCollector` — which MOVES the lot from the collector module to
// the first-generation auction module account and lowers the net-fee record (x/collector/keeper/collector.go:28-32) — and only
// then `CreateLockedVault`, whose first test is whether English auctions are activated for the app (liquidate.go:210-215). If
// they are not (or the app has no second-generation whitelisting at all) the step returns an error AFTER the coin movement;
// `LiquidateForSurplusAndDebt` returns at the first error, so the mappings behind it are not looked at; the blocker logs the
// error. Nothing marks the entry, so the next block does the same again.
//
// Worlds: 2 apps, each with a surplus mapping on CMST and a vault whose draw-down fee fills the collector; per app the
// second-generation whitelisting is absent (0), present with English auctions off (1) or on (2). Three consecutive blocks of the
// real liquidationsV2.BeginBlocker. One line per (block, mapping):
//
//   hooks.kick.single scenario blocker reach returned position mode due blockedBy lotMoved lockedVault auction active
//     mode = 0 | 1 | 2 as above, due = the entry is due in the pre-state, blockedBy = position of the first earlier entry of this
//     block that is due and cannot start its auction (0 = none); the last four are what the real blocker did for this entry.

import (
	"fmt"
	"strconv"
	"time"

	sdk "github.com/cosmos/cosmos-sdk/types"
	authtypes "github.com/cosmos/cosmos-sdk/x/auth/types"

	"github.com/comdex-official/comdex/app/wasm/bindings"
	aucv2types "github.com/comdex-official/comdex/x/auctionsV2/types"
	collectortypes "github.com/comdex-official/comdex/x/collector/types"
	liqv2types "github.com/comdex-official/comdex/x/liquidationsV2/types"
	vaulttypes "github.com/comdex-official/comdex/x/vault/types"
)

const c15KickLot = 200000

func (w *c15World) setupKick(modes []int) {
	weak := make([]int, len(modes))
	strong := make([]int, len(modes))
	for i := range strong {
		strong[i] = 1
	}
	w.setupV1Multi(weak, strong, false)
	dutch := liqv2types.DutchAuctionParam{Premium: c15Dec("1.2"), Discount: c15Dec("0.7"), DecrementFactor: sdk.NewInt(1)}
	english := liqv2types.EnglishAuctionParam{DecrementFactor: sdk.NewInt(1)}
	w.app.NewaucKeeper.SetAuctionParams(w.ctx, aucv2types.AuctionParams{AuctionDurationSeconds: 3600, Step: c15Dec("0.1"), WithdrawalFee: c15Dec("0.0"),
		ClosingFee: c15Dec("0.0"), MinUsdValueLeft: 100000, BidFactor: c15Dec("0.1"), LiquidationPenalty: c15Dec("0.1"), AuctionBonus: c15Dec("0.0")})
	for i, m := range modes {
		app := uint64(i + 1)
		// a vault whose 1 % draw-down fee is the collector's income for (app, CMST)
		u := c15Addr(400 + i)
		w.fund(u, "ucmdx", 4000000000)
		w.must(w.deliver(&vaulttypes.MsgCreateRequest{From: u.String(), AppId: app, ExtendedPairVaultId: app,
			AmountIn: sdk.NewInt(4000000000), AmountOut: sdk.NewInt(1100000000)}), "kick: vault create")
		net, found := w.app.CollectorKeeper.GetNetFeeCollectedData(w.ctx, app, 2)
		if !found || net.NetFeesCollected.LT(sdk.NewInt(10*c15KickLot)) {
			w.t.Fatalf("kick: net fees of app %d: %v %v", app, found, net.NetFeesCollected)
		}
		// surplus threshold such that 3 lots (and a bit) are above it
		thr := net.NetFeesCollected.Sub(sdk.NewInt(4*c15KickLot - 1000))
		w.must(w.app.CollectorKeeper.WasmSetCollectorLookupTable(w.ctx, &bindings.MsgSetCollectorLookupTable{AppID: app, CollectorAssetID: 2,
			SecondaryAssetID: 3, SurplusThreshold: thr, DebtThreshold: sdk.NewInt(1), LockerSavingRate: c15Dec("0.1"),
			LotSize: sdk.NewInt(c15KickLot), BidFactor: c15Dec("0.01"), DebtLotSize: sdk.NewInt(2000000)}), "kick: collector lookup")
		w.must(w.app.CollectorKeeper.WasmSetAuctionMappingForApp(w.ctx, &bindings.MsgSetAuctionMappingForApp{AppID: app, AssetIDs: 2,
			IsSurplusAuctions: true, IsDebtAuctions: false, IsDistributor: false, AssetOutOraclePrices: false, AssetOutPrices: 1000000}), "kick: auction mapping")
		switch m {
		case 1:
			w.app.NewliqKeeper.SetLiquidationWhiteListing(w.ctx, liqv2types.LiquidationWhiteListing{AppId: app, Initiator: true, IsDutchActivated: true,
				DutchAuctionParam: &dutch, IsEnglishActivated: false, KeeeperIncentive: c15Dec("0.1")})
		case 2:
			w.app.NewliqKeeper.SetLiquidationWhiteListing(w.ctx, liqv2types.LiquidationWhiteListing{AppId: app, Initiator: true, IsDutchActivated: true,
				DutchAuctionParam: &dutch, IsEnglishActivated: true, EnglishAuctionParam: &english, KeeeperIncentive: c15Dec("0.1")})
		}
	}
}

type c15KickObs struct {
	net       sdk.Int
	active    bool
	locked    int
	auctions  int
	due       bool
	canStart  bool
}

func (w *c15World) kickObserve(ctx sdk.Context, app uint64) c15KickObs {
	var o c15KickObs
	o.net = sdk.ZeroInt()
	if n, ok := w.app.CollectorKeeper.GetNetFeeCollectedData(ctx, app, 2); ok {
		o.net = n.NetFeesCollected
	}
	m, _ := w.app.CollectorKeeper.GetAuctionMappingForApp(ctx, app, 2)
	o.active = m.IsAuctionActive
	for _, l := range w.app.NewliqKeeper.GetLockedVaults(ctx) {
		if l.AppId == app && l.InitiatorType == "surplus" {
			o.locked++
		}
	}
	for _, a := range w.app.NewaucKeeper.GetAuctions(ctx) {
		if a.AppId == app && !a.AuctionType {
			o.auctions++
		}
	}
	lk, found := w.app.CollectorKeeper.GetCollectorLookupTable(ctx, app, 2)
	ks, _ := w.app.EsmKeeper.GetKillSwitchData(ctx, app)
	o.due = found && !m.IsAuctionActive && !ks.BreakerEnable && m.IsSurplusAuction && o.net.GTE(lk.SurplusThreshold.Add(lk.LotSize))
	wl, ok := w.app.NewliqKeeper.GetLiquidationWhiteListing(ctx, app)
	o.canStart = ok && wl.IsEnglishActivated
	return o
}

func c15KickCampaign(t0 *c15World, ks int) {
	tr := t0.tr
	blk := c15Find("liquidationsV2.BeginBlocker")
	for _, modes := range [][]int{{1, 2}, {2, 1}, {0, 2}, {2, 2}, {1, 1}} {
		w := c15NewWorld(t0.t, tr, 2)
		w.setupKick(modes)
		w.advance(6, 1)
		scen := fmt.Sprintf("kick.modes%d%d", modes[0], modes[1])
		st := w.ctx
		collAddr := authtypes.NewModuleAddress(collectortypes.ModuleName)
		for b := 0; b < 3; b++ {
			pre := make([]c15KickObs, len(modes))
			for i := range modes {
				pre[i] = w.kickObserve(st, uint64(i+1))
			}
			collBefore := w.app.BankKeeper.GetBalance(st, collAddr, "ucmst").Amount
			r := w.run(st, blk, 0, 0, false)
			if !r.returned {
				w.panics = append(w.panics, scen+" "+blk.name+": "+r.msg)
			}
			collAfter := w.app.BankKeeper.GetBalance(r.ctx, collAddr, "ucmst").Amount
			blockedBy := 0
			for i, m := range modes {
				post := w.kickObserve(r.ctx, uint64(i+1))
				lotMoved := pre[i].net.Sub(post.net).Equal(sdk.NewInt(c15KickLot))
				tr.Line("hooks.kick.single", fmt.Sprintf("%s.block%d", scen, b), blk.name, "1", c15Ret(r.returned), strconv.Itoa(i+1), strconv.Itoa(m),
					c15B(pre[i].due), strconv.Itoa(blockedBy), c15B(lotMoved), c15B(post.locked > pre[i].locked), c15B(post.auctions > pre[i].auctions),
					c15B(post.active), "collector:"+collBefore.String()+"->"+collAfter.String())
				tr.Count("kick-lines")
				if lotMoved && post.auctions == pre[i].auctions {
					tr.Count("kick:lot-moved-without-auction")
				}
				if pre[i].due && !lotMoved && blockedBy != 0 {
					tr.Count("kick:due-entry-not-looked-at")
				}
				if lotMoved && post.auctions > pre[i].auctions {
					tr.Count("kick:auction-started")
				}
				if blockedBy == 0 && pre[i].due && !pre[i].canStart {
					blockedBy = i + 1
				}
			}
			if !r.returned {
				break
			}
			st = r.ctx.WithBlockTime(r.ctx.BlockTime().Add(6 * time.Second)).WithBlockHeight(r.ctx.BlockHeight() + 1)
		}
		if modes[0] == 2 && modes[1] == 2 {
			// both surplus auctions (English) are running: a bid on the first one, then the auction pass of x/auctionsV2 while they
			// are open and after they have ended (close with a bid / restart without)
			w.ctx = st
			bidder := c15Addr(450)
			w.fund(bidder, "uharbor", 10000000)
			for _, a := range w.app.NewaucKeeper.GetAuctions(w.ctx) {
				if !a.AuctionType {
					if err := w.deliver(aucv2types.NewMsgPlaceMarketBid(bidder.String(), a.AuctionId, sdk.NewCoin("uharbor", sdk.NewInt(1000000)))); err == nil {
						tr.Count("fixture:v2.english-bid")
					} else {
						tr.Count("fixture:v2.english-bid-rejected")
					}
					break
				}
			}
			pass := []c15Blocker{c15Find("auctionsV2.BeginBlocker"), c15Find("liquidationsV2.BeginBlocker")}
			w.campaign("kick.english-open", w.ctx, pass, ks)
			w.advance(3700, 600)
			w.campaign("kick.english-ended", w.ctx, pass, ks)
			for _, e := range c15Envs() {
				st2, _ := w.ctx.CacheContext()
				e.prep(w, st2)
				w.envRun("kick.english-ended+"+e.name, st2, "1")
			}
		}
		t0.panics = append(t0.panics, w.panics...)
	}
}
