module verifharness

go 1.20

require (
	cosmossdk.io/api v0.3.1
	cosmossdk.io/math v1.1.2
	github.com/CosmWasm/wasmd v0.41.0
	github.com/CosmWasm/wasmvm v1.3.0
	github.com/bandprotocol/bandchain-packet v0.0.3
	github.com/cometbft/cometbft v0.37.2
	github.com/cometbft/cometbft-db v0.8.0
	github.com/cosmos/cosmos-sdk v0.47.5
	github.com/cosmos/gogoproto v1.4.10
	github.com/cosmos/ibc-apps/modules/async-icq/v7 v7.0.0
	github.com/cosmos/ibc-apps/modules/ibc-hooks/v7 v7.0.0-20230803181732-7c8f814d3b79
	github.com/golang/protobuf v1.5.3
	github.com/gorilla/mux v1.8.0
	github.com/grpc-ecosystem/grpc-gateway v1.16.0
	github.com/pkg/errors v0.9.1
	github.com/prometheus/client_golang v1.16.0
	github.com/spf13/cast v1.5.1
	github.com/spf13/cobra v1.7.0
	github.com/stretchr/testify v1.8.4
	google.golang.org/genproto/googleapis/api v0.0.0-20230629202037-9506855d4529
	google.golang.org/grpc v1.57.0
	google.golang.org/protobuf v1.31.0
)

require (
	github.com/cosmos/ibc-apps/middleware/packet-forward-middleware/v7 v7.0.1
	github.com/cosmos/ibc-go/v7 v7.3.1
	github.com/cosmos/ics23/go v0.10.0 // indirect
	github.com/golangci/golangci-lint v1.51.2
	github.com/rakyll/statik v0.1.7
	github.com/spf13/pflag v1.0.5
	gopkg.in/yaml.v2 v2.4.0
	mvdan.cc/gofumpt v0.5.0
)

require (
	4d63.com/gocheckcompilerdirectives v1.2.1 // indirect
	4d63.com/gochecknoglobals v0.2.1 // indirect
	cloud.google.com/go v0.110.4 // indirect
	cloud.google.com/go/compute v1.20.1 // indirect
	cloud.google.com/go/compute/metadata v0.2.3 // indirect
	cloud.google.com/go/iam v1.1.0 // indirect
	cloud.google.com/go/storage v1.30.1 // indirect
	cosmossdk.io/core v0.6.1 // indirect
	cosmossdk.io/depinject v1.0.0-alpha.4 // indirect
	cosmossdk.io/errors v1.0.0 // indirect
	cosmossdk.io/log v1.2.1 // indirect
	cosmossdk.io/tools/rosetta v0.2.1 // indirect
	filippo.io/edwards25519 v1.0.0 // indirect
	github.com/99designs/go-keychain v0.0.0-20191008050251-8e49817e8af4 // indirect
	github.com/99designs/keyring v1.2.2 // indirect
	github.com/Abirdcfly/dupword v0.0.9 // indirect
	github.com/Antonboom/errname v0.1.7 // indirect
	github.com/Antonboom/nilnil v0.1.1 // indirect
	github.com/BurntSushi/toml v1.2.1 // indirect
	github.com/ChainSafe/go-schnorrkel v0.0.0-20200405005733-88cbf1b4c40d // indirect
	github.com/Djarvur/go-err113 v0.1.0 // indirect
	github.com/GaijinEntertainment/go-exhaustruct/v2 v2.3.0 // indirect
	github.com/Masterminds/semver v1.5.0 // indirect
	github.com/OpenPeeDeeP/depguard v1.1.1 // indirect
	github.com/alexkohler/prealloc v1.0.0 // indirect
	github.com/alingse/asasalint v0.0.11 // indirect
	github.com/armon/go-metrics v0.4.1 // indirect
	github.com/ashanbrown/forbidigo v1.5.3 // indirect
	github.com/ashanbrown/makezero v1.1.1 // indirect
	github.com/aws/aws-sdk-go v1.44.203 // indirect
	github.com/beorn7/perks v1.0.1 // indirect
	github.com/bgentry/go-netrc v0.0.0-20140422174119-9fd32a8b3d3d // indirect
	github.com/bgentry/speakeasy v0.1.1-0.20220910012023-760eaf8b6816 // indirect
	github.com/bkielbasa/cyclop v1.2.1 // indirect
	github.com/blizzy78/varnamelen v0.8.0 // indirect
	github.com/bombsimon/wsl/v3 v3.4.0 // indirect
	github.com/breml/bidichk v0.2.3 // indirect
	github.com/breml/errchkjson v0.3.0 // indirect
	github.com/btcsuite/btcd/btcec/v2 v2.3.2 // indirect
	github.com/butuzov/ireturn v0.1.1 // indirect
	github.com/cenkalti/backoff/v4 v4.1.3 // indirect
	github.com/cespare/xxhash v1.1.0 // indirect
	github.com/cespare/xxhash/v2 v2.2.0 // indirect
	github.com/charithe/durationcheck v0.0.9 // indirect
	github.com/chavacava/garif v0.0.0-20230227094218-b8c73b2037b8 // indirect
	github.com/chzyer/readline v1.5.1 // indirect
	github.com/cockroachdb/apd/v2 v2.0.2 // indirect
	github.com/cockroachdb/errors v1.10.0 // indirect
	github.com/cockroachdb/logtags v0.0.0-20230118201751-21c54148d20b // indirect
	github.com/cockroachdb/redact v1.1.5 // indirect
	github.com/coinbase/rosetta-sdk-go v0.7.9 // indirect
	github.com/confio/ics23/go v0.9.0 // indirect
	github.com/cosmos/btcutil v1.0.5 // indirect
	github.com/cosmos/cosmos-proto v1.0.0-beta.3 // indirect
	github.com/cosmos/go-bip39 v1.0.0 // indirect
	github.com/cosmos/gogogateway v1.2.0 // indirect
	github.com/cosmos/iavl v0.20.0 // indirect
	github.com/cosmos/ledger-cosmos-go v0.12.4 // indirect
	github.com/cosmos/rosetta-sdk-go v0.10.0 // indirect
	github.com/creachadair/taskgroup v0.4.2 // indirect
	github.com/curioswitch/go-reassign v0.2.0 // indirect
	github.com/daixiang0/gci v0.10.1 // indirect
	github.com/danieljoos/wincred v1.1.2 // indirect
	github.com/davecgh/go-spew v1.1.1 // indirect
	github.com/decred/dcrd/dcrec/secp256k1/v4 v4.1.0 // indirect
	github.com/denis-tingaikin/go-header v0.4.3 // indirect
	github.com/desertbit/timer v0.0.0-20180107155436-c41aec40b27f // indirect
	github.com/dgraph-io/badger/v2 v2.2007.4 // indirect
	github.com/dgraph-io/ristretto v0.1.1 // indirect
	github.com/dgryski/go-farm v0.0.0-20200201041132-a6ae2369ad13 // indirect
	github.com/docker/distribution v2.8.2+incompatible // indirect
	github.com/dustin/go-humanize v1.0.1 // indirect
	github.com/dvsekhvalnov/jose2go v1.5.0 // indirect
	github.com/esimonov/ifshort v1.0.4 // indirect
	github.com/ettle/strcase v0.1.1 // indirect
	github.com/fatih/color v1.15.0 // indirect
	github.com/fatih/structtag v1.2.0 // indirect
	github.com/felixge/httpsnoop v1.0.2 // indirect
	github.com/firefart/nonamedreturns v1.0.4 // indirect
	github.com/fsnotify/fsnotify v1.6.0 // indirect
	github.com/fzipp/gocyclo v0.6.0 // indirect
	github.com/getsentry/sentry-go v0.23.0 // indirect
	github.com/gin-gonic/gin v1.9.0 // indirect
	github.com/go-critic/go-critic v0.8.1 // indirect
	github.com/go-kit/kit v0.12.0 // indirect
	github.com/go-kit/log v0.2.1 // indirect
	github.com/go-logfmt/logfmt v0.6.0 // indirect
	github.com/go-toolsmith/astcast v1.1.0 // indirect
	github.com/go-toolsmith/astcopy v1.1.0 // indirect
	github.com/go-toolsmith/astequal v1.1.0 // indirect
	github.com/go-toolsmith/astfmt v1.1.0 // indirect
	github.com/go-toolsmith/astp v1.1.0 // indirect
	github.com/go-toolsmith/strparse v1.1.0 // indirect
	github.com/go-toolsmith/typep v1.1.0 // indirect
	github.com/go-xmlfmt/xmlfmt v1.1.2 // indirect
	github.com/gobwas/glob v0.2.3 // indirect
	github.com/godbus/dbus v0.0.0-20190726142602-4481cbc300e2 // indirect
	github.com/gofrs/flock v0.8.1 // indirect
	github.com/gogo/googleapis v1.4.1 // indirect
	github.com/gogo/protobuf v1.3.2 // indirect
	github.com/golang/glog v1.1.0 // indirect
	github.com/golang/groupcache v0.0.0-20210331224755-41bb18bfe9da // indirect
	github.com/golang/mock v1.6.0 // indirect
	github.com/golang/snappy v0.0.5-0.20220116011046-fa5810519dcb // indirect
	github.com/golangci/check v0.0.0-20180506172741-cfe4005ccda2 // indirect
	github.com/golangci/dupl v0.0.0-20180902072040-3e9179ac440a // indirect
	github.com/golangci/go-misc v0.0.0-20220329215616-d24fe342adfe // indirect
	github.com/golangci/gofmt v0.0.0-20220901101216-f2edd75033f2 // indirect
	github.com/golangci/lint-1 v0.0.0-20191013205115-297bf364a8e0 // indirect
	github.com/golangci/maligned v0.0.0-20180506175553-b1d89398deca // indirect
	github.com/golangci/misspell v0.4.0 // indirect
	github.com/golangci/revgrep v0.0.0-20220804021717-745bb2f7c2e6 // indirect
	github.com/golangci/unconvert v0.0.0-20180507085042-28b1c447d1f4 // indirect
	github.com/google/btree v1.1.2 // indirect
	github.com/google/go-cmp v0.5.9 // indirect
	github.com/google/gofuzz v1.2.0 // indirect
	github.com/google/orderedcode v0.0.1 // indirect
	github.com/google/s2a-go v0.1.4 // indirect
	github.com/google/uuid v1.3.0 // indirect
	github.com/googleapis/enterprise-certificate-proxy v0.2.3 // indirect
	github.com/googleapis/gax-go/v2 v2.11.0 // indirect
	github.com/gordonklaus/ineffassign v0.0.0-20230107090616-13ace0543b28 // indirect
	github.com/gorilla/handlers v1.5.1 // indirect
	github.com/gorilla/websocket v1.5.0 // indirect
	github.com/gostaticanalysis/analysisutil v0.7.1 // indirect
	github.com/gostaticanalysis/comment v1.4.2 // indirect
	github.com/gostaticanalysis/forcetypeassert v0.1.0 // indirect
	github.com/gostaticanalysis/nilerr v0.1.1 // indirect
	github.com/grpc-ecosystem/go-grpc-middleware v1.3.0 // indirect
	github.com/gsterjov/go-libsecret v0.0.0-20161001094733-a6f4afe4910c // indirect
	github.com/gtank/merlin v0.1.1 // indirect
	github.com/gtank/ristretto255 v0.1.2 // indirect
	github.com/hashicorp/errwrap v1.1.0 // indirect
	github.com/hashicorp/go-cleanhttp v0.5.2 // indirect
	github.com/hashicorp/go-getter v1.7.1 // indirect
	github.com/hashicorp/go-immutable-radix v1.3.1 // indirect
	github.com/hashicorp/go-multierror v1.1.1 // indirect
	github.com/hashicorp/go-safetemp v1.0.0 // indirect
	github.com/hashicorp/go-version v1.6.0 // indirect
	github.com/hashicorp/golang-lru v0.5.5-0.20210104140557-80c98217689d // indirect
	github.com/hashicorp/hcl v1.0.0 // indirect
	github.com/hdevalence/ed25519consensus v0.1.0 // indirect
	github.com/hexops/gotextdiff v1.0.3 // indirect
	github.com/huandu/skiplist v1.2.0 // indirect
	github.com/iancoleman/orderedmap v0.2.0 // indirect
	github.com/improbable-eng/grpc-web v0.15.0 // indirect
	github.com/inconshreveable/mousetrap v1.1.0 // indirect
	github.com/jgautheron/goconst v1.5.1 // indirect
	github.com/jingyugao/rowserrcheck v1.1.1 // indirect
	github.com/jirfag/go-printf-func-name v0.0.0-20200119135958-7558a9eaa5af // indirect
	github.com/jmespath/go-jmespath v0.4.0 // indirect
	github.com/jmhodges/levigo v1.0.0 // indirect
	github.com/julz/importas v0.1.0 // indirect
	github.com/junk1tm/musttag v0.4.5 // indirect
	github.com/kisielk/errcheck v1.6.3 // indirect
	github.com/kisielk/gotool v1.0.0 // indirect
	github.com/kkHAIKE/contextcheck v1.1.3 // indirect
	github.com/klauspost/compress v1.16.3 // indirect
	github.com/kr/pretty v0.3.1 // indirect
	github.com/kr/text v0.2.0 // indirect
	github.com/kulti/thelper v0.6.3 // indirect
	github.com/kunwardeep/paralleltest v1.0.7 // indirect
	github.com/kyoh86/exportloopref v0.1.11 // indirect
	github.com/ldez/gomoddirectives v0.2.3 // indirect
	github.com/ldez/tagliatelle v0.5.0 // indirect
	github.com/leonklingele/grouper v1.1.1 // indirect
	github.com/lib/pq v1.10.9 // indirect
	github.com/libp2p/go-buffer-pool v0.1.0 // indirect
	github.com/linxGnu/grocksdb v1.7.16 // indirect
	github.com/lufeee/execinquery v1.2.1 // indirect
	github.com/magiconair/properties v1.8.7 // indirect
	github.com/manifoldco/promptui v0.9.0 // indirect
	github.com/maratori/testableexamples v1.0.0 // indirect
	github.com/maratori/testpackage v1.1.1 // indirect
	github.com/matoous/godox v0.0.0-20230222163458-006bad1f9d26 // indirect
	github.com/mattn/go-colorable v0.1.13 // indirect
	github.com/mattn/go-isatty v0.0.19 // indirect
	github.com/mattn/go-runewidth v0.0.10 // indirect
	github.com/matttproud/golang_protobuf_extensions v1.0.4 // indirect
	github.com/mbilski/exhaustivestruct v1.2.0 // indirect
	github.com/mgechev/revive v1.3.2 // indirect
	github.com/mimoo/StrobeGo v0.0.0-20210601165009-122bf33a46e0 // indirect
	github.com/minio/highwayhash v1.0.2 // indirect
	github.com/mitchellh/go-homedir v1.1.0 // indirect
	github.com/mitchellh/go-testing-interface v1.14.1 // indirect
	github.com/mitchellh/mapstructure v1.5.0 // indirect
	github.com/moricho/tparallel v0.3.1 // indirect
	github.com/mtibben/percent v0.2.1 // indirect
	github.com/nakabonne/nestif v0.3.1 // indirect
	github.com/nbutton23/zxcvbn-go v0.0.0-20210217022336-fa2cb2858354 // indirect
	github.com/nishanths/exhaustive v0.11.0 // indirect
	github.com/nishanths/predeclared v0.2.2 // indirect
	github.com/nunnatsa/ginkgolinter v0.12.1 // indirect
	github.com/olekukonko/tablewriter v0.0.5 // indirect
	github.com/opencontainers/go-digest v1.0.0 // indirect
	github.com/pelletier/go-toml/v2 v2.0.8 // indirect
	github.com/petermattis/goid v0.0.0-20230317030725-371a4b8eda08 // indirect
	github.com/pmezard/go-difflib v1.0.0 // indirect
	github.com/polyfloyd/go-errorlint v1.4.2 // indirect
	github.com/prometheus/client_model v0.3.0 // indirect
	github.com/prometheus/common v0.42.0 // indirect
	github.com/prometheus/procfs v0.10.1 // indirect
	github.com/quasilyte/go-ruleguard v0.3.19 // indirect
	github.com/quasilyte/gogrep v0.5.0 // indirect
	github.com/quasilyte/regex/syntax v0.0.0-20210819130434-b3f0c404a727 // indirect
	github.com/quasilyte/stdinfo v0.0.0-20220114132959-f7386bf02567 // indirect
	github.com/rcrowley/go-metrics v0.0.0-20201227073835-cf1acfcdf475 // indirect
	github.com/rivo/uniseg v0.2.0 // indirect
	github.com/rogpeppe/go-internal v1.11.0 // indirect
	github.com/rs/cors v1.8.3 // indirect
	github.com/rs/zerolog v1.30.0 // indirect
	github.com/ryancurrah/gomodguard v1.3.0 // indirect
	github.com/ryanrolds/sqlclosecheck v0.4.0 // indirect
	github.com/sanposhiho/wastedassign/v2 v2.0.7 // indirect
	github.com/sasha-s/go-deadlock v0.3.1 // indirect
	github.com/sashamelentyev/interfacebloat v1.1.0 // indirect
	github.com/sashamelentyev/usestdlibvars v1.23.0 // indirect
	github.com/securego/gosec/v2 v2.16.0 // indirect
	github.com/shazow/go-diff v0.0.0-20160112020656-b6b7b6733b8c // indirect
	github.com/sirupsen/logrus v1.9.3 // indirect
	github.com/sivchari/containedctx v1.0.3 // indirect
	github.com/sivchari/nosnakecase v1.7.0 // indirect
	github.com/sivchari/tenv v1.7.1 // indirect
	github.com/sonatard/noctx v0.0.2 // indirect
	github.com/sourcegraph/go-diff v0.7.0 // indirect
	github.com/spf13/afero v1.9.5 // indirect
	github.com/spf13/jwalterweatherman v1.1.0 // indirect
	github.com/spf13/viper v1.16.0 // indirect
	github.com/ssgreg/nlreturn/v2 v2.2.1 // indirect
	github.com/stbenjam/no-sprintf-host-port v0.1.1 // indirect
	github.com/stretchr/objx v0.5.0 // indirect
	github.com/subosito/gotenv v1.4.2 // indirect
	github.com/syndtr/goleveldb v1.0.1-0.20220721030215-126854af5e6d // indirect
	github.com/t-yuki/gocover-cobertura v0.0.0-20180217150009-aaee18c8195c // indirect
	github.com/tdakkota/asciicheck v0.1.1 // indirect
	github.com/tendermint/go-amino v0.16.0 // indirect
	github.com/tetafro/godot v1.4.11 // indirect
	github.com/tidwall/btree v1.6.0 // indirect
	github.com/timakin/bodyclose v0.0.0-20221125081123-e39cf3fc478e // indirect
	github.com/timonwong/loggercheck v0.9.3 // indirect
	github.com/tomarrell/wrapcheck/v2 v2.8.0 // indirect
	github.com/tommy-muehle/go-mnd/v2 v2.5.1 // indirect
	github.com/ulikunitz/xz v0.5.11 // indirect
	github.com/ultraware/funlen v0.0.3 // indirect
	github.com/ultraware/whitespace v0.0.5 // indirect
	github.com/uudashr/gocognit v1.0.6 // indirect
	github.com/yagipy/maintidx v1.0.0 // indirect
	github.com/yeya24/promlinter v0.2.0 // indirect
	github.com/zondax/hid v0.9.2 // indirect
	github.com/zondax/ledger-go v0.14.3 // indirect
	gitlab.com/bosi/decorder v0.2.3 // indirect
	go.etcd.io/bbolt v1.3.7 // indirect
	go.opencensus.io v0.24.0 // indirect
	go.uber.org/atomic v1.10.0 // indirect
	go.uber.org/multierr v1.10.0 // indirect
	go.uber.org/zap v1.24.0 // indirect
	golang.org/x/crypto v0.11.0 // indirect
	golang.org/x/exp v0.0.0-20230711153332-06a737ee72cb // indirect
	golang.org/x/exp/typeparams v0.0.0-20230213192124-5e25df0256eb // indirect
	golang.org/x/mod v0.11.0 // indirect
	golang.org/x/net v0.12.0 // indirect
	golang.org/x/oauth2 v0.8.0 // indirect
	golang.org/x/sync v0.2.0 // indirect
	golang.org/x/sys v0.11.0 // indirect
	golang.org/x/term v0.10.0 // indirect
	golang.org/x/text v0.12.0 // indirect
	golang.org/x/tools v0.9.3 // indirect
	golang.org/x/xerrors v0.0.0-20220907171357-04be3eba64a2 // indirect
	google.golang.org/api v0.126.0 // indirect
	google.golang.org/appengine v1.6.7 // indirect
	google.golang.org/genproto v0.0.0-20230706204954-ccb25ca9f130 // indirect
	google.golang.org/genproto/googleapis/rpc v0.0.0-20230711160842-782d3b101e98 // indirect
	gopkg.in/ini.v1 v1.67.0 // indirect
	gopkg.in/yaml.v3 v3.0.1 // indirect
	honnef.co/go/tools v0.4.3 // indirect
	mvdan.cc/interfacer v0.0.0-20180901003855-c20040233aed // indirect
	mvdan.cc/lint v0.0.0-20170908181259-adc824a0674b // indirect
	mvdan.cc/unparam v0.0.0-20221223090309-7455f1af531d // indirect
	nhooyr.io/websocket v1.8.7 // indirect
	pgregory.net/rapid v0.5.5 // indirect
	sigs.k8s.io/yaml v1.3.0 // indirect
)

replace (
	// use cosmos fork of keyring
	github.com/99designs/keyring => github.com/cosmos/keyring v1.2.0
	//TODO: to be replaced from comdex fork of bandchain-packet
	github.com/bandprotocol/bandchain-packet => github.com/InjectiveLabs/bandchain-packet v0.0.4-0.20230327115226-35199d4659d5
	// https://github.com/cosmos/cosmos-sdk/blob/v0.47.5/UPGRADING.md#protobuf
	// github.com/gogo/protobuf => github.com/regen-network/protobuf v1.3.3-alpha.regen.1
	github.com/syndtr/goleveldb => github.com/syndtr/goleveldb v1.0.1-0.20210819022825-2ae1ddf74ef7
)

require github.com/comdex-official/comdex v0.0.0

replace github.com/comdex-official/comdex => /repo
