//go:build verif

package harness

// C20 — population statistics of the exported genesis states.
//
// A swapped id in an export helper (`PoolId: pool.PairId`) is invisible to the store diff as long as every record of the state
// has the two ids equal. This file makes that blind spot structural: the exported genesis JSON of every DeFi module is walked
// generically; for every record list (JSON array of objects, at any depth) it records how many records the richest state had and,
// for every PAIR of id-like fields of the record type (`id`, `*_id`, `*Id`), whether some record of some state has the two
// different. After the last case one `gen.field` line per top-level genesis field and one `gen.list` line per record list are
// written; the driver checks them against the regenerated table (`genFields`) and reports a list that was empty in every state,
// or an id pair that was equal in every record, as BAD (a hole in the fixture, not a property violation) unless the harness names
// the reason here (`c20EmptyWhy`, `c20EqualWhy`).

import (
	"bytes"
	"encoding/json"
	"fmt"
	"sort"
	"strconv"
	"strings"
)

type c20ListStat struct {
	module, path string
	max          int             // records in the richest state
	pairs        map[string]bool // "f|g" (f<g): id-like fields that occur together in some record
	distinct     map[string]bool // … and differ in some record of some state
	states       int             // states in which the list was non-empty
}

type c20Population struct {
	fields map[string]string // module "\t" normalised top-level field -> list | scalar
	lists  map[string]*c20ListStat
	order  []string
}

func c20NewPopulation() *c20Population {
	return &c20Population{fields: map[string]string{}, lists: map[string]*c20ListStat{}}
}

func c20Norm(s string) string { return strings.ToLower(strings.ReplaceAll(s, "_", "")) }

func c20IsIDKey(k string) bool {
	n := c20Norm(k)
	return n == "id" || strings.HasSuffix(n, "id")
}

func c20IDValue(v interface{}) (uint64, bool) {
	switch x := v.(type) {
	case string:
		n, err := strconv.ParseUint(x, 10, 64)
		return n, err == nil
	case json.Number:
		n, err := strconv.ParseUint(x.String(), 10, 64)
		return n, err == nil
	}
	return 0, false
}

// lists that are empty in every state, with the reason (module.path)
var c20EmptyWhy = map[string]string{}

// id pairs that are equal in every record of every state, with the reason (module.path:f|g)
var c20EqualWhy = map[string]string{}

func (p *c20Population) list(module, path string) *c20ListStat {
	k := module + "." + path
	if s, ok := p.lists[k]; ok {
		return s
	}
	s := &c20ListStat{module: module, path: path, pairs: map[string]bool{}, distinct: map[string]bool{}}
	p.lists[k] = s
	p.order = append(p.order, k)
	return s
}

// addState walks one module's exported genesis (already decoded with UseNumber); returns per list path whether this state had a
// record with all id-like fields pairwise different.
func (p *c20Population) addState(tr *Trace, module string, raw json.RawMessage) {
	dec := json.NewDecoder(bytes.NewReader(raw))
	dec.UseNumber()
	var top map[string]interface{}
	if err := dec.Decode(&top); err != nil {
		tr.Line("gen.note", "population: cannot decode genesis of "+module+": "+err.Error())
		return
	}
	counts := map[string]int{}
	allDistinct := map[string]bool{}
	var walk func(path string, v interface{})
	walk = func(path string, v interface{}) {
		switch x := v.(type) {
		case map[string]interface{}:
			for k, y := range x {
				walk(path+"."+k, y)
			}
		case []interface{}:
			isRec := len(x) == 0
			for _, el := range x {
				if _, ok := el.(map[string]interface{}); ok {
					isRec = true
				}
			}
			if !isRec {
				return // list of scalars
			}
			st := p.list(module, path)
			counts[path] += len(x)
			for _, el := range x {
				rec, ok := el.(map[string]interface{})
				if !ok {
					continue
				}
				var ids []string
				vals := map[string]uint64{}
				for k, y := range rec {
					if c20IsIDKey(k) {
						if n, ok := c20IDValue(y); ok {
							ids = append(ids, k)
							vals[k] = n
						}
					}
				}
				sort.Strings(ids)
				all := true
				for i := range ids {
					for j := i + 1; j < len(ids); j++ {
						pk := ids[i] + "|" + ids[j]
						st.pairs[pk] = true
						if vals[ids[i]] != vals[ids[j]] {
							st.distinct[pk] = true
						} else {
							all = false
						}
					}
				}
				if all && len(ids) >= 2 {
					allDistinct[path] = true
				}
				for k, y := range rec {
					walk(path+"[]."+k, y)
				}
			}
		}
	}
	for k, v := range top {
		kind := "scalar"
		if arr, ok := v.([]interface{}); ok {
			kind = "list"
			if len(arr) > 0 {
				if _, isObj := arr[0].(map[string]interface{}); !isObj {
					kind = "scalars"
				}
			}
		}
		fk := module + "\t" + c20Norm(k)
		if old := p.fields[fk]; old == "" || old == "list" && kind == "scalars" {
			p.fields[fk] = kind
		}
		walk(k, v)
	}
	for path, n := range counts {
		st := p.list(module, path)
		if n > st.max {
			st.max = n
		}
		if n > 0 {
			st.states++
		}
		switch {
		case n == 0:
			tr.Count("ids:" + module + "." + path + ":empty")
		case len(st.pairs) == 0:
			tr.Count("ids:" + module + "." + path + ":single-id")
		case allDistinct[path]:
			tr.Count("ids:" + module + "." + path + ":pairwise-distinct-yes")
		default:
			tr.Count("ids:" + module + "." + path + ":pairwise-distinct-no")
		}
	}
}

// report writes the gen.field / gen.list / gen.coverage lines and the statistics.
func (p *c20Population) report(tr *Trace) {
	var fks []string
	for k := range p.fields {
		fks = append(fks, k)
	}
	sort.Strings(fks)
	topMax := map[string]int{}
	for _, st := range p.lists {
		if !strings.Contains(st.path, ".") {
			topMax[st.module+"\t"+c20Norm(st.path)] = st.max
		}
	}
	for _, fk := range fks {
		parts := strings.SplitN(fk, "\t", 2)
		kind := p.fields[fk]
		n := topMax[fk]
		why := "-"
		if kind == "list" && n == 0 {
			if w, ok := c20EmptyWhy[parts[0]+"."+parts[1]]; ok {
				why = w
			}
		}
		tr.Line("gen.field", parts[0], parts[1], kind, strconv.Itoa(n), why)
	}
	keys := append([]string{}, p.order...)
	sort.Strings(keys)
	summary := map[string]string{}
	for _, k := range keys {
		st := p.lists[k]
		var missing []string
		var prs []string
		for pr := range st.pairs {
			prs = append(prs, pr)
		}
		sort.Strings(prs)
		why := "-"
		for _, pr := range prs {
			if !st.distinct[pr] {
				if w, ok := c20EqualWhy[k+":"+pr]; ok {
					why = w
					continue
				}
				missing = append(missing, pr)
			}
		}
		if st.max == 0 {
			if w, ok := c20EmptyWhy[k]; ok {
				why = w
			}
		}
		ms := "-"
		if len(missing) > 0 {
			ms = strings.Join(missing, ",")
		}
		tr.Line("gen.list", st.module, st.path, strconv.Itoa(st.max), strconv.Itoa(len(st.distinct)), strconv.Itoa(len(st.pairs)), ms, why)
		summary[k] = fmt.Sprintf("max %d records, non-empty in %d states, id pairs distinct %d/%d%s", st.max, st.states, len(st.distinct), len(st.pairs),
			map[bool]string{true: " — equal in every record: " + ms, false: ""}[len(missing) > 0])
	}
	for _, s := range c20Stores {
		tr.Line("gen.coverage", s[0])
	}
	tr.Set("population", summary)
}
