//go:build verif

package harness

// C20 — population statistics of the exported genesis states.
//
// A swapped id in an export helper (`PoolId: pool.PairId`) is invisible to the store diff as long as every record of the state
// has the two ids equal. This file makes that blind spot structural: the exported genesis JSON of every DeFi module is walked
// generically; for every record list (JSON array of objects, at any depth) it records how many records the richest state had and,
// for every PAIR of id-like fields of the record type (`id`, `*_id`, `*Id`), whether some record of some state has the two
// different. After the last case one `gen.field` line per top-level genesis field and one `gen.list` line per record list are
// written; the driver checks them against the regenerated table (`genFields`) and reports a list that was empty in every state,
// or an id pair that was equal in every record, as BAD (a hole in the fixture, not a property violation) unless the harness names
// the reason here (`c20EmptyWhy`, `c20EqualWhy`).

import (
	chain "github.com/comdex-official/comdex/app"

	"bytes"
	"encoding/json"
	"fmt"
	"sort"
	"strconv"
	"strings"
)

type c20ListStat struct {
	module, path string
	max          int             // records in the richest state
	pairs        map[string]bool // "f|g" (f<g): id-like fields that occur together in some record
	distinct     map[string]bool // … and differ in some record of some state
	states       int             // states in which the list was non-empty
}

type c20Population struct {
	fields map[string]string // module "\t" normalised top-level field -> list | scalar
	lists  map[string]*c20ListStat
	order  []string
}

func c20NewPopulation() *c20Population {
	return &c20Population{fields: map[string]string{}, lists: map[string]*c20ListStat{}}
}

func c20Norm(s string) string { return strings.ToLower(strings.ReplaceAll(s, "_", "")) }

func c20IsIDKey(k string) bool {
	n := c20Norm(k)
	return n == "id" || strings.HasSuffix(n, "id")
}

func c20IDValue(v interface{}) (uint64, bool) {
	switch x := v.(type) {
	case string:
		n, err := strconv.ParseUint(x, 10, 64)
		return n, err == nil
	case json.Number:
		n, err := strconv.ParseUint(x.String(), 10, 64)
		return n, err == nil
	}
	return 0, false
}

// lists that are empty in every state, with the reason (module.path)
var c20EmptyWhy = map[string]string{
	"liquidation.lockedVault[].selloff_history": "appended only when a completed first-generation lend auction leaves the borrow above the un-liquidation point and " +
		"the locked borrow is auctioned again (x/liquidation/keeper/liquidate_borrow.go:471,529,586); not driven",
}

// id pairs that are equal in every record of every state, with the reason (module.path:f|g)
var c20EqualWhy = map[string]string{
	"auction.debtAuction:asset_id|asset_in_id":     "structural: StartDebtAuction stores the collector asset in both fields (x/auction/keeper/debt.go:128-132)",
	"auction.surplusAuction:asset_id|asset_out_id": "structural: StartSurplusAuction stores the collector asset in both fields (x/auction/keeper/surplus.go:134-137)",
	"auctionsV2.auction:auction_id|locked_vault_id": "structural: every locked vault starts exactly one auction, the two counters advance in lock step " +
		"(x/liquidationsV2/keeper/liquidate.go:217-220, x/auctionsV2/keeper/auctions.go:95,135)",
}

// fields that end in `id` but are type tags, not object ids (1 = surplus, 2 = debt, 3 = dutch; gauge type 1 = liquidity): they take
// part in no pair
var c20TagFields = map[string]bool{"auction_mapping_id": true, "dutch_id": true, "surplus_id": true, "debt_id": true, "gauge_type_id": true}

func (p *c20Population) list(module, path string) *c20ListStat {
	k := module + "." + path
	if s, ok := p.lists[k]; ok {
		return s
	}
	s := &c20ListStat{module: module, path: path, pairs: map[string]bool{}, distinct: map[string]bool{}}
	p.lists[k] = s
	p.order = append(p.order, k)
	return s
}

// addState walks one module's exported genesis (already decoded with UseNumber); returns per list path whether this state had a
// record with all id-like fields pairwise different.
func (p *c20Population) addState(tr *Trace, module string, raw json.RawMessage) {
	dec := json.NewDecoder(bytes.NewReader(raw))
	dec.UseNumber()
	var top map[string]interface{}
	if err := dec.Decode(&top); err != nil {
		tr.Line("gen.note", "population: cannot decode genesis of "+module+": "+err.Error())
		return
	}
	counts := map[string]int{}
	allDistinct := map[string]bool{}
	var walk func(path string, v interface{})
	walk = func(path string, v interface{}) {
		switch x := v.(type) {
		case map[string]interface{}:
			for k, y := range x {
				walk(path+"."+k, y)
			}
		case []interface{}:
			// (a list of scalars — ids, addresses — is counted like a record list; only records have id pairs)
			st := p.list(module, path)
			counts[path] += len(x)
			for _, el := range x {
				rec, ok := el.(map[string]interface{})
				if !ok {
					continue
				}
				var ids []string
				vals := map[string]uint64{}
				for k, y := range rec {
					if c20IsIDKey(k) && !c20TagFields[k] {
						if n, ok := c20IDValue(y); ok {
							ids = append(ids, k)
							vals[k] = n
						}
					}
				}
				sort.Strings(ids)
				all := true
				for i := range ids {
					for j := i + 1; j < len(ids); j++ {
						pk := ids[i] + "|" + ids[j]
						st.pairs[pk] = true
						if vals[ids[i]] != vals[ids[j]] {
							st.distinct[pk] = true
						} else {
							all = false
						}
					}
				}
				if all && len(ids) >= 2 {
					allDistinct[path] = true
				}
				for k, y := range rec {
					if !strings.Contains(path, ".") {
						// fields of the records of a top-level list (liquidity keeps its genesis fields one level down, per app)
						fk := module + "\t" + c20Norm(k)
						if _, isList := y.([]interface{}); isList {
							if p.fields[fk] == "" {
								p.fields[fk] = "list"
							}
						} else if p.fields[fk] == "" {
							p.fields[fk] = "scalar"
						}
					}
					walk(path+"[]."+k, y)
				}
			}
		}
	}
	for k, v := range top {
		kind := "scalar"
		if arr, ok := v.([]interface{}); ok {
			kind = "list"
			if len(arr) > 0 {
				if _, isObj := arr[0].(map[string]interface{}); !isObj {
					kind = "scalars"
				}
			}
		}
		fk := module + "\t" + c20Norm(k)
		if old := p.fields[fk]; old == "" || old == "list" && kind == "scalars" {
			p.fields[fk] = kind
		}
		walk(k, v)
	}
	for path, n := range counts {
		st := p.list(module, path)
		if n > st.max {
			st.max = n
		}
		if n > 0 {
			st.states++
		}
		switch {
		case n == 0:
			tr.Count("ids:" + module + "." + path + ":empty")
		case len(st.pairs) == 0:
			tr.Count("ids:" + module + "." + path + ":single-id")
		case allDistinct[path]:
			tr.Count("ids:" + module + "." + path + ":pairwise-distinct-yes")
		default:
			tr.Count("ids:" + module + "." + path + ":pairwise-distinct-no")
		}
	}
}

// report writes the gen.field / gen.list / gen.coverage lines and the statistics.
func (p *c20Population) report(tr *Trace) {
	var fks []string
	for k := range p.fields {
		fks = append(fks, k)
	}
	sort.Strings(fks)
	topMax := map[string]int{}
	for _, st := range p.lists {
		if i := strings.Index(st.path, "[]."); !strings.Contains(st.path, ".") {
			topMax[st.module+"\t"+c20Norm(st.path)] = st.max
		} else if i > 0 && !strings.Contains(st.path[:i], ".") && !strings.Contains(st.path[i+3:], ".") {
			if k := st.module + "\t" + c20Norm(st.path[i+3:]); topMax[k] < st.max {
				topMax[k] = st.max
			}
		}
	}
	for _, fk := range fks {
		parts := strings.SplitN(fk, "\t", 2)
		kind := p.fields[fk]
		n := topMax[fk]
		why := "-"
		if kind == "list" && n == 0 {
			if w, ok := c20EmptyWhy[parts[0]+"."+parts[1]]; ok {
				why = w
			}
		}
		tr.Line("gen.field", parts[0], parts[1], kind, strconv.Itoa(n), why)
	}
	keys := append([]string{}, p.order...)
	sort.Strings(keys)
	summary := map[string]string{}
	for _, k := range keys {
		st := p.lists[k]
		var missing []string
		var prs []string
		for pr := range st.pairs {
			prs = append(prs, pr)
		}
		sort.Strings(prs)
		why := "-"
		for _, pr := range prs {
			if !st.distinct[pr] {
				if w, ok := c20EqualWhy[k+":"+pr]; ok {
					why = w
					continue
				}
				missing = append(missing, pr)
			}
		}
		if st.max == 0 {
			if w, ok := c20EmptyWhy[k]; ok {
				why = w
			}
		}
		ms := "-"
		if len(missing) > 0 {
			ms = strings.Join(missing, ",")
		}
		tr.Line("gen.list", st.module, st.path, strconv.Itoa(st.max), strconv.Itoa(len(st.distinct)), strconv.Itoa(len(st.pairs)), ms, why)
		summary[k] = fmt.Sprintf("max %d records, non-empty in %d states, id pairs distinct %d/%d%s", st.max, st.states, len(st.distinct), len(st.pairs),
			map[bool]string{true: " — equal in every record: " + ms, false: ""}[len(missing) > 0])
	}
	for _, s := range c20Stores {
		tr.Line("gen.coverage", s[0])
	}
	tr.Set("population", summary)
}

// message types of the DeFi modules the continuation workload never delivers successfully, with the reason
var c20MsgWhy = map[string]string{
	"/comdex.collector.v1beta1.MsgDeposit": "one-off main-net refund: succeeds only once and pays hard-coded comdex1… recipients that do not decode under the test " +
		"bech32 prefix (x/collector/keeper/refund.go:132-170; suspected gap S01); delivered on both chains, refused alike",
	"/comdex.locker.v1beta1.MsgAddWhiteListedAssetRequest": "registered message type without a Msg service method (x/locker/keeper/msg_server.go has no handler): the router " +
		"refuses it on both chains",
	"/comdex.bandoracle.v1beta1.MsgFetchPriceData": "needs an open IBC channel to the oracle chain",
}

// c20MsgReport prints the per-message-type distribution of the continuation workload (original chain) and reports every
// registered comdex message type that no continuation operation delivered successfully against the re-imported positions.
func c20MsgReport(tr *Trace) {
	enc := chain.MakeEncodingConfig()
	var all []string
	for _, u := range enc.InterfaceRegistry.ListImplementations("cosmos.base.v1beta1.Msg") {
		if strings.HasPrefix(u, "/comdex.") {
			all = append(all, u)
		}
	}
	sort.Strings(all)
	dist := map[string]string{}
	for _, u := range all {
		st := c20ContMsgs[u]
		if st == nil {
			st = &[2]int{}
		}
		dist[u] = fmt.Sprintf("accepted %d, refused %d", st[0], st[1])
		why := "-"
		if w, ok := c20MsgWhy[u]; ok {
			why = w
		}
		tr.Line("gen.msgtype", u, strconv.Itoa(st[0]), strconv.Itoa(st[1]), why)
	}
	tr.Set("continuation_message_types", dist)
}
