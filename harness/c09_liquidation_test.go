//go:build verif

package harness

// C09 — liquidation is safe and live. Drives the REAL BeginBlockers of x/liquidation (generation 1) and
// x/liquidationsV2 (generation 2), the real liquidate messages (through the message router on a cache context), and
// the pure helpers, and prints pre/post state projections for the Lean driver (lean/Comdex/Drv/Liquidation.lean).

import (
	"fmt"
	"math/big"
	"math"
	"os"
	"sort"
	"strings"
	"testing"
	"time"

	chain "github.com/comdex-official/comdex/app"
	utils "github.com/comdex-official/comdex/types"
	"github.com/comdex-official/comdex/app/wasm/bindings"
	assettypes "github.com/comdex-official/comdex/x/asset/types"
	auctiontypes "github.com/comdex-official/comdex/x/auction/types"
	auctionsV2types "github.com/comdex-official/comdex/x/auctionsV2/types"
	esmtypes "github.com/comdex-official/comdex/x/esm/types"
	lendkeeper "github.com/comdex-official/comdex/x/lend/keeper"
	lendtypes "github.com/comdex-official/comdex/x/lend/types"
	liquidation "github.com/comdex-official/comdex/x/liquidation"
	liqtypes "github.com/comdex-official/comdex/x/liquidation/types"
	liquidationsV2 "github.com/comdex-official/comdex/x/liquidationsV2"
	liq2types "github.com/comdex-official/comdex/x/liquidationsV2/types"
	markettypes "github.com/comdex-official/comdex/x/market/types"
	vaulttypes "github.com/comdex-official/comdex/x/vault/types"
	abci "github.com/cometbft/cometbft/abci/types"
	tmproto "github.com/cometbft/cometbft/proto/tendermint/types"
	sdk "github.com/cosmos/cosmos-sdk/types"
)

type c09Fix struct {
	t        *testing.T
	app      *chain.App
	ctx      sdk.Context
	gen      int // 1 or 2
	rng      *Rng
	tr       *Trace
	assets   []uint64 // all asset ids
	collat   []uint64
	debts    []uint64
	apps     []uint64
	products []uint64
	users    []sdk.AccAddress
	height   int64
	tOffset  int64 // seconds added to the block clock by time jumps (so that interest accrual matters)
	lend     bool   // lend fixture present (generation 2 only)
	lendCol  uint64 // collateral asset of the same-pool borrows (LA)
	lendCol2 uint64 // collateral asset of the cross-pool borrows (LB)
	lendIDs  []uint64    // lend positions referenced by the borrows of the last pre-state
	tlKeys   [][2]uint64 // (pool, asset) whose TotalLend / TotalBorrowed the last pre-state printed
	tbKeys   [][2]uint64
	accr     map[uint64]sdk.Dec // per borrow: InterestAccumulated after the accrual, AT THE STATE in which the coming sweep will ask for it
	poolMod  string // lend pool module name
	preLaid  uint64 // lend-auction id counter at the last pre-state (generation 1)
	lendDebts []uint64 // debt assets of the lend pairs (LB, LD)
	forceEmode bool    // lend fixture: e-mode on both pairs
	extUsers map[string]bool
}

func c09Addr(i int) sdk.AccAddress {
	b := make([]byte, 20)
	b[0] = 0xC9
	b[18] = byte(i >> 8)
	b[19] = byte(i)
	return sdk.AccAddress(b)
}

func c09Pow10(n int) sdk.Int {
	return sdk.NewIntFromBigInt(new(big.Int).Exp(big.NewInt(10), big.NewInt(int64(n)), nil))
}

// deliver a message the way the chain does: ValidateBasic, router handler on a cache context, write on success only.
func c09Deliver(app *chain.App, ctx sdk.Context, msg sdk.Msg) string {
	if err := msg.ValidateBasic(); err != nil {
		return "err"
	}
	h := app.MsgServiceRouter().Handler(msg)
	if h == nil {
		return "err"
	}
	cctx, write := ctx.CacheContext()
	var err error
	p, _ := try(func() { _, err = h(cctx, msg) })
	if p {
		return "panic"
	}
	if err != nil {
		if os.Getenv("VERIF_DEBUG") != "" {
			fmt.Fprintf(os.Stderr, "deliver %T: %v\n", msg, err)
		}
		return "err"
	}
	write()
	return "ok"
}

func (f *c09Fix) setPrice(id uint64, price uint64, active bool) {
	f.app.MarketKeeper.SetTwa(f.ctx, markettypes.TimeWeightedAverage{AssetID: id, ScriptID: 12, Twa: price, CurrentIndex: 0, IsPriceActive: active, PriceValue: []uint64{price}})
}

func (f *c09Fix) fund(addr sdk.AccAddress, denom string, amt sdk.Int) {
	c := sdk.NewCoins(sdk.NewCoin(denom, amt))
	if err := f.app.BankKeeper.MintCoins(f.ctx, liq2types.ModuleName, c); err != nil {
		f.t.Fatal(err)
	}
	if err := f.app.BankKeeper.SendCoinsFromModuleToAccount(f.ctx, liq2types.ModuleName, addr, c); err != nil {
		f.t.Fatal(err)
	}
}

func (f *c09Fix) denom(id uint64) string {
	a, _ := f.app.AssetKeeper.GetAsset(f.ctx, id)
	return a.Denom
}

// build a population: assets, apps, pairs, products, whitelisting, funded users.
func c09Build(t *testing.T, app *chain.App, ctx sdk.Context, gen int, rng *Rng, tr *Trace, withLend bool) *c09Fix {
	f := &c09Fix{t: t, app: app, ctx: ctx, gen: gen, rng: rng, tr: tr, height: 10}
	nApps := rng.Range(1, 3)
	if gen == 1 {
		nApps = rng.Range(1, 2) // app id 3 shares its generation-1 offset key with the borrow sweep: separate witness
	}
	if withLend {
		nApps = 3
	}
	for i := 0; i < nApps; i++ {
		nm := []string{"alpha", "bravo", "commodo"}[i]
		sh := []string{"alpha", "bravo", "cmdo"}[i]
		if err := app.AssetKeeper.AddAppRecords(ctx, assettypes.AppData{Name: nm, ShortName: sh, MinGovDeposit: sdk.NewInt(0), GovTimeInSeconds: 0}); err != nil {
			t.Fatal(err)
		}
		f.apps = append(f.apps, uint64(i+1))
	}
	decs := []int{6, 8, 18, 6}
	nCol := rng.Range(1, 3)
	mk := func(name string, dec int, mintable bool, price uint64) uint64 {
		denom := "u" + strings.ToLower(name)
		if err := app.AssetKeeper.AddAssetRecords(ctx, assettypes.Asset{Name: name, Denom: denom, Decimals: c09Pow10(dec), IsOnChain: true, IsOraclePriceRequired: true, IsCdpMintable: mintable}); err != nil {
			t.Fatal(err)
		}
		var id uint64
		for _, a := range app.AssetKeeper.GetAssets(ctx) {
			if a.Denom == denom {
				id = a.Id
			}
		}
		f.assets = append(f.assets, id)
		f.setPrice(id, price, true)
		return id
	}
	for i := 0; i < nCol; i++ {
		d := decs[rng.Intn(len(decs))]
		p := uint64(rng.Range(200000, 40000000))
		f.collat = append(f.collat, mk("COL"+alphaName(i), d, true, p))
	}
	nDebt := rng.Range(1, 2)
	for i := 0; i < nDebt; i++ {
		d := []int{6, 6, 8}[rng.Intn(3)]
		p := uint64(rng.Range(900000, 1100000))
		f.debts = append(f.debts, mk("DEBT"+alphaName(i), d, true, p))
	}
	// pairs and products
	pairID := uint64(0)
	for _, appID := range f.apps {
		np := rng.Range(1, 3)
		if gen == 1 && appID == lendtypes.AppID {
			np = 0 // generation 1: app id 3 shares its vault offset key with the borrow sweep (separate witness, notes defect 4)
		}
		for j := 0; j < np; j++ {
			cin := f.collat[rng.Intn(len(f.collat))]
			cout := f.debts[rng.Intn(len(f.debts))]
			if err := app.AssetKeeper.AddPairsRecords(ctx, assettypes.Pair{AssetIn: cin, AssetOut: cout}); err != nil {
				// duplicate pair: find it
				pairs := app.AssetKeeper.GetPairs(ctx)
				found := uint64(0)
				for _, p := range pairs {
					if p.AssetIn == cin && p.AssetOut == cout {
						found = p.Id
					}
				}
				if found == 0 {
					t.Fatal(err)
				}
				pairID = found
			} else {
				pairs := app.AssetKeeper.GetPairs(ctx)
				pairID = pairs[len(pairs)-1].Id
			}
			minCr := sdk.NewDecWithPrec(int64(rng.Range(1050, 2500)), 3)
			if rng.Chance(50) {
				minCr = minCr.Add(sdk.NewDecWithPrec(int64(rng.Intn(1000000000)), 18))
			}
			closing := sdk.ZeroDec()
			if rng.Chance(50) {
				closing = sdk.NewDecWithPrec(int64(rng.Range(1, 30)), 3)
			}
			stab := sdk.ZeroDec()
			if rng.Chance(40) {
				stab = sdk.NewDecWithPrec(int64(rng.Range(10, 250)), 3) // interest accrues; x/rewards books it at interactions and at seizure
			}
			ep := bindings.MsgAddExtendedPairsVault{
				AppID: appID, PairID: pairID, StabilityFee: stab, ClosingFee: closing,
				LiquidationPenalty: sdk.MustNewDecFromStr("0.12"), DrawDownFee: sdk.ZeroDec(), IsVaultActive: true,
				DebtCeiling: sdk.NewIntFromUint64(1 << 62), DebtFloor: sdk.NewInt(1000), IsStableMintVault: false,
				MinCr: minCr, PairName: "P" + alphaName(int(appID)*10+j), AssetOutOraclePrice: rng.Chance(60),
				AssetOutPrice: uint64(rng.Range(950000, 1050000)), MinUsdValueLeft: 1000000,
			}
			if err := app.AssetKeeper.WasmAddExtendedPairsVaultRecords(ctx, &ep); err != nil {
				t.Fatal(err)
			}
			f.products = append(f.products, app.AssetKeeper.GetPairsVaultID(ctx))
		}
	}
	// whitelisting / enabling
	for _, appID := range f.apps {
		if rng.Chance(85) {
			_ = app.Rewardskeeper.WhitelistAppIDVault(ctx, appID) // vault interest is only calculated for such apps
		}
		if gen == 2 {
			if rng.Chance(90) {
				f.setWl2E(appID, rng.Chance(80), rng.Chance(35))
			}
		} else {
			if rng.Chance(90) && appID != lendtypes.AppID {
				_ = app.LiquidationKeeper.WasmWhitelistAppIDLiquidation(ctx, appID)
			}
			if rng.Chance(90) {
				f.setAuc1(appID)
			}
		}
	}
	if gen == 2 && rng.Chance(92) { // without them the external-keeper message is rejected; the sweeps do not need them
		app.NewaucKeeper.SetAuctionParams(ctx, auctionsV2types.AuctionParams{AuctionDurationSeconds: 3600, Step: sdk.MustNewDecFromStr("0.1"),
			WithdrawalFee: sdk.ZeroDec(), ClosingFee: sdk.ZeroDec(), MinUsdValueLeft: 100000, BidFactor: sdk.MustNewDecFromStr("0.1"),
			LiquidationPenalty: sdk.NewDecWithPrec(int64(rng.Range(0, 150)), 3), AuctionBonus: sdk.NewDecWithPrec(int64(rng.Range(0, 50)), 3)})
	}
	// users
	nUsers := scale(10, 16)
	for i := 0; i < nUsers; i++ {
		a := c09Addr(i)
		f.users = append(f.users, a)
		for _, id := range f.assets {
			f.fund(a, f.denom(id), c09Pow10(30))
		}
	}
	return f
}

func (f *c09Fix) setWl2(appID uint64, dutch bool) { f.setWl2E(appID, dutch, false) }

// whitelisting with both auction-type flags (IsDutchActivated selects Dutch; otherwise English is used when activated)
func (f *c09Fix) setWl2E(appID uint64, dutch, english bool) {
	d := liq2types.DutchAuctionParam{Premium: sdk.MustNewDecFromStr("0.1"), Discount: sdk.MustNewDecFromStr("0.1"), DecrementFactor: sdk.NewInt(1)}
	e := liq2types.EnglishAuctionParam{DecrementFactor: sdk.NewInt(1)}
	f.app.NewliqKeeper.SetLiquidationWhiteListing(f.ctx, liq2types.LiquidationWhiteListing{AppId: appID, Initiator: true, IsDutchActivated: dutch,
		DutchAuctionParam: &d, IsEnglishActivated: english, EnglishAuctionParam: &e, KeeeperIncentive: sdk.MustNewDecFromStr("0.1")})
	f.tr.Count(fmt.Sprintf("wl2:dutch=%v,english=%v", dutch, english))
}

// x/lend auction parameters of an app (generation 1 borrow auctions need them)
func (f *c09Fix) setLendAuc1(appID uint64) {
	_ = f.app.LendKeeper.AddAuctionParamsData(f.ctx, lendtypes.AuctionParams{AppId: appID, AuctionDurationSeconds: 21600, Buffer: sdk.MustNewDecFromStr("1.2"),
		Cusp: sdk.MustNewDecFromStr("0.7"), Step: sdk.NewInt(360), PriceFunctionType: 1, DutchId: 3, BidDurationSeconds: 3600})
}

func (f *c09Fix) setAuc1(appID uint64) {
	f.app.AuctionKeeper.SetAuctionParams(f.ctx, auctiontypes.AuctionParams{AppId: appID, AuctionDurationSeconds: 300, Buffer: sdk.MustNewDecFromStr("1.2"),
		Cusp: sdk.MustNewDecFromStr("0.6"), Step: sdk.NewIntFromUint64(1), PriceFunctionType: 1, SurplusId: 1, DebtId: 2, DutchId: 3, BidDurationSeconds: 300})
}

func (f *c09Fix) setBatch(b uint64) {
	if f.gen == 2 {
		f.app.NewliqKeeper.SetParams(f.ctx, liq2types.NewParams(b))
	} else {
		f.app.LiquidationKeeper.SetParams(f.ctx, liqtypes.NewParams(b))
	}
}

// create a vault for user u on product prodID with a collateralisation of crPermille/1000 × MinCr
func (f *c09Fix) createVault(u sdk.AccAddress, prodID uint64, outAmt sdk.Int, crPermille int64) string {
	ep, ok := f.app.AssetKeeper.GetPairsVault(f.ctx, prodID)
	if !ok {
		return "err"
	}
	pair, _ := f.app.AssetKeeper.GetPair(f.ctx, ep.PairId)
	ain, _ := f.app.AssetKeeper.GetAsset(f.ctx, pair.AssetIn)
	aout, _ := f.app.AssetKeeper.GetAsset(f.ctx, pair.AssetOut)
	tin, okIn := f.app.MarketKeeper.GetTwa(f.ctx, ain.Id)
	pout := ep.AssetOutPrice
	if ep.AssetOutOraclePrice {
		tw, _ := f.app.MarketKeeper.GetTwa(f.ctx, aout.Id)
		pout = tw.Twa
	}
	if !okIn || tin.Twa == 0 || pout == 0 {
		return "err"
	}
	target := ep.MinCr.MulInt64(crPermille).QuoInt64(1000)
	vout := sdk.NewDecFromInt(outAmt).MulInt(sdk.NewIntFromUint64(pout)).QuoInt(aout.Decimals)
	amtIn := target.Mul(vout).MulInt(ain.Decimals).QuoInt(sdk.NewIntFromUint64(tin.Twa)).Ceil().TruncateInt().AddRaw(1)
	msg := &vaulttypes.MsgCreateRequest{From: u.String(), AppId: ep.AppId, ExtendedPairVaultId: prodID, AmountIn: amtIn, AmountOut: outAmt}
	return c09Deliver(f.app, f.ctx, msg)
}

func (f *c09Fix) closeVault(v vaulttypes.Vault) string {
	msg := &vaulttypes.MsgCloseRequest{From: v.Owner, AppId: v.AppId, ExtendedPairVaultId: v.ExtendedPairVaultID, UserVaultId: v.Id}
	return c09Deliver(f.app, f.ctx, msg)
}

func c09Bal(f *c09Fix, module string) string {
	addr := f.app.AccountKeeper.GetModuleAddress(module)
	var parts []string
	for _, id := range f.assets {
		b := sdk.ZeroInt()
		if addr != nil {
			b = f.app.BankKeeper.GetBalance(f.ctx, addr, f.denom(id)).Amount
		}
		parts = append(parts, u(id)+":"+b.String())
	}
	return strings.Join(parts, ";")
}

func b01(b bool) string {
	if b {
		return "1"
	}
	return "0"
}

func (f *c09Fix) envLine() {
	var as, ps, aps []string
	for _, id := range f.assets {
		a, _ := f.app.AssetKeeper.GetAsset(f.ctx, id)
		tw, ok := f.app.MarketKeeper.GetTwa(f.ctx, id)
		pr := "-"
		if ok && tw.IsPriceActive {
			pr = u(tw.Twa)
		}
		as = append(as, u(id)+":"+a.Decimals.String()+":"+pr)
	}
	eps, _ := f.app.AssetKeeper.GetPairsVaults(f.ctx)
	for _, ep := range eps {
		pair, _ := f.app.AssetKeeper.GetPair(f.ctx, ep.PairId)
		ps = append(ps, strings.Join([]string{u(ep.Id), u(ep.AppId), ep.MinCr.BigInt().String(), u(pair.AssetIn), u(pair.AssetOut), b01(ep.AssetOutOraclePrice), u(ep.AssetOutPrice), ep.LiquidationPenalty.BigInt().String()}, ":"))
	}
	v1wl := map[uint64]bool{}
	for _, a := range f.app.LiquidationKeeper.GetAppIdsForLiquidation(f.ctx) {
		v1wl[a] = true
	}
	for _, id := range f.apps {
		es, found := f.app.EsmKeeper.GetESMStatus(f.ctx, id)
		ks, _ := f.app.EsmKeeper.GetKillSwitchData(f.ctx, id)
		wl, wlFound := f.app.NewliqKeeper.GetLiquidationWhiteListing(f.ctx, id)
		_, aucFound := f.app.AuctionKeeper.GetAuctionParams(f.ctx, id)
		_, lendAucFound := f.app.LendKeeper.GetAddAuctionParamsData(f.ctx, id)
		aps = append(aps, strings.Join([]string{u(id), b01(found && es.Status), b01(ks.BreakerEnable), b01(wlFound), b01(wlFound && wl.IsDutchActivated), b01(v1wl[id]), b01(aucFound),
			b01(wlFound && wl.IsEnglishActivated), b01(lendAucFound)}, ":"))
	}
	ap2 := "-"
	if ap, ok := f.app.NewaucKeeper.GetAuctionParams(f.ctx); ok {
		ap2 = ap.LiquidationPenalty.BigInt().String() + ":" + ap.AuctionBonus.BigInt().String()
	}
	f.tr.Line("liq.env", "A="+strings.Join(as, ";"), "P="+strings.Join(ps, ";"), "APP="+strings.Join(aps, ";"), "AP2="+ap2)
}

func (f *c09Fix) offsets() string {
	var parts []string
	if f.gen == 2 {
		for _, k := range []uint64{0, 1} {
			h, ok := f.app.NewliqKeeper.GetLiquidationOffsetHolder(f.ctx, liq2types.VaultLiquidationsOffsetPrefix, k)
			if ok {
				parts = append(parts, u(k)+":"+u(h.CurrentOffset))
			}
		}
	} else {
		keys := append([]uint64{}, f.apps...)
		has3 := false
		for _, k := range keys {
			if k == lendtypes.AppID {
				has3 = true
			}
		}
		if !has3 {
			keys = append(keys, lendtypes.AppID)
		}
		sort.Slice(keys, func(i, j int) bool { return keys[i] < keys[j] })
		for _, k := range keys {
			h, ok := f.app.LiquidationKeeper.GetLiquidationOffsetHolder(f.ctx, k, liqtypes.VaultLiquidationsOffsetPrefix)
			if ok {
				parts = append(parts, u(k)+":"+u(h.CurrentOffset))
			}
		}
	}
	return strings.Join(parts, ";")
}

func (f *c09Fix) auctionModule() string {
	if f.gen == 2 {
		return auctionsV2types.ModuleName
	}
	return auctiontypes.ModuleName
}

func (f *c09Fix) lendAuctionID() uint64 {
	if f.gen == 2 {
		return 0
	}
	return f.app.AuctionKeeper.GetLendAuctionID(f.ctx)
}

func (f *c09Fix) ids() (lockedID, auctionID uint64) {
	if f.gen == 2 {
		return f.app.NewliqKeeper.GetLockedVaultID(f.ctx), f.app.NewaucKeeper.GetAuctionID(f.ctx)
	}
	return f.app.LiquidationKeeper.GetLockedVaultID(f.ctx), f.app.AuctionKeeper.GetAuctionID(f.ctx)
}

// borrow projection (generation 2 lend fixture). Raw records only — WHICH threshold applies is decided by the model
// (Borrow.bridge), not here. The debt the code will look at is AmountOut + trunc(interest after the in-memory accrual),
// obtained from the real keeper on a throw-away branch (external value, DESIGN §3.4).
type c09Borrow struct {
	id                     uint64
	liquidated             bool
	amountIn, debt         sdk.Int
	assetIn, assetOut      uint64
	bridged                sdk.Int
	bridgedAsset, t1, t2   uint64
	emode                  bool
	lt, elt, ltT1, ltT2    sdk.Dec
	app, pool              uint64
	missing                bool
	principal              sdk.Int
	interestPre, interestPost sdk.Dec
	pen, bon               sdk.Dec
	cAsset, lendID, outPool uint64
	ltv, ltvT1, ltvT2, epen sdk.Dec
}

func (f *c09Fix) borrowRecords() []c09Borrow {
	ids, _ := f.app.LendKeeper.GetBorrows(f.ctx)
	var out []c09Borrow
	for _, id := range ids {
		bp, ok := f.app.LendKeeper.GetBorrow(f.ctx, id)
		if !ok {
			out = append(out, c09Borrow{id: id, missing: true})
			continue
		}
		pair, _ := f.app.LendKeeper.GetLendPair(f.ctx, bp.PairID)
		lp, _ := f.app.LendKeeper.GetLend(f.ctx, bp.LendingID)
		pool, _ := f.app.LendKeeper.GetPool(f.ctx, lp.PoolID)
		cctx, _ := f.ctx.CacheContext()
		debt := bp.AmountOut.Amount.Add(bp.InterestAccumulated.TruncateInt())
		ipost := bp.InterestAccumulated
		if !bp.IsLiquidated {
			if x, ok := f.accr[id]; ok {
				ipost = x
				debt = bp.AmountOut.Amount.Add(x.TruncateInt())
			} else if acc, err := f.app.LendKeeper.CalculateBorrowInterestForLiquidation(cctx, id); err == nil {
				debt = acc.AmountOut.Amount.Add(acc.InterestAccumulated.TruncateInt())
				ipost = acc.InterestAccumulated
			}
		}
		r := c09Borrow{id: id, liquidated: bp.IsLiquidated, amountIn: bp.AmountIn.Amount, debt: debt, assetIn: pair.AssetIn, assetOut: pair.AssetOut,
			bridged: bp.BridgedAssetAmount.Amount, emode: pair.IsEModeEnabled, app: lp.AppID, pool: lp.PoolID,
			principal: bp.AmountOut.Amount, interestPre: bp.InterestAccumulated, interestPost: ipost, lendID: bp.LendingID, outPool: pair.AssetOutPoolID}
		for _, d := range pool.AssetData {
			if d.AssetTransitType == 2 {
				r.t1 = d.AssetID
			}
			if d.AssetTransitType == 3 {
				r.t2 = d.AssetID
			}
		}
		for _, a := range f.app.AssetKeeper.GetAssets(f.ctx) {
			if a.Denom == bp.BridgedAssetAmount.Denom {
				r.bridgedAsset = a.Id
			}
		}
		rp, _ := f.app.LendKeeper.GetAssetRatesParams(f.ctx, pair.AssetIn)
		r1, _ := f.app.LendKeeper.GetAssetRatesParams(f.ctx, r.t1)
		r2, _ := f.app.LendKeeper.GetAssetRatesParams(f.ctx, r.t2)
		nz := func(d sdk.Dec) sdk.Dec {
			if d.IsNil() {
				return sdk.ZeroDec()
			}
			return d
		}
		r.lt, r.elt, r.ltT1, r.ltT2 = nz(rp.LiquidationThreshold), nz(rp.ELiquidationThreshold), nz(r1.LiquidationThreshold), nz(r2.LiquidationThreshold)
		r.pen, r.bon, r.cAsset = nz(rp.LiquidationPenalty), nz(rp.LiquidationBonus), rp.CAssetID
		r.ltv, r.ltvT1, r.ltvT2, r.epen = nz(rp.Ltv), nz(r1.Ltv), nz(r2.Ltv), nz(rp.ELiquidationPenalty)
		out = append(out, r)
	}
	return out
}

func (f *c09Fix) borrowsField() string {
	if !f.lend {
		return ""
	}
	raw := func(d sdk.Dec) string {
		if d.IsNil() {
			return "0"
		}
		return d.BigInt().String()
	}
	var parts []string
	for _, r := range f.borrowRecords() {
		if r.missing {
			parts = append(parts, u(r.id)+":missing")
			continue
		}
		parts = append(parts, strings.Join([]string{u(r.id), u(r.app), u(r.pool), u(r.assetIn), u(r.assetOut), r.amountIn.String(), r.principal.String(), raw(r.interestPost),
			r.bridged.String(), u(r.bridgedAsset), u(r.t1), u(r.t2), b01(r.liquidated), b01(r.emode), raw(r.lt), raw(r.elt), raw(r.ltT1), raw(r.ltT2),
			raw(r.pen), raw(r.bon), u(r.cAsset), u(r.lendID), u(r.outPool), raw(r.ltv), raw(r.ltvT1), raw(r.ltvT2), raw(r.epen)}, ":"))
	}
	return strings.Join(parts, ";")
}

// statistics only (never fed to the model): kind of each borrow the coming borrow pass will look at, and whether its
// ratio lies in the band between the two composite thresholds
func (f *c09Fix) borrowStats(before bool, judged map[uint64]string) map[uint64]string {
	if !f.lend {
		return nil
	}
	recs := f.borrowRecords()
	if !before {
		for _, r := range recs {
			if k, ok := judged[r.id]; ok && r.liquidated {
				f.tr.Count("borrow:seized:" + k)
			}
		}
		return nil
	}
	out := map[uint64]string{}
	st, en := f.borrowRange(f.ctx, len(recs))
	for i, r := range recs {
		if i < st || i >= en || r.missing || r.liquidated {
			continue
		}
		kind := "same"
		if !r.bridged.IsZero() {
			kind = "transit2"
			if r.bridgedAsset == r.t1 {
				kind = "transit1"
			}
		}
		out[r.id] = kind
		f.tr.Count("borrow:judged:" + kind)
		f.borrowAccrualStat(r)
		if kind != "same" {
			a1, _ := f.app.AssetKeeper.GetAsset(f.ctx, r.assetIn)
			a2, _ := f.app.AssetKeeper.GetAsset(f.ctx, r.assetOut)
			var ratio sdk.Dec
			var err error
			p, _ := try(func() { ratio, err = f.app.LendKeeper.CalculateCollateralizationRatio(f.ctx, r.amountIn, a1, r.debt, a2) })
			if !p && err == nil {
				base := r.lt
				if r.emode {
					base = r.elt
				}
				c1, c2 := base.Mul(r.ltT1), base.Mul(r.ltT2)
				lo, hi := sdk.MinDec(c1, c2), sdk.MaxDec(c1, c2)
				if ratio.GT(lo) && ratio.LTE(hi) {
					f.tr.Count("borrow:judged-in-band:" + kind)
					out[r.id] = kind + "-band"
				}
			}
		}
	}
	return out
}

func (f *c09Fix) pre() []string {
	f.preLaid = f.lendAuctionID()
	var vs []string
	for _, v := range f.app.VaultKeeper.GetVaults(f.ctx) {
		vs = append(vs, strings.Join([]string{u(v.Id), u(v.AppId), u(v.ExtendedPairVaultID), v.AmountIn.String(), v.AmountOut.String(), v.InterestAccumulated.String(), v.ClosingFeeAccumulated.String(), f.intPost(v).String()}, ":"))
	}
	lid, aid := f.ids()
	out := []string{"V=" + strings.Join(vs, ";"), "C=" + u(f.app.VaultKeeper.GetLengthOfVault(f.ctx)), "O=" + f.offsets(),
		"VB=" + c09Bal(f, vaulttypes.ModuleName), "AB=" + c09Bal(f, f.auctionModule()), "LID=" + u(lid), "AID=" + u(aid)}
	pb := ""
	if f.lend {
		pb = c09Bal(f, f.poolMod)
	}
	out = append(out, "PB="+pb, "B="+f.borrowsField())
	out = append(out, f.extraFields()...)
	// lend positions and pool totals the borrows refer to (the same keys are printed again in the post-state)
	f.lendIDs, f.tlKeys, f.tbKeys = nil, nil, nil
	if f.lend {
		seenL, seenT, seenB := map[uint64]bool{}, map[[2]uint64]bool{}, map[[2]uint64]bool{}
		for _, r := range f.borrowRecords() {
			if r.missing {
				continue
			}
			if !seenL[r.lendID] {
				seenL[r.lendID] = true
				f.lendIDs = append(f.lendIDs, r.lendID)
			}
			if k := [2]uint64{r.pool, r.assetIn}; !seenT[k] {
				seenT[k] = true
				f.tlKeys = append(f.tlKeys, k)
			}
			if k := [2]uint64{r.outPool, r.assetOut}; !seenB[k] {
				seenB[k] = true
				f.tbKeys = append(f.tbKeys, k)
			}
		}
	}
	return append(out, f.lendFields()...)
}

// generation 1: lend-auction id counter and the x/lend reserve account; generation 2: app reserve funds (MsgAppReserveFunds) and the
// x/liquidationsV2 module account
func (f *c09Fix) extraFields() []string {
	var ar []string
	if f.gen == 2 {
		for _, appID := range f.apps {
			for _, id := range f.assets {
				if rf, ok := f.app.NewliqKeeper.GetAppReserveFunds(f.ctx, appID, id); ok {
					ar = append(ar, u(appID<<32+id)+":"+rf.TokenQuantity.Amount.String())
				}
			}
		}
	}
	rb, lq := "", ""
	if f.gen == 1 && f.lend {
		rb = c09Bal(f, lendtypes.ModuleName)
	}
	if f.gen == 2 {
		lq = c09Bal(f, liq2types.ModuleName)
	}
	return []string{"LAID=" + u(f.lendAuctionID()), "RB=" + rb, "AR=" + strings.Join(ar, ";"), "LQ=" + lq}
}

// interest on the record after the accrual a seizure would book first (rewards.CalculateVaultInterest uses float
// arithmetic: external value, obtained from the real keeper on a throw-away branch)
func (f *c09Fix) intPost(v vaulttypes.Vault) sdk.Int {
	cctx, _ := f.ctx.CacheContext()
	var err error
	p, _ := try(func() {
		err = f.app.Rewardskeeper.CalculateVaultInterest(cctx, v.AppId, v.ExtendedPairVaultID, v.Id, v.AmountOut.Add(v.InterestAccumulated), v.BlockHeight, v.BlockTime.Unix())
	})
	if p || err != nil {
		return v.InterestAccumulated
	}
	if nv, ok := f.app.VaultKeeper.GetVault(cctx, v.Id); ok {
		return nv.InterestAccumulated
	}
	return v.InterestAccumulated
}

func (f *c09Fix) lendFields() []string {
	var ls, tl, tb, pt []string
	for _, id := range f.lendIDs {
		if lp, ok := f.app.LendKeeper.GetLend(f.ctx, id); ok {
			ls = append(ls, u(id)+":"+lp.AmountIn.Amount.String())
		}
	}
	key := func(k [2]uint64) string { return u(k[0]<<32 + k[1]) }
	for _, k := range f.tlKeys {
		st, _ := f.app.LendKeeper.GetAssetStatsByPoolIDAndAssetID(f.ctx, k[0], k[1])
		x := st.TotalLend
		if x.IsNil() {
			x = sdk.ZeroInt()
		}
		tl = append(tl, key(k)+":"+x.String())
	}
	for _, k := range f.tbKeys {
		st, _ := f.app.LendKeeper.GetAssetStatsByPoolIDAndAssetID(f.ctx, k[0], k[1])
		x := st.TotalBorrowed
		if x.IsNil() {
			x = sdk.ZeroInt()
		}
		tb = append(tb, key(k)+":"+x.String())
	}
	eps, _ := f.app.AssetKeeper.GetPairsVaults(f.ctx)
	for _, ep := range eps {
		if d, ok := f.app.VaultKeeper.GetAppExtendedPairVaultMappingData(f.ctx, ep.AppId, ep.Id); ok {
			pt = append(pt, u(ep.Id)+":"+d.TokenMintedAmount.String()+":"+d.CollateralLockedAmount.String())
		}
	}
	return []string{"LS=" + strings.Join(ls, ";"), "TL=" + strings.Join(tl, ";"), "TB=" + strings.Join(tb, ";"), "PT=" + strings.Join(pt, ";")}
}

func (f *c09Fix) post(preLid, preAid uint64) []string {
	var vs []string
	for _, v := range f.app.VaultKeeper.GetVaults(f.ctx) {
		vs = append(vs, u(v.Id))
	}
	lid, aid := f.ids()
	var nl, na []string
	if f.gen == 2 {
		for _, l := range f.app.NewliqKeeper.GetLockedVaults(f.ctx) {
			if l.LockedVaultId > preLid {
				nl = append(nl, strings.Join([]string{u(l.LockedVaultId), u(l.OriginalVaultId), u(l.AppId), l.CollateralToken.Amount.String(), b01(l.InitiatorType == "lend"),
					l.DebtToken.Amount.String(), l.TargetDebt.Amount.String(), l.FeeToBeCollected.String(), l.BonusToBeGiven.String(),
					l.CurrentCollaterlisationRatio.BigInt().String(), l.CollateralToBeAuctioned.Amount.String(), b01(l.IsInternalKeeper)}, ":"))
			}
		}
		for _, a := range f.app.NewaucKeeper.GetAuctions(f.ctx) {
			if a.AuctionId > preAid {
				na = append(na, strings.Join([]string{u(a.AuctionId), u(a.LockedVaultId), u(a.CollateralAssetId), a.CollateralToken.Amount.String(), a.DebtToken.Amount.String(), b01(a.AuctionType)}, ":"))
			}
		}
	} else {
		target := map[uint64]string{} // locked vault id -> inflow target of its auction (the locked vault itself does not carry it)
		for _, appID := range f.apps {
			for _, a := range f.app.AuctionKeeper.GetDutchAuctions(f.ctx, appID) {
				if a.AuctionId > preAid {
					na = append(na, strings.Join([]string{u(a.AuctionId), u(a.LockedVaultId), u(a.AssetOutId), a.OutflowTokenInitAmount.Amount.String(), a.InflowTokenTargetAmount.Amount.String()}, ":"))
					target[a.LockedVaultId] = a.InflowTokenTargetAmount.Amount.String()
				}
			}
		}
		if f.lend {
			// generation-1 borrow auctions live in their own store with their own id counter
			for _, a := range f.app.AuctionKeeper.GetDutchLendAuctions(f.ctx, lendtypes.AppID) {
				if a.AuctionId > f.preLaid {
					na = append(na, strings.Join([]string{u(a.AuctionId), u(a.LockedVaultId), u(a.AssetOutId), a.OutflowTokenInitAmount.Amount.String(), a.InflowTokenTargetAmount.Amount.String()}, ":"))
					target[a.LockedVaultId] = a.InflowTokenTargetAmount.Amount.String()
				}
			}
		}
		for _, l := range f.app.LiquidationKeeper.GetLockedVaults(f.ctx) {
			if l.LockedVaultId > preLid {
				tg := target[l.LockedVaultId]
				if tg == "" {
					tg = "-1"
				}
				nl = append(nl, strings.Join([]string{u(l.LockedVaultId), u(l.OriginalVaultId), u(l.AppId), l.AmountIn.String(), b01(l.Kind != nil),
					l.AmountOut.String(), tg, l.InterestAccumulated.String(), "0", l.CrAtLiquidation.BigInt().String(), l.CollateralToBeAuctioned.BigInt().String()}, ":"))
			}
		}
	}
	sort.Strings(nl)
	sort.Strings(na)
	var bl []string
	if f.lend {
		ids, _ := f.app.LendKeeper.GetBorrows(f.ctx)
		for _, id := range ids {
			bp, ok := f.app.LendKeeper.GetBorrow(f.ctx, id)
			if ok && bp.IsLiquidated {
				bl = append(bl, u(id))
			}
		}
	}
	pb := ""
	if f.lend {
		pb = c09Bal(f, f.poolMod)
	}
	return append([]string{"V=" + strings.Join(vs, ","), "C=" + u(f.app.VaultKeeper.GetLengthOfVault(f.ctx)), "O=" + f.offsets(),
		"VB=" + c09Bal(f, vaulttypes.ModuleName), "AB=" + c09Bal(f, f.auctionModule()), "LID=" + u(lid), "AID=" + u(aid),
		"NL=" + strings.Join(nl, ";"), "NA=" + strings.Join(na, ";"), "PB=" + pb, "BL=" + strings.Join(bl, ",")}, append(f.extraFields(), f.lendFields()...)...)
}

// one block: the REAL BeginBlocker of the generation under test, on the live context (a panic is an outcome)
func (f *c09Fix) block() string {
	f.height++
	f.ctx = f.ctx.WithBlockHeight(f.height).WithBlockTime(time.Unix(1700000000+f.height*6+f.tOffset, 0).UTC())
	f.envLine()
	f.accr = f.borrowAccruals()
	pre := f.pre()
	lid, aid := f.ids()
	var p bool
	judged := f.borrowStats(true, nil)
	lag := f.vaultAccrualStats(nil)
	bctx, write := f.ctx.CacheContext() // so that a panicking hook leaves a well-defined state for the next block
	if f.gen == 2 {
		p, _ = try(func() { liquidationsV2.BeginBlocker(bctx, abci.RequestBeginBlock{}, f.app.NewliqKeeper) })
	} else {
		p, _ = try(func() { liquidation.BeginBlocker(bctx, abci.RequestBeginBlock{}, f.app.LiquidationKeeper) })
	}
	outcome := "ok"
	if p {
		outcome = "panic"
		f.tr.Count("block:panic")
	} else {
		write()
		f.tr.Count("block:ok")
		f.borrowStats(false, judged)
		f.vaultAccrualStats(lag)
	}
	if l2, _ := f.ids(); l2 > lid {
		f.tr.Stats["seized:sweep"] += int(l2 - lid)
	}
	if !p {
		f.seizureStats(lid)
	}
	fields := append([]string{i64(f.height)}, pre...)
	fields = append(fields, "=>", outcome)
	fields = append(fields, f.post(lid, aid)...)
	f.tr.Line("liq.block", fields...)
	return outcome
}

// a liquidate message from a random user
func (f *c09Fix) liquidateMsg(id uint64, appID uint64, liqType uint64) {
	f.envLine()
	f.accr = nil
	pre := f.pre()
	lid, aid := f.ids()
	from := f.users[f.rng.Intn(len(f.users))].String()
	var res string
	var head []string
	if f.gen == 2 {
		res = c09Deliver(f.app, f.ctx, &liq2types.MsgLiquidateInternalKeeperRequest{From: from, LiqType: liqType, Id: id})
		head = []string{u(liqType), u(id)}
	} else {
		res = c09Deliver(f.app, f.ctx, &liqtypes.MsgLiquidateVaultRequest{From: from, AppId: appID, VaultId: id})
		head = []string{u(appID), u(id)}
	}
	f.tr.Count("msg:" + res)
	if l2, _ := f.ids(); l2 > lid {
		f.tr.Stats["seized:msg"] += int(l2 - lid)
		f.seizureStats(lid)
	}
	fields := append(head, pre...)
	fields = append(fields, "=>", res)
	fields = append(fields, f.post(lid, aid)...)
	f.tr.Line("liq.msg", fields...)
}

// real collateralisation ratio of a vault (nil on error)
func (f *c09Fix) realCR(v vaulttypes.Vault) *sdk.Dec {
	tot := v.AmountOut.Add(v.InterestAccumulated).Add(v.ClosingFeeAccumulated)
	var cr sdk.Dec
	var err error
	p, _ := try(func() { cr, err = f.app.VaultKeeper.CalculateCollateralizationRatio(f.ctx, v.ExtendedPairVaultID, v.AmountIn, tot) })
	if p || err != nil {
		return nil
	}
	return &cr
}

// set the collateral price of vault v so that its ratio lands just around the product's liquidation ratio
func (f *c09Fix) aimPrice(v vaulttypes.Vault, delta int64) {
	ep, _ := f.app.AssetKeeper.GetPairsVault(f.ctx, v.ExtendedPairVaultID)
	pair, _ := f.app.AssetKeeper.GetPair(f.ctx, ep.PairId)
	ain, _ := f.app.AssetKeeper.GetAsset(f.ctx, pair.AssetIn)
	aout, _ := f.app.AssetKeeper.GetAsset(f.ctx, pair.AssetOut)
	pout := ep.AssetOutPrice
	if ep.AssetOutOraclePrice {
		tw, _ := f.app.MarketKeeper.GetTwa(f.ctx, aout.Id)
		pout = tw.Twa
	}
	tot := v.AmountOut.Add(v.InterestAccumulated).Add(v.ClosingFeeAccumulated)
	if v.AmountIn.IsZero() {
		return
	}
	if ip := f.intPost(v); ip.GT(v.InterestAccumulated) && f.rng.Chance(60) {
		// aim between the ratio on the recorded debt and the ratio after the accrual the seizure would book
		tot = tot.Add(ip.Sub(v.InterestAccumulated).QuoRaw(2))
		f.tr.Count("op:aimprice:accrual-band")
	}
	vout := sdk.NewDecFromInt(tot).MulInt(sdk.NewIntFromUint64(pout)).QuoInt(aout.Decimals)
	// price* = MinCr · vout · decIn / amountIn
	p := ep.MinCr.Mul(vout).MulInt(ain.Decimals).QuoInt(v.AmountIn).Ceil().TruncateInt()
	if !p.IsUint64() {
		return
	}
	pp := int64(p.Uint64()) + delta
	if pp < 1 {
		pp = 1
	}
	f.setPrice(ain.Id, uint64(pp), true)
}

// a sequence of blocks with interleaved user activity
func (f *c09Fix) runSequence(nBlocks int) {
	rng := f.rng
	for b := 0; b < nBlocks; b++ {
		// between blocks: user and governance activity
		nops := rng.Intn(4)
		for o := 0; o < nops; o++ {
			vaults := f.app.VaultKeeper.GetVaults(f.ctx)
			q := rng.Intn(100)
			switch {
			case q < 22 && len(vaults) > 0: // owner closes
				v := vaults[rng.Intn(len(vaults))]
				// early positions are closed more often: they shift the others
				if rng.Chance(50) {
					v = vaults[rng.Intn(1+len(vaults)/3)]
				}
				f.tr.Count("op:close:" + f.closeVault(v))
			case q < 40: // create
				uix := rng.Intn(len(f.users))
				prod := f.products[rng.Intn(len(f.products))]
				out := sdk.NewInt(int64(rng.Range(2000, 900000000)))
				f.tr.Count("op:create:" + f.createVault(f.users[uix], prod, out, int64(rng.Range(1000, 1400))))
			case q < 58 && len(vaults) > 0: // aimed price
				v := vaults[rng.Intn(len(vaults))]
				f.aimPrice(v, int64(rng.Range(-2, 2)))
				f.tr.Count("op:aimprice")
			case q < 66 && len(vaults) > 0: // aimed liquidation ratio: MinCr := CR(v) + {-1,0,1} ulp
				v := vaults[rng.Intn(len(vaults))]
				if cr := f.realCR(v); cr != nil {
					ep, _ := f.app.AssetKeeper.GetPairsVault(f.ctx, v.ExtendedPairVaultID)
					d := int64(rng.Range(-1, 1))
					ep.MinCr = cr.Add(sdk.NewDecWithPrec(d, 18))
					if ep.MinCr.IsPositive() {
						f.app.AssetKeeper.SetPairsVault(f.ctx, ep)
						f.tr.Count(fmt.Sprintf("op:aimratio:%d", d))
					}
				}
			case q < 74 && f.lend && rng.Chance(75): // price aimed at a borrow: ratio = one of the thresholds, or inside the band
				f.aimBorrow()
			case q < 74: // random price move
				id := f.collat[rng.Intn(len(f.collat))]
				if f.lend && rng.Chance(50) {
					id = []uint64{f.lendCol, f.lendCol2}[rng.Intn(2)]
				}
				tw, _ := f.app.MarketKeeper.GetTwa(f.ctx, id)
				np := tw.Twa * uint64(rng.Range(60, 125)) / 100
				if np == 0 {
					np = 1
				}
				f.setPrice(id, np, true)
				f.tr.Count("op:price")
			case q < 76: // time passes: hours to weeks
				f.tOffset += int64(rng.Range(3600, 30*86400))
				f.tr.Count("op:timejump")
			case q < 78: // price goes inactive / comes back
				id := f.assets[rng.Intn(len(f.assets))]
				tw, _ := f.app.MarketKeeper.GetTwa(f.ctx, id)
				f.setPrice(id, tw.Twa, !tw.IsPriceActive)
				f.tr.Count("op:price-toggle")
			case q < 85 && len(vaults) > 0: // interest accrues on a vault (what x/rewards does)
				v := vaults[rng.Intn(len(vaults))]
				v.InterestAccumulated = v.InterestAccumulated.Add(v.AmountOut.MulRaw(int64(rng.Range(1, 60))).QuoRaw(1000)).AddRaw(int64(rng.Range(0, 3)))
				f.app.VaultKeeper.SetVault(f.ctx, v)
				f.tr.Count("op:interest")
			case q < 87: // emergency controls
				appID := f.apps[rng.Intn(len(f.apps))]
				if rng.Chance(50) {
					ks, _ := f.app.EsmKeeper.GetKillSwitchData(f.ctx, appID)
					_ = f.app.EsmKeeper.SetKillSwitchData(f.ctx, esmtypes.KillSwitchParams{AppId: appID, BreakerEnable: !ks.BreakerEnable})
					f.tr.Count("op:killswitch")
				} else {
					es, _ := f.app.EsmKeeper.GetESMStatus(f.ctx, appID)
					f.app.EsmKeeper.SetESMStatus(f.ctx, esmtypes.ESMStatus{AppId: appID, Status: !es.Status})
					f.tr.Count("op:esm")
				}
			case q < 91: // enabling flags
				appID := f.apps[rng.Intn(len(f.apps))]
				if f.gen == 2 {
					f.setWl2E(appID, rng.Chance(70), rng.Chance(35))
				} else if appID == lendtypes.AppID {
					f.setLendAuc1(appID)
				} else if rng.Chance(50) {
					_ = f.app.LiquidationKeeper.WasmWhitelistAppIDLiquidation(f.ctx, appID)
				} else {
					f.setAuc1(appID)
				}
				f.tr.Count("op:enable")
			case q < 100 && len(vaults) > 0: // somebody's liquidate message
				v := vaults[rng.Intn(len(vaults))]
				id, appID := v.Id, v.AppId
				if rng.Chance(8) {
					id = uint64(rng.Intn(40))
				}
				if rng.Chance(8) {
					appID = uint64(rng.Intn(4))
				}
				lt := uint64(0)
				if f.gen == 2 && rng.Chance(10) {
					lt = uint64(rng.Range(1, 2))
				}
				if f.lend && rng.Chance(50) { // somebody's liquidate message for a borrow
					if recs := f.borrowRecords(); len(recs) > 0 {
						id, lt = recs[rng.Intn(len(recs))].id, 1
						if rng.Chance(6) {
							id = uint64(rng.Intn(12))
						}
						if f.gen == 1 {
							f.liquidateBorrowMsgV1(id)
							continue
						}
					}
				}
				f.liquidateMsg(id, appID, lt)
			}
			f.extraOps()
		}
		if f.lend && rng.Chance(25) {
			f.aimBorrowThresholdExact(int64(rng.Range(-1, 1)))
		}
		f.shapeStats()
		f.block()
	}
}

// the context of the NEXT block (height and clock as block() will set them): interest accrues with the clock, so a ratio that
// is to meet its threshold exactly has to be computed at the time of the judgement
func (f *c09Fix) nextBlockCtx() sdk.Context {
	h := f.height + 1
	return f.ctx.WithBlockHeight(h).WithBlockTime(time.Unix(1700000000+h*6+f.tOffset, 0).UTC())
}

// boundary-directed threshold: the liquidation threshold (the e-mode one for an e-mode pair) of the collateral asset of a
// same-pool borrow := its ratio at the next block + {-1, 0, +1} ulp — the strictness of `ratio.GT(threshold)` is decided here
func (f *c09Fix) aimBorrowThresholdExact(d int64) bool {
	var cand []c09Borrow
	recs := f.borrowRecords()
	st, en := f.borrowRange(f.ctx, len(recs))
	for i, r := range recs {
		if i >= st && i < en && !r.missing && !r.liquidated && r.bridged.IsZero() && r.amountIn.IsPositive() {
			cand = append(cand, r)
		}
	}
	if len(cand) == 0 {
		return false
	}
	r := cand[0] // the first one of the coming range: no earlier seizure of the pass changes its accrual
	nctx, _ := f.nextBlockCtx().CacheContext()
	acc, err := f.app.LendKeeper.CalculateBorrowInterestForLiquidation(nctx, r.id)
	if err != nil {
		return false
	}
	a1, _ := f.app.AssetKeeper.GetAsset(f.ctx, r.assetIn)
	a2, _ := f.app.AssetKeeper.GetAsset(f.ctx, r.assetOut)
	var ratio sdk.Dec
	p, _ := try(func() {
		ratio, err = f.app.LendKeeper.CalculateCollateralizationRatio(nctx, acc.AmountIn.Amount, a1, acc.AmountOut.Amount.Add(acc.InterestAccumulated.TruncateInt()), a2)
	})
	if p || err != nil || !ratio.IsPositive() {
		return false
	}
	rp, _ := f.app.LendKeeper.GetAssetRatesParams(f.ctx, r.assetIn)
	if r.emode {
		rp.ELiquidationThreshold = ratio.Add(sdk.NewDecWithPrec(d, 18))
	} else {
		rp.LiquidationThreshold = ratio.Add(sdk.NewDecWithPrec(d, 18))
	}
	f.app.LendKeeper.SetAssetRatesParams(f.ctx, rp)
	f.tr.Count(fmt.Sprintf("op:aimborrow-threshold-exact:%d", d))
	return true
}

// Strictness of the borrow test, deterministically, both generations: threshold := the ratio the next block computes, exactly ⇒ the
// borrow stays (`GT`, not `GTE`); threshold := that ratio − 1 ulp ⇒ the sweep seizes it.
func c09WitnessBorrowStrict(t *testing.T, app *chain.App, base sdk.Context, tr *Trace, gen int) {
	ctx, _ := base.CacheContext()
	f := c09Build(t, app, ctx, gen, NewRng(61), tr, true)
	c09LendFixture(f)
	f.setBatch(9)
	if gen == 2 {
		for _, a := range f.apps {
			f.setWl2E(a, true, false)
		}
	} else {
		f.setLendAuc1(lendtypes.AppID)
	}
	tr.Line("liq.begin", fmt.Sprintf("v%d", gen), "9")
	f.block()
	flagged := func() int {
		n := 0
		for _, r := range f.borrowRecords() {
			if r.liquidated {
				n++
			}
		}
		return n
	}
	if !f.aimBorrowThresholdExact(0) {
		t.Fatal("witness: no same-pool borrow to aim at")
	}
	f.block()
	tr.Set(fmt.Sprintf("witness_borrow_strict_gen%d_flagged_at_equality", gen), flagged())
	f.aimBorrowThresholdExact(-1)
	f.block()
	tr.Set(fmt.Sprintf("witness_borrow_strict_gen%d_flagged_one_ulp_above", gen), flagged())
}

// statistics only: what kind of seizures the last transition performed (per generation, per auction type)
func (f *c09Fix) seizureStats(preLid uint64) {
	if f.gen == 2 {
		for _, l := range f.app.NewliqKeeper.GetLockedVaults(f.ctx) {
			if l.LockedVaultId > preLid {
				ty := "english"
				if l.AuctionType {
					ty = "dutch"
				}
				f.tr.Count("seizure:gen2:" + l.InitiatorType + ":" + ty)
			}
		}
		return
	}
	for _, l := range f.app.LiquidationKeeper.GetLockedVaults(f.ctx) {
		if l.LockedVaultId > preLid {
			kind := "vault"
			if l.Kind != nil {
				kind = "borrow"
				if l.AmountIn.IsZero() {
					kind = "borrow:whole-collateral"
				}
			}
			f.tr.Count("seizure:gen1:" + kind)
		}
	}
}

// statistics only: the shapes of the sweep the liveness part of the property speaks about
func (f *c09Fix) shapeStats() {
	n := len(f.app.VaultKeeper.GetVaults(f.ctx))
	var batch uint64
	if f.gen == 2 {
		batch = f.app.NewliqKeeper.GetParams(f.ctx).LiquidationBatchSize
	} else {
		batch = f.app.LiquidationKeeper.GetParams(f.ctx).LiquidationBatchSize
	}
	if n > 0 && uint64(n) < batch {
		f.tr.Count("shape:list-shorter-than-batch")
	}
	if n == 0 {
		f.tr.Count("shape:empty-list")
	}
	if f.lend && n > 0 {
		if ids, _ := f.app.LendKeeper.GetBorrows(f.ctx); len(ids) > 0 {
			f.tr.Count(fmt.Sprintf("shape:block-with-vaults-and-borrows:gen%d", f.gen))
		}
	}
}

// operations added in the depth round: debt-side price moves (the decision uses BOTH prices), governance changing the batch
// size mid-sweep (zero is rejected by the parameter validator), rescue of an unsafe position before its turn, and the two
// generation-2 messages that seize nobody
func (f *c09Fix) extraOps() {
	rng := f.rng
	q := rng.Intn(100)
	vaults := f.app.VaultKeeper.GetVaults(f.ctx)
	switch {
	case q < 7: // only the DEBT price moves
		id := f.debts[rng.Intn(len(f.debts))]
		if f.lend && rng.Chance(50) {
			id = f.lendDebts[rng.Intn(len(f.lendDebts))]
		}
		tw, _ := f.app.MarketKeeper.GetTwa(f.ctx, id)
		np := tw.Twa * uint64(rng.Range(80, 125)) / 100
		if np == 0 {
			np = 1
		}
		f.setPrice(id, np, tw.IsPriceActive)
		f.tr.Count("op:price-debt-only")
	case q < 14 && len(vaults) > 0: // debt price aimed at a vault's liquidation ratio (no effect on a fixed-price product)
		f.aimDebtPrice(vaults[rng.Intn(len(vaults))], int64(rng.Range(-2, 2)))
	case q < 19 && f.lend: // debt price aimed at a borrow's threshold
		f.aimBorrowDebt()
	case q < 25: // governance changes the batch size (possibly in the middle of a sweep)
		b := uint64(rng.Range(1, 9))
		if rng.Chance(15) {
			b = 0
		}
		f.setBatchTraced(b)
	case q < 30 && len(vaults) > 0: // an unsafe position is rescued (collateral price up) before its turn
		for _, v := range vaults {
			if cr := f.realCR(v); cr != nil {
				ep, _ := f.app.AssetKeeper.GetPairsVault(f.ctx, v.ExtendedPairVaultID)
				if cr.LT(ep.MinCr) {
					pair, _ := f.app.AssetKeeper.GetPair(f.ctx, ep.PairId)
					tw, _ := f.app.MarketKeeper.GetTwa(f.ctx, pair.AssetIn)
					f.setPrice(pair.AssetIn, tw.Twa*uint64(rng.Range(105, 140))/100+1, true)
					f.tr.Count("op:rescue-unsafe-vault")
					break
				}
			}
		}
	case q < 35 && f.gen == 2:
		f.reserveMsg()
	case q < 42 && f.gen == 2:
		f.externalMsg()
	}
}

// SetParams the way governance does; the parameter store validates (a zero batch panics)
func (f *c09Fix) setBatchTraced(b uint64) {
	cctx, write := f.ctx.CacheContext()
	p, _ := try(func() {
		if f.gen == 2 {
			f.app.NewliqKeeper.SetParams(cctx, liq2types.NewParams(b))
		} else {
			f.app.LiquidationKeeper.SetParams(cctx, liqtypes.NewParams(b))
		}
	})
	res := "ok"
	if p {
		res = "panic"
	} else {
		write()
	}
	f.tr.Count(fmt.Sprintf("op:batch-change:%s", res))
	if b == 0 {
		f.tr.Count("op:batch-zero:" + res)
	}
	f.tr.Line("liq.batch", u(b), res)
}

// set the DEBT price of vault v's product so that the ratio lands around the liquidation ratio (collateral price untouched)
func (f *c09Fix) aimDebtPrice(v vaulttypes.Vault, delta int64) {
	ep, _ := f.app.AssetKeeper.GetPairsVault(f.ctx, v.ExtendedPairVaultID)
	pair, _ := f.app.AssetKeeper.GetPair(f.ctx, ep.PairId)
	ain, _ := f.app.AssetKeeper.GetAsset(f.ctx, pair.AssetIn)
	aout, _ := f.app.AssetKeeper.GetAsset(f.ctx, pair.AssetOut)
	tin, ok := f.app.MarketKeeper.GetTwa(f.ctx, ain.Id)
	tot := v.AmountOut.Add(v.InterestAccumulated).Add(v.ClosingFeeAccumulated)
	if !ok || !tot.IsPositive() {
		return
	}
	vin := sdk.NewDecFromInt(v.AmountIn).MulInt(sdk.NewIntFromUint64(tin.Twa)).QuoInt(ain.Decimals)
	// CR = vin / (tot·pd/decOut) = MinCr  ⇒  pd = vin·decOut / (MinCr·tot)
	p := vin.MulInt(aout.Decimals).Quo(ep.MinCr).QuoInt(tot).TruncateInt()
	if !p.IsUint64() || p.IsZero() {
		return
	}
	pp := int64(p.Uint64()) + delta
	if pp < 1 {
		pp = 1
	}
	f.setPrice(aout.Id, uint64(pp), true)
	if ep.AssetOutOraclePrice {
		f.tr.Count("op:aim-debt-price:oracle-priced")
	} else {
		f.tr.Count("op:aim-debt-price:fixed-priced(no effect)")
	}
}

// move the DEBT price of a random open borrow so that its ratio lands on its threshold (collateral price untouched)
func (f *c09Fix) aimBorrowDebt() {
	var open []c09Borrow
	for _, r := range f.borrowRecords() {
		if !r.missing && !r.liquidated && r.amountIn.IsPositive() && r.debt.IsPositive() {
			open = append(open, r)
		}
	}
	if len(open) == 0 {
		return
	}
	r := open[f.rng.Intn(len(open))]
	base := r.lt
	if r.emode {
		base = r.elt
		if f.rng.Chance(40) {
			base = r.lt // the threshold the e-mode pair would have WITHOUT e-mode: between the two lies the e-mode band
			f.tr.Count("op:aimborrow-debt:emode-band")
		}
	}
	target := base
	if !r.bridged.IsZero() {
		target = base.Mul(r.ltT2)
		if r.bridgedAsset == r.t1 {
			target = base.Mul(r.ltT1)
		}
	}
	if !target.IsPositive() {
		return
	}
	a1, _ := f.app.AssetKeeper.GetAsset(f.ctx, r.assetIn)
	a2, _ := f.app.AssetKeeper.GetAsset(f.ctx, r.assetOut)
	tw1, _ := f.app.MarketKeeper.GetTwa(f.ctx, r.assetIn)
	// ratio = debt·pOut/dOut / (amtIn·pIn/dIn) = target  ⇒  pOut = target·amtIn·pIn·dOut / (dIn·debt)
	p := target.MulInt(r.amountIn).MulInt64(int64(tw1.Twa)).MulInt(a2.Decimals).QuoInt(a1.Decimals).QuoInt(r.debt).TruncateInt()
	if !p.IsUint64() || p.IsZero() {
		return
	}
	pp := int64(p.Uint64()) + int64(f.rng.Range(-1, 1))
	if pp < 1 {
		pp = 1
	}
	f.setPrice(r.assetOut, uint64(pp), true)
	f.tr.Count("op:aimborrow-debt")
}

// generation 1: somebody's MsgLiquidateBorrow
func (f *c09Fix) liquidateBorrowMsgV1(id uint64) {
	f.envLine()
	f.accr = nil
	pre := f.pre()
	lid, aid := f.ids()
	from := f.users[f.rng.Intn(len(f.users))].String()
	res := c09Deliver(f.app, f.ctx, &liqtypes.MsgLiquidateBorrowRequest{From: from, BorrowId: id})
	f.tr.Count("msgb:" + res)
	if l2, _ := f.ids(); l2 > lid {
		f.tr.Stats["seized:msgb"] += int(l2 - lid)
		f.seizureStats(lid)
	}
	fields := append([]string{u(id)}, pre...)
	fields = append(fields, "=>", res)
	fields = append(fields, f.post(lid, aid)...)
	f.tr.Line("liq.msgb", fields...)
}

// generation 2: MsgAppReserveFunds (an app's reserve for external liquidations)
func (f *c09Fix) reserveMsg() {
	rng := f.rng
	appID := f.apps[rng.Intn(len(f.apps))]
	if rng.Chance(8) {
		appID = uint64(rng.Range(0, 6))
	}
	assetID := f.debts[rng.Intn(len(f.debts))]
	if rng.Chance(25) {
		assetID = f.assets[rng.Intn(len(f.assets))]
	}
	if rng.Chance(6) {
		assetID = uint64(rng.Range(60, 90)) * uint64(rng.Intn(2))
	}
	denom := f.denom(assetID)
	denomOK := denom != ""
	if rng.Chance(15) || denom == "" {
		denom, denomOK = f.denom(f.assets[0]), assetID == f.assets[0]
	}
	amt := sdk.NewInt(int64(rng.Range(0, 5000000)))
	user := f.users[rng.Intn(len(f.users))]
	bal := f.app.BankKeeper.GetBalance(f.ctx, user, denom).Amount
	f.envLine()
	f.accr = nil
	pre := f.pre()
	lid, aid := f.ids()
	res := c09Deliver(f.app, f.ctx, &liq2types.MsgAppReserveFundsRequest{From: user.String(), AppId: appID, AssetId: assetID, TokenQuantity: sdk.NewCoin(denom, amt)})
	f.tr.Count("reserve:" + res)
	fields := append([]string{u(appID), u(assetID), b01(denomOK), amt.String(), bal.String()}, pre...)
	fields = append(fields, "=>", res)
	fields = append(fields, f.post(lid, aid)...)
	f.tr.Line("liq.reserve", fields...)
}

// generation 2: MsgLiquidateExternalKeeper — an outside keeper brings collateral of his own to be auctioned
func (f *c09Fix) externalMsg() {
	rng := f.rng
	appID := f.apps[rng.Intn(len(f.apps))]
	if rng.Chance(6) {
		appID = uint64(rng.Range(0, 6))
	}
	col := f.collat[rng.Intn(len(f.collat))]
	debt := f.debts[rng.Intn(len(f.debts))]
	if rng.Chance(75) { // mostly an (app, debt asset) for which reserve funds exist
		var have [][2]uint64
		for _, a := range f.apps {
			for _, d := range f.assets {
				if rf, ok := f.app.NewliqKeeper.GetAppReserveFunds(f.ctx, a, d); ok && rf.TokenQuantity.Amount.IsPositive() {
					have = append(have, [2]uint64{a, d})
				}
			}
		}
		if len(have) > 0 {
			h := have[rng.Intn(len(have))]
			appID, debt = h[0], h[1]
		}
	}
	colID, debtID := col, debt
	if rng.Chance(5) {
		colID = uint64(rng.Range(60, 90)) // unknown asset id
	}
	if rng.Chance(8) {
		debtID = uint64(rng.Range(60, 90))
	}
	user := f.users[rng.Intn(len(f.users))]
	bal := f.app.BankKeeper.GetBalance(f.ctx, user, f.denom(col)).Amount
	colAmt := sdk.NewInt(int64(rng.Range(0, 900000000)))
	if rng.Chance(6) {
		colAmt = bal.AddRaw(int64(rng.Range(1, 1000))) // more than the keeper holds
	}
	debtAmt := sdk.NewInt(int64(rng.Range(0, 900000000)))
	f.envLine()
	f.accr = nil
	pre := f.pre()
	lid, aid := f.ids()
	msg := &liq2types.MsgLiquidateExternalKeeperRequest{From: user.String(), AppId: appID, Owner: f.users[rng.Intn(len(f.users))].String(),
		CollateralToken: sdk.NewCoin(f.denom(col), colAmt), DebtToken: sdk.NewCoin(f.denom(debt), debtAmt),
		CollateralAssetId: colID, DebtAssetId: debtID, IsDebtCmst: rng.Chance(50)}
	res := c09Deliver(f.app, f.ctx, msg)
	f.tr.Count("external:" + res)
	fields := append([]string{u(appID), u(colID), u(debtID), colAmt.String(), debtAmt.String(), bal.String()}, pre...)
	fields = append(fields, "=>", res)
	fields = append(fields, f.post(lid, aid)...)
	f.tr.Line("liq.ext", fields...)
}

func c09SliceCheck(tr *Trace, l, o, b int) {
	s1, e1 := liqtypes.GetSliceStartEndForLiquidations(l, o, b)
	s2, e2 := liq2types.GetSliceStartEndForLiquidations(l, o, b)
	tr.Line("liq.slice.single", i64(int64(l)), i64(int64(o)), i64(int64(b)), i64(int64(s1)), i64(int64(e1)), i64(int64(s2)), i64(int64(e2)), "ok")
}

// TestC09 — see the file comment.
func TestC09(t *testing.T) {
	tr := OpenTrace(t, "c09.trace")
	defer tr.Close(t)
	rng := NewRng(seed())
	app := chain.Setup(t, false)
	base := app.BaseApp.NewContext(false, tmproto.Header{Height: 10, Time: time.Unix(1700000000, 0).UTC()})

	// ---- corpus first: the witnesses of notes/C09.md
	c09WitnessTwoSweeps(t, app, base, tr, 1)
	c09WitnessTwoSweeps(t, app, base, tr, 2)
	c09WitnessStarved(t, app, base, tr, 2, 1) // repaired by 16be2e4: vault 3 is seized in block 3
	c09WitnessStarved(t, app, base, tr, 1, 2)
	if os.Getenv("VERIF_C09_APP3") != "" {
		// generation 1, vault app id 3 = lendtypes.AppID: separate finding (monitor gen1_app3_offset_collision), not in the default run
		c09WitnessStarved(t, app, base, tr, 1, 3)
	}
	c09WitnessBorrowLeak(t, app, base, tr) // repaired by c15713f: nothing is flagged, nothing moves
	c09WitnessTransitBand(t, app, base, tr, 2)
	c09WitnessTransitBandMsgFirst(t, app, base, tr) // generation 1: the MESSAGE judges the band before the sweep gets there
	c09WitnessGuardsV1(t, app, base, tr)
	c09WitnessBorrowGuards(t, app, base, tr, 1)
	c09WitnessBorrowGuards(t, app, base, tr, 2)
	c09WitnessBorrowStrict(t, app, base, tr, 1)
	c09WitnessBorrowStrict(t, app, base, tr, 2)
	c09WitnessEmodeMsgV1(t, app, base, tr)  // regression witness of D38 (fixed f18ae51): generation-1 MsgLiquidateBorrow ignored e-mode
	c09WitnessAuctionTypesV2(t, app, base, tr) // English-only and no-type whitelistings
	c09WitnessTailAfterNonVault(t, app, base, tr) // vault at the END of the list goes unsafe after borrow / external seizures (seed s107)

	// ---- pure helper: the int64 wrap of offset+batchSize (Props/C09.lean slice_in_bounds_wrap_counterexample, finding D41:
	//      the helper returns a negative end; monitor slice_bounds_wrap fires on the unchanged tree)
	c09SliceCheck(tr, 5, 1, math.MaxInt64)
	c09SliceCheck(tr, 1000, 999, math.MaxInt64-998)
	c09SliceCheck(tr, 1000, 999, math.MaxInt64-999) // largest batch that does not wrap
	tr.Count("slice:wrap witness")
	// ---- pure helper: GetSliceStartEndForLiquidations, exhaustive small and wide random
	for l := -2; l <= 9; l++ {
		for o := -2; o <= 11; o++ {
			for b := -1; b <= 9; b++ {
				c09SliceCheck(tr, l, o, b)
			}
		}
	}
	for i := 0; i < scale(3000, 60000); i++ {
		w := []int{10, 1000, 1 << 20, 1 << 40, 1 << 62}[rng.Intn(5)]
		l, o, b := rng.Intn(w), rng.Intn(w), rng.Intn(w)
		switch rng.Intn(6) {
		case 0:
			o = l
		case 1:
			o = l - 1
		case 2:
			b = l - o
		case 3:
			b = l - o - 1
		case 4:
			o = -o
		}
		if rng.Chance(3) {
			b = -b
		}
		c09SliceCheck(tr, l, o, b)
	}

	// ---- pure helper: the ratio computation and the decision on boundary-directed inputs
	c09RatioChecks(t, app, base, tr, rng)

	// ---- populations, price paths, interleavings, both generations
	nSeq := scale(36, 400)
	for s := 0; s < nSeq; s++ {
		gen := 1 + s%2
		ctx, _ := base.CacheContext()
		withLend := (gen == 2 && s%4 == 1) || (gen == 1 && s%4 == 2)
		f := c09Build(t, app, ctx, gen, rng, tr, withLend)
		if withLend {
			c09LendFixture(f)
		}
		batch := uint64(rng.Range(1, 7))
		f.setBatch(batch)
		tr.Line("liq.begin", fmt.Sprintf("v%d", gen), u(batch))
		tr.Count(fmt.Sprintf("seq:gen%d", gen))
		tr.Count("batch:" + u(batch))
		// initial population
		nv := rng.Range(3, scale(14, 22))
		for i := 0; i < nv; i++ {
			prod := f.products[rng.Intn(len(f.products))]
			out := sdk.NewInt(int64(rng.Range(2000, 900000000)))
			res := f.createVault(f.users[rng.Intn(len(f.users))], prod, out, int64(rng.Range(1000, 1500)))
			tr.Count("op:create:" + res)
		}
		f.runSequence(rng.Range(8, scale(28, 60)))
		if f.lend {
			f.sellOffChecks()
		}
		// a stored counter that disagrees with the list (state injection: what D3 produces) — C15 uses the theorem
		if rng.Chance(30) {
			n := f.app.VaultKeeper.GetLengthOfVault(f.ctx)
			f.app.VaultKeeper.SetLengthOfVault(f.ctx, n+uint64(rng.Range(1, 3)))
			tr.Count("op:inject-counter")
			for i := 0; i < 6; i++ {
				f.block()
			}
		}
	}
}

// ratio helpers on directed inputs: real CalculateCollateralizationRatio of x/vault and of x/lend
func c09RatioChecks(t *testing.T, app *chain.App, base sdk.Context, tr *Trace, rng *Rng) {
	ctx, _ := base.CacheContext()
	f := &c09Fix{t: t, app: app, ctx: ctx, gen: 2, rng: rng, tr: tr}
	if err := app.AssetKeeper.AddAppRecords(ctx, assettypes.AppData{Name: "ratio", ShortName: "ratio", MinGovDeposit: sdk.NewInt(0)}); err != nil {
		t.Fatal(err)
	}
	decs := []int{0, 1, 6, 8, 12, 18}
	type as struct {
		id  uint64
		dec int
	}
	var assets []as
	for i, d := range decs {
		name := "RA" + alphaName(i)
		if err := app.AssetKeeper.AddAssetRecords(ctx, assettypes.Asset{Name: name, Denom: "u" + strings.ToLower(name), Decimals: c09Pow10(d), IsOnChain: true, IsCdpMintable: true}); err != nil {
			t.Fatal(err)
		}
		all := app.AssetKeeper.GetAssets(ctx)
		assets = append(assets, as{all[len(all)-1].Id, d})
		f.assets = append(f.assets, all[len(all)-1].Id)
	}
	// one product per (in,out) combination
	type prod struct {
		id       uint64
		ain, aou as
	}
	var prods []prod
	k := 0
	for _, a := range assets {
		for _, b := range assets {
			if a.id == b.id || (a.id+b.id)%2 == 0 && a.id > b.id || (a.id+b.id)%2 == 1 && a.id < b.id {
				continue
			}
			if err := app.AssetKeeper.AddPairsRecords(ctx, assettypes.Pair{AssetIn: a.id, AssetOut: b.id}); err != nil {
				t.Fatal(err)
			}
			pairs := app.AssetKeeper.GetPairs(ctx)
			ep := bindings.MsgAddExtendedPairsVault{AppID: 1, PairID: pairs[len(pairs)-1].Id, StabilityFee: sdk.ZeroDec(), ClosingFee: sdk.ZeroDec(),
				LiquidationPenalty: sdk.ZeroDec(), DrawDownFee: sdk.ZeroDec(), IsVaultActive: true, DebtCeiling: sdk.NewInt(1000000000000), DebtFloor: sdk.NewInt(1),
				MinCr: sdk.MustNewDecFromStr("1.5"), PairName: "R" + alphaName(k), AssetOutOraclePrice: k%2 == 0, AssetOutPrice: 1000000}
			if err := app.AssetKeeper.WasmAddExtendedPairsVaultRecords(ctx, &ep); err != nil {
				t.Fatal(err)
			}
			prods = append(prods, prod{app.AssetKeeper.GetPairsVaultID(ctx), a, b})
			k++
		}
	}
	n := scale(4000, 60000)
	for i := 0; i < n; i++ {
		p := prods[rng.Intn(len(prods))]
		ep, _ := app.AssetKeeper.GetPairsVault(ctx, p.id)
		pin := rng.U64() >> uint(rng.Range(24, 63))
		pout := rng.U64() >> uint(rng.Range(24, 63))
		if rng.Chance(2) {
			pin = 0
		}
		if rng.Chance(2) {
			pout = 0
		}
		inAct, outAct := !rng.Chance(3), !rng.Chance(3)
		f.setPrice(p.ain.id, pin, inAct)
		f.setPrice(p.aou.id, pout, outAct)
		ep.AssetOutPrice = rng.U64() >> uint(rng.Range(30, 63))
		app.AssetKeeper.SetPairsVault(ctx, ep)
		ain := sdk.NewIntFromBigInt(new(big.Int).Rsh(new(big.Int).SetUint64(rng.U64()), uint(rng.Intn(64))))
		if rng.Chance(30) {
			ain = ain.Mul(c09Pow10(rng.Intn(16)))
		}
		tout := sdk.NewIntFromBigInt(new(big.Int).Rsh(new(big.Int).SetUint64(rng.U64()), uint(rng.Intn(64))))
		if rng.Chance(30) {
			tout = tout.Mul(c09Pow10(rng.Intn(16)))
		}
		if rng.Chance(2) {
			ain = sdk.ZeroInt()
		}
		if rng.Chance(2) {
			tout = sdk.ZeroInt()
		}
		var cr sdk.Dec
		var err error
		pn, _ := try(func() { cr, err = app.VaultKeeper.CalculateCollateralizationRatio(ctx, p.id, ain, tout) })
		res := "err"
		if pn {
			res = "panic"
		} else if err == nil {
			res = cr.BigInt().String()
			tr.Count("cr:ok")
		} else {
			tr.Count("cr:err")
		}
		f.envLine()
		tr.Line("liq.cr.single", u(p.id), ain.String(), tout.String(), res, "ok")
		// the lend ratio on the same assets: debt value / collateral value
		a1, _ := app.AssetKeeper.GetAsset(ctx, p.ain.id)
		a2, _ := app.AssetKeeper.GetAsset(ctx, p.aou.id)
		var r sdk.Dec
		pn, _ = try(func() { r, err = app.LendKeeper.CalculateCollateralizationRatio(ctx, ain, a1, tout, a2) })
		res = "err"
		if pn {
			res = "panic"
			tr.Count("br:panic")
		} else if err == nil {
			res = r.BigInt().String()
			tr.Count("br:ok")
		}
		tr.Line("liq.br.single", u(p.ain.id), u(p.aou.id), ain.String(), tout.String(), res, "ok")
	}
}

// ---------------------------------------------------------------------------------------------------------------
// lend fixture (generation 2), after x/liquidationsV2's own keeper tests: two pools sharing the transit assets LC
// (AssetTransitType 2, "first") and LA (type 3, "second") with DIFFERENT liquidation thresholds.
//   same-pool borrows : lend LA in pool 1, borrow LB                    (threshold of LA, e-mode variant when the pair is in e-mode)
//   cross-pool borrows: lend LB in pool 1, borrow LD from pool 2, bridged through LC while pool 1 holds enough LC
//                       (threshold LB × LC), through LA afterwards (threshold LB × LA)
// Needs three apps (the lend app id is 3, name "commodo").
// ---------------------------------------------------------------------------------------------------------------
func c09LendFixture(f *c09Fix) {
	app, ctx, t, rng := f.app, f.ctx, f.t, f.rng
	mk := func(name string, price uint64) uint64 {
		denom := "u" + strings.ToLower(name)
		if err := app.AssetKeeper.AddAssetRecords(ctx, assettypes.Asset{Name: name, Denom: denom, Decimals: c09Pow10(6), IsOnChain: true, IsOraclePriceRequired: true, IsCdpMintable: true}); err != nil {
			t.Fatal(err)
		}
		all := app.AssetKeeper.GetAssets(ctx)
		id := all[len(all)-1].Id
		f.setPrice(id, price, true)
		return id
	}
	la, lb, lc, ld := mk("LENDA", 2000000), mk("LENDB", 2000000), mk("LENDC", 1000000), mk("LENDD", 1500000)
	ca, cb, cc, cd := mk("CLENDA", 1000000), mk("CLENDB", 2000000), mk("CLENDC", 2000000), mk("CLENDD", 2000000)
	f.assets = append(f.assets, la, lb, lc, ld, ca, cb) // cTokens too: they are burnt from the pool account at hand-over
	d := sdk.MustNewDecFromStr
	must := func(err error) {
		if err != nil {
			t.Fatal(err)
		}
	}
	// distinct thresholds for the two transit assets (and the collateral of the cross-pool borrows)
	set := []int64{700, 740, 780, 820, 860, 900}
	i1 := rng.Intn(len(set))
	i2 := (i1 + 1 + rng.Intn(len(set)-1)) % len(set)
	ltA, ltC := sdk.NewDecWithPrec(set[i1], 3), sdk.NewDecWithPrec(set[i2], 3) // LA = second transit, LC = first transit
	ltB := sdk.NewDecWithPrec(int64(rng.Range(600, 800)), 3)
	ltv := func(x sdk.Dec) sdk.Dec { return x.Sub(d("0.05")) }
	data1 := []*lendtypes.AssetDataPoolMapping{
		{AssetID: la, AssetTransitType: 3, SupplyCap: sdk.NewDec(5000000000000000000)},
		{AssetID: lb, AssetTransitType: 1, SupplyCap: sdk.NewDec(1000000000000000000)},
		{AssetID: lc, AssetTransitType: 2, SupplyCap: sdk.NewDec(5000000000000000000)},
	}
	data2 := []*lendtypes.AssetDataPoolMapping{
		{AssetID: ld, AssetTransitType: 1, SupplyCap: sdk.NewDec(3000000000000000000)},
		{AssetID: la, AssetTransitType: 3, SupplyCap: sdk.NewDec(5000000000000000000)},
		{AssetID: lc, AssetTransitType: 2, SupplyCap: sdk.NewDec(5000000000000000000)},
	}
	must(app.LendKeeper.AddAssetRatesParams(ctx, lendtypes.AssetRatesParams{AssetID: lc, UOptimal: d("0.8"), Base: d("0.002"), Slope1: d("0.06"), Slope2: d("0.6"), EnableStableBorrow: true,
		StableBase: d("0.04"), StableSlope1: d("0.04"), StableSlope2: d("0.06"), Ltv: ltv(ltC), LiquidationThreshold: ltC, LiquidationPenalty: d("0.025"), LiquidationBonus: d("0.025"), ReserveFactor: d("0.1"), CAssetID: cc}))
	must(app.LendKeeper.AddAssetRatesParams(ctx, lendtypes.AssetRatesParams{AssetID: la, UOptimal: d("0.75"), Base: d("0.002"), Slope1: d("0.07"), Slope2: d("1.25"), EnableStableBorrow: false,
		StableBase: d("0.0"), StableSlope1: d("0.0"), StableSlope2: d("0.0"), Ltv: ltv(ltA), LiquidationThreshold: ltA, LiquidationPenalty: d("0.05"), LiquidationBonus: d("0.05"), ReserveFactor: d("0.2"), CAssetID: ca}))
	must(app.LendKeeper.AddAssetRatesPoolPairs(ctx, lendtypes.AssetRatesPoolPairs{AssetID: lb, UOptimal: d("0.5"), Base: d("0.002"), Slope1: d("0.08"), Slope2: d("2.0"), EnableStableBorrow: false,
		StableBase: d("0.0"), StableSlope1: d("0.0"), StableSlope2: d("0.0"), Ltv: ltv(ltB), LiquidationThreshold: ltB, LiquidationPenalty: d("0.05"), LiquidationBonus: d("0.05"), ReserveFactor: d("0.2"),
		CAssetID: cb, ModuleName: "cmdx", CPoolName: "CMDX-ATOM-CMST", AssetData: data1, MinUsdValueLeft: 1000000}))
	must(app.LendKeeper.AddAssetRatesPoolPairs(ctx, lendtypes.AssetRatesPoolPairs{AssetID: ld, UOptimal: d("0.65"), Base: d("0.002"), Slope1: d("0.08"), Slope2: d("1.5"), EnableStableBorrow: false,
		StableBase: d("0.0"), StableSlope1: d("0.0"), StableSlope2: d("0.0"), Ltv: d("0.6"), LiquidationThreshold: d("0.65"), LiquidationPenalty: d("0.05"), LiquidationBonus: d("0.05"), ReserveFactor: d("0.2"),
		CAssetID: cd, ModuleName: "osmo", CPoolName: "OSMO-ATOM-CMST", AssetData: data2, MinUsdValueLeft: 1000000}))
	f.poolMod = "cmdx"
	f.lend = true
	f.lendCol, f.lendCol2 = la, lb
	f.lendDebts = []uint64{lb, ld}
	if f.gen == 1 && rng.Chance(88) {
		f.setLendAuc1(lendtypes.AppID)
	}
	var samePair, crossPair uint64
	for _, p := range app.LendKeeper.GetLendPairs(ctx) {
		if p.AssetIn == la && p.AssetOut == lb && !p.IsInterPool {
			samePair = p.Id
		}
		if p.AssetIn == lb && p.AssetOut == ld && p.IsInterPool {
			crossPair = p.Id
		}
	}
	if samePair == 0 || crossPair == 0 {
		t.Fatalf("lend pairs not found: same %d cross %d", samePair, crossPair)
	}
	// e-mode on one or both pairs in some populations (asset/keeper: pair flag + e-mode LTV / threshold of the collateral asset)
	setE := func(pairID, assetID uint64) {
		p, _ := app.LendKeeper.GetLendPair(ctx, pairID)
		p.IsEModeEnabled = true
		app.LendKeeper.SetLendPair(ctx, p)
		rp, _ := app.LendKeeper.GetAssetRatesParams(ctx, assetID)
		rp.ELtv = rp.Ltv.Add(d("0.02"))
		rp.ELiquidationThreshold = rp.LiquidationThreshold.Add(sdk.NewDecWithPrec(int64(rng.Range(20, 60)), 3))
		app.LendKeeper.SetAssetRatesParams(ctx, rp)
		f.tr.Count("lend:emode")
	}
	if rng.Chance(35) || f.forceEmode {
		setE(samePair, la)
	}
	if rng.Chance(35) || f.forceEmode {
		setE(crossPair, lb)
	}
	for _, a := range f.users {
		for _, id := range []uint64{la, lb, lc, ld} {
			f.fund(a, f.denom(id), c09Pow10(20))
		}
	}
	u0 := f.users[0].String()
	ok := func(res string, what string) {
		if res != "ok" {
			t.Fatalf("lend fixture: %s: %s", what, res)
		}
	}
	coin := func(id uint64, amt int64) sdk.Coin { return sdk.NewCoin(f.denom(id), sdk.NewInt(amt)) }
	ok(c09Deliver(app, ctx, lendtypes.NewMsgLend(u0, lb, coin(lb, 100000000000), 1, 3)), "lend LB")
	ok(c09Deliver(app, ctx, lendtypes.NewMsgLend(u0, ld, coin(ld, 100000000000), 2, 3)), "lend LD")
	firstLeft := int64(rng.Range(150000000, 600000000)) // LC held by pool 1: what can be bridged through the FIRST transit asset
	ok(c09Deliver(app, ctx, lendtypes.NewMsgFundModuleAccounts(1, la, u0, coin(la, 100000000000))), "fund LA")
	ok(c09Deliver(app, ctx, lendtypes.NewMsgFundModuleAccounts(1, lb, u0, coin(lb, 10000000000))), "fund LB")
	ok(c09Deliver(app, ctx, lendtypes.NewMsgFundModuleAccounts(1, lc, u0, coin(lc, firstLeft))), "fund LC")
	ok(c09Deliver(app, ctx, lendtypes.NewMsgFundModuleAccounts(2, ld, u0, coin(ld, 10000000000))), "fund LD")
	ok(c09Deliver(app, ctx, lendtypes.NewMsgFundModuleAccounts(2, la, u0, coin(la, 10000000000))), "fund LA 2")
	ok(c09Deliver(app, ctx, lendtypes.NewMsgFundModuleAccounts(2, lc, u0, coin(lc, 1000000000))), "fund LC 2")
	price := func(id uint64) int64 { tw, _ := app.MarketKeeper.GetTwa(ctx, id); return int64(tw.Twa) }
	rate := func(id uint64, pairID uint64) sdk.Dec {
		rp, _ := app.LendKeeper.GetAssetRatesParams(ctx, id)
		p, _ := app.LendKeeper.GetLendPair(ctx, pairID)
		if p.IsEModeEnabled {
			return rp.ELtv
		}
		return rp.Ltv
	}
	nSame, nCross := rng.Range(1, 3), rng.Range(2, 5)
	ui := 1
	for i := 0; i < nSame && ui < len(f.users); i, ui = i+1, ui+1 {
		ua := f.users[ui].String()
		amt := int64(rng.Range(50000000, 3000000000))
		if res := c09Deliver(app, ctx, lendtypes.NewMsgLend(ua, la, coin(la, amt), 1, 3)); res != "ok" {
			f.tr.Count("lend:lend:" + res)
			continue
		}
		lendID := app.LendKeeper.GetUserLendIDCounter(ctx)
		// loan value ≤ LTV × collateral value; take 88..99.5 % of that
		max := rate(la, samePair).MulInt64(amt).MulInt64(price(la)).QuoInt64(price(lb))
		out := max.MulInt64(int64(rng.Range(880, 995))).QuoInt64(1000).TruncateInt()
		res := c09Deliver(app, ctx, lendtypes.NewMsgBorrow(ua, lendID, samePair, false, coin(ca, amt), sdk.NewCoin(f.denom(lb), out)))
		f.tr.Count("lend:borrow-same:" + res)
	}
	for i := 0; i < nCross && ui < len(f.users); i, ui = i+1, ui+1 {
		ua := f.users[ui].String()
		// bridged quantity of LC = LTV(LB) × collateral value / price(LC); below what pool 1 still holds ⇒ first transit, else second
		wantFirst := (i%2 == 0) && firstLeft > 60000000
		var qty int64
		if wantFirst {
			qty = int64(rng.Range(20000000, int(firstLeft/2)))
		} else {
			qty = firstLeft + int64(rng.Range(1000000, 400000000))
		}
		ltvB := rate(lb, crossPair)
		amt := sdk.NewDec(qty).MulInt64(price(lc)).QuoInt64(price(lb)).Quo(ltvB).Ceil().TruncateInt().Int64() + 2
		if res := c09Deliver(app, ctx, lendtypes.NewMsgLend(ua, lb, coin(lb, amt), 1, 3)); res != "ok" {
			f.tr.Count("lend:lend:" + res)
			continue
		}
		lendID := app.LendKeeper.GetUserLendIDCounter(ctx)
		// the bridged quantity the code will compute, and the transit asset it will pick
		bval := sdk.NewDec(amt).Mul(ltvB).TruncateInt()
		q1 := sdk.NewDecFromInt(bval).MulInt64(price(lb)).QuoInt64(price(lc))
		transit, tq := lc, q1
		if !q1.LT(sdk.NewDec(firstLeft)) {
			transit, tq = la, sdk.NewDecFromInt(bval).MulInt64(price(lb)).QuoInt64(price(la))
		}
		rt, _ := app.LendKeeper.GetAssetRatesParams(ctx, transit)
		max := rt.Ltv.Mul(sdk.NewDecFromInt(tq.TruncateInt())).MulInt64(price(transit)).QuoInt64(price(ld))
		out := max.MulInt64(int64(rng.Range(880, 995))).QuoInt64(1000).TruncateInt()
		res := c09Deliver(app, ctx, lendtypes.NewMsgBorrow(ua, lendID, crossPair, false, coin(cb, amt), sdk.NewCoin(f.denom(ld), out)))
		kind := "transit1"
		if transit == la {
			kind = "transit2"
		}
		f.tr.Count("lend:borrow-" + kind + ":" + res)
		if res == "ok" && transit == lc {
			firstLeft -= tq.TruncateInt().Int64()
		}
	}
	_ = lendkeeper.Keeper{}
}

// move the collateral price of a random open borrow so that its debt/collateral ratio lands on its own threshold, on
// the other composite threshold, or between the two (±1 price unit)
func (f *c09Fix) aimBorrow() {
	var open []c09Borrow
	for _, r := range f.borrowRecords() {
		if !r.missing && !r.liquidated && r.amountIn.IsPositive() {
			open = append(open, r)
		}
	}
	if len(open) == 0 {
		return
	}
	f.aimBorrowAt(open[f.rng.Intn(len(open))], f.rng.Intn(5), int64(f.rng.Range(-1, 1)))
}

// mode 0/1: the two composite thresholds, 2: the middle of the band, 3/4: quarter points (same-pool borrows: their threshold)
func (f *c09Fix) aimBorrowAt(r c09Borrow, mode int, delta int64) {
	base := r.lt
	if r.emode {
		base = r.elt
	}
	c1, c2 := base.Mul(r.ltT1), base.Mul(r.ltT2)
	var target sdk.Dec
	switch {
	case r.bridged.IsZero():
		target = base
	default:
		target = []sdk.Dec{c1, c2, c1.Add(c2).QuoInt64(2), c1.MulInt64(3).Add(c2).QuoInt64(4), c1.Add(c2.MulInt64(3)).QuoInt64(4)}[mode]
	}
	if !target.IsPositive() {
		return
	}
	a1, _ := f.app.AssetKeeper.GetAsset(f.ctx, r.assetIn)
	a2, _ := f.app.AssetKeeper.GetAsset(f.ctx, r.assetOut)
	tw2, _ := f.app.MarketKeeper.GetTwa(f.ctx, r.assetOut)
	// ratio = debt·pOut/dOut / (amtIn·pIn/dIn) = target  ⇒  pIn = debt·pOut·dIn / (dOut·amtIn·target)
	debt := r.debt
	if pre := r.principal.Add(r.interestPre.TruncateInt()); pre.LT(r.debt) && f.rng.Chance(60) {
		debt = pre.Add(r.debt).QuoRaw(2) // between the ratio before and after the in-memory accrual
		f.tr.Count("op:aimborrow:accrual-band")
	}
	p := sdk.NewDecFromInt(debt).MulInt64(int64(tw2.Twa)).MulInt(a1.Decimals).QuoInt(a2.Decimals).QuoInt(r.amountIn).Quo(target).TruncateInt()
	if !p.IsUint64() || p.IsZero() {
		return
	}
	pp := int64(p.Uint64()) + delta
	if pp < 1 {
		pp = 1
	}
	f.setPrice(r.assetIn, uint64(pp), true)
	f.tr.Count("op:aimborrow")
}

// ---------------------------------------------------------------------------------------------------------------
// witnesses (corpus, first in the run)
// ---------------------------------------------------------------------------------------------------------------

// one app, one product (MinCr 1.5, collateral and debt with 6 decimals, oracle-priced debt), everything enabled
func c09Simple(t *testing.T, app *chain.App, base sdk.Context, gen int, tr *Trace, appID uint64) *c09Fix {
	ctx, _ := base.CacheContext()
	f := &c09Fix{t: t, app: app, ctx: ctx, gen: gen, rng: NewRng(7), tr: tr, height: 10}
	for i := uint64(1); i <= appID; i++ {
		nm := []string{"wit", "xena", "yoda"}[i-1]
		if err := app.AssetKeeper.AddAppRecords(ctx, assettypes.AppData{Name: nm, ShortName: nm, MinGovDeposit: sdk.NewInt(0)}); err != nil {
			t.Fatal(err)
		}
		f.apps = append(f.apps, i)
	}
	for i, nm := range []string{"WCOL", "WDEBT"} {
		if err := app.AssetKeeper.AddAssetRecords(ctx, assettypes.Asset{Name: nm, Denom: "u" + strings.ToLower(nm), Decimals: c09Pow10(6), IsOnChain: true, IsOraclePriceRequired: true, IsCdpMintable: true}); err != nil {
			t.Fatal(err)
		}
		f.assets = append(f.assets, uint64(i+1))
	}
	f.collat, f.debts = []uint64{1}, []uint64{2}
	f.setPrice(1, 2000000, true)
	f.setPrice(2, 1000000, true)
	if err := app.AssetKeeper.AddPairsRecords(ctx, assettypes.Pair{AssetIn: 1, AssetOut: 2}); err != nil {
		t.Fatal(err)
	}
	ep := bindings.MsgAddExtendedPairsVault{AppID: appID, PairID: 1, StabilityFee: sdk.ZeroDec(), ClosingFee: sdk.ZeroDec(), LiquidationPenalty: sdk.MustNewDecFromStr("0.12"),
		DrawDownFee: sdk.ZeroDec(), IsVaultActive: true, DebtCeiling: sdk.NewInt(1000000000000), DebtFloor: sdk.NewInt(1000), MinCr: sdk.MustNewDecFromStr("1.5"),
		PairName: "WIT", AssetOutOraclePrice: true, AssetOutPrice: 1000000, MinUsdValueLeft: 1000000}
	if err := app.AssetKeeper.WasmAddExtendedPairsVaultRecords(ctx, &ep); err != nil {
		t.Fatal(err)
	}
	f.products = []uint64{1}
	if gen == 2 {
		f.setWl2(appID, true)
		app.NewaucKeeper.SetAuctionParams(ctx, auctionsV2types.AuctionParams{AuctionDurationSeconds: 3600, Step: sdk.MustNewDecFromStr("0.1"),
			WithdrawalFee: sdk.ZeroDec(), ClosingFee: sdk.ZeroDec(), MinUsdValueLeft: 100000, BidFactor: sdk.MustNewDecFromStr("0.1"),
			LiquidationPenalty: sdk.MustNewDecFromStr("0.1"), AuctionBonus: sdk.ZeroDec()})
	} else {
		_ = app.LiquidationKeeper.WasmWhitelistAppIDLiquidation(ctx, appID)
		f.setAuc1(appID)
	}
	for i := 0; i < 8; i++ {
		a := c09Addr(100 + i)
		f.users = append(f.users, a)
		for _, id := range f.assets {
			f.fund(a, f.denom(id), c09Pow10(15))
		}
	}
	return f
}

// D9: batch 1, six vaults, the last one unsafe from the first block on; the owners of vaults 1, 2, 3 close them just
// before the offset reaches the unsafe vault. Lean: `C09.two_sweeps_counterexample` (same schedule on `Sw.run`).
func c09WitnessTwoSweeps(t *testing.T, app *chain.App, base sdk.Context, tr *Trace, gen int) {
	f := c09Simple(t, app, base, gen, tr, 1)
	f.setBatch(1)
	tr.Line("liq.begin", fmt.Sprintf("v%d", gen), "1")
	for i := 0; i < 6; i++ {
		cr := int64(2000)
		if i == 5 {
			cr = 1067
		}
		if res := f.createVault(f.users[i], 1, sdk.NewInt(1000000), cr); res != "ok" {
			t.Fatalf("witness: create vault %d: %s", i+1, res)
		}
	}
	f.setPrice(1, 1800000, true) // vault 6: 1.6005 × 0.9 < 1.5; the others stay at 2.7
	closeID := func(id uint64) {
		v, ok := f.app.VaultKeeper.GetVault(f.ctx, id)
		if !ok {
			t.Fatalf("witness: vault %d missing", id)
		}
		if res := f.closeVault(v); res != "ok" {
			t.Fatalf("witness: close vault %d: %s", id, res)
		}
	}
	seizedAt := 0
	for b := 1; b <= 16; b++ {
		if b == 6 {
			closeID(1)
		}
		if b == 10 {
			closeID(2)
		}
		if b == 13 {
			closeID(3)
		}
		f.block()
		if _, ok := f.app.VaultKeeper.GetVault(f.ctx, 6); !ok && seizedAt == 0 {
			seizedAt = b
		}
	}
	tr.Set(fmt.Sprintf("witness_two_sweeps_gen%d_seized_at_block", gen), seizedAt)
}

// generation 2 before fix 16be2e4: the borrow sweep stored its offset under the vault sweep's key, so the vault sweep
// restarted at the borrow sweep's end (0 without borrows) every block: with batch 1 only the first vault was ever
// examined. Kept as a regression witness (vault 3 must be seized in block 3).
// Generation 1 has the same collision for the app whose id equals lendtypes.AppID (3): its vault offset shares the store
// key of the generation-1 borrow sweep.
func c09WitnessStarved(t *testing.T, app *chain.App, base sdk.Context, tr *Trace, gen int, appID uint64) {
	f := c09Simple(t, app, base, gen, tr, appID)
	f.setBatch(1)
	tr.Line("liq.begin", fmt.Sprintf("v%d", gen), "1")
	for i := 0; i < 3; i++ {
		cr := int64(2000)
		if i == 2 {
			cr = 1067
		}
		if res := f.createVault(f.users[i], 1, sdk.NewInt(1000000), cr); res != "ok" {
			t.Fatalf("witness: create vault %d: %s", i+1, res)
		}
	}
	f.setPrice(1, 1800000, true)
	for b := 1; b <= 12; b++ {
		f.block()
	}
	_, still := f.app.VaultKeeper.GetVault(f.ctx, 3)
	tr.Set(fmt.Sprintf("witness_starved_gen%d_app%d_vault3_still_open_after_12_blocks", gen, appID), still)
}

// D6 before fix c15713f: the generation-2 borrow sweep was not wrapped. With the lend app whitelisted but neither auction
// type activated, an unsafe borrow was flagged IsLiquidated and its collateral moved to the auction account, then
// CreateLockedVault failed and the writes stayed. Kept as a regression witness (nothing may be flagged or moved).
func c09WitnessBorrowLeak(t *testing.T, app *chain.App, base sdk.Context, tr *Trace) {
	ctx, _ := base.CacheContext()
	f := c09Build(t, app, ctx, 2, NewRng(11), tr, true)
	c09LendFixture(f)
	f.setBatch(5)
	for _, a := range f.apps {
		f.setWl2(a, a != 3) // app 3 (lend): whitelisted, Dutch not activated (English never is)
	}
	tr.Line("liq.begin", "v2", "5")
	f.block()
	f.setPrice(f.lendCol, 1400000, true) // collateral 2.0 -> 1.4: every borrow taken at 62..70 % is now above its threshold
	f.block()
	f.block()
	n := 0
	ids, _ := f.app.LendKeeper.GetBorrows(f.ctx)
	for _, id := range ids {
		if b, ok := f.app.LendKeeper.GetBorrow(f.ctx, id); ok && b.IsLiquidated {
			n++
		}
	}
	_, aid := f.ids()
	tr.Set("witness_borrow_leak_flagged_borrows", n)
	tr.Set("witness_borrow_leak_auctions_opened", aid)
}

// cross-pool borrows through BOTH transit assets, transit thresholds different; the collateral price is put in the middle
// of the band between the two composite thresholds: exactly the borrows whose OWN composite threshold is the lower one
// may be seized (sweep, then messages). A swap of first/second transit asset in the decision inverts this.
func c09WitnessTransitBand(t *testing.T, app *chain.App, base sdk.Context, tr *Trace, gen int) {
	for _, sd := range []uint64{21, 22, 23} {
		ctx, _ := base.CacheContext()
		f := c09Build(t, app, ctx, gen, NewRng(sd), tr, true)
		c09LendFixture(f)
		f.setBatch(7)
		if gen == 2 {
			for _, a := range f.apps {
				f.setWl2(a, true)
			}
		} else {
			f.setLendAuc1(lendtypes.AppID)
		}
		tr.Line("liq.begin", fmt.Sprintf("v%d", gen), "7")
		f.block()
		var cross []c09Borrow
		for _, r := range f.borrowRecords() {
			if !r.bridged.IsZero() {
				cross = append(cross, r)
			}
		}
		if len(cross) == 0 {
			t.Fatal("witness: no cross-pool borrow")
		}
		f.aimBorrowAt(cross[0], 2, 0)
		f.block()
		for _, r := range cross {
			if gen == 2 {
				f.liquidateMsg(r.id, 3, 1)
			} else {
				f.liquidateBorrowMsgV1(r.id)
			}
		}
		f.aimBorrowAt(cross[len(cross)-1], 2, 0)
		f.block()
		for _, r := range cross {
			if gen == 2 {
				f.liquidateMsg(r.id, 3, 1)
			} else {
				f.liquidateBorrowMsgV1(r.id)
			}
		}
	}
}

// Generation 1 guards, deterministically: executed ESM, kill switch, inactive collateral price — the unsafe vault stays through
// sweep and message each time — then everything off: seized.
func c09WitnessGuardsV1(t *testing.T, app *chain.App, base sdk.Context, tr *Trace) {
	f := c09Simple(t, app, base, 1, tr, 1)
	f.setBatch(4)
	tr.Line("liq.begin", "v1", "4")
	for i, cr := range []int64{2000, 1067} {
		if res := f.createVault(f.users[i], 1, sdk.NewInt(1000000), cr); res != "ok" {
			t.Fatalf("witness: create vault: %s", res)
		}
	}
	f.setPrice(1, 1800000, true)
	step := func() {
		f.block()
		f.liquidateMsg(2, 1, 0)
	}
	f.app.EsmKeeper.SetESMStatus(f.ctx, esmtypes.ESMStatus{AppId: 1, Status: true})
	step()
	f.app.EsmKeeper.SetESMStatus(f.ctx, esmtypes.ESMStatus{AppId: 1, Status: false})
	_ = f.app.EsmKeeper.SetKillSwitchData(f.ctx, esmtypes.KillSwitchParams{AppId: 1, BreakerEnable: true})
	step()
	_ = f.app.EsmKeeper.SetKillSwitchData(f.ctx, esmtypes.KillSwitchParams{AppId: 1, BreakerEnable: false})
	f.setPrice(1, 1800000, false)
	step()
	_, still := f.app.VaultKeeper.GetVault(f.ctx, 2)
	tr.Set("witness_guards_v1_vault2_still_open_under_guards", still)
	f.setPrice(1, 1800000, true)
	f.block()
	_, still = f.app.VaultKeeper.GetVault(f.ctx, 2)
	tr.Set("witness_guards_v1_vault2_still_open_after_guards_off", still)
}

// Borrow guards, deterministically, both generations: all borrows far under water; with the kill switch of the lend app on, neither
// the sweep nor a message may touch them (generation 2 also: lend app not whitelisted); guards off: the sweep seizes.
func c09WitnessBorrowGuards(t *testing.T, app *chain.App, base sdk.Context, tr *Trace, gen int) {
	ctx, _ := base.CacheContext()
	f := c09Build(t, app, ctx, gen, NewRng(51), tr, true)
	c09LendFixture(f)
	f.setBatch(9)
	if gen == 2 {
		for _, a := range f.apps {
			f.setWl2E(a, true, false)
		}
	} else {
		f.setLendAuc1(lendtypes.AppID)
	}
	tr.Line("liq.begin", fmt.Sprintf("v%d", gen), "9")
	f.block()
	f.setPrice(f.lendCol, 1000000, true) // LA 2.0 -> 1.0, LB 2.0 -> 1.4: same-pool (LA/LB) and cross-pool (LB/LD) borrows are all far above their thresholds
	f.setPrice(f.lendCol2, 1400000, true)
	msgs := func() {
		for _, r := range f.borrowRecords() {
			if gen == 2 {
				f.liquidateMsg(r.id, 3, 1)
			} else {
				f.liquidateBorrowMsgV1(r.id)
			}
		}
	}
	flagged := func() int {
		n := 0
		for _, r := range f.borrowRecords() {
			if r.liquidated {
				n++
			}
		}
		return n
	}
	_ = f.app.EsmKeeper.SetKillSwitchData(f.ctx, esmtypes.KillSwitchParams{AppId: lendtypes.AppID, BreakerEnable: true})
	f.block()
	msgs()
	tr.Set(fmt.Sprintf("witness_borrow_guards_gen%d_flagged_under_killswitch", gen), flagged())
	_ = f.app.EsmKeeper.SetKillSwitchData(f.ctx, esmtypes.KillSwitchParams{AppId: lendtypes.AppID, BreakerEnable: false})
	if gen == 2 {
		f.ctx.KVStore(f.app.GetKey(liq2types.StoreKey)).Delete(liq2types.LiquidationWhiteListingKey(lendtypes.AppID)) // the keeper has no delete: state as before the app was whitelisted
		f.block()
		msgs()
		tr.Set("witness_borrow_guards_gen2_flagged_without_whitelisting", flagged())
		f.setWl2E(lendtypes.AppID, true, false)
	}
	recs := f.borrowRecords()
	if gen == 1 && len(recs) > 0 {
		f.liquidateBorrowMsgV1(recs[0].id) // one by message, the rest by the sweep
	} else if len(recs) > 0 {
		f.liquidateMsg(recs[0].id, 3, 1)
	}
	f.block()
	tr.Set(fmt.Sprintf("witness_borrow_guards_gen%d_flagged_after_guards_off", gen), flagged())
}

// Generation 1, e-mode pair: the collateral price is put in the middle of the band between the pair's normal threshold and
// its e-mode threshold: the borrow is SAFE under the applicable (e-mode) threshold. Neither the block sweep (liquidate_borrow.go:82-85)
// nor anybody's MsgLiquidateBorrow may touch it. Regression witness of D38: until fix f18ae51 the message compared with
// `liqThreshold.LiquidationThreshold` whatever the e-mode and seized it; a revert shows as DIFF + MON safe_never_seized here.
// Lean: C09.v1_borrow_safe_never_seized, C09.v1_msg_borrow_ignored_emode_before_fix_counterexample.
func c09WitnessEmodeMsgV1(t *testing.T, app *chain.App, base sdk.Context, tr *Trace) {
	for _, sd := range []uint64{31, 32} {
		ctx, _ := base.CacheContext()
		f := c09Build(t, app, ctx, 1, NewRng(sd), tr, true)
		f.forceEmode = true
		c09LendFixture(f)
		f.setLendAuc1(lendtypes.AppID)
		f.setBatch(7)
		tr.Line("liq.begin", "v1", "7")
		f.block()
		var same []c09Borrow
		for _, r := range f.borrowRecords() {
			if r.bridged.IsZero() && r.emode && !r.liquidated {
				same = append(same, r)
			}
		}
		if len(same) == 0 {
			t.Fatal("witness: no same-pool e-mode borrow")
		}
		r := same[0]
		// ratio = (LT + ELT)/2: above the normal threshold, below the e-mode one
		target := r.lt.Add(r.elt).QuoInt64(2)
		a1, _ := f.app.AssetKeeper.GetAsset(f.ctx, r.assetIn)
		a2, _ := f.app.AssetKeeper.GetAsset(f.ctx, r.assetOut)
		tw2, _ := f.app.MarketKeeper.GetTwa(f.ctx, r.assetOut)
		p := sdk.NewDecFromInt(r.debt).MulInt64(int64(tw2.Twa)).MulInt(a1.Decimals).QuoInt(a2.Decimals).QuoInt(r.amountIn).Quo(target).TruncateInt()
		f.setPrice(r.assetIn, p.Uint64(), true)
		f.block() // the sweep judges with the e-mode threshold: nothing happens
		f.block()
		bp, _ := f.app.LendKeeper.GetBorrow(f.ctx, r.id)
		tr.Set(fmt.Sprintf("witness_emode_v1_seed%d_flagged_by_sweep", sd), bp.IsLiquidated)
		f.liquidateBorrowMsgV1(r.id) // the message judges with the e-mode threshold too (since f18ae51): accepted, nothing happens
		bp, _ = f.app.LendKeeper.GetBorrow(f.ctx, r.id)
		tr.Set(fmt.Sprintf("witness_emode_v1_seed%d_flagged_by_message", sd), bp.IsLiquidated)
	}
}

// Generation 2, which auction type the whitelisting selects. (a) English only: an unsafe BORROW is seized and sold by an English
// auction (liquidate.go:387 `AuctionType = IsDutchActivated`, :210-215); an unsafe VAULT is never seized (liquidate.go:136 demands
// Dutch) — neither by the sweep nor by a message. (b) neither type: nothing is seized at all, no collateral moves without an auction.
func c09WitnessAuctionTypesV2(t *testing.T, app *chain.App, base sdk.Context, tr *Trace) {
	for _, english := range []bool{true, false} {
		ctx, _ := base.CacheContext()
		f := c09Build(t, app, ctx, 2, NewRng(41), tr, true)
		c09LendFixture(f)
		f.setBatch(9)
		for _, a := range f.apps {
			f.setWl2E(a, false, english)
		}
		tr.Line("liq.begin", "v2", "9")
		for i := 0; i < 4; i++ {
			f.createVault(f.users[i], f.products[i%len(f.products)], sdk.NewInt(5000000), 1100)
		}
		f.block()
		for _, id := range f.collat {
			tw, _ := f.app.MarketKeeper.GetTwa(f.ctx, id)
			f.setPrice(id, tw.Twa*70/100, true)
		}
		f.setPrice(f.lendCol, 1400000, true)
		f.setPrice(f.lendCol2, 1300000, true)
		f.block()
		f.block()
		for _, v := range f.app.VaultKeeper.GetVaults(f.ctx) {
			f.liquidateMsg(v.Id, v.AppId, 0)
		}
		for _, r := range f.borrowRecords() {
			f.liquidateMsg(r.id, 3, 1)
		}
		n := 0
		for _, r := range f.borrowRecords() {
			if r.liquidated {
				n++
			}
		}
		lid, aid := f.ids()
		tr.Set(fmt.Sprintf("witness_auction_types_english=%v_flagged_borrows", english), n)
		tr.Set(fmt.Sprintf("witness_auction_types_english=%v_locked_vaults", english), lid)
		tr.Set(fmt.Sprintf("witness_auction_types_english=%v_auctions", english), aid)
		tr.Set(fmt.Sprintf("witness_auction_types_english=%v_vaults_left", english), len(f.app.VaultKeeper.GetVaults(f.ctx)))
	}
}

// Generation 1 message on cross-pool borrows inside the band between the two composite thresholds (non-e-mode populations, so that
// D38 does not interfere): the price is put in the middle of the band and every cross-pool borrow is addressed by MsgLiquidateBorrow
// BEFORE the sweep looks at it: exactly those whose OWN composite threshold is the lower one may be seized.
func c09WitnessTransitBandMsgFirst(t *testing.T, app *chain.App, base sdk.Context, tr *Trace) {
	for _, sd := range []uint64{71, 72, 73, 74} {
		ctx, _ := base.CacheContext()
		f := c09Build(t, app, ctx, 1, NewRng(sd), tr, true)
		c09LendFixture(f)
		f.setLendAuc1(lendtypes.AppID)
		f.setBatch(7)
		tr.Line("liq.begin", "v1", "7")
		f.block()
		var cross []c09Borrow
		for _, r := range f.borrowRecords() {
			if !r.bridged.IsZero() && !r.emode {
				cross = append(cross, r)
			}
		}
		if len(cross) == 0 {
			continue
		}
		f.aimBorrowAt(cross[0], 2, 0)
		for _, r := range cross {
			f.liquidateBorrowMsgV1(r.id)
		}
		f.aimBorrowAt(cross[len(cross)-1], 2, 0)
		for _, r := range cross {
			f.liquidateBorrowMsgV1(r.id)
		}
		f.block()
	}
}

// Generation 2, vault sweep, borrow sweep and external keepers on ONE chain: six vaults, the lend borrows are seized by the borrow
// sweep, an external keeper has collateral auctioned — every one of these goes through the shared `CreateLockedVault`, none of them
// may touch the vault counter the vault sweep windows its list with. THEN the vault at the END of the list goes unsafe: it must be
// seized within the bound (`seized_within_bound` is armed for it; `vault_counter_follows_vault_seizures` on every transition).
// Lean: C09.nonvault_seizure_leaves_vault_window.
func c09WitnessTailAfterNonVault(t *testing.T, app *chain.App, base sdk.Context, tr *Trace) {
	ctx, _ := base.CacheContext()
	f := c09Build(t, app, ctx, 2, NewRng(81), tr, true)
	c09LendFixture(f)
	f.setBatch(3)
	for _, a := range f.apps {
		f.setWl2E(a, true, false)
	}
	app.NewaucKeeper.SetAuctionParams(f.ctx, auctionsV2types.AuctionParams{AuctionDurationSeconds: 3600, Step: sdk.MustNewDecFromStr("0.1"),
		WithdrawalFee: sdk.ZeroDec(), ClosingFee: sdk.ZeroDec(), MinUsdValueLeft: 100000, BidFactor: sdk.MustNewDecFromStr("0.1"),
		LiquidationPenalty: sdk.MustNewDecFromStr("0.1"), AuctionBonus: sdk.ZeroDec()})
	tr.Line("liq.begin", "v2", "3")
	prod := f.products[0]
	for i := 0; i < 6; i++ {
		cr := int64(2000)
		if i == 5 {
			cr = 1030 // the tail vault: 3 % above its liquidation ratio
		}
		if res := f.createVault(f.users[i], prod, sdk.NewInt(40000000), cr); res != "ok" {
			t.Fatalf("witness: create vault %d: %s", i+1, res)
		}
	}
	f.block()
	// (1) every lend borrow far under water: the borrow sweep seizes them (batch 3: two or three blocks)
	f.setPrice(f.lendCol, 1000000, true)
	f.setPrice(f.lendCol2, 1400000, true)
	for i := 0; i < 3; i++ {
		f.block()
	}
	// (2) an external keeper: reserve funds for (app 1, first debt asset), then the external liquidation
	u0 := f.users[0]
	debt, col := f.debts[0], f.collat[0]
	for _, m := range []string{"reserve", "external"} {
		f.envLine()
		f.accr = nil
		pre := f.pre()
		lid, aid := f.ids()
		var res string
		var head []string
		if m == "reserve" {
			bal := f.app.BankKeeper.GetBalance(f.ctx, u0, f.denom(debt)).Amount
			res = c09Deliver(f.app, f.ctx, &liq2types.MsgAppReserveFundsRequest{From: u0.String(), AppId: 1, AssetId: debt, TokenQuantity: sdk.NewCoin(f.denom(debt), sdk.NewInt(1000000))})
			head = []string{"1", u(debt), "1", "1000000", bal.String()}
		} else {
			bal := f.app.BankKeeper.GetBalance(f.ctx, u0, f.denom(col)).Amount
			res = c09Deliver(f.app, f.ctx, &liq2types.MsgLiquidateExternalKeeperRequest{From: u0.String(), AppId: 1, Owner: u0.String(),
				CollateralToken: sdk.NewCoin(f.denom(col), sdk.NewInt(7000000)), DebtToken: sdk.NewCoin(f.denom(debt), sdk.NewInt(5000000)),
				CollateralAssetId: col, DebtAssetId: debt, IsDebtCmst: false})
			head = []string{"1", u(col), u(debt), "7000000", "5000000", bal.String()}
		}
		fields := append(head, pre...)
		fields = append(fields, "=>", res)
		fields = append(fields, f.post(lid, aid)...)
		f.tr.Line("liq."+map[string]string{"reserve": "reserve", "external": "ext"}[m], fields...)
		tr.Set("witness_tail_"+m+"_msg", res)
	}
	lid, _ := f.ids()
	tr.Set("witness_tail_nonvault_locked_vaults", lid)
	tr.Set("witness_tail_vault_counter_after_nonvault_seizures", f.app.VaultKeeper.GetLengthOfVault(f.ctx))
	// (3) the collateral of the vault product loses 6 %: only the tail vault (3 % margin) is unsafe, the others (100 % margin) stay
	ep, _ := f.app.AssetKeeper.GetPairsVault(f.ctx, prod)
	pair, _ := f.app.AssetKeeper.GetPair(f.ctx, ep.PairId)
	tw, _ := f.app.MarketKeeper.GetTwa(f.ctx, pair.AssetIn)
	f.setPrice(pair.AssetIn, tw.Twa*94/100, true)
	vs := f.app.VaultKeeper.GetVaults(f.ctx)
	tail := vs[len(vs)-1].Id
	seizedAfter := 0
	for b := 1; b <= 6; b++ {
		f.block()
		if _, ok := f.app.VaultKeeper.GetVault(f.ctx, tail); !ok && seizedAfter == 0 {
			seizedAfter = b
		}
	}
	tr.Set("witness_tail_vault_seized_after_blocks", seizedAfter)
}

// statistics only: vaults whose ratio is at or above the liquidation ratio on the recorded debt but below it after the
// accrual the seizure would book (the code decides on the recorded debt: such a vault must stay), and seizures whose
// locked vault carries freshly booked interest
func (f *c09Fix) vaultAccrualStats(before map[uint64]bool) map[uint64]bool {
	if before != nil {
		for id := range before {
			if _, ok := f.app.VaultKeeper.GetVault(f.ctx, id); !ok {
				f.tr.Count("vault:accrual-band:seized")
			}
		}
		return nil
	}
	out := map[uint64]bool{}
	for _, v := range f.app.VaultKeeper.GetVaults(f.ctx) {
		ip := f.intPost(v)
		if !ip.GT(v.InterestAccumulated) {
			continue
		}
		f.tr.Count("vault:with-unbooked-interest")
		ep, _ := f.app.AssetKeeper.GetPairsVault(f.ctx, v.ExtendedPairVaultID)
		pre := f.realCR(v)
		v2 := v
		v2.InterestAccumulated = ip
		post := f.realCR(v2)
		if pre != nil && post != nil && pre.GTE(ep.MinCr) && post.LT(ep.MinCr) {
			f.tr.Count("vault:accrual-band")
			out[v.Id] = true
		}
	}
	return out
}

// statistics only: a borrow whose ratio is at or below its threshold before the in-memory accrual and above it after
func (f *c09Fix) borrowAccrualStat(r c09Borrow) {
	pre := r.principal.Add(r.interestPre.TruncateInt())
	if !pre.LT(r.debt) {
		return
	}
	f.tr.Count("borrow:judged-with-accrual")
	a1, _ := f.app.AssetKeeper.GetAsset(f.ctx, r.assetIn)
	a2, _ := f.app.AssetKeeper.GetAsset(f.ctx, r.assetOut)
	base := r.lt
	if r.emode {
		base = r.elt
	}
	th := base
	if !r.bridged.IsZero() {
		th = base.Mul(r.ltT2)
		if r.bridgedAsset == r.t1 {
			th = base.Mul(r.ltT1)
		}
	}
	var x, y sdk.Dec
	var e1, e2 error
	p, _ := try(func() {
		x, e1 = f.app.LendKeeper.CalculateCollateralizationRatio(f.ctx, r.amountIn, a1, pre, a2)
		y, e2 = f.app.LendKeeper.CalculateCollateralizationRatio(f.ctx, r.amountIn, a1, r.debt, a2)
	})
	if !p && e1 == nil && e2 == nil && x.LTE(th) && y.GT(th) {
		f.tr.Count("borrow:judged-accrual-band")
	}
}

// The interest a borrow has accrued depends on the pool's utilisation, which earlier seizures of the same pass change.
// The external value is therefore taken at the state in which the sweep will ask for it: the real per-borrow steps are
// run, in the sweep's order and wrapped like the sweep wraps them, on a throw-away branch.
func (f *c09Fix) borrowAccruals() map[uint64]sdk.Dec {
	if !f.lend {
		return nil
	}
	out := map[uint64]sdk.Dec{}
	cctx, _ := f.ctx.CacheContext()
	ids, _ := f.app.LendKeeper.GetBorrows(cctx)
	st, en := f.borrowRange(cctx, len(ids))
	for ix := st; ix < en; ix++ {
		id, ix := ids[ix], ix
		try(func() {
			if acc, err := f.app.LendKeeper.CalculateBorrowInterestForLiquidation(cctx, id); err == nil {
				out[id] = acc.InterestAccumulated
			}
			if f.gen == 2 {
				_ = utils.ApplyFuncIfNoError(cctx, func(c sdk.Context) error { return f.app.NewliqKeeper.LiquidateIndividualBorrow(c, id, "", false) })
			} else {
				// generation 1 has no per-borrow entry point: run the real sweep over exactly this index (offset = index, batch 1)
				f.app.LiquidationKeeper.SetParams(cctx, liqtypes.NewParams(1))
				f.app.LiquidationKeeper.SetLiquidationOffsetHolder(cctx, liqtypes.VaultLiquidationsOffsetPrefix, liqtypes.NewLiquidationOffsetHolder(lendtypes.AppID, uint64(ix)))
				_ = f.app.LiquidationKeeper.LiquidateBorrows(cctx)
			}
		})
	}
	return out
}

// the index range of the borrow list the coming borrow pass of the generation under test will look at
func (f *c09Fix) borrowRange(ctx sdk.Context, n int) (int, int) {
	var off, batch int
	if f.gen == 2 {
		h, _ := f.app.NewliqKeeper.GetLiquidationOffsetHolder(ctx, liq2types.VaultLiquidationsOffsetPrefix, 1)
		off, batch = int(h.CurrentOffset), int(f.app.NewliqKeeper.GetParams(ctx).LiquidationBatchSize)
	} else {
		h, _ := f.app.LiquidationKeeper.GetLiquidationOffsetHolder(ctx, lendtypes.AppID, liqtypes.VaultLiquidationsOffsetPrefix)
		off, batch = int(h.CurrentOffset), int(f.app.LiquidationKeeper.GetParams(ctx).LiquidationBatchSize)
	}
	st, en := liq2types.GetSliceStartEndForLiquidations(n, off, batch)
	if st == en {
		st, en = liq2types.GetSliceStartEndForLiquidations(n, 0, batch)
	}
	return st, en
}

// generation 1 borrow sell-off: the real UpdateLockedBorrows (direct keeper call on a throw-away branch; the generation-1
// hooks are not wired and its auction start may fail afterwards — the amounts are written before that) against
// `sellOffV1`. Run on the borrows that are still open at the end of a lend sequence, at the current and at lower prices.
func (f *c09Fix) sellOffChecks() {
	raw := func(d sdk.Dec) string {
		if d.IsNil() {
			return "0"
		}
		return d.BigInt().String()
	}
	for round := 0; round < 3; round++ {
		for _, r := range f.borrowRecords() {
			if r.missing || r.liquidated || !r.amountIn.IsPositive() {
				continue
			}
			cctx, _ := f.ctx.CacheContext()
			if round > 0 { // deeper under water
				tw, _ := f.app.MarketKeeper.GetTwa(cctx, r.assetIn)
				np := tw.Twa * uint64(f.rng.Range(35, 95)) / 100
				if np == 0 {
					np = 1
				}
				f.app.MarketKeeper.SetTwa(cctx, markettypes.TimeWeightedAverage{AssetID: r.assetIn, ScriptID: 12, Twa: np, IsPriceActive: true, PriceValue: []uint64{np}})
			}
			bp, err := f.app.LendKeeper.CalculateBorrowInterestForLiquidation(cctx, r.id)
			if err != nil {
				continue
			}
			pair, _ := f.app.LendKeeper.GetLendPair(cctx, bp.PairID)
			lp, _ := f.app.LendKeeper.GetLend(cctx, bp.LendingID)
			pool, _ := f.app.LendKeeper.GetPool(cctx, lp.PoolID)
			a1, _ := f.app.AssetKeeper.GetAsset(cctx, pair.AssetIn)
			a2, _ := f.app.AssetKeeper.GetAsset(cctx, pair.AssetOut)
			rp, _ := f.app.LendKeeper.GetAssetRatesParams(cctx, pair.AssetIn)
			ca, _ := f.app.AssetKeeper.GetAsset(cctx, rp.CAssetID)
			t1, _ := f.app.MarketKeeper.GetTwa(cctx, a1.Id)
			t2, _ := f.app.MarketKeeper.GetTwa(cctx, a2.Id)
			if !t1.IsPriceActive || !t2.IsPriceActive {
				f.tr.Count("selloff:skipped-inactive-price")
				continue
			}
			c := rp.Ltv
			if !bp.BridgedAssetAmount.Amount.IsZero() {
				rt, _ := f.app.LendKeeper.GetAssetRatesParams(cctx, r.t2)
				if r.bridgedAsset == r.t1 {
					rt, _ = f.app.LendKeeper.GetAssetRatesParams(cctx, r.t1)
				}
				c = rp.Ltv.Mul(rt.Ltv)
			}
			pen := rp.LiquidationPenalty
			if pair.IsEModeEnabled {
				pen = rp.ELiquidationPenalty
			}
			bal := func(mod, denom string) sdk.Int {
				addr := f.app.AccountKeeper.GetModuleAddress(mod)
				if addr == nil {
					return sdk.ZeroInt()
				}
				return f.app.BankKeeper.GetBalance(cctx, addr, denom).Amount
			}
			updatedOut := bp.AmountOut.Amount.Add(bp.InterestAccumulated.TruncateInt())
			lv, _ := f.app.LiquidationKeeper.CreateLockedBorrow(cctx, bp, sdk.ZeroDec(), lp.AppID)
			au0, rs0, ct0 := bal(auctiontypes.ModuleName, a1.Denom), bal(lendtypes.ModuleName, a1.Denom), bal(pool.ModuleName, ca.Denom)
			var uerr error
			pn, pmsg := try(func() { uerr = f.app.LiquidationKeeper.UpdateLockedBorrows(cctx, lv) })
			if os.Getenv("VERIF_DEBUG") != "" {
				fmt.Fprintf(os.Stderr, "selloff borrow %d: panic=%v %s err=%v\n", r.id, pn, pmsg, uerr)
			}
			got, found := f.app.LiquidationKeeper.GetLockedVault(cctx, lv.AppId, lv.LockedVaultId)
			in := []string{bp.AmountIn.Amount.String(), updatedOut.String(), u(t1.Twa), u(t2.Twa), a1.Decimals.String(), a2.Decimals.String(), raw(c), raw(pen), raw(rp.LiquidationBonus)}
			if !found && uerr != nil && strings.Contains(uerr.Error(), "insufficient funds") {
				// the pool cannot pay what the (uncapped, D33) sell-off asks for: the bank refuses. The pure function `sellOffV1` does not
				// see balances; the end-to-end model (`seizeBorrowV1`) has this guard and is compared on every block / message.
				f.tr.Count("selloff:err-pool-cannot-pay")
				continue
			}
			if !found {
				f.tr.Count("selloff:err")
				f.tr.Line("liq.selloff.single", append(in, "0", "0", "0", "0", "0", "0", "0", "err")...)
				continue
			}
			lpAfter, ok := f.app.LendKeeper.GetLend(cctx, bp.LendingID)
			lendRed := lp.AmountIn.Amount
			if ok {
				lendRed = lp.AmountIn.Amount.Sub(lpAfter.AmountIn.Amount)
			}
			toAuction := bal(auctiontypes.ModuleName, a1.Denom).Sub(au0)
			toReserve := bal(lendtypes.ModuleName, a1.Denom).Sub(rs0)
			burnt := ct0.Sub(bal(pool.ModuleName, ca.Denom))
			f.tr.Count("selloff:ok")
			if toAuction.Add(toReserve).GT(bp.AmountIn.Amount) {
				f.tr.Count("selloff:moved-more-than-collateral")
			}
			f.tr.Line("liq.selloff.single", append(in, raw(got.CurrentCollaterlisationRatio), raw(got.CollateralToBeAuctioned), toAuction.String(), toReserve.String(),
				burnt.String(), got.AmountIn.String(), lendRed.String(), "ok")...)
		}
	}
}
