//go:build verif

package harness

import (
	"encoding/json"
	"fmt"
	"math"
	"math/big"
	"testing"
	"time"

	wasmvmtypes "github.com/CosmWasm/wasmvm/types"
	cwasm "github.com/comdex-official/comdex/app/wasm"
	"github.com/comdex-official/comdex/app/wasm/bindings"
	assettypes "github.com/comdex-official/comdex/x/asset/types"
	collectortypes "github.com/comdex-official/comdex/x/collector/types"
	lockertypes "github.com/comdex-official/comdex/x/locker/types"
	rewardstypes "github.com/comdex-official/comdex/x/rewards/types"
	sdk "github.com/cosmos/cosmos-sdk/types"
)

// ---------------------------------------------------------------------------------------------
// locker savings, state level (C18 part d): histories of the five REAL locker messages (message router, ValidateBasic, cache
// context) and of the REAL wasm bindings that change the saving rate (MsgUpdateCollectorLookupTable, dispatched as JSON through
// the app's CustomMessenger) or the rewards whitelist, on one real collector entry and one real locker. Idle / touched lockers
// across zero-rate windows of days … years, re-enable and accrue in the same block, rate changes r -> r', repeated triggers.
// Every record field is compared after every call (`la.op`); besides the power value the real code is going to obtain (arguments
// mirrored from the REAL stamps) every line carries the power value for the interval the SPECIFICATION allows, computed from the
// harness's own ghost (time of the last rate update, time the locker was last settled) which never looks at the stamps.
// ---------------------------------------------------------------------------------------------

type c18Sink struct{}

func (c18Sink) DispatchMsg(ctx sdk.Context, contractAddr sdk.AccAddress, contractIBCPortID string, msg wasmvmtypes.CosmosMsg) ([]sdk.Event, [][]byte, error) {
	return nil, nil, fmt.Errorf("c18: fell through to the wrapped messenger")
}

func c18PowField(rate sdk.Dec, secs int64) string {
	if secs < 0 {
		return "-"
	}
	x, y := c18PowArgs(rate, secs)
	return c18Bits(x) + ":" + c18Bits(y) + ":" + c18Bits(math.Pow(x, y))
}

// ghost of the specification: what may be accrued, from the history of accepted calls alone
type c18Ghost struct {
	rate     sdk.Dec
	wl, has  bool
	segStart int64 // time of the last accepted rate update
	settled  int64 // time the locker was last settled
}

type c18LockerSeq struct {
	t        *testing.T
	tr       *Trace
	a        *c18App
	ctx      sdk.Context
	owner    sdk.AccAddress
	contract sdk.AccAddress
	disp     func(ctx sdk.Context, contract sdk.AccAddress, m bindings.ComdexMessages) string
	g        c18Ghost
	now, h   int64
}

func (q *c18LockerSeq) lockerID(ctx sdk.Context) uint64 {
	m, _ := q.a.app.LockerKeeper.GetUserLockerAssetMapping(ctx, q.owner.String(), 1, 1)
	return m.LockerId
}

// proj: wl lsr cbh cbt fees has net ret lbh lbt tracker
func (q *c18LockerSeq) proj(ctx sdk.Context) []string {
	app := q.a.app
	_, wl := app.Rewardskeeper.GetReward(ctx, 1, 1)
	cl, _ := app.CollectorKeeper.GetCollectorLookupTable(ctx, 1, 1)
	fees := sdk.ZeroInt()
	if nf, f := app.CollectorKeeper.GetNetFeeCollectedData(ctx, 1, 1); f {
		fees = nf.NetFeesCollected
	}
	out := []string{"false", c18Raw(cl.LockerSavingRate), i64(cl.BlockHeight), i64(cl.BlockTime.Unix()), fees.String()}
	if wl {
		out[0] = "true"
	}
	id := q.lockerID(ctx)
	l, found := app.LockerKeeper.GetLocker(ctx, id)
	if id == 0 || !found {
		return append(out, "0", "0", "0", "0", "0", "none")
	}
	trk := "none"
	if tk, f := app.Rewardskeeper.GetLockerRewardTracker(ctx, id, 1); f {
		trk = c18Raw(tk.RewardsAccumulated)
	}
	return append(out, "1", l.NetBalance.String(), l.ReturnsAccumulated.String(), i64(l.BlockHeight), i64(l.BlockTime.Unix()), trk)
}

// realPow: the one math.Pow call the real code is going to make, arguments from the REAL records
func (q *c18LockerSeq) realPow(ctx sdk.Context, now int64) string {
	id := q.lockerID(ctx)
	l, found := q.a.app.LockerKeeper.GetLocker(ctx, id)
	if id == 0 || !found {
		return "-"
	}
	cl, _ := q.a.app.CollectorKeeper.GetCollectorLookupTable(ctx, 1, 1)
	since := l.BlockTime.Unix()
	if l.BlockHeight == 0 {
		since = cl.BlockTime.Unix()
	}
	return c18PowField(cl.LockerSavingRate, now-since)
}

func c18Accruing(kind string) bool {
	return kind == "deposit" || kind == "withdraw" || kind == "close" || kind == "calc" || kind == "lsr"
}

// legit: power value for the interval the specification allows (ghost only)
func (q *c18LockerSeq) legit(kind string, now int64) string {
	g := q.g
	if !(g.wl && !g.rate.IsZero() && g.has && c18Accruing(kind)) {
		return "-"
	}
	start := g.segStart
	if g.settled > start {
		start = g.settled
	}
	return c18PowField(g.rate, now-start)
}

// exec performs one call on ctx at (now, h); returns the outcome
func (q *c18LockerSeq) exec(ctx sdk.Context, kind string, now, h int64, amt sdk.Int, rate sdk.Dec) string {
	app := q.a.app
	sctx := ctx.WithBlockTime(time.Unix(now, 0)).WithBlockHeight(h)
	id := q.lockerID(sctx)
	switch kind {
	case "create":
		return c18Deliver(app, sctx, lockertypes.NewMsgCreateLockerRequest(q.owner.String(), amt, 1, 1))
	case "deposit":
		return c18Deliver(app, sctx, lockertypes.NewMsgDepositAssetRequest(q.owner.String(), id, amt, 1, 1))
	case "withdraw":
		return c18Deliver(app, sctx, lockertypes.NewMsgWithdrawAssetRequest(q.owner.String(), id, amt, 1, 1))
	case "close":
		return c18Deliver(app, sctx, lockertypes.NewMsgCloseLockerRequest(q.owner.String(), 1, 1, id))
	case "calc":
		return c18Deliver(app, sctx, lockertypes.NewMsgLockerRewardCalcRequest(q.owner.String(), 1, id))
	case "lsr":
		cl, _ := app.CollectorKeeper.GetCollectorLookupTable(sctx, 1, 1)
		return q.disp(sctx, q.contract, bindings.ComdexMessages{MsgUpdateCollectorLookupTable: &bindings.MsgUpdateCollectorLookupTable{
			AppID: 1, AssetID: 1, DebtThreshold: cl.DebtThreshold, SurplusThreshold: cl.SurplusThreshold, LotSize: cl.LotSize,
			DebtLotSize: cl.DebtLotSize, BidFactor: cl.BidFactor, LSR: rate}})
	case "wlon":
		return q.disp(sctx, q.contract, bindings.ComdexMessages{MsgWhitelistAppIDLockerRewards: &bindings.MsgWhitelistAppIDLockerRewards{AppID: 1, AssetID: 1}})
	case "wloff":
		return q.disp(sctx, q.contract, bindings.ComdexMessages{MsgRemoveWhitelistAssetLocker: &bindings.MsgRemoveWhitelistAssetLocker{AppID: 1, AssetID: 1}})
	}
	q.t.Fatalf("c18 locker flow: unknown kind %s", kind)
	return ""
}

// op: one real call on the sequence's state, one la.op line, ghost update
func (q *c18LockerSeq) op(kind string, gap int64, amt sdk.Int, rate sdk.Dec) string {
	q.now += gap
	q.h++
	return q.opAt(kind, q.now, q.h, amt, rate)
}

func (q *c18LockerSeq) opAt(kind string, now, h int64, amt sdk.Int, rate sdk.Dec) string {
	sctx := q.ctx.WithBlockTime(time.Unix(now, 0)).WithBlockHeight(h)
	pw := q.realPow(sctx, now)
	lg := q.legit(kind, now)
	before := q.proj(sctx)
	o := q.exec(q.ctx, kind, now, h, amt, rate)
	after := q.proj(sctx)
	f := append([]string{kind, i64(now), i64(h), amt.String(), c18Raw(rate), pw, o}, after...)
	q.tr.Line("la.op", append(f, lg)...)
	q.tr.Count("la:" + kind + ":" + o)
	g := &q.g
	positive := g.wl && !g.rate.IsZero()
	if o == "ok" {
		switch kind {
		case "create":
			g.has, g.settled = true, now
			if positive {
				q.tr.Count("la:create:rate_running")
			} else {
				q.tr.Count("la:create:rate_zero")
			}
		case "deposit", "withdraw":
			g.settled = now
			if !positive {
				q.tr.Count("la:touch_at_zero_rate")
			}
		case "calc":
			if positive {
				g.settled = now
			}
		case "close":
			g.has = false
		case "lsr":
			if g.wl {
				if g.has && !g.rate.IsZero() {
					g.settled = now
				}
				g.segStart = now
				switch {
				case rate.IsZero() && !g.rate.IsZero():
					q.tr.Count("la:lsr:r_to_0")
				case rate.IsZero():
					q.tr.Count("la:lsr:0_to_0")
				case g.rate.IsZero():
					q.tr.Count("la:lsr:0_to_r")
				default:
					q.tr.Count("la:lsr:r_to_r")
				}
			}
			g.rate = rate
		case "wlon":
			g.wl = true
		case "wloff":
			g.wl = false
		}
		if c18Accruing(kind) && before[5] == "1" {
			if before[7] != after[7] && after[5] == "1" {
				q.tr.Count("la:credited:whole_units")
			} else if before[10] != after[10] {
				q.tr.Count("la:credited:sub_unit")
			} else {
				q.tr.Count("la:credited:nothing")
			}
		}
	}
	return o
}

// once: the call on a discarded branch (la.once line); no ghost update
func (q *c18LockerSeq) once(kind string, now, h int64, amt sdk.Int, rate sdk.Dec) {
	b, _ := q.ctx.CacheContext()
	sctx := b.WithBlockTime(time.Unix(now, 0)).WithBlockHeight(h)
	pw := q.realPow(sctx, now)
	o := q.exec(b, kind, now, h, amt, rate)
	f := append([]string{kind, i64(now), i64(h), amt.String(), c18Raw(rate), pw, o}, q.proj(sctx)...)
	q.tr.Line("la.once", f...)
	q.tr.Count("la:once:" + kind + ":" + o)
}

func c18LockerFlow(t *testing.T, tr *Trace, rng *Rng, a *c18App) {
	app, base := a.app, a.ctx
	must := func(err error) {
		if err != nil {
			t.Fatal(err)
		}
	}
	if _, found := app.AssetKeeper.GetApp(base, 1); !found {
		must(app.AssetKeeper.AddAppRecords(base, assettypes.AppData{Name: "harbor", ShortName: "hbr", MinGovDeposit: sdk.NewInt(0), GovTimeInSeconds: 0}))
	}
	if _, found := app.AssetKeeper.GetAsset(base, 1); !found {
		must(app.AssetKeeper.AddAssetRecords(base, assettypes.Asset{Name: "CMST", Denom: "ucmst", Decimals: sdk.NewInt(1000000), IsOnChain: true, IsCdpMintable: true}))
		must(app.AssetKeeper.AddAssetRecords(base, assettypes.Asset{Name: "HARBOR", Denom: "uharbor", Decimals: sdk.NewInt(1000000), IsOnChain: true}))
	}
	messenger := cwasm.CustomMessageDecorator(app.LockerKeeper, app.Rewardskeeper, app.AssetKeeper, app.CollectorKeeper, app.LiquidationKeeper,
		app.AuctionKeeper, app.TokenmintKeeper, app.EsmKeeper, app.VaultKeeper, app.LiquidityKeeper)(c18Sink{})
	// a wasm contract message runs inside the contract's transaction: all or nothing
	disp := func(ctx sdk.Context, contract sdk.AccAddress, m bindings.ComdexMessages) string {
		raw, err := json.Marshal(m)
		must(err)
		cc, write := ctx.CacheContext()
		var derr error
		panicked, _ := try(func() { _, _, derr = messenger.DispatchMsg(cc, contract, "", wasmvmtypes.CosmosMsg{Custom: raw}) })
		o := c18Outcome(panicked, derr)
		if o == "ok" {
			write()
		}
		return o
	}
	owner := sdk.AccAddress([]byte("c18-locker-owner----"))
	contract := sdk.AccAddress([]byte("c18-gov-contract----"))
	zero := sdk.ZeroInt()
	dec := func(s string) sdk.Dec { return sdk.MustNewDecFromStr(s) }
	day := int64(86400)

	// start: a fresh branch of the base state; collector entry set through the real binding at t0 with `rate`; `fees` recorded
	// and held by the collector module; the owner funded
	start := func(t0 int64, rate sdk.Dec, fees sdk.Int, wl bool) *c18LockerSeq {
		ctx, _ := base.CacheContext()
		sctx := ctx.WithBlockTime(time.Unix(t0, 0)).WithBlockHeight(100)
		q := &c18LockerSeq{t: t, tr: tr, a: a, ctx: ctx, owner: owner, contract: contract, disp: disp, now: t0, h: 100}
		if o := disp(sctx, contract, bindings.ComdexMessages{MsgSetCollectorLookupTable: &bindings.MsgSetCollectorLookupTable{AppID: 1, CollectorAssetID: 1,
			SecondaryAssetID: 2, SurplusThreshold: sdk.NewInt(10000000), DebtThreshold: sdk.NewInt(5000000), LockerSavingRate: rate, LotSize: sdk.NewInt(2000000),
			BidFactor: dec("0.01"), DebtLotSize: sdk.NewInt(2000000)}}); o != "ok" {
			t.Fatalf("c18 locker flow: set collector lookup: %s", o)
		}
		if o := disp(sctx, contract, bindings.ComdexMessages{MsgWhiteListAssetLocker: &bindings.MsgWhiteListAssetLocker{AppID: 1, AssetID: 1}}); o != "ok" {
			t.Fatalf("c18 locker flow: whitelist locker asset: %s", o)
		}
		if wl {
			if o := disp(sctx, contract, bindings.ComdexMessages{MsgWhitelistAppIDLockerRewards: &bindings.MsgWhitelistAppIDLockerRewards{AppID: 1, AssetID: 1}}); o != "ok" {
				t.Fatalf("c18 locker flow: whitelist rewards: %s", o)
			}
		}
		must(app.CollectorKeeper.SetNetFeeCollectedData(sctx, 1, 1, fees))
		if fees.IsPositive() {
			coins := sdk.NewCoins(sdk.NewCoin("ucmst", fees))
			must(app.BankKeeper.MintCoins(sctx, rewardstypes.ModuleName, coins))
			must(app.BankKeeper.SendCoinsFromModuleToModule(sctx, rewardstypes.ModuleName, collectortypes.ModuleName, coins))
		}
		funds := sdk.NewCoins(sdk.NewCoin("ucmst", sdk.NewIntFromBigInt(new(big.Int).Lsh(big.NewInt(1), 80))))
		must(app.BankKeeper.MintCoins(sctx, rewardstypes.ModuleName, funds))
		must(app.BankKeeper.SendCoinsFromModuleToAccount(sctx, rewardstypes.ModuleName, owner, funds))
		q.g = c18Ghost{rate: rate, wl: wl, has: false, segStart: t0, settled: t0}
		tr.Line("la.begin", append(q.proj(sctx), i64(t0))...)
		return q
	}
	huge := sdk.NewIntFromBigInt(new(big.Int).Lsh(big.NewInt(1), 200))
	T0 := int64(1_700_000_000)

	// --- corpus, first in the run -----------------------------------------------------------------------------------------
	// (1) WITNESS of the reproduced defect (notes/C18.md, `zero_rate_window_touched_counterexample`): the locker is deposited into
	// while the rate is zero; the deposit re-stamps it with the current height, the `BlockHeight = 0` flag is lost, and after the
	// rate is switched on again the whole rest of the zero-rate window is credited at the new rate — in the block of the switch-on.
	{
		q := start(T0, dec("0.1"), huge, true)
		q.op("create", 0, sdk.NewInt(1000000), sdk.ZeroDec())
		q.op("lsr", day, zero, sdk.ZeroDec())
		q.op("deposit", day, sdk.NewInt(1), sdk.ZeroDec())
		q.op("lsr", 364*day, zero, dec("0.1"))
		q.opAt("calc", q.now, q.h+1, zero, sdk.ZeroDec()) // same block time as the switch-on
		q.h++
		q.op("calc", 30*day, zero, sdk.ZeroDec())
		tr.Count("la:corpus")
	}
	// (2) the history of seeded change s94: an IDLE locker across a zero-rate window of a year; switch-on and trigger in one block
	{
		q := start(T0, dec("0.1"), huge, true)
		q.op("create", 0, sdk.NewInt(1000000), sdk.ZeroDec())
		q.op("lsr", day, zero, sdk.ZeroDec())
		q.op("calc", 100*day, zero, sdk.ZeroDec())
		q.op("lsr", 265*day, zero, dec("0.1"))
		q.opAt("calc", q.now, q.h+1, zero, sdk.ZeroDec())
		q.h++
		q.op("calc", 30*day, zero, sdk.ZeroDec())
		tr.Count("la:corpus")
	}
	// (3) locker created while the rate is zero, idle, rate switched on, then r -> r' with a trigger before and after
	{
		q := start(T0, sdk.ZeroDec(), huge, true)
		q.op("create", 10, sdk.NewInt(250000000), sdk.ZeroDec())
		q.op("lsr", 40*day, zero, dec("0.05"))
		q.op("calc", 0, zero, sdk.ZeroDec())
		q.op("calc", 7*day, zero, sdk.ZeroDec())
		q.op("lsr", 3*day, zero, dec("0.08"))
		q.op("calc", 0, zero, sdk.ZeroDec())
		q.op("withdraw", 5*day, sdk.NewInt(1000), sdk.ZeroDec())
		q.op("close", 2*day, zero, sdk.ZeroDec())
		tr.Count("la:corpus")
	}

	// --- generated histories ----------------------------------------------------------------------------------------------
	rateOf := func() sdk.Dec {
		switch rng.Intn(6) {
		case 0:
			r := c18Rate(rng)
			return c18Dec(r)
		default:
			return c18DecI(int64(10000000000000000 * (1 + rng.Intn(12)))) // 1 .. 12 %
		}
	}
	gap := func() int64 {
		switch rng.Intn(8) {
		case 0, 1:
			return 0
		case 2:
			return int64(1 + rng.Intn(10))
		case 3:
			return int64(rng.Intn(100000))
		case 4, 5:
			return int64(rng.Intn(400)) * day
		default:
			return int64(rng.Intn(int(3 * c18Year)))
		}
	}
	longGap := func() int64 {
		switch rng.Intn(4) {
		case 0:
			return int64(1+rng.Intn(30)) * day
		case 1:
			return int64(rng.Intn(int(c18Year)))
		default:
			return int64(rng.Intn(int(4 * c18Year)))
		}
	}
	seqs := scale(260, 3500)
	for sq := 0; sq < seqs; sq++ {
		rate0 := rateOf()
		if rng.Chance(25) {
			rate0 = sdk.ZeroDec()
		}
		fees := huge
		if rng.Chance(8) {
			fees = sdk.NewInt(int64(rng.Intn(6))) // the collector can hardly pay: messages are rejected, sweeps skip the locker
			tr.Count("la:start:fees_low")
		}
		wl := !rng.Chance(4)
		q := start(T0+int64(rng.Intn(int(c18Year))), rate0, fees, wl)
		amount := func() sdk.Int {
			if rng.Chance(55) {
				return sdk.NewInt(int64(100000000 + rng.Intn(400000000))) // accrues less than one unit over a few seconds
			}
			return c18Amount(rng).QuoRaw(8).AddRaw(1)
		}
		net := func() sdk.Int {
			l, _ := app.LockerKeeper.GetLocker(q.ctx, q.lockerID(q.ctx))
			if l.NetBalance.IsNil() {
				return sdk.ZeroInt()
			}
			return l.NetBalance
		}
		newRate := func() sdk.Dec {
			switch rng.Intn(5) {
			case 0, 1:
				return sdk.ZeroDec()
			case 2:
				return q.g.rate // an update that leaves the rate as it is
			default:
				return rateOf()
			}
		}
		steps := rng.Range(4, scale(12, 18))
		for st := 0; st < steps; st++ {
			if !q.g.has {
				if rng.Chance(85) {
					q.op("create", gap(), amount(), sdk.ZeroDec())
				} else {
					q.op("lsr", gap(), zero, newRate())
				}
				continue
			}
			p := rng.Intn(100)
			switch {
			case p < 14: // zero-rate window: off, idle (or touched), on again, trigger at once or soon
				if !q.g.rate.IsZero() {
					q.op("lsr", gap(), zero, sdk.ZeroDec())
				}
				for k := rng.Intn(3); k > 0; k-- {
					switch rng.Intn(6) {
					case 0:
						q.op("deposit", longGap(), sdk.NewInt(int64(1+rng.Intn(1000))), sdk.ZeroDec())
					case 1:
						q.op("withdraw", longGap(), sdk.NewInt(1), sdk.ZeroDec())
					case 2:
						q.op("lsr", longGap(), zero, sdk.ZeroDec()) // 0 -> 0
					default:
						q.op("calc", longGap(), zero, sdk.ZeroDec())
					}
				}
				q.op("lsr", longGap(), zero, rateOf())
				if rng.Chance(12) {
					// error paths with the locker still flagged: a trigger / a rate update at an earlier block time (the chain's clock
					// never runs backwards): CalculationOfRewards fails, the message is rejected, the sweep returns silently
					if rng.Chance(50) {
						q.opAt("calc", q.now-int64(1+rng.Intn(1000)), q.h+1, zero, sdk.ZeroDec())
					} else {
						q.opAt("lsr", q.now-int64(1+rng.Intn(1000)), q.h+1, zero, newRate())
					}
					q.h++
					tr.Count("la:clock_back_flagged")
				}
				if rng.Chance(60) {
					q.opAt("calc", q.now, q.h+1, zero, sdk.ZeroDec())
					q.h++
				} else {
					q.op([]string{"calc", "deposit", "withdraw", "close"}[rng.Intn(4)], int64(rng.Intn(100)), sdk.NewInt(1), sdk.ZeroDec())
				}
				tr.Count("la:zero_window")
			case p < 30: // two consecutive triggers against the single one (second call: message or rate update)
				d1, d2 := gap(), gap()
				if rng.Chance(50) {
					d1, d2 = int64(1+rng.Intn(8)), int64(1+rng.Intn(8))
				}
				kind2, r2 := "calc", sdk.ZeroDec()
				if rng.Chance(40) {
					kind2, r2 = "lsr", newRate()
				}
				t1, t2 := q.now+d1, q.now+d1+d2
				q.once(kind2, t2, q.h+2, zero, r2)
				q.opAt("calc", t1, q.h+1, zero, sdk.ZeroDec())
				q.opAt(kind2, t2, q.h+2, zero, r2)
				q.now, q.h = t2, q.h+2
				tr.Count("la:two_vs_one:" + kind2)
			case p < 44:
				q.op("calc", gap(), zero, sdk.ZeroDec())
			case p < 56:
				q.op("deposit", gap(), amount(), sdk.ZeroDec())
			case p < 68:
				n := net()
				amt := sdk.NewInt(int64(1 + rng.Intn(1000)))
				switch rng.Intn(6) {
				case 0:
					amt = n
				case 1:
					amt = n.AddRaw(1)
				case 2:
					if n.GT(sdk.NewInt(2)) {
						amt = n.QuoRaw(2)
					}
				}
				if !amt.IsPositive() {
					amt = sdk.NewInt(1)
				}
				q.op("withdraw", gap(), amt, sdk.ZeroDec())
			case p < 86:
				q.op("lsr", gap(), zero, newRate())
			case p < 91:
				q.op("close", gap(), zero, sdk.ZeroDec())
			case p < 94:
				if q.g.wl {
					q.op("wloff", gap(), zero, sdk.ZeroDec())
				} else {
					q.op("wlon", gap(), zero, sdk.ZeroDec())
				}
			case p < 96:
				// the clock never runs backwards on chain; exercised as the error path (message rejected, nothing written; the sweep
				// of a rate update returns silently)
				if rng.Chance(70) {
					q.opAt("calc", q.now-int64(1+rng.Intn(1000)), q.h+1, zero, sdk.ZeroDec())
				} else {
					q.opAt("lsr", q.now-int64(1+rng.Intn(1000)), q.h+1, zero, newRate())
				}
				q.h++
			default:
				q.op("create", gap(), amount(), sdk.ZeroDec()) // a second locker for the same (app, asset): rejected
			}
		}
	}
}
