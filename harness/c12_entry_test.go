//go:build verif

package harness

// C12 scope widening: EVERY privileged entry point of the regenerated inventory (`entryPoints` of extract/guards/entry.go) is
// driven on the real app by callers that do NOT hold the authority, and once by the one that does (non-vacuity):
//
//   * the 26 governance proposal contents: wrapped in the real gov message `MsgExecLegacyContent` and sent through the
//     msg-service router with authority ∈ {a user, the esm admin, a designated wasm contract address, a random address}
//     ⇒ error, empty full-store diff; with authority = the gov module account ⇒ the routed proposal handler of comdex runs and
//     changes state. Also `MsgSubmitProposal` (v1beta1) by a user: the sdk executes the handler on a throw-away branch to
//     validate it — nothing but the gov / bank / auth stores may change.
//   * the kill switch and the 20 wasm variants are driven by c12KillSwitch / c12Wasm (trace kinds grd.msg / grd.wasm).
//   * message servers that were outside the table so far (asset, collector, tokenmint, rewards, esm Deposit/Execute): their
//     preconditions with callers / states that must be refused.
//   * IBC callbacks of x/bandoracle with a wrong port / version / channel.
//
// Trace: grd.entry kind name scn caller authorised base expect | outcome diffEmpty changedStores
//        grd.end   C12|C14      (the driver then checks that every privileged entry point of the table was driven)

import (
	"fmt"
	"strings"
	"testing"

	capabilitytypes "github.com/cosmos/cosmos-sdk/x/capability/types"
	channeltypes "github.com/cosmos/ibc-go/v7/modules/core/04-channel/types"

	"github.com/bandprotocol/bandchain-packet/obi"
	"github.com/bandprotocol/bandchain-packet/packet"
	codectypes "github.com/cosmos/cosmos-sdk/codec/types"
	"github.com/cosmos/gogoproto/proto"
	sdk "github.com/cosmos/cosmos-sdk/types"
	govtypes "github.com/cosmos/cosmos-sdk/x/gov/types"
	govv1 "github.com/cosmos/cosmos-sdk/x/gov/types/v1"
	govv1beta1 "github.com/cosmos/cosmos-sdk/x/gov/types/v1beta1"

	assettypes "github.com/comdex-official/comdex/x/asset/types"
	auctionsV2types "github.com/comdex-official/comdex/x/auctionsV2/types"
	"github.com/comdex-official/comdex/x/bandoracle"
	bandtypes "github.com/comdex-official/comdex/x/bandoracle/types"
	collectortypes "github.com/comdex-official/comdex/x/collector/types"
	esmtypes "github.com/comdex-official/comdex/x/esm/types"
	lendtypes "github.com/comdex-official/comdex/x/lend/types"
	liquidationsV2types "github.com/comdex-official/comdex/x/liquidationsV2/types"
	liquiditytypes "github.com/comdex-official/comdex/x/liquidity/types"
	rewardstypes "github.com/comdex-official/comdex/x/rewards/types"
	tokenminttypes "github.com/comdex-official/comdex/x/tokenmint/types"
)

type c12Proposal struct {
	module, content string
	mk              func(w *c12World) govv1beta1.Content
}

func (w *c12World) assetID(denom string) uint64 {
	a, ok := w.app.AssetKeeper.GetAssetForDenom(w.ctx, denom)
	if !ok {
		w.t.Fatalf("asset %s missing", denom)
	}
	return a.Id
}

func c12Proposals() []c12Proposal {
	one := sdk.NewInt(1000000)
	mkAsset := func(name, denom string) assettypes.Asset {
		return assettypes.Asset{Name: name, Denom: denom, Decimals: one, IsOnChain: true}
	}
	poolData := func(w *c12World, main uint64) []*lendtypes.AssetDataPoolMapping {
		return []*lendtypes.AssetDataPoolMapping{
			{AssetID: main, AssetTransitType: 1, SupplyCap: sdk.NewDec(3000000000000000000)},
			{AssetID: w.a1, AssetTransitType: 3, SupplyCap: sdk.NewDec(5000000000000000000)},
			{AssetID: w.a3, AssetTransitType: 2, SupplyCap: sdk.NewDec(5000000000000000000)},
		}
	}
	return []c12Proposal{
		{"asset", "AddAssetsProposal", func(w *c12World) govv1beta1.Content {
			return assettypes.NewAddAssetsProposal("t", "d", mkAsset("PROPASSET", "uprop"))
		}},
		{"asset", "AddMultipleAssetsProposal", func(w *c12World) govv1beta1.Content {
			return assettypes.NewAddMultipleAssetsProposal("t", "d", []assettypes.Asset{mkAsset("PROPONE", "uprop1"), mkAsset("PROPTWO", "uprop2")})
		}},
		{"asset", "UpdateAssetProposal", func(w *c12World) govv1beta1.Content {
			return assettypes.NewUpdateAssetProposal("t", "d", assettypes.Asset{Id: w.a3, Name: "ASSETTHREX", Denom: "uasset3", Decimals: one, IsOraclePriceRequired: true})
		}},
		{"asset", "AddPairsProposal", func(w *c12World) govv1beta1.Content {
			return assettypes.NewAddPairsProposal("t", "d", assettypes.Pair{AssetIn: w.a4, AssetOut: w.a2})
		}},
		{"asset", "AddMultiplePairsProposal", func(w *c12World) govv1beta1.Content {
			return assettypes.NewAddMultiplePairsProposal("t", "d", []assettypes.Pair{{AssetIn: w.a4, AssetOut: w.a3}, {AssetIn: w.c1, AssetOut: w.a2}})
		}},
		{"asset", "UpdatePairProposal", func(w *c12World) govv1beta1.Content {
			return assettypes.NewUpdatePairProposal("t", "d", assettypes.Pair{Id: 1, AssetIn: w.a4, AssetOut: w.c2})
		}},
		{"asset", "UpdateGovTimeInAppProposal", func(w *c12World) govv1beta1.Content {
			return assettypes.NewUpdateGovTimeInAppProposal("t", "d", assettypes.AppAndGovTime{AppId: w.appVault, GovTimeInSeconds: 100, MinGovDeposit: sdk.NewInt(5)})
		}},
		{"asset", "AddAppProposal", func(w *c12World) govv1beta1.Content {
			return assettypes.NewAddAppProposal("t", "d", assettypes.AppData{Name: "propapp", ShortName: "prapp", MinGovDeposit: sdk.NewInt(0), GovTimeInSeconds: 0})
		}},
		{"asset", "AddAssetInAppProposal", func(w *c12World) govv1beta1.Content {
			return assettypes.NewAddAssetInAppProposal("t", "d", assettypes.AppData{Id: w.appLiq, GenesisToken: []assettypes.MintGenesisToken{
				{AssetId: w.a4, GenesisSupply: sdk.NewInt(1000), IsGovToken: false, Recipient: w.B.String()}}})
		}},
		{"asset", "AddMultipleAssetsPairsProposal", func(w *c12World) govv1beta1.Content {
			return assettypes.NewAddMultipleAssetsPairsProposal("t", "d", []assettypes.AssetPair{
				{Name: "PAIRASSET", Denom: "upairasset", Decimals: one, IsOnChain: true, AssetOut: w.a2}})
		}},
		{"auctionsV2", "DutchAutoBidParamsProposal", func(w *c12World) govv1beta1.Content {
			return auctionsV2types.NewDutchAutoBidParamsProposal("t", "d", auctionsV2types.AuctionParams{
				AuctionDurationSeconds: 1800, Step: c12Dec("0.2"), WithdrawalFee: c12Dec("0.0"), ClosingFee: c12Dec("0.0"), MinUsdValueLeft: 100000,
				BidFactor: c12Dec("0.1"), LiquidationPenalty: c12Dec("0.1"), AuctionBonus: c12Dec("0.0")})
		}},
		{"bandoracle", "FetchPriceProposal", func(w *c12World) govv1beta1.Content {
			return bandtypes.NewFetchPriceProposal("t", "d", bandtypes.MsgFetchPriceData{
				Creator: w.B.String(), OracleScriptID: 112, SourceChannel: "channel-1",
				Calldata: &bandtypes.FetchPriceCallData{Symbols: []string{"ATOM", "CMDX"}, Multiplier: 1000000},
				AskCount: 3, MinCount: 3, FeeLimit: sdk.NewCoins(sdk.NewCoin("uband", sdk.NewInt(30))), PrepareGas: 600000, ExecuteGas: 600000,
				ClientID: "fetch_price_id", TwaBatchSize: 30, AcceptedHeightDiff: 6000})
		}},
		{"lend", "LendPairsProposal", func(w *c12World) govv1beta1.Content {
			return lendtypes.NewAddLendPairsProposal("t", "d", lendtypes.Extended_Pair{AssetIn: w.a3, AssetOut: w.a2, AssetOutPoolID: w.lendPool, MinUsdValueLeft: 1000000})
		}},
		{"lend", "MultipleLendPairsProposal", func(w *c12World) govv1beta1.Content {
			return lendtypes.NewAddMultipleLendPairsProposal("t", "d", []lendtypes.Extended_Pair{
				{AssetIn: w.a3, AssetOut: w.a1, AssetOutPoolID: w.lendPool, MinUsdValueLeft: 1000000},
				{AssetIn: w.a2, AssetOut: w.a3, AssetOutPoolID: w.lendPool, MinUsdValueLeft: 1000000}})
		}},
		{"lend", "AddPoolsProposal", func(w *c12World) govv1beta1.Content {
			return lendtypes.NewAddPoolProposal("t", "d", lendtypes.Pool{ModuleName: "prop", CPoolName: "PROP-POOL", AssetData: poolData(w, w.a2)})
		}},
		{"lend", "AddAssetToPairProposal", func(w *c12World) govv1beta1.Content {
			return lendtypes.NewAddAssetToPairProposal("t", "d", lendtypes.AssetToPairMapping{AssetID: w.a3, PoolID: w.lendPool, PairID: []uint64{w.lendPairA1A2}})
		}},
		{"lend", "AddMultipleAssetToPairProposal", func(w *c12World) govv1beta1.Content {
			return lendtypes.NewAddMultipleAssetToPairProposal("t", "d", []lendtypes.AssetToPairSingleMapping{{PoolID: w.lendPool, AssetID: w.a3, PairID: w.lendPairA1A3}})
		}},
		{"lend", "AddAssetRatesParams", func(w *c12World) govv1beta1.Content {
			return lendtypes.NewAddassetRatesParams("t", "d", lendtypes.AssetRatesParams{
				AssetID: w.assetID("ugov"), UOptimal: c12Dec("0.8"), Base: c12Dec("0.002"), Slope1: c12Dec("0.06"), Slope2: c12Dec("0.6"),
				StableBase: c12Dec("0.04"), StableSlope1: c12Dec("0.04"), StableSlope2: c12Dec("0.06"), Ltv: c12Dec("0.7"), LiquidationThreshold: c12Dec("0.75"),
				LiquidationPenalty: c12Dec("0.025"), LiquidationBonus: c12Dec("0.025"), ReserveFactor: c12Dec("0.1"), CAssetID: w.c4})
		}},
		{"lend", "AddAuctionParamsProposal", func(w *c12World) govv1beta1.Content {
			return lendtypes.NewAddAuctionParams("t", "d", lendtypes.AuctionParams{AppId: w.appLend, AuctionDurationSeconds: 3600, Buffer: c12Dec("1.2"), Cusp: c12Dec("0.7"),
				Step: sdk.NewInt(360), PriceFunctionType: 1, DutchId: 3, BidDurationSeconds: 3600})
		}},
		{"lend", "AddPoolPairsProposal", func(w *c12World) govv1beta1.Content {
			return lendtypes.NewAddPoolPairsProposal("t", "d", lendtypes.PoolPairs{ModuleName: "ppair", CPoolName: "PP-POOL", AssetData: poolData(w, w.a2), MinUsdValueLeft: 100000})
		}},
		{"lend", "AddAssetRatesPoolPairsProposal", func(w *c12World) govv1beta1.Content {
			g := w.assetID("ugov")
			return lendtypes.NewAddassetRatesPoolPairs("t", "d", lendtypes.AssetRatesPoolPairs{
				AssetID: g, UOptimal: c12Dec("0.8"), Base: c12Dec("0.002"), Slope1: c12Dec("0.06"), Slope2: c12Dec("0.6"),
				StableBase: c12Dec("0.04"), StableSlope1: c12Dec("0.04"), StableSlope2: c12Dec("0.06"), Ltv: c12Dec("0.7"), LiquidationThreshold: c12Dec("0.75"),
				LiquidationPenalty: c12Dec("0.025"), LiquidationBonus: c12Dec("0.025"), ReserveFactor: c12Dec("0.1"), CAssetID: w.c4,
				ModuleName: "arpp", CPoolName: "ARPP-POOL", AssetData: poolData(w, g), MinUsdValueLeft: 100000})
		}},
		{"lend", "AddPoolDepreciateProposal", func(w *c12World) govv1beta1.Content {
			return lendtypes.NewAddDepreciatePool("t", "d", lendtypes.PoolDepreciate{IndividualPoolDepreciate: []lendtypes.IndividualPoolDepreciate{{PoolID: w.lendPool2, IsPoolDepreciated: true}}})
		}},
		{"lend", "AddEModePairsProposal", func(w *c12World) govv1beta1.Content {
			return lendtypes.NewAddEModePairs("t", "d", lendtypes.EModePairsForProposal{EModePairs: []lendtypes.EModePairs{
				{PairID: w.lendPairA1A2, ELtv: c12Dec("0.85"), ELiquidationThreshold: c12Dec("0.9"), ELiquidationPenalty: c12Dec("0.02")}}})
		}},
		{"liquidationsV2", "WhitelistLiquidationProposal", func(w *c12World) govv1beta1.Content {
			return liquidationsV2types.NewLiquidationWhiteListingProposal("t", "d", liquidationsV2types.LiquidationWhiteListing{AppId: w.appLiq, Initiator: true, IsDutchActivated: true,
				DutchAuctionParam:  &liquidationsV2types.DutchAuctionParam{Premium: c12Dec("0.1"), Discount: c12Dec("0.1"), DecrementFactor: sdk.NewInt(1)},
				IsEnglishActivated: true, EnglishAuctionParam: &liquidationsV2types.EnglishAuctionParam{DecrementFactor: sdk.NewInt(1)}, KeeeperIncentive: c12Dec("0.1")})
		}},
		{"liquidity", "UpdateGenericParamsProposal", func(w *c12World) govv1beta1.Content {
			return liquiditytypes.NewUpdateGenericParamsProposal("t", "d", w.appLiq, []string{"BatchSize"}, []string{"3"})
		}},
		{"liquidity", "CreateNewLiquidityPairProposal", func(w *c12World) govv1beta1.Content {
			return liquiditytypes.NewCreateLiquidityPairProposal("t", "d", w.B, w.appLiq, "uasset3", "uasset4")
		}},
	}
}

func (w *c12World) emitEntry(tr *Trace, kind, name, scn, caller string, authorised, base bool, expect string, r c12Result) {
	tr.Line("grd.begin", kind+":"+name, scn)
	tr.Line("grd.entry", kind, name, scn, caller, c12b01(authorised), c12b01(base), expect, r.outcome, c12b01(r.parentEmpty), strings.Join(r.changed, ","))
	tr.Count("entry:" + kind + ":" + caller + ":" + r.outcome)
}

// c12Entries: see the file comment
func c12Entries(t *testing.T, tr *Trace, w *c12World) {
	govAddr := w.app.AccountKeeper.GetModuleAddress(govtypes.ModuleName)
	contract, _ := sdk.AccAddressFromBech32("comdex17p9rzwnnfxcjp32un9ug7yhhzgtkhvl9jfksztgw5uh69wac2pgs4jg6dx")
	callers := []struct {
		name string
		addr sdk.AccAddress
	}{{"gov", govAddr}, {"user", w.A}, {"admin", w.admin}, {"contract", contract}, {"random", w.C}}
	victim := w.victimProj(w.ctx)
	for _, p := range c12Proposals() {
		content := p.mk(w)
		if err := content.ValidateBasic(); err != nil {
			t.Errorf("proposal %s.%s: ValidateBasic: %v", p.module, p.content, err)
		}
		pm, okp := content.(proto.Message)
		if !okp {
			t.Fatalf("proposal %s.%s is not a proto message", p.module, p.content)
		}
		anyc, err := codectypes.NewAnyWithValue(pm)
		if err != nil {
			t.Fatalf("any: %v", err)
		}
		for _, c := range callers {
			ctx, _ := w.ctx.CacheContext()
			msg := govv1.NewMsgExecLegacyContent(anyc, c.addr.String())
			r := w.deliver(ctx, w.snap, victim, msg)
			auth := c.name == "gov"
			w.emitEntry(tr, "proposal", p.module+"."+p.content, "exec/"+c.name, c.name, auth, auth, "", r)
			if auth && r.outcome != "ok" {
				t.Logf("proposal %s.%s by the gov account failed: %s", p.module, p.content, r.errText)
			}
			if !auth && (r.outcome == "ok" || !r.parentEmpty) {
				t.Logf("ACCEPTED proposal content %s.%s executed by %s: changed %v", p.module, p.content, c.name, r.changed)
			}
		}
		// a user SUBMITS the proposal (no vote): the sdk runs the handler on a throw-away branch; only gov / bank / auth may change
		ctx, _ := w.ctx.CacheContext()
		sub, err := govv1beta1.NewMsgSubmitProposal(content, sdk.NewCoins(), w.B)
		if err != nil {
			t.Fatalf("submit: %v", err)
		}
		r := w.deliver(ctx, w.snap, victim, sub)
		var foreign []string
		for _, s := range r.changed {
			if s != "gov" && s != "bank" && s != "acc" {
				foreign = append(foreign, s)
			}
		}
		r.changed = foreign
		r.parentEmpty = len(foreign) == 0
		w.emitEntry(tr, "proposal", p.module+"."+p.content, "submit/user", "user", false, false, "submit", r)
	}
	c12Preconditions(t, tr, w)
	c12Ibc(t, tr, w)
}

// c12Preconditions: message servers outside the old table — callers / states that must be refused, and the good case.
func c12Preconditions(t *testing.T, tr *Trace, w *c12World) {
	victim := w.victimProj(w.ctx)
	gov := w.assetID("ugov")
	type pc struct {
		name, scn, expect string
		prep              func(ctx sdk.Context)
		msg               sdk.Msg
	}
	fee := w.app.AssetKeeper.GetParams(w.ctx).AssetRegisrationFee
	newAsset := assettypes.Asset{Name: "MSGASSET", Denom: "umsgasset", Decimals: sdk.NewInt(1000000), IsOnChain: true}
	trig := func(target int64) func(ctx sdk.Context) {
		return func(ctx sdk.Context) {
			w.app.EsmKeeper.SetESMTriggerParams(ctx, esmtypes.ESMTriggerParams{AppId: w.appGov, TargetValue: sdk.NewCoin("ugov", sdk.NewInt(target)), CoolOffPeriod: 3600})
		}
	}
	deposited := func(target, have int64) func(ctx sdk.Context) {
		return func(ctx sdk.Context) {
			trig(target)(ctx)
			w.app.EsmKeeper.SetCurrentDepositStats(ctx, esmtypes.CurrentDepositStats{AppId: w.appGov, Balance: sdk.NewCoin("ugov", sdk.NewInt(have))})
		}
	}
	cases := []pc{
		// asset.AddAsset: the public registration takes the fee from the signer first
		{"asset.AddAsset", "unfunded", "reject", nil, &assettypes.MsgAddAsset{Creator: w.C.String(), Asset: newAsset}},
		{"asset.AddAsset", "funded", "accept", func(ctx sdk.Context) {
			_ = w.app.BankKeeper.MintCoins(ctx, lendtypes.ModuleName, sdk.NewCoins(fee))
			_ = w.app.BankKeeper.SendCoinsFromModuleToAccount(ctx, lendtypes.ModuleName, w.B, sdk.NewCoins(fee))
		}, &assettypes.MsgAddAsset{Creator: w.B.String(), Asset: newAsset}},
		{"asset.AddAsset", "duplicate-denom", "reject", func(ctx sdk.Context) {
			_ = w.app.BankKeeper.MintCoins(ctx, lendtypes.ModuleName, sdk.NewCoins(fee))
			_ = w.app.BankKeeper.SendCoinsFromModuleToAccount(ctx, lendtypes.ModuleName, w.B, sdk.NewCoins(fee))
		}, &assettypes.MsgAddAsset{Creator: w.B.String(), Asset: assettypes.Asset{Name: "DUPASSET", Denom: "uasset1", Decimals: sdk.NewInt(1000000), IsOnChain: true}}},
		// tokenmint: only the genesis supply declared by governance, only once
		{"tokenmint.MsgMintNewTokens", "already-minted", "reject", nil, &tokenminttypes.MsgMintNewTokensRequest{From: w.A.String(), AppId: w.appGov, AssetId: gov}},
		{"tokenmint.MsgMintNewTokens", "asset-not-declared", "reject", nil, &tokenminttypes.MsgMintNewTokensRequest{From: w.A.String(), AppId: w.appGov, AssetId: w.a1}},
		{"tokenmint.MsgMintNewTokens", "app-without-token", "reject", nil, &tokenminttypes.MsgMintNewTokensRequest{From: w.A.String(), AppId: w.appVault, AssetId: gov}},
		// collector.Deposit (the one-off refund): wrong app / wrong asset
		{"collector.Deposit", "wrong-app", "reject", nil, &collectortypes.MsgDeposit{Addr: w.A.String(), Amount: sdk.NewCoin("uasset3", sdk.NewInt(1000)), AppId: w.appLend}},
		{"collector.Deposit", "wrong-asset", "reject", nil, &collectortypes.MsgDeposit{Addr: w.A.String(), Amount: sdk.NewCoin("uasset1", sdk.NewInt(1000)), AppId: 2}},
		// esm.DepositESM / ExecuteESM
		{"esm.DepositESM", "no-trigger-params", "reject", nil, &esmtypes.MsgDepositESM{AppId: w.appGov, Depositor: w.B.String(), Amount: sdk.NewCoin("ugov", sdk.NewInt(1000))}},
		{"esm.DepositESM", "wrong-denom", "reject", trig(5000), &esmtypes.MsgDepositESM{AppId: w.appGov, Depositor: w.B.String(), Amount: sdk.NewCoin("uasset1", sdk.NewInt(1000))}},
		{"esm.DepositESM", "app-without-gov-token", "reject", trig(5000), &esmtypes.MsgDepositESM{AppId: w.appVault, Depositor: w.B.String(), Amount: sdk.NewCoin("ugov", sdk.NewInt(1000))}},
		{"esm.DepositESM", "unfunded", "reject", trig(5000), &esmtypes.MsgDepositESM{AppId: w.appGov, Depositor: w.C.String(), Amount: sdk.NewCoin("ugov", sdk.NewInt(1000))}},
		{"esm.DepositESM", "target-exceeded", "reject", deposited(5000, 5001), &esmtypes.MsgDepositESM{AppId: w.appGov, Depositor: w.B.String(), Amount: sdk.NewCoin("ugov", sdk.NewInt(1000))}},
		{"esm.DepositESM", "good", "accept", trig(5000), &esmtypes.MsgDepositESM{AppId: w.appGov, Depositor: w.B.String(), Amount: sdk.NewCoin("ugov", sdk.NewInt(1000))}},
		{"esm.ExecuteESM", "no-trigger-params", "reject", nil, &esmtypes.MsgExecuteESM{AppId: w.appGov, Depositor: w.A.String()}},
		{"esm.ExecuteESM", "no-deposit", "reject", trig(5000), &esmtypes.MsgExecuteESM{AppId: w.appGov, Depositor: w.A.String()}},
		{"esm.ExecuteESM", "below-target", "reject", deposited(5000, 4999), &esmtypes.MsgExecuteESM{AppId: w.appGov, Depositor: w.A.String()}},
		{"esm.ExecuteESM", "at-target", "accept", deposited(5000, 5000), &esmtypes.MsgExecuteESM{AppId: w.appGov, Depositor: w.A.String()}},
		{"esm.ExecuteESM", "unknown-app", "reject", nil, &esmtypes.MsgExecuteESM{AppId: 999, Depositor: w.A.String()}},
		{"esm.ExecuteESM", "already-executed", "reject", func(ctx sdk.Context) {
			deposited(5000, 6000)(ctx)
			w.app.EsmKeeper.SetESMStatus(ctx, esmtypes.ESMStatus{AppId: w.appGov, Executor: w.B.String(), Status: true, StartTime: ctx.BlockTime(), EndTime: ctx.BlockTime().Add(3600e9)})
		}, &esmtypes.MsgExecuteESM{AppId: w.appGov, Depositor: w.A.String()}},
		{"esm.MsgKillSwitch", "admin-unknown-app", "reject", nil, &esmtypes.MsgKillRequest{From: w.admin.String(), KillSwitchParams: &esmtypes.KillSwitchParams{AppId: 999, BreakerEnable: true}}},
		{"esm.MsgKillSwitch", "stranger-disables-an-enabled-breaker", "reject", func(ctx sdk.Context) {
			_ = w.app.EsmKeeper.SetKillSwitchData(ctx, esmtypes.KillSwitchParams{AppId: w.appVault, BreakerEnable: true})
		}, &esmtypes.MsgKillRequest{From: w.B.String(), KillSwitchParams: &esmtypes.KillSwitchParams{AppId: w.appVault, BreakerEnable: false}}},
		// rewards: external reward programmes are paid by the signer
		{"rewards.ExternalRewardsLockers", "unfunded", "reject", nil, &rewardstypes.ActivateExternalRewardsLockers{AppMappingId: w.appVault, AssetId: w.a2,
			TotalRewards: sdk.NewCoin("uasset3", sdk.NewInt(1000000)), DurationDays: 3, Depositor: w.C.String(), MinLockupTimeSeconds: 10}},
		{"rewards.ExternalRewardsLockers", "funded", "accept", nil, &rewardstypes.ActivateExternalRewardsLockers{AppMappingId: w.appVault, AssetId: w.a2,
			TotalRewards: sdk.NewCoin("uasset3", sdk.NewInt(1000000)), DurationDays: 3, Depositor: w.B.String(), MinLockupTimeSeconds: 10}},
		{"rewards.ExternalRewardsVault", "unfunded", "reject", nil, &rewardstypes.ActivateExternalRewardsVault{AppMappingId: w.appVault, ExtendedPairId: w.extPair,
			TotalRewards: sdk.NewCoin("uasset3", sdk.NewInt(1000000)), DurationDays: 3, Depositor: w.C.String(), MinLockupTimeSeconds: 10}},
		// (recorded only: ActExternalRewardsVaults refuses every app that has more than one extended pair — keeper.go:184-188
		// returns ErrPairNotExists at the first pair of the app that is not the named one; notes/C12.md, observation)
		{"rewards.ExternalRewardsVault", "funded-multi-pair-app", "", nil, &rewardstypes.ActivateExternalRewardsVault{AppMappingId: w.appVault, ExtendedPairId: w.extPair,
			TotalRewards: sdk.NewCoin("uasset3", sdk.NewInt(1000000)), DurationDays: 3, Depositor: w.B.String(), MinLockupTimeSeconds: 10}},
	}
	for _, c := range cases {
		ctx, _ := w.ctx.CacheContext()
		if c.prep != nil {
			c.prep(ctx)
		}
		before := w.dump(ctx)
		r := w.deliver(ctx, before, w.victimProj(ctx), c.msg)
		_ = victim
		w.emitEntry(tr, "msg", c.name, "pre/"+c.scn, "user", c.expect == "accept", false, c.expect, r)
		if c.expect == "accept" && r.outcome != "ok" {
			t.Logf("precondition %s %s: good case failed: %s", c.name, c.scn, r.errText)
		}
	}
}

// c12Ibc: the IBC callbacks of x/bandoracle with a wrong port / version / channel (IBC core is the only caller on chain; the
// callbacks' own tests are what the inventory lists as their guard).
func c12Ibc(t *testing.T, tr *Trace, w *c12World) {
	im := bandoracle.NewIBCModule(w.app.BandoracleKeeper)
	port := w.app.BandoracleKeeper.GetPort(w.ctx)
	run := func(name, scn, expect string, f func(ctx sdk.Context) error) {
		ctx, _ := w.ctx.CacheContext()
		var err error
		msgCtx, write := ctx.CacheContext()
		panicked, pmsg := try(func() { err = f(msgCtx) })
		r := c12Result{outcome: "ok"}
		switch {
		case panicked:
			r.outcome, r.errText = "panic", pmsg
		case err != nil:
			r.outcome, r.errText = "err", err.Error()
		default:
			write()
		}
		r.changed = diffStores(w.snap, w.dump(ctx))
		r.parentEmpty = len(r.changed) == 0
		w.emitEntry(tr, "ibc", "bandoracle."+name, scn, "ibc", expect == "accept", false, expect, r)
		if expect == "accept" && r.outcome != "ok" {
			t.Logf("ibc %s %s: good case failed: %s", name, scn, r.errText)
		}
	}
	cp := channeltypes.NewCounterparty("oracle", "channel-7")
	run("OnChanOpenInit", "wrong-port", "reject", func(ctx sdk.Context) error {
		_, err := im.OnChanOpenInit(ctx, channeltypes.UNORDERED, []string{"connection-0"}, "transfer", "channel-1", &capabilitytypes.Capability{}, cp, bandtypes.Version)
		return err
	})
	run("OnChanOpenInit", "wrong-version", "reject", func(ctx sdk.Context) error {
		_, err := im.OnChanOpenInit(ctx, channeltypes.UNORDERED, []string{"connection-0"}, port, "channel-1", &capabilitytypes.Capability{}, cp, "ics20-1")
		return err
	})
	run("OnChanOpenTry", "wrong-port", "reject", func(ctx sdk.Context) error {
		_, err := im.OnChanOpenTry(ctx, channeltypes.UNORDERED, []string{"connection-0"}, "transfer", "channel-1", &capabilitytypes.Capability{}, cp, bandtypes.Version)
		return err
	})
	run("OnChanOpenTry", "wrong-version", "reject", func(ctx sdk.Context) error {
		_, err := im.OnChanOpenTry(ctx, channeltypes.UNORDERED, []string{"connection-0"}, port, "channel-1", &capabilitytypes.Capability{}, cp, "ics20-1")
		return err
	})
	run("OnChanOpenAck", "wrong-version", "reject", func(ctx sdk.Context) error {
		return im.OnChanOpenAck(ctx, port, "channel-1", "channel-7", "ics20-1")
	})
	// a packet on a channel that is not the configured source channel of the price request
	fp := w.app.BandoracleKeeper.GetFetchPriceMsg(w.ctx)
	if fp.SourceChannel == "" { // no price request configured in the world: configure one on the cells' parent
		fp.SourceChannel = "channel-1"
	}
	valid := func() []byte {
		res := obi.MustEncode(bandtypes.FetchPriceResult{Rates: []uint64{1234567, 7654321}})
		resp := packet.OracleResponsePacketData{ClientID: bandtypes.FetchPriceClientIDKey, RequestID: 77, AnsCount: 1, RequestTime: 1, ResolveTime: 1, ResolveStatus: 1, Result: res}
		return bandtypes.ModuleCdc.MustMarshalJSON(&resp)
	}()
	withReq := func(ctx sdk.Context) { w.app.BandoracleKeeper.SetFetchPriceMsg(ctx, bandtypes.MsgFetchPriceData{Creator: w.B.String(), SourceChannel: fp.SourceChannel, OracleScriptID: 112, ClientID: bandtypes.FetchPriceClientIDKey, TwaBatchSize: 30}) }
	pkt := func(ch string, data []byte) channeltypes.Packet {
		return channeltypes.Packet{Sequence: 1, SourcePort: "oracle", SourceChannel: "channel-7", DestinationPort: port, DestinationChannel: ch, Data: data}
	}
	// a VALID price result arriving on a channel that is not the configured one must not be stored
	run("OnRecvPacket", "valid-result-foreign-channel", "reject", func(ctx sdk.Context) error {
		withReq(ctx)
		ack := im.OnRecvPacket(ctx, pkt(fp.SourceChannel+"9", valid), w.C)
		if _, err := w.app.BandoracleKeeper.GetFetchPriceResult(ctx, bandtypes.OracleRequestID(77)); err == nil {
			return nil // stored: reported as accepted
		}
		if ack == nil || ack.Success() {
			return nil
		}
		return fmt.Errorf("error acknowledgement")
	})
	run("OnRecvPacket", "valid-result-own-channel", "accept", func(ctx sdk.Context) error {
		withReq(ctx)
		ack := im.OnRecvPacket(ctx, pkt(fp.SourceChannel, valid), w.C)
		if _, err := w.app.BandoracleKeeper.GetFetchPriceResult(ctx, bandtypes.OracleRequestID(77)); err != nil {
			return fmt.Errorf("result not stored: %v", err)
		}
		if ack != nil && !ack.Success() {
			return fmt.Errorf("error acknowledgement")
		}
		return nil
	})
	run("OnRecvPacket", "foreign-channel", "reject", func(ctx sdk.Context) error {
		ack := im.OnRecvPacket(ctx, pkt(fp.SourceChannel+"-x", []byte(`{"client_id":"fetch_price_id","request_id":"7","result":"AAAA"}`)), w.C)
		if ack == nil || ack.Success() {
			return nil
		}
		return fmt.Errorf("error acknowledgement")
	})
	run("OnRecvPacket", "own-channel-unknown-client", "reject", func(ctx sdk.Context) error {
		ack := im.OnRecvPacket(ctx, pkt(fp.SourceChannel, []byte(`{"client_id":"someone_else","request_id":"7","result":"AAAA"}`)), w.C)
		if ack == nil || ack.Success() {
			return nil
		}
		return fmt.Errorf("error acknowledgement")
	})
	run("OnAcknowledgementPacket", "garbage-ack", "reject", func(ctx sdk.Context) error {
		return im.OnAcknowledgementPacket(ctx, pkt(fp.SourceChannel, []byte("{}")), []byte("not json"), w.C)
	})
}
