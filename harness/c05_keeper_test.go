//go:build verif

package harness

import (
	"strconv"
	"strings"
	"testing"
	"time"

	sdkmath "cosmossdk.io/math"
	tmproto "github.com/cometbft/cometbft/proto/tendermint/types"
	sdk "github.com/cosmos/cosmos-sdk/types"

	chain "github.com/comdex-official/comdex/app"
	assettypes "github.com/comdex-official/comdex/x/asset/types"
	"github.com/comdex-official/comdex/x/liquidity"
	"github.com/comdex-official/comdex/x/liquidity/amm"
	liqtypes "github.com/comdex-official/comdex/x/liquidity/types"
)

// C05, keeper level: stored limit orders of ONE pair (no pools) over several batches on the REAL liquidity keeper —
// MsgLimitOrder through the message router (ValidateBasic first, cached context written back on success), then the real
// liquidity.EndBlocker (ExecuteRequests → ExecuteMatching → NewUserOrder / Match / ApplyMatchResult, expiry) and
// BeginBlocker (pruning). After every EndBlocker every stored order of the pair is dumped and compared with the model
// (lean/Comdex/Model/AmmKeeper.lean); the monitor order_within_amount is evaluated on the real stored orders.

const c05kT0 = int64(1700000000)

type c05kEnv struct {
	t      *testing.T
	app    *chain.App
	base   sdk.Context
	appID  uint64
	pairID uint64
	users  []sdk.AccAddress
	prec   int
}

func c05kAddr(n int) sdk.AccAddress {
	a := make(sdk.AccAddress, 20)
	a[0] = 0xC5
	a[1] = byte(n >> 8)
	a[2] = byte(n)
	return a
}

func c05kNewEnv(t *testing.T) *c05kEnv {
	e := &c05kEnv{t: t}
	e.app = chain.Setup(t, false)
	e.base = e.app.BaseApp.NewContext(false, tmproto.Header{Height: 1, Time: time.Unix(c05kT0, 0).UTC()})
	if err := e.app.AssetKeeper.AddAppRecords(e.base, assettypes.AppData{
		Name: "appcfive", ShortName: "cfive", MinGovDeposit: sdkmath.NewInt(0), GovTimeInSeconds: 0,
		GenesisToken: []assettypes.MintGenesisToken{},
	}); err != nil {
		t.Fatal(err)
	}
	apps, _ := e.app.AssetKeeper.GetApps(e.base)
	e.appID = apps[len(apps)-1].Id
	for i, d := range []string{"ucmdx", "ubase", "uquote"} {
		if err := e.app.AssetKeeper.AddAssetRecords(e.base, assettypes.Asset{
			Name: "CK" + alphaName(i), Denom: d, Decimals: sdkmath.NewInt(1000000), IsOnChain: true, IsOraclePriceRequired: false,
		}); err != nil {
			t.Fatal(err)
		}
	}
	k := e.app.LiquidityKeeper
	params, err := k.GetGenericParams(e.base, e.appID)
	if err != nil {
		t.Fatal(err)
	}
	e.prec = int(params.TickPrecision)
	fund := func(a sdk.AccAddress, c sdk.Coins) {
		if err := e.app.BankKeeper.MintCoins(e.base, liqtypes.ModuleName, c); err != nil {
			t.Fatal(err)
		}
		if err := e.app.BankKeeper.SendCoinsFromModuleToAccount(e.base, liqtypes.ModuleName, a, c); err != nil {
			t.Fatal(err)
		}
	}
	for i := 0; i < 6; i++ {
		a := c05kAddr(i)
		e.users = append(e.users, a)
		big, _ := sdkmath.NewIntFromString("1000000000000000000000000000000")
		fund(a, sdk.NewCoins(sdk.NewCoin("ubase", big), sdk.NewCoin("uquote", big)))
	}
	fund(e.users[0], params.PairCreationFee)
	pair, err := k.CreatePair(e.base, liqtypes.NewMsgCreatePair(e.appID, e.users[0], "ubase", "uquote"), false)
	if err != nil {
		t.Fatal(err)
	}
	e.pairID = pair.Id
	return e
}

type c05kSeq struct {
	e      *c05kEnv
	tr     *Trace
	ctx    sdk.Context
	height int64
	now    int64
}

func (e *c05kEnv) begin(tr *Trace) *c05kSeq {
	ctx, _ := e.base.CacheContext() // every sequence runs on its own branch of the store: a fresh pair
	q := &c05kSeq{e: e, tr: tr, ctx: ctx, height: 2, now: c05kT0 + 5}
	q.ctx = q.ctx.WithBlockHeight(q.height).WithBlockTime(time.Unix(q.now, 0).UTC())
	tr.Line("amm.k.begin", strconv.Itoa(e.prec))
	q.params()
	return q
}

// place delivers a MsgLimitOrder the way the chain does and reports what was stored
func (q *c05kSeq) place(user int, buy bool, price sdkmath.LegacyDec, amt sdkmath.Int, lifespan time.Duration) {
	e := q.e
	dir, ammDir, offerDenom, demandDenom := liqtypes.OrderDirectionBuy, amm.Buy, "uquote", "ubase"
	if !buy {
		dir, ammDir, offerDenom, demandDenom = liqtypes.OrderDirectionSell, amm.Sell, "ubase", "uquote"
	}
	// enough offer coin for price × amount plus the swap fee (the excess stays with the orderer)
	need := amm.OfferCoinAmount(ammDir, price, amt)
	offer := sdk.NewCoin(offerDenom, need.MulRaw(102).QuoRaw(100).AddRaw(10))
	msg := liqtypes.NewMsgLimitOrder(e.appID, e.users[user], e.pairID, dir, offer, demandDenom, price, amt, lifespan)
	d := "1"
	if !buy {
		d = "2"
	}
	expire := q.now + int64(lifespan/time.Second)
	fail := func(why string) {
		q.tr.Count("k.place:" + why)
		q.tr.Line("amm.k.place", d, c05Raw(price), amt.String(), strconv.FormatInt(expire, 10), "err", "-", "-", "-", "-")
	}
	if err := msg.ValidateBasic(); err != nil {
		fail("invalid")
		return
	}
	before, _ := e.app.LiquidityKeeper.GetPair(q.ctx, e.appID, e.pairID)
	cctx, write := q.ctx.CacheContext()
	handler := e.app.MsgServiceRouter().Handler(msg)
	var err error
	panicked, _ := try(func() { _, err = handler(cctx, msg) })
	if panicked || err != nil {
		fail("rejected")
		return
	}
	write()
	after, _ := e.app.LiquidityKeeper.GetPair(q.ctx, e.appID, e.pairID)
	if after.LastOrderId != before.LastOrderId+1 {
		q.e.t.Fatalf("order id: %d -> %d", before.LastOrderId, after.LastOrderId)
	}
	o, found := e.app.LiquidityKeeper.GetOrder(q.ctx, e.appID, e.pairID, after.LastOrderId)
	if !found {
		q.e.t.Fatal("placed order not stored")
	}
	q.tr.Count("k.place:ok")
	q.tr.Line("amm.k.place", d, c05Raw(price), amt.String(), strconv.FormatInt(o.ExpireAt.Unix(), 10), "ok",
		u(o.Id), c05Raw(o.Price), o.OfferCoin.Amount.String(), u(o.BatchId))
}

// endBlock runs the real EndBlocker, dumps the stored orders, then the real BeginBlocker of the next block
func (q *c05kSeq) endBlock() {
	e := q.e
	k := e.app.LiquidityKeeper
	panicked, msg := try(func() { liquidity.EndBlocker(q.ctx, k, e.app.AssetKeeper) })
	if panicked {
		q.tr.Count("k.batch:panic")
		q.tr.Line("amm.k.batch", strconv.FormatInt(q.now, 10), "panic:"+strings.ReplaceAll(msg, "\t", " "), "-", "")
	} else {
		var ss []string
		nOpenNeg, nPartial := 0, 0
		_ = k.IterateOrdersByPair(q.ctx, e.appID, e.pairID, func(o liqtypes.Order) (bool, error) {
			ss = append(ss, u(o.Id)+":"+o.OpenAmount.String()+":"+o.RemainingOfferCoin.Amount.String()+":"+
				o.ReceivedCoin.Amount.String()+":"+strconv.Itoa(int(o.Status)))
			if o.OpenAmount.IsNegative() {
				nOpenNeg++
			}
			if o.Status == liqtypes.OrderStatusPartiallyMatched {
				nPartial++
				if o.Direction == liqtypes.OrderDirectionBuy && o.RemainingOfferCoin.Amount.ToLegacyDec().QuoTruncate(o.Price).TruncateInt().GT(o.OpenAmount) {
					q.tr.Count("k.carried-buy-filled-below-limit") // the remaining offer coin buys more than what is open
				}
			}
			return false, nil
		})
		pair, _ := k.GetPair(q.ctx, e.appID, e.pairID)
		lp := "none"
		if pair.LastPrice != nil {
			lp = c05Raw(*pair.LastPrice)
		}
		if nPartial > 0 {
			q.tr.Count("k.batch:with-partially-matched")
		}
		if nOpenNeg > 0 {
			q.tr.Count("k.batch:open-negative(stat)")
		}
		q.tr.Count("k.batch:ok")
		q.tr.Line("amm.k.batch", strconv.FormatInt(q.now, 10), lp, u(pair.CurrentBatchId), strings.Join(ss, ";"))
	}
	q.height++
	q.now += 5
	q.ctx = q.ctx.WithBlockHeight(q.height).WithBlockTime(time.Unix(q.now, 0).UTC())
	try(func() { liquidity.BeginBlocker(q.ctx, k, e.app.AssetKeeper) })
}

func TestC05Keeper(t *testing.T) {
	tr := OpenTrace(t, "c05k.trace")
	defer tr.Close(t)
	rng := NewRng(seed())
	e := c05kNewEnv(t)
	dec := c05Dec
	hour := time.Hour

	// ---- corpus: a carried-over buy, partially filled at a price better than its limit, then plenty of sell liquidity ----------
	{
		q := e.begin(tr)
		q.place(1, true, dec("1.0"), sdkmath.NewInt(100), 0)
		q.place(2, false, dec("1.0"), sdkmath.NewInt(100), 0)
		q.endBlock() // last price 1.0
		q.place(3, true, dec("1.1"), sdkmath.NewInt(1000), hour)
		q.place(4, false, dec("1.0"), sdkmath.NewInt(600), 0)
		q.endBlock() // buy filled 600 at 1.0: 400 open, 500 quote left (buys 454 at 1.1)
		q.place(5, false, dec("1.0"), sdkmath.NewInt(1000), 0)
		q.endBlock() // the buy may take only its 400 open units
		q.endBlock()
	}
	// the mirror image on the sell side, and the first batch of a pair trading away from the limits
	{
		q := e.begin(tr)
		q.place(1, false, dec("0.9"), sdkmath.NewInt(5000), hour)
		q.place(2, true, dec("1.0"), sdkmath.NewInt(2000), 0)
		q.endBlock()
		q.place(3, true, dec("1.05"), sdkmath.NewInt(10000), hour)
		q.endBlock()
		q.place(4, false, dec("0.95"), sdkmath.NewInt(20000), 0)
		q.endBlock()
		q.place(1, false, dec("0.950049"), sdkmath.NewInt(3000), hour) // between two ticks: a sell is fitted UP
		q.place(2, true, dec("0.950051"), sdkmath.NewInt(3000), hour)  // a buy DOWN
		q.endBlock()
	}

	// ---- corpus: market orders (limit = last price ± 10 % on the grid) and MM ladders, re-placed (previous ones canceled) ------
	{
		q := e.begin(tr)
		q.placeMarket(1, true, sdkmath.NewInt(1000), 0) // no last price yet: rejected
		q.place(1, true, dec("1.0"), sdkmath.NewInt(100), 0)
		q.place(2, false, dec("1.0"), sdkmath.NewInt(100), 0)
		q.endBlock() // last price 1.0
		q.placeMarket(3, true, sdkmath.NewInt(1000), hour)  // stored with limit 1.1
		q.placeMarket(4, false, sdkmath.NewInt(700), hour)  // stored with limit 0.9: both cross, trade at 1.0
		q.placeMM(1, c05kLadder(e.prec, amm.TickToIndex(dec("1.0"), e.prec), 300, true, sdkmath.NewInt(100000)),
			c05kLadder(e.prec, amm.TickToIndex(dec("1.0"), e.prec), 300, false, sdkmath.NewInt(100003)), hour)
		q.placeMM(1, nil, c05kLadder(e.prec, amm.TickToIndex(dec("1.0"), e.prec), 5, false, sdkmath.NewInt(5000)), hour) // same batch: rejected
		q.endBlock()
		q.place(5, true, dec("1.02"), sdkmath.NewInt(30000), 0) // eats into the MM sell ladder
		q.endBlock()
		q.placeMM(1, c05kLadder(e.prec, amm.TickToIndex(dec("1.01"), e.prec), 1, true, sdkmath.NewInt(999)), nil, hour) // cancels the first ladder
		q.placeMarket(2, false, sdkmath.NewInt(50000), 0)
		q.endBlock()
		q.endBlock()
	}

	// ---- corpus (seed s118): a resting buy with a TIGHT remainder takes two fills on different sell ticks in a price-increasing batch
	{
		q := e.begin(tr)
		q.place(1, true, dec("0.4998"), sdkmath.NewInt(1000), 0)
		q.place(2, false, dec("0.4998"), sdkmath.NewInt(1000), 0)
		q.endBlock() // last price 0.4998
		q.place(3, true, dec("0.5"), sdkmath.NewInt(10000), hour) // offer 5000
		q.place(4, false, dec("0.4998"), sdkmath.NewInt(1001), 0)
		q.endBlock() // filled 1001 @ 0.4998: paid 501, 4499 left for 8999 open
		q.place(5, false, dec("0.4999"), sdkmath.NewInt(201), 0)
		q.place(2, false, dec("0.5"), sdkmath.NewInt(9000), 0)
		q.endBlock() // 201 @ 0.4999 (101) then at most 8796 @ 0.5 (4398): 4499 in all
		q.endBlock()
	}
	// directed: carried-over buy whose remaining offer coin is (almost) exactly what its open amount costs, then two sell ticks
	for s := 0; s < scale(150, 3000); s++ {
		q := e.begin(tr)
		lo := amm.TickToIndex(dec("0.001"), e.prec)
		hi := amm.TickToIndex(dec("1000"), e.prec)
		c := lo + rng.Intn(hi-lo+1)
		gapLo := 1 + rng.Intn(3)
		P, p1, p0 := amm.TickFromIndex(c, e.prec), amm.TickFromIndex(c-1, e.prec), amm.TickFromIndex(c-1-gapLo, e.prec)
		unit := c05UnitAmount(P)
		mul := func(k int) sdkmath.Int { return unit.MulRaw(int64(k)).AddRaw(int64(rng.Intn(3))) }
		q.place(1, true, p0, mul(1000), 0)
		q.place(2, false, p0, mul(1000), 0)
		q.endBlock() // last price p0
		B := mul(5000 + rng.Intn(20000))
		q.place(3, true, P, B, hour)
		q.place(4, false, p0, mul(110+rng.Intn(3000)), 0)
		q.endBlock() // partially filled below its limit: the saving is less than a few quote units
		q.place(5, false, p1, mul(101+rng.Intn(200)), 0)
		if rng.Chance(50) {
			q.place(1, false, p1, mul(101+rng.Intn(200)), 0)
		}
		q.place(2, false, P, B, 0)
		q.endBlock() // price-increasing batch: the buy is filled on the p1 tick and on the P tick
		q.endBlock()
		tr.Count("k.directed:tight-remainder-two-ticks")
	}

	seqs := scale(2000, 20000)
	for s := 0; s < seqs; s++ {
		q := e.begin(tr)
		// a market around p0 on the tick grid of the pair's precision
		lo := amm.TickToIndex(dec("0.0001"), e.prec)
		hi := amm.TickToIndex(dec("10000"), e.prec)
		center := lo + rng.Intn(hi-lo+1)
		if rng.Chance(40) {
			center = amm.TickToIndex(dec("1"), e.prec) + rng.Intn(2000) - 1000
		}
		tick := func(d int) sdkmath.LegacyDec { return amm.TickFromIndex(center+d, e.prec) }
		unit := c05UnitAmount(tick(0)) // amount worth one quote unit
		amount := func() sdkmath.Int {
			var a sdkmath.Int
			switch rng.Intn(6) {
			case 0:
				a = sdkmath.NewInt(int64(100 + rng.Intn(300)))
			case 1:
				a = unit.MulRaw(int64(100 + rng.Intn(50))).AddRaw(int64(rng.Intn(3))) // price × amount around the minimum of 100 quote units
			case 2:
				a = c05Pow10(6 + rng.Intn(14)).MulRaw(int64(1 + rng.Intn(9)))
			default:
				a = sdkmath.NewInt(int64(100 + rng.Intn(200000)))
			}
			if a.LT(sdkmath.NewInt(100)) {
				a = sdkmath.NewInt(100)
			}
			return a
		}
		life := func() time.Duration {
			switch rng.Intn(5) {
			case 0:
				return 0
			case 1:
				return time.Duration(5*(1+rng.Intn(3))) * time.Second // expires after one to three blocks
			default:
				return hour
			}
		}
		nb := 3 + rng.Intn(6)
		mode := rng.Intn(4) // 0 mixed; 1 buy carried over, sells drip in at lower prices; 2 mirror; 3 both sides deep
		for b := 0; b < nb; b++ {
			n := rng.Intn(4)
			if b == 0 && n == 0 {
				n = 2
			}
			for i := 0; i < n; i++ {
				buy := rng.Chance(50)
				var d int
				switch {
				case mode == 1 && b <= 1 && i == 0:
					buy, d = true, 20+rng.Intn(300) // generous limit, long life: will be filled at better prices
				case mode == 1:
					buy, d = rng.Chance(15), -rng.Intn(30)
				case mode == 2 && b <= 1 && i == 0:
					buy, d = false, -(20 + rng.Intn(300))
				case mode == 2:
					buy, d = !rng.Chance(15), rng.Intn(30)
				default:
					d = rng.Intn(61) - 30
					if buy == rng.Chance(70) {
						if d < 0 {
							d = -d
						}
					}
				}
				l := life()
				if (mode == 1 || mode == 2) && b <= 1 && i == 0 {
					l = hour
				}
				price := tick(d)
				if rng.Chance(30) { // a message price between two ticks: fitted down for a buy, up for a sell
					gap := tick(d + 1).Sub(price)
					price = price.Add(gap.MulInt64(int64(1 + rng.Intn(9))).QuoInt64(10))
					tr.Count("k.place:off-grid-price")
				}
				switch rng.Intn(60) {
				case 0: // far outside the price limits of the pair (rejected once there is a last price)
					price = tick(d + 3000 - 6000*rng.Intn(2))
					tr.Count("k.place:far-price")
				case 1: // a lifespan beyond MaxOrderLifespan: rejected
					l = 48 * hour
					tr.Count("k.place:too-long-lifespan")
				}
				q.place(1+rng.Intn(5), buy, price, amount(), l)
			}
			if rng.Chance(30) {
				q.placeMarket(1+rng.Intn(5), rng.Chance(50), amount(), life())
			}
			if rng.Chance(25) {
				var bs, ss *c05kSide
				w := []int{1, 5, 30, 200}[rng.Intn(4)]
				c := center + rng.Intn(21) - 10
				if rng.Chance(70) {
					bs = c05kLadder(e.prec, c, w, true, amount())
				}
				if bs == nil || rng.Chance(70) {
					ss = c05kLadder(e.prec, c, w, false, amount())
				}
				switch rng.Intn(25) {
				case 0: // an end of the range between two ticks: ErrPriceNotOnTicks
					side := ss
					if side == nil {
						side = bs
					}
					side.min = side.min.Add(sdkmath.LegacyNewDecWithPrec(1, 18))
					tr.Count("k.mm:off-grid-end")
				case 1: // a range far outside the price limits: ErrPriceOutOfRange once there is a last price
					if bs != nil {
						bs = c05kLadder(e.prec, c-4000, w, true, bs.amt)
					} else {
						ss = c05kLadder(e.prec, c+4000, w, false, ss.amt)
					}
					tr.Count("k.mm:far-range")
				}
				q.placeMM(1+rng.Intn(3), bs, ss, life())
				if rng.Chance(10) { // a second MM order of the same orderer in the same batch: ErrSameBatch
					q.placeMM(1+rng.Intn(3), bs, ss, life())
				}
			}
			q.endBlock()
		}
	}
}
