//go:build verif

package harness

// Per-item granularity of the hooks whose units are "one app's …" (x/liquidity/abci.go), checked INDEPENDENTLY of how the
// blocker cuts its work into ApplyFuncIfNoError units.
//
// liquidity.BeginBlocker / EndBlocker take the asset keeper as an interface argument. The harness hands them a keeper whose
// GetApps returns a chosen subset of the apps; everything else is the real keeper. So "the work of app i" is the REAL
// blocker run on the one-app list [i], and for every subset P of the apps the reference state ref(P) is the real blocker
// run for the apps of P one after the other (metamorphic relation `blocker_splits_per_item` of Props/C15.lean). Then
//
//   * fault-free:          blocker(all apps)            must equal ref(all apps that do not fail by themselves)
//   * fault in app k:      blocker(all apps) with the fault must equal ref(all apps but k)
//
// A fault in app k is (a) natural — app k is poisoned with user messages only (a never-traded pool's pair whose swap-fee
// collector address received coins: nil LastPrice dereference at heights divisible by 150; completed orders left in the
// store: ExecuteRequests panics) — or (b) injected at the j-th store access of app k's work. The accesses of app k are
// found without looking at units: the one-app run of app i (in the state the apps before it leave) makes n_i accesses
// inside wrappers, so in the full run the accesses N_(k-1) … N_k - 1 made inside wrappers belong to app k.
//
// The real result is classified by comparing its full store dump with ref(P) for every P (≤ 3 apps ⇒ ≤ 8 subsets): the
// line reports WHICH apps are visible as processed. One wrapper around the whole loop (seed s99) makes a fault in app k
// roll back the apps before it and skip the apps after it: observed = none, expected = all but k.
//
// Trace line:
//   hooks.items.single scenario blocker nItems k kind j returned natFail(bits) observed(bits | ?) decomposes detail
//     k = 1-based position of the faulted app (0 = no fault), kind ∈ none | natural | inject, natFail = apps whose one-app
//     run reports failure by itself, observed = apps visible as processed, decomposes = fault-free full run equals the
//     one-app runs in sequence

import (
	"fmt"
	"strconv"
	"strings"
	"testing"

	sdk "github.com/cosmos/cosmos-sdk/types"
	banktypes "github.com/cosmos/cosmos-sdk/x/bank/types"

	chain "github.com/comdex-official/comdex/app"
	assettypes "github.com/comdex-official/comdex/x/asset/types"
	"github.com/comdex-official/comdex/x/liquidity"
	liqexpected "github.com/comdex-official/comdex/x/liquidity/expected"
	liquiditytypes "github.com/comdex-official/comdex/x/liquidity/types"
)

// c15AppsOnly: the real asset keeper, GetApps restricted to a set of app ids (nil = all).
type c15AppsOnly struct {
	liqexpected.AssetKeeper
	ids map[uint64]bool
}

func (a c15AppsOnly) GetApps(ctx sdk.Context) ([]assettypes.AppData, bool) {
	all, found := a.AssetKeeper.GetApps(ctx)
	if !found || a.ids == nil {
		return all, found
	}
	var out []assettypes.AppData
	for _, x := range all {
		if a.ids[x.Id] {
			out = append(out, x)
		}
	}
	return out, len(out) > 0
}

// c15LiqBlocker: the real liquidity blocker `kind` for the given apps (nil = all), at the height of the context.
func c15LiqBlocker(kind string, ids []uint64) c15Blocker {
	var set map[uint64]bool
	if ids != nil {
		set = map[uint64]bool{}
		for _, i := range ids {
			set[i] = true
		}
	}
	return c15Blocker{kind, func(a *chain.App, c sdk.Context) {
		ak := c15AppsOnly{a.AssetKeeper, set}
		if kind == "liquidity.EndBlocker" {
			liquidity.EndBlocker(c, a.LiquidityKeeper, ak)
		} else {
			liquidity.BeginBlocker(c, a.LiquidityKeeper, ak)
		}
	}}
}

func c15OwnSum(us []c15UnitRec) int {
	n := 0
	for _, u := range us {
		n += u.own
	}
	return n
}

func c15AnyTopFailed(us []c15UnitRec) bool {
	for _, u := range us {
		if u.parent == 0 && !u.committed {
			return true
		}
	}
	return false
}

func c15MaskBits(mask, n int) string {
	var sb strings.Builder
	for i := 0; i < n; i++ {
		if mask&(1<<i) != 0 {
			sb.WriteByte('1')
		} else {
			sb.WriteByte('0')
		}
	}
	return sb.String()
}

func c15Pop(x int) int {
	n := 0
	for ; x != 0; x &= x - 1 {
		n++
	}
	return n
}

// itemsCampaign: see the header. ksPerApp = number of injected faults per app (0 = every access).
func (w *c15World) itemsCampaign(scen string, state sdk.Context, kind string, ksPerApp int) {
	apps, _ := w.app.AssetKeeper.GetApps(state)
	n := len(apps)
	if n == 0 || n > 4 {
		w.t.Fatalf("c15 items: %d apps", n)
	}
	ids := make([]uint64, n)
	for i, a := range apps {
		ids[i] = a.Id
	}
	full := c15LiqBlocker(kind, nil)
	tag := kind + "|" + scen
	line := func(k int, fk string, j int, returned bool, natFail int, observed string, decomposes bool, detail string) {
		w.tr.Line("hooks.items.single", scen, kind, strconv.Itoa(n), strconv.Itoa(k), fk, strconv.Itoa(j), c15Ret(returned),
			c15MaskBits(natFail, n), observed, c15B(decomposes), detail)
		w.tr.Count("items-lines")
		w.tr.Count("items:" + fk)
	}
	base := w.run(state, full, 0, 0, false)
	if !base.returned {
		w.panics = append(w.panics, scen+" "+kind+": "+base.msg)
		line(0, "none", 0, false, 0, "?", false, "the blocker panicked with no fault")
		return
	}
	// the one-app runs in sequence: accesses inside wrappers per app, apps that fail by themselves
	st := state
	acc := make([]int, n)
	natFail := 0
	for i := range ids {
		r := w.run(st, c15LiqBlocker(kind, ids[i:i+1]), 0, 0, false)
		if !r.returned {
			w.panics = append(w.panics, fmt.Sprintf("%s %s app %d alone: %s", scen, kind, ids[i], r.msg))
			line(i+1, "natural", 0, false, natFail, "?", false, "the one-app run panicked")
			return
		}
		acc[i] = c15OwnSum(r.units)
		if c15AnyTopFailed(r.units) {
			natFail |= 1 << i
			w.tr.Count("items-natural-failure:" + tag)
		}
		st = r.ctx
	}
	seqDump := c15DumpState(w.app, w.stores, st)
	total := 0
	for _, a := range acc {
		total += a
	}
	decomposes := len(c15DumpDiff(base.dump, seqDump)) == 0 && c15OwnSum(base.units) == total
	// references: the apps of P processed one after the other, for every subset P
	refs := make([]c15Dump, 1<<n)
	for mask := 0; mask < 1<<n; mask++ {
		st := state
		for i := range ids {
			if mask&(1<<i) != 0 {
				st = w.run(st, c15LiqBlocker(kind, ids[i:i+1]), 0, 0, false).ctx
			}
		}
		refs[mask] = c15DumpState(w.app, w.stores, st)
	}
	effect := 0 // apps whose work is visible in the state at all
	for i := range ids {
		if len(c15DumpDiff(refs[1<<i], refs[0])) > 0 {
			effect |= 1 << i
		}
	}
	w.tr.Stats["items-apps-with-visible-work:"+tag] = c15Pop(effect)
	allMask := 1<<n - 1
	classify := func(d c15Dump, expected int) (string, string) {
		order := []int{expected}
		for p := n; p >= 0; p-- {
			for m := 0; m < 1<<n; m++ {
				if c15Pop(m) == p && m != expected {
					order = append(order, m)
				}
			}
		}
		for _, m := range order {
			if len(c15DumpDiff(d, refs[m])) == 0 {
				// apps without any visible work, and apps that fail by themselves, look the same in every subset: they take
				// the expected value
				dc := (^effect | natFail) & allMask
				return c15MaskBits((m&^dc)|(expected&dc), n), ""
			}
		}
		return "?", strings.Join(c15DumpDiff(d, refs[expected]), ",")
	}
	obs, det := classify(base.dump, allMask&^natFail)
	fk := "none"
	if natFail != 0 {
		fk = "natural"
	}
	line(0, fk, 0, true, natFail, obs, decomposes, det)
	if !decomposes {
		w.tr.Count("items-not-decomposable:" + tag)
		return
	}
	// injected faults, app by app
	off := 0
	for k := range ids {
		nk := acc[k]
		var js []int
		if ksPerApp <= 0 || nk <= ksPerApp {
			for j := 0; j < nk; j++ {
				js = append(js, j)
			}
		} else {
			js = append(js, 0)
			o := int(w.rng.U64() % uint64(nk))
			for x := 0; x < ksPerApp-2; x++ {
				js = append(js, (o+x*nk/(ksPerApp-2))%nk)
			}
			js = append(js, nk-1)
		}
		for _, j := range js {
			r := w.runRec(state, full, &c15Rec{useGlobal: true, faultGlobal: off + j})
			if !r.injected {
				w.t.Errorf("c15 items: %s %s app %d access %d: fault not injected", scen, kind, ids[k], j)
				continue
			}
			if !r.returned {
				w.tr.Count("fault:escaped-panic")
			}
			obs, det := classify(r.dump, allMask&^natFail&^(1<<k))
			line(k+1, "inject", j, r.returned, natFail, obs, true, det)
			w.tr.Count("items-faults:" + kind)
		}
		off += nk
	}
}

// ---------------------------------------------------------------------------------------------------------------
// worlds: nApps apps, each with its own pair (ucmdx/ucmst), pool, pending deposits and resting / crossing orders

func c15Next(ctx sdk.Context, mult int64) sdk.Context {
	return ctx.WithBlockHeight((ctx.BlockHeight()/mult + 1) * mult)
}

func (w *c15World) setupLiqMulti(nApps int) [][]sdk.AccAddress {
	ak := w.app.AssetKeeper
	for _, a := range []assettypes.Asset{
		{Name: "CMDX", Denom: "ucmdx", Decimals: sdk.NewInt(1000000), IsOnChain: true, IsCdpMintable: true, IsOraclePriceRequired: true},
		{Name: "CMST", Denom: "ucmst", Decimals: sdk.NewInt(1000000), IsOnChain: true, IsCdpMintable: true, IsOraclePriceRequired: true},
		{Name: "HARBOR", Denom: "uharbor", Decimals: sdk.NewInt(1000000), IsOnChain: true, IsCdpMintable: true},
	} {
		w.must(ak.AddAssetRecords(w.ctx, a), "asset "+a.Name)
	}
	names := []string{"harbor", "commodo", "cswap", "fourth"}
	var users [][]sdk.AccAddress
	for a := 0; a < nApps; a++ {
		w.must(ak.AddAppRecords(w.ctx, assettypes.AppData{Name: names[a], ShortName: names[a][:3], MinGovDeposit: sdk.NewInt(0)}), "app")
		var us []sdk.AccAddress
		for i := 0; i < 3+a%2; i++ {
			us = append(us, c15Addr(300+10*a+i))
		}
		users = append(users, us)
		w.setupLiquidity(uint64(a+1), "ucmdx", "ucmst", us)
	}
	return users
}

// poisonApp: user messages only. A second pair (uharbor/ucmst) and pool of the app that never trades, and a bank transfer
// of ucmst to that pair's swap-fee collector address (x/liquidity/keeper/swap.go:969-999).
func (w *c15World) poisonApp(appID uint64, creator sdk.AccAddress) {
	params, err := w.app.LiquidityKeeper.GetGenericParams(w.ctx, appID)
	w.must(err, "generic params")
	for _, c := range params.PairCreationFee {
		w.fund(creator, c.Denom, c.Amount.Int64())
	}
	for _, c := range params.PoolCreationFee {
		w.fund(creator, c.Denom, c.Amount.Int64())
	}
	w.must(w.deliver(liquiditytypes.NewMsgCreatePair(appID, creator, "uharbor", "ucmst")), "poison: create pair")
	pairID := w.app.LiquidityKeeper.GetLastPairID(w.ctx, appID)
	w.fund(creator, "uharbor", 20000000)
	w.fund(creator, "ucmst", 20000000)
	w.must(w.deliver(liquiditytypes.NewMsgCreatePool(appID, creator, pairID, sdk.NewCoins(sdk.NewCoin("uharbor", sdk.NewInt(10000000)), sdk.NewCoin("ucmst", sdk.NewInt(10000000))))), "poison: create pool")
	pair, found := w.app.LiquidityKeeper.GetPair(w.ctx, appID, pairID)
	if !found {
		w.t.Fatal("poison: pair missing")
	}
	w.must(w.deliver(banktypes.NewMsgSend(creator, pair.GetSwapFeeCollectorAddress(), sdk.NewCoins(sdk.NewCoin("ucmst", sdk.NewInt(1000000))))), "poison: send")
	w.tr.Count("fixture:liquidity.poisoned-app")
}

func c15ItemsCampaign(w0 *c15World, nApps int, ks int) {
	tr := w0.tr
	mk := func() (*c15World, [][]sdk.AccAddress) {
		w := c15NewWorld(w0.t, tr, 2)
		us := w.setupLiqMulti(nApps)
		w.advance(6, 1)
		return w, us
	}
	pre := fmt.Sprintf("apps%d", nApps)
	// ---- healthy history: pending requests → executed → cleaned up; every state under the per-app fault campaign ------
	{
		w, us := mk()
		w.itemsCampaign(pre+".pending", w.ctx, "liquidity.EndBlocker", ks)
		w.itemsCampaign(pre+".pending", w.ctx, "liquidity.BeginBlocker", ks)
		w.apply("liquidity.EndBlocker")
		w.advance(6, 1)
		w.itemsCampaign(pre+".executed", w.ctx, "liquidity.BeginBlocker", ks)
		w.itemsCampaign(pre+".executed@150", c15Next(w.ctx, 150), "liquidity.BeginBlocker", ks)
		w.apply("liquidity.BeginBlocker")
		for a := range us {
			w.liquidityFollowUp(uint64(a+1), "ucmdx", "ucmst", us[a])
		}
		w.itemsCampaign(pre+".second-batch", w.ctx, "liquidity.EndBlocker", ks)
		w.apply("liquidity.EndBlocker")
		w.advance(6, 1)
		w.itemsCampaign(pre+".second-batch-executed", w.ctx, "liquidity.BeginBlocker", ks)
		w.itemsCampaign(pre+".second-batch-executed@150", c15Next(w.ctx, 150), "liquidity.BeginBlocker", ks)
		w0.panics = append(w0.panics, w.panics...)
	}
	// ---- app k poisoned by user messages (every position k) -----------------------------------------------------------
	for k := 1; k <= nApps; k++ {
		w, us := mk()
		w.apply("liquidity.EndBlocker")
		w.advance(6, 1)
		w.poisonApp(uint64(k), us[k-1][0])
		scen := fmt.Sprintf("%s.poison%d", pre, k)
		// an ordinary height: the poison is dormant
		w.itemsCampaign(scen+".dormant", w.ctx, "liquidity.BeginBlocker", ks)
		// a height divisible by 150: app k's clean-up unit panics by itself
		w.ctx = c15Next(w.ctx, 150)
		w.itemsCampaign(scen+"@150", w.ctx, "liquidity.BeginBlocker", ks)
		// the chain goes on: the real BeginBlocker (app k rolled back: its finished requests stay), then the EndBlocker of the
		// same block
		w.apply("liquidity.BeginBlocker")
		w.itemsCampaign(scen+"@150.same-block", w.ctx, "liquidity.EndBlocker", ks)
		w.apply("liquidity.EndBlocker")
		w.advance(6, 1)
		w.itemsCampaign(scen+"@151", w.ctx, "liquidity.BeginBlocker", ks)
		w.apply("liquidity.BeginBlocker")
		w.itemsCampaign(scen+"@151", w.ctx, "liquidity.EndBlocker", ks)
		w0.panics = append(w0.panics, w.panics...)
	}
}

// TestC15Items: the per-app campaign alone (development aid; `./check C15` runs it as part of TestC15).
func TestC15Items(t *testing.T) {
	tr := OpenTrace(t, "c15items.trace")
	defer tr.Close(t)
	w0 := &c15World{t: t, tr: tr}
	c15ItemsCampaign(w0, 3, scale(5, 0))
	for _, p := range w0.panics {
		t.Logf("C15 escaping panic: %s", p)
	}
}
