//go:build verif

package harness

// C08 — lending books and LTV. Drives the REAL lend keeper (and the V2 liquidation hand-over) of comdex through
// ValidateBasic + app.MsgServiceRouter().Handler(msg) on a CacheContext that is written back only on success, and
// prints after every operation the full projection the book identities range over (lends, borrows, pool-asset
// totals, balances of users / pool module accounts / reserve, oracle prices). The Lean driver (Drv/Lend.lean)
// replays every line on Model/Lend.lean, compares outcome and state, and evaluates the monitors on the real state.
//
// External values (DESIGN.md §3.4): the lend reward of IterateLends and the increments of IterateBorrow are obtained
// from the real keeper on a throw-away CacheContext immediately before the message is delivered and printed as inputs.

import (
	"fmt"
	"sort"
	"strings"
	"testing"
	"time"

	chain "github.com/comdex-official/comdex/app"
	assettypes "github.com/comdex-official/comdex/x/asset/types"
	"github.com/comdex-official/comdex/x/auctionsV2"
	lendmod "github.com/comdex-official/comdex/x/lend"
	lendkeeper "github.com/comdex-official/comdex/x/lend/keeper"
	abci "github.com/cometbft/cometbft/abci/types"
	auctionsV2types "github.com/comdex-official/comdex/x/auctionsV2/types"
	esmtypes "github.com/comdex-official/comdex/x/esm/types"
	lendtypes "github.com/comdex-official/comdex/x/lend/types"
	liqV2types "github.com/comdex-official/comdex/x/liquidationsV2/types"
	markettypes "github.com/comdex-official/comdex/x/market/types"
	tmproto "github.com/cometbft/cometbft/proto/tendermint/types"
	sdk "github.com/cosmos/cosmos-sdk/types"
	authtypes "github.com/cosmos/cosmos-sdk/x/auth/types"
)

const (
	c08ReserveAcct = 99
	c08AuctionAcct = 98
	c08PoolAcct0   = 100
)

type c08Acct struct {
	num  uint64
	addr sdk.AccAddress
}

type c08Env struct {
	t        *testing.T
	tr       *Trace
	rng      *Rng
	app      *chain.App
	ctx      sdk.Context
	users    []c08Acct
	accts    []c08Acct         // every tracked account (users, pools, reserve, auction)
	userNum  map[string]uint64 // bech32 → user number
	denomID  map[string]uint64
	denomOf  map[uint64]string
	assetIDs []uint64
	base     []uint64 // lendable assets
	poolMod  map[uint64]string
	appOK    uint64
	appBad   uint64
	now      int64
	height   int64
	funder   sdk.AccAddress // untracked account that tops up the liquidation module's app reserve
}

func c08min(a, b int) int {
	if a < b {
		return a
	}
	return b
}

func c08dec(s string) sdk.Dec { return sdk.MustNewDecFromStr(s) }

func (e *c08Env) did(denom string) string { return u(e.denomID[denom]) }

func (e *c08Env) coin(asset uint64, amt sdk.Int) sdk.Coin {
	return sdk.Coin{Denom: e.denomOf[asset], Amount: amt}
}

// ---------------------------------------------------------------------------------------------- fixture

type c08AssetSpec struct {
	name, denom string
	decimals    int64
	twa         uint64
}

func c08Setup(t *testing.T, tr *Trace, rng *Rng, variant int) *c08Env {
	app := chain.Setup(t, false)
	e := &c08Env{t: t, tr: tr, rng: rng, app: app, userNum: map[string]uint64{}, denomID: map[string]uint64{}, denomOf: map[uint64]string{}, poolMod: map[uint64]string{}}
	e.now = 1_700_000_000
	e.height = 10
	e.ctx = app.BaseApp.NewContext(false, tmproto.Header{Height: e.height, Time: time.Unix(e.now, 0).UTC()})
	ctx := e.ctx
	k := app.LendKeeper

	// assets 1-4 lendable, 5-8 their cTokens. Decimals and prices vary with the variant.
	decs := [][4]int64{{1000000, 1000000, 1000000, 1000000}, {1000000, 100000000, 1000000, 1000000}, {1000000, 1000000, 1000000, 100000000}}[variant%3]
	twas := [][4]uint64{{2000000, 1000000, 1000000, 5000000}, {1000000, 1000000, 1000000, 10000000}, {3000000, 700000, 1000000, 2000000}}[(variant/3)%3]
	specs := []c08AssetSpec{
		{"ASSETONE", "uasset1", decs[0], twas[0]}, {"ASSETTWO", "uasset2", decs[1], twas[1]},
		{"ASSETTHREE", "uasset3", decs[2], twas[2]}, {"ASSETFOUR", "uasset4", decs[3], twas[3]},
		{"CASSETONE", "ucasset1", decs[0], 0}, {"CASSETTWO", "ucasset2", decs[1], 0},
		{"CASSETTHRE", "ucasset3", decs[2], 0}, {"CASSETFOUR", "ucasset4", decs[3], 0},
	}
	for _, sp := range specs {
		if err := app.AssetKeeper.AddAssetRecords(ctx, assettypes.Asset{Name: sp.name, Denom: sp.denom, Decimals: sdk.NewInt(sp.decimals), IsOnChain: true, IsOraclePriceRequired: true}); err != nil {
			t.Fatal(err)
		}
	}
	for _, a := range app.AssetKeeper.GetAssets(ctx) {
		e.denomID[a.Denom] = a.Id
		e.denomOf[a.Id] = a.Denom
		e.assetIDs = append(e.assetIDs, a.Id)
	}
	sort.Slice(e.assetIDs, func(i, j int) bool { return e.assetIDs[i] < e.assetIDs[j] })
	id := func(d string) uint64 { return e.denomID[d] }
	a1, a2, a3, a4 := id("uasset1"), id("uasset2"), id("uasset3"), id("uasset4")
	e.base = []uint64{a1, a2, a3, a4}
	for i, sp := range specs[:4] {
		e.setPrice(e.base[i], sp.twa)
	}

	// pools (x/lend/keeper/msg_server_test.go): pool 1 {A1 transit 3, A2 main, A3 transit 2}, pool 2 {A4 main, A1 3, A3 2}
	capBig := sdk.NewDec(5000000000000000000)
	p1 := []*lendtypes.AssetDataPoolMapping{{AssetID: a1, AssetTransitType: 3, SupplyCap: capBig}, {AssetID: a2, AssetTransitType: 1, SupplyCap: sdk.NewDec(1000000000000000000)}, {AssetID: a3, AssetTransitType: 2, SupplyCap: capBig}}
	p2 := []*lendtypes.AssetDataPoolMapping{{AssetID: a4, AssetTransitType: 1, SupplyCap: sdk.NewDec(3000000000000000000)}, {AssetID: a1, AssetTransitType: 3, SupplyCap: capBig}, {AssetID: a3, AssetTransitType: 2, SupplyCap: capBig}}
	if variant%4 == 3 {
		// a tight supply cap on pool 1 / asset 2 so that the cap guard is exercised: cap in USD value units
		p1[1].SupplyCap = sdk.NewDec(40_000_000_000)
	}
	if err := k.AddPoolRecords(ctx, lendtypes.Pool{ModuleName: "cmdx", CPoolName: "CMDX-ATOM-CMST", AssetData: p1}); err != nil {
		t.Fatal(err)
	}
	if err := k.AddPoolRecords(ctx, lendtypes.Pool{ModuleName: "osmo", CPoolName: "OSMO-ATOM-CMST", AssetData: p2}); err != nil {
		t.Fatal(err)
	}
	rate := func(asset uint64, uopt, base, s1, s2 string, stable bool, sb, ss1, ss2, ltv, lt, pen, bonus, rf string, c uint64, isolated bool) {
		err := k.AddAssetRatesParams(ctx, lendtypes.AssetRatesParams{AssetID: asset, UOptimal: c08dec(uopt), Base: c08dec(base), Slope1: c08dec(s1), Slope2: c08dec(s2),
			EnableStableBorrow: stable, StableBase: c08dec(sb), StableSlope1: c08dec(ss1), StableSlope2: c08dec(ss2), Ltv: c08dec(ltv), LiquidationThreshold: c08dec(lt),
			LiquidationPenalty: c08dec(pen), LiquidationBonus: c08dec(bonus), ReserveFactor: c08dec(rf), CAssetID: c, IsIsolated: isolated,
			ELtv: sdk.ZeroDec(), ELiquidationThreshold: sdk.ZeroDec(), ELiquidationPenalty: sdk.ZeroDec()})
		if err != nil {
			t.Fatal(err)
		}
		if isolated {
			// AddAssetRatesParams (the single-record proposal handler) drops IsIsolated; the combined proposal AddAssetRatesPoolPairs
			// stores it — store the record the way that handler does
			r, _ := k.GetAssetRatesParams(ctx, asset)
			r.IsIsolated = true
			k.SetAssetRatesParams(ctx, r)
		}
	}
	// (liquidation bonus different from the liquidation penalty: the fee of the locked vault and the penalty of the close read the penalty)
	rate(a3, "0.8", "0.002", "0.06", "0.6", true, "0.04", "0.04", "0.06", "0.8", "0.85", "0.025", "0.015", "0.1", id("ucasset3"), false)
	rate(a1, "0.75", "0.002", "0.07", "1.25", false, "0.0", "0.0", "0.0", "0.7", "0.75", "0.05", "0.03", "0.2", id("ucasset1"), false)
	rate(a2, "0.5", "0.002", "0.08", "2.0", false, "0.0", "0.0", "0.0", "0.5", "0.55", "0.05", "0.03", "0.2", id("ucasset2"), false)
	rate(a4, "0.65", "0.002", "0.08", "1.5", variant%2 == 1, "0.03", "0.05", "0.07", "0.6", "0.65", "0.05", "0.03", "0.2", id("ucasset4"), variant%5 == 4)

	pair := func(in, out uint64, inter bool, pool uint64) {
		if err := k.AddLendPairsRecords(ctx, lendtypes.Extended_Pair{AssetIn: in, AssetOut: out, IsInterPool: inter, AssetOutPoolID: pool, MinUsdValueLeft: 1000000}); err != nil {
			t.Fatal(err)
		}
	}
	pair(a2, a3, false, 1) // 1
	pair(a2, a1, false, 1) // 2
	pair(a1, a2, false, 1) // 3
	pair(a1, a3, false, 1) // 4
	pair(a3, a2, false, 1) // 5
	pair(a3, a1, false, 1) // 6
	pair(a4, a3, false, 2) // 7
	pair(a4, a1, false, 2) // 8
	pair(a1, a4, false, 2) // 9
	pair(a1, a3, false, 2) // 10
	pair(a3, a4, false, 2) // 11
	pair(a3, a1, false, 2) // 12
	pair(a2, a4, true, 2)  // 13
	pair(a3, a4, true, 2)  // 14
	pair(a1, a4, true, 2)  // 15
	pair(a4, a2, true, 1)  // 16
	pair(a3, a2, true, 1)  // 17
	pair(a1, a2, true, 1)  // 18
	a2p := func(asset, pool uint64, ids ...uint64) {
		if err := k.AddAssetToPair(ctx, lendtypes.AssetToPairMapping{AssetID: asset, PoolID: pool, PairID: ids}); err != nil {
			t.Fatal(err)
		}
	}
	a2p(a1, 1, 3, 4, 15)
	a2p(a2, 1, 1, 2, 13)
	a2p(a3, 1, 5, 6, 14)
	a2p(a4, 2, 7, 8, 16)
	a2p(a1, 2, 9, 10, 18)
	a2p(a3, 2, 11, 12, 17)
	if variant%2 == 0 {
		// e-mode on pair 5 (A3 → A2 in pool 1): higher LTV for the A3 collateral on that pair
		if err := k.AddEModePairs(ctx, lendtypes.EModePairsForProposal{EModePairs: []lendtypes.EModePairs{{PairID: 5, ELtv: c08dec("0.9"), ELiquidationThreshold: c08dec("0.95"), ELiquidationPenalty: c08dec("0.02")}}}); err != nil {
			t.Fatal(err)
		}
	}

	for _, n := range [][2]string{{"cswap", "cswap"}, {"commodo", "cmmdo"}} {
		if err := app.AssetKeeper.AddAppRecords(ctx, assettypes.AppData{Name: n[0], ShortName: n[1], MinGovDeposit: sdk.NewInt(0), GovTimeInSeconds: 0, GenesisToken: []assettypes.MintGenesisToken{}}); err != nil {
			t.Fatal(err)
		}
	}
	apps, _ := app.AssetKeeper.GetApps(ctx)
	for _, a := range apps {
		if a.Name == "commodo" {
			e.appOK = a.Id
		} else {
			e.appBad = a.Id
		}
	}

	// liquidation whitelisting + auction params (x/liquidationsV2/keeper/msg_server_test.go)
	// premium / discount of the Dutch auction: the repository's own fixture (0.1 / 0.1: the collateral is sold at a tenth of the oracle
	// price and runs out, the app reserve has to cover the rest) and two sensible ones (collateral suffices, the rest returns to the owner)
	dp := [][2]string{{"1.2", "0.7"}, {"0.1", "0.1"}, {"1.05", "0.9"}}[(variant/2)%3]
	dutch := liqV2types.DutchAuctionParam{Premium: c08dec(dp[0]), Discount: c08dec(dp[1]), DecrementFactor: sdk.NewInt(1)}
	app.NewliqKeeper.SetLiquidationWhiteListing(ctx, liqV2types.LiquidationWhiteListing{AppId: e.appOK, Initiator: true, IsDutchActivated: true, DutchAuctionParam: &dutch, IsEnglishActivated: false, KeeeperIncentive: c08dec("0.1")})
	app.NewaucKeeper.SetAuctionParams(ctx, auctionsV2types.AuctionParams{AuctionDurationSeconds: 3600, Step: c08dec("0.1"), WithdrawalFee: c08dec("0.0"), ClosingFee: c08dec("0.0"), MinUsdValueLeft: 100000, BidFactor: c08dec("0.1"), LiquidationPenalty: c08dec("0.1"), AuctionBonus: c08dec("0.0")})

	// accounts
	nUsers := 4
	for i := 1; i <= nUsers; i++ {
		addr := make(sdk.AccAddress, 20)
		addr[0] = byte(i)
		addr[19] = 0xC8
		acct := c08Acct{uint64(i), addr}
		e.users = append(e.users, acct)
		e.accts = append(e.accts, acct)
		e.userNum[addr.String()] = uint64(i)
		for _, a := range e.base {
			c := sdk.NewCoins(sdk.NewCoin(e.denomOf[a], sdk.NewInt(10_000_000_000_000)))
			if err := app.BankKeeper.MintCoins(ctx, lendtypes.ModuleName, c); err != nil {
				t.Fatal(err)
			}
			if err := app.BankKeeper.SendCoinsFromModuleToAccount(ctx, lendtypes.ModuleName, addr, c); err != nil {
				t.Fatal(err)
			}
		}
	}
	e.funder = make(sdk.AccAddress, 20)
	e.funder[0], e.funder[19] = 0xF0, 0xC8
	e.accts = append(e.accts, c08Acct{c08AuctionAcct, authtypes.NewModuleAddress(auctionsV2types.ModuleName)})
	e.accts = append(e.accts, c08Acct{c08ReserveAcct, authtypes.NewModuleAddress(lendtypes.ModuleName)})
	for _, p := range k.GetPools(ctx) {
		e.poolMod[p.PoolID] = p.ModuleName
		e.accts = append(e.accts, c08Acct{c08PoolAcct0 + p.PoolID, authtypes.NewModuleAddress(p.ModuleName)})
	}
	sort.Slice(e.accts, func(i, j int) bool { return e.accts[i].num < e.accts[j].num })
	return e
}

func (e *c08Env) setPrice(asset, twa uint64) {
	if twa == 0 {
		e.app.MarketKeeper.SetTwa(e.ctx, markettypes.TimeWeightedAverage{AssetID: asset, ScriptID: 10, Twa: 1, CurrentIndex: 0, IsPriceActive: false, PriceValue: []uint64{1}})
		return
	}
	e.app.MarketKeeper.SetTwa(e.ctx, markettypes.TimeWeightedAverage{AssetID: asset, ScriptID: 10, Twa: twa, CurrentIndex: 0, IsPriceActive: true, PriceValue: []uint64{twa}})
}

// ---------------------------------------------------------------------------------------------- projection

func c08b(b bool) string {
	if b {
		return "1"
	}
	return "0"
}

func (e *c08Env) cfgLines() {
	ctx, k, tr := e.ctx, e.app.LendKeeper, e.tr
	tr.Line("lend.begin", u(c08ReserveAcct), u(c08AuctionAcct))
	for _, a := range e.app.AssetKeeper.GetAssets(ctx) {
		tr.Line("lend.cfg.asset", u(a.Id), a.Decimals.String())
	}
	for _, r := range k.GetAllAssetRatesParams(ctx) {
		tr.Line("lend.cfg.rates", u(r.AssetID), r.Ltv.BigInt().String(), r.ELtv.BigInt().String(), u(r.CAssetID), c08b(r.IsIsolated), c08b(r.EnableStableBorrow),
			r.LiquidationPenalty.BigInt().String(), r.ELiquidationPenalty.BigInt().String())
	}
	for _, p := range k.GetPools(ctx) {
		var ds []string
		for _, d := range p.AssetData {
			ds = append(ds, u(d.AssetID)+":"+u(d.AssetTransitType)+":"+d.SupplyCap.BigInt().String())
		}
		tr.Line("lend.cfg.pool", u(p.PoolID), u(c08PoolAcct0+p.PoolID), strings.Join(ds, ","))
	}
	for _, p := range k.GetLendPairs(ctx) {
		tr.Line("lend.cfg.pair", u(p.Id), u(p.AssetIn), u(p.AssetOut), c08b(p.IsInterPool), u(p.AssetOutPoolID), c08b(p.IsEModeEnabled))
	}
	for _, m := range k.GetAllAssetToPair(ctx) {
		tr.Line("lend.cfg.a2p", u(m.AssetID), u(m.PoolID), joinU(m.PairID))
	}
	apps, _ := e.app.AssetKeeper.GetApps(ctx)
	for _, a := range apps {
		tr.Line("lend.cfg.app", u(a.Id), c08b(a.Name == lendtypes.AppName))
	}
	tr.Line("lend.init", e.state()...)
}

// state returns the eleven projection fields (the last two: reserve book-keeping records, locked vaults of handed-over borrows): counters and block time, lends, borrows, totals, balances, prices, emergency flags,
// accrual state of the borrows, accrual state of the lends.
func (e *c08Env) state() []string {
	ctx, k := e.ctx, e.app.LendKeeper
	var ls, bs, ss, ks, ps []string
	for _, l := range k.GetAllLend(ctx) {
		ls = append(ls, strings.Join([]string{u(l.ID), u(e.userNum[l.Owner]), u(l.PoolID), u(l.AssetID), l.AmountIn.Amount.String(), l.AvailableToBorrow.String(), u(l.AppID)}, ":"))
	}
	for _, b := range k.GetAllBorrow(ctx) {
		res := "0"
		if tr, found := k.GetBorrowInterestTracker(ctx, b.ID); found {
			res = tr.ReservePoolInterest.BigInt().String()
		}
		bs = append(bs, strings.Join([]string{u(b.ID), u(b.LendingID), u(b.PairID), e.did(b.AmountIn.Denom), b.AmountIn.Amount.String(), e.did(b.AmountOut.Denom), b.AmountOut.Amount.String(),
			b.InterestAccumulated.BigInt().String(), c08b(b.IsStableBorrow), c08b(b.IsLiquidated), e.did(b.BridgedAssetAmount.Denom), b.BridgedAssetAmount.Amount.String(), res}, ":"))
	}
	stats := k.GetAllAssetStatsByPoolIDAndAssetID(ctx)
	sort.Slice(stats, func(i, j int) bool {
		if stats[i].PoolID != stats[j].PoolID {
			return stats[i].PoolID < stats[j].PoolID
		}
		return stats[i].AssetID < stats[j].AssetID
	})
	for _, s := range stats {
		ss = append(ss, strings.Join([]string{u(s.PoolID), u(s.AssetID), s.TotalLend.String(), s.TotalBorrowed.String(), s.TotalStableBorrowed.String(), s.TotalInterestAccumulated.String(),
			c08dots(s.LendIds), c08dots(s.BorrowIds)}, ":"))
	}
	for _, a := range e.accts {
		for _, id := range e.assetIDs {
			bal := e.app.BankKeeper.GetBalance(ctx, a.addr, e.denomOf[id]).Amount
			if !bal.IsZero() {
				ks = append(ks, u(a.num)+":"+u(id)+":"+bal.String())
			}
		}
	}
	for _, id := range e.assetIDs {
		if twa, found := e.app.MarketKeeper.GetTwa(ctx, id); found && twa.IsPriceActive {
			ps = append(ps, u(id)+":"+u(twa.Twa))
		}
	}
	// emergency flags: apps whose kill switch is on / pools listed in the depreciation record
	var killed, dep []uint64
	apps, _ := e.app.AssetKeeper.GetApps(ctx)
	for _, a := range apps {
		if ks, found := e.app.EsmKeeper.GetKillSwitchData(ctx, a.Id); found && ks.BreakerEnable {
			killed = append(killed, a.Id)
		}
	}
	var pending, deleted []uint64
	if rec, found := k.GetPoolDepreciateRecords(ctx); found {
		seen := map[uint64]bool{}
		for _, d := range rec.IndividualPoolDepreciate {
			if !seen[d.PoolID] {
				seen[d.PoolID] = true
				dep = append(dep, d.PoolID)
			}
			if !d.IsPoolDepreciated {
				pending = append(pending, d.PoolID) // record order: the block hook's work list
			}
		}
	}
	for id := uint64(1); id <= k.GetPoolID(ctx); id++ {
		if _, found := k.GetPool(ctx, id); !found {
			deleted = append(deleted, id)
		}
	}
	sort.Slice(killed, func(i, j int) bool { return killed[i] < killed[j] })
	sort.Slice(dep, func(i, j int) bool { return dep[i] < dep[j] })
	// accrual state of every position: indices, last interaction time (Unix), stable rate / fractional reward tracker
	var ab, al []string
	for _, b := range k.GetAllBorrow(ctx) {
		ab = append(ab, strings.Join([]string{u(b.ID), b.GlobalIndex.BigInt().String(), b.ReserveGlobalIndex.BigInt().String(), i64(b.LastInteractionTime.Unix()), b.StableBorrowRate.BigInt().String()}, ":"))
	}
	for _, l := range k.GetAllLend(ctx) {
		trk := "0"
		if tr, found := k.GetLendRewardTracker(ctx, l.ID); found {
			trk = tr.RewardsAccumulated.BigInt().String()
		}
		al = append(al, strings.Join([]string{u(l.ID), l.GlobalIndex.BigInt().String(), i64(l.LastInteractionTime.Unix()), trk}, ":"))
	}
	// reserve book-keeping per asset: ReserveBuybackAssetData, AllReserveStats, and the sum of the FundReserveBal entries
	funded := map[uint64]sdk.Int{}
	if fb, found := k.GetFundReserveBal(ctx); found {
		for _, f := range fb.FundReserveBalance {
			if cur, ok := funded[f.AssetID]; ok {
				funded[f.AssetID] = cur.Add(f.AmountIn.Amount)
			} else {
				funded[f.AssetID] = f.AmountIn.Amount
			}
		}
	}
	var rs []string
	for _, id := range e.assetIDs {
		z := sdk.ZeroInt()
		rec := []sdk.Int{z, z, z, z, z, z, z, z}
		if r, found := k.GetReserveBuybackAssetData(ctx, id); found {
			rec[0], rec[1] = r.ReserveAmount, r.BuybackAmount
		}
		if a, found := k.GetAllReserveStatsByAssetID(ctx, id); found {
			rec[2], rec[3], rec[4], rec[5], rec[6] = a.AmountOutFromReserveToLenders, a.AmountOutFromReserveForAuction, a.AmountInFromLiqPenalty, a.AmountInFromRepayments, a.TotalAmountOutToLenders
		}
		if f, ok := funded[id]; ok {
			rec[7] = f
		}
		any := false
		parts := []string{u(id)}
		for _, x := range rec {
			if x.IsNil() {
				x = z
			}
			if !x.IsZero() {
				any = true
			}
			parts = append(parts, x.String())
		}
		if any {
			rs = append(rs, strings.Join(parts, ":"))
		}
	}
	// second-generation locked vaults of handed-over borrows
	var vs []string
	lvs := e.app.NewliqKeeper.GetLockedVaults(ctx)
	sort.Slice(lvs, func(i, j int) bool { return lvs[i].OriginalVaultId < lvs[j].OriginalVaultId })
	for _, lv := range lvs {
		if lv.InitiatorType == "lend" {
			vs = append(vs, strings.Join([]string{u(lv.OriginalVaultId), u(e.userNum[lv.Owner]), lv.TargetDebt.Amount.String(), lv.FeeToBeCollected.String()}, ":"))
		}
	}
	return []string{u(k.GetUserLendIDCounter(ctx)) + "," + u(k.GetUserBorrowIDCounter(ctx)) + "," + i64(ctx.BlockTime().Unix()), strings.Join(ls, "|"), strings.Join(bs, "|"), strings.Join(ss, "|"), strings.Join(ks, "|"), strings.Join(ps, "|"), joinU(killed) + "/" + joinU(dep) + "/" + joinU(pending) + "/" + joinU(deleted), strings.Join(ab, "|"), strings.Join(al, "|"),
		strings.Join(rs, "|"), strings.Join(vs, "|")}
}

// c08dots prints an id list with "." as separator (inside a ":"-separated record)
func c08dots(xs []uint64) string {
	var p []string
	for _, x := range xs {
		p = append(p, u(x))
	}
	return strings.Join(p, ".")
}

// ---------------------------------------------------------------------------------------------- external values

// reward returns newInterestPerInteraction of IterateLends (iter.go:12-40) for the lend on the given context.
func (e *c08Env) reward(ctx sdk.Context, lendID uint64) sdk.Int {
	r, _ := e.rewardRate(ctx, lendID)
	return r
}

// rewardStr is the external input of a lend accrual as printed in the trace: `reward:lendAPR` — the reward is cross-checked, the
// APR (a rate: property C18) is what the model consumes to recompute it.
func (e *c08Env) rewardStr(ctx sdk.Context, lendID uint64) string {
	r, apr := e.rewardRate(ctx, lendID)
	return r.String() + ":" + apr.BigInt().String()
}

func (e *c08Env) rewardRate(ctx sdk.Context, lendID uint64) (sdk.Int, sdk.Dec) {
	k := e.app.LendKeeper
	r := sdk.ZeroInt()
	rate := sdk.ZeroDec()
	try(func() {
		lend, found := k.GetLend(ctx, lendID)
		if !found {
			return
		}
		apr, _ := k.GetLendAPRByAssetIDAndPoolID(ctx, lend.PoolID, lend.AssetID)
		if !apr.IsNil() {
			rate = apr
		}
		per, _, _ := k.CalculateLendReward(ctx, lend.AmountIn.Amount.String(), apr, lend)
		acc := per
		if tr, found := k.GetLendRewardTracker(ctx, lendID); found {
			acc = tr.RewardsAccumulated.Add(per)
		}
		if acc.GTE(sdk.OneDec()) {
			r = acc.TruncateInt()
		}
	})
	return r, rate
}

// extB runs the real IterateBorrow on ctx (the caller passes a throw-away or a running cache) and reports the
// increments it applied to InterestAccumulated and to the reserve-pool tracker, followed by the two RATES it used (borrow APR, reserve
// rate — inputs of the model's own accrual computation): `dI:dR:apr:rr`; "-" when it returned an error, "!:apr:rr" when it panicked.
func (e *c08Env) extB(ctx sdk.Context, borrowID uint64) string {
	k := e.app.LendKeeper
	before, found := k.GetBorrow(ctx, borrowID)
	if !found {
		return "-"
	}
	// the rates IterateBorrow is about to use (exported, read-only): reserve rate (its failure is IterateBorrow's error) and borrow APR
	pair, _ := k.GetLendPair(ctx, before.PairID)
	var rr, apr sdk.Dec
	var rerr error
	if p, _ := try(func() {
		rr, rerr = k.GetReserveRate(ctx, pair.AssetOutPoolID, pair.AssetOut)
		apr, _ = k.GetBorrowAPRByAssetID(ctx, pair.AssetOutPoolID, pair.AssetOut, before.IsStableBorrow)
	}); p || rerr != nil || rr.IsNil() || apr.IsNil() {
		e.tr.Count("ext:reserveRateErr")
		return "-"
	}
	rates := ":" + apr.BigInt().String() + ":" + rr.BigInt().String()
	resBefore := sdk.ZeroDec()
	if tr, f := k.GetBorrowInterestTracker(ctx, borrowID); f {
		resBefore = tr.ReservePoolInterest
	}
	var err error
	panicked, _ := try(func() { _, _, err = k.IterateBorrow(ctx, borrowID) })
	if panicked {
		e.tr.Count("ext:iterBorrowPanic")
		return "!" + rates
	}
	if err != nil {
		e.tr.Count("ext:iterBorrowErr")
		return "-"
	}
	after, _ := k.GetBorrow(ctx, borrowID)
	tr, _ := k.GetBorrowInterestTracker(ctx, borrowID)
	dI := after.InterestAccumulated.Sub(before.InterestAccumulated)
	dR := tr.ReservePoolInterest.Sub(resBefore)
	if dI.IsPositive() {
		e.tr.Count("ext:interest>0")
	}
	return dI.BigInt().String() + ":" + dR.BigInt().String() + rates
}

func (e *c08Env) probe() sdk.Context { c, _ := e.ctx.CacheContext(); return c }

// ---------------------------------------------------------------------------------------------- delivery

// deliver re-enacts baseapp.runMsgs: ValidateBasic, routed handler on a cache context, write back only on success.
func (e *c08Env) deliver(msg sdk.Msg) string {
	if err := msg.ValidateBasic(); err != nil {
		return "err:basic"
	}
	h := e.app.MsgServiceRouter().Handler(msg)
	if h == nil {
		e.t.Fatalf("no handler for %T", msg)
	}
	cctx, write := e.ctx.CacheContext()
	var err error
	panicked, pmsg := try(func() { _, err = h(cctx, msg) })
	if panicked {
		if len(pmsg) > 60 {
			pmsg = pmsg[:60]
		}
		e.tr.Count("panic:" + fmt.Sprintf("%T", msg) + ":" + pmsg)
		return "panic"
	}
	if err != nil {
		m := err.Error()
		if i := strings.LastIndex(m, ": "); i >= 0 {
			m = m[i+2:] // the registered error text, without the wrapped detail
		}
		if len(m) > 48 {
			m = m[:48]
		}
		e.tr.Count("errclass:" + strings.TrimPrefix(fmt.Sprintf("%T", msg), "*types.Msg") + ":" + m)
		return "err"
	}
	write()
	return "ok"
}

func (e *c08Env) emit(name string, outcome string, args ...string) {
	f := append([]string{name}, args...)
	f = append(f, outcome)
	f = append(f, e.state()...)
	if name == "handover" {
		// own trace kind: the liquidation hand-over is a call site of its own (known_findings.d/C08.json ties D19 to it)
		e.tr.Line("lend.handover", f[1:]...)
	} else if name == "beginBlock" {
		// own trace kind: the block hook of x/lend (DeletePoolAndTransferInterest)
		e.tr.Line("lend.beginblock", f[1:]...)
	} else if name == "auctionClose" {
		// own trace kind: the closing bid of the second-generation auction (MsgCloseDutchAuctionForBorrow)
		e.tr.Line("lend.close", f[1:]...)
	} else {
		e.tr.Line("lend.op", f...)
	}
	cls := outcome
	if strings.HasPrefix(outcome, "err") {
		cls = "err"
	}
	e.tr.Count("op:" + name + ":" + cls)
	e.tr.Count("outcome:" + cls)
}

// ---------------------------------------------------------------------------------------------- operations

func (e *c08Env) opLend(usr c08Acct, asset uint64, denom string, amt sdk.Int, pool, app uint64) string {
	k := e.app.LendKeeper
	r := "0:0"
	if id, found := k.GetLendIDForAssetIDPoolID(e.ctx, usr.addr.String(), asset, pool); found && k.HasLendForAddressByAsset(e.ctx, usr.addr.String(), asset, pool) {
		r = e.rewardStr(e.ctx, id)
	}
	out := e.deliver(&lendtypes.MsgLend{Lender: usr.addr.String(), AssetId: asset, Amount: sdk.Coin{Denom: denom, Amount: amt}, PoolId: pool, AppId: app})
	e.emit("lend", out, u(usr.num), u(asset), e.did(denom), amt.String(), u(pool), u(app), r)
	return out
}

func (e *c08Env) opDeposit(usr c08Acct, lendID uint64, denom string, amt sdk.Int) string {
	r := e.rewardStr(e.ctx, lendID)
	out := e.deliver(&lendtypes.MsgDeposit{Lender: usr.addr.String(), LendId: lendID, Amount: sdk.Coin{Denom: denom, Amount: amt}})
	e.emit("deposit", out, u(usr.num), u(lendID), e.did(denom), amt.String(), r)
	return out
}

func (e *c08Env) opWithdraw(usr c08Acct, lendID uint64, denom string, amt sdk.Int) string {
	r := e.rewardStr(e.ctx, lendID)
	out := e.deliver(&lendtypes.MsgWithdraw{Lender: usr.addr.String(), LendId: lendID, Amount: sdk.Coin{Denom: denom, Amount: amt}})
	e.emit("withdraw", out, u(usr.num), u(lendID), e.did(denom), amt.String(), r)
	return out
}

func (e *c08Env) opCloseLend(usr c08Acct, lendID uint64) string {
	r := e.rewardStr(e.ctx, lendID)
	out := e.deliver(&lendtypes.MsgCloseLend{Lender: usr.addr.String(), LendId: lendID})
	e.emit("closeLend", out, u(usr.num), u(lendID), r)
	return out
}

// borrowExt: when the user already borrows on the pair the message becomes DepositDraw: two IterateBorrow calls.
func (e *c08Env) borrowExt(ctx sdk.Context, usr c08Acct, pairID uint64, amountIn sdk.Coin) (string, string) {
	k := e.app.LendKeeper
	e1, e2 := "-", "-"
	try(func() {
		if !k.HasBorrowForAddressByPair(ctx, usr.addr.String(), pairID) {
			return
		}
		id, found := k.GetBorrowIDForAddressByPair(ctx, usr.addr.String(), pairID)
		if !found {
			return
		}
		c := ctx
		e1 = e.extB(c, id) // IterateBorrow inside DepositBorrowAsset
		// the second IterateBorrow (inside DrawAsset) runs on the state DepositBorrowAsset left behind
		c2, _ := ctx.CacheContext()
		if err := k.DepositBorrowAsset(c2, id, usr.addr.String(), amountIn); err == nil {
			e2 = e.extB(c2, id)
		}
	})
	return e1, e2
}

func (e *c08Env) opBorrow(usr c08Acct, lendID, pairID uint64, stable bool, in, out sdk.Coin) string {
	e1, e2 := e.borrowExt(e.probe(), usr, pairID, in)
	res := e.deliver(&lendtypes.MsgBorrow{Borrower: usr.addr.String(), LendId: lendID, PairId: pairID, IsStableBorrow: stable, AmountIn: in, AmountOut: out})
	e.emit("borrow", res, u(usr.num), u(lendID), u(pairID), c08b(stable), e.did(in.Denom), in.Amount.String(), e.did(out.Denom), out.Amount.String(), e1, e2)
	return res
}

func (e *c08Env) opBorrowAlternate(usr c08Acct, asset, pool uint64, in sdk.Coin, pairID uint64, stable bool, out sdk.Coin, app uint64) string {
	k := e.app.LendKeeper
	r := "0:0"
	e1, e2 := "-", "-"
	c := e.probe()
	try(func() {
		if id, found := k.GetLendIDForAssetIDPoolID(c, usr.addr.String(), asset, pool); found && k.HasLendForAddressByAsset(c, usr.addr.String(), asset, pool) {
			r = e.rewardStr(c, id)
			if err := k.DepositAsset(c, usr.addr.String(), id, in); err != nil {
				return
			}
		}
		rates, _ := k.GetAssetRatesParams(c, asset)
		e1, e2 = e.borrowExt(c, usr, pairID, sdk.Coin{Denom: e.denomOf[rates.CAssetID], Amount: in.Amount})
	})
	res := e.deliver(&lendtypes.MsgBorrowAlternate{Lender: usr.addr.String(), AssetId: asset, PoolId: pool, AmountIn: in, PairId: pairID, IsStableBorrow: stable, AmountOut: out, AppId: app})
	e.emit("borrowAlt", res, u(usr.num), u(asset), u(pool), e.did(in.Denom), in.Amount.String(), u(pairID), c08b(stable), e.did(out.Denom), out.Amount.String(), u(app), r, e1, e2)
	return res
}

func (e *c08Env) opDepositBorrow(usr c08Acct, borrowID uint64, c sdk.Coin) string {
	ext := e.extB(e.probe(), borrowID)
	res := e.deliver(&lendtypes.MsgDepositBorrow{Borrower: usr.addr.String(), BorrowId: borrowID, Amount: c})
	e.emit("depositBorrow", res, u(usr.num), u(borrowID), e.did(c.Denom), c.Amount.String(), ext)
	return res
}

func (e *c08Env) opDraw(usr c08Acct, borrowID uint64, c sdk.Coin) string {
	ext := e.extB(e.probe(), borrowID)
	res := e.deliver(&lendtypes.MsgDraw{Borrower: usr.addr.String(), BorrowId: borrowID, Amount: c})
	e.emit("draw", res, u(usr.num), u(borrowID), e.did(c.Denom), c.Amount.String(), ext)
	return res
}

func (e *c08Env) opRepay(usr c08Acct, borrowID uint64, c sdk.Coin) string {
	ext := e.extB(e.probe(), borrowID)
	res := e.deliver(&lendtypes.MsgRepay{Borrower: usr.addr.String(), BorrowId: borrowID, Amount: c})
	e.emit("repay", res, u(usr.num), u(borrowID), e.did(c.Denom), c.Amount.String(), ext)
	return res
}

func (e *c08Env) opCloseBorrow(usr c08Acct, borrowID uint64) string {
	ext := e.extB(e.probe(), borrowID)
	res := e.deliver(&lendtypes.MsgCloseBorrow{Borrower: usr.addr.String(), BorrowId: borrowID})
	e.emit("closeBorrow", res, u(usr.num), u(borrowID), ext)
	return res
}

func (e *c08Env) opRepayWithdraw(usr c08Acct, borrowID uint64) string {
	k := e.app.LendKeeper
	c := e.probe()
	ext := e.extB(c, borrowID)
	r := "0:0"
	c2 := e.probe()
	try(func() {
		b, found := k.GetBorrow(c2, borrowID)
		if !found {
			return
		}
		if err := k.CloseBorrow(c2, usr.addr.String(), borrowID); err == nil {
			r = e.rewardStr(c2, b.LendingID)
		}
	})
	res := e.deliver(&lendtypes.MsgRepayWithdraw{Borrower: usr.addr.String(), BorrowId: borrowID})
	e.emit("repayWithdraw", res, u(usr.num), u(borrowID), ext, r)
	return res
}

func (e *c08Env) opCalc(usr c08Acct) string {
	k := e.app.LendKeeper
	c := e.probe()
	var bparts, lparts []string
	try(func() {
		maps := k.GetUserTotalMappingData(c, usr.addr.String())
		for _, m := range maps {
			for _, bid := range m.BorrowId {
				ext := "-"
				b, found := k.GetBorrow(c, bid)
				if found && !b.IsLiquidated {
					ext = e.extB(c, bid)
				}
				bparts = append(bparts, u(bid)+"="+ext)
			}
		}
		for _, m := range maps {
			lparts = append(lparts, u(m.LendId)+"="+e.rewardStr(c, m.LendId))
			_ = k.MsgCalculateLendRewards(c, usr.addr.String(), m.LendId)
		}
	})
	res := e.deliver(&lendtypes.MsgCalculateInterestAndRewards{Borrower: usr.addr.String()})
	e.emit("calc", res, u(usr.num), strings.Join(bparts, ","), strings.Join(lparts, ","))
	return res
}

func (e *c08Env) opFundModule(usr c08Acct, pool, asset uint64, c sdk.Coin) string {
	res := e.deliver(&lendtypes.MsgFundModuleAccounts{PoolId: pool, AssetId: asset, Lender: usr.addr.String(), Amount: c})
	e.emit("fundModule", res, u(usr.num), u(pool), u(asset), e.did(c.Denom), c.Amount.String())
	return res
}

func (e *c08Env) opFundReserve(usr c08Acct, asset uint64, c sdk.Coin) string {
	res := e.deliver(&lendtypes.MsgFundReserveAccounts{AssetId: asset, Lender: usr.addr.String(), Amount: c})
	e.emit("fundReserve", res, u(usr.num), u(asset), e.did(c.Denom), c.Amount.String())
	return res
}

// opSetKill turns the ESM kill switch of an app on or off (what the esm module stores on a passed proposal).
func (e *c08Env) opSetKill(app uint64, on bool) {
	if err := e.app.EsmKeeper.SetKillSwitchData(e.ctx, esmtypes.KillSwitchParams{AppId: app, BreakerEnable: on}); err != nil {
		e.t.Fatal(err)
	}
	e.emit("setKill", "ok", u(app), c08b(on))
}

// opSetDepreciated lists a pool in the depreciation record (gov proposal handler AddPoolDepreciate); the flag of the entry is
// drawn at random: IsPoolDepreciated only looks at the pool id.
func (e *c08Env) opSetDepreciated(pool uint64) {
	e.opSetDepreciatedFlag(pool, e.rng.Chance(50))
}

func (e *c08Env) opSetDepreciatedFlag(pool uint64, flag bool) {
	err := e.app.LendKeeper.AddPoolDepreciate(e.ctx, lendtypes.PoolDepreciate{IndividualPoolDepreciate: []lendtypes.IndividualPoolDepreciate{{PoolID: pool, IsPoolDepreciated: flag}}})
	if err != nil {
		e.t.Fatal(err)
	}
	e.emit("setDepreciated", "ok", u(pool), c08b(flag))
}

// opMigrate runs the registered store migration 2 → 3 of x/lend (Migrator.Migrate2to3, what an upgrade from consensus version 2
// executes) in the middle of the history and prints the configuration it leaves behind; the state projection must be unchanged.
func (e *c08Env) opMigrate() {
	k := e.app.LendKeeper
	res := "ok"
	var err error
	if p, _ := try(func() { err = lendkeeper.NewMigrator(k).Migrate2to3(e.ctx) }); p {
		res = "panic"
	} else if err != nil {
		res = "err"
	}
	var ps, rs []string
	for _, p := range k.GetLendPairs(e.ctx) {
		ps = append(ps, u(p.Id)+":"+c08tf(p.IsInterPool)+":"+c08tf(p.IsEModeEnabled))
	}
	for _, r := range k.GetAllAssetRatesParams(e.ctx) {
		rs = append(rs, strings.Join([]string{u(r.AssetID), c08tf(r.EnableStableBorrow), c08tf(r.IsIsolated), r.ELtv.BigInt().String(), r.ELiquidationPenalty.BigInt().String(),
			r.Ltv.BigInt().String(), u(r.CAssetID), r.LiquidationPenalty.BigInt().String()}, ":"))
	}
	f := []string{strings.Join(ps, ","), strings.Join(rs, ","), res}
	f = append(f, e.state()...)
	e.tr.Line("lend.migrate", f...)
	e.tr.Count("op:migrate:" + res)
}

func c08tf(b bool) string {
	if b {
		return "true"
	}
	return "false"
}

// opBeginBlock moves to the next block height divisible by 14400 and runs the real BeginBlocker of x/lend
// (DeletePoolAndTransferInterest inside ApplyFuncIfNoError). The outcome class is taken from a probe run of the same call on a
// throw-away cache context (the hook itself swallows error and panic).
func (e *c08Env) opBeginBlock() string {
	e.height = (e.height/14400 + 1) * 14400
	e.now += 6
	e.ctx = e.ctx.WithBlockTime(time.Unix(e.now, 0).UTC()).WithBlockHeight(e.height)
	res := "ok"
	var err error
	if p, _ := try(func() { err = e.app.LendKeeper.DeletePoolAndTransferInterest(e.probe()) }); p {
		res = "panic"
	} else if err != nil {
		res = "err"
	}
	lendmod.BeginBlocker(e.ctx, abci.RequestBeginBlock{}, e.app.LendKeeper)
	e.emit("beginBlock", res)
	return res
}

func (e *c08Env) opSetPrice(asset, twa uint64) {
	e.setPrice(asset, twa)
	e.emit("setPrice", "ok", u(asset), u(twa))
}

// liqRates: the rates CalculateBorrowInterestForLiquidation is about to use for the borrow (inputs of the model's accrual)
func (e *c08Env) liqRates(b lendtypes.BorrowAsset) string {
	k := e.app.LendKeeper
	rates := "-"
	try(func() {
		pair, _ := k.GetLendPair(e.ctx, b.PairID)
		rr, err := k.GetReserveRate(e.ctx, pair.AssetOutPoolID, pair.AssetOut)
		apr, err2 := k.GetBorrowAPRByAssetID(e.ctx, pair.AssetOutPoolID, pair.AssetOut, b.IsStableBorrow)
		if err == nil && err2 == nil {
			rates = apr.BigInt().String() + ":" + rr.BigInt().String()
		}
	})
	return rates
}

// opLiquidate runs the real V2 liquidation of one borrow on a cache context — by the keeper entry point the sweep calls
// (LiquidateIndividualBorrow, via = 0) or by the user message MsgLiquidateInternalKeeper (via = 1: ValidateBasic + routed handler);
// a line is emitted only when the borrow was actually handed over (the decision itself is property C09).
func (e *c08Env) opLiquidate(borrowID uint64, via int) bool {
	k := e.app.LendKeeper
	before, found := k.GetBorrow(e.ctx, borrowID)
	if !found || before.IsLiquidated {
		return false
	}
	rates := e.liqRates(before)
	cctx, write := e.ctx.CacheContext()
	var err error
	var panicked bool
	var pmsg string
	if via == 1 {
		msg := liqV2types.NewMsgLiquidateInternalKeeperRequest(e.user().addr, 1, borrowID)
		if verr := msg.ValidateBasic(); verr != nil {
			e.tr.Count("liquidate:msg:basic")
			return false
		}
		h := e.app.MsgServiceRouter().Handler(msg)
		panicked, pmsg = try(func() { _, err = h(cctx, msg) })
		e.tr.Count("liquidate:viaMsg")
	} else {
		panicked, pmsg = try(func() { err = e.app.NewliqKeeper.LiquidateIndividualBorrow(cctx, borrowID, "", false) })
	}
	if panicked || err != nil {
		if err != nil {
			pmsg = err.Error()
		}
		if len(pmsg) > 70 {
			pmsg = pmsg[:70]
		}
		e.tr.Count("liquidate:fail:" + pmsg)
		return false
	}
	after, found := k.GetBorrow(cctx, borrowID)
	if !found || !after.IsLiquidated {
		e.tr.Count("liquidate:healthy")
		return false
	}
	write()
	e.emit("handover", "ok", u(borrowID), after.InterestAccumulated.BigInt().String(), rates)
	return true
}

// opSweep runs the real sweep LiquidateBorrows (what the BeginBlocker of x/liquidationsV2 calls) with a batch size of one: it walks
// the id list GetBorrows — the concatenation of the BorrowIds lists of the pool-asset records — from its stored offset. At most one
// borrow is handed over per call; the line is the same hand-over line.
func (e *c08Env) opSweep() bool {
	k := e.app.LendKeeper
	e.app.NewliqKeeper.SetParams(e.ctx, liqV2types.NewParams(1))
	rates := map[uint64]string{}
	for _, b := range k.GetAllBorrow(e.ctx) {
		if !b.IsLiquidated {
			rates[b.ID] = e.liqRates(b)
		}
	}
	var err error
	if p, _ := try(func() { err = e.app.NewliqKeeper.LiquidateBorrows(e.ctx, 1) }); p || err != nil {
		e.tr.Count("sweep:fail")
		return false
	}
	e.tr.Count("sweep")
	for _, b := range k.GetAllBorrow(e.ctx) {
		if r, was := rates[b.ID]; was && b.IsLiquidated {
			e.tr.Count("sweep:handover")
			e.emit("handover", "ok", u(b.ID), b.InterestAccumulated.BigInt().String(), r)
			return true
		}
	}
	return false
}

func (e *c08Env) advance(sec int64) {
	e.now += sec
	e.height++
	e.ctx = e.ctx.WithBlockTime(time.Unix(e.now, 0).UTC()).WithBlockHeight(e.height)
	if len(e.app.NewaucKeeper.GetAuctions(e.ctx)) > 0 {
		// price decay / restart of the open Dutch auctions (auction records only; the lending books are not touched — the next line's
		// projection would show it otherwise)
		if p, _ := try(func() { auctionsV2.BeginBlocker(e.ctx, e.app.NewaucKeeper) }); p {
			e.tr.Count("auction:beginblock:panic")
		}
	}
}

// ---------------------------------------------------------------------------------------------- after the hand-over: bids

type c08Auc struct {
	auc auctionsV2types.Auction
	lv  liqV2types.LockedVault
}

// lendAuctions lists the open second-generation auctions of handed-over borrows, by borrow id.
func (e *c08Env) lendAuctions() []c08Auc {
	var out []c08Auc
	for _, a := range e.app.NewaucKeeper.GetAuctions(e.ctx) {
		lv, found := e.app.NewliqKeeper.GetLockedVault(e.ctx, a.AppId, a.LockedVaultId)
		if found && lv.InitiatorType == "lend" {
			out = append(out, c08Auc{a, lv})
		}
	}
	sort.Slice(out, func(i, j int) bool { return out[i].lv.OriginalVaultId < out[j].lv.OriginalVaultId })
	return out
}

// opBid delivers MsgPlaceMarketBid. An accepted partial fill is a `bid` line, an accepted closing bid an `auctionClose` line (trace
// kind lend.close); the amounts that changed hands on the auction side (property C10) are read off the balances and printed as inputs.
// A refused bid changes nothing and prints nothing — except a PANIC of a bid that covers the whole target: that is the lend branch
// of the close failing, printed as a rejected auctionClose so that the model has to agree.
func (e *c08Env) opBid(usr c08Acct, a c08Auc, amt sdk.Int) string {
	bk := e.app.BankKeeper
	debt, coll := a.auc.DebtToken.Denom, a.auc.CollateralToken.Denom
	ownerAddr, _ := sdk.AccAddressFromBech32(a.lv.Owner)
	liqMod := authtypes.NewModuleAddress(liqV2types.ModuleName)
	bal := func(addr sdk.AccAddress, d string) sdk.Int { return bk.GetBalance(e.ctx, addr, d).Amount }
	ud0, uc0, oc0, r0 := bal(usr.addr, debt), bal(usr.addr, coll), bal(ownerAddr, coll), bal(liqMod, debt)
	orphanBridge := false // a cross-pool borrow whose lend position was deleted by the hand-over
	if b, f := e.app.LendKeeper.GetBorrow(e.ctx, a.lv.OriginalVaultId); f {
		_, lendFound := e.app.LendKeeper.GetLend(e.ctx, b.LendingID)
		orphanBridge = !lendFound && b.BridgedAssetAmount.Amount.IsPositive()
		if orphanBridge {
			e.tr.Count("bid:crossPoolBorrowOfDeletedLend")
		}
	}
	res := e.deliver(auctionsV2types.NewMsgPlaceMarketBid(usr.addr.String(), a.auc.AuctionId, sdk.Coin{Denom: debt, Amount: amt}))
	bid := u(a.lv.OriginalVaultId)
	if res != "ok" {
		e.tr.Count("bid:" + res)
		// a panic of the bank call inside MsgCloseDutchAuctionForBorrow (empty module name: the lend position that names the collateral's
		// pool is gone) — the lend branch of the close; every other refusal is the auction side's (property C10)
		if res == "panic" && amt.GTE(a.auc.DebtToken.Amount) && orphanBridge {
			e.tr.Count("close:stuck:lendDeleted")
			e.emit("auctionClose", res, u(usr.num), bid, a.auc.DebtToken.Amount.String(), "0", "0", "0")
		}
		return res
	}
	paid := ud0.Sub(bal(usr.addr, debt))
	recv := bal(usr.addr, coll).Sub(uc0)
	if _, err := e.app.NewaucKeeper.GetAuction(e.ctx, a.auc.AuctionId); err == nil {
		e.emit("bid", res, u(usr.num), bid, paid.String(), recv.String())
		return res
	}
	left := sdk.ZeroInt()
	if !ownerAddr.Equals(usr.addr) {
		left = bal(ownerAddr, coll).Sub(oc0)
	}
	topUp := r0.Sub(bal(liqMod, debt))
	if topUp.IsPositive() {
		e.tr.Count("close:appReserveTopUp")
	}
	if left.IsPositive() {
		e.tr.Count("close:leftoverToOwner")
	}
	if ownerAddr.Equals(usr.addr) {
		e.tr.Count("close:bidderIsOwner")
	}
	e.emit("auctionClose", res, u(usr.num), bid, paid.String(), recv.String(), left.String(), topUp.String())
	return res
}

// genBid: a partial fill or a closing bid on one of the open auctions.
func (e *c08Env) genBid() {
	as := e.lendAuctions()
	if len(as) == 0 {
		e.tr.Count("gen:bid:noAuction")
		return
	}
	a := as[e.rng.Intn(len(as))]
	usr := e.user()
	debt := a.auc.DebtToken.Amount
	var amt sdk.Int
	switch e.rng.Intn(5) {
	case 0, 1:
		// partial fill: what is left must stay above the dust limit
		if debt.GT(sdk.NewInt(4)) && debt.IsInt64() {
			amt = e.rint(1, debt.Int64()/2)
		} else {
			amt = sdk.NewInt(1)
		}
	case 2:
		amt = e.around(debt)
	default:
		amt = debt.Add(e.rint(0, 1000))
	}
	if !amt.IsPositive() {
		amt = sdk.NewInt(1)
	}
	e.opBid(usr, a, amt)
}

// genCrash: the price of a collateral asset falls by 35-60 %, every borrow is offered to the liquidation, some of the new auctions are
// filled at once; the price may recover afterwards.
func (e *c08Env) genCrash() {
	asset := e.base[e.rng.Intn(len(e.base))]
	// prefer the collateral asset of some open borrow
	if b, ok := e.pickBorrow(); ok {
		pair, _ := e.app.LendKeeper.GetLendPair(e.ctx, b.PairID)
		asset = pair.AssetIn
	}
	twa, found := e.app.MarketKeeper.GetTwa(e.ctx, asset)
	if !found || !twa.IsPriceActive || twa.Twa < 1000 {
		return
	}
	old := twa.Twa
	e.tr.Count("gen:crash")
	e.opSetPrice(asset, old*uint64(e.rng.Range(40, 65))/100)
	e.genLiquidate()
	e.advance(int64(e.rng.Range(1, 1800)))
	n := len(e.lendAuctions())
	for i := 0; i < n && i < 4; i++ {
		if e.rng.Chance(70) {
			e.genBid()
		}
	}
	if e.rng.Chance(60) {
		e.opSetPrice(asset, old*uint64(e.rng.Range(85, 110))/100)
	}
}

// fundAppReserve tops up the liquidation module's reserve of the app for the asset (MsgAppReserveFunds) from the untracked funder.
func (e *c08Env) fundAppReserve(asset uint64, amt sdk.Int) {
	c := sdk.NewCoins(e.coin(asset, amt))
	if err := e.app.BankKeeper.MintCoins(e.ctx, liqV2types.ModuleName, c); err != nil {
		e.t.Fatal(err)
	}
	if err := e.app.BankKeeper.SendCoinsFromModuleToAccount(e.ctx, liqV2types.ModuleName, e.funder, c); err != nil {
		e.t.Fatal(err)
	}
	res := e.deliver(liqV2types.NewMsgAppReserveFundsRequest(e.funder.String(), e.appOK, asset, e.coin(asset, amt)))
	e.tr.Count("appReserve:" + res)
}

// ---------------------------------------------------------------------------------------------- generators

func (e *c08Env) rint(lo, hi int64) sdk.Int {
	if hi <= lo {
		return sdk.NewInt(lo)
	}
	return sdk.NewInt(lo + int64(e.rng.U64()%uint64(hi-lo+1)))
}

func (e *c08Env) user() c08Acct { return e.users[e.rng.Intn(len(e.users))] }

func (e *c08Env) otherUser(n uint64) c08Acct {
	for {
		x := e.user()
		if x.num != n {
			return x
		}
	}
}

func (e *c08Env) userByAddr(a string) c08Acct {
	return e.users[e.userNum[a]-1]
}

// around returns x-1, x, x+1 or a random value below x.
func (e *c08Env) around(x sdk.Int) sdk.Int {
	switch e.rng.Intn(6) {
	case 0:
		return x.SubRaw(1)
	case 1, 2:
		return x
	case 3:
		return x.AddRaw(1)
	default:
		if x.GT(sdk.NewInt(2)) && x.IsInt64() {
			return e.rint(1, x.Int64())
		}
		return x
	}
}

// maxLoan solves the LTV comparison for equality: the largest loan whose value is ≤ value(collateral) * ltv.
func (e *c08Env) maxLoan(assetIn uint64, amtIn sdk.Int, assetOut uint64, ltv sdk.Dec, already sdk.Int) sdk.Int {
	res := sdk.ZeroInt()
	try(func() {
		vin, err := e.app.MarketKeeper.CalcAssetPrice(e.ctx, assetIn, amtIn)
		if err != nil {
			return
		}
		unit, err := e.app.MarketKeeper.CalcAssetPrice(e.ctx, assetOut, sdk.OneInt())
		if err != nil || unit.IsZero() {
			return
		}
		res = vin.Mul(ltv).Quo(unit).TruncateInt().Sub(already)
	})
	return res
}

func (e *c08Env) pairLTV(p lendtypes.Extended_Pair) sdk.Dec {
	r, _ := e.app.LendKeeper.GetAssetRatesParams(e.ctx, p.AssetIn)
	if p.IsEModeEnabled {
		return r.ELtv
	}
	return r.Ltv
}

func (e *c08Env) stableOK(asset uint64) bool {
	r, _ := e.app.LendKeeper.GetAssetRatesParams(e.ctx, asset)
	return r.EnableStableBorrow
}

func (e *c08Env) cDenom(asset uint64) string {
	r, _ := e.app.LendKeeper.GetAssetRatesParams(e.ctx, asset)
	return e.denomOf[r.CAssetID]
}

func (e *c08Env) poolsOf(asset uint64) []uint64 {
	var ps []uint64
	for _, p := range e.app.LendKeeper.GetPools(e.ctx) {
		for _, d := range p.AssetData {
			if d.AssetID == asset {
				ps = append(ps, p.PoolID)
			}
		}
	}
	return ps
}

func (e *c08Env) genLend(bad bool) {
	usr := e.user()
	asset := e.base[e.rng.Intn(len(e.base))]
	pools := e.poolsOf(asset)
	pool := pools[e.rng.Intn(len(pools))]
	if e.rng.Chance(25) {
		// same asset in the other pool as an existing lend of this user: spare cTokens in the wallet (see c08CorpusTwinLends)
		for _, l := range e.app.LendKeeper.GetAllLend(e.ctx) {
			if l.Owner == usr.addr.String() && len(e.poolsOf(l.AssetID)) > 1 {
				asset = l.AssetID
				for _, p := range e.poolsOf(asset) {
					if p != l.PoolID {
						pool = p
					}
				}
				e.tr.Count("gen:lend:twin")
				break
			}
		}
	}
	amt := e.rint(1_000_000, 50_000_000_000)
	if e.rng.Chance(15) {
		amt = e.rint(1, 2000)
	}
	denom, app := e.denomOf[asset], e.appOK
	if bad {
		switch e.rng.Intn(6) {
		case 0:
			denom = e.denomOf[e.base[e.rng.Intn(4)]]
		case 1:
			app = e.appBad
		case 2:
			app = 77
		case 3:
			pool = uint64(e.rng.Range(0, 4))
		case 4:
			amt = sdk.NewInt(int64(e.rng.Range(-1, 0)))
		case 5:
			asset = uint64(e.rng.Range(0, 12))
		}
	}
	e.opLend(usr, asset, denom, amt, pool, app)
}

func (e *c08Env) pickLend() (lendtypes.LendAsset, bool) {
	ls := e.app.LendKeeper.GetAllLend(e.ctx)
	if len(ls) == 0 {
		return lendtypes.LendAsset{}, false
	}
	return ls[e.rng.Intn(len(ls))], true
}

func (e *c08Env) pickBorrow() (lendtypes.BorrowAsset, bool) {
	bs := e.app.LendKeeper.GetAllBorrow(e.ctx)
	if len(bs) == 0 {
		return lendtypes.BorrowAsset{}, false
	}
	return bs[e.rng.Intn(len(bs))], true
}

func (e *c08Env) genDeposit(bad bool) {
	l, ok := e.pickLend()
	if !ok {
		e.genLend(false)
		return
	}
	usr := e.userByAddr(l.Owner)
	denom := l.AmountIn.Denom
	amt := e.rint(1, 20_000_000_000)
	id := l.ID
	if bad {
		switch e.rng.Intn(4) {
		case 0:
			usr = e.otherUser(usr.num)
		case 1:
			denom = e.denomOf[e.base[e.rng.Intn(4)]]
		case 2:
			amt = sdk.ZeroInt()
		case 3:
			id = id + uint64(e.rng.Range(5, 9))
		}
	}
	e.opDeposit(usr, id, denom, amt)
}

func (e *c08Env) genWithdraw(bad bool) {
	l, ok := e.pickLend()
	if !ok {
		e.genLend(false)
		return
	}
	k := e.app.LendKeeper
	usr := e.userByAddr(l.Owner)
	denom := l.AmountIn.Denom
	r := e.reward(e.ctx, l.ID)
	avail := l.AvailableToBorrow.Add(r)
	var amt sdk.Int
	switch e.rng.Intn(8) {
	case 0, 1:
		amt = e.around(avail) // boundary of `withdrawal > AvailableToBorrow` (after the reward is added)
	case 2:
		amt = e.around(l.AvailableToBorrow) // boundary of the close-lend shortcut (before the reward is added)
	case 3:
		amt = e.around(l.AmountIn.Amount) // boundary of `withdrawal < AmountIn`
	case 4:
		pool, _ := k.GetPool(e.ctx, l.PoolID)
		amt = e.around(k.ModuleBalance(e.ctx, pool.ModuleName, denom)) // boundary of the pool-funds guard
	default:
		if avail.IsPositive() && avail.IsInt64() {
			amt = e.rint(1, avail.Int64())
		} else {
			amt = sdk.NewInt(1)
		}
	}
	id := l.ID
	if bad {
		switch e.rng.Intn(4) {
		case 0:
			usr = e.otherUser(usr.num)
		case 1:
			denom = e.denomOf[e.base[e.rng.Intn(4)]]
		case 2:
			amt = avail.Add(e.rint(1, 1_000_000)) // tries to take pledged collateral
		case 3:
			id = id + uint64(e.rng.Range(5, 9))
		}
	}
	e.opWithdraw(usr, id, denom, amt)
}

func (e *c08Env) genCloseLend(bad bool) {
	l, ok := e.pickLend()
	if !ok {
		e.genLend(false)
		return
	}
	usr := e.userByAddr(l.Owner)
	if bad && e.rng.Chance(60) {
		usr = e.otherUser(usr.num)
	}
	e.opCloseLend(usr, l.ID)
}

// pairsFor lists the pair ids registered for (asset, pool).
func (e *c08Env) pairsFor(asset, pool uint64) []uint64 {
	m, _ := e.app.LendKeeper.GetAssetToPair(e.ctx, asset, pool)
	return m.PairID
}

func (e *c08Env) genBorrow(bad bool, alternate bool) {
	k := e.app.LendKeeper
	if alternate {
		usr := e.user()
		asset := e.base[e.rng.Intn(len(e.base))]
		pools := e.poolsOf(asset)
		pool := pools[e.rng.Intn(len(pools))]
		ps := e.pairsFor(asset, pool)
		if len(ps) == 0 {
			return
		}
		pid := ps[e.rng.Intn(len(ps))]
		pair, _ := k.GetLendPair(e.ctx, pid)
		amt := e.rint(2_000_000, 20_000_000_000)
		max := e.maxLoan(asset, amt, pair.AssetOut, e.pairLTV(pair), sdk.ZeroInt())
		if pair.IsInterPool {
			max = max.MulRaw(6).QuoRaw(10)
		}
		loan := e.around(max)
		if e.rng.Chance(50) && max.IsPositive() && max.IsInt64() {
			loan = e.rint(1, max.Int64())
		}
		app := e.appOK
		in := e.coin(asset, amt)
		if bad {
			switch e.rng.Intn(3) {
			case 0:
				app = e.appBad
			case 1:
				in.Denom = e.cDenom(asset)
			case 2:
				loan = max.Add(e.rint(2, 1_000_000))
			}
		}
		e.opBorrowAlternate(usr, asset, pool, in, pid, e.stableOK(pair.AssetIn) && e.rng.Chance(30), e.coin(pair.AssetOut, loan), app)
		return
	}
	l, ok := e.pickLend()
	if !ok {
		e.genLend(false)
		return
	}
	usr := e.userByAddr(l.Owner)
	ps := e.pairsFor(l.AssetID, l.PoolID)
	if e.rng.Chance(6) {
		// a pair registered for ANOTHER asset of the same pool (BorrowAsset never compares pair.AssetIn with the lend's asset)
		other := e.base[e.rng.Intn(len(e.base))]
		if q := e.pairsFor(other, l.PoolID); len(q) > 0 {
			ps = q
			e.tr.Count("gen:borrow:foreignPair")
		}
	}
	if len(ps) == 0 {
		return
	}
	pid := ps[e.rng.Intn(len(ps))]
	pair, _ := k.GetLendPair(e.ctx, pid)
	var amtIn sdk.Int
	switch e.rng.Intn(5) {
	case 0:
		amtIn = e.around(l.AvailableToBorrow) // boundary of `AmountIn > AvailableToBorrow`
	default:
		if l.AvailableToBorrow.IsPositive() && l.AvailableToBorrow.IsInt64() {
			amtIn = e.rint(1, l.AvailableToBorrow.Int64())
		} else {
			amtIn = sdk.NewInt(1)
		}
	}
	if pair.IsInterPool && !bad && amtIn.GT(sdk.NewInt(4_000_000_000)) && e.rng.Chance(80) {
		amtIn = e.rint(1_000_000, 4_000_000_000) // keep the bridged transit quantity within what the lending pool usually holds
	}
	// existing borrow on this pair ⇒ DepositDraw: the LTV check sees the whole position
	already := sdk.ZeroInt()
	collateral := amtIn
	if k.HasBorrowForAddressByPair(e.ctx, usr.addr.String(), pid) {
		if bid, f := k.GetBorrowIDForAddressByPair(e.ctx, usr.addr.String(), pid); f {
			b, _ := k.GetBorrow(e.ctx, bid)
			already = b.AmountOut.Amount.Add(b.InterestAccumulated.TruncateInt())
			collateral = collateral.Add(b.AmountIn.Amount)
			e.tr.Count("gen:borrow:existingPair")
		}
	}
	max := e.maxLoan(l.AssetID, collateral, pair.AssetOut, e.pairLTV(pair), already)
	if pair.IsInterPool && already.IsZero() {
		// second LTV check on the bridged transit asset: solve it for equality as well
		pool, _ := k.GetPool(e.ctx, l.PoolID)
		var first uint64
		for _, d := range pool.AssetData {
			if d.AssetTransitType == 2 {
				first = d.AssetID
			}
		}
		fr, _ := k.GetAssetRatesParams(e.ctx, first)
		m2 := max
		try(func() {
			upd := sdk.NewDec(amtIn.Int64()).Mul(e.pairLTV(pair)).TruncateInt()
			v, err := e.app.MarketKeeper.CalcAssetPrice(e.ctx, l.AssetID, upd)
			if err != nil {
				return
			}
			unit1, err := e.app.MarketKeeper.CalcAssetPrice(e.ctx, first, sdk.OneInt())
			if err != nil || unit1.IsZero() {
				return
			}
			q := v.Quo(unit1).TruncateInt()
			m2 = e.maxLoan(first, q, pair.AssetOut, fr.Ltv, sdk.ZeroInt())
		})
		if m2.LT(max) {
			max = m2
		}
	}
	var loan sdk.Int
	switch e.rng.Intn(6) {
	case 0, 1:
		loan = e.around(max)
	case 2:
		op, _ := k.GetPool(e.ctx, pair.AssetOutPoolID)
		loan = e.around(k.ModuleBalance(e.ctx, op.ModuleName, e.denomOf[pair.AssetOut])) // pool-funds boundary
	default:
		if max.IsPositive() && max.IsInt64() {
			loan = e.rint(1, max.Int64())
		} else {
			loan = sdk.NewInt(1_000_000)
		}
	}
	in := sdk.Coin{Denom: e.cDenom(pair.AssetIn), Amount: amtIn}
	out := e.coin(pair.AssetOut, loan)
	rin, _ := k.GetAssetRatesParams(e.ctx, pair.AssetIn)
	stable := (rin.EnableStableBorrow && e.rng.Chance(35)) || e.rng.Chance(3)
	lid := l.ID
	if bad {
		switch e.rng.Intn(7) {
		case 0:
			usr = e.otherUser(usr.num)
		case 1:
			in.Denom = e.denomOf[l.AssetID]
		case 2:
			out.Denom = e.denomOf[e.base[e.rng.Intn(4)]]
		case 3:
			out.Amount = max.Add(e.rint(2, 1_000_000)) // above the LTV limit
		case 4:
			in.Amount = l.AvailableToBorrow.Add(e.rint(1, 1000))
		case 5:
			pid = uint64(e.rng.Range(0, 25))
		case 6:
			out.Amount = e.rint(0, 3) // below the 1 USD minimum
		}
	}
	e.opBorrow(usr, lid, pid, stable, in, out)
}

func (e *c08Env) borrowOwner(b lendtypes.BorrowAsset) (c08Acct, lendtypes.LendAsset, bool) {
	l, found := e.app.LendKeeper.GetLend(e.ctx, b.LendingID)
	if !found {
		// the lend was deleted by a liquidation hand-over: the borrow dangles
		e.tr.Count("gen:danglingBorrow")
		pair, _ := e.app.LendKeeper.GetLendPair(e.ctx, b.PairID)
		l = lendtypes.LendAsset{ID: b.LendingID, AssetID: pair.AssetIn, AvailableToBorrow: sdk.ZeroInt(), AmountIn: sdk.NewCoin(e.denomOf[pair.AssetIn], sdk.ZeroInt())}
		return e.user(), l, false
	}
	return e.userByAddr(l.Owner), l, true
}

func (e *c08Env) genDepositBorrow(bad bool) {
	b, ok := e.pickBorrow()
	if !ok {
		e.genBorrow(false, false)
		return
	}
	usr, l, _ := e.borrowOwner(b)
	amt := e.rint(1, 5_000_000_000)
	if e.rng.Chance(35) {
		amt = e.around(l.AvailableToBorrow)
	}
	c := sdk.Coin{Denom: e.cDenom(l.AssetID), Amount: amt}
	if bad {
		switch e.rng.Intn(3) {
		case 0:
			usr = e.otherUser(usr.num)
		case 1:
			c.Denom = e.denomOf[l.AssetID]
		case 2:
			c.Amount = l.AvailableToBorrow.Add(e.rint(1, 1000))
		}
	}
	e.opDepositBorrow(usr, b.ID, c)
}

func (e *c08Env) genDraw(bad bool) {
	k := e.app.LendKeeper
	b, ok := e.pickBorrow()
	if !ok {
		e.genBorrow(false, false)
		return
	}
	usr, l, _ := e.borrowOwner(b)
	pair, _ := k.GetLendPair(e.ctx, b.PairID)
	// interest that the message itself will add before the check
	already := b.AmountOut.Amount.Add(b.InterestAccumulated.TruncateInt())
	c0 := e.probe()
	try(func() {
		if _, _, err := k.IterateBorrow(c0, b.ID); err == nil {
			nb, _ := k.GetBorrow(c0, b.ID)
			already = nb.AmountOut.Amount.Add(nb.InterestAccumulated.TruncateInt())
		}
	})
	max := e.maxLoan(l.AssetID, b.AmountIn.Amount, pair.AssetOut, e.pairLTV(pair), already)
	var amt sdk.Int
	switch e.rng.Intn(5) {
	case 0, 1:
		amt = e.around(max)
	case 2:
		op, _ := k.GetPool(e.ctx, pair.AssetOutPoolID)
		amt = e.around(k.ModuleBalance(e.ctx, op.ModuleName, b.AmountOut.Denom))
	default:
		if max.IsPositive() && max.IsInt64() {
			amt = e.rint(1, max.Int64())
		} else {
			amt = sdk.NewInt(1)
		}
	}
	c := sdk.Coin{Denom: b.AmountOut.Denom, Amount: amt}
	if bad {
		switch e.rng.Intn(3) {
		case 0:
			usr = e.otherUser(usr.num)
		case 1:
			c.Denom = e.denomOf[e.base[e.rng.Intn(4)]]
		case 2:
			c.Amount = max.Add(e.rint(2, 1_000_000))
		}
	}
	e.opDraw(usr, b.ID, c)
}

func (e *c08Env) genRepay(bad bool) {
	k := e.app.LendKeeper
	b, ok := e.pickBorrow()
	if !ok {
		e.genBorrow(false, false)
		return
	}
	usr, _, _ := e.borrowOwner(b)
	// values after the accrual the message will perform
	nb := b
	res := sdk.ZeroDec()
	c0 := e.probe()
	try(func() {
		if _, _, err := k.IterateBorrow(c0, b.ID); err == nil {
			nb, _ = k.GetBorrow(c0, b.ID)
			if tr, f := k.GetBorrowInterestTracker(c0, b.ID); f {
				res = tr.ReservePoolInterest
			}
		}
	})
	var amt sdk.Int
	switch e.rng.Intn(8) {
	case 0:
		amt = e.around(b.AmountOut.Amount.Add(b.InterestAccumulated.TruncateInt())) // close shortcut (pre-accrual values)
	case 1:
		amt = e.around(nb.AmountOut.Amount.Add(nb.InterestAccumulated.Ceil().TruncateInt())) // `payment >= principal + ceil(interest)`
	case 2:
		amt = e.around(res.TruncateInt()) // `payment <= reserve share`
	case 3:
		amt = e.around(nb.InterestAccumulated.TruncateInt()) // `payment <= interest`
	default:
		if nb.AmountOut.Amount.IsPositive() && nb.AmountOut.Amount.IsInt64() {
			amt = e.rint(1, nb.AmountOut.Amount.Int64())
		} else {
			amt = sdk.NewInt(1)
		}
	}
	c := sdk.Coin{Denom: b.AmountOut.Denom, Amount: amt}
	if bad {
		switch e.rng.Intn(3) {
		case 0:
			usr = e.otherUser(usr.num)
		case 1:
			c.Denom = e.denomOf[e.base[e.rng.Intn(4)]]
		case 2:
			c.Amount = nb.AmountOut.Amount.Add(nb.InterestAccumulated.Ceil().TruncateInt()).Add(e.rint(1, 1000))
		}
	}
	e.opRepay(usr, b.ID, c)
}

func (e *c08Env) genCloseBorrow(bad bool, withdraw bool) {
	b, ok := e.pickBorrow()
	if !ok {
		e.genBorrow(false, false)
		return
	}
	usr, _, _ := e.borrowOwner(b)
	if bad {
		usr = e.otherUser(usr.num)
	}
	if withdraw {
		e.opRepayWithdraw(usr, b.ID)
	} else {
		e.opCloseBorrow(usr, b.ID)
	}
}

func (e *c08Env) genPrice() {
	asset := e.base[e.rng.Intn(len(e.base))]
	twa, found := e.app.MarketKeeper.GetTwa(e.ctx, asset)
	cur := uint64(1000000)
	if found && twa.Twa > 0 {
		cur = twa.Twa
	}
	var nw uint64
	switch e.rng.Intn(8) {
	case 0:
		nw = 0 // price inactive: every valuation must be refused
	case 1, 2:
		nw = cur * uint64(e.rng.Range(30, 70)) / 100 // crash: makes borrows liquidatable
	case 3:
		nw = cur * uint64(e.rng.Range(120, 250)) / 100
	default:
		nw = cur * uint64(e.rng.Range(90, 110)) / 100
	}
	if nw == 0 && e.rng.Chance(70) {
		nw = cur
	}
	if nw > 1_000_000_000_000 {
		nw = 1_000_000
	}
	e.opSetPrice(asset, nw)
}

func (e *c08Env) genLiquidate() {
	bs := e.app.LendKeeper.GetAllBorrow(e.ctx)
	if e.rng.Chance(25) {
		// the real sweep, one borrow per call, once around the id list
		for i := 0; i <= len(bs); i++ {
			if e.opSweep() {
				e.tr.Count("liquidate:handover")
			}
		}
		return
	}
	for _, b := range bs {
		if !b.IsLiquidated {
			via := 0
			if e.rng.Chance(30) {
				via = 1
			}
			if e.opLiquidate(b.ID, via) {
				e.tr.Count("liquidate:handover")
			}
		}
	}
}

// ---------------------------------------------------------------------------------------------- corpus (witnesses)

// c08CorpusForeignPair — regression for the repaired defect A (notes/C08.md): BorrowAsset used not to compare pair.AssetIn with the
// asset of the lend position it debits, so cTokens of a cheap asset were accepted as if they were cTokens of the (dearer) lent
// asset. The borrow through the foreign pair must now be refused; the regular one on the matching lend follows its own LTV.
func c08CorpusForeignPair(t *testing.T, tr *Trace, rng *Rng) {
	e := c08Setup(t, tr, rng, 0)
	e.cfgLines()
	tr.Count("corpus")
	a1, a2, a3 := e.base[0], e.base[1], e.base[2]
	u1, u4 := e.users[0], e.users[3]
	n := func(x int64) sdk.Int { return sdk.NewInt(x) }
	e.opFundModule(u4, 1, a3, e.coin(a3, n(5_000_000_000)))
	// u1 lends A1 (price 2) and A2 (price 1) in pool 1, then borrows on the A1 lend through pair 1 (A2 → A3) pledging cA2:
	// 1e9 cA2 are worth 1e9; valued as 1e9 A1 = 2e9 (times LTV(A2) 0.5) a loan of 900e6 used to be accepted on 1e9 of collateral
	e.opLend(u1, a1, e.denomOf[a1], n(1_000_000_000), 1, e.appOK) // lend 1
	e.opLend(u1, a2, e.denomOf[a2], n(1_000_000_000), 1, e.appOK) // lend 2
	e.opBorrow(u1, 1, 1, false, sdk.Coin{Denom: e.cDenom(a2), Amount: n(1_000_000_000)}, e.coin(a3, n(900_000_000)))
	// the regular way (pair 1 on the A2 lend) refuses the same loan and accepts one within the LTV
	e.opBorrow(u1, 2, 1, false, sdk.Coin{Denom: e.cDenom(a2), Amount: n(1_000_000_000)}, e.coin(a3, n(900_000_000)))
	e.opBorrow(u1, 2, 1, false, sdk.Coin{Denom: e.cDenom(a2), Amount: n(1_000_000_000)}, e.coin(a3, n(500_000_000)))
}

// c08CorpusHandover — witness for notes/C08.md defect B: a lend position that earned a reward pledges its whole principal; the
// liquidation hand-over subtracts the pledge from AmountIn (principal only), finds it ≤ 0 and deletes the position although
// availableToBorrow (the reward) is still positive: the published total lent stays above the sum over positions.
func c08CorpusHandover(t *testing.T, tr *Trace, rng *Rng) {
	e := c08Setup(t, tr, rng, 0)
	e.cfgLines()
	tr.Count("corpus")
	a1, a2 := e.base[0], e.base[1]
	u2, u3, u4 := e.users[1], e.users[2], e.users[3]
	n := func(x int64) sdk.Int { return sdk.NewInt(x) }
	e.opLend(u2, a2, e.denomOf[a2], n(50_000_000_000), 1, e.appOK) // lend 1
	e.opLend(u3, a1, e.denomOf[a1], n(10_000_000_000), 1, e.appOK) // lend 2
	e.opFundModule(u4, 1, a2, e.coin(a2, n(10_000_000_000)))
	e.opFundReserve(u4, a2, e.coin(a2, n(5_000_000_000)))
	// u3 borrows A2 so that A2 is utilised and its lenders earn rewards
	e.opBorrow(u3, 2, 3, false, sdk.Coin{Denom: e.cDenom(a1), Amount: n(10_000_000_000)}, e.coin(a2, n(4_000_000_000)))
	e.advance(31_557_600)
	e.opCalc(u2) // reward > 0 is added to availableToBorrow of lend 1 and to the total; AmountIn stays 50e9
	l1, _ := e.app.LendKeeper.GetLend(e.ctx, 1)
	e.opBorrow(u2, 1, 2, false, sdk.Coin{Denom: e.cDenom(a2), Amount: l1.AmountIn.Amount}, e.coin(a1, n(5_000_000_000)))
	e.opSetPrice(a2, 300_000)
	e.genLiquidate()
	e.opWithdraw(u2, 1, e.denomOf[a2], n(1)) // the position is gone: the reward cTokens can no longer be redeemed
	e.opCalc(u2)
}

// c08CorpusTwinLends — directed coverage (no defect): cTokens of one asset are fungible across pools, so a user with lends of
// the same asset in two pools holds spare cTokens; the availableToBorrow guards are then the only thing that keeps pledged
// collateral in place (without spare cTokens the bank transfer of the cTokens fails first and hides a missing guard).
func c08CorpusTwinLends(t *testing.T, tr *Trace, rng *Rng) {
	e := c08Setup(t, tr, rng, 0)
	e.cfgLines()
	tr.Count("corpus")
	a1, a2 := e.base[0], e.base[1]
	u1, u2 := e.users[0], e.users[1]
	n := func(x int64) sdk.Int { return sdk.NewInt(x) }
	e.opLend(u1, a1, e.denomOf[a1], n(1_000_000_000), 1, e.appOK) // lend 1 (pool 1)
	e.opLend(u1, a1, e.denomOf[a1], n(1_000_000_000), 2, e.appOK) // lend 2 (pool 2): 2e9 cA1 in the wallet
	e.opLend(u2, a2, e.denomOf[a2], n(5_000_000_000), 1, e.appOK) // lend 3
	e.opBorrow(u1, 1, 3, false, sdk.Coin{Denom: e.cDenom(a1), Amount: n(1_000_000_000)}, e.coin(a2, n(100_000_000)))
	e.opWithdraw(u1, 1, e.denomOf[a1], n(1))             // everything is pledged: must be refused
	e.opWithdraw(u1, 1, e.denomOf[a1], n(1_000_000_000)) // == AmountIn, != availableToBorrow: must be refused
	e.opCloseLend(u1, 1)                                 // borrow open: must be refused
	e.opDepositBorrow(u1, 1, sdk.Coin{Denom: e.cDenom(a1), Amount: n(1)}) // nothing left to pledge although the wallet has cA1
	e.opBorrow(u1, 1, 4, false, sdk.Coin{Denom: e.cDenom(a1), Amount: n(1)}, e.coin(e.base[2], n(1_000_000)))
	e.opRepay(u1, 1, e.coin(a2, n(40_000_000)))
	e.opWithdraw(u1, 1, e.denomOf[a1], n(1))
	e.opCloseBorrow(u1, 1)
	e.opWithdraw(u1, 1, e.denomOf[a1], n(400_000_000))
	e.opCloseLend(u1, 1)
}

// c08CorpusGuards — directed coverage: with the kill switch of the app on, every position message is refused and nothing changes;
// with a pool depreciated, deposits / pledges / draws / new lends and borrows on it are refused while repay, withdraw and close work.
func c08CorpusGuards(t *testing.T, tr *Trace, rng *Rng) {
	e := c08Setup(t, tr, rng, 0)
	e.cfgLines()
	tr.Count("corpus")
	a1, a2 := e.base[0], e.base[1]
	u1, u2 := e.users[0], e.users[1]
	n := func(x int64) sdk.Int { return sdk.NewInt(x) }
	cA1 := func(x int64) sdk.Coin { return sdk.Coin{Denom: e.cDenom(a1), Amount: n(x)} }
	e.opLend(u1, a1, e.denomOf[a1], n(2_000_000_000), 1, e.appOK) // lend 1
	e.opLend(u2, a2, e.denomOf[a2], n(5_000_000_000), 1, e.appOK) // lend 2
	e.opBorrow(u1, 1, 3, false, cA1(1_000_000_000), e.coin(a2, n(100_000_000)))
	e.advance(86400)
	e.opSetKill(e.appOK, true)
	e.opLend(u2, a1, e.denomOf[a1], n(1_000_000), 1, e.appOK)
	e.opDeposit(u1, 1, e.denomOf[a1], n(1_000_000))
	e.opWithdraw(u1, 1, e.denomOf[a1], n(1_000_000))
	e.opCloseLend(u2, 2)
	e.opBorrow(u2, 2, 2, false, sdk.Coin{Denom: e.cDenom(a2), Amount: n(1_000_000_000)}, e.coin(a1, n(10_000_000)))
	e.opBorrowAlternate(u2, a1, 1, e.coin(a1, n(10_000_000)), 3, false, e.coin(a2, n(1_000_000)), e.appOK)
	e.opDepositBorrow(u1, 1, cA1(1_000_000))
	e.opDraw(u1, 1, e.coin(a2, n(1_000_000)))
	e.opRepay(u1, 1, e.coin(a2, n(1_000_000)))
	e.opCloseBorrow(u1, 1)
	e.opRepayWithdraw(u1, 1)
	e.opCalc(u1)
	e.opSetKill(e.appOK, false)
	e.opDraw(u1, 1, e.coin(a2, n(1_000_000)))
	e.opSetDepreciated(1)
	e.opLend(u2, a1, e.denomOf[a1], n(1_000_000), 1, e.appOK)
	e.opDeposit(u1, 1, e.denomOf[a1], n(1_000_000))
	e.opDepositBorrow(u1, 1, cA1(1_000_000))
	e.opDraw(u1, 1, e.coin(a2, n(1_000_000)))
	e.opBorrow(u2, 2, 2, false, sdk.Coin{Denom: e.cDenom(a2), Amount: n(1_000_000_000)}, e.coin(a1, n(10_000_000)))
	e.opRepay(u1, 1, e.coin(a2, n(1_000_000)))
	e.opWithdraw(u1, 1, e.denomOf[a1], n(1_000_000))
	e.opCalc(u1)
	e.opCloseBorrow(u1, 1)
	e.opCloseLend(u1, 1)
}

// c08CorpusAuctionClose — directed coverage of the life after the hand-over: a same-pool borrow is handed over, filled in two steps
// (partial fill, closing bid) and disappears; the lend position stays debited; a cross-pool borrow that pledged the whole position
// is handed over (the position is deleted) and its closing bid cannot succeed (see notes/C08.md, observation on
// MsgCloseDutchAuctionForBorrow).
func c08CorpusAuctionClose(t *testing.T, tr *Trace, rng *Rng, variant int) {
	e := c08Setup(t, tr, rng, variant)
	e.cfgLines()
	tr.Count("corpus")
	a1, a2, a4 := e.base[0], e.base[1], e.base[3]
	u1, u2, u3, u4 := e.users[0], e.users[1], e.users[2], e.users[3]
	n := func(x int64) sdk.Int { return sdk.NewInt(x) }
	for _, a := range e.base {
		e.fundAppReserve(a, n(20_000_000_000))
	}
	e.opLend(u2, a2, e.denomOf[a2], n(50_000_000_000), 1, e.appOK) // lend 1
	e.opLend(u3, a1, e.denomOf[a1], n(10_000_000_000), 1, e.appOK) // lend 2
	e.opLend(u4, a4, e.denomOf[a4], n(20_000_000_000), 2, e.appOK) // lend 3
	e.opLend(u1, a1, e.denomOf[a1], n(1_000_000_000), 1, e.appOK)  // lend 4
	e.opFundModule(u4, 1, e.base[2], e.coin(e.base[2], n(10_000_000_000)))
	e.opFundModule(u4, 2, e.base[2], e.coin(e.base[2], n(10_000_000_000)))
	e.opFundReserve(u4, a2, e.coin(a2, n(1_000_000_001)))
	// same-pool borrow of u3: 6e9 cA1 (of 10e9) pledged for A2 at the LTV limit
	max := e.maxLoan(a1, n(6_000_000_000), a2, c08dec("0.7"), sdk.ZeroInt())
	e.opBorrow(u3, 2, 3, false, sdk.Coin{Denom: e.cDenom(a1), Amount: n(6_000_000_000)}, e.coin(a2, max))
	// cross-pool borrow of u1 (pair 15: A1 → A4 of pool 2) pledging the WHOLE position
	// (second LTV check on the bridged transit asset A3, LTV 0.8: at most 0.7 * 0.8 of the collateral value)
	maxX := e.maxLoan(a1, n(1_000_000_000), a4, c08dec("0.7"), sdk.ZeroInt()).MulRaw(76).QuoRaw(100)
	e.opBorrow(u1, 4, 15, false, sdk.Coin{Denom: e.cDenom(a1), Amount: n(1_000_000_000)}, e.coin(a4, maxX))
	e.advance(40 * 86400)
	e.opCalc(u3)
	twa, _ := e.app.MarketKeeper.GetTwa(e.ctx, a1)
	e.opSetPrice(a1, twa.Twa*6/10)
	e.genLiquidate()
	e.advance(600)
	for _, a := range e.lendAuctions() {
		if a.lv.OriginalVaultId == 1 {
			e.opBid(u4, a, a.auc.DebtToken.Amount.QuoRaw(3))
		}
	}
	e.advance(600)
	e.opWithdraw(u3, 2, e.denomOf[a1], n(1_000_000)) // the rest of the position stays usable while the auction runs
	for _, a := range e.lendAuctions() {
		e.opBid(u2, a, a.auc.DebtToken.Amount.AddRaw(5))
	}
	e.opCalc(u3)
	e.opCalc(u2)
	e.opWithdraw(u3, 2, e.denomOf[a1], n(1_000_000))
}

// c08CorpusEMode — directed coverage: pair 5 (A3 → A2, pool 1) is an e-mode pair (e-LTV 0.9, e-threshold 0.95, e-penalty 0.02): a
// borrow above the normal LTV, a draw to the e-LTV limit, liquidation under the e-mode threshold, and the close, whose penalty is the
// e-mode penalty while the hand-over charged the normal one (the fee of the locked vault).
func c08CorpusEMode(t *testing.T, tr *Trace, rng *Rng) {
	e := c08Setup(t, tr, rng, 0)
	e.cfgLines()
	tr.Count("corpus")
	a2, a3 := e.base[1], e.base[2]
	u1, u2, u4 := e.users[0], e.users[1], e.users[3]
	n := func(x int64) sdk.Int { return sdk.NewInt(x) }
	e.fundAppReserve(a2, n(20_000_000_000))
	e.opLend(u2, a2, e.denomOf[a2], n(50_000_000_000), 1, e.appOK) // lend 1
	e.opLend(u1, a3, e.denomOf[a3], n(10_000_000_000), 1, e.appOK) // lend 2
	pair, _ := e.app.LendKeeper.GetLendPair(e.ctx, 5)
	max := e.maxLoan(a3, n(8_000_000_000), a2, e.pairLTV(pair), sdk.ZeroInt())
	e.opBorrow(u1, 2, 5, false, sdk.Coin{Denom: e.cDenom(a3), Amount: n(8_000_000_000)}, e.coin(a2, max.AddRaw(1))) // one above the e-LTV: refused
	e.opBorrow(u1, 2, 5, false, sdk.Coin{Denom: e.cDenom(a3), Amount: n(8_000_000_000)}, e.coin(a2, max.MulRaw(95).QuoRaw(100)))
	e.advance(86400)
	b, _ := e.app.LendKeeper.GetBorrow(e.ctx, 1)
	room := max.Sub(b.AmountOut.Amount).SubRaw(1_000_000)
	e.opDraw(u1, 1, e.coin(a2, room))
	e.opDraw(u1, 1, e.coin(a2, n(5_000_000))) // beyond the e-LTV
	e.advance(200 * 86400)
	e.opCalc(u1)
	twa, _ := e.app.MarketKeeper.GetTwa(e.ctx, a3)
	e.opSetPrice(a3, twa.Twa*8/10)
	e.opLiquidate(1, 1)
	e.advance(300)
	for _, a := range e.lendAuctions() {
		e.opBid(u4, a, a.auc.DebtToken.Amount)
	}
	e.opCalc(u2)
}

// c08CorpusIsolated — directed coverage: A4 is isolated collateral (variant 4): a user who borrows against it cannot open a second
// borrow against another position of that asset, and nobody is stopped by somebody else's borrow.
func c08CorpusIsolated(t *testing.T, tr *Trace, rng *Rng) {
	e := c08Setup(t, tr, rng, 4)
	e.cfgLines()
	tr.Count("corpus")
	a1, a3, a4 := e.base[0], e.base[2], e.base[3]
	u1, u2, u4 := e.users[0], e.users[1], e.users[3]
	n := func(x int64) sdk.Int { return sdk.NewInt(x) }
	e.opFundModule(u4, 2, a3, e.coin(a3, n(10_000_000_000)))
	e.opFundModule(u4, 2, a1, e.coin(a1, n(10_000_000_000)))
	e.opLend(u1, a4, e.denomOf[a4], n(5_000_000_000), 2, e.appOK) // lend 1
	e.opLend(u2, a4, e.denomOf[a4], n(5_000_000_000), 2, e.appOK) // lend 2
	cA4 := func(x int64) sdk.Coin { return sdk.Coin{Denom: e.cDenom(a4), Amount: n(x)} }
	e.opBorrow(u1, 1, 7, false, cA4(1_000_000_000), e.coin(a3, n(100_000_000)))          // borrow 1 (A4 → A3)
	e.opBorrow(u1, 1, 8, false, cA4(1_000_000_000), e.coin(a1, n(100_000_000)))          // second pair on the isolated asset: refused
	e.opBorrow(u1, 1, 7, true, cA4(500_000_000), e.coin(a3, n(10_000_000)))              // same pair: deposit-and-draw, allowed
	e.opBorrow(u2, 2, 8, e.stableOK(a4), cA4(1_000_000_000), e.coin(a1, n(100_000_000))) // another user is not affected
	e.opCloseBorrow(u1, 1)
	e.opBorrow(u1, 1, 8, false, cA4(1_000_000_000), e.coin(a1, n(100_000_000))) // after the close it works
}

// c08CorpusSecondTransit — directed coverage of the SECOND transit asset: pool 1 is short of its first transit asset (A3 is lent out),
// so a cross-pool borrow bridges A1; a stable-rate borrow on that path, a collateral top-up (DepositBorrowAsset's second branch), the
// liquidation's third condition and the close that sends the bridged A1 back.
func c08CorpusSecondTransit(t *testing.T, tr *Trace, rng *Rng) {
	e := c08Setup(t, tr, rng, 0)
	e.cfgLines()
	tr.Count("corpus")
	a1, a2, a3, a4 := e.base[0], e.base[1], e.base[2], e.base[3]
	u1, u2, u3, u4 := e.users[0], e.users[1], e.users[2], e.users[3]
	n := func(x int64) sdk.Int { return sdk.NewInt(x) }
	e.fundAppReserve(a4, n(20_000_000_000))
	e.opLend(u1, a3, e.denomOf[a3], n(10_000_000_000), 1, e.appOK) // lend 1: the collateral (stable borrowing enabled for A3)
	e.opLend(u2, a2, e.denomOf[a2], n(60_000_000_000), 1, e.appOK) // lend 2
	e.opLend(u3, a1, e.denomOf[a1], n(20_000_000_000), 1, e.appOK) // lend 3: pool 1 holds plenty of the second transit asset
	e.opLend(u4, a4, e.denomOf[a4], n(30_000_000_000), 2, e.appOK) // lend 4: what is borrowed
	// u2 borrows nearly all A3 of pool 1 (pair 1: A2 → A3)
	e.opBorrow(u2, 2, 1, false, sdk.Coin{Denom: e.cDenom(a2), Amount: n(40_000_000_000)}, e.coin(a3, n(9_999_000_000)))
	// u1: cross-pool stable borrow (pair 14: A3 → A4 of pool 2) — the first transit asset is short, A1 is bridged
	loan := e.maxLoan(a3, n(4_000_000_000), a4, c08dec("0.8"), sdk.ZeroInt()).MulRaw(66).QuoRaw(100)
	e.opBorrow(u1, 1, 14, true, sdk.Coin{Denom: e.cDenom(a3), Amount: n(4_000_000_000)}, e.coin(a4, loan))
	e.advance(30 * 86400)
	e.opDepositBorrow(u1, 2, sdk.Coin{Denom: e.cDenom(a3), Amount: n(500_000_000)})
	e.opDraw(u1, 2, e.coin(a4, n(1_000_000)))
	e.advance(100 * 86400)
	e.opCalc(u1)
	twa, _ := e.app.MarketKeeper.GetTwa(e.ctx, a3)
	e.opSetPrice(a3, twa.Twa*55/100)
	e.opSweep() // pool 1 cannot hand the collateral over: its A3 is lent out (the liquidation is refused, nothing changes)
	e.opFundModule(u4, 1, a3, e.coin(a3, n(10_000_000_000)))
	for i := 0; i < 4; i++ {
		e.opSweep()
	}
	e.advance(300)
	for _, a := range e.lendAuctions() {
		e.opBid(u3, a, a.auc.DebtToken.Amount)
	}
	e.opCalc(u1)
}

// c08CorpusMigration — the store migration 2 → 3 in the middle of a history: an e-mode borrow above the normal LTV and a stable
// borrow exist; afterwards e-mode is off (the position is over its limit: no draw, repay works), the books are untouched — and the
// asset-rates record that follows one with stable borrowing has stable borrowing enabled (the decode loop's stale variable).
func c08CorpusMigration(t *testing.T, tr *Trace, rng *Rng) {
	e := c08Setup(t, tr, rng, 0)
	e.cfgLines()
	tr.Count("corpus")
	a2, a3, a4 := e.base[1], e.base[2], e.base[3]
	u1, u2, u4 := e.users[0], e.users[1], e.users[3]
	n := func(x int64) sdk.Int { return sdk.NewInt(x) }
	e.opLend(u2, a2, e.denomOf[a2], n(50_000_000_000), 1, e.appOK) // lend 1
	e.opLend(u1, a3, e.denomOf[a3], n(10_000_000_000), 1, e.appOK) // lend 2
	e.opLend(u4, a4, e.denomOf[a4], n(10_000_000_000), 2, e.appOK) // lend 3
	e.opFundModule(u4, 2, a3, e.coin(a3, n(10_000_000_000)))
	pair, _ := e.app.LendKeeper.GetLendPair(e.ctx, 5)
	max := e.maxLoan(a3, n(8_000_000_000), a2, e.pairLTV(pair), sdk.ZeroInt())
	e.opBorrow(u1, 2, 5, false, sdk.Coin{Denom: e.cDenom(a3), Amount: n(8_000_000_000)}, e.coin(a2, max.MulRaw(97).QuoRaw(100))) // e-mode: above LTV 0.8
	e.opBorrow(u4, 3, 7, true, sdk.Coin{Denom: e.cDenom(a4), Amount: n(1_000_000_000)}, e.coin(a3, n(100_000_000)))            // stable borrowing is off for A4
	e.advance(86400)
	e.opMigrate()
	e.opDraw(u1, 1, e.coin(a2, n(1_000_000)))                                                                             // over the (now normal) LTV
	e.opRepay(u1, 1, e.coin(a2, n(50_000_000)))                                                                           // repaying still works
	e.opBorrow(u4, 3, 7, true, sdk.Coin{Denom: e.cDenom(a4), Amount: n(1_000_000_000)}, e.coin(a3, n(100_000_000))) // accepted now: the leak
	e.advance(86400)
	e.opCalc(u4)
	e.opCalc(u1)
	e.opMigrate() // a second run changes nothing more
}

// c08CorpusPoolDeletion — the block hook of x/lend: a depreciated pool without positions is swept into the reserve and deleted; the
// record's flag is set on a copy, so the next run of the hook finds the entry again, reads the deleted pool as a zero record and panics
// (the hook is then without effect for EVERY entry, also those listed after it).
func c08CorpusPoolDeletion(t *testing.T, tr *Trace, rng *Rng) {
	e := c08Setup(t, tr, rng, 0)
	e.cfgLines()
	tr.Count("corpus")
	a1, a4 := e.base[0], e.base[3]
	u1, u2, u4 := e.users[0], e.users[1], e.users[3]
	n := func(x int64) sdk.Int { return sdk.NewInt(x) }
	e.opLend(u1, a4, e.denomOf[a4], n(5_000_000_001), 2, e.appOK) // lend 1 (pool 2)
	e.opLend(u2, a1, e.denomOf[a1], n(3_000_000_000), 1, e.appOK) // lend 2 (pool 1)
	e.opFundModule(u4, 2, a1, e.coin(a1, n(777_777_777)))
	e.opFundModule(u4, 2, a4, e.coin(a4, n(1_000_001)))
	e.opFundModule(u4, 2, e.base[2], e.coin(e.base[2], n(33_333_333)))
	e.opSetDepreciatedFlag(2, false)
	e.opBeginBlock() // lend 1 still open: nothing happens
	e.opCloseLend(u1, 1)
	e.opBeginBlock() // pool 2 is swept into the reserve and deleted
	e.opSetDepreciatedFlag(1, false)
	e.opCloseLend(u2, 2)
	e.opBeginBlock() // the stale entry of pool 2 makes the hook panic: pool 1 is never swept
	e.opBeginBlock()
}

// ---------------------------------------------------------------------------------------------- test

func TestC08(t *testing.T) {
	tr := OpenTrace(t, "c08.trace")
	defer tr.Close(t)
	rng := NewRng(seed())
	c08CorpusForeignPair(t, tr, rng)
	c08CorpusHandover(t, tr, rng)
	c08CorpusTwinLends(t, tr, rng)
	c08CorpusGuards(t, tr, rng)
	c08CorpusAuctionClose(t, tr, rng, 0)
	c08CorpusAuctionClose(t, tr, rng, 2)
	c08CorpusEMode(t, tr, rng)
	c08CorpusIsolated(t, tr, rng)
	c08CorpusSecondTransit(t, tr, rng)
	c08CorpusPoolDeletion(t, tr, rng)
	c08CorpusMigration(t, tr, rng)
	seqs := scale(24, 300)
	maxOps := scale(90, 160)
	for s := 0; s < seqs; s++ {
		e := c08Setup(t, tr, rng, s)
		e.cfgLines()
		// seed liquidity so that borrowing is possible early
		for i := 0; i < 5; i++ {
			e.genLend(false)
		}
		if rng.Chance(80) {
			// pool liquidity and reserve funds, as the repository's own tests seed them (MsgFundModuleAccounts)
			for _, p := range e.app.LendKeeper.GetPools(e.ctx) {
				for _, d := range p.AssetData {
					if rng.Chance(85) {
						e.opFundModule(e.user(), p.PoolID, d.AssetID, e.coin(d.AssetID, e.rint(1_000_000_000, 30_000_000_000)))
					}
				}
			}
			for _, a := range e.base {
				if rng.Chance(75) {
					e.opFundReserve(e.user(), a, e.coin(a, e.rint(100_000_000, 3_000_000_000)))
				}
			}
		}
		for _, a := range e.base {
			// the liquidation module's app reserve covers the debt an auction cannot recover once the collateral is sold out
			if rng.Chance(60) {
				e.fundAppReserve(a, e.rint(1_000_000, 50_000_000_000))
			}
		}
		nops := rng.Range(maxOps/2, maxOps)
		killedNow := map[uint64]bool{}
		killedFor := 0
		for o := 0; o < nops; o++ {
			if killedNow[e.appOK] {
				killedFor++
				if killedFor > 6 {
					// switch it off again so that the rest of the history is not all rejections
					e.opSetKill(e.appOK, false)
					delete(killedNow, e.appOK)
					killedFor = 0
				}
			}
			switch rng.Intn(10) {
			case 0:
			case 1, 2:
				e.advance(int64(rng.Range(1, 3600)))
			case 3, 4:
				e.advance(int64(rng.Range(3600, 30*86400)))
			case 5:
				e.advance(int64(rng.Range(30*86400, 400*86400)))
			default:
				e.advance(int64(rng.Range(0, 60)))
			}
			if rng.Chance(12) && len(e.lendAuctions()) > 0 {
				e.genBid()
			}
			if o == nops/2 && s%4 == 1 {
				e.opMigrate() // the store migration 2 → 3 in the middle of every fourth history
			}
			bad := rng.Chance(18)
			if bad {
				tr.Count("stream:malformed")
			} else {
				tr.Count("stream:valid")
			}
			p := rng.Intn(100)
			switch {
			case p < 10:
				e.genLend(bad)
			case p < 17:
				e.genDeposit(bad)
			case p < 29:
				e.genWithdraw(bad)
			case p < 33:
				e.genCloseLend(bad)
			case p < 50:
				e.genBorrow(bad, false)
			case p < 55:
				e.genBorrow(bad, true)
			case p < 61:
				e.genDepositBorrow(bad)
			case p < 70:
				e.genDraw(bad)
			case p < 81:
				e.genRepay(bad)
			case p < 85:
				e.genCloseBorrow(bad, false)
			case p < 87:
				e.genCloseBorrow(bad, true)
			case p < 92:
				e.opCalc(e.user())
			case p < 95:
				e.genPrice()
			case p < 95:
				e.genLiquidate()
			case p < 96:
				e.genBid()
			case p < 98:
				e.genCrash()
			case p < 99 && rng.Chance(40):
				// emergency controls: the kill switch is toggled (it stays on for the next few messages), late in a history a pool
				// may be depreciated for good
				if rng.Chance(75) {
					_, on := killedNow[e.appOK]
					e.opSetKill(e.appOK, !on)
					if on {
						delete(killedNow, e.appOK)
					} else {
						killedNow[e.appOK] = true
					}
				} else if o > nops/2 {
					e.opSetDepreciated(uint64(rng.Range(1, 2)))
				}
			case p < 99:
				usr := e.user()
				a := e.base[rng.Intn(4)]
				c := e.coin(a, e.rint(1, 2_000_000_000))
				if bad {
					c.Denom = e.denomOf[e.base[rng.Intn(4)]] // maybe another asset's denomination
				}
				e.opFundReserve(usr, a, c)
			default:
				usr := e.user()
				a := e.base[rng.Intn(4)]
				ps := e.poolsOf(a)
				c := e.coin(a, e.rint(1, 2_000_000_000))
				pool := ps[rng.Intn(len(ps))]
				if bad {
					if rng.Chance(50) {
						c.Denom = e.denomOf[e.base[rng.Intn(4)]]
					} else {
						pool = uint64(rng.Range(0, 4))
					}
				}
				e.opFundModule(usr, pool, a, c)
			}
		}
		// wind down: closing bids on the auctions that are still open, then the owners look at their positions again
		e.advance(int64(rng.Range(1, 3000)))
		for _, a := range e.lendAuctions() {
			if rng.Chance(80) {
				e.opBid(e.user(), a, a.auc.DebtToken.Amount.AddRaw(int64(rng.Range(0, 3))))
			}
		}
		for _, usr := range e.users {
			if rng.Chance(50) {
				e.opCalc(usr)
			}
		}
		ls := e.app.LendKeeper.GetAllLend(e.ctx)
		bs := e.app.LendKeeper.GetAllBorrow(e.ctx)
		tr.Count(fmt.Sprintf("final:openAuctions:%d", c08min(len(e.lendAuctions()), 9)))
		tr.Count(fmt.Sprintf("final:lends:%d", c08min(len(ls), 9)))
		tr.Count(fmt.Sprintf("final:borrows:%d", c08min(len(bs), 9)))
	}
}
